(* Linearizability of sync2.Map (C04, DESIGN 6/C04 item 4).

   THEOREM [map_linearizable]: for every list of programs made of Load, Store,
   LoadOrStore, LoadAndDelete and Delete calls on one Map (any number of
   goroutines, any length; Range and the keyed-mutex wrappers excluded:
   [lin_frag]) and every schedule of the small-step model SyncMap/Model.v, the
   history of invocations and responses is linearizable (Lib/Lin.v, Herlihy &
   Wing's possibilities) to an ordinary map [map_spec].

   Method. Linearization points:
   - Store: the successful tryStore.cas, storeLocked, or the insertion of the
     new entry into dirty;  LoadOrStore: the load that sees a value (the entry is
     the key's current entry then), the successful tlos.cas, or the insertion;
   - LoadAndDelete / Delete that hits: the successful delete.cas on an entry of
     a read map, or - for an entry found only in dirty - the LAD_read2 step that
     removes it from dirty (from then on only the remover writes the entry:
     SetAtomic.v part A);
   - Load (hit or miss) and a missing LoadAndDelete / Delete have no fixed
     point: the entry they read may be stale (expunged and dropped at a
     promotion, or removed from dirty by someone else). They are linearized at
     SOME moment of their interval at which the key had the value they return.
   So the invariant [Inv4] is a FAMILY of possibilities sharing the abstract
   map [a] (= the contents of the state): one for every marking that declares
   some undecided calls "already linearized read-only, when the key held x",
   for x among the values [seen t] the key has had since t's invocation (a
   ghost, existentially quantified). A frame-local invariant ([lin_ref]) says
   that what a reader will return is in its [seen]: an entry it holds is
   current for the key, or gone for good and then the key was absent at some
   moment of the call and the entry's content was the key's value at some
   moment of the call. One more pass over the labels ([sf_lin]) classifies
   every step: no effect on the abstract map, or exactly the effect [map_spec]
   prescribes for the stepping call. [fam_N] / [fam_L] update the family. *)
From Typ Require Import SyncMap.Model SyncMap.Inv SyncMap.SetAtomic Lib.Lin.

(* ================================================================== *)
(* specification: an ordinary map                                      *)
(* ================================================================== *)
Definition map_spec (m : gmap Z Z) (c : call) : gmap Z Z * res :=
  match c with
  | CLoad _ k => (m, ROpt (m !! k))
  | CStore _ k v => (<[k := v]> m, RUnit)
  | CLoadOrStore _ k v _ =>
      match m !! k with Some v' => (m, RLos v' true) | None => (<[k := v]> m, RLos v false) end
  | CLoadAndDelete _ k => (delete k m, ROpt (m !! k))
  | CDelete _ k => (delete k m, RUnit)
  | CRange _ _ => (m, RRange [] 0)
  end.

(* the same, on the value of the call's key *)
Definition spec_k (c : call) (x : option Z) : option Z * res :=
  match c with
  | CLoad _ _ => (x, ROpt x)
  | CStore _ _ v => (Some v, RUnit)
  | CLoadOrStore _ _ v _ => match x with Some v' => (x, RLos v' true) | None => (Some v, RLos v false) end
  | CLoadAndDelete _ _ => (None, ROpt x)
  | CDelete _ _ => (None, RUnit)
  | CRange _ _ => (x, RRange [] 0)
  end.

Lemma map_spec_k m c :
  snd (map_spec m c) = snd (spec_k c (m !! key_of c)) /\
  fst (map_spec m c) !! key_of c = fst (spec_k c (m !! key_of c)) /\
  forall k, k <> key_of c -> fst (map_spec m c) !! k = m !! k.
Proof.
  destruct c; cbn.
  - auto.
  - split; [reflexivity|]. split; [apply lookup_insert|]. intros k0 N. apply lookup_insert_ne. congruence.
  - destruct (m !! k) eqn:E; cbn.
    + rewrite E. auto.
    + split; [reflexivity|]. split; [apply lookup_insert|]. intros k0 N. apply lookup_insert_ne. congruence.
  - split; [reflexivity|]. split; [apply lookup_delete|]. intros k0 N. apply lookup_delete_ne. congruence.
  - split; [reflexivity|]. split; [apply lookup_delete|]. intros k0 N. apply lookup_delete_ne. congruence.
  - auto.
Qed.

(* calls that can be linearized without changing the map, when the key holds x *)
Definition ro (c : call) (x : option Z) : Prop :=
  match c with
  | CLoad _ _ => True
  | CLoadAndDelete _ _ | CDelete _ _ => x = None
  | _ => False
  end.
Definition res_of (c : call) (x : option Z) : res :=
  match c with
  | CLoad _ _ => ROpt x
  | CLoadAndDelete _ _ => ROpt None
  | _ => RUnit
  end.

Lemma ro_spec m c : ro c (m !! key_of c) -> map_spec m c = (m, res_of c (m !! key_of c)).
Proof.
  destruct c; cbn; try contradiction; intros H.
  - reflexivity.
  - rewrite H. rewrite delete_notin by exact H. reflexivity.
  - rewrite delete_notin by exact H. reflexivity.
Qed.

Notation hev := (@hevent call res).
Notation lpend := (@pend call res).
Definition ev_of (e : event) : hev := match e with EvInv t c => HInv t c | EvRes t r => HRes t r end.
Definition map_hist (c : config) : list hev := map ev_of (c_hist c).

(* placing the marker of a read-only call *)
Lemma poss_mark h a (P : lpend) t c :
  poss map_spec ∅ h a P -> P t = Some (c, None) -> ro c (a !! key_of c) ->
  poss map_spec ∅ h a (upd P t (Some (c, Some (res_of c (a !! key_of c))))).
Proof.
  intros Hp Ht Hro. pose proof (poss_lin map_spec ∅ h a P t c Hp Ht) as H.
  rewrite (ro_spec a c Hro) in H. exact H.
Qed.

(* ... of all the threads of a list at once *)
Lemma poss_mark_list h a (want : nat -> option (call * option res)) (l : list nat) :
  forall (P : lpend), poss map_spec ∅ h a P -> NoDup l ->
  (forall t, In t l -> exists c, P t = Some (c, None) /\ ro c (a !! key_of c) /\
                                 want t = Some (c, Some (res_of c (a !! key_of c)))) ->
  exists P' : lpend, poss map_spec ∅ h a P' /\ forall t, P' t = if in_dec Nat.eq_dec t l then want t else P t.
Proof.
  induction l as [|t0 l IH]; intros P Hp Hnd Hl.
  - exists P. split; [exact Hp|]. intros t. reflexivity.
  - inversion Hnd as [|? ? Hnin Hnd']; subst.
    destruct (Hl t0 (or_introl eq_refl)) as (c0 & Hc0 & Hro & Hw).
    pose proof (poss_mark h a P t0 c0 Hp Hc0 Hro) as Hp1.
    destruct (IH _ Hp1 Hnd') as (P' & Hp' & HP').
    { intros t Hin. destruct (Hl t (or_intror Hin)) as (c & Hc & Hr & Hw').
      exists c. split; [|auto]. rewrite upd_other; [exact Hc|]. intros ->. contradiction. }
    exists P'. split; [exact Hp'|]. intros t. rewrite HP'.
    destruct (in_dec Nat.eq_dec t l) as [Hin|Hnin'].
    + destruct (in_dec Nat.eq_dec t (t0 :: l)) as [_|N]; [reflexivity|]. exfalso. apply N. right. exact Hin.
    + destruct (Nat.eq_dec t t0) as [->|N].
      * rewrite upd_same. destruct (in_dec Nat.eq_dec t0 (t0 :: l)) as [_|N]; [symmetry; exact Hw|].
        exfalso. apply N. left. reflexivity.
      * rewrite upd_other by exact N. destruct (in_dec Nat.eq_dec t (t0 :: l)) as [[E|Hin]|_]; [congruence|contradiction|reflexivity].
Qed.

(* ================================================================== *)
(* what a step does to the entries that are current for their key      *)
(* ================================================================== *)
Record trans2 (s s' : mstate) : Prop := {
  (* a current entry stays current, or leaves for good, unchanged, at a moment the key is absent *)
  t2_cur : forall k e, reach s k = Some e ->
           reach s' k = Some e \/
           (get_ent s' e = get_ent s e /\ unreachable s' e /\ (abs_lookup s k = None \/ abs_lookup s' k = None));
  t2_read : forall k e, read_m s !! k = Some e -> read_m s' !! k = Some e \/ abs_lookup s k = None;
  (* only current entries are written, except that a removed entry is set to nil by its remover *)
  t2_write : forall e, e < next_e s -> get_ent s' e <> get_ent s e ->
             (exists k, reach s k = Some e) \/ get_ent s' e = PNil
}.

Lemma trans2_refl s : trans2 s s.
Proof. constructor; auto. intros e _ H. congruence. Qed.

Lemma trans2_same s s' :
  ents s' = ents s -> read_m s' = read_m s -> amended s' = amended s -> dirty s' = dirty s -> trans2 s s'.
Proof.
  intros He Hr Ha Hd.
  assert (R : forall k, reach s' k = reach s k) by (intros; unfold reach, dirty_lookup; rewrite Hr, Ha, Hd; reflexivity).
  constructor.
  - intros k e H. left. rewrite R. exact H.
  - intros k e H. left. rewrite Hr. exact H.
  - intros e _ H. exfalso. apply H. unfold get_ent. rewrite He. reflexivity.
Qed.

Lemma trans2_post_misses s s1 m : trans2 s s1 -> trans2 s (st_with_misses s1 m).
Proof. intros [T1 T2 T3]. constructor; auto. Qed.

(* writing the pointer of an entry that is current for some key *)
Lemma trans2_set_cur s e p k0 : reach s k0 = Some e -> trans2 s (set_ent s e p).
Proof.
  intros Hc. constructor.
  - intros k e0 H. left. exact H.
  - intros k e0 H. left. exact H.
  - intros e0 _ H. left. rewrite get_ent_set_ent in H. destruct (decide (e0 = e)) as [->|]; [eauto|congruence].
Qed.

(* the remover sets its removed entry to nil *)
Lemma trans2_set_nil s e : trans2 s (set_ent s e PNil).
Proof.
  constructor.
  - intros k e0 H. left. exact H.
  - intros k e0 H. left. exact H.
  - intros e0 _ H. right. rewrite get_ent_set_ent in *. destruct (decide (e0 = e)); [reflexivity|congruence].
Qed.

Lemma e_load_exp s e : is_exp s e = true -> e_load s e = None.
Proof. intros H. apply is_exp_get in H. unfold e_load. rewrite H. reflexivity. Qed.

Lemma trans2_promote s d :
  WF_core s -> WF_ad s -> dirty s = Some d ->
  trans2 s (MState (ents s) (next_e s) d false None 0).
Proof.
  intros Hc Ha Hd.
  assert (Ham : amended s = true).
  { destruct (amended s) eqn:E; [reflexivity|]. pose proof (wf_unamended s Ha E). congruence. }
  assert (Dead : forall k e, read_m s !! k = Some e -> is_exp s e = true ->
            unreachable (MState (ents s) (next_e s) d false None 0) e).
  { intros k e Hk He k' [H|H]; cbn in H; [|discriminate].
    assert (is_exp s e = false); [|congruence]. apply (wf_dirty_live s Hc k'). unfold dirty_lookup. rewrite Hd. exact H. }
  constructor.
  - intros k e H. unfold reach in *. cbn. destruct (read_m s !! k) as [e0|] eqn:Hk.
    + injection H as ->. rewrite (wf_cover s Ha d k e Hd Hk). destruct (is_exp s e) eqn:He.
      * right. split; [reflexivity|]. split; [eapply Dead; eauto|]. left.
        unfold abs_lookup, reach. rewrite Hk. apply e_load_exp, He.
      * left. reflexivity.
    + rewrite Ham in H. unfold dirty_lookup in H. rewrite Hd in H. rewrite H. left. reflexivity.
  - intros k e Hk. cbn. rewrite (wf_cover s Ha d k e Hd Hk). destruct (is_exp s e) eqn:He.
    + right. unfold abs_lookup, reach. rewrite Hk. apply e_load_exp, He.
    + left. reflexivity.
  - intros e _ H. exfalso. apply H. reflexivity.
Qed.

Lemma trans2_insert_new s d key v :
  WF_core s -> dirty s = Some d -> read_m s !! key = None -> d !! key = None ->
  (amended s = true \/ forall k' e, d !! k' = Some e -> read_m s !! k' = Some e) ->
  trans2 s (MState (<[next_e s := PVal v]> (ents s)) (S (next_e s)) (read_m s) true (Some (<[key := next_e s]> d)) (misses s)).
Proof.
  intros Hc Hd Hk Hdk Hor. constructor.
  - intros k e H. left. unfold reach in *. cbn. destruct (read_m s !! k) as [e0|] eqn:Hrk; [exact H|].
    destruct (decide (k = key)) as [->|N].
    + exfalso. unfold dirty_lookup in H. rewrite Hd, Hdk in H. destruct (amended s); discriminate.
    + rewrite lookup_insert_ne by congruence. destruct (amended s) eqn:Ham.
      * unfold dirty_lookup in H. rewrite Hd in H. exact H.
      * discriminate.
  - intros k e H. left. exact H.
  - intros e He H. exfalso. apply H. unfold get_ent. cbn. rewrite lookup_insert_ne by lia. reflexivity.
Qed.

Lemma trans2_unexpunge s d key e :
  dirty s = Some d -> read_m s !! key = Some e ->
  trans2 s (MState (<[e := PNil]> (ents s)) (next_e s) (read_m s) (amended s) (Some (<[key := e]> d)) (misses s)).
Proof.
  intros Hd Hk. constructor.
  - intros k e0 H. left. unfold reach in *. cbn. destruct (read_m s !! k) as [e1|] eqn:Hrk; [exact H|].
    assert (k <> key) by congruence. rewrite lookup_insert_ne by congruence.
    unfold dirty_lookup in H. rewrite Hd in H. exact H.
  - intros k e0 H. left. exact H.
  - intros e0 _ H. left. exists key. unfold get_ent in H. cbn in H.
    destruct (decide (e0 = e)) as [->|N]; [unfold reach; rewrite Hk; reflexivity|].
    rewrite lookup_insert_ne in H by congruence. congruence.
Qed.

Lemma trans2_dirty_delete s key :
  WF_core s -> read_m s !! key = None -> trans2 s (dirty_delete s key).
Proof.
  intros Hc Hk. unfold dirty_delete. destruct (dirty s) as [d|] eqn:Hd; [|apply trans2_refl].
  constructor.
  - intros k e H. destruct (decide (k = key)) as [->|N].
    + right. split; [reflexivity|]. split.
      * assert (Hdk : dirty_lookup s key = Some e).
        { unfold reach in H. rewrite Hk in H. destruct (amended s); [exact H|discriminate]. }
        intros k' [H'|H']; cbn in H'.
        -- assert (k' = key) by (apply (wf_inj s Hc k' key e); [left|right]; assumption). congruence.
        -- apply lookup_delete_Some in H' as [N H']. apply N.
           apply (wf_inj s Hc key k' e); right; [exact Hdk|unfold dirty_lookup; rewrite Hd; exact H'].
      * right. unfold abs_lookup, reach, dirty_lookup. cbn. rewrite Hk, lookup_delete. destruct (amended s); reflexivity.
    + left. unfold reach, dirty_lookup in *. cbn. rewrite Hd in H. rewrite lookup_delete_ne by congruence. exact H.
  - intros k e H. left. exact H.
  - intros e _ H. exfalso. apply H. reflexivity.
Qed.

(* the dirty map changes while read is not amended: nothing current changes *)
Lemma trans2_unamended s s' :
  ents s' = ents s -> read_m s' = read_m s -> amended s' = amended s -> amended s = false -> trans2 s s'.
Proof.
  intros He Hr Ha Ham.
  assert (R : forall k, reach s' k = reach s k) by (intros; unfold reach; rewrite Hr, Ha, Ham; reflexivity).
  constructor.
  - intros k e H. left. rewrite R. exact H.
  - intros k e H. left. rewrite Hr. exact H.
  - intros e _ H. exfalso. apply H. unfold get_ent. rewrite He. reflexivity.
Qed.

(* ================================================================== *)
(* the calls covered, their decided results, what a frame remembers    *)
(* ================================================================== *)
Definition lin_frag (c : call) : Prop :=
  call_inst c = 0 /\ match c with CLoadOrStore _ _ _ p => p = PNone | CRange _ _ => False | _ => True end.

(* the result the history records for a call that returns r (Delete drops LoadAndDelete's result) *)
Definition rep (c : call) (r : res) : res := match c with CDelete _ _ => RUnit | _ => r end.

(* the call has passed its linearization point: its result is fixed *)
Definition dec (s : mstate) (f : frame) : option res :=
  match f_call f with
  | CStore _ _ _ => match f_pc f with Store_unlock => Some RUnit | _ => None end
  | CLoadOrStore _ _ _ _ =>
      match f_pc f with LOS_unlock | Miss_store => Some (RLos (f_los f).1 (f_los f).2) | _ => None end
  | CLoadAndDelete _ _ =>
      if is_priv f then
        match f_e f with
        | Some e => match get_ent s e with PVal v => Some (ROpt (Some v)) | _ => None end
        | None => None
        end
      else None
  | CDelete _ _ => if is_priv f then match f_e f with Some _ => Some RUnit | None => None end else None
  | _ => None
  end.

(* an entry a reader holds: current for the key, or gone for good - and then the
   key was absent at some moment of the call and the entry's content was the
   key's value at some moment of the call *)
Definition held_ok (s : mstate) (k : Z) (e : nat) (S : option Z -> Prop) : Prop :=
  e < next_e s /\ (reach s k = Some e \/ (S None /\ S (e_load s e) /\ unreachable s e)).

(* [S] = the values the key has had since the call was invoked *)
Definition lin_ref (s : mstate) (f : frame) (S : option Z -> Prop) : Prop :=
  let k := key_of (f_call f) in
  match f_call f with
  | CLoad _ _ =>
      match f_pc f with
      | Miss_store | Load_unlock | E_load => match f_e f with Some e => held_ok s k e S | None => S None end
      | _ => True
      end
  | CLoadAndDelete _ _ | CDelete _ _ =>
      match f_pc f with
      | Miss_store | LAD_unlock | Delete_load | Delete_cas =>
          match f_e f with
          | Some e => match f_rd_m f !! k with Some _ => read_m s !! k = Some e \/ S None | None => True end
          | None => S None
          end
      | _ => True
      end
  | CStore _ _ _ => match f_pc f with StoreLocked => forall e, f_e f = Some e -> reach s k = Some e | _ => True end
  | _ => True
  end.

Lemma held_ok_mono s k e (S S' : option Z -> Prop) : (forall x, S x -> S' x) -> held_ok s k e S -> held_ok s k e S'.
Proof. intros H [Hb [Hc|(H1 & H2 & H3)]]; split; auto. Qed.

Lemma lin_ref_mono s f (S S' : option Z -> Prop) : (forall x, S x -> S' x) -> lin_ref s f S -> lin_ref s f S'.
Proof.
  intros H. unfold lin_ref. repeat case_match; try exact (fun x => x); auto.
  - apply held_ok_mono; exact H.
  - apply held_ok_mono; exact H.
  - apply held_ok_mono; exact H.
  - intros [?|?]; auto.
  - intros [?|?]; auto.
  - intros [?|?]; auto.
  - intros [?|?]; auto.
  - intros [?|?]; auto.
  - intros [?|?]; auto.
  - intros [?|?]; auto.
  - intros [?|?]; auto.
Qed.

(* a held entry across a step *)
Lemma held_ok_step s s' w k e (S S' : option Z -> Prop) :
  trans s s' w -> trans2 s s' -> (forall x, S x -> S' x) -> S (abs_lookup s k) -> S' (abs_lookup s' k) ->
  held_ok s k e S -> held_ok s' k e S'.
Proof.
  intros [T1 T2 T3 T4] [U1 U2 U3] Hm H0 H0' [Hb Hor]. split; [lia|].
  destruct Hor as [Hc|(Hn & Hv & Hu)].
  - destruct (U1 k e Hc) as [Hc'|(He & Hu' & Ha)]; [left; exact Hc'|].
    right. assert (Hl : e_load s' e = e_load s e) by (unfold e_load; rewrite He; reflexivity).
    assert (Habs : abs_lookup s k = e_load s e) by (unfold abs_lookup; rewrite Hc; reflexivity).
    split; [|split; [|exact Hu']].
    + destruct Ha as [Ha|Ha]; [apply Hm; rewrite <- Ha; exact H0|rewrite <- Ha; exact H0'].
    + rewrite Hl, <- Habs. apply Hm, H0.
  - right. split; [auto|]. split; [|auto].
    destruct (ptr_eq_dec (get_ent s' e) (get_ent s e)) as [E|N].
    + unfold e_load. rewrite E. apply Hm, Hv.
    + destruct (U3 e Hb N) as [[k' Hk']|Hnil].
      * exfalso. apply (Hu k'). apply reach_reach_any. exact Hk'.
      * unfold e_load. rewrite Hnil. apply Hm, Hn.
Qed.

(* ---- one step, as far as linearization is concerned ---- *)
Definition lin_post (s s' : mstate) (f : frame) (o : outcome) (S : option Z -> Prop) : Prop :=
  let c := f_call f in
  let k := key_of c in
  let S' := fun x => S x \/ x = abs_lookup s' k in
  (forall k0, k0 <> k -> abs_lookup s' k0 = abs_lookup s k0) /\ trans2 s s' /\
  ((abs_lookup s' k = abs_lookup s k /\
    match o with
    | Continue f' => dec s' f' = dec s f /\ lin_ref s' f' S'
    | Return r => dec s f = Some (rep c r) \/ (dec s f = None /\ exists x, ro c x /\ rep c r = res_of c x /\ S' x)
    | Callback _ _ _ => False
    end) \/
   (dec s f = None /\ abs_lookup s' k = fst (spec_k c (abs_lookup s k)) /\
    match o with
    | Continue f' => dec s' f' = Some (snd (spec_k c (abs_lookup s k))) /\ lin_ref s' f' S'
    | Return r => rep c r = snd (spec_k c (abs_lookup s k))
    | Callback _ _ _ => False
    end)).

(* no linearization point in this step, the state does not change *)
Lemma lin_same s f o (S : option Z -> Prop) :
  match o with
  | Continue f' => dec s f' = dec s f /\ lin_ref s f' (fun x => S x \/ x = abs_lookup s (key_of (f_call f)))
  | Return r => dec s f = Some (rep (f_call f) r) \/
                (dec s f = None /\ exists x, ro (f_call f) x /\ rep (f_call f) r = res_of (f_call f) x /\
                                            (S x \/ x = abs_lookup s (key_of (f_call f))))
  | Callback _ _ _ => False
  end -> lin_post s s f o S.
Proof. intros H. split; [reflexivity|]. split; [apply trans2_refl|]. left. split; [reflexivity|exact H]. Qed.

(* no linearization point, the abstract contents do not change *)
Lemma lin_abs_same s s' f o (S : option Z -> Prop) :
  (forall k0, abs_lookup s' k0 = abs_lookup s k0) -> trans2 s s' ->
  match o with
  | Continue f' => dec s' f' = dec s f /\ lin_ref s' f' (fun x => S x \/ x = abs_lookup s' (key_of (f_call f)))
  | Return r => dec s f = Some (rep (f_call f) r) \/
                (dec s f = None /\ exists x, ro (f_call f) x /\ rep (f_call f) r = res_of (f_call f) x /\
                                            (S x \/ x = abs_lookup s' (key_of (f_call f))))
  | Callback _ _ _ => False
  end -> lin_post s s' f o S.
Proof. intros Ha Ht H. split; [intros; apply Ha|]. split; [exact Ht|]. left. split; [apply Ha|exact H]. Qed.

Lemma dec_after_miss i f i' f' :
  after_miss i f = (i', f') ->
  i_st i' = st_with_misses (i_st i) (misses (i_st i) + 1) /\ f_call f' = f_call f /\ f_e f' = f_e f /\ f_rd_m f' = f_rd_m f /\
  f_los f' = f_los f /\ (f_pc f' = Miss_store \/ f_pc f' = unlock_label (f_call f)).
Proof. unfold after_miss. intros H. case_match; simplify_eq; cbn; auto 10. Qed.

Lemma abs_reach_none s k : reach s k = None -> abs_lookup s k = None.
Proof. unfold abs_lookup. intros ->. reflexivity. Qed.
Lemma abs_reach s k e : reach s k = Some e -> abs_lookup s k = e_load s e.
Proof. unfold abs_lookup. intros ->. reflexivity. Qed.

Lemma reach_dirty s k e : read_m s !! k = None -> amended s = true -> dirty_lookup s k = Some e -> reach s k = Some e.
Proof. unfold reach. intros -> -> H. exact H. Qed.

Lemma WF_ad_amended s : WF_ad s -> dirty s <> None -> amended s = true.
Proof. intros Ha Hd. destruct (amended s) eqn:E; [reflexivity|]. exfalso. apply Hd. apply (wf_unamended s Ha E). Qed.

Section LinStep.
Variables (t : nat) (i : inst) (f : frame) (ch : Z) (S : option Z -> Prop).
Hypothesis Hok : frame_ok f.
Hypothesis Hc : WF_core (i_st i).
Hypothesis Hw : in_cs f = true -> WFL (i_st i) f.
Hypothesis H2 : WF2 (i_st i).
Hypothesis Hr : ref_inv (i_st i) f.
Hypothesis Hl : lin_ref (i_st i) f S.
Hypothesis HS0 : S (abs_lookup (i_st i) (key_of (f_call f))).

(* ---- Load ---- *)
Lemma lin_Load j k i' o :
  f_call f = CLoad j k -> frame_pc_ok f -> step_frame t i f ch = Some (Ok (i', o)) ->
  lin_post (i_st i) (i_st i') f o S.
Proof.
  intros Hcall Hpk H. pose proof Hok as [He Hst Hdel Hpost]. pose proof Hw as Hw'. pose proof Hl as Hl'. pose proof HS0 as HS.
  destruct Hr as [_ Hrp].
  unfold frame_pc_ok in Hpk. rewrite Hcall in Hpk. rewrite Hcall in HS. cbn [key_of] in HS.
  unfold step_frame in H. unfold WFL, in_cs in Hw'. unfold cs_class in Hw'. unfold ref_prom in Hrp.
  unfold lin_ref in Hl'. rewrite Hcall in Hl'. cbn [key_of] in Hl'.
  assert (D0 : forall s1 f1, f_call f1 = f_call f -> dec s1 f1 = None) by (intros s1 f1 E; unfold dec; rewrite E, Hcall; reflexivity).
  assert (LR : forall s1 f1 (S1 : option Z -> Prop), f_call f1 = f_call f ->
            lin_ref s1 f1 S1 = match f_pc f1 with
                               | Miss_store | Load_unlock | E_load =>
                                   match f_e f1 with Some e => held_ok s1 k e S1 | None => S1 None end
                               | _ => True end)
    by (intros s1 f1 S1 E; unfold lin_ref; rewrite E, Hcall; reflexivity).
  destruct (f_pc f) eqn:Hpc; try discriminate Hpk; rewrite ?Hcall in H; cbn in H, Hw', Hrp, Hl'.
  - (* Load_read1 *)
    destruct (read_m (i_st i) !! k) as [e|] eqn:Hk; [|destruct (amended (i_st i)) eqn:Ham]; simplify_eq; apply lin_same.
    + rewrite !D0 by reflexivity. split; [reflexivity|]. rewrite LR by reflexivity. cbn.
      split; [eapply (wf_bound _ Hc); left; eauto|]. left. unfold reach. rewrite Hk. reflexivity.
    + rewrite !D0 by reflexivity. split; [reflexivity|]. rewrite LR by reflexivity. exact I.
    + right. rewrite D0 by reflexivity. split; [reflexivity|]. exists None. rewrite Hcall. cbn.
      split; [exact I|]. split; [reflexivity|]. left.
      rewrite abs_reach_none in HS; [exact HS|]. unfold reach. rewrite Hk, Ham. reflexivity.
  - (* Load_lock *)
    destruct (i_mu i); simplify_eq. apply lin_same. rewrite !D0 by reflexivity. split; [reflexivity|]. rewrite LR by reflexivity. exact I.
  - (* Load_read2 *)
    destruct (Hw' eq_refl) as [_ Hwa].
    destruct (read_m (i_st i) !! k) as [e|] eqn:Hk; [|destruct (amended (i_st i)) eqn:Ham].
    + simplify_eq. apply lin_same. rewrite !D0 by reflexivity. split; [reflexivity|]. rewrite LR by reflexivity. cbn.
      split; [eapply (wf_bound _ Hc); left; eauto|]. left. unfold reach. rewrite Hk. reflexivity.
    + destruct (after_miss _ _) as [i2 f2] eqn:Eam. simplify_eq.
      apply dec_after_miss in Eam as (E1 & E2 & E3 & E4 & _ & E6). cbn in E2, E3, E4, E6. rewrite E1.
      apply lin_abs_same; [intros; apply abs_misses|apply trans2_same; reflexivity|].
      rewrite !D0 by (rewrite ?E2; reflexivity). split; [reflexivity|]. rewrite LR by exact E2. rewrite E3.
      rewrite Hcall in E6. cbn in E6.
      assert (X : match dirty_lookup (i_st i) k with
                  | Some e => held_ok (st_with_misses (i_st i) (misses (i_st i) + 1)) k e
                                (fun x => S x \/ x = abs_lookup (st_with_misses (i_st i) (misses (i_st i) + 1)) (key_of (f_call f)))
                  | None => S None \/ None = abs_lookup (st_with_misses (i_st i) (misses (i_st i) + 1)) (key_of (f_call f))
                  end).
      { destruct (dirty_lookup (i_st i) k) as [e|] eqn:Hd.
        - split; [eapply (wf_bound _ Hc); right; eauto|]. left. apply reach_dirty; assumption.
        - left. rewrite abs_reach_none in HS; [exact HS|]. unfold reach. rewrite Hk, Ham. exact Hd. }
      destruct E6 as [-> | ->]; exact X.
    + simplify_eq. apply lin_same. rewrite !D0 by reflexivity. split; [reflexivity|]. rewrite LR by reflexivity. cbn.
      left. rewrite abs_reach_none in HS; [exact HS|]. unfold reach. rewrite Hk, Ham. reflexivity.
  - (* Load_unlock *)
    destruct (f_e f) as [e|] eqn:Hfe; simplify_eq; apply lin_same.
    + rewrite !D0 by reflexivity. split; [reflexivity|]. rewrite LR by reflexivity. cbn. rewrite Hfe.
      eapply held_ok_mono; [|exact Hl']. auto.
    + right. rewrite D0 by reflexivity. split; [reflexivity|]. exists None. rewrite Hcall. cbn. auto.
  - (* E_load *)
    destruct (f_e f) as [e|] eqn:Hfe; [|discriminate].
    assert (HX : S (e_load (i_st i) e)).
    { destruct Hl' as [_ [Hcur|(_ & Hv & _)]]; [|exact Hv]. rewrite (abs_reach _ _ _ Hcur) in HS. exact HS. }
    unfold e_load in HX. change (get_ent (i_st i) e) with (ent i e) in HX.
    destruct (ent i e) eqn:Hent; simplify_eq; apply lin_same; right; (rewrite D0 by reflexivity); (split; [reflexivity|]);
      rewrite Hcall; cbn; eexists; (split; [exact I|]); (split; [reflexivity|]); left; exact HX.
  - (* Miss_store *)
    destruct (Hw' eq_refl) as [_ Hwa]. destruct (dirty (i_st i)) as [d|] eqn:Hd; [|congruence]. simplify_eq. cbn.
    assert (Ht : trans (i_st i) (MState (ents (i_st i)) (next_e (i_st i)) (default ∅ (dirty (i_st i))) false None 0) None)
      by (eapply trans_promote; eauto).
    rewrite Hd in Ht. cbn in Ht.
    pose proof (trans2_promote _ d Hc Hwa Hd) as Ht2.
    apply lin_abs_same; [intros; apply abs_promote; auto|exact Ht2|].
    rewrite !D0 by reflexivity. split; [reflexivity|]. rewrite LR by reflexivity. cbn.
    destruct (f_e f) as [e|]; [|left; exact Hl'].
    eapply held_ok_step; [exact Ht|exact Ht2| | | |exact Hl']; cbn; auto.
    rewrite Hcall. cbn. auto.
Qed.

(* ---- dirtyLocked, shared by Store and LoadOrStore ---- *)
Definition loop_pc (l : label) : bool :=
  match l with Dirty_read | Dirty_iter | Expunge_load1 | Expunge_cas | Expunge_load2 | Store_amend | LOS_amend => true | _ => false end.
Definition store_like (c : call) : bool := match c with CStore _ _ _ | CLoadOrStore _ _ _ _ => true | _ => false end.

Lemma loop_dec_ref s1 f1 (S1 : option Z -> Prop) :
  store_like (f_call f1) = true -> loop_pc (f_pc f1) = true -> dec s1 f1 = None /\ lin_ref s1 f1 S1.
Proof.
  unfold dec, lin_ref. destruct (f_call f1); try discriminate; intros _; destruct (f_pc f1); try discriminate; auto.
Qed.

Lemma loop_pc_dirty_next f1 : store_like (f_call f1) = true -> loop_pc (f_pc (dirty_next f1)) = true /\ f_call (dirty_next f1) = f_call f1.
Proof.
  unfold dirty_next. destruct (unvisited _ _); cbn; [|auto]. destruct (f_call f1); try discriminate; auto.
Qed.

Lemma lin_loop i' o :
  store_like (f_call f) = true -> loop_pc (f_pc f) = true -> f_pc f <> Store_amend -> f_pc f <> LOS_amend ->
  step_frame t i f ch = Some (Ok (i', o)) -> lin_post (i_st i) (i_st i') f o S.
Proof.
  intros Hsl Hlp Hna1 Hna2 H. pose proof Hok as [He Hst Hdel Hpost]. pose proof Hw as Hw'.
  unfold step_frame in H. unfold WFL, in_cs in Hw'. unfold cs_class in Hw'.
  assert (D0 : dec (i_st i) f = None) by (apply (loop_dec_ref _ _ S); auto).
  assert (NX : forall s1 f1, store_like (f_call f1) = true -> loop_pc (f_pc f1) = true ->
            dec s1 f1 = dec (i_st i) f /\ lin_ref s1 f1 (fun x => S x \/ x = abs_lookup s1 (key_of (f_call f)))).
  { intros s1 f1 A B. rewrite D0. apply loop_dec_ref; auto. }
  assert (DN : forall s1 f1, f_call f1 = f_call f ->
            dec s1 (dirty_next f1) = dec (i_st i) f /\ lin_ref s1 (dirty_next f1) (fun x => S x \/ x = abs_lookup s1 (key_of (f_call f)))).
  { intros s1 f1 E. assert (store_like (f_call f1) = true) by (rewrite E; exact Hsl).
    destruct (loop_pc_dirty_next f1) as [A B]; auto. apply NX; [rewrite B|]; auto. }
  destruct (f_pc f) eqn:Hpc; try discriminate Hlp; try congruence; cbn in H, Hw', He.
  - (* Dirty_read *)
    destruct (Hw' eq_refl) as [_ (Hwa & Hd & Hk)]. simplify_eq. cbn.
    assert (Ham : amended (i_st i) = false).
    { destruct (amended (i_st i)) eqn:E; [|reflexivity]. exfalso. eapply wf_amended; eauto. }
    apply lin_abs_same.
    + intros k0. apply abs_unamended; try reflexivity. exact Ham.
    + apply trans2_unamended; try reflexivity. exact Ham.
    + apply DN. reflexivity.
  - (* Dirty_iter *)
    repeat case_match; simplify_eq. apply lin_same. apply NX; [exact Hsl|reflexivity].
  - (* Expunge_load1 *)
    destruct (Hw' eq_refl) as [_ (vis & _ & _ & _ & (_ & L2 & _))].
    destruct (f_e f) as [e|] eqn:Hfe; [|discriminate].
    unfold expunge_done, bind in H.
    destruct (ent i e) eqn:Hent.
    + simplify_eq. apply lin_same. apply NX; [exact Hsl|reflexivity].
    + cbn in H. simplify_eq. apply lin_same. apply DN. reflexivity.
    + destruct (dirty_insert (i_st i) (f_curk f) e) as [s'|] eqn:Hs'; [|discriminate].
      cbn in H. simplify_eq. cbn.
      unfold dirty_insert in Hs'. destruct (dirty (i_st i)); [|discriminate]. injection Hs' as <-.
      apply lin_abs_same.
      * intros k0. apply abs_unamended; try reflexivity. exact L2.
      * apply trans2_unamended; try reflexivity. exact L2.
      * apply DN. reflexivity.
  - (* Expunge_cas *)
    destruct (Hw' eq_refl) as [_ (vis & _ & _ & Hcur & (L1 & L2 & _))].
    destruct (f_e f) as [e|] eqn:Hfe; [|discriminate].
    destruct (ent i e) eqn:Hent; simplify_eq; try (apply lin_same; apply NX; [exact Hsl|reflexivity]).
    cbn. apply lin_abs_same.
    + intros k0. apply abs_expunge; [apply is_exp_of_ent; congruence|]. unfold ent in Hent. intros v0. congruence.
    + apply (trans2_set_cur _ _ _ (f_curk f)). unfold reach. rewrite <- L1, Hcur. reflexivity.
    + apply DN. reflexivity.
  - (* Expunge_load2 *)
    destruct (Hw' eq_refl) as [_ (vis & _ & _ & _ & (_ & L2 & _))].
    destruct (f_e f) as [e|] eqn:Hfe; [|discriminate].
    unfold expunge_done, bind in H.
    destruct (ent i e) eqn:Hent.
    + simplify_eq. apply lin_same. apply NX; [exact Hsl|reflexivity].
    + cbn in H. simplify_eq. apply lin_same. apply DN. reflexivity.
    + destruct (dirty_insert (i_st i) (f_curk f) e) as [s'|] eqn:Hs'; [|discriminate].
      cbn in H. simplify_eq. cbn.
      unfold dirty_insert in Hs'. destruct (dirty (i_st i)); [|discriminate]. injection Hs' as <-.
      apply lin_abs_same.
      * intros k0. apply abs_unamended; try reflexivity. exact L2.
      * apply trans2_unamended; try reflexivity. exact L2.
      * apply DN. reflexivity.
Qed.
End LinStep.

Section LinStep2.
Variables (t : nat) (i : inst) (f : frame) (ch : Z) (S : option Z -> Prop).
Hypothesis Hok : frame_ok f.
Hypothesis Hc : WF_core (i_st i).
Hypothesis Hw : in_cs f = true -> WFL (i_st i) f.
Hypothesis H2 : WF2 (i_st i).
Hypothesis Hr : ref_inv (i_st i) f.
Hypothesis Hl : lin_ref (i_st i) f S.
Hypothesis HS0 : S (abs_lookup (i_st i) (key_of (f_call f))).

(* a value is written into the entry that is current for the key *)
Lemma abs_write_cur s e k v :
  WF_core s -> reach s k = Some e ->
  (forall k0, k0 <> k -> abs_lookup (set_ent s e (PVal v)) k0 = abs_lookup s k0) /\
  abs_lookup (set_ent s e (PVal v)) k = Some v.
Proof.
  intros Hcs Hre. split.
  - intros k0 N. eapply abs_set_ent_other; eauto. apply reach_reach_any. exact Hre.
  - rewrite abs_set_ent, decide_True by exact Hre. reflexivity.
Qed.

(* ---- Store ---- *)
Lemma lin_Store j k v i' o :
  f_call f = CStore j k v -> frame_pc_ok f -> step_frame t i f ch = Some (Ok (i', o)) ->
  lin_post (i_st i) (i_st i') f o S.
Proof.
  intros Hcall Hpk H.
  destruct (loop_pc (f_pc f)) eqn:Hlp.
  { destruct (f_pc f) eqn:Hpc; try discriminate Hlp.
    1:{ (* Store_amend *)
      pose proof Hw as Hw'. unfold step_frame in H. unfold WFL, in_cs in Hw'. unfold cs_class in Hw'. rewrite Hpc in H, Hw'. cbn in Hw'.
      destruct (Hw' eq_refl) as [_ [(L1 & L2 & L3 & d & L4 & L5 & L6) Hall]]. rewrite Hcall in L3, H. cbn in L3, H.
      unfold new_entry, dirty_insert, bind in H. cbn in H. rewrite L4 in H. simplify_eq. cbn. rewrite L1.
      assert (Hsub : forall k' e, d !! k' = Some e -> read_m (i_st i) !! k' = Some e) by (intros k' e Hd; apply (L6 k' e Hd)).
      assert (Hdk : d !! k = None). { destruct (d !! k) eqn:E; [|reflexivity]. apply Hsub in E. congruence. }
      split; [|split].
      - rewrite Hcall. cbn. intros k0 N. rewrite abs_amend by auto. rewrite decide_False by exact N. reflexivity.
      - apply trans2_insert_new; auto.
      - right. rewrite Hcall. cbn. split; [unfold dec; rewrite Hcall, Hpc; reflexivity|].
        split; [rewrite abs_amend by auto; rewrite decide_True by reflexivity; reflexivity|].
        split; [unfold dec; cbn; rewrite Hcall; reflexivity|]. unfold lin_ref. cbn. rewrite Hcall. exact I. }
    all: try (unfold frame_pc_ok in Hpk; rewrite Hcall, Hpc in Hpk; discriminate Hpk).
    all: eapply lin_loop; eauto; try (rewrite Hcall; reflexivity); try (rewrite Hpc; reflexivity); rewrite Hpc; discriminate. }
  pose proof Hok as [He Hst Hdel Hpost]. pose proof Hw as Hw'. pose proof Hl as Hl'. destruct Hr as [Hre Hrp].
  unfold frame_pc_ok in Hpk. rewrite Hcall in Hpk.
  unfold step_frame in H. unfold WFL, in_cs in Hw'. unfold cs_class in Hw'. unfold ref_e in Hre.
  unfold lin_ref in Hl'. rewrite Hcall in Hl', Hre. cbn [key_of] in Hl', Hre.
  assert (DE : forall s1 f1, f_call f1 = f_call f -> dec s1 f1 = match f_pc f1 with Store_unlock => Some RUnit | _ => None end)
    by (intros s1 f1 E; unfold dec; rewrite E, Hcall; reflexivity).
  assert (LR : forall s1 f1 (S1 : option Z -> Prop), f_call f1 = f_call f ->
            lin_ref s1 f1 S1 = match f_pc f1 with StoreLocked => forall e, f_e f1 = Some e -> reach s1 k = Some e | _ => True end)
    by (intros s1 f1 S1 E; unfold lin_ref; rewrite E, Hcall; reflexivity).
  destruct (f_pc f) eqn:Hpc; try discriminate Hpk; try discriminate Hlp; rewrite ?Hcall in H; cbn in H, Hw', Hl', Hre, He.
  - (* Store_read1 *)
    repeat case_match; simplify_eq; apply lin_same; rewrite !DE, LR by reflexivity; cbn; rewrite Hpc; auto.
  - (* Store_lock *)
    repeat case_match; simplify_eq; apply lin_same; rewrite !DE, LR by reflexivity; cbn; rewrite Hpc; auto.
  - (* Store_read2 *)
    destruct (Hw' eq_refl) as [_ Hwa]. unfold new_entry, dirty_insert, bind in H. cbn in H.
    destruct (read_m (i_st i) !! k) as [e0|] eqn:Hk.
    { simplify_eq. apply lin_same. rewrite !DE, LR by reflexivity. cbn. rewrite Hpc. auto. }
    destruct (dirty_lookup (i_st i) k) as [e1|] eqn:Hdk.
    { simplify_eq. apply lin_same. rewrite !DE, LR by reflexivity. cbn. rewrite Hpc. split; [reflexivity|].
      intros e [= <-]. apply reach_dirty; auto. apply WF_ad_amended; auto. eapply dirty_lookup_some; eauto. }
    destruct (amended (i_st i)) eqn:Ham.
    + destruct (dirty (i_st i)) as [d|] eqn:Hd; [|discriminate]. simplify_eq. cbn.
      assert (Hdk' : d !! k = None) by (unfold dirty_lookup in Hdk; rewrite Hd in Hdk; exact Hdk).
      split; [|split].
      * rewrite Hcall. cbn. intros k0 N. rewrite abs_insert_new by auto. rewrite decide_False by exact N. reflexivity.
      * apply trans2_insert_new; auto.
      * right. rewrite Hcall. cbn. split; [rewrite DE by reflexivity; rewrite Hpc; reflexivity|].
        split; [rewrite abs_insert_new by auto; rewrite decide_True by reflexivity; reflexivity|].
        rewrite DE, LR by reflexivity. cbn. auto.
    + destruct (dirty (i_st i)) as [d|] eqn:Hd; simplify_eq.
      * exfalso. pose proof (wf_unamended _ Hwa Ham). congruence.
      * apply lin_same. rewrite !DE, LR by reflexivity. cbn. rewrite Hpc. auto.
  - (* Store_unlock *)
    simplify_eq. apply lin_same. left. rewrite DE by reflexivity. rewrite Hpc, Hcall. reflexivity.
  - (* TryStore_load *)
    repeat case_match; simplify_eq; apply lin_same; rewrite !DE, LR by reflexivity; cbn; rewrite Hpc; auto.
  - (* TryStore_cas *)
    destruct (f_e f) as [e|] eqn:Hfe; [|discriminate]. specialize (Hre e eq_refl).
    destruct (cas_ok i e f) eqn:Hcas; simplify_eq.
    2:{ apply lin_same. rewrite !DE, LR by reflexivity. cbn. rewrite Hpc. auto. }
    assert (Hk : read_m (i_st i) !! k = Some e).
    { apply pod_live; [exact Hre|]. eapply cas_ok_exp; eauto. }
    destruct (abs_write_cur (i_st i) e k v Hc (reach_read _ _ _ Hk)) as [Ho Hn]. cbn.
    split; [rewrite Hcall; exact Ho|]. split; [apply (trans2_set_cur _ _ _ k), reach_read, Hk|].
    right. rewrite Hcall. cbn. split; [rewrite DE by reflexivity; rewrite Hpc; reflexivity|]. split; [exact Hn|reflexivity].
  - (* Unexpunge_cas *)
    destruct (Hw' eq_refl) as [_ [Hwa Hk]]. rewrite Hcall in Hk. cbn in Hk.
    destruct (f_e f) as [e|] eqn:Hfe; [|discriminate].
    destruct (ent i e) eqn:Hent; simplify_eq.
    + apply lin_same. rewrite !DE, LR by reflexivity. cbn. rewrite Hpc. split; [reflexivity|]. intros e0. rewrite Hfe. intros [= <-]. apply reach_read, Hk.
    + destruct (WF_unexpunge (i_st i) k e) as (d & Hd & _); auto.
      { rewrite is_exp_ent, Hent. reflexivity. }
      unfold dirty_insert, bind in H. cbn in H. rewrite Hd in H. simplify_eq. cbn.
      apply lin_abs_same.
      * intros k0. apply abs_unexpunge; auto. rewrite is_exp_ent, Hent. reflexivity.
      * apply trans2_unexpunge; auto.
      * rewrite !DE, LR by reflexivity. cbn. rewrite Hpc. split; [reflexivity|]. intros e0. rewrite Hfe. intros [= <-].
        unfold reach. cbn. rewrite Hk. reflexivity.
    + apply lin_same. rewrite !DE, LR by reflexivity. cbn. rewrite Hpc. split; [reflexivity|]. intros e0. rewrite Hfe. intros [= <-]. apply reach_read, Hk.
  - (* StoreLocked *)
    destruct (f_e f) as [e|] eqn:Hfe; [|discriminate]. simplify_eq. specialize (Hl' e eq_refl).
    destruct (abs_write_cur (i_st i) e k v Hc Hl') as [Ho Hn]. cbn.
    split; [rewrite Hcall; exact Ho|]. split; [apply (trans2_set_cur _ _ _ k), Hl'|].
    right. rewrite Hcall. cbn. split; [rewrite DE by reflexivity; rewrite Hpc; reflexivity|]. split; [exact Hn|].
    rewrite DE, LR by reflexivity. cbn. auto.
Qed.
End LinStep2.

Section LinStep3.
Variables (t : nat) (i : inst) (f : frame) (ch : Z) (S : option Z -> Prop).
Variables (j : nat) (k v : Z).
Hypothesis Hcall : f_call f = CLoadOrStore j k v PNone.
Hypothesis Hok : frame_ok f.
Hypothesis Hc : WF_core (i_st i).
Hypothesis Hw : in_cs f = true -> WFL (i_st i) f.
Hypothesis H2 : WF2 (i_st i).
Hypothesis Hr : ref_inv (i_st i) f.
Hypothesis Hl : lin_ref (i_st i) f S.
Hypothesis HS0 : S (abs_lookup (i_st i) (key_of (f_call f))).

Lemma los_dec s1 f1 : f_call f1 = f_call f ->
  dec s1 f1 = match f_pc f1 with LOS_unlock | Miss_store => Some (RLos (f_los f1).1 (f_los f1).2) | _ => None end.
Proof. intros E. unfold dec. rewrite E, Hcall. reflexivity. Qed.

Lemma los_ref s1 f1 (S1 : option Z -> Prop) : f_call f1 = f_call f -> lin_ref s1 f1 S1.
Proof. intros E. unfold lin_ref. rewrite E, Hcall. exact I. Qed.

(* tryLoadOrStore has finished with (a, l, ok) in state s' *)
Lemma lin_tlos_done s' a (l ok : bool) i1 i' o :
  i_st i1 = s' -> f_pc f <> LOS_unlock -> f_pc f <> Miss_store ->
  (forall k0, k0 <> k -> abs_lookup s' k0 = abs_lookup (i_st i) k0) -> trans2 (i_st i) s' ->
  (if ok then abs_lookup s' k = fst (spec_k (f_call f) (abs_lookup (i_st i) k)) /\
             RLos a l = snd (spec_k (f_call f) (abs_lookup (i_st i) k))
   else f_mode f = MFast /\ abs_lookup s' k = abs_lookup (i_st i) k) ->
  tlos_done i1 f a l ok = (i', o) -> lin_post (i_st i) (i_st i') f o S.
Proof.
  intros Hs Hp1 Hp2 Hoth Ht2 Hcond H. unfold tlos_done in H.
  assert (D0 : dec (i_st i) f = None). { rewrite los_dec by reflexivity. destruct (f_pc f); try reflexivity; congruence. }
  rewrite Hcall in Hcond. unfold lin_post. cbv zeta. rewrite Hcall. cbn [key_of].
  destruct (f_mode f) eqn:Hm.
  - destruct ok; simplify_eq.
    + split; [exact Hoth|]. split; [exact Ht2|]. right. destruct Hcond as [A B]. split; [exact D0|]. split; [exact A|].
      unfold los_return. rewrite Hcall. cbn. exact B.
    + split; [exact Hoth|]. split; [exact Ht2|]. left. destruct Hcond as [_ A]. split; [exact A|].
      rewrite D0, los_dec by reflexivity. cbn. split; [reflexivity|apply los_ref; reflexivity].
  - simplify_eq. destruct ok; [|destruct Hcond; congruence]. destruct Hcond as [A B].
    split; [exact Hoth|]. split; [exact Ht2|]. right. split; [exact D0|]. split; [exact A|].
    rewrite <- B. rewrite los_dec by reflexivity. cbn. split; [reflexivity|apply los_ref; reflexivity].
  - destruct (after_miss i1 (set_los f a l)) as [i2 f2] eqn:Eam. simplify_eq.
    apply dec_after_miss in Eam as (E1 & E2 & _ & _ & E5 & E6). cbn in E2, E5, E6. rewrite E1.
    destruct ok; [|destruct Hcond; congruence]. destruct Hcond as [A B].
    split; [intros k0 N; rewrite abs_misses; auto|]. split; [apply trans2_post_misses, Ht2|].
    right. split; [exact D0|]. split; [rewrite abs_misses; exact A|].
    rewrite <- B. rewrite los_dec by exact E2. rewrite E5. cbn. rewrite Hcall in E6. cbn in E6.
    split; [destruct E6 as [-> | ->]; reflexivity|apply los_ref; exact E2].
Qed.

(* the entry tryLoadOrStore works on is the key's current entry, unless it is expunged on the fast path *)
Lemma los_entry_current e :
  (f_pc f = Tlos_load1 \/ f_pc f = Tlos_cas \/ f_pc f = Tlos_load2) -> f_e f = Some e -> is_exp (i_st i) e = false ->
  reach (i_st i) k = Some e.
Proof.
  intros Hpc Hfe Hex. destruct Hr as [Hre _]. unfold ref_e in Hre. rewrite Hcall in Hre. cbn [key_of] in Hre.
  assert (X : match f_mode f with
              | MFast => pub_or_dead (i_st i) k e
              | MLockedRead => read_m (i_st i) !! k = Some e /\ is_exp (i_st i) e = false
              | MLockedDirty => read_m (i_st i) !! k = None /\ dirty_lookup (i_st i) k = Some e
              end) by (destruct Hpc as [Hpc|[Hpc|Hpc]]; rewrite Hpc in Hre; apply Hre, Hfe).
  destruct (f_mode f) eqn:Hm.
  - apply reach_read, pod_live; assumption.
  - apply reach_read, X.
  - destruct X as [X1 X2]. apply reach_dirty; auto.
    assert (Hcs : in_cs f = true) by (unfold in_cs, cs_class; destruct Hpc as [Hpc|[Hpc|Hpc]]; rewrite Hpc, Hm; reflexivity).
    destruct (Hw Hcs) as [_ Hwa]. unfold cs_class in Hwa.
    assert (WF_ad (i_st i)) by (destruct Hpc as [Hpc|[Hpc|Hpc]]; rewrite Hpc, Hm in Hwa; exact Hwa).
    apply WF_ad_amended; auto. eapply dirty_lookup_some; eauto.
Qed.

Lemma los_locked_not_exp e :
  (f_pc f = Tlos_load1 \/ f_pc f = Tlos_cas \/ f_pc f = Tlos_load2) -> f_e f = Some e -> f_mode f <> MFast ->
  is_exp (i_st i) e = false.
Proof.
  intros Hpc Hfe Hm. destruct Hr as [Hre _]. unfold ref_e in Hre. rewrite Hcall in Hre. cbn [key_of] in Hre.
  assert (X : match f_mode f with
              | MFast => pub_or_dead (i_st i) k e
              | MLockedRead => read_m (i_st i) !! k = Some e /\ is_exp (i_st i) e = false
              | MLockedDirty => read_m (i_st i) !! k = None /\ dirty_lookup (i_st i) k = Some e
              end) by (destruct Hpc as [Hpc|[Hpc|Hpc]]; rewrite Hpc in Hre; apply Hre, Hfe).
  destruct (f_mode f); [congruence|apply X|]. destruct X as [_ X]. eapply wf_dirty_live; eauto.
Qed.

Lemma lin_tlos_load i' o :
  (f_pc f = Tlos_load1 \/ f_pc f = Tlos_load2) ->
  match f_e f with
  | None => Some (Panic NilDeref)
  | Some e => match ent i e with
              | PExpunged => let '(i', o) := tlos_done i f 0 false false in Some (Ok (i', o))
              | PVal v => let '(i', o) := tlos_done i f v true true in Some (Ok (i', o))
              | PNil => Some (Ok (i, Continue (set_pc f Tlos_cas)))
              end
  end = Some (Ok (i', o)) -> lin_post (i_st i) (i_st i') f o S.
Proof.
  intros Hpc H.
  assert (Hpc3 : f_pc f = Tlos_load1 \/ f_pc f = Tlos_cas \/ f_pc f = Tlos_load2) by (destruct Hpc; auto).
  assert (Hp1 : f_pc f <> LOS_unlock) by (destruct Hpc as [-> | ->]; discriminate).
  assert (Hp2 : f_pc f <> Miss_store) by (destruct Hpc as [-> | ->]; discriminate).
  destruct (f_e f) as [e|] eqn:Hfe; [|discriminate].
  destruct (ent i e) eqn:Hent.
  - simplify_eq. apply lin_same. rewrite !los_dec by reflexivity. cbn. split; [|apply los_ref; reflexivity].
    destruct Hpc as [-> | ->]; reflexivity.
  - destruct (tlos_done i f 0 false false) as [i1 o1] eqn:Hd. simplify_eq.
    eapply (lin_tlos_done (i_st i) 0 false false i); eauto using trans2_refl. split; [|reflexivity].
    destruct (f_mode f) eqn:Hm; [reflexivity| |]; exfalso;
      (assert (X : is_exp (i_st i) e = false) by (apply los_locked_not_exp; auto; congruence));
      rewrite is_exp_ent, Hent in X; discriminate.
  - destruct (tlos_done i f v0 true true) as [i1 o1] eqn:Hd. simplify_eq.
    assert (Hcur : reach (i_st i) k = Some e) by (apply los_entry_current; auto; apply is_exp_of_ent; congruence).
    assert (Habs : abs_lookup (i_st i) k = Some v0).
    { rewrite (abs_reach _ _ _ Hcur). unfold e_load. unfold ent in Hent. rewrite Hent. reflexivity. }
    eapply (lin_tlos_done (i_st i) v0 true true i); eauto using trans2_refl.
    rewrite Habs, Hcall. cbn. auto.
Qed.

(* ---- LoadOrStore ---- *)
Lemma lin_LOS i' o :
  frame_pc_ok f -> step_frame t i f ch = Some (Ok (i', o)) -> lin_post (i_st i) (i_st i') f o S.
Proof.
  intros Hpk H.
  destruct (loop_pc (f_pc f)) eqn:Hlp.
  { destruct (f_pc f) eqn:Hpc; try discriminate Hlp.
    2:{ (* LOS_amend *)
      pose proof Hw as Hw'. unfold step_frame in H. unfold WFL, in_cs in Hw'. unfold cs_class in Hw'. rewrite Hpc in H, Hw'. cbn in Hw'.
      destruct (Hw' eq_refl) as [_ [(L1 & L2 & L3 & d & L4 & L5 & L6) Hall]]. rewrite Hcall in L3, H. cbn in L3, H.
      unfold new_entry, dirty_insert, bind in H. cbn in H. rewrite L4 in H. simplify_eq. cbn. rewrite L1.
      assert (Hsub : forall k' e, d !! k' = Some e -> read_m (i_st i) !! k' = Some e) by (intros k' e Hd; apply (L6 k' e Hd)).
      assert (Hdk : d !! k = None). { destruct (d !! k) eqn:E; [|reflexivity]. apply Hsub in E. congruence. }
      assert (Hab : abs_lookup (i_st i) k = None) by (apply abs_reach_none; unfold reach; rewrite L3, L2; reflexivity).
      split; [|split].
      - rewrite Hcall. cbn. intros k0 N. rewrite abs_amend by auto. rewrite decide_False by exact N. reflexivity.
      - apply trans2_insert_new; auto.
      - right. rewrite Hcall. cbn. rewrite Hab. cbn. split; [unfold dec; rewrite Hcall, Hpc; reflexivity|].
        split; [rewrite abs_amend by auto; rewrite decide_True by reflexivity; reflexivity|].
        split; [unfold dec; cbn; rewrite Hcall; reflexivity|]. unfold lin_ref. cbn. rewrite Hcall. exact I. }
    all: try (unfold frame_pc_ok in Hpk; rewrite Hcall, Hpc in Hpk; discriminate Hpk).
    all: eapply lin_loop; eauto; try (rewrite Hcall; reflexivity); try (rewrite Hpc; reflexivity); rewrite Hpc; discriminate. }
  pose proof Hok as [He Hst Hdel Hpost]. pose proof Hw as Hw'. destruct Hr as [Hre Hrp].
  unfold frame_pc_ok in Hpk. rewrite Hcall in Hpk.
  unfold step_frame in H. unfold WFL, in_cs in Hw'. unfold cs_class in Hw'. unfold ref_prom in Hrp.
  assert (DE := los_dec). assert (LR := los_ref).
  destruct (f_pc f) eqn:Hpc; try discriminate Hpk; try discriminate Hlp;
    try (exfalso; apply Hpost in Hpk; rewrite Hcall in Hpk; apply Hpk; reflexivity);
    rewrite ?Hcall in H; cbn in H, Hw', Hrp, He.
  - (* Unexpunge_cas *)
    destruct (Hw' eq_refl) as [_ [Hwa Hk]]. rewrite Hcall in Hk. cbn in Hk.
    destruct (f_e f) as [e|] eqn:Hfe; [|discriminate].
    destruct (ent i e) eqn:Hent; simplify_eq;
      try (apply lin_same; rewrite !DE by reflexivity; cbn; rewrite Hpc; split; [reflexivity|apply LR; reflexivity]).
    destruct (WF_unexpunge (i_st i) k e) as (d & Hd & _); auto.
    { rewrite is_exp_ent, Hent. reflexivity. }
    unfold dirty_insert, bind in H. cbn in H. rewrite Hd in H. simplify_eq. cbn.
    apply lin_abs_same.
    + intros k0. apply abs_unexpunge; auto. rewrite is_exp_ent, Hent. reflexivity.
    + apply trans2_unexpunge; auto.
    + rewrite !DE by reflexivity. cbn. rewrite Hpc. split; [reflexivity|apply LR; reflexivity].
  - (* LOS_read1 *)
    repeat case_match; simplify_eq; apply lin_same; rewrite !DE by reflexivity; cbn; rewrite Hpc; (split; [reflexivity|apply LR; reflexivity]).
  - (* LOS_lock *)
    repeat case_match; simplify_eq; apply lin_same; rewrite !DE by reflexivity; cbn; rewrite Hpc; (split; [reflexivity|apply LR; reflexivity]).
  - (* LOS_read2 *)
    destruct (Hw' eq_refl) as [_ Hwa]. unfold new_entry, dirty_insert, bind in H. cbn in H.
    destruct (read_m (i_st i) !! k) as [e0|] eqn:Hk.
    { simplify_eq. apply lin_same. rewrite !DE by reflexivity. cbn. rewrite Hpc. split; [reflexivity|apply LR; reflexivity]. }
    destruct (dirty_lookup (i_st i) k) as [e1|] eqn:Hdk.
    { simplify_eq. apply lin_same. rewrite !DE by reflexivity. cbn. rewrite Hpc. split; [reflexivity|apply LR; reflexivity]. }
    destruct (amended (i_st i)) eqn:Ham.
    + destruct (dirty (i_st i)) as [d|] eqn:Hd; [|discriminate]. simplify_eq. cbn.
      assert (Hdk' : d !! k = None) by (unfold dirty_lookup in Hdk; rewrite Hd in Hdk; exact Hdk).
      assert (Hab : abs_lookup (i_st i) k = None) by (apply abs_reach_none; unfold reach; rewrite Hk, Ham; exact Hdk).
      split; [|split].
      * rewrite Hcall. cbn. intros k0 N. rewrite abs_insert_new by auto. rewrite decide_False by exact N. reflexivity.
      * apply trans2_insert_new; auto.
      * right. rewrite Hcall. cbn. rewrite Hab. cbn. split; [rewrite DE by reflexivity; rewrite Hpc; reflexivity|].
        split; [rewrite abs_insert_new by auto; rewrite decide_True by reflexivity; reflexivity|].
        rewrite DE by reflexivity. cbn. split; [reflexivity|apply LR; reflexivity].
    + destruct (dirty (i_st i)) as [d|] eqn:Hd; simplify_eq.
      * exfalso. pose proof (wf_unamended _ Hwa Ham). congruence.
      * apply lin_same. rewrite !DE by reflexivity. cbn. rewrite Hpc. split; [reflexivity|apply LR; reflexivity].
  - (* LOS_unlock *)
    simplify_eq. unfold los_return. rewrite Hcall. cbn. apply lin_same. left. rewrite DE by reflexivity. rewrite Hpc, Hcall. reflexivity.
  - (* Tlos_load1 *)
    eapply lin_tlos_load; eauto.
  - (* Tlos_cas *)
    destruct (f_e f) as [e|] eqn:Hfe; [|discriminate].
    destruct (ent i e) eqn:Hent; simplify_eq;
      try (apply lin_same; rewrite !DE by reflexivity; cbn; rewrite Hpc; split; [reflexivity|apply LR; reflexivity]).
    destruct (tlos_done _ f v false true) as [i1 o1] eqn:Hd. simplify_eq.
    assert (Hcur : reach (i_st i) k = Some e).
    { apply los_entry_current; auto. apply is_exp_of_ent. congruence. }
    assert (Hab : abs_lookup (i_st i) k = None).
    { rewrite (abs_reach _ _ _ Hcur). unfold e_load. unfold ent in Hent. rewrite Hent. reflexivity. }
    destruct (abs_write_cur (i_st i) e k v Hc Hcur) as [Ho Hn].
    eapply (lin_tlos_done (i_st (put_ent i e (PVal v))) v false true); eauto; try congruence.
    + apply (trans2_set_cur _ _ _ k), Hcur.
    + rewrite Hab, Hcall. cbn. auto.
  - (* Tlos_load2 *)
    eapply lin_tlos_load; eauto.
  - (* Miss_store *)
    destruct (Hw' eq_refl) as [_ Hwa]. destruct (dirty (i_st i)) as [d|] eqn:Hd; [|congruence]. simplify_eq. cbn.
    apply lin_abs_same; [intros; apply abs_promote; auto|apply trans2_promote; auto|].
    rewrite !DE by reflexivity. cbn. rewrite Hpc. split; [reflexivity|apply LR; reflexivity].
Qed.
End LinStep3.

(* ---- LoadAndDelete and Delete (the same code; what differs is abstracted in F1..F6) ---- *)
Section LinLAD.
Variables (t : nat) (i : inst) (f : frame) (ch : Z) (S : option Z -> Prop).
Variables (k : Z).
Hypothesis Hlad : is_lad (f_call f) = true.
Hypothesis Hkey : key_of (f_call f) = k.
Hypothesis Hok : frame_ok f.
Hypothesis Hc : WF_core (i_st i).
Hypothesis Hw : in_cs f = true -> WFL (i_st i) f.
Hypothesis H2 : WF2 (i_st i).
Hypothesis Hr : ref_inv (i_st i) f.
Hypothesis Hl : lin_ref (i_st i) f S.
Hypothesis HS0 : S (abs_lookup (i_st i) k).
Hypothesis F1 : forall s1 f1, f_call f1 = f_call f -> is_priv f1 = false -> dec s1 f1 = None.
Hypothesis F2 : forall s1 f1, f_call f1 = f_call f -> f_e f1 = None -> dec s1 f1 = None.
Hypothesis F3 : forall s1 s2 f1 f2, f_call f1 = f_call f -> f_call f2 = f_call f -> is_priv f1 = is_priv f2 -> f_e f1 = f_e f2 ->
                (forall e, f_e f1 = Some e -> get_ent s1 e = get_ent s2 e) -> dec s1 f1 = dec s2 f2.
Hypothesis F4 : forall s1 f1 e v0, f_call f1 = f_call f -> is_priv f1 = true -> f_e f1 = Some e -> get_ent s1 e = PVal v0 ->
                dec s1 f1 = Some (snd (spec_k (f_call f) (Some v0))).
Hypothesis F5 : forall x, fst (spec_k (f_call f) x) = None /\ forall v0, rep (f_call f) (ROpt (Some v0)) = snd (spec_k (f_call f) (Some v0)).
Hypothesis F6 : rep (f_call f) (ROpt None) = res_of (f_call f) None /\ ro (f_call f) None.
Hypothesis F7 : forall s1 f1 (S1 : option Z -> Prop), f_call f1 = f_call f ->
  lin_ref s1 f1 S1 =
  match f_pc f1 with
  | Miss_store | LAD_unlock | Delete_load | Delete_cas =>
      match f_e f1 with
      | Some e => match f_rd_m f1 !! k with Some _ => read_m s1 !! k = Some e \/ S1 None | None => True end
      | None => S1 None
      end
  | _ => True
  end.

Lemma lad_is_priv f1 : f_call f1 = f_call f -> is_priv f1 = lad_pc (f_pc f1) && bool_decide (f_rd_m f1 !! k = None).
Proof. intros E. unfold is_priv. rewrite E, Hlad, Hkey. rewrite andb_true_r. reflexivity. Qed.

(* a miss is reported *)
Lemma lad_miss s0 s1 : S None \/ None = abs_lookup s1 k ->
  dec s0 f = None ->
  dec s0 f = Some (rep (f_call f) (ROpt None)) \/
  (dec s0 f = None /\ exists x, ro (f_call f) x /\ rep (f_call f) (ROpt None) = res_of (f_call f) x /\
                                     (S x \/ x = abs_lookup s1 (key_of (f_call f)))).
Proof. intros HS D. right. split; [exact D|]. exists None. destruct F6 as [A B]. rewrite Hkey. auto. Qed.

Lemma lin_LAD i' o :
  frame_pc_ok f -> step_frame t i f ch = Some (Ok (i', o)) -> lin_post (i_st i) (i_st i') f o S.
Proof.
  intros Hpk H. pose proof Hok as [He Hst Hdel Hpost]. pose proof Hw as Hw'. pose proof Hl as Hl'. destruct Hr as [Hre Hrp].
  unfold frame_pc_ok in Hpk.
  unfold step_frame in H. unfold WFL, in_cs in Hw'. unfold cs_class in Hw'. unfold ref_prom in Hrp. unfold ref_e in Hre.
  rewrite Hlad, Hkey in Hre. rewrite (F7 _ f S eq_refl) in Hl'.
  assert (IP := lad_is_priv).
  assert (NL : unlock_label (f_call f) = LAD_unlock) by (destruct (f_call f); try discriminate Hlad; reflexivity).
  destruct (f_pc f) eqn:Hpc; try (destruct (f_call f); discriminate); rewrite ?Hkey, ?NL in H; cbn in H, Hw', Hrp, Hre, Hl', He.
  - (* LAD_read1 *)
    assert (D0 : dec (i_st i) f = None) by (apply F1; [reflexivity|rewrite IP by reflexivity; rewrite Hpc; reflexivity]).
    destruct (read_m (i_st i) !! k) as [e|] eqn:Hk; [|destruct (amended (i_st i)) eqn:Ham]; injection H as <- <-; apply lin_same; cbn [i_st].
    + rewrite D0. split; [apply F1; [reflexivity|]|]; [rewrite IP by reflexivity; cbn; rewrite Hk; reflexivity|].
      rewrite F7 by reflexivity. cbn. rewrite Hk. auto.
    + rewrite D0. split; [apply F1; [reflexivity|]|]; [rewrite IP by reflexivity; reflexivity|]. rewrite F7 by reflexivity. exact I.
    + apply lad_miss; [|exact D0]. left. rewrite abs_reach_none in HS0; [exact HS0|]. unfold reach. rewrite Hk, Ham. reflexivity.
  - (* LAD_lock *)
    assert (D0 : dec (i_st i) f = None) by (apply F1; [reflexivity|rewrite IP by reflexivity; rewrite Hpc; reflexivity]).
    destruct (i_mu i); [discriminate|]; injection H as <- <-. apply lin_same; cbn [i_st]. rewrite D0.
    split; [apply F1; [reflexivity|]|]; [rewrite IP by reflexivity; reflexivity|]. rewrite F7 by reflexivity. exact I.
  - (* LAD_read2 *)
    assert (D0 : dec (i_st i) f = None) by (apply F1; [reflexivity|rewrite IP by reflexivity; rewrite Hpc; reflexivity]).
    destruct (Hw' eq_refl) as [_ Hwa].
    destruct (read_m (i_st i) !! k) as [e0|] eqn:Hk.
    { injection H as <- <-. apply lin_same; cbn [i_st]. rewrite D0.
      split; [apply F1; [reflexivity|]|]; [rewrite IP by reflexivity; cbn; rewrite Hk; reflexivity|].
      rewrite F7 by reflexivity. cbn. rewrite Hk. auto. }
    destruct (amended (i_st i)) eqn:Ham.
    2:{ injection H as <- <-. apply lin_same; cbn [i_st]. rewrite D0. split; [apply F2; reflexivity|]. rewrite F7 by reflexivity. cbn.
        left. rewrite abs_reach_none in HS0; [exact HS0|]. unfold reach. rewrite Hk, Ham. reflexivity. }
    destruct (after_miss _ _) as [i2 f2] eqn:Eam. injection H as <- <-.
    apply dec_after_miss in Eam as (E1 & E2 & E3 & E4 & _ & E6). cbn in E1, E2, E3, E4, E6. rewrite NL in E6. rewrite E1.
    assert (Hpriv2 : is_priv f2 = true).
    { rewrite IP by exact E2. rewrite E4, Hk. destruct E6 as [-> | ->]; reflexivity. }
    assert (Hoth : forall k0, k0 <> k ->
              abs_lookup (st_with_misses (dirty_delete (i_st i) k) (misses (dirty_delete (i_st i) k) + 1)) k0 = abs_lookup (i_st i) k0).
    { intros k0 N. rewrite abs_misses, abs_dirty_delete by exact Hk. rewrite decide_False by exact N. reflexivity. }
    assert (Hnew : abs_lookup (st_with_misses (dirty_delete (i_st i) k) (misses (dirty_delete (i_st i) k) + 1)) k = None).
    { rewrite abs_misses, abs_dirty_delete by exact Hk. rewrite decide_True by reflexivity. reflexivity. }
    assert (Ht2 : trans2 (i_st i) (st_with_misses (dirty_delete (i_st i) k) (misses (dirty_delete (i_st i) k) + 1)))
      by (apply trans2_post_misses, trans2_dirty_delete; auto).
    unfold lin_post. cbv zeta. rewrite Hkey. split; [exact Hoth|]. split; [exact Ht2|].
    destruct (dirty_lookup (i_st i) k) as [e|] eqn:Hdk.
    + (* the entry is taken out of the dirty map: the deletion takes effect here *)
      destruct (H2 k e Hdk Hk) as [v0 Hv0].
      assert (Hab : abs_lookup (i_st i) k = Some v0).
      { rewrite (abs_reach _ k e) by (apply reach_dirty; auto). unfold e_load. rewrite Hv0. reflexivity. }
      right. split; [exact D0|]. rewrite Hab. split; [rewrite Hnew; symmetry; apply (proj1 (F5 (Some v0)))|].
      split.
      * apply (F4 _ f2 e v0); auto. cbn. unfold dirty_delete. destruct (dirty (i_st i)); exact Hv0.
      * rewrite F7 by exact E2. rewrite E3, E4, Hk. destruct E6 as [-> | ->]; exact I.
    + left. split; [rewrite Hnew; symmetry; apply abs_reach_none; unfold reach; rewrite Hk, Ham; exact Hdk|].
      split; [rewrite D0; apply F2; auto|].
      rewrite F7 by exact E2. rewrite E3. destruct E6 as [-> | ->]; right; symmetry; exact Hnew.
  - (* LAD_unlock *)
    destruct (f_e f) as [e|] eqn:Hfe; injection H as <- <-; apply lin_same; cbn [i_st].
    + split.
      * apply F3; auto. rewrite !IP by reflexivity. cbn. rewrite Hpc. reflexivity.
      * rewrite F7 by reflexivity. cbn. rewrite Hfe. destruct (f_rd_m f !! k); [|exact I]. destruct Hl'; auto.
    + apply lad_miss; [left; exact Hl'|]. apply F2; auto.
  - (* Delete_load *)
    destruct (f_e f) as [e|] eqn:Hfe; [|discriminate]. specialize (Hre e eq_refl).
    destruct (ent i e) eqn:Hent; injection H as <- <-; apply lin_same; cbn [i_st].
    + destruct (f_rd_m f !! k) eqn:Hrd.
      * apply lad_miss; [|apply F1; [reflexivity|]; rewrite IP by reflexivity; rewrite Hrd; apply andb_false_r].
        destruct Hl' as [Hk|HS]; [|left; exact HS]. left.
        rewrite (abs_reach _ k e (reach_read _ _ _ Hk)) in HS0. unfold e_load in HS0. unfold ent in Hent. rewrite Hent in HS0. exact HS0.
      * exfalso. destruct Hre as ([v0 Hv0] & _). unfold ent in Hent. congruence.
    + destruct (f_rd_m f !! k) eqn:Hrd.
      * apply lad_miss; [|apply F1; [reflexivity|]; rewrite IP by reflexivity; rewrite Hrd; apply andb_false_r].
        destruct Hl' as [Hk|HS]; [|left; exact HS]. left.
        rewrite (abs_reach _ k e (reach_read _ _ _ Hk)) in HS0. unfold e_load in HS0. unfold ent in Hent. rewrite Hent in HS0. exact HS0.
      * exfalso. destruct Hre as ([v0 Hv0] & _). unfold ent in Hent. congruence.
    + split.
      * apply F3; auto. rewrite !IP by reflexivity. cbn. rewrite Hpc. reflexivity.
      * rewrite F7 by reflexivity. cbn. rewrite Hfe. destruct (f_rd_m f !! k); [|exact I]. destruct Hl'; auto.
  - (* Delete_cas *)
    destruct (f_e f) as [e|] eqn:Hfe; [|discriminate]. specialize (Hre e eq_refl).
    destruct (cas_ok i e f) eqn:Hcas; injection H as <- <-.
    2:{ apply lin_same; cbn [i_st]. split.
        - apply F3; auto. rewrite !IP by reflexivity. cbn. rewrite Hpc. reflexivity.
        - rewrite F7 by reflexivity. cbn. rewrite Hfe. destruct (f_rd_m f !! k); [|exact I]. destruct Hl'; auto. }
    destruct (Hdel eq_refl) as [v0 Hv0]. rewrite Hv0.
    assert (Hent : get_ent (i_st i) e = PVal v0).
    { unfold cas_ok in Hcas. rewrite Hv0 in Hcas. apply andb_true_iff in Hcas as [Hcas _]. apply bool_decide_eq_true in Hcas. exact Hcas. }
    destruct (f_rd_m f !! k) eqn:Hrd.
    + (* an entry of the read map: the deletion takes effect here *)
      assert (Hk : read_m (i_st i) !! k = Some e).
      { apply pod_live; [exact Hre|]. unfold is_exp. rewrite Hent. reflexivity. }
      assert (Hab : abs_lookup (i_st i) k = Some v0).
      { rewrite (abs_reach _ k e (reach_read _ _ _ Hk)). unfold e_load. rewrite Hent. reflexivity. }
      unfold lin_post. cbv zeta. rewrite Hkey. cbn. split; [intros k0 N; eapply abs_set_ent_other; eauto; left; exact Hk|].
      split; [apply (trans2_set_cur _ _ _ k), reach_read, Hk|].
      right. split; [apply F1; [reflexivity|]; rewrite IP by reflexivity; rewrite Hrd; apply andb_false_r|].
      rewrite Hab. split; [|apply (proj2 (F5 None))].
      rewrite abs_set_ent, decide_True by (apply reach_read; exact Hk). symmetry. apply (proj1 (F5 (Some v0))).
    + (* the entry this call took out of the dirty map: decided then, reported now *)
      destruct Hre as (_ & Hu & _). unfold lin_post. cbv zeta. rewrite Hkey. cbn.
      split; [intros; apply abs_set_ent_unreachable; exact Hu|]. split; [apply trans2_set_nil|].
      left. split; [apply abs_set_ent_unreachable; exact Hu|]. left.
      rewrite (F4 _ f e v0); auto; [f_equal; symmetry; apply (proj2 (F5 None))|].
      rewrite IP by reflexivity. rewrite Hpc, Hrd. reflexivity.
  - (* Miss_store *)
    destruct (Hw' eq_refl) as [_ Hwa]. destruct (dirty (i_st i)) as [d|] eqn:Hd; [|congruence]. injection H as <- <-. cbn.
    pose proof (trans2_promote _ d Hc Hwa Hd) as Ht2.
    apply lin_abs_same; [intros; apply abs_promote; auto|exact Ht2|].
    split.
    + apply F3; auto. rewrite !IP by reflexivity. cbn. rewrite Hpc. reflexivity.
    + rewrite F7 by reflexivity. cbn. destruct (f_e f) as [e|]; [|left; exact Hl'].
      destruct (f_rd_m f !! k); [|exact I]. destruct Hl' as [Hk|HS]; [|right; left; exact HS].
      destruct (t2_read _ _ Ht2 k e Hk) as [Hk'|Hn]; [left; exact Hk'|]. right. left. rewrite Hn in HS0. exact HS0.
Qed.
End LinLAD.

Lemma sf_lin t i f ch i' o (S : option Z -> Prop) :
  lin_frag (f_call f) -> frame_ok f -> frame_pc_ok f -> WF_core (i_st i) -> (in_cs f = true -> WFL (i_st i) f) ->
  WF2 (i_st i) -> ref_inv (i_st i) f -> lin_ref (i_st i) f S -> S (abs_lookup (i_st i) (key_of (f_call f))) ->
  step_frame t i f ch = Some (Ok (i', o)) -> lin_post (i_st i) (i_st i') f o S.
Proof.
  intros [_ Hfr] Hok Hpk Hc Hw H2 Hr Hl HS0 H. destruct (f_call f) as [j k|j k v|j k v p|j k|j k|j cb] eqn:Hcall; try contradiction.
  - eapply lin_Load; eauto. rewrite Hcall. exact HS0.
  - eapply lin_Store; eauto. rewrite Hcall. exact HS0.
  - subst p. eapply lin_LOS; eauto. rewrite Hcall. exact HS0.
  - eapply (lin_LAD t i f ch S k); eauto; try (rewrite Hcall; reflexivity).
    + intros s1 f1 E Hp. unfold dec. rewrite E, Hcall, Hp. reflexivity.
    + intros s1 f1 E Hp. unfold dec. rewrite E, Hcall, Hp. destruct (is_priv f1); reflexivity.
    + intros s1 s2 f1 f2 E1 E2 Hp He Hg. unfold dec. rewrite E1, E2, Hcall, Hp, <- He.
      destruct (is_priv f2); [|reflexivity]. destruct (f_e f1) as [e|]; [|reflexivity]. rewrite (Hg e eq_refl). reflexivity.
    + intros s1 f1 e v0 E Hp He Hg. unfold dec. rewrite E, Hcall, Hp, He, Hg. reflexivity.
    + intros x. rewrite Hcall. cbn. auto.
    + rewrite Hcall. cbn. auto.
    + intros s1 f1 S1 E. unfold lin_ref. rewrite E, Hcall. reflexivity.
  - eapply (lin_LAD t i f ch S k); eauto; try (rewrite Hcall; reflexivity).
    + intros s1 f1 E Hp. unfold dec. rewrite E, Hcall, Hp. reflexivity.
    + intros s1 f1 E Hp. unfold dec. rewrite E, Hcall, Hp. destruct (is_priv f1); reflexivity.
    + intros s1 s2 f1 f2 E1 E2 Hp He Hg. unfold dec. rewrite E1, E2, Hcall, Hp, <- He. reflexivity.
    + intros s1 f1 e v0 E Hp He Hg. unfold dec. rewrite E, Hcall, Hp, He. reflexivity.
    + intros x. rewrite Hcall. cbn. auto.
    + rewrite Hcall. cbn. auto.
    + intros s1 f1 S1 E. unfold lin_ref. rewrite E, Hcall. reflexivity.
Qed.

(* ---- the frames of the other threads across a step ---- *)
Lemma lin_ref_stable s s' w f2 (S2 S2' : option Z -> Prop) :
  trans s s' w -> trans2 s s' -> (forall x, S2 x -> S2' x) ->
  S2 (abs_lookup s (key_of (f_call f2))) -> S2' (abs_lookup s' (key_of (f_call f2))) ->
  (in_cs f2 = true -> sim s s') ->
  lin_ref s f2 S2 -> lin_ref s' f2 S2'.
Proof.
  intros Ht Ht2 Hm H0 H0' Hcs. unfold lin_ref.
  destruct (f_call f2) eqn:Hcall; cbn [key_of] in *; try exact (fun x => x).
  - (* Load *)
    destruct (f_pc f2); try exact (fun x => x); (destruct (f_e f2); [apply (held_ok_step s s' w); auto|auto]).
  - (* Store *)
    destruct (f_pc f2) eqn:Hpc; try exact (fun x => x). intros H e He.
    assert (in_cs f2 = true) as Hin by (unfold in_cs, cs_class; rewrite Hpc; reflexivity).
    destruct (Hcs Hin) as [_ Hr Ha Hd _]. specialize (H e He). unfold reach, dirty_lookup in *. rewrite Hr, Ha, Hd. exact H.
  - (* LoadAndDelete *)
    destruct (f_pc f2); try exact (fun x => x); (destruct (f_e f2); [|auto]); (destruct (f_rd_m f2 !! k); [|auto]);
      (intros [Hk|Hn]; [|auto]); (destruct (t2_read _ _ Ht2 _ _ Hk) as [Hk'|Ha]; [auto|]); right; apply Hm; rewrite Ha in H0; exact H0.
  - (* Delete *)
    destruct (f_pc f2); try exact (fun x => x); (destruct (f_e f2); [|auto]); (destruct (f_rd_m f2 !! k); [|auto]);
      (intros [Hk|Hn]; [|auto]); (destruct (t2_read _ _ Ht2 _ _ Hk) as [Hk'|Ha]; [auto|]); right; apply Hm; rewrite Ha in H0; exact H0.
Qed.

(* the decided result of another thread's call depends on the state only through its removed entry *)
Lemma dec_stable s s' f2 :
  (is_priv f2 = true -> forall e, f_e f2 = Some e -> get_ent s' e = get_ent s e) -> dec s' f2 = dec s f2.
Proof.
  intros H. unfold dec. destruct (f_call f2); try reflexivity.
  destruct (is_priv f2); [|reflexivity]. destruct (f_e f2) as [e|]; [|reflexivity]. rewrite (H eq_refl e eq_refl). reflexivity.
Qed.

(* frames that have not taken a step yet *)
Lemma first_label_facts s f (S : option Z -> Prop) :
  lin_frag (f_call f) -> f_pc f = first_label (f_call f) -> dec s f = None /\ lin_ref s f S /\ in_cs f = false /\ is_post_label (f_pc f) = false.
Proof.
  intros [_ Hfr] Hpc. unfold dec, lin_ref, in_cs, cs_class, is_priv. rewrite Hpc.
  destruct (f_call f); try contradiction; cbn; auto.
Qed.

(* one step of a thread of the covered programs *)
Lemma step_lfrag c t ch c' th f :
  step c t ch = Some c' -> nth_error (c_threads c) t = Some th -> t_stack th = [f] -> lin_frag (f_call f) ->
  is_post_label (f_pc f) = false ->
  let inv := if t_fresh th then [EvInv t (f_call f)] else [] in
  exists i r, nth_error (c_insts c) (call_inst (f_call f)) = Some i /\ step_frame t i f ch = Some r /\
    match r with
    | Panic _ => c_panicked c' = true
    | Ok (i', Continue f') =>
        c' = Config (set_nth_list (call_inst (f_call f)) i' (c_insts c)) (c_um c)
                    (set_nth_list t (Thread (t_prog th) [f'] (t_results th) false) (c_threads c))
                    (c_hist c ++ inv) false
    | Ok (i', Return r) =>
        c' = Config (set_nth_list (call_inst (f_call f)) i' (c_insts c)) (c_um c)
                    (set_nth_list t (next_call (Thread (t_prog th) [] (t_results th ++ [rep (f_call f) r]) false)) (c_threads c))
                    (c_hist c ++ inv ++ [EvRes t (rep (f_call f) r)]) false
    | Ok (_, Callback _ _ _) => False
    end.
Proof.
  intros H Hth Hst Hfr Hpl inv. rewrite step_unfold in H.
  destruct (c_panicked c); [discriminate|]. rewrite Hth, Hst, Hpl in H.
  destruct (nth_error (c_insts c) (call_inst (f_call f))) as [i|] eqn:Hi; [|discriminate].
  destruct (step_frame t i f ch) as [r|] eqn:Hsf; [|discriminate].
  exists i, r. split; [reflexivity|]. split; [exact Hsf|].
  destruct r as [[i' [f'|r|f' k v]]|k]; unfold fin in H.
  - simplify_eq. reflexivity.
  - cbn in H. unfold rep. destruct (f_call f); simplify_eq; reflexivity.
  - apply sf_callback in Hsf as (_ & _ & (j & cb & Hc) & _). rewrite Hc in Hfr. destruct Hfr as [_ []].
  - simplify_eq. reflexivity.
Qed.

Lemma lin_frag_nopost c : lin_frag c -> nopost c.
Proof. intros [_ H]. destruct c; cbn in *; auto. Qed.

(* ================================================================== *)
(* the invariant: a family of possibilities                           *)
(* ================================================================== *)
(* the call a thread is inside of (invoked, not yet returned) *)
Definition frame_of (th : thread) : option frame := if t_fresh th then None else head (t_stack th).
Definition st0 (c : config) : mstate := match nth_error (c_insts c) 0 with Some i => i_st i | None => empty_mstate end.

(* per thread: the call in flight and its result if already decided *)
Definition info (c : config) (t : nat) : option (call * option res) :=
  match nth_error (c_threads c) t with
  | Some th => match frame_of th with Some f => Some (f_call f, dec (st0 c) f) | None => None end
  | None => None
  end.

(* a marking: for some undecided calls, the value of their key at the moment they are taken to be linearized read-only *)
Definition marking := nat -> option (option Z).
Definition Pof (c : config) (m : marking) (t : nat) : option (call * option res) :=
  match info c t with
  | Some (c0, Some r) => Some (c0, Some r)
  | Some (c0, None) => Some (c0, res_of c0 <$> m t)
  | None => None
  end.
Definition okm (c : config) (seen : nat -> option Z -> Prop) (m : marking) : Prop :=
  forall t x, m t = Some x -> seen t x /\ forall c0 d, info c t = Some (c0, d) -> ro c0 x.

Record Inv4 (c : config) (seen : nat -> option Z -> Prop) (a : gmap Z Z) : Prop := {
  i4_inst : exists i, nth_error (c_insts c) 0 = Some i;
  i4_abs : forall k, a !! k = abs_lookup (st0 c) k;
  i4_frag : forall t th, nth_error (c_threads c) t = Some th ->
            Forall lin_frag (t_prog th) /\ Forall (fun f => lin_frag (f_call f)) (t_stack th) /\ length (t_stack th) <= 1;
  i4_fresh : forall t th f, nth_error (c_threads c) t = Some th -> t_fresh th = true -> head (t_stack th) = Some f ->
             f_pc f = first_label (f_call f);
  i4_seen : forall t th f, nth_error (c_threads c) t = Some th -> frame_of th = Some f ->
            seen t (abs_lookup (st0 c) (key_of (f_call f))) /\ lin_ref (st0 c) f (seen t);
  i4_fam : forall m, okm c seen m ->
           exists P : lpend, poss map_spec ∅ (rev (map_hist c)) a P /\ forall t, P t = Pof c m t
}.

Lemma Inv4_nopost c seen a : Inv4 c seen a -> calls_nopost c.
Proof.
  intros H t th Hth. destruct (i4_frag c seen a H t th Hth) as (H1 & H2 & _). split.
  - eapply List.Forall_impl; [|exact H1]. apply lin_frag_nopost.
  - eapply List.Forall_impl; [|exact H2]. intros f. apply lin_frag_nopost.
Qed.

Lemma frame_of_next_call prog res : frame_of (next_call (Thread prog [] res false)) = None.
Proof. unfold next_call, frame_of. cbn. destruct prog; reflexivity. Qed.

Lemma map_hist_app c evs : rev (map ev_of (c_hist c ++ evs)) = rev (map ev_of evs) ++ rev (map_hist c).
Proof. unfold map_hist. rewrite map_app, rev_app_distr. reflexivity. Qed.

(* the abstract map after a linearization point *)
Lemma abs_after_lin (a : gmap Z Z) s s' c0 :
  (forall k, a !! k = abs_lookup s k) ->
  (forall k0, k0 <> key_of c0 -> abs_lookup s' k0 = abs_lookup s k0) ->
  abs_lookup s' (key_of c0) = fst (spec_k c0 (abs_lookup s (key_of c0))) ->
  (forall k, fst (map_spec a c0) !! k = abs_lookup s' k) /\
  snd (map_spec a c0) = snd (spec_k c0 (abs_lookup s (key_of c0))).
Proof.
  intros Ha Ho Hk. destruct (map_spec_k a c0) as (E1 & E2 & E3). rewrite Ha in E1, E2. split; [|exact E1].
  intros k0. destruct (decide (k0 = key_of c0)) as [->|N].
  - rewrite E2, Hk. reflexivity.
  - rewrite E3 by exact N. rewrite Ha, Ho by exact N. reflexivity.
Qed.

(* everything the family argument needs to know about one step *)
Lemma step_facts c t ch c' seen a :
  Inv c -> Inv2 c -> Inv4 c seen a -> step c t ch = Some c' ->
  exists th f i i' o,
    nth_error (c_threads c) t = Some th /\ t_stack th = [f] /\ lin_frag (f_call f) /\
    nth_error (c_insts c) 0 = Some i /\ st0 c = i_st i /\ st0 c' = i_st i' /\
    (t_fresh th = true -> dec (i_st i) f = None) /\
    (let S := if t_fresh th then (fun x => x = abs_lookup (i_st i) (key_of (f_call f))) else seen t in
     lin_post (i_st i) (i_st i') f o S) /\
    (let inv := if t_fresh th then [EvInv t (f_call f)] else [] in
     match o with
     | Continue f' =>
         c_threads c' = set_nth_list t (Thread (t_prog th) [f'] (t_results th) false) (c_threads c) /\
         c_hist c' = c_hist c ++ inv /\ f_call f' = f_call f
     | Return r =>
         c_threads c' = set_nth_list t (next_call (Thread (t_prog th) [] (t_results th ++ [rep (f_call f) r]) false)) (c_threads c) /\
         c_hist c' = c_hist c ++ inv ++ [EvRes t (rep (f_call f) r)]
     | Callback _ _ _ => False
     end) /\
    (exists i2, nth_error (c_insts c') 0 = Some i2) /\
    (forall t2 th2 f2, t2 <> t -> nth_error (c_threads c) t2 = Some th2 -> frame_of th2 = Some f2 ->
       dec (i_st i') f2 = dec (i_st i) f2 /\
       forall (S2 S2' : option Z -> Prop), (forall x, S2 x -> S2' x) ->
         S2 (abs_lookup (i_st i) (key_of (f_call f2))) -> S2' (abs_lookup (i_st i') (key_of (f_call f2))) ->
         lin_ref (i_st i) f2 S2 -> lin_ref (i_st i') f2 S2').
Proof.
  intros HI HI2 HI4 H.
  destruct (step_nopost c t ch c' HI (Inv4_nopost c seen a HI4) H) as [_ Hnp].
  pose proof H as Hstep. apply step_cases in Hstep as (th & f & rest & th0 & Hth & Hst & _ & _).
  destruct (i4_frag c seen a HI4 t th Hth) as (Hfp & Hfs & Hlen). rewrite Hst in Hfs, Hlen.
  destruct rest as [|? ?]; [|cbn in Hlen; lia]. inversion Hfs as [|? ? Hfr _]; subst.
  assert (Tt : top_frame c t = Some f) by (unfold top_frame; rewrite Hth, Hst; reflexivity).
  assert (Hok : frame_ok f) by (eapply inv_frames; eauto).
  assert (Hpl : is_post_label (f_pc f) = false).
  { destruct (is_post_label (f_pc f)) eqn:E; [|reflexivity]. exfalso. apply (fo_post _ Hok) in E.
    destruct Hfr as [_ Hfr]. destruct (f_call f); cbn in *; try contradiction. }
  destruct (step_lfrag c t ch c' th f H Hth Hst Hfr Hpl) as (i & r & Hi & Hsf & Hr).
  destruct r as [[i' o]|kk]; [|rewrite Hr in Hnp; discriminate].
  pose proof Hfr as [Hinst0 _]. rewrite Hinst0 in Hi, Hr.
  assert (Hl0 : 0 < length (c_insts c)) by (eapply nth_error_lt; eauto).
  assert (Hcore : WF_core (i_st i)) by (eapply Inv_WF_core; eauto).
  assert (Hwfl : in_cs f = true -> WFL (i_st i) f).
  { intros Hcs. destruct (inv_insts c HI _ _ Hi) as [Hm Hw].
    assert (Hmu : i_mu i = Some t) by (apply Hm; exists f; rewrite Hinst0; auto). rewrite Hmu in Hw. apply Hw, Tt. }
  assert (H2 : WF2 (i_st i)) by (eapply i2_wf2; eauto).
  assert (Href : ref_inv (i_st i) f) by (eapply i2_ref; eauto; rewrite Hinst0; exact Hi).
  assert (Hpk : frame_pc_ok f) by (eapply i2_pc; eauto).
  assert (Hs0 : st0 c = i_st i) by (unfold st0; rewrite Hi; reflexivity).
  assert (Hi' : c_insts c' = set_nth_list 0 i' (c_insts c)).
  { destruct o as [f'|r|? ? ?]; [| |contradiction]; subst c'; reflexivity. }
  assert (Hi'0 : nth_error (c_insts c') 0 = Some i') by (rewrite Hi'; apply nth_error_set_nth_list_eq; exact Hl0).
  assert (Hs0' : st0 c' = i_st i') by (unfold st0; rewrite Hi'0; reflexivity).
  set (S := if t_fresh th then (fun x => x = abs_lookup (i_st i) (key_of (f_call f))) else seen t).
  assert (HSl : S (abs_lookup (i_st i) (key_of (f_call f))) /\ lin_ref (i_st i) f S /\ (t_fresh th = true -> dec (i_st i) f = None)).
  { unfold S. destruct (t_fresh th) eqn:Efr.
    - assert (Hpc : f_pc f = first_label (f_call f)) by (eapply (i4_fresh c seen a HI4 t th f); eauto; rewrite Hst; reflexivity).
      destruct (first_label_facts (i_st i) f (fun x => x = abs_lookup (i_st i) (key_of (f_call f))) Hfr Hpc) as (D & L & _).
      auto.
    - assert (Hfo : frame_of th = Some f) by (unfold frame_of; rewrite Efr, Hst; reflexivity).
      destruct (i4_seen c seen a HI4 t th f Hth Hfo) as [A B]. rewrite Hs0 in A, B. split; [exact A|]. split; [exact B|discriminate]. }
  destruct HSl as (HS0 & HSl & Hdf).
  pose proof (sf_lin t i f ch i' o S Hfr Hok Hpk Hcore Hwfl H2 Href HSl HS0 Hsf) as Hlin.
  destruct (sf_ref t i f ch i' o Hok Hpk Hcore Hwfl H2 Href Hsf) as (w & Htr & _ & Hwj & _).
  pose proof Hlin as (_ & Ht2 & _).
  pose proof (sf_frame_ok _ _ _ _ _ _ Hok Hsf) as Hfo.
  exists th, f, i, i', o.
  split; [exact Hth|]. split; [exact Hst|]. split; [exact Hfr|]. split; [exact Hi|]. split; [exact Hs0|]. split; [exact Hs0'|].
  split; [exact Hdf|]. split; [exact Hlin|]. split.
  { destruct o as [f'|r|? ? ?]; [| |contradiction]; subst c'; cbn; auto. destruct Hfo as [_ Hfo]. auto. }
  split; [eauto|].
  intros t2 th2 f2 N Hth2 Hfo2.
  assert (T2 : top_frame c t2 = Some f2).
  { unfold top_frame. rewrite Hth2. unfold frame_of in Hfo2. destruct (t_fresh th2); [discriminate|exact Hfo2]. }
  assert (Hfr2 : lin_frag (f_call f2)).
  { destruct (i4_frag c seen a HI4 t2 th2 Hth2) as (_ & Hfs2 & _). unfold top_frame in T2. rewrite Hth2 in T2.
    destruct (t_stack th2) as [|g ?]; [discriminate|]. cbn in T2. injection T2 as ->. inversion Hfs2; assumption. }
  destruct Hfr2 as [Hinst2 _].
  assert (Href2 : ref_inv (i_st i) f2) by (eapply i2_ref; eauto; rewrite Hinst2; exact Hi).
  split.
  - apply dec_stable. intros Hp2 e2 He2.
    destruct (is_priv_priv _ _ _ Hp2 Href2 He2) as (_ & Hu2 & Hb2).
    apply (tr_ents _ _ _ Htr); [|exact Hb2]. intros Ew. destruct (Hwj e2 Ew) as [[k' Hk']|[Hpf Hef]].
    + exact (Hu2 k' Hk').
    + eapply (i2_priv c HI2 t t2 f f2 e2); eauto. congruence.
  - intros S2 S2' Hm A B. eapply lin_ref_stable; eauto.
    intros Hcs2.
    assert (Hmu : i_mu i <> Some t).
    { destruct (inv_insts c HI _ _ Hi) as [Hm' _]. assert (i_mu i = Some t2) by (apply Hm'; exists f2; auto). congruence. }
    destruct (step_rely c t ch c' 0 i i' HI H Hi Hi'0 Hmu) as [[Hsim _] _]. exact Hsim.
Qed.

Definition fam (c : config) (seen : nat -> option Z -> Prop) (a : gmap Z Z) : Prop :=
  forall m, okm c seen m ->
  exists P : lpend, poss map_spec ∅ (rev (map_hist c)) a P /\ forall t, P t = Pof c m t.

(* a step without linearization point of the stepping thread t *)
Lemma fam_N c c' (seen seen' : nat -> option Z -> Prop) a t c0 (fresh : bool) (d : option res) (ret : option res) :
  (forall t2, t2 <> t -> info c' t2 = info c t2) ->
  info c t = (if fresh then None else Some (c0, d)) ->
  info c' t = (match ret with None => Some (c0, d) | Some _ => None end) ->
  (fresh = true -> d = None) ->
  rev (map_hist c') = (match ret with Some r => [HRes t r] | None => [] end) ++ (if fresh then [HInv t c0] else []) ++ rev (map_hist c) ->
  (forall t2 x, t2 <> t -> seen' t2 x -> seen t2 x) ->
  (forall x, seen' t x -> if fresh then x = a !! key_of c0 else seen t x) ->
  (match ret with
   | Some r => d = Some r \/ (d = None /\ exists x, ro c0 x /\ r = res_of c0 x /\ seen' t x)
   | None => True end) ->
  fam c seen a -> fam c' seen' a.
Proof.
  intros HK1 HK2 HK3 Hfd Hh Hs2 Hst Hret Hfam m' Hok'.
  (* the marking of the old configuration *)
  assert (exists mt : option (option Z),
            (fresh = true -> mt = None) /\
            (forall x, mt = Some x -> seen t x /\ ro c0 x) /\
            (fresh = false ->
               match ret with
               | None => mt = m' t
               | Some r => d = Some r \/ (d = None /\ exists x, mt = Some x /\ r = res_of c0 x)
               end)) as (mt & Hmt1 & Hmt2 & Hmt3).
  { destruct fresh.
    - exists None. split; [auto|]. split; [discriminate|discriminate].
    - destruct ret as [r|].
      + destruct Hret as [Hd|(Hd & x & Hro & Hr & Hsx)].
        * exists None. split; [auto|]. split; [discriminate|]. intros _. left. exact Hd.
        * exists (Some x). split; [discriminate|]. split.
          -- intros x0 [= <-]. split; [apply (Hst x Hsx)|exact Hro].
          -- intros _. right. split; [exact Hd|]. exists x. auto.
      + exists (m' t). split; [discriminate|]. split; [|auto].
        intros x Hx. destruct (Hok' t x Hx) as [A B]. split; [apply (Hst x A)|]. eapply B. rewrite HK3. reflexivity. }
  set (m0 := fun t2 => if decide (t2 = t) then mt else m' t2).
  assert (Hok0 : okm c seen m0).
  { intros t2 x. unfold m0. destruct (decide (t2 = t)) as [->|N].
    - intros Hx. destruct (Hmt2 x Hx) as [A B]. split; [exact A|]. intros c1 d1 Hi1. rewrite HK2 in Hi1.
      destruct fresh; [discriminate|]. injection Hi1 as <- <-. exact B.
    - intros Hx. destruct (Hok' t2 x Hx) as [A B]. split; [apply (Hs2 t2 x N A)|]. intros c1 d1 Hi1. eapply B. rewrite HK1 by exact N. exact Hi1. }
  destruct (Hfam m0 Hok0) as (P0 & Hp0 & HP0).
  assert (Hoth : forall t2, t2 <> t -> P0 t2 = Pof c' m' t2).
  { intros t2 N. rewrite HP0. unfold Pof. rewrite HK1 by exact N. unfold m0. rewrite decide_False by exact N. reflexivity. }
  assert (HP0t : P0 t = if fresh then None else Some (c0, match d with Some r => Some r | None => res_of c0 <$> mt end)).
  { rewrite HP0. unfold Pof. rewrite HK2. destruct fresh; [reflexivity|]. unfold m0. rewrite decide_True by reflexivity.
    destruct d; reflexivity. }
  rewrite Hh.
  destruct fresh.
  - (* the call is invoked in this step *)
    specialize (Hfd eq_refl). subst d.
    pose proof (poss_inv map_spec ∅ _ a P0 t c0 Hp0 HP0t) as Hp1.
    destruct ret as [r|].
    + (* ... and returns in it: a read-only result of the current state *)
      destruct Hret as [Hd|(_ & x & Hro & Hr & Hsx)]; [discriminate|].
      pose proof (Hst x Hsx) as Hx. cbn in Hx. subst x. subst r.
      pose proof (poss_mark _ _ _ t c0 Hp1 (upd_same _ _ _) Hro) as Hp2.
      pose proof (poss_res map_spec ∅ _ a _ t c0 _ Hp2 (upd_same _ _ _)) as Hp3.
      eexists. split; [exact Hp3|]. intros t2. destruct (Nat.eq_dec t2 t) as [->|N].
      * rewrite upd_same. unfold Pof. rewrite HK3. reflexivity.
      * rewrite !upd_other by exact N. apply Hoth, N.
    + destruct (m' t) as [x|] eqn:Hm.
      * destruct (Hok' t x Hm) as [A B]. pose proof (Hst x A) as Hx. cbn in Hx. subst x.
        assert (Hro : ro c0 (a !! key_of c0)) by (eapply B; rewrite HK3; reflexivity).
        pose proof (poss_mark _ _ _ t c0 Hp1 (upd_same _ _ _) Hro) as Hp2.
        eexists. split; [exact Hp2|]. intros t2. destruct (Nat.eq_dec t2 t) as [->|N].
        -- rewrite upd_same. unfold Pof. rewrite HK3, Hm. reflexivity.
        -- rewrite !upd_other by exact N. apply Hoth, N.
      * eexists. split; [exact Hp1|]. intros t2. destruct (Nat.eq_dec t2 t) as [->|N].
        -- rewrite upd_same. unfold Pof. rewrite HK3, Hm. reflexivity.
        -- rewrite !upd_other by exact N. apply Hoth, N.
  - specialize (Hmt3 eq_refl). cbn [app].
    destruct ret as [r|].
    + assert (HPt : P0 t = Some (c0, Some r)).
      { rewrite HP0t. destruct Hmt3 as [->|(-> & x & -> & ->)]; reflexivity. }
      pose proof (poss_res map_spec ∅ _ a _ t c0 r Hp0 HPt) as Hp3.
      eexists. split; [exact Hp3|]. intros t2. destruct (Nat.eq_dec t2 t) as [->|N].
      * rewrite upd_same. unfold Pof. rewrite HK3. reflexivity.
      * rewrite !upd_other by exact N. apply Hoth, N.
    + exists P0. split; [exact Hp0|]. intros t2. destruct (Nat.eq_dec t2 t) as [->|N]; [|apply Hoth, N].
      rewrite HP0t. unfold Pof. rewrite HK3, Hmt3. destruct d; reflexivity.
Qed.

(* a step in which the stepping thread t passes its linearization point *)
Lemma fam_L c c' (seen seen' : nat -> option Z -> Prop) a t c0 (fresh : bool) (ret : option res) :
  let a' := fst (map_spec a c0) in
  let rl := snd (map_spec a c0) in
  let k := key_of c0 in
  (forall t2, t2 <> t -> info c' t2 = info c t2) ->
  info c t = (if fresh then None else Some (c0, None)) ->
  info c' t = (match ret with None => Some (c0, Some rl) | Some _ => None end) ->
  (forall r, ret = Some r -> r = rl) ->
  rev (map_hist c') = (match ret with Some r => [HRes t r] | None => [] end) ++ (if fresh then [HInv t c0] else []) ++ rev (map_hist c) ->
  (forall t2 x, t2 <> t -> seen' t2 x ->
     seen t2 x \/ exists c2 d2, info c t2 = Some (c2, d2) /\ key_of c2 = k /\ x = a' !! k) ->
  fam c seen a -> fam c' seen' a'.
Proof.
  intros a' rl k HK1 HK2 HK3 Hretl Hh Hs2 Hfam m' Hok'.
  set (mk := fun t2 => match info c t2 with
                       | Some (c2, None) => bool_decide (key_of c2 = k) && bool_decide (m' t2 = Some (a' !! k))
                       | _ => false end).
  set (m0 := fun t2 => if decide (t2 = t) then None
                       else match info c t2 with
                            | Some (_, None) => if mk t2 then None else m' t2
                            | Some (_, Some _) => None
                            | None => m' t2 end).
  assert (Hok0 : okm c seen m0).
  { intros t2 x. unfold m0. destruct (decide (t2 = t)) as [->|N]; [discriminate|].
    intros Hx.
    assert (Hm' : m' t2 = Some x /\ (forall c2, info c t2 = Some (c2, None) -> mk t2 = false) /\ (forall c2 r2, info c t2 <> Some (c2, Some r2))).
    { destruct (info c t2) as [[c2 [r2|]]|] eqn:Ei; [discriminate| |].
      - destruct (mk t2) eqn:Emk; [discriminate|]. split; [exact Hx|]. split; [auto|discriminate].
      - split; [exact Hx|]. split; discriminate. }
    destruct Hm' as (Hm' & Hmk & Hnd).
    destruct (Hok' t2 x Hm') as [A B]. split.
    - destruct (Hs2 t2 x N A) as [Hs|(c2 & d2 & Hi2 & Hk2 & Hxa)]; [exact Hs|]. exfalso.
      destruct d2 as [r2|]; [exact (Hnd c2 r2 Hi2)|]. specialize (Hmk c2 Hi2). unfold mk in Hmk. rewrite Hi2 in Hmk.
      rewrite bool_decide_eq_true_2 in Hmk by exact Hk2. rewrite bool_decide_eq_true_2 in Hmk by congruence. discriminate.
    - intros c1 d1 Hi1. eapply B. rewrite HK1 by exact N. exact Hi1. }
  destruct (Hfam m0 Hok0) as (P0 & Hp0 & HP0).
  assert (HP0t : P0 t = if fresh then None else Some (c0, None)).
  { rewrite HP0. unfold Pof. rewrite HK2. destruct fresh; [reflexivity|]. unfold m0. rewrite decide_True by reflexivity. reflexivity. }
  (* invocation (if any), then the linearization point *)
  assert (exists P1 : lpend, poss map_spec ∅ ((if fresh then [HInv t c0] else []) ++ rev (map_hist c)) a P1 /\
            P1 t = Some (c0, None) /\ forall t2, t2 <> t -> P1 t2 = P0 t2) as (P1 & Hp1 & HP1t & HP1o).
  { destruct fresh.
    - eexists. split; [apply (poss_inv map_spec ∅ _ a P0 t c0 Hp0 HP0t)|]. split; [apply upd_same|].
      intros t2 N. apply upd_other. exact N.
    - exists P0. auto. }
  pose proof (poss_lin map_spec ∅ _ a P1 t c0 Hp1 HP1t) as Hp2. fold a' rl in Hp2.
  (* the readers of the key that the marking links to the new value are linearized right after it *)
  set (n := length (c_threads c)).
  set (l := List.filter (fun t2 => negb (Nat.eqb t2 t) && mk t2) (seq 0 n)).
  set (want := fun t2 => Pof c' m' t2).
  assert (Hin : forall t2, In t2 l <-> t2 <> t /\ mk t2 = true).
  { intros t2. unfold l. rewrite filter_In, in_seq, andb_true_iff, negb_true_iff, Nat.eqb_neq. split; [tauto|].
    intros [N Hmk]. split; [|auto]. split; [lia|]. cbn.
    unfold mk, info in Hmk. destruct (nth_error (c_threads c) t2) eqn:E; [|discriminate]. eapply nth_error_lt; eauto. }
  destruct (poss_mark_list _ a' want l (upd P1 t (Some (c0, Some rl))) Hp2) as (P3 & Hp3 & HP3).
  { apply NoDup_filter, seq_NoDup. }
  { intros t2 Ht2. apply Hin in Ht2 as [N Hmk]. pose proof Hmk as Hmk'. unfold mk in Hmk'.
    destruct (info c t2) as [[c2 [r2|]]|] eqn:Ei; try discriminate.
    apply andb_true_iff in Hmk' as [Hk2 Hm2]. apply bool_decide_eq_true in Hk2, Hm2.
    exists c2. split; [|split].
    - rewrite upd_other by exact N. rewrite HP1o by exact N. rewrite HP0. unfold Pof. rewrite Ei.
      unfold m0. rewrite decide_False by exact N. rewrite Ei, Hmk. reflexivity.
    - rewrite Hk2. destruct (Hok' t2 _ Hm2) as [_ B]. eapply B. rewrite HK1 by exact N. exact Ei.
    - unfold want, Pof. rewrite HK1 by exact N. rewrite Ei, Hm2, Hk2. reflexivity. }
  (* what P3 is *)
  assert (HP3t : P3 t = Some (c0, Some rl)).
  { rewrite HP3. destruct (in_dec Nat.eq_dec t l) as [Hi|_]; [apply Hin in Hi; tauto|]. apply upd_same. }
  assert (HP3o : forall t2, t2 <> t -> P3 t2 = Pof c' m' t2).
  { intros t2 N. rewrite HP3. destruct (in_dec Nat.eq_dec t2 l) as [Hi|Hni]; [reflexivity|].
    rewrite upd_other by exact N. rewrite HP1o by exact N. rewrite HP0. unfold Pof. rewrite HK1 by exact N.
    unfold m0. rewrite decide_False by exact N.
    destruct (info c t2) as [[c2 [r2|]]|] eqn:Ei; try reflexivity.
    destruct (mk t2) eqn:Emk; [|reflexivity]. exfalso. apply Hni. apply Hin. auto. }
  subst want. cbv beta in *.
  rewrite Hh. destruct ret as [r|].
  - rewrite (Hretl r eq_refl).
    pose proof (poss_res map_spec ∅ _ a' _ t c0 rl Hp3 HP3t) as Hp4.
    eexists. split; [exact Hp4|]. intros t2. destruct (Nat.eq_dec t2 t) as [->|N].
    + rewrite upd_same. unfold Pof. rewrite HK3. reflexivity.
    + rewrite upd_other by exact N. apply HP3o, N.
  - exists P3. split; [exact Hp3|]. intros t2. destruct (Nat.eq_dec t2 t) as [->|N]; [|apply HP3o, N].
    rewrite HP3t. unfold Pof. rewrite HK3. reflexivity.
Qed.

Lemma info_frame c t th f : nth_error (c_threads c) t = Some th -> frame_of th = Some f ->
  info c t = Some (f_call f, dec (st0 c) f).
Proof. intros H1 H2. unfold info. rewrite H1, H2. reflexivity. Qed.

Lemma info_inv c t c2 d2 : info c t = Some (c2, d2) ->
  exists th f, nth_error (c_threads c) t = Some th /\ frame_of th = Some f /\ c2 = f_call f /\ d2 = dec (st0 c) f.
Proof.
  unfold info. destruct (nth_error (c_threads c) t) as [th|]; [|discriminate].
  destruct (frame_of th) as [f|] eqn:E; [|discriminate]. intros [= <- <-]. eauto 10.
Qed.

Theorem Inv4_step c t ch c' seen a :
  Inv c -> Inv2 c -> Inv4 c seen a -> step c t ch = Some c' -> exists seen' a', Inv4 c' seen' a'.
Proof.
  intros HI HI2 HI4 H.
  destruct (step_facts c t ch c' seen a HI HI2 HI4 H)
    as (th & f & i & i' & o & Hth & Hst & Hfr & Hi & Hs0 & Hs0' & Hdf & Hlin & Hout & Hi2 & Hoth).
  set (s := i_st i) in *. set (s' := i_st i') in *. set (c0 := f_call f) in *. set (k := key_of c0) in *.
  set (S := if t_fresh th then (fun x => x = abs_lookup s k) else seen t) in *.
  cbv zeta in Hlin, Hout. destruct Hlin as (Habs_o & Ht2 & Hcase).
  assert (Hlt : t < length (c_threads c)) by (eapply nth_error_lt; eauto).
  pose proof HI4 as [_ I4abs I4frag I4fresh I4seen I4fam].
  rewrite Hs0 in I4abs, I4seen.
  (* the other threads are untouched *)
  assert (C1 : forall t2, t2 <> t -> nth_error (c_threads c') t2 = nth_error (c_threads c) t2).
  { intros t2 N. destruct o as [f'|r|? ? ?]; [| |contradiction]; destruct Hout as (E & _); rewrite E;
      apply nth_error_set_nth_list_ne; auto. }
  assert (HK1 : forall t2, t2 <> t -> info c' t2 = info c t2).
  { intros t2 N. unfold info. rewrite (C1 t2 N). destruct (nth_error (c_threads c) t2) as [th2|] eqn:E2; [|reflexivity].
    destruct (frame_of th2) as [f2|] eqn:F2; [|reflexivity]. rewrite Hs0, Hs0'.
    destruct (Hoth t2 th2 f2 N E2 F2) as [D _]. fold s s' in D. rewrite D. reflexivity. }
  assert (HK2 : info c t = if t_fresh th then None else Some (c0, dec s f)).
  { unfold info. rewrite Hth. unfold frame_of. rewrite Hst, Hs0. destruct (t_fresh th); reflexivity. }
  (* the values seen by the calls in flight, after the step *)
  set (seen' := fun t2 x => if decide (t2 = t) then S x \/ x = abs_lookup s' k
                            else seen t2 x \/ exists c2 d2, info c t2 = Some (c2, d2) /\ x = abs_lookup s' (key_of c2)).
  assert (Hfrag' : forall t2 th2, nth_error (c_threads c') t2 = Some th2 ->
            Forall lin_frag (t_prog th2) /\ Forall (fun f => lin_frag (f_call f)) (t_stack th2) /\ length (t_stack th2) <= 1).
  { intros t2 th2. destruct (decide (t2 = t)) as [->|N]; [|rewrite (C1 t2 N); apply I4frag].
    destruct (I4frag t th Hth) as (Hfp & _ & _).
    destruct o as [f'|r|? ? ?]; [| |contradiction]; destruct Hout as (E & Hrest); rewrite E, nth_error_set_nth_list_eq by exact Hlt;
      intros [= <-].
    - destruct Hrest as [_ Hcall]. cbn. split; [exact Hfp|]. split; [constructor; [rewrite Hcall; exact Hfr|constructor]|lia].
    - unfold next_call. cbn. destruct (t_prog th) as [|c1 p1]; cbn.
      + split; [constructor|]. split; [constructor|lia].
      + inversion Hfp; subst. split; [assumption|]. split; [constructor; [assumption|constructor]|lia]. }
  assert (Hfresh' : forall t2 th2 f2, nth_error (c_threads c') t2 = Some th2 -> t_fresh th2 = true ->
            head (t_stack th2) = Some f2 -> f_pc f2 = first_label (f_call f2)).
  { intros t2 th2 f2. destruct (decide (t2 = t)) as [->|N]; [|rewrite (C1 t2 N); apply I4fresh].
    destruct o as [f'|r|? ? ?]; [| |contradiction]; destruct Hout as (E & Hrest); rewrite E, nth_error_set_nth_list_eq by exact Hlt;
      intros [= <-]; cbn; [discriminate|].
    unfold next_call. cbn. destruct (t_prog th) as [|c1 p1]; cbn; [discriminate|]. intros _ [= <-]. reflexivity. }
  assert (Hseen' : forall t2 th2 f2, nth_error (c_threads c') t2 = Some th2 -> frame_of th2 = Some f2 ->
            seen' t2 (abs_lookup s' (key_of (f_call f2))) /\ lin_ref s' f2 (seen' t2)).
  { intros t2 th2 f2. destruct (decide (t2 = t)) as [->|N].
    - destruct o as [f'|r|? ? ?]; [| |contradiction]; destruct Hout as (E & Hrest); rewrite E, nth_error_set_nth_list_eq by exact Hlt;
        intros [= <-].
      + destruct Hrest as [_ Hcall]. unfold frame_of. cbn. intros [= <-]. unfold seen'. rewrite decide_True by reflexivity.
        rewrite Hcall. split; [right; reflexivity|].
        destruct Hcase as [(_ & _ & Hl)|(_ & _ & _ & Hl)]; (eapply lin_ref_mono; [|exact Hl]); intros x Hx; cbv beta; rewrite decide_True by reflexivity; exact Hx.
      + rewrite frame_of_next_call. discriminate.
    - rewrite (C1 t2 N). intros E2 F2. destruct (Hoth t2 th2 f2 N E2 F2) as [_ Hl]. fold s s' in Hl.
      destruct (I4seen t2 th2 f2 E2 F2) as [A B]. unfold seen'. rewrite decide_False by exact N. split.
      + right. exists (f_call f2), (dec (st0 c) f2). split; [eapply info_frame; eassumption|reflexivity].
      + apply (Hl (seen t2)); auto.
        * intros x Hx. rewrite decide_False by exact N. left. exact Hx.
        * rewrite decide_False by exact N.
          right. exists (f_call f2), (dec (st0 c) f2). split; [eapply info_frame; eassumption|reflexivity]. }
  (* the history *)
  set (invh := (if t_fresh th then [HInv t c0] else []) : list hev).
  assert (Hinv : rev (map ev_of (if t_fresh th then [EvInv t c0] else [])) = invh) by (unfold invh; destruct (t_fresh th); reflexivity).
  destruct Hcase as [(Hk & Hn)|(Hd0 & Hk & Hl)].
  - (* no linearization point of t in this step: the abstract map is unchanged *)
    assert (Hall : forall k0, abs_lookup s' k0 = abs_lookup s k0).
    { intros k0. destruct (decide (k0 = k)) as [->|N]; [exact Hk|apply Habs_o, N]. }
    exists seen', a. constructor; auto.
    + rewrite Hs0'. intros k0. rewrite Hall. apply I4abs.
    + rewrite Hs0'. exact Hseen'.
    + fold (fam c' seen' a).
      apply (fam_N c c' seen seen' a t c0 (t_fresh th) (dec s f)
               (match o with Return r => Some (rep c0 r) | _ => None end)).
      * exact HK1.
      * exact HK2.
      * destruct o as [f'|r|? ? ?]; [| |contradiction]; destruct Hout as (E & Hrest); unfold info; rewrite E, nth_error_set_nth_list_eq by exact Hlt.
        -- destruct Hrest as [_ Hcall]. unfold frame_of. cbn. rewrite Hs0'. fold s'. destruct Hn as [Hn _]. rewrite Hn, Hcall. reflexivity.
        -- rewrite frame_of_next_call. reflexivity.
      * exact Hdf.
      * unfold map_hist. destruct o as [f'|r|? ? ?]; [| |contradiction]; destruct Hout as (_ & Hh & _) || destruct Hout as (_ & Hh); rewrite Hh.
        -- rewrite map_hist_app, Hinv. reflexivity.
        -- rewrite map_hist_app. rewrite map_app, rev_app_distr, Hinv. unfold invh. rewrite <- app_assoc. reflexivity.
      * intros t2 x N. unfold seen'. rewrite decide_False by exact N. intros [Hs|(c2 & d2 & Hi2' & ->)]; [exact Hs|].
        apply info_inv in Hi2' as (th2 & f2 & E2 & F2 & -> & _). rewrite Hall. apply (I4seen t2 th2 f2 E2 F2).
      * intros x. unfold seen'. rewrite decide_True by reflexivity. unfold S. rewrite Hall. fold k.
        destruct (t_fresh th) eqn:Efr.
        -- rewrite I4abs. tauto.
        -- assert (F : frame_of th = Some f) by (unfold frame_of; rewrite Efr, Hst; reflexivity).
           intros [Hs| ->]; [exact Hs|]. apply (I4seen t th f Hth F).
      * destruct o as [f'|r|? ? ?]; [exact I| |contradiction]. destruct Hn as [Hn|(Hn & x & Hro & Hr & Hsx)]; [left; exact Hn|].
        right. split; [exact Hn|]. exists x. split; [exact Hro|]. split; [exact Hr|]. unfold seen'. rewrite decide_True by reflexivity. exact Hsx.
      * exact I4fam.
  - (* t passes its linearization point *)
    destruct (abs_after_lin a s s' c0 I4abs Habs_o Hk) as [Habs' Hrl].
    exists seen', (fst (map_spec a c0)). constructor; auto.
    + rewrite Hs0'. exact Habs'.
    + rewrite Hs0'. exact Hseen'.
    + fold (fam c' seen' (fst (map_spec a c0))).
      apply (fam_L c c' seen seen' a t c0 (t_fresh th) (match o with Return r => Some (rep c0 r) | _ => None end)).
      * exact HK1.
      * rewrite HK2, Hd0. reflexivity.
      * destruct o as [f'|r|? ? ?]; [| |contradiction]; destruct Hout as (E & Hrest); unfold info; rewrite E, nth_error_set_nth_list_eq by exact Hlt.
        -- destruct Hrest as [_ Hcall]. unfold frame_of. cbn. rewrite Hs0'. fold s'. destruct Hl as [Hl _]. rewrite Hl, Hcall, Hrl. reflexivity.
        -- rewrite frame_of_next_call. reflexivity.
      * intros r0. destruct o as [f'|r|? ? ?]; [discriminate| |contradiction]. intros [= <-]. rewrite Hrl. exact Hl.
      * unfold map_hist. destruct o as [f'|r|? ? ?]; [| |contradiction]; destruct Hout as (_ & Hh & _) || destruct Hout as (_ & Hh); rewrite Hh.
        -- rewrite map_hist_app, Hinv. reflexivity.
        -- rewrite map_hist_app. rewrite map_app, rev_app_distr, Hinv. unfold invh. rewrite <- app_assoc. reflexivity.
      * intros t2 x N. unfold seen'. rewrite decide_False by exact N. intros [Hs|(c2 & d2 & Hi2' & ->)]; [left; exact Hs|].
        destruct (decide (key_of c2 = k)) as [Ek|Nk].
        -- right. exists c2, d2. split; [exact Hi2'|]. split; [exact Ek|]. rewrite Ek. fold k. rewrite Habs'. reflexivity.
        -- left. apply info_inv in Hi2' as (th2 & f2 & E2 & F2 & -> & _). rewrite (Habs_o _ Nk). apply (I4seen t2 th2 f2 E2 F2).
      * exact I4fam.
Qed.

Theorem Inv4_init z progs :
  Forall (Forall lin_frag) progs -> Inv4 (init_config_z [z] progs) (fun _ _ => False) ∅.
Proof.
  intros Hfr.
  assert (Hthreads : forall t th, nth_error (c_threads (init_config_z [z] progs)) t = Some th ->
            exists p, Forall lin_frag p /\ th = next_call (Thread p [] [] false)).
  { intros t th. cbn. rewrite nth_error_map. destruct (nth_error progs t) as [p|] eqn:E; [|discriminate]. cbn.
    intros [= <-]. exists p. split; [|reflexivity]. rewrite Forall_forall in Hfr. apply Hfr. eapply nth_error_In, E. }
  assert (Hnone : forall t, info (init_config_z [z] progs) t = None).
  { intros t. unfold info. destruct (nth_error (c_threads (init_config_z [z] progs)) t) as [th|] eqn:E; [|reflexivity].
    destruct (Hthreads t th E) as (p & _ & ->). rewrite frame_of_next_call. reflexivity. }
  constructor.
  - exists (empty_inst_z z). reflexivity.
  - intros k. rewrite lookup_empty. reflexivity.
  - intros t th Hth. destruct (Hthreads t th Hth) as (p & Hp & ->). unfold next_call. cbn. destruct p as [|c0 p]; cbn.
    + split; [constructor|]. split; [constructor|lia].
    + inversion Hp; subst. split; [assumption|]. split; [constructor; [assumption|constructor]|lia].
  - intros t th f Hth _. destruct (Hthreads t th Hth) as (p & Hp & ->). unfold next_call. cbn.
    destruct p; cbn; [discriminate|]. intros [= <-]. reflexivity.
  - intros t th f Hth. destruct (Hthreads t th Hth) as (p & Hp & ->). rewrite frame_of_next_call. discriminate.
  - intros m _. exists no_pend. split; [apply poss_nil|]. intros t. unfold Pof. rewrite Hnone. reflexivity.
Qed.

Lemma Inv1234_run c sched seen a : Inv c -> Inv2 c -> Inv4 c seen a ->
  exists seen' a', Inv4 (run_schedule c sched) seen' a'.
Proof.
  revert c seen a. induction sched as [|[t ch] sched IH]; intros c seen a H1 H2 H4; cbn; [eauto|].
  destruct (step c t ch) as [c'|] eqn:E; cbn; [|eapply IH; eauto].
  destruct (Inv4_step c t ch c' seen a H1 H2 H4 E) as (seen' & a' & H4').
  eapply IH; [eapply Inv_step; eauto|eapply Inv2_step; eauto|exact H4'].
Qed.

(* Every history of Load / Store / LoadOrStore / LoadAndDelete / Delete calls
   on one sync2.Map, by any number of goroutines, under every interleaving of
   the atomic steps, is linearizable to an ordinary map. *)
Theorem map_linearizable z progs sched :
  Forall (Forall lin_frag) progs ->
  linearizable map_spec ∅ (map_hist (run_schedule (init_config_z [z] progs) sched)).
Proof.
  intros Hfr.
  destruct (Inv1234_run (init_config_z [z] progs) sched _ _ (Inv_init_z [z] progs) (Inv2_init_z [z] progs) (Inv4_init z progs Hfr))
    as (seen & a & HI4).
  destruct (i4_fam _ _ _ HI4 (fun _ => None)) as (P & Hp & _); [intros t x; discriminate|].
  exists a, P. exact Hp.
Qed.

(* ... and the map the linearization ends in IS the contents of the Map; when
   every goroutine has finished, every call of the history has been linearized. *)
Theorem map_linearizable_contents z progs sched :
  Forall (Forall lin_frag) progs ->
  let c := run_schedule (init_config_z [z] progs) sched in
  exists (a : gmap Z Z) (P : lpend),
    poss map_spec ∅ (rev (map_hist c)) a P /\
    (forall k, a !! k = abs_lookup (st0 c) k) /\
    (finished c = true -> forall t, P t = None).
Proof.
  intros Hfr c.
  destruct (Inv1234_run (init_config_z [z] progs) sched _ _ (Inv_init_z [z] progs) (Inv2_init_z [z] progs) (Inv4_init z progs Hfr))
    as (seen & a & HI4). fold c in HI4.
  destruct (i4_fam _ _ _ HI4 (fun _ => None)) as (P & Hp & HP); [intros t x; discriminate|].
  exists a, P. split; [exact Hp|]. split; [apply (i4_abs _ _ _ HI4)|].
  intros Hfin t. rewrite HP. unfold Pof, info.
  destruct (nth_error (c_threads c) t) as [th|] eqn:E; [|reflexivity].
  unfold finished in Hfin. rewrite forallb_forall in Hfin. specialize (Hfin th (nth_error_In _ _ E)).
  unfold frame_of. destruct (t_stack th); [|discriminate]. destruct (t_fresh th); reflexivity.
Qed.
