(* Concurrent invariants of the small-step interleaving model of sync2.Map
   (SyncMap/Model.v; /repo/sync2/map.go): theorems over ALL schedules, any
   number of threads and instances, any programs (C04 items 2 and 3 of
   DESIGN.md section 6).

   - lock discipline / mutual exclusion of m.mu,
   - no panic (no assignment to a nil dirty map, no nil entry dereference),
   - the structural invariant WF at lock-free moments and its relaxation WFL
     inside the critical section, indexed by the lock holder's pc,
   - expunged is final except for the lock holder's Unexpunge_cas.

   Method: an invariant [Inv] of configurations, shown for [init_config_z] and
   preserved by every [step]; the case analysis over the labels is done once
   per aspect on [step_frame] (the sf_ lemmas), the assembly on [step]. *)
From Typ Require Import SyncMap.Model.

(* ------------------------------------------------------------------ *)
(* lists                                                              *)
(* ------------------------------------------------------------------ *)
Lemma nth_error_set_nth_list_eq {X} n (x : X) l :
  n < length l -> nth_error (set_nth_list n x l) n = Some x.
Proof.
  unfold set_nth_list. revert l. induction n as [|n IH]; intros [|y l] Hl; simpl in *; try lia.
  - reflexivity.
  - apply IH. lia.
Qed.

Lemma nth_error_set_nth_list_ne {X} n m (x : X) l :
  n < length l -> m <> n -> nth_error (set_nth_list n x l) m = nth_error l m.
Proof.
  unfold set_nth_list. revert l m. induction n as [|n IH]; intros [|y l] m Hl Hm; simpl in *; try lia.
  - destruct m; [congruence|reflexivity].
  - destruct m; [reflexivity|]. simpl. apply IH; lia.
Qed.

Lemma length_set_nth_list {X} n (x : X) l : n < length l -> length (set_nth_list n x l) = length l.
Proof.
  unfold set_nth_list. revert l. induction n as [|n IH]; intros [|y l] Hl; simpl in *; try lia.
  - reflexivity.
  - rewrite IH; lia.
Qed.

Lemma nth_error_lt {X} (l : list X) n x : nth_error l n = Some x -> n < length l.
Proof. intros H. apply nth_error_Some. congruence. Qed.

Lemma existsb_eqb_In k (l : list Z) : existsb (Z.eqb k) l = true <-> k ∈ l.
Proof.
  rewrite existsb_exists. split.
  - intros (x & Hx & E). apply Z.eqb_eq in E. subst. apply elem_of_list_In. exact Hx.
  - intros H. exists k. split; [apply elem_of_list_In, H|apply Z.eqb_refl].
Qed.

Lemma existsb_eqb_notin k (l : list Z) : existsb (Z.eqb k) l = false <-> k ∉ l.
Proof.
  rewrite <- existsb_eqb_In. destruct (existsb (Z.eqb k) l); split; congruence.
Qed.

Lemma unvisited_nil (m : gmap Z nat) vis : unvisited m vis = [] -> forall k e, m !! k = Some e -> k ∈ vis.
Proof.
  unfold unvisited. intros H k e Hk.
  destruct (existsb (Z.eqb k) vis) eqn:E. { apply existsb_eqb_In, E. }
  exfalso.
  assert (HI : In k (List.filter (fun k : Z => negb (existsb (Z.eqb k) vis)) (map fst (map_to_list m)))).
  { apply filter_In. split; [|rewrite E; reflexivity].
    apply in_map_iff. exists (k, e). split; [reflexivity|]. apply elem_of_list_In, elem_of_map_to_list, Hk. }
  rewrite H in HI. destruct HI.
Qed.

(* ------------------------------------------------------------------ *)
(* the critical section, by program counter                           *)
(* ------------------------------------------------------------------ *)
(* What the lock holder is doing: CsPlain = the structure is whole (WF), the
   others are the relaxations. CsNone = outside the critical section. *)
Inductive csclass := CsNone | CsPlain | CsUnexp | CsStoreLocked | CsDirtyRead | CsLoop | CsLoopCur | CsAmend.

Definition cs_class (f : frame) : csclass :=
  match f_pc f with
  | Load_read2 | Load_unlock | Miss_store | Store_read2 | Store_unlock | LOS_read2 | LOS_unlock
  | LAD_read2 | LAD_unlock | Range_read2 | Range_promote | Range_unlock => CsPlain
  | Tlos_load1 | Tlos_cas | Tlos_load2 => match f_mode f with MFast => CsNone | _ => CsPlain end
  | Unexpunge_cas => CsUnexp
  | StoreLocked => CsStoreLocked
  | Dirty_read => CsDirtyRead
  | Dirty_iter => CsLoop
  | Expunge_load1 | Expunge_cas | Expunge_load2 => CsLoopCur
  | Store_amend | LOS_amend => CsAmend
  | _ => CsNone
  end.

(* the frame is between the step after its *_lock and its *_unlock *)
Definition in_cs (f : frame) : bool := match cs_class f with CsNone => false | _ => true end.

(* ------------------------------------------------------------------ *)
(* frame-local invariant (independent of the shared state)            *)
(* ------------------------------------------------------------------ *)
Definition needs_e (l : label) : bool :=
  match l with
  | E_load | TryStore_load | TryStore_cas | Unexpunge_cas | StoreLocked | Expunge_load1 | Expunge_cas | Expunge_load2
  | Tlos_load1 | Tlos_cas | Tlos_load2 | Delete_load | Delete_cas => true
  | _ => false
  end.

Definition has_post (c : call) : Prop := match c with CLoadOrStore _ _ _ p => p <> PNone | _ => False end.

Record frame_ok (f : frame) : Prop := {
  fo_e : needs_e (f_pc f) = true -> f_e f <> None;
  fo_store : f_pc f = TryStore_cas -> f_p f <> PExpunged;
  fo_del : f_pc f = Delete_cas -> exists v, f_p f = PVal v;
  fo_post : is_post_label (f_pc f) = true -> has_post (f_call f)
}.

Lemma frame_ok_plain f : needs_e (f_pc f) = false -> is_post_label (f_pc f) = false -> frame_ok f.
Proof.
  intros H1 H2. constructor; intros H; try congruence; rewrite H in H1; discriminate.
Qed.

Lemma frame_ok_new c : frame_ok (new_frame c).
Proof. apply frame_ok_plain; destruct c; reflexivity. Qed.

Lemma range_next_cases f stop :
  (exists r, range_next f stop = Return r) \/ range_next f stop = Continue (set_pc f Range_iter).
Proof.
  unfold range_next. destruct stop; [left; eauto|]. destruct (unvisited _ _); [left; eauto|right; reflexivity].
Qed.

Lemma needs_e_unlock c : needs_e (unlock_label c) = false.
Proof. destruct c; reflexivity. Qed.
Lemma post_unlock c : is_post_label (unlock_label c) = false.
Proof. destruct c; reflexivity. Qed.
Lemma needs_e_amend c : needs_e (amend_label c) = false.
Proof. destruct c; reflexivity. Qed.
Lemma post_amend c : is_post_label (amend_label c) = false.
Proof. destruct c; reflexivity. Qed.
Lemma post_label_spec p l : post_label p = Some l -> needs_e l = false /\ is_post_label l = true /\ p <> PNone.
Proof. destruct p; intros [= <-]; repeat split; discriminate. Qed.

Lemma frame_ok_post f l i k v p :
  f_call f = CLoadOrStore i k v p -> post_label p = Some l -> f_pc f = l -> frame_ok f.
Proof.
  intros Hc Hp Hl. destruct (post_label_spec _ _ Hp) as (H1 & H2 & H3). rewrite <- Hl in *.
  constructor; intros H; try (rewrite H in H1; discriminate); try congruence.
  rewrite Hc. exact H3.
Qed.

Ltac frame_ok_tac :=
  first [ apply frame_ok_plain; cbn;
          first [reflexivity | apply needs_e_unlock | apply post_unlock | apply needs_e_amend | apply post_amend]
        | eapply frame_ok_post; cbn; [eassumption|eassumption|reflexivity]
        | constructor; cbn; intros; first [discriminate | congruence | eauto] ].

(* L1: a step keeps the frame-local invariant and the call *)
Lemma sf_frame_ok t i f ch i' o :
  frame_ok f -> step_frame t i f ch = Some (Ok (i', o)) ->
  match o with
  | Continue f' => frame_ok f' /\ f_call f' = f_call f
  | Return _ => True
  | Callback f' _ _ => f' = f
  end.
Proof.
  intros [He Hst Hdel Hpost] H. unfold step_frame in H.
  destruct (f_pc f) eqn:Hpc; cbn in He;
    unfold expunge_done, tlos_done, bind in H; unfold after_miss, dirty_next, los_return, range_next in H;
    repeat case_match; simplify_eq; try exact I; try reflexivity; cbn [fst snd];
    try (split; [frame_ok_tac|cbn; congruence]).
Qed.

(* ------------------------------------------------------------------ *)
(* the shared state: structural invariant                             *)
(* ------------------------------------------------------------------ *)
Definition is_exp (s : mstate) (e : nat) : bool := match get_ent s e with PExpunged => true | _ => false end.

(* entry e is recorded under key k in the read map or in the dirty map *)
Definition reach_any (s : mstate) (k : Z) (e : nat) : Prop :=
  read_m s !! k = Some e \/ dirty_lookup s k = Some e.

(* the part of the invariant that holds at every moment *)
Record WF_core (s : mstate) : Prop := {
  wf_inj : forall k1 k2 e, reach_any s k1 e -> reach_any s k2 e -> k1 = k2;   (* entry ids unique per key *)
  wf_bound : forall k e, reach_any s k e -> e < next_e s;
  wf_dirty_live : forall k e, dirty_lookup s k = Some e -> is_exp s e = false; (* no expunged entry in dirty *)
  wf_amended : amended s = true -> dirty s <> None;
  wf_clean : dirty s = None -> forall k e, read_m s !! k = Some e -> is_exp s e = false;
  wf_exp_bound : forall e, is_exp s e = true -> e < next_e s  (* only allocated entries are expunged *)
}.

(* the part the lock holder suspends while it rebuilds the dirty map *)
Record WF_ad (s : mstate) : Prop := {
  wf_cover : forall d k e, dirty s = Some d -> read_m s !! k = Some e ->
             d !! k = if is_exp s e then None else Some e;
  wf_unamended : amended s = false -> dirty s = None
}.

Definition WF (s : mstate) : Prop := WF_core s /\ WF_ad s.

(* dirtyLocked's loop: [done] = the keys already copied *)
Definition loop_inv (s : mstate) (rdm : gmap Z nat) (key : Z) (done : list Z) : Prop :=
  rdm = read_m s /\ amended s = false /\ read_m s !! key = None /\
  exists d, dirty s = Some d /\
    (forall k e, read_m s !! k = Some e -> k ∈ done -> d !! k = if is_exp s e then None else Some e) /\
    (forall k e, d !! k = Some e -> k ∈ done /\ read_m s !! k = Some e).

(* the invariant while the lock is held, by the holder's pc *)
Definition WFL (s : mstate) (f : frame) : Prop :=
  WF_core s /\
  match cs_class f with
  | CsNone => True
  | CsPlain => WF_ad s
  | CsUnexp => WF_ad s /\ read_m s !! key_of (f_call f) = f_e f
  | CsStoreLocked => WF_ad s /\ exists e, f_e f = Some e /\ is_exp s e = false
  | CsDirtyRead => WF_ad s /\ dirty s = None /\ read_m s !! key_of (f_call f) = None
  | CsLoop => loop_inv s (f_rd_m f) (key_of (f_call f)) (f_visited f)
  | CsLoopCur => exists vis, f_visited f = f_curk f :: vis /\ f_curk f ∉ vis /\
                             f_rd_m f !! f_curk f = f_e f /\ loop_inv s (f_rd_m f) (key_of (f_call f)) vis
  | CsAmend => loop_inv s (f_rd_m f) (key_of (f_call f)) (f_visited f) /\ forall k e, read_m s !! k = Some e -> k ∈ f_visited f
  end.

(* what a thread that does not hold the lock may do to the state: entry
   pointers change between nil and values only *)
Record sim (s s' : mstate) : Prop := {
  rl_next : next_e s' = next_e s;
  rl_read : read_m s' = read_m s;
  rl_am : amended s' = amended s;
  rl_dirty : dirty s' = dirty s;
  rl_exp : forall e, is_exp s' e = is_exp s e
}.
Definition rely (s s' : mstate) : Prop := sim s s' /\ misses s' = misses s.

Lemma sim_refl s : sim s s.
Proof. constructor; reflexivity. Qed.
Lemma rely_refl s : rely s s.
Proof. split; [apply sim_refl|reflexivity]. Qed.

Lemma get_ent_set_ent s e p e0 :
  get_ent (set_ent s e p) e0 = if decide (e0 = e) then p else get_ent s e0.
Proof.
  unfold get_ent, set_ent; simpl. destruct (decide (e0 = e)) as [->|N].
  - rewrite lookup_insert. reflexivity.
  - rewrite lookup_insert_ne by congruence. reflexivity.
Qed.

Lemma is_exp_set_ent s e p e0 :
  is_exp (set_ent s e p) e0 = if decide (e0 = e) then bool_decide (p = PExpunged) else is_exp s e0.
Proof.
  unfold is_exp. rewrite get_ent_set_ent. destruct (decide (e0 = e)); [|reflexivity].
  destruct p; reflexivity.
Qed.

Lemma rely_put_ent i e p : is_exp (i_st i) e = false -> p <> PExpunged -> rely (i_st i) (i_st (put_ent i e p)).
Proof.
  intros He Hp. split; [|reflexivity]. constructor; try reflexivity. intros e0. cbn. rewrite is_exp_set_ent.
  destruct (decide (e0 = e)) as [->|]; [|reflexivity].
  rewrite He. apply bool_decide_eq_false. exact Hp.
Qed.

Lemma cas_ok_not_exp i e f : cas_ok i e f = true -> f_p f <> PExpunged -> is_exp (i_st i) e = false.
Proof.
  unfold cas_ok, is_exp, ent. intros H Hp.
  destruct (f_p f) eqn:E; try congruence.
  - apply bool_decide_eq_true in H. rewrite H. reflexivity.
  - apply andb_true_iff in H as [H _]. apply bool_decide_eq_true in H. rewrite H. reflexivity.
Qed.

Lemma is_exp_ent i e : is_exp (i_st i) e = match ent i e with PExpunged => true | _ => false end.
Proof. reflexivity. Qed.

Definition out_free (o : outcome) : Prop := match o with Continue f' => in_cs f' = false | _ => True end.

Lemma in_cs_post p l f : post_label p = Some l -> f_pc f = l -> in_cs f = false.
Proof. unfold in_cs, cs_class. intros Hp ->. destruct p; simplify_eq/=; reflexivity. Qed.

(* L2: a step outside the critical section either acquires the free lock or
   leaves mu, dirty, misses, read alone and changes no expunged entry *)
Lemma sf_free t i f ch i' o :
  frame_ok f -> in_cs f = false -> step_frame t i f ch = Some (Ok (i', o)) ->
  (i_mu i = None /\ i' = Inst (i_st i) (Some t) (i_ver i) (i_zs i) /\ exists f', o = Continue f' /\ cs_class f' = CsPlain)
  \/ (i_mu i' = i_mu i /\ rely (i_st i) (i_st i') /\ out_free o).
Proof.
  intros [He Hst Hdel Hpost] Hcs H. unfold step_frame in H. unfold in_cs, cs_class in Hcs.
  destruct (f_pc f) eqn:Hpc; try discriminate Hcs; cbn in He;
    unfold expunge_done, tlos_done, bind in H; unfold after_miss, dirty_next, los_return, range_next in H;
    repeat case_match; simplify_eq;
    try (left; split; [first [assumption|reflexivity]|split; [reflexivity|eexists; split; reflexivity]]);
    try (right; split; [reflexivity|split; [first [apply rely_refl | apply rely_put_ent] | cbn; try exact I; try reflexivity]]).
  all: try (eapply in_cs_post; [eassumption|reflexivity]).
  all: try discriminate.
  all: try (unfold in_cs, cs_class; cbn; repeat case_match; congruence).
  all: try (eapply cas_ok_not_exp; eauto; fail).
  all: try (rewrite is_exp_ent; repeat case_match; congruence).
  all: destruct (Hdel eq_refl) as [? ?]; eapply cas_ok_not_exp; eauto; congruence.
Qed.

(* ------------------------------------------------------------------ *)
(* stability of the invariants under [sim]; promotion *)
(* ------------------------------------------------------------------ *)
(* ---- stability under sim ---- *)
Lemma reach_any_sim s s' k e : sim s s' -> reach_any s' k e <-> reach_any s k e.
Proof. intros [? Hr ? Hd ?]. unfold reach_any, dirty_lookup. rewrite Hr, Hd. reflexivity. Qed.

Lemma WF_core_sim s s' : sim s s' -> WF_core s -> WF_core s'.
Proof.
  intros Hs [H1 H2 H3 H4 H5 HX]. pose proof Hs as [Hn Hr Ha Hd He]. constructor.
  - intros k1 k2 e. rewrite !(reach_any_sim s s') by assumption. apply H1.
  - intros k e. rewrite (reach_any_sim s s') by assumption. rewrite Hn. apply H2.
  - intros k e. unfold dirty_lookup. rewrite Hd, He. apply H3.
  - rewrite Ha, Hd. exact H4.
  - rewrite Hd, Hr. intros Hx k e Hk. rewrite He. eapply H5; eauto.
  - intros e. rewrite He, Hn. apply HX.
Qed.

Lemma WF_ad_sim s s' : sim s s' -> WF_ad s -> WF_ad s'.
Proof.
  intros [Hn Hr Ha Hd He] [H1 H2]. constructor.
  - rewrite Hd, Hr. intros d k e Hx Hk. rewrite He. eauto.
  - rewrite Ha, Hd. exact H2.
Qed.

Lemma WF_sim s s' : sim s s' -> WF s -> WF s'.
Proof. intros Hs [H1 H2]. split; eauto using WF_core_sim, WF_ad_sim. Qed.

Lemma loop_inv_sim s s' rdm key done : sim s s' -> loop_inv s rdm key done -> loop_inv s' rdm key done.
Proof.
  intros [Hn Hr Ha Hd He] (H1 & H2 & H3 & d & H4 & H5 & H6). unfold loop_inv.
  rewrite Hr, Ha, Hd. split; [exact H1|]. split; [exact H2|]. split; [exact H3|].
  exists d. split; [exact H4|]. split; [|exact H6].
  intros k e Hk Hin. rewrite He. eauto.
Qed.

Lemma WFL_sim s s' f : sim s s' -> WFL s f -> WFL s' f.
Proof.
  intros Hs [Hc H]. split; [eapply WF_core_sim; eauto|].
  pose proof Hs as [Hn Hr Ha Hd He].
  destruct (cs_class f); try exact I.
  - eapply WF_ad_sim; eauto.
  - destruct H as [H1 H2]. split; [eapply WF_ad_sim; eauto|]. rewrite Hr. exact H2.
  - destruct H as [H1 (e & H2 & H3)]. split; [eapply WF_ad_sim; eauto|]. exists e. rewrite He. auto.
  - destruct H as [H1 [H2 H3]]. split; [eapply WF_ad_sim; eauto|]. rewrite Hd, Hr. auto.
  - eapply loop_inv_sim; eauto.
  - destruct H as (vis & H1 & H2 & H3 & H4). exists vis. eauto using loop_inv_sim.
  - destruct H as [H1 H2]. split; [eapply loop_inv_sim; eauto|]. rewrite Hr. exact H2.
Qed.

Lemma sim_misses s m : sim s (st_with_misses s m).
Proof. constructor; reflexivity. Qed.

Lemma sim_set_ent s e p : is_exp s e = false -> p <> PExpunged -> sim s (set_ent s e p).
Proof.
  intros He Hp. constructor; try reflexivity. intros e0. rewrite is_exp_set_ent.
  destruct (decide (e0 = e)) as [->|]; [|reflexivity].
  rewrite He. apply bool_decide_eq_false. exact Hp.
Qed.

(* ---- promotion: m.read := (dirty, false); dirty := nil; misses := 0 ---- *)
Lemma WF_promote s : WF_core s -> WF (MState (ents s) (next_e s) (default ∅ (dirty s)) false None 0).
Proof.
  intros [H1 H2 H3 H4 H5 HX].
  assert (R : forall k e, reach_any (MState (ents s) (next_e s) (default ∅ (dirty s)) false None 0) k e -> dirty_lookup s k = Some e).
  { intros k e [H|H]; cbn in H; [|discriminate]. unfold dirty_lookup. destruct (dirty s); [exact H|]. cbn in H. rewrite lookup_empty in H. discriminate. }
  split; constructor; cbn.
  - intros k1 k2 e Ha Hb. apply (H1 k1 k2 e); right; auto.
  - intros k e Ha. apply (H2 k e). right; auto.
  - intros k e H. discriminate.
  - discriminate.
  - intros _ k e Hk. apply (H3 k e). apply R. left. exact Hk.
  - exact HX.
  - discriminate.
  - reflexivity.
Qed.

(* ------------------------------------------------------------------ *)
(* what the lock holder does to the state *)
(* ------------------------------------------------------------------ *)
Definition exps (es : gmap nat ptr) (e : nat) : bool := match default PNil (es !! e) with PExpunged => true | _ => false end.
Lemma is_exp_mk es ne rm am d ms e : is_exp (MState es ne rm am d ms) e = exps es e.
Proof. reflexivity. Qed.
Lemma is_exp_exps s e : is_exp s e = exps (ents s) e.
Proof. reflexivity. Qed.
Lemma exps_insert es e p e0 : exps (<[e := p]> es) e0 = if decide (e0 = e) then bool_decide (p = PExpunged) else exps es e0.
Proof.
  unfold exps. destruct (decide (e0 = e)) as [->|N].
  - rewrite lookup_insert. destruct p; reflexivity.
  - rewrite lookup_insert_ne by congruence. reflexivity.
Qed.

(* ---- m.dirty[key] = newEntry(value), key in neither map ---- *)
Lemma WF_insert_new s d key v :
  WF_core s -> dirty s = Some d -> read_m s !! key = None -> d !! key = None ->
  (forall k e, read_m s !! k = Some e -> d !! k = if is_exp s e then None else Some e) ->
  WF (MState (<[next_e s := PVal v]> (ents s)) (S (next_e s)) (read_m s) true (Some (<[key := next_e s]> d)) (misses s)).
Proof.
  intros [H1 H2 H3 H4 H5 HX] Hd Hrk Hdk Hcov.
  set (s2 := MState _ _ _ _ _ _).
  assert (R : forall k e, reach_any s2 k e -> (k = key /\ e = next_e s) \/ (k <> key /\ reach_any s k e)).
  { intros k e [H|H]; cbn in H.
    - right. split; [congruence|]. left. exact H.
    - destruct (decide (k = key)) as [->|N].
      + rewrite lookup_insert in H. left. split; congruence.
      + rewrite lookup_insert_ne in H by congruence. right. split; [exact N|]. right. unfold dirty_lookup. rewrite Hd. exact H. }
  assert (X : forall e, e < next_e s -> is_exp s2 e = is_exp s e).
  { intros e He. unfold s2. rewrite is_exp_mk, exps_insert. destruct (decide (e = next_e s)); [lia|reflexivity]. }
  split; constructor; cbn.
  - intros k1 k2 e Ha Hb. apply R in Ha, Hb.
    destruct Ha as [[Ea Eb]|[Na Ha]], Hb as [[Ec Ed]|[Nb Hb]]; subst; try reflexivity.
    + apply H2 in Hb. lia.
    + apply H2 in Ha. lia.
    + eauto.
  - intros k e Ha. apply R in Ha. destruct Ha as [[-> ->]|[Na Ha]]; [lia|]. apply H2 in Ha. lia.
  - intros k e H. assert (Ha : reach_any s2 k e) by (right; exact H). apply R in Ha.
    destruct Ha as [[-> ->]|[Na Ha]].
    + unfold s2. rewrite is_exp_mk, exps_insert. rewrite decide_True by reflexivity. reflexivity.
    + rewrite lookup_insert_ne in H by congruence. rewrite X by (eapply H2; eauto).
      apply (H3 k). unfold dirty_lookup. rewrite Hd. exact H.
  - discriminate.
  - discriminate.
  - intros e. unfold s2. rewrite is_exp_mk, exps_insert. destruct (decide (e = next_e s)); [lia|]. intros He. apply HX in He. lia.
  - intros d0 k e [= <-] Hk. assert (k <> key) by congruence. rewrite lookup_insert_ne by congruence.
    rewrite X by (eapply H2; left; eauto). auto.
  - discriminate.
Qed.

(* ---- unexpungeLocked succeeded; m.dirty[key] = e ---- *)
Lemma WF_unexpunge s key e :
  WF_core s -> WF_ad s -> read_m s !! key = Some e -> is_exp s e = true ->
  exists d, dirty s = Some d /\
    WF (MState (<[e := PNil]> (ents s)) (next_e s) (read_m s) (amended s) (Some (<[key := e]> d)) (misses s)).
Proof.
  intros [H1 H2 H3 H4 H5 HX] [H6 H7] Hk He.
  destruct (dirty s) as [d|] eqn:Hd; [|rewrite (H5 eq_refl key e Hk) in He; discriminate].
  exists d. split; [reflexivity|]. set (s2 := MState _ _ _ _ _ _).
  assert (R : forall k e0, reach_any s2 k e0 -> reach_any s k e0).
  { intros k e0 [H|H]; cbn in H; [left; exact H|].
    destruct (decide (k = key)) as [->|N].
    - rewrite lookup_insert in H. left. congruence.
    - rewrite lookup_insert_ne in H by congruence. right. unfold dirty_lookup. rewrite Hd. exact H. }
  assert (X : forall e0, e0 <> e -> is_exp s2 e0 = is_exp s e0).
  { intros e0 N. unfold s2. rewrite is_exp_mk, exps_insert. rewrite decide_False by exact N. reflexivity. }
  assert (Y : is_exp s2 e = false).
  { unfold s2. rewrite is_exp_mk, exps_insert. rewrite decide_True by reflexivity. reflexivity. }
  split; constructor; cbn.
  - intros k1 k2 e0 Ha Hb. eauto.
  - intros k e0 Ha. eauto.
  - intros k e0 H. destruct (decide (k = key)) as [->|N].
    + rewrite lookup_insert in H. congruence.
    + rewrite lookup_insert_ne in H by congruence.
      assert (is_exp s e0 = false) by (apply (H3 k); unfold dirty_lookup; rewrite Hd; exact H).
      rewrite X; [assumption|congruence].
  - discriminate.
  - discriminate.
  - intros e0 He0. destruct (decide (e0 = e)) as [->|N]; [apply HX; exact He|]. apply HX. rewrite <- X by exact N. exact He0.
  - intros d0 k e0 [= <-] Hk0. destruct (decide (k = key)) as [->|N].
    + rewrite lookup_insert. assert (e0 = e) by congruence. subst e0. rewrite Y. reflexivity.
    + rewrite lookup_insert_ne by congruence. rewrite X; [eauto|].
      intros ->. apply N. apply (H1 k key e); left; assumption.
  - intros Ha. specialize (H7 Ha). congruence.
Qed.

(* ---- delete(m.dirty, key), key not in read.m ---- *)
Lemma WF_dirty_delete s key : WF s -> read_m s !! key = None -> WF (dirty_delete s key).
Proof.
  intros [[H1 H2 H3 H4 H5 HX] [H6 H7]] Hk. unfold dirty_delete.
  destruct (dirty s) as [d|] eqn:Hd; [|split; constructor; rewrite ?Hd; assumption].
  set (s2 := MState _ _ _ _ _ _).
  assert (R : forall k e0, reach_any s2 k e0 -> reach_any s k e0).
  { intros k e0 [H|H]; cbn in H; [left; exact H|]. apply lookup_delete_Some in H as [N H].
    right. unfold dirty_lookup. rewrite Hd. exact H. }
  split; constructor; cbn.
  - eauto.
  - eauto.
  - intros k e0 H. apply lookup_delete_Some in H as [N H]. apply (H3 k). unfold dirty_lookup. rewrite Hd. exact H.
  - discriminate.
  - discriminate.
  - exact HX.
  - intros d0 k e0 [= <-] Hk0. assert (k <> key) by congruence. rewrite lookup_delete_ne by congruence. eauto.
  - intros Ha. specialize (H7 Ha). congruence.
Qed.

(* ---- dirtyLocked ---- *)
Lemma WF_dirty_read s key :
  WF_core s -> dirty s = None -> read_m s !! key = None ->
  WF_core (st_with_dirty s (Some ∅)) /\ loop_inv (st_with_dirty s (Some ∅)) (read_m s) key [].
Proof.
  intros [H1 H2 H3 H4 H5 HX] Hd Hk.
  assert (R : forall k e0, reach_any (st_with_dirty s (Some ∅)) k e0 -> reach_any s k e0).
  { intros k e0 [H|H]; cbn in H; [left; exact H|]. rewrite lookup_empty in H. discriminate. }
  split; [constructor; cbn|].
  - eauto.
  - eauto.
  - intros k e0 H. rewrite lookup_empty in H. discriminate.
  - discriminate.
  - discriminate.
  - exact HX.
  - split; [reflexivity|]. split; [cbn; destruct (amended s); [exfalso; apply H4; auto|reflexivity]|].
    split; [exact Hk|]. exists ∅. split; [reflexivity|]. split.
    + intros k e _ Hin. inversion Hin.
    + intros k e H. rewrite lookup_empty in H. discriminate.
Qed.

Lemma loop_copy s rdm key vis ck e s' :
  WF_core s -> loop_inv s rdm key vis -> read_m s !! ck = Some e -> ck ∉ vis -> is_exp s e = false ->
  dirty_insert s ck e = Ok s' ->
  WF_core s' /\ loop_inv s' rdm key (ck :: vis).
Proof.
  intros [H1 H2 H3 H4 H5 HX] (L1 & L2 & L3 & d & L4 & L5 & L6) Hk Hnv He Hs'.
  unfold dirty_insert in Hs'. rewrite L4 in Hs'. injection Hs' as <-. set (s2 := MState _ _ _ _ _ _).
  assert (R : forall k e0, reach_any s2 k e0 -> reach_any s k e0).
  { intros k e0 [H|H]; cbn in H; [left; exact H|].
    destruct (decide (k = ck)) as [->|N].
    - rewrite lookup_insert in H. left. congruence.
    - rewrite lookup_insert_ne in H by congruence. right. unfold dirty_lookup. rewrite L4. exact H. }
  split; [constructor; cbn|].
  - eauto.
  - eauto.
  - intros k e0 H. destruct (decide (k = ck)) as [->|N].
    + rewrite lookup_insert in H. assert (e0 = e) by congruence. subst. exact He.
    + rewrite lookup_insert_ne in H by congruence. apply (H3 k). unfold dirty_lookup. rewrite L4. exact H.
  - discriminate.
  - discriminate.
  - exact HX.
  - split; [exact L1|]. split; [exact L2|]. split; [exact L3|]. eexists. split; [reflexivity|]. split.
    + intros k e0 Hk0 Hin. change (is_exp s2 e0) with (is_exp s e0). change (read_m s !! k = Some e0) in Hk0. destruct (decide (k = ck)) as [->|N].
      * rewrite lookup_insert. assert (e0 = e) by congruence. subst. rewrite He. reflexivity.
      * rewrite lookup_insert_ne by congruence. apply L5; [exact Hk0|]. apply elem_of_cons in Hin as [?|?]; [contradiction|assumption].
    + intros k e0 H. change (read_m s2) with (read_m s). destruct (decide (k = ck)) as [->|N].
      * rewrite lookup_insert in H. split; [left|congruence].
      * rewrite lookup_insert_ne in H by congruence. destruct (L6 _ _ H). split; [right|]; assumption.
Qed.

Lemma loop_skip s rdm key vis ck e :
  loop_inv s rdm key vis -> read_m s !! ck = Some e -> ck ∉ vis -> is_exp s e = true ->
  loop_inv s rdm key (ck :: vis).
Proof.
  intros (L1 & L2 & L3 & d & L4 & L5 & L6) Hk Hnv He.
  split; [exact L1|]. split; [exact L2|]. split; [exact L3|]. exists d. split; [exact L4|]. split.
  - intros k e0 Hk0 Hin. destruct (decide (k = ck)) as [->|N].
    + assert (e0 = e) by congruence. subst. rewrite He.
      destruct (d !! ck) as [e1|] eqn:E; [|reflexivity]. destruct (L6 _ _ E). contradiction.
    + apply L5; [exact Hk0|]. apply elem_of_cons in Hin as [?|?]; [contradiction|assumption].
  - intros k e0 H. destruct (L6 _ _ H). split; [right|]; assumption.
Qed.

Lemma loop_expunge s rdm key vis ck e :
  WF_core s -> loop_inv s rdm key vis -> read_m s !! ck = Some e -> ck ∉ vis -> is_exp s e = false ->
  WF_core (set_ent s e PExpunged) /\ loop_inv (set_ent s e PExpunged) rdm key (ck :: vis).
Proof.
  intros [H1 H2 H3 H4 H5 HX] (L1 & L2 & L3 & d & L4 & L5 & L6) Hk Hnv He.
  set (s2 := set_ent s e PExpunged).
  assert (R : forall k e0, reach_any s2 k e0 <-> reach_any s k e0) by reflexivity.
  assert (X : forall e0, e0 <> e -> is_exp s2 e0 = is_exp s e0).
  { intros e0 N. unfold s2. rewrite is_exp_set_ent. rewrite decide_False by exact N. reflexivity. }
  assert (Y : is_exp s2 e = true).
  { unfold s2. rewrite is_exp_set_ent. rewrite decide_True by reflexivity. reflexivity. }
  assert (Z : forall k e0, d !! k = Some e0 -> e0 <> e).
  { intros k e0 H ->. destruct (L6 _ _ H) as [Hin Hr]. apply Hnv.
    replace ck with k; [exact Hin|]. apply (H1 k ck e); left; assumption. }
  split; [constructor|].
  - intros k1 k2 e0. rewrite !R. apply H1.
  - intros k e0. rewrite R. apply H2.
  - intros k e0 H. change (dirty_lookup s k = Some e0) in H. pose proof H as H'. unfold dirty_lookup in H'. rewrite L4 in H'.
    rewrite X by eauto. eauto.
  - exact H4.
  - intros Hx. change (dirty s = None) in Hx. congruence.
  - intros e0 He0. change (next_e s2) with (next_e s). destruct (decide (e0 = e)) as [->|N].
    + apply (H2 ck). left. exact Hk.
    + apply HX. rewrite <- X by exact N. exact He0.
  - split; [exact L1|]. split; [exact L2|]. split; [exact L3|]. exists d. split; [exact L4|]. split.
    + intros k e0 Hk0 Hin. change (read_m s !! k = Some e0) in Hk0. destruct (decide (k = ck)) as [->|N].
      * assert (e0 = e) by congruence. subst. rewrite Y.
        destruct (d !! ck) as [e1|] eqn:E; [|reflexivity]. destruct (L6 _ _ E). contradiction.
      * apply elem_of_cons in Hin as [?|Hin]; [contradiction|].
        rewrite X; [eauto|]. intros ->. apply N. apply (H1 k ck e); left; assumption.
    + intros k e0 H. destruct (L6 _ _ H). split; [right|]; assumption.
Qed.

(* the amend step: m.read := (read.m, true); m.dirty[key] = newEntry(value) *)
Lemma WF_amend s rdm key vis v :
  WF_core s -> loop_inv s rdm key vis -> (forall k e, read_m s !! k = Some e -> k ∈ vis) ->
  exists d, dirty s = Some d /\
  WF (MState (<[next_e s := PVal v]> (ents s)) (S (next_e s)) rdm true (Some (<[key := next_e s]> d)) (misses s)).
Proof.
  intros Hc (L1 & L2 & L3 & d & L4 & L5 & L6) Hall. exists d. split; [exact L4|]. subst rdm.
  apply WF_insert_new; auto.
  - destruct (d !! key) as [e|] eqn:E; [|reflexivity]. destruct (L6 _ _ E). congruence.
  - intros k e Hk. apply L5; eauto.
Qed.

(* ------------------------------------------------------------------ *)
(* L3: steps inside the critical section, label by label *)
(* ------------------------------------------------------------------ *)
(* ---- L3: a step inside the critical section ---- *)
Definition cs_post (t : nat) (r : result (inst * outcome)) : Prop :=
  exists i' o, r = Ok (i', o) /\
    ((i_mu i' = Some t /\ exists f', o = Continue f' /\ in_cs f' = true /\ WFL (i_st i') f')
     \/ (i_mu i' = None /\ WF (i_st i') /\ out_free o)).

Lemma cs_stay t i' f' : i_mu i' = Some t -> in_cs f' = true /\ WFL (i_st i') f' -> cs_post t (Ok (i', Continue f')).
Proof. intros ? []. exists i', (Continue f'). split; [reflexivity|]. left. eauto. Qed.
Lemma cs_leave t i' o : i_mu i' = None -> WF (i_st i') -> out_free o -> cs_post t (Ok (i', o)).
Proof. intros. exists i', o. split; [reflexivity|]. right. eauto. Qed.

Lemma cs_class_unlock f c : cs_class (set_pc f (unlock_label c)) = CsPlain.
Proof. destruct c; reflexivity. Qed.
Lemma cs_class_amend f c : cs_class (set_pc f (amend_label c)) = CsAmend.
Proof. destruct c; reflexivity. Qed.

Lemma WFL_plain s f : WF_core s -> WF_ad s -> cs_class f = CsPlain -> in_cs f = true /\ WFL s f.
Proof. intros Hc Ha E. unfold in_cs, WFL. rewrite E. auto. Qed.

(* after_miss keeps the lock and the structure *)
Lemma cs_after_miss t i f : i_mu i = Some t -> WF_core (i_st i) -> WF_ad (i_st i) ->
  forall i' f', after_miss i f = (i', f') -> cs_post t (Ok (i', Continue f')).
Proof.
  intros Hmu Hc Ha i' f' H. unfold after_miss in H.
  assert (S := sim_misses (i_st i) (misses (i_st i) + 1)).
  case_match; simplify_eq; apply cs_stay; try exact Hmu;
    apply WFL_plain; eauto using WF_core_sim, WF_ad_sim, cs_class_unlock.
Qed.

Lemma WFL_dirty_next s f : WF_core s -> loop_inv s (f_rd_m f) (key_of (f_call f)) (f_visited f) ->
  in_cs (dirty_next f) = true /\ WFL s (dirty_next f).
Proof.
  intros Hc Hl. unfold dirty_next. destruct (unvisited _ _) eqn:E.
  - unfold in_cs, WFL. rewrite cs_class_amend. split; [reflexivity|]. split; [exact Hc|]. split; [exact Hl|].
    intros k e Hk. destruct Hl as [Hr _]. cbn. eapply unvisited_nil; eauto. cbn in Hr. rewrite Hr. exact Hk.
  - split; [reflexivity|]. split; [exact Hc|]. exact Hl.
Qed.

Ltac cs_start :=
  let Hc := fresh "Hc" in let Hw := fresh "Hw" in
  intros [He Hst Hdel Hpost] Hpc Hmu [Hc Hw] H; unfold step_frame in H; rewrite Hpc in H;
  unfold cs_class in Hw; rewrite Hpc in Hw; rewrite Hpc in He; cbn in He.

Lemma cs_Load_read2 t i f ch r : frame_ok f -> f_pc f = Load_read2 -> i_mu i = Some t -> WFL (i_st i) f ->
  step_frame t i f ch = Some r -> cs_post t r.
Proof.
  cs_start. repeat case_match; simplify_eq.
  - apply cs_stay; [exact Hmu|apply WFL_plain; auto].
  - eapply cs_after_miss; eauto.
  - apply cs_stay; [exact Hmu|apply WFL_plain; auto].
Qed.

Notation cs_goal l := (forall t i f ch r, frame_ok f -> f_pc f = l -> i_mu i = Some t -> WFL (i_st i) f ->
  step_frame t i f ch = Some r -> cs_post t r).

Ltac stay_plain Hmu := apply cs_stay; [exact Hmu|apply WFL_plain; auto].
Ltac leave_wf := apply cs_leave; [reflexivity|split; assumption|cbn; try exact I; try reflexivity].

Lemma cs_Load_unlock : cs_goal Load_unlock.
Proof. intros t i f ch r. cs_start. repeat case_match; simplify_eq; leave_wf. Qed.

Lemma cs_Store_unlock : cs_goal Store_unlock.
Proof. intros t i f ch r. cs_start. simplify_eq. leave_wf. Qed.

Lemma cs_LAD_unlock : cs_goal LAD_unlock.
Proof. intros t i f ch r. cs_start. repeat case_match; simplify_eq; leave_wf. Qed.

Lemma cs_LOS_unlock : cs_goal LOS_unlock.
Proof.
  intros t i f ch r. cs_start. simplify_eq. apply cs_leave; [reflexivity|split; assumption|].
  unfold los_return. repeat case_match; cbn; try exact I. eapply in_cs_post; [eassumption|reflexivity].
Qed.

Lemma cs_Range_unlock : cs_goal Range_unlock.
Proof.
  intros t i f ch r. cs_start. simplify_eq. apply cs_leave; [reflexivity|split; assumption|].
  destruct (range_next_cases f false) as [[r ->]| ->]; [exact I|reflexivity].
Qed.

Lemma cs_Miss_store : cs_goal Miss_store.
Proof.
  intros t i f ch r. cs_start. simplify_eq. destruct (WF_promote _ Hc).
  apply cs_stay; [exact Hmu|]. apply WFL_plain; auto using cs_class_unlock.
Qed.

Lemma cs_Range_promote : cs_goal Range_promote.
Proof.
  intros t i f ch r. cs_start. simplify_eq. destruct (WF_promote _ Hc).
  apply cs_stay; [exact Hmu|]. apply WFL_plain; auto.
Qed.

Lemma cs_Range_read2 : cs_goal Range_read2.
Proof. intros t i f ch r. cs_start. repeat case_match; simplify_eq; stay_plain Hmu. Qed.

Lemma cs_LAD_read2 : cs_goal LAD_read2.
Proof.
  intros t i f ch r. cs_start. repeat case_match; simplify_eq; try stay_plain Hmu.
  destruct (WF_dirty_delete (i_st i) (key_of (f_call f))) as [Hc' Ha']; [split; assumption|assumption|].
  eapply cs_after_miss; [| | |eassumption]; [exact Hmu|exact Hc'|exact Ha'].
Qed.

(* the slow path of Store / LoadOrStore after the second read of m.read *)
Lemma cs_Store_read2 : cs_goal Store_read2.
Proof.
  intros t i f ch r. cs_start. unfold new_entry, dirty_insert, bind in H. cbn in H.
  repeat case_match; simplify_eq.
  - apply cs_stay; [exact Hmu|]. split; [reflexivity|]. split; [exact Hc|]. cbn. auto.
  - apply cs_stay; [exact Hmu|]. split; [reflexivity|]. split; [exact Hc|]. cbn. split; [exact Hw|].
    eexists. split; [reflexivity|]. eapply wf_dirty_live; eauto.
  - apply cs_stay; [exact Hmu|]. unfold dirty_lookup in *. case_match; simplify_eq.
    destruct (WF_insert_new (i_st i) g (key_of (f_call f)) (val_of (f_call f))) as [Hc' Ha']; auto.
    { intros k e Hk. eapply wf_cover; eauto. }
    apply WFL_plain; auto.
  - exfalso. eapply wf_amended; eauto.
  - exfalso. pose proof (wf_unamended _ Hw). intuition congruence.
  - apply cs_stay; [exact Hmu|]. split; [reflexivity|]. split; [exact Hc|]. cbn. auto.
Qed.

Lemma cs_LOS_read2 : cs_goal LOS_read2.
Proof.
  intros t i f ch r. cs_start. unfold new_entry, dirty_insert, bind in H. cbn in H.
  repeat case_match; simplify_eq.
  - apply cs_stay; [exact Hmu|]. split; [reflexivity|]. split; [exact Hc|]. cbn. auto.
  - stay_plain Hmu.
  - apply cs_stay; [exact Hmu|]. unfold dirty_lookup in *. case_match; simplify_eq.
    destruct (WF_insert_new (i_st i) g (key_of (f_call f)) (val_of (f_call f))) as [Hc' Ha']; auto.
    { intros k e Hk. eapply wf_cover; eauto. }
    apply WFL_plain; auto.
  - exfalso. eapply wf_amended; eauto.
  - exfalso. pose proof (wf_unamended _ Hw). intuition congruence.
  - apply cs_stay; [exact Hmu|]. split; [reflexivity|]. split; [exact Hc|]. cbn. auto.
Qed.

(* tryLoadOrStore called with the lock held *)
Lemma cs_tlos_done t i f a l ok i' o :
  i_mu i = Some t -> WF_core (i_st i) -> WF_ad (i_st i) -> f_mode f <> MFast ->
  tlos_done i f a l ok = (i', o) -> cs_post t (Ok (i', o)).
Proof.
  intros Hmu Hc Ha Hm H. unfold tlos_done in H. destruct (f_mode f) eqn:E; [congruence| |].
  - simplify_eq. stay_plain Hmu.
  - destruct (after_miss i (set_los f a l)) as [i2 f2] eqn:E2. simplify_eq.
    eapply cs_after_miss; eauto.
Qed.

Ltac cs_start_tlos i f :=
  let Hc := fresh "Hc" in let Hw := fresh "Hw" in
  intros [He Hst Hdel Hpost] Hpc Hm Hmu [Hc Hw] H; unfold step_frame in H; rewrite Hpc in H;
  unfold cs_class in Hw; rewrite Hpc in Hw; rewrite Hpc in He; cbn in He;
  assert (Hw' : WF_ad (i_st i)) by (destruct (f_mode f); [congruence|exact Hw|exact Hw]); clear Hw.

Lemma in_cs_tlos f l : f_mode f <> MFast -> l = Tlos_load1 \/ l = Tlos_cas \/ l = Tlos_load2 ->
  cs_class (set_pc f l) = CsPlain.
Proof. intros Hm [->|[->| ->]]; unfold cs_class; cbn; destruct (f_mode f); congruence. Qed.

Notation cs_goal_tlos l := (forall t i f ch r, frame_ok f -> f_pc f = l -> f_mode f <> MFast -> i_mu i = Some t -> WFL (i_st i) f ->
  step_frame t i f ch = Some r -> cs_post t r).

Lemma cs_Tlos_load1 : cs_goal_tlos Tlos_load1.
Proof.
  intros t i f ch r. cs_start_tlos i f. repeat case_match; simplify_eq;
    try (exfalso; apply He; reflexivity);
    try (eapply cs_tlos_done; eauto; fail).
  apply cs_stay; [exact Hmu|]. apply WFL_plain; auto. apply in_cs_tlos; auto.
Qed.

Lemma cs_Tlos_load2 : cs_goal_tlos Tlos_load2.
Proof.
  intros t i f ch r. cs_start_tlos i f. repeat case_match; simplify_eq;
    try (exfalso; apply He; reflexivity);
    try (eapply cs_tlos_done; eauto; fail).
  apply cs_stay; [exact Hmu|]. apply WFL_plain; auto. apply in_cs_tlos; auto.
Qed.

Lemma cs_Tlos_cas : cs_goal_tlos Tlos_cas.
Proof.
  intros t i f ch r. cs_start_tlos i f. repeat case_match; simplify_eq; try (exfalso; apply He; reflexivity).
  - assert (S : sim (i_st i) (i_st (put_ent i n (PVal (val_of (f_call f)))))).
    { apply sim_set_ent; [|discriminate]. rewrite is_exp_ent. rewrite H1. reflexivity. }
    eapply cs_tlos_done; [| | | |eassumption]; eauto using WF_core_sim, WF_ad_sim.
  - apply cs_stay; [exact Hmu|]. apply WFL_plain; auto. apply in_cs_tlos; auto.
  - apply cs_stay; [exact Hmu|]. apply WFL_plain; auto. apply in_cs_tlos; auto.
Qed.

Lemma cs_StoreLocked : cs_goal StoreLocked.
Proof.
  intros t i f ch r. cs_start. destruct Hw as [Hw (e & Hfe & Hex)]. rewrite Hfe in H. simplify_eq.
  assert (S : sim (i_st i) (i_st (put_ent i e (PVal (val_of (f_call f)))))).
  { apply sim_set_ent; [exact Hex|discriminate]. }
  apply cs_stay; [exact Hmu|]. apply WFL_plain; eauto using WF_core_sim, WF_ad_sim.
Qed.

(* where Unexpunge_cas goes next *)
Lemma WFL_unexp_next s f e :
  WF_core s -> WF_ad s -> f_e f = Some e -> is_exp s e = false ->
  let next := match f_call f with
              | CStore _ _ _ => set_pc f StoreLocked
              | _ => set_pc (set_mode f MLockedRead) Tlos_load1
              end in
  in_cs next = true /\ WFL s next.
Proof.
  intros Hc Ha Hfe Hex. destruct (f_call f); cbn; (split; [reflexivity|]); (split; [exact Hc|]); cbn; eauto.
Qed.

Lemma cs_Unexpunge_cas : cs_goal Unexpunge_cas.
Proof.
  intros t i f ch r. cs_start. destruct Hw as [Hw Hk].
  destruct (f_e f) as [e|] eqn:Hfe; [|exfalso; apply He; reflexivity].
  destruct (ent i e) eqn:Hent; simplify_eq.
  - apply cs_stay; [exact Hmu|]. apply (WFL_unexp_next _ f e); auto. rewrite is_exp_ent, Hent. reflexivity.
  - destruct (WF_unexpunge (i_st i) (key_of (f_call f)) e) as (d & Hd & Hc' & Ha'); auto.
    { rewrite is_exp_ent, Hent. reflexivity. }
    unfold dirty_insert, bind. cbn. rewrite Hd.
    apply cs_stay; [exact Hmu|]. apply (WFL_unexp_next _ f e); auto.
    cbn. rewrite is_exp_mk, exps_insert, decide_True by reflexivity. reflexivity.
  - apply cs_stay; [exact Hmu|]. apply (WFL_unexp_next _ f e); auto. rewrite is_exp_ent, Hent. reflexivity.
Qed.

(* dirtyLocked *)
Lemma cs_Dirty_read : cs_goal Dirty_read.
Proof.
  intros t i f ch r. cs_start. destruct Hw as (Hw & Hd & Hk). simplify_eq.
  destruct (WF_dirty_read (i_st i) (key_of (f_call f)) Hc Hd Hk) as [Hc' Hl].
  apply cs_stay; [exact Hmu|]. apply WFL_dirty_next; [exact Hc'|exact Hl].
Qed.

Lemma cs_Dirty_iter : cs_goal Dirty_iter.
Proof.
  intros t i f ch r. cs_start. repeat case_match; simplify_eq.
  apply cs_stay; [exact Hmu|]. split; [reflexivity|]. split; [exact Hc|]. cbn.
  exists (f_visited f). split; [reflexivity|]. split; [apply existsb_eqb_notin; assumption|]. auto.
Qed.

Lemma cs_expunge_load t i f r :
  frame_ok f -> i_mu i = Some t -> WF_core (i_st i) -> needs_e (f_pc f) = true ->
  (exists vis, f_visited f = f_curk f :: vis /\ f_curk f ∉ vis /\ f_rd_m f !! f_curk f = f_e f /\
               loop_inv (i_st i) (f_rd_m f) (key_of (f_call f)) vis) ->
  match f_e f with
  | None => Some (Panic NilDeref)
  | Some e => match ent i e with
              | PNil => Some (Ok (i, Continue (set_pc f Expunge_cas)))
              | PExpunged => Some (do r <- expunge_done i f e true; Ok (r.1, Continue r.2))
              | PVal _ => Some (do r <- expunge_done i f e false; Ok (r.1, Continue r.2))
              end
  end = Some r -> cs_post t r.
Proof.
  intros [He Hst Hdel Hpost] Hmu Hc Hne (vis & Hv & Hnv & Hcur & Hl) H.
  destruct (f_e f) as [e|] eqn:Hfe; [|exfalso; apply He; auto].
  assert (Hrk : read_m (i_st i) !! f_curk f = Some e). { destruct Hl as [<- _]. exact Hcur. }
  destruct (ent i e) eqn:Hent; simplify_eq.
  - apply cs_stay; [exact Hmu|]. split; [reflexivity|]. split; [exact Hc|]. cbn. exists vis. rewrite Hfe. auto.
  - cbn. apply cs_stay; [exact Hmu|]. apply WFL_dirty_next; [exact Hc|]. rewrite Hv.
    eapply loop_skip; eauto. rewrite is_exp_ent, Hent. reflexivity.
  - unfold expunge_done.
    assert (exists s', dirty_insert (i_st i) (f_curk f) e = Ok s') as [s' Hs'].
    { destruct Hl as (_ & _ & _ & d & Hd & _). unfold dirty_insert. rewrite Hd. eauto. }
    rewrite Hs'. cbn.
    destruct (loop_copy (i_st i) (f_rd_m f) (key_of (f_call f)) vis (f_curk f) e s') as [Hc' Hl']; auto.
    { rewrite is_exp_ent, Hent. reflexivity. }
    apply cs_stay; [exact Hmu|]. apply WFL_dirty_next; [exact Hc'|]. rewrite Hv. exact Hl'.
Qed.

Lemma cs_Expunge_load1 : cs_goal Expunge_load1.
Proof.
  intros t i f ch r Hok Hpc Hmu [Hc Hw] H. unfold step_frame in H. rewrite Hpc in H.
  unfold cs_class in Hw; rewrite Hpc in Hw. eapply cs_expunge_load; eauto. rewrite Hpc. reflexivity.
Qed.

Lemma cs_Expunge_load2 : cs_goal Expunge_load2.
Proof.
  intros t i f ch r Hok Hpc Hmu [Hc Hw] H. unfold step_frame in H. rewrite Hpc in H.
  unfold cs_class in Hw; rewrite Hpc in Hw. eapply cs_expunge_load; eauto. rewrite Hpc. reflexivity.
Qed.

Lemma cs_Expunge_cas : cs_goal Expunge_cas.
Proof.
  intros t i f ch r. cs_start. destruct Hw as (vis & Hv & Hnv & Hcur & Hl).
  destruct (f_e f) as [e|] eqn:Hfe; [|exfalso; apply He; auto].
  assert (Hrk : read_m (i_st i) !! f_curk f = Some e). { destruct Hl as [<- _]. exact Hcur. }
  destruct (ent i e) eqn:Hent; simplify_eq.
  - cbn. destruct (loop_expunge (i_st i) (f_rd_m f) (key_of (f_call f)) vis (f_curk f) e) as [Hc' Hl']; auto.
    { rewrite is_exp_ent, Hent. reflexivity. }
    apply cs_stay; [exact Hmu|]. apply WFL_dirty_next; [exact Hc'|]. rewrite Hv. exact Hl'.
  - apply cs_stay; [exact Hmu|]. split; [reflexivity|]. split; [exact Hc|]. cbn. exists vis. rewrite Hfe. auto.
  - apply cs_stay; [exact Hmu|]. split; [reflexivity|]. split; [exact Hc|]. cbn. exists vis. rewrite Hfe. auto.
Qed.

Lemma cs_amend t i f r :
  i_mu i = Some t -> WF_core (i_st i) ->
  loop_inv (i_st i) (f_rd_m f) (key_of (f_call f)) (f_visited f) ->
  (forall k e, read_m (i_st i) !! k = Some e -> k ∈ f_visited f) ->
  (let s := i_st i in
   let s0 := st_with_read s (f_rd_m f) true in
   let '(s1, e1) := new_entry s0 (val_of (f_call f)) in
   Some (do s2 <- dirty_insert s1 (key_of (f_call f)) e1;
         Ok (with_st i s2,
             match f_call f with
             | CStore _ _ _ => Continue (set_pc f Store_unlock)
             | _ => Continue (set_pc (set_los f (val_of (f_call f)) false) LOS_unlock)
             end))) = Some r -> cs_post t r.
Proof.
  intros Hmu Hc Hl Hall H.
  destruct (WF_amend (i_st i) (f_rd_m f) (key_of (f_call f)) (f_visited f) (val_of (f_call f)) Hc Hl Hall) as (d & Hd & Hc' & Ha').
  unfold new_entry, dirty_insert, bind in H. cbn in H. rewrite Hd in H. simplify_eq.
  destruct (f_call f); (apply cs_stay; [exact Hmu|]); apply WFL_plain; auto.
Qed.

Lemma cs_Store_amend : cs_goal Store_amend.
Proof.
  intros t i f ch r Hok Hpc Hmu [Hc Hw] H. unfold step_frame in H. rewrite Hpc in H.
  unfold cs_class in Hw; rewrite Hpc in Hw. destruct Hw. eapply cs_amend; eauto.
Qed.

Lemma cs_LOS_amend : cs_goal LOS_amend.
Proof.
  intros t i f ch r Hok Hpc Hmu [Hc Hw] H. unfold step_frame in H. rewrite Hpc in H.
  unfold cs_class in Hw; rewrite Hpc in Hw. destruct Hw. eapply cs_amend; eauto.
Qed.

(* ------------------------------------------------------------------ *)
(* L3 assembled; L4 *)
(* ------------------------------------------------------------------ *)
Lemma sf_cs t i f ch r :
  frame_ok f -> in_cs f = true -> i_mu i = Some t -> WFL (i_st i) f -> step_frame t i f ch = Some r -> cs_post t r.
Proof.
  intros Hok Hcs Hmu Hw H.
  destruct (f_pc f) eqn:Hpc; try (unfold in_cs, cs_class in Hcs; rewrite Hpc in Hcs; discriminate);
    try (assert (Hm : f_mode f <> MFast) by (unfold in_cs, cs_class in Hcs; rewrite Hpc in Hcs; destruct (f_mode f); congruence)).
  all: first
    [ eapply cs_Load_read2; eassumption | eapply cs_Load_unlock; eassumption | eapply cs_Miss_store; eassumption
    | eapply cs_Store_read2; eassumption | eapply cs_Store_amend; eassumption | eapply cs_Store_unlock; eassumption
    | eapply cs_Unexpunge_cas; eassumption | eapply cs_StoreLocked; eassumption
    | eapply cs_LOS_read2; eassumption | eapply cs_LOS_amend; eassumption | eapply cs_LOS_unlock; eassumption
    | eapply cs_Tlos_load1; eassumption | eapply cs_Tlos_cas; eassumption | eapply cs_Tlos_load2; eassumption
    | eapply cs_LAD_read2; eassumption | eapply cs_LAD_unlock; eassumption
    | eapply cs_Range_read2; eassumption | eapply cs_Range_promote; eassumption | eapply cs_Range_unlock; eassumption
    | eapply cs_Dirty_read; eassumption | eapply cs_Dirty_iter; eassumption
    | eapply cs_Expunge_load1; eassumption | eapply cs_Expunge_cas; eassumption | eapply cs_Expunge_load2; eassumption ].
Qed.

(* L4: no panic outside the critical section *)
Lemma sf_free_nopanic t i f ch k :
  frame_ok f -> in_cs f = false -> step_frame t i f ch <> Some (Panic k).
Proof.
  intros [He Hst Hdel Hpost] Hcs H. unfold step_frame in H. unfold in_cs, cs_class in Hcs.
  destruct (f_pc f) eqn:Hpc; try discriminate Hcs; cbn in He;
    unfold tlos_done in H; repeat case_match; simplify_eq; apply He; reflexivity.
Qed.

(* ------------------------------------------------------------------ *)
(* [step], taken apart                                                *)
(* ------------------------------------------------------------------ *)
(* the local function [finish] of [step] *)
Definition fin (c : config) (t : nat) (th : thread) (f : frame) (rest : list frame)
    (insts : list inst) (um : gmap Z umutex) (o : result outcome) : option config :=
  let inv := if t_fresh th then [EvInv t (f_call f)] else [] in
  match o with
  | Panic k =>
      Some (Config insts um (set_nth_list t (Thread [] [] (t_results th ++ [RPanic k]) false) (c_threads c))
                   (c_hist c ++ inv ++ [EvRes t (RPanic k)]) true)
  | Ok (Continue f') =>
      Some (Config insts um (set_nth_list t (Thread (t_prog th) (f' :: rest) (t_results th) false) (c_threads c))
                   (c_hist c ++ inv) false)
  | Ok (Return r) =>
      let r := match f_call f with CDelete _ _ => RUnit | _ => r end in
      let '(th', rs) := do_return (Thread (t_prog th) (t_stack th) (t_results th) false) r rest in
      Some (Config insts um (set_nth_list t th' (c_threads c))
                   (c_hist c ++ inv ++ map (EvRes t) rs) false)
  | Ok (Callback f' k v) =>
      let f'' := set_out f' (f_out f' ++ [(k, v)]) (match cb_of (f_call f') with CbStop _ => f_acc f' + 1 | _ => f_acc f' end)%Z in
      match cb_of (f_call f') with
      | CbStop n =>
          let stop := match n with Some n => (Z.of_nat n <=? f_acc f'')%Z | None => false end in
          match range_next f'' stop with
          | Continue p =>
              Some (Config insts um (set_nth_list t (Thread (t_prog th) (p :: rest) (t_results th) false) (c_threads c))
                           (c_hist c ++ inv) false)
          | Return r =>
              let '(th', rs) := do_return (Thread (t_prog th) (t_stack th) (t_results th) false) r rest in
              Some (Config insts um (set_nth_list t th' (c_threads c)) (c_hist c ++ inv ++ map (EvRes t) rs) false)
          | Callback _ _ _ => None
          end
      | CbAdd j =>
          Some (Config insts um
                  (set_nth_list t (Thread (t_prog th) (new_frame (CLoadOrStore j k 0 PNone) :: f'' :: rest) (t_results th) false) (c_threads c))
                  (c_hist c ++ inv) false)
      | CbRemove j =>
          Some (Config insts um
                  (set_nth_list t (Thread (t_prog th) (new_frame (CLoadAndDelete j k) :: f'' :: rest) (t_results th) false) (c_threads c))
                  (c_hist c ++ inv) false)
      end
  end.

Lemma step_unfold c t ch :
  step c t ch =
  if c_panicked c then None else
  match nth_error (c_threads c) t with
  | None => None
  | Some th =>
      match t_stack th with
      | [] => None
      | f :: rest =>
          if is_post_label (f_pc f) then
            match step_post (c_um c) f with
            | None => None
            | Some (Panic k) => fin c t th f rest (c_insts c) (c_um c) (Panic k)
            | Some (Ok (um', o)) => fin c t th f rest (c_insts c) um' (Ok o)
            end
          else
            match nth_error (c_insts c) (call_inst (f_call f)) with
            | None => None
            | Some i =>
                match step_frame t i f ch with
                | None => None
                | Some (Panic k) => fin c t th f rest (c_insts c) (c_um c) (Panic k)
                | Some (Ok (i', o)) => fin c t th f rest (set_nth_list (call_inst (f_call f)) i' (c_insts c)) (c_um c) (Ok o)
                end
            end
      end
  end.
Proof. reflexivity. Qed.

(* the stack of a thread whose current frame returned (or whose Range callback
   said stop): empty, a fresh call, or a Range parent resumed at Range_iter *)
Definition fresh_stack (st : list frame) : Prop :=
  match st with
  | [] => True
  | f0 :: _ => (exists c, f0 = new_frame c) \/ (exists p, f0 = set_pc p Range_iter)
  end.

Lemma fresh_next_call prog res b : fresh_stack (t_stack (next_call (Thread prog [] res b))).
Proof. unfold next_call. cbn. destruct prog; cbn; eauto. Qed.

Lemma do_return_shape th r rest th' rs : do_return th r rest = (th', rs) -> fresh_stack (t_stack th').
Proof.
  unfold do_return. destruct rest as [|p rest'].
  - intros [= <- <-]. apply fresh_next_call.
  - match goal with |- context [range_next ?x false] => destruct (range_next_cases x false) as [[r' ->]| ->] end.
    + intros [= <- <-]. apply fresh_next_call.
    + intros [= <- <-]. cbn. eauto.
Qed.

Lemma fin_shape c t th f rest insts um ro c' :
  fin c t th f rest insts um ro = Some c' ->
  c_insts c' = insts /\ c_um c' = um /\ exists th', c_threads c' = set_nth_list t th' (c_threads c) /\
    match ro with
    | Panic k => t_stack th' = [] /\ c_panicked c' = true
    | Ok o => c_panicked c' = false /\
        match o with
        | Continue f' => t_stack th' = f' :: rest
        | Return _ => fresh_stack (t_stack th')
        | Callback _ _ _ => fresh_stack (t_stack th')
        end
    end.
Proof.
  unfold fin. intros H. destruct ro as [[f'|r|f' k v]|k].
  - simplify_eq. cbn. eauto 10.
  - destruct (do_return _ _ rest) as [th' rs] eqn:E. simplify_eq. cbn. apply do_return_shape in E. eauto 10.
  - destruct (cb_of (f_call f')) as [n|j|j] eqn:Ecb.
    + match type of H with context [range_next ?x ?y] => destruct (range_next_cases x y) as [[r' Hr]| Hr]; rewrite Hr in H end.
      * destruct (do_return _ _ rest) as [th' rs] eqn:E. simplify_eq. cbn. apply do_return_shape in E. eauto 10.
      * simplify_eq. cbn. split; [reflexivity|]. split; [reflexivity|]. eexists. split; [reflexivity|]. split; [reflexivity|].
        cbn. eauto.
    + simplify_eq. cbn. split; [reflexivity|]. split; [reflexivity|]. eexists. split; [reflexivity|]. split; [reflexivity|].
      cbn. eauto.
    + simplify_eq. cbn. split; [reflexivity|]. split; [reflexivity|]. eexists. split; [reflexivity|]. split; [reflexivity|].
      cbn. eauto.
  - simplify_eq. cbn. eauto 10.
Qed.

Lemma fresh_stack_top st f0 rest0 : fresh_stack st -> st = f0 :: rest0 -> frame_ok f0 /\ in_cs f0 = false.
Proof.
  intros H ->. destruct H as [[c ->]|[p ->]].
  - split; [apply frame_ok_new|]. destruct c; reflexivity.
  - split; [apply frame_ok_plain; reflexivity|reflexivity].
Qed.

Lemma step_post_return um f um' o : step_post um f = Some (Ok (um', o)) -> exists r, o = Return r.
Proof. unfold step_post. intros H. repeat case_match; simplify_eq; eauto. Qed.

(* ------------------------------------------------------------------ *)
(* the invariant of configurations                                    *)
(* ------------------------------------------------------------------ *)
Definition top_frame (c : config) (t : nat) : option frame :=
  match nth_error (c_threads c) t with Some th => head (t_stack th) | None => None end.

(* thread t is inside the critical section of instance j *)
Definition holder (c : config) (j t : nat) : Prop :=
  exists f, top_frame c t = Some f /\ call_inst (f_call f) = j /\ in_cs f = true.

Definition inst_ok (c : config) (j : nat) (i : inst) : Prop :=
  (forall t, i_mu i = Some t <-> holder c j t) /\
  match i_mu i with
  | None => WF (i_st i)
  | Some t => forall f, top_frame c t = Some f -> WFL (i_st i) f
  end.

Record Inv (c : config) : Prop := {
  inv_frames : forall t f, top_frame c t = Some f -> frame_ok f;
  inv_insts : forall j i, nth_error (c_insts c) j = Some i -> inst_ok c j i
}.

Lemma top_frame_set c c' t th' t' :
  t < length (c_threads c) -> c_threads c' = set_nth_list t th' (c_threads c) ->
  top_frame c' t' = if decide (t' = t) then head (t_stack th') else top_frame c t'.
Proof.
  intros Hl E. unfold top_frame. rewrite E. destruct (decide (t' = t)) as [->|N].
  - rewrite nth_error_set_nth_list_eq by exact Hl. reflexivity.
  - rewrite nth_error_set_nth_list_ne by auto. reflexivity.
Qed.

Lemma Inv_step_gen c c' t th f rest th' j0 :
  Inv c -> nth_error (c_threads c) t = Some th -> t_stack th = f :: rest -> call_inst (f_call f) = j0 ->
  c_threads c' = set_nth_list t th' (c_threads c) ->
  (forall j, j <> j0 -> nth_error (c_insts c') j = nth_error (c_insts c) j) ->
  (forall f0, head (t_stack th') = Some f0 -> frame_ok f0 /\ (in_cs f0 = true -> call_inst (f_call f0) = j0)) ->
  (forall i', nth_error (c_insts c') j0 = Some i' -> exists i, nth_error (c_insts c) j0 = Some i /\
       (forall t', t' <> t -> (i_mu i' = Some t' <-> i_mu i = Some t')) /\
       (i_mu i' = Some t <-> exists f0, head (t_stack th') = Some f0 /\ in_cs f0 = true) /\
       match i_mu i' with
       | None => WF (i_st i')
       | Some t' => if decide (t' = t) then forall f0, head (t_stack th') = Some f0 -> WFL (i_st i') f0
                    else forall fh, WFL (i_st i) fh -> WFL (i_st i') fh
       end) ->
  Inv c'.
Proof.
  intros [If Ii] Hth Hst Hj0 Hc' Hother Htop Hinst.
  assert (Hl : t < length (c_threads c)) by (eapply nth_error_lt; eauto).
  assert (TF : forall t', top_frame c' t' = if decide (t' = t) then head (t_stack th') else top_frame c t')
    by (intros; eapply top_frame_set; eauto).
  assert (Tt : top_frame c t = Some f) by (unfold top_frame; rewrite Hth, Hst; reflexivity).
  constructor.
  - intros t' f0. rewrite TF. destruct (decide (t' = t)) as [->|N]; [|apply If]. intros H. apply Htop, H.
  - intros j i' Hi'. destruct (decide (j = j0)) as [->|Nj].
    + destruct (Hinst i' Hi') as (i & Hi & Ho & Ht & Hs). destruct (Ii _ _ Hi) as [Hm Hw].
      assert (HH : forall t', i_mu i' = Some t' <-> holder c' j0 t').
      { intros t'. destruct (decide (t' = t)) as [->|N].
        - rewrite Ht. unfold holder. rewrite TF, decide_True by reflexivity. split.
          + intros (f0 & H1 & H2). exists f0. split; [exact H1|]. split; [|exact H2]. apply Htop; assumption.
          + intros (f0 & H1 & H2 & H3). eauto.
        - rewrite (Ho t' N), Hm. unfold holder. rewrite TF, decide_False by exact N. reflexivity. }
      split; [exact HH|]. destruct (i_mu i') as [t'|] eqn:Em; [|exact Hs].
      intros f0. rewrite TF. destruct (decide (t' = t)) as [->|N]; [apply Hs|].
      intros Hf0. apply Hs. assert (Em0 : i_mu i = Some t') by (apply (Ho t' N); reflexivity). rewrite Em0 in Hw. apply Hw, Hf0.
    + rewrite (Hother j Nj) in Hi'. destruct (Ii _ _ Hi') as [Hm Hw].
      assert (HH : forall t', holder c' j t' <-> holder c j t').
      { intros t'. unfold holder. rewrite TF. destruct (decide (t' = t)) as [->|N]; [|reflexivity]. split.
        - intros (f0 & H1 & H2 & H3). destruct (Htop f0 H1) as [_ H4]. specialize (H4 H3). congruence.
        - intros (f0 & H1 & H2 & H3). congruence. }
      split; [intros t'; rewrite HH; apply Hm|].
      destruct (i_mu i') as [t'|] eqn:Em; [|exact Hw].
      intros f0. rewrite TF. destruct (decide (t' = t)) as [->|N]; [|apply Hw].
      exfalso. destruct (proj1 (Hm t) eq_refl) as (f1 & H1 & H2 & H3). congruence.
Qed.

(* ------------------------------------------------------------------ *)
(* preservation *)
(* ------------------------------------------------------------------ *)
Lemma in_cs_post_label f : is_post_label (f_pc f) = true -> in_cs f = false.
Proof. unfold in_cs, cs_class. destruct (f_pc f); try discriminate; reflexivity. Qed.

Definition after_stack (o : outcome) (rest st : list frame) : Prop :=
  match o with Continue f' => st = f' :: rest | _ => fresh_stack st end.

Lemma after_stack_top o rest st f0 : after_stack o rest st -> head st = Some f0 ->
  (o = Continue f0) \/ ((forall f', o <> Continue f') /\ frame_ok f0 /\ in_cs f0 = false).
Proof.
  intros H Hh. destruct st as [|f1 st']; [discriminate|]. cbn in Hh. simplify_eq.
  unfold after_stack in H. destruct o.
  - left. congruence.
  - right. split; [congruence|]. eapply fresh_stack_top; eauto.
  - right. split; [congruence|]. eapply fresh_stack_top; eauto.
Qed.

(* a step that leaves every instance alone, by a thread outside any critical section *)
Lemma Inv_step_idle c c' t th f rest th' :
  Inv c -> nth_error (c_threads c) t = Some th -> t_stack th = f :: rest -> in_cs f = false ->
  c_threads c' = set_nth_list t th' (c_threads c) -> c_insts c' = c_insts c ->
  (forall f0, head (t_stack th') = Some f0 -> frame_ok f0 /\ in_cs f0 = false) ->
  Inv c'.
Proof.
  intros HI Hth Hst Hcs Hc' Hi Htop.
  assert (Tt : top_frame c t = Some f) by (unfold top_frame; rewrite Hth, Hst; reflexivity).
  eapply (Inv_step_gen c c' t th f rest th' (call_inst (f_call f))); eauto.
  - intros j _. rewrite Hi. reflexivity.
  - intros f0 H0. destruct (Htop f0 H0) as [H1 H2]. split; [exact H1|]. congruence.
  - intros i' Hi'. rewrite Hi in Hi'. exists i'. split; [exact Hi'|]. split; [reflexivity|].
    destruct (inv_insts c HI _ _ Hi') as [Hm Hw].
    assert (Hnt : i_mu i' <> Some t).
    { intros E. apply Hm in E as (f1 & H1 & H2 & H3). congruence. }
    split.
    + split; [congruence|]. intros (f0 & H0 & H1). destruct (Htop f0 H0). congruence.
    + destruct (i_mu i') as [t'|]; [|exact Hw]. destruct (decide (t' = t)); [congruence|auto].
Qed.

Theorem Inv_step c t ch c' : Inv c -> step c t ch = Some c' -> Inv c'.
Proof.
  intros HI H. rewrite step_unfold in H.
  destruct (c_panicked c); [discriminate|].
  destruct (nth_error (c_threads c) t) as [th|] eqn:Hth; [|discriminate].
  destruct (t_stack th) as [|f rest] eqn:Hst; [discriminate|].
  assert (Tt : top_frame c t = Some f) by (unfold top_frame; rewrite Hth, Hst; reflexivity).
  assert (Hok : frame_ok f) by (eapply inv_frames; eauto).
  destruct (is_post_label (f_pc f)) eqn:Hpl.
  - (* keyed-mutex hook *)
    assert (Hcs : in_cs f = false) by (apply in_cs_post_label; exact Hpl).
    destruct (step_post (c_um c) f) as [[[um' o]|k]|] eqn:Hsp; [| |discriminate].
    + destruct (step_post_return _ _ _ _ Hsp) as [r ->].
      apply fin_shape in H as (Hi & Hu & th' & Hth' & Hp & Hfresh).
      eapply Inv_step_idle; eauto. intros f0 H0. destruct (t_stack th') as [|f1 st]; [discriminate|].
      cbn in H0. simplify_eq. eapply fresh_stack_top; eauto.
    + apply fin_shape in H as (Hi & Hu & th' & Hth' & Hs & Hp).
      eapply Inv_step_idle; eauto. intros f0 H0. rewrite Hs in H0. discriminate.
  - (* a hook of sync2.Map *)
    set (j0 := call_inst (f_call f)) in *.
    destruct (nth_error (c_insts c) j0) as [i|] eqn:Hi; [|discriminate].
    destruct (inv_insts c HI _ _ Hi) as [Hm Hw].
    assert (Hl : j0 < length (c_insts c)) by (eapply nth_error_lt; eauto).
    destruct (step_frame t i f ch) as [r|] eqn:Hsf; [|discriminate].
    destruct (in_cs f) eqn:Hcs.
    + (* inside the critical section *)
      assert (Hmu : i_mu i = Some t). { apply Hm. exists f. auto. }
      rewrite Hmu in Hw. specialize (Hw f Tt).
      destruct (sf_cs t i f ch r Hok Hcs Hmu Hw Hsf) as (i' & o & -> & Hcase).
      pose proof (sf_frame_ok _ _ _ _ _ _ Hok Hsf) as Hfo.
      apply fin_shape in H as (Hi' & Hu & th' & Hth' & Hp & Hafter). fold (after_stack o rest (t_stack th')) in Hafter.
      eapply (Inv_step_gen c c' t th f rest th' j0); eauto.
      * intros j Nj. rewrite Hi'. apply nth_error_set_nth_list_ne; auto.
      * intros f0 H0. destruct (after_stack_top _ _ _ _ Hafter H0) as [->|(_ & H1 & H2)].
        -- destruct Hfo as [H1 H2]. split; [exact H1|]. intros _. rewrite H2. reflexivity.
        -- split; [exact H1|]. congruence.
      * intros i2 Hi2. rewrite Hi', nth_error_set_nth_list_eq in Hi2 by exact Hl. injection Hi2 as <-.
        exists i. split; [exact Hi|].
        destruct Hcase as [(Hmu' & f' & -> & Hcs' & Hw')|(Hmu' & Hw' & Hfree)].
        -- cbn in Hafter. split; [intros t' N; rewrite Hmu, Hmu'; split; congruence|]. split.
           ++ split; [|auto]. intros _. exists f'. rewrite Hafter. auto.
           ++ rewrite Hmu'. rewrite decide_True by reflexivity. intros f0. rewrite Hafter. cbn. congruence.
        -- split; [intros t' N; rewrite Hmu, Hmu'; split; congruence|]. split.
           ++ split; [rewrite Hmu'; discriminate|]. intros (f0 & H0 & H1). exfalso.
              destruct (after_stack_top _ _ _ _ Hafter H0) as [->|(_ & _ & H2)]; [cbn in Hfree|]; congruence.
           ++ rewrite Hmu'. exact Hw'.
    + (* outside *)
      assert (Hmu : i_mu i <> Some t). { intros E. apply Hm in E as (f1 & H1 & H2 & H3). congruence. }
      destruct r as [[i' o]|k]; [|exfalso; eapply sf_free_nopanic; eauto].
      pose proof (sf_frame_ok _ _ _ _ _ _ Hok Hsf) as Hfo.
      destruct (sf_free _ _ _ _ _ _ Hok Hcs Hsf) as [(Hmu0 & -> & f' & -> & Hcl)|(Hmu' & [Hsim Hmiss] & Hfree)];
        apply fin_shape in H as (Hi' & Hu & th' & Hth' & Hp & Hafter).
      * (* the lock is taken *)
        cbn in Hafter. rewrite Hmu0 in Hw.
        eapply (Inv_step_gen c c' t th f rest th' j0); eauto.
        -- intros j Nj. rewrite Hi'. apply nth_error_set_nth_list_ne; auto.
        -- intros f0. rewrite Hafter. cbn. intros [= <-]. destruct Hfo as [H1 H2]. split; [exact H1|]. intros _. rewrite H2. reflexivity.
        -- intros i2 Hi2. rewrite Hi', nth_error_set_nth_list_eq in Hi2 by exact Hl. injection Hi2 as <-.
           exists i. split; [exact Hi|]. cbn. split; [intros t' N; rewrite Hmu0; split; congruence|]. split.
           ++ split; [|auto]. intros _. exists f'. rewrite Hafter. split; [reflexivity|]. unfold in_cs. rewrite Hcl. reflexivity.
           ++ rewrite decide_True by reflexivity. intros f0. rewrite Hafter. cbn. intros [= <-].
              destruct Hw. apply WFL_plain; auto.
      * fold (after_stack o rest (t_stack th')) in Hafter.
        eapply (Inv_step_gen c c' t th f rest th' j0); eauto.
        -- intros j Nj. rewrite Hi'. apply nth_error_set_nth_list_ne; auto.
        -- intros f0 H0. destruct (after_stack_top _ _ _ _ Hafter H0) as [->|(_ & H1 & H2)].
           ++ destruct Hfo as [H1 H2]. split; [exact H1|]. intros _. rewrite H2. reflexivity.
           ++ split; [exact H1|]. congruence.
        -- intros i2 Hi2. rewrite Hi', nth_error_set_nth_list_eq in Hi2 by exact Hl. injection Hi2 as <-.
           exists i. split; [exact Hi|]. split; [intros t' N; rewrite Hmu'; reflexivity|]. split.
           ++ split; [rewrite Hmu'; congruence|]. intros (f0 & H0 & H1). exfalso.
              destruct (after_stack_top _ _ _ _ Hafter H0) as [->|(_ & _ & H2)]; [cbn in Hfree|]; congruence.
           ++ rewrite Hmu'. destruct (i_mu i) as [t'|]; [|eapply WF_sim; eauto].
              destruct (decide (t' = t)); [congruence|]. intros fh. apply WFL_sim. exact Hsim.
Qed.

(* L5: inside the critical section an expunged entry changes only at Unexpunge_cas *)
Lemma sf_cs_exp t i f ch i' o e :
  frame_ok f -> in_cs f = true -> WFL (i_st i) f -> step_frame t i f ch = Some (Ok (i', o)) ->
  is_exp (i_st i) e = true -> is_exp (i_st i') e = false -> f_pc f = Unexpunge_cas /\ f_e f = Some e.
Proof.
  intros [He Hst Hdel Hpost] Hcs [Hc Hw] H H1 H2. unfold step_frame in H. unfold in_cs in Hcs. unfold cs_class in Hcs, Hw.
  rewrite is_exp_exps in H1, H2.
  destruct (f_pc f) eqn:Hpc; try discriminate Hcs; cbn in He;
    unfold expunge_done, tlos_done, bind in H; unfold after_miss, new_entry, dirty_insert, dirty_delete in H; cbn in H;
    repeat case_match; simplify_eq; cbn in H2; try congruence.
  all: try (rewrite exps_insert in H2; case_decide; [subst|congruence]).
  all: try (apply wf_exp_bound in H1; [|eassumption]; lia).
  all: try (split; reflexivity).
  all: try (cbn in H2; discriminate).
  all: try (rewrite <- is_exp_exps, is_exp_ent in H1; repeat case_match; congruence).
  destruct Hw as [_ (e0 & Hfe & Hex)]. simplify_eq. rewrite is_exp_exps in Hex. congruence.
Qed.

(* ------------------------------------------------------------------ *)
(* the invariant holds in every reachable configuration               *)
(* ------------------------------------------------------------------ *)
Lemma WF_core_empty : WF_core empty_mstate.
Proof.
  constructor; cbn; try discriminate.
  - intros k1 k2 e [H|H]; cbn in H; [rewrite lookup_empty in H|]; discriminate.
  - intros k e [H|H]; cbn in H; [rewrite lookup_empty in H|]; discriminate.
Qed.

Lemma WF_empty : WF empty_mstate.
Proof. split; [apply WF_core_empty|]. constructor; cbn; [discriminate|reflexivity]. Qed.

Lemma init_top_z zs progs t f : top_frame (init_config_z zs progs) t = Some f -> exists c, f = new_frame c.
Proof.
  unfold top_frame, init_config_z. cbn. rewrite nth_error_map.
  destruct (nth_error progs t) as [p|]; [|discriminate]. cbn. unfold next_call. cbn.
  destruct p as [|c p]; cbn; [discriminate|]. intros [= <-]. eauto.
Qed.

Lemma in_cs_new c : in_cs (new_frame c) = false.
Proof. destruct c; reflexivity. Qed.

Theorem Inv_init_z zs progs : Inv (init_config_z zs progs).
Proof.
  constructor.
  - intros t f H. apply init_top_z in H as [c ->]. apply frame_ok_new.
  - intros j i H. cbn in H. rewrite nth_error_map in H. destruct (nth_error zs j) as [z|]; [|discriminate]. injection H as <-. split.
    + intros t. cbn. split; [discriminate|]. intros (f & H1 & _ & H3). apply init_top_z in H1 as [c ->].
      rewrite in_cs_new in H3. discriminate.
    + cbn. apply WF_empty.
Qed.

Lemma Inv_run c sched : Inv c -> Inv (run_schedule c sched).
Proof.
  revert c. induction sched as [|[t ch] sched IH]; intros c HI; cbn; [exact HI|].
  apply IH. destruct (step c t ch) as [c'|] eqn:E; cbn; [eapply Inv_step; eauto|exact HI].
Qed.

Theorem Inv_reachable_z zs progs sched : Inv (run_schedule (init_config_z zs progs) sched).
Proof. apply Inv_run, Inv_init_z. Qed.

(* ------------------------------------------------------------------ *)
(* 1. lock discipline / mutual exclusion of m.mu                      *)
(* ------------------------------------------------------------------ *)
(* mu is held by t iff t is between the step after its *_lock and its *_unlock on that instance *)
Theorem mu_held_iff_in_cs_z zs progs sched j i t :
  let c := run_schedule (init_config_z zs progs) sched in
  nth_error (c_insts c) j = Some i -> (i_mu i = Some t <-> holder c j t).
Proof. intros c H. apply (inv_insts c (Inv_reachable_z zs progs sched) j i H). Qed.

(* at most one thread is inside the critical section of an instance *)
Theorem mutual_exclusion_z zs progs sched j i t1 t2 :
  let c := run_schedule (init_config_z zs progs) sched in
  nth_error (c_insts c) j = Some i -> holder c j t1 -> holder c j t2 -> t1 = t2.
Proof.
  intros c H H1 H2. destruct (inv_insts c (Inv_reachable_z zs progs sched) j i H) as [Hm _].
  apply Hm in H1, H2. congruence.
Qed.

(* what a step of thread t does to an instance whose lock t does not hold *)
Lemma step_rely c t ch c' j i i' :
  Inv c -> step c t ch = Some c' -> nth_error (c_insts c) j = Some i -> nth_error (c_insts c') j = Some i' ->
  i_mu i <> Some t ->
  rely (i_st i) (i_st i') /\ (i_mu i' = i_mu i \/ (i_mu i = None /\ i_mu i' = Some t)).
Proof.
  intros HI H Hi Hi' Hmu. rewrite step_unfold in H.
  destruct (c_panicked c); [discriminate|].
  destruct (nth_error (c_threads c) t) as [th|] eqn:Hth; [|discriminate].
  destruct (t_stack th) as [|f rest] eqn:Hst; [discriminate|].
  assert (Tt : top_frame c t = Some f) by (unfold top_frame; rewrite Hth, Hst; reflexivity).
  assert (Hok : frame_ok f) by (eapply inv_frames; eauto).
  assert (Same : c_insts c' = c_insts c -> rely (i_st i) (i_st i') /\ (i_mu i' = i_mu i \/ (i_mu i = None /\ i_mu i' = Some t))).
  { intros E. rewrite E in Hi'. assert (i' = i) by congruence. subst. split; [apply rely_refl|auto]. }
  destruct (is_post_label (f_pc f)) eqn:Hpl.
  - destruct (step_post (c_um c) f) as [[[um' o]|k]|] eqn:Hsp; [| |discriminate];
      apply fin_shape in H as (E & _); auto.
  - destruct (nth_error (c_insts c) (call_inst (f_call f))) as [i0|] eqn:Hi0; [|discriminate].
    destruct (step_frame t i0 f ch) as [[[i0' o]|k]|] eqn:Hsf; [| |discriminate];
      apply fin_shape in H as (E & _); auto.
    destruct (decide (j = call_inst (f_call f))) as [->|Nj].
    + assert (i0 = i) by congruence. subst i0.
      rewrite E, nth_error_set_nth_list_eq in Hi' by (eapply nth_error_lt; eauto). injection Hi' as <-.
      assert (Hcs : in_cs f = false).
      { destruct (in_cs f) eqn:Hcs; [|reflexivity]. exfalso. apply Hmu.
        apply (inv_insts c HI _ _ Hi). exists f. auto. }
      destruct (sf_free _ _ _ _ _ _ Hok Hcs Hsf) as [(Hmu0 & -> & _)|(Hmu' & Hr & _)].
      * split; [apply rely_refl|]. right. auto.
      * split; [exact Hr|]. left. exact Hmu'.
    + rewrite E, nth_error_set_nth_list_ne in Hi' by (eauto using nth_error_lt).
      assert (i' = i) by congruence. subst. split; [apply rely_refl|auto].
Qed.

(* every step that changes dirty, misses, read.m or read.amended of an instance
   (or the expunged status of an entry, or allocates an entry) is taken by the
   thread that holds its mu; the other threads can only acquire the free lock *)
Theorem lock_discipline_z zs progs sched t ch c' j i i' :
  let c := run_schedule (init_config_z zs progs) sched in
  step c t ch = Some c' -> nth_error (c_insts c) j = Some i -> nth_error (c_insts c') j = Some i' ->
  i_mu i <> Some t ->
  dirty (i_st i') = dirty (i_st i) /\ misses (i_st i') = misses (i_st i) /\
  read_m (i_st i') = read_m (i_st i) /\ amended (i_st i') = amended (i_st i) /\
  next_e (i_st i') = next_e (i_st i) /\
  (forall e, get_ent (i_st i') e = PExpunged <-> get_ent (i_st i) e = PExpunged) /\
  (i_mu i' = i_mu i \/ (i_mu i = None /\ i_mu i' = Some t)).
Proof.
  intros c H Hi Hi' Hmu.
  destruct (step_rely c t ch c' j i i' (Inv_reachable_z zs progs sched) H Hi Hi' Hmu) as [[[Hn Hr Ha Hd He] Hm] Hx].
  repeat split; auto.
  - intros E. specialize (He e). unfold is_exp in He. rewrite E in He. destruct (get_ent (i_st i) e); congruence.
  - intros E. specialize (He e). unfold is_exp in He. rewrite E in He. destruct (get_ent (i_st i') e); congruence.
Qed.

(* ------------------------------------------------------------------ *)
(* 3. the structural invariant                                        *)
(* ------------------------------------------------------------------ *)
Theorem structure_lock_free_z zs progs sched j i :
  let c := run_schedule (init_config_z zs progs) sched in
  nth_error (c_insts c) j = Some i -> i_mu i = None -> WF (i_st i).
Proof.
  intros c H Hmu. destruct (inv_insts c (Inv_reachable_z zs progs sched) j i H) as [_ Hw]. rewrite Hmu in Hw. exact Hw.
Qed.

Theorem structure_locked_z zs progs sched j i t :
  let c := run_schedule (init_config_z zs progs) sched in
  nth_error (c_insts c) j = Some i -> i_mu i = Some t ->
  exists f, top_frame c t = Some f /\ call_inst (f_call f) = j /\ in_cs f = true /\ WFL (i_st i) f.
Proof.
  intros c H Hmu. destruct (inv_insts c (Inv_reachable_z zs progs sched) j i H) as [Hm Hw]. rewrite Hmu in Hw.
  apply Hm in Hmu as (f & H1 & H2 & H3). exists f. auto.
Qed.

Theorem structure_always_z zs progs sched j i :
  let c := run_schedule (init_config_z zs progs) sched in
  nth_error (c_insts c) j = Some i -> WF_core (i_st i).
Proof.
  intros c H. destruct (i_mu i) as [t|] eqn:Hmu.
  - destruct (structure_locked_z zs progs sched j i t H Hmu) as (f & _ & _ & _ & [Hc _]). exact Hc.
  - apply (structure_lock_free_z zs progs sched j i H Hmu).
Qed.

(* expunged is final except for the lock holder's Unexpunge_cas *)
Lemma step_exp_final c t ch c' j i i' e :
  Inv c -> step c t ch = Some c' -> nth_error (c_insts c) j = Some i -> nth_error (c_insts c') j = Some i' ->
  is_exp (i_st i) e = true -> is_exp (i_st i') e = false ->
  i_mu i = Some t /\ exists f, top_frame c t = Some f /\ call_inst (f_call f) = j /\ f_pc f = Unexpunge_cas /\ f_e f = Some e.
Proof.
  intros HI H Hi Hi' H1 H2.
  destruct (decide (i_mu i = Some t)) as [Hmu|Hmu].
  2:{ destruct (step_rely c t ch c' j i i' HI H Hi Hi' Hmu) as [[[_ _ _ _ He] _] _]. rewrite He in H2. congruence. }
  split; [exact Hmu|].
  destruct (inv_insts c HI _ _ Hi) as [Hm Hw]. rewrite Hmu in Hw.
  apply Hm in Hmu as (f & Tt & Hj & Hcs). specialize (Hw f Tt).
  exists f. split; [exact Tt|]. split; [exact Hj|].
  assert (Hok : frame_ok f) by (eapply inv_frames; eauto).
  rewrite step_unfold in H. unfold top_frame in Tt.
  destruct (c_panicked c); [discriminate|].
  destruct (nth_error (c_threads c) t) as [th|] eqn:Hth; [|discriminate].
  destruct (t_stack th) as [|f0 rest] eqn:Hst; [discriminate|]. cbn in Tt. injection Tt as ->.
  destruct (is_post_label (f_pc f)) eqn:Hpl.
  { apply in_cs_post_label in Hpl. congruence. }
  rewrite Hj, Hi in H.
  destruct (step_frame t i f ch) as [[[i0' o]|k]|] eqn:Hsf; [| |discriminate];
    apply fin_shape in H as (E & _).
  - rewrite E, nth_error_set_nth_list_eq in Hi' by (eapply nth_error_lt; eauto). injection Hi' as <-.
    eapply sf_cs_exp; eauto.
  - rewrite E in Hi'. assert (i' = i) by congruence. subst. congruence.
Qed.

Theorem expunged_final_z zs progs sched t ch c' j i i' e :
  let c := run_schedule (init_config_z zs progs) sched in
  step c t ch = Some c' -> nth_error (c_insts c) j = Some i -> nth_error (c_insts c') j = Some i' ->
  get_ent (i_st i) e = PExpunged -> get_ent (i_st i') e <> PExpunged ->
  i_mu i = Some t /\ exists f, top_frame c t = Some f /\ call_inst (f_call f) = j /\ f_pc f = Unexpunge_cas /\ f_e f = Some e.
Proof.
  intros c H Hi Hi' H1 H2. eapply step_exp_final; eauto using Inv_reachable_z.
  - unfold is_exp. rewrite H1. reflexivity.
  - unfold is_exp. destruct (get_ent (i_st i') e); congruence.
Qed.

(* ------------------------------------------------------------------ *)
(* 2. no panic                                                        *)
(* ------------------------------------------------------------------ *)
(* calls that do not go on to a keyed-mutex operation (those can panic by
   design: unlock of an unlocked mutex) *)
Definition nopost (c : call) : Prop := match c with CLoadOrStore _ _ _ p => p = PNone | _ => True end.
Definition thread_nopost (th : thread) : Prop :=
  Forall nopost (t_prog th) /\ Forall (fun f => nopost (f_call f)) (t_stack th).
Definition calls_nopost (c : config) : Prop :=
  forall t th, nth_error (c_threads c) t = Some th -> thread_nopost th.

Lemma next_call_nopost prog res b : Forall nopost prog -> thread_nopost (next_call (Thread prog [] res b)).
Proof.
  intros H. unfold next_call. cbn. destruct prog as [|c prog]; cbn.
  - split; constructor.
  - inversion H; subst. split; [assumption|]. constructor; [assumption|constructor].
Qed.

Lemma do_return_nopost th r rest th' rs :
  Forall nopost (t_prog th) -> Forall (fun f => nopost (f_call f)) rest -> do_return th r rest = (th', rs) ->
  thread_nopost th'.
Proof.
  intros Hp Hr. unfold do_return. destruct rest as [|p rest'].
  - intros [= <- <-]. apply next_call_nopost, Hp.
  - match goal with |- context [range_next ?x false] => destruct (range_next_cases x false) as [[r' ->]| ->] end.
    + intros [= <- <-]. apply next_call_nopost, Hp.
    + intros [= <- <-]. split; [exact Hp|]. inversion Hr; subst. constructor; assumption.
Qed.

Lemma fin_nopost c t th f rest insts um ro c' :
  thread_nopost th -> t_stack th = f :: rest ->
  match ro with Ok (Continue f') | Ok (Callback f' _ _) => f_call f' = f_call f | _ => True end ->
  fin c t th f rest insts um ro = Some c' ->
  exists th', c_threads c' = set_nth_list t th' (c_threads c) /\ thread_nopost th'.
Proof.
  intros [Hp Hs] Hst Hcall H. rewrite Hst in Hs. inversion Hs as [|? ? Hf Hrest]; subst.
  unfold fin in H. destruct ro as [[f'|r|f' k v]|k].
  - simplify_eq. eexists. split; [reflexivity|]. split; [exact Hp|]. cbn. constructor; [congruence|assumption].
  - destruct (do_return _ _ rest) as [th' rs] eqn:E. simplify_eq. eexists. split; [reflexivity|].
    eapply do_return_nopost; [| |exact E]; assumption.
  - destruct (cb_of (f_call f')) as [n|j|j] eqn:Ecb.
    + match type of H with context [range_next ?x ?y] => destruct (range_next_cases x y) as [[r' Hr]| Hr]; rewrite Hr in H end.
      * destruct (do_return _ _ rest) as [th' rs] eqn:E. simplify_eq. eexists. split; [reflexivity|].
        eapply do_return_nopost; [| |exact E]; assumption.
      * simplify_eq. eexists. split; [reflexivity|]. split; [exact Hp|]. cbn. constructor; [cbn; congruence|assumption].
    + simplify_eq. eexists. split; [reflexivity|]. split; [exact Hp|]. cbn.
      constructor; [reflexivity|]. constructor; [cbn; congruence|assumption].
    + simplify_eq. eexists. split; [reflexivity|]. split; [exact Hp|]. cbn.
      constructor; [exact I|]. constructor; [cbn; congruence|assumption].
  - simplify_eq. eexists. split; [reflexivity|]. split; constructor.
Qed.

Lemma calls_nopost_set c c' t th' :
  t < length (c_threads c) -> calls_nopost c -> c_threads c' = set_nth_list t th' (c_threads c) -> thread_nopost th' ->
  calls_nopost c'.
Proof.
  intros Hl Hc E Hth' t' th0. rewrite E. destruct (decide (t' = t)) as [->|N].
  - rewrite nth_error_set_nth_list_eq by exact Hl. congruence.
  - rewrite nth_error_set_nth_list_ne by auto. apply Hc.
Qed.

Lemma step_nopost c t ch c' :
  Inv c -> calls_nopost c -> step c t ch = Some c' -> calls_nopost c' /\ c_panicked c' = false.
Proof.
  intros HI HN H. rewrite step_unfold in H.
  destruct (c_panicked c); [discriminate|].
  destruct (nth_error (c_threads c) t) as [th|] eqn:Hth; [|discriminate].
  destruct (t_stack th) as [|f rest] eqn:Hst; [discriminate|].
  assert (Tt : top_frame c t = Some f) by (unfold top_frame; rewrite Hth, Hst; reflexivity).
  assert (Hok : frame_ok f) by (eapply inv_frames; eauto).
  assert (Hl : t < length (c_threads c)) by (eapply nth_error_lt; eauto).
  pose proof (HN t th Hth) as Hnp.
  assert (Hnf : nopost (f_call f)). { destruct Hnp as [_ Hs]. rewrite Hst in Hs. inversion Hs; assumption. }
  destruct (is_post_label (f_pc f)) eqn:Hpl.
  { exfalso. apply (fo_post _ Hok) in Hpl. destruct (f_call f); cbn in *; try contradiction. }
  destruct (nth_error (c_insts c) (call_inst (f_call f))) as [i|] eqn:Hi; [|discriminate].
  destruct (step_frame t i f ch) as [r|] eqn:Hsf; [|discriminate].
  assert (exists i' o, r = Ok (i', o)) as (i' & o & ->).
  { destruct (in_cs f) eqn:Hcs.
    - destruct (inv_insts c HI _ _ Hi) as [Hm Hw].
      assert (Hmu : i_mu i = Some t). { apply Hm. exists f. auto. }
      rewrite Hmu in Hw. destruct (sf_cs t i f ch r Hok Hcs Hmu (Hw f Tt) Hsf) as (i' & o & -> & _). eauto.
    - destruct r as [[i' o]|k]; [eauto|]. exfalso. eapply sf_free_nopanic; eauto. }
  pose proof (sf_frame_ok _ _ _ _ _ _ Hok Hsf) as Hfo.
  pose proof H as H'. apply fin_shape in H' as (_ & _ & _ & _ & Hp & _).
  split; [|exact Hp].
  eapply fin_nopost in H as (th' & E & Hth'); eauto.
  - eapply calls_nopost_set; eauto.
  - destruct o; [apply Hfo|exact I|congruence].
Qed.

Lemma init_nopost_z zs progs : Forall (Forall nopost) progs -> calls_nopost (init_config_z zs progs).
Proof.
  intros H t th. cbn. rewrite nth_error_map. destruct (nth_error progs t) as [p|] eqn:E; [|discriminate].
  cbn. intros [= <-]. apply next_call_nopost. rewrite Forall_forall in H. apply H. eapply nth_error_In, E.
Qed.

Lemma run_nopost c sched : Inv c -> calls_nopost c -> c_panicked c = false ->
  c_panicked (run_schedule c sched) = false.
Proof.
  revert c. induction sched as [|[t ch] sched IH]; intros c HI HN Hp; cbn; [exact Hp|].
  destruct (step c t ch) as [c'|] eqn:E; cbn; [|apply IH; assumption].
  destruct (step_nopost c t ch c' HI HN E). apply IH; eauto using Inv_step.
Qed.

Theorem no_panic_z zs progs sched :
  Forall (Forall nopost) progs -> c_panicked (run_schedule (init_config_z zs progs) sched) = false.
Proof. intros H. apply run_nopost; [apply Inv_init_z|apply init_nopost_z, H|reflexivity]. Qed.

(* ---- the same for [init_config n] (every instance an ordinary Map) ---- *)
Lemma init_config_eq n progs : init_config n progs = init_config_z (repeat false n) progs.
Proof. unfold init_config, init_config_z. f_equal. induction n as [|n IH]; cbn; [reflexivity|]. rewrite IH. reflexivity. Qed.

Lemma init_top n progs t f : top_frame (init_config n progs) t = Some f -> exists c, f = new_frame c.
Proof. rewrite init_config_eq. apply init_top_z. Qed.
Theorem Inv_init n progs : Inv (init_config n progs).
Proof. rewrite init_config_eq. apply Inv_init_z. Qed.
Theorem Inv_reachable n progs sched : Inv (run_schedule (init_config n progs) sched).
Proof. rewrite init_config_eq. apply Inv_reachable_z. Qed.
Theorem mutual_exclusion n progs sched j i t1 t2 :
  let c := run_schedule (init_config n progs) sched in
  nth_error (c_insts c) j = Some i -> holder c j t1 -> holder c j t2 -> t1 = t2.
Proof. cbv zeta. rewrite init_config_eq. apply mutual_exclusion_z. Qed.
Lemma init_nopost n progs : Forall (Forall nopost) progs -> calls_nopost (init_config n progs).
Proof. rewrite init_config_eq. apply init_nopost_z. Qed.
Theorem no_panic n progs sched :
  Forall (Forall nopost) progs -> c_panicked (run_schedule (init_config n progs) sched) = false.
Proof. rewrite init_config_eq. apply no_panic_z. Qed.
