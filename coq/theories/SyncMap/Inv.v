(* Concurrent invariants of the small-step interleaving model of sync2.Map
   (SyncMap/Model.v; /repo/sync2/map.go): theorems over ALL schedules, any
   number of threads and instances, any programs (C04 items 2 and 3 of
   DESIGN.md section 6).

   - lock discipline / mutual exclusion of m.mu,
   - no panic (no assignment to a nil dirty map, no nil entry dereference),
   - the structural invariant WF at lock-free moments and its relaxation WFL
     inside the critical section, indexed by the lock holder's pc,
   - expunged is final except for the lock holder's Unexpunge_cas.

   Method: an invariant [Inv] of configurations, shown for [init_config] and
   preserved by every [step]; the case analysis over the labels is done once
   per aspect on [step_frame] (the sf_ lemmas), the assembly on [step]. *)
From Typ Require Import SyncMap.Model.

(* ------------------------------------------------------------------ *)
(* lists                                                              *)
(* ------------------------------------------------------------------ *)
Lemma nth_error_set_nth_list_eq {X} n (x : X) l :
  n < length l -> nth_error (set_nth_list n x l) n = Some x.
Proof.
  unfold set_nth_list. revert l. induction n as [|n IH]; intros [|y l] Hl; simpl in *; try lia.
  - reflexivity.
  - apply IH. lia.
Qed.

Lemma nth_error_set_nth_list_ne {X} n m (x : X) l :
  n < length l -> m <> n -> nth_error (set_nth_list n x l) m = nth_error l m.
Proof.
  unfold set_nth_list. revert l m. induction n as [|n IH]; intros [|y l] m Hl Hm; simpl in *; try lia.
  - destruct m; [congruence|reflexivity].
  - destruct m; [reflexivity|]. simpl. apply IH; lia.
Qed.

Lemma length_set_nth_list {X} n (x : X) l : n < length l -> length (set_nth_list n x l) = length l.
Proof.
  unfold set_nth_list. revert l. induction n as [|n IH]; intros [|y l] Hl; simpl in *; try lia.
  - reflexivity.
  - rewrite IH; lia.
Qed.

Lemma nth_error_lt {X} (l : list X) n x : nth_error l n = Some x -> n < length l.
Proof. intros H. apply nth_error_Some. congruence. Qed.

Lemma existsb_eqb_In k (l : list Z) : existsb (Z.eqb k) l = true <-> k ∈ l.
Proof.
  rewrite existsb_exists. split.
  - intros (x & Hx & E). apply Z.eqb_eq in E. subst. apply elem_of_list_In. exact Hx.
  - intros H. exists k. split; [apply elem_of_list_In, H|apply Z.eqb_refl].
Qed.

Lemma existsb_eqb_notin k (l : list Z) : existsb (Z.eqb k) l = false <-> k ∉ l.
Proof.
  rewrite <- existsb_eqb_In. destruct (existsb (Z.eqb k) l); split; congruence.
Qed.

Lemma unvisited_nil (m : gmap Z nat) vis : unvisited m vis = [] -> forall k e, m !! k = Some e -> k ∈ vis.
Proof.
  unfold unvisited. intros H k e Hk.
  destruct (existsb (Z.eqb k) vis) eqn:E. { apply existsb_eqb_In, E. }
  exfalso.
  assert (HI : In k (List.filter (fun k : Z => negb (existsb (Z.eqb k) vis)) (map fst (map_to_list m)))).
  { apply filter_In. split; [|rewrite E; reflexivity].
    apply in_map_iff. exists (k, e). split; [reflexivity|]. apply elem_of_list_In, elem_of_map_to_list, Hk. }
  rewrite H in HI. destruct HI.
Qed.

(* ------------------------------------------------------------------ *)
(* the critical section, by program counter                           *)
(* ------------------------------------------------------------------ *)
(* What the lock holder is doing: CsPlain = the structure is whole (WF), the
   others are the relaxations. CsNone = outside the critical section. *)
Inductive csclass := CsNone | CsPlain | CsUnexp | CsStoreLocked | CsDirtyRead | CsLoop | CsLoopCur | CsAmend.

Definition cs_class (f : frame) : csclass :=
  match f_pc f with
  | Load_read2 | Load_unlock | Miss_store | Store_read2 | Store_unlock | LOS_read2 | LOS_unlock
  | LAD_read2 | LAD_unlock | Range_read2 | Range_promote | Range_unlock => CsPlain
  | Tlos_load1 | Tlos_cas | Tlos_load2 => match f_mode f with MFast => CsNone | _ => CsPlain end
  | Unexpunge_cas => CsUnexp
  | StoreLocked => CsStoreLocked
  | Dirty_read => CsDirtyRead
  | Dirty_iter => CsLoop
  | Expunge_load1 | Expunge_cas | Expunge_load2 => CsLoopCur
  | Store_amend | LOS_amend => CsAmend
  | _ => CsNone
  end.

(* the frame is between the step after its *_lock and its *_unlock *)
Definition in_cs (f : frame) : bool := match cs_class f with CsNone => false | _ => true end.

(* ------------------------------------------------------------------ *)
(* frame-local invariant (independent of the shared state)            *)
(* ------------------------------------------------------------------ *)
Definition needs_e (l : label) : bool :=
  match l with
  | E_load | TryStore_load | TryStore_cas | Unexpunge_cas | StoreLocked | Expunge_load1 | Expunge_cas | Expunge_load2
  | Tlos_load1 | Tlos_cas | Tlos_load2 | Delete_load | Delete_cas => true
  | _ => false
  end.

Definition has_post (c : call) : Prop := match c with CLoadOrStore _ _ _ p => p <> PNone | _ => False end.

Record frame_ok (f : frame) : Prop := {
  fo_e : needs_e (f_pc f) = true -> f_e f <> None;
  fo_store : f_pc f = TryStore_cas -> f_p f <> PExpunged;
  fo_del : f_pc f = Delete_cas -> exists v, f_p f = PVal v;
  fo_post : is_post_label (f_pc f) = true -> has_post (f_call f)
}.

Lemma frame_ok_plain f : needs_e (f_pc f) = false -> is_post_label (f_pc f) = false -> frame_ok f.
Proof.
  intros H1 H2. constructor; intros H; try congruence; rewrite H in H1; discriminate.
Qed.

Lemma frame_ok_new c : frame_ok (new_frame c).
Proof. apply frame_ok_plain; destruct c; reflexivity. Qed.

Lemma range_next_cases f stop :
  (exists r, range_next f stop = Return r) \/ range_next f stop = Continue (set_pc f Range_iter).
Proof.
  unfold range_next. destruct stop; [left; eauto|]. destruct (unvisited _ _); [left; eauto|right; reflexivity].
Qed.

Lemma needs_e_unlock c : needs_e (unlock_label c) = false.
Proof. destruct c; reflexivity. Qed.
Lemma post_unlock c : is_post_label (unlock_label c) = false.
Proof. destruct c; reflexivity. Qed.
Lemma needs_e_amend c : needs_e (amend_label c) = false.
Proof. destruct c; reflexivity. Qed.
Lemma post_amend c : is_post_label (amend_label c) = false.
Proof. destruct c; reflexivity. Qed.
Lemma post_label_spec p l : post_label p = Some l -> needs_e l = false /\ is_post_label l = true /\ p <> PNone.
Proof. destruct p; intros [= <-]; repeat split; discriminate. Qed.

Lemma frame_ok_post f l i k v p :
  f_call f = CLoadOrStore i k v p -> post_label p = Some l -> f_pc f = l -> frame_ok f.
Proof.
  intros Hc Hp Hl. destruct (post_label_spec _ _ Hp) as (H1 & H2 & H3). rewrite <- Hl in *.
  constructor; intros H; try (rewrite H in H1; discriminate); try congruence.
  rewrite Hc. exact H3.
Qed.

Ltac frame_ok_tac :=
  first [ apply frame_ok_plain; cbn;
          first [reflexivity | apply needs_e_unlock | apply post_unlock | apply needs_e_amend | apply post_amend]
        | eapply frame_ok_post; cbn; [eassumption|eassumption|reflexivity]
        | constructor; cbn; intros; first [discriminate | congruence | eauto] ].

(* L1: a step keeps the frame-local invariant and the call *)
Lemma sf_frame_ok t i f ch i' o :
  frame_ok f -> step_frame t i f ch = Some (Ok (i', o)) ->
  match o with
  | Continue f' => frame_ok f' /\ f_call f' = f_call f
  | Return _ => True
  | Callback f' _ _ => f' = f
  end.
Proof.
  intros [He Hst Hdel Hpost] H. unfold step_frame in H.
  destruct (f_pc f) eqn:Hpc; cbn in He;
    unfold expunge_done, tlos_done, bind in H; unfold after_miss, dirty_next, los_return, range_next in H;
    repeat case_match; simplify_eq; try exact I; try reflexivity; cbn [fst snd];
    try (split; [frame_ok_tac|cbn; congruence]).
Qed.

(* ------------------------------------------------------------------ *)
(* the shared state: structural invariant                             *)
(* ------------------------------------------------------------------ *)
Definition is_exp (s : mstate) (e : nat) : bool := match get_ent s e with PExpunged => true | _ => false end.

(* entry e is recorded under key k in the read map or in the dirty map *)
Definition reach_any (s : mstate) (k : Z) (e : nat) : Prop :=
  read_m s !! k = Some e \/ dirty_lookup s k = Some e.

(* the part of the invariant that holds at every moment *)
Record WF_core (s : mstate) : Prop := {
  wf_inj : forall k1 k2 e, reach_any s k1 e -> reach_any s k2 e -> k1 = k2;   (* entry ids unique per key *)
  wf_bound : forall k e, reach_any s k e -> e < next_e s;
  wf_dirty_live : forall k e, dirty_lookup s k = Some e -> is_exp s e = false; (* no expunged entry in dirty *)
  wf_amended : amended s = true -> dirty s <> None;
  wf_clean : dirty s = None -> forall k e, read_m s !! k = Some e -> is_exp s e = false
}.

(* the part the lock holder suspends while it rebuilds the dirty map *)
Record WF_ad (s : mstate) : Prop := {
  wf_cover : forall d k e, dirty s = Some d -> read_m s !! k = Some e ->
             d !! k = if is_exp s e then None else Some e;
  wf_unamended : amended s = false -> dirty s = None
}.

Definition WF (s : mstate) : Prop := WF_core s /\ WF_ad s.

(* dirtyLocked's loop: [done] = the keys already copied *)
Definition loop_inv (s : mstate) (rdm : gmap Z nat) (key : Z) (done : list Z) : Prop :=
  rdm = read_m s /\ amended s = false /\ read_m s !! key = None /\
  exists d, dirty s = Some d /\
    (forall k e, read_m s !! k = Some e -> k ∈ done -> d !! k = if is_exp s e then None else Some e) /\
    (forall k e, d !! k = Some e -> k ∈ done /\ read_m s !! k = Some e).

(* the invariant while the lock is held, by the holder's pc *)
Definition WFL (s : mstate) (f : frame) : Prop :=
  WF_core s /\
  match cs_class f with
  | CsNone => True
  | CsPlain => WF_ad s
  | CsUnexp => WF_ad s /\ read_m s !! key_of (f_call f) = f_e f
  | CsStoreLocked => WF_ad s /\ exists e, f_e f = Some e /\ is_exp s e = false
  | CsDirtyRead => WF_ad s /\ dirty s = None /\ read_m s !! key_of (f_call f) = None
  | CsLoop => loop_inv s (f_rd_m f) (key_of (f_call f)) (f_visited f)
  | CsLoopCur => exists vis, f_visited f = f_curk f :: vis /\ f_curk f ∉ vis /\
                             f_rd_m f !! f_curk f = f_e f /\ loop_inv s (f_rd_m f) (key_of (f_call f)) vis
  | CsAmend => loop_inv s (f_rd_m f) (key_of (f_call f)) (f_visited f) /\ forall k e, read_m s !! k = Some e -> k ∈ f_visited f
  end.

(* what a thread that does not hold the lock may do to the state: entry
   pointers change between nil and values only *)
Record sim (s s' : mstate) : Prop := {
  rl_next : next_e s' = next_e s;
  rl_read : read_m s' = read_m s;
  rl_am : amended s' = amended s;
  rl_dirty : dirty s' = dirty s;
  rl_exp : forall e, is_exp s' e = is_exp s e
}.
Definition rely (s s' : mstate) : Prop := sim s s' /\ misses s' = misses s.

Lemma sim_refl s : sim s s.
Proof. constructor; reflexivity. Qed.
Lemma rely_refl s : rely s s.
Proof. split; [apply sim_refl|reflexivity]. Qed.

Lemma get_ent_set_ent s e p e0 :
  get_ent (set_ent s e p) e0 = if decide (e0 = e) then p else get_ent s e0.
Proof.
  unfold get_ent, set_ent; simpl. destruct (decide (e0 = e)) as [->|N].
  - rewrite lookup_insert. reflexivity.
  - rewrite lookup_insert_ne by congruence. reflexivity.
Qed.

Lemma is_exp_set_ent s e p e0 :
  is_exp (set_ent s e p) e0 = if decide (e0 = e) then bool_decide (p = PExpunged) else is_exp s e0.
Proof.
  unfold is_exp. rewrite get_ent_set_ent. destruct (decide (e0 = e)); [|reflexivity].
  destruct p; reflexivity.
Qed.

Lemma rely_put_ent i e p : is_exp (i_st i) e = false -> p <> PExpunged -> rely (i_st i) (i_st (put_ent i e p)).
Proof.
  intros He Hp. split; [|reflexivity]. constructor; try reflexivity. intros e0. cbn. rewrite is_exp_set_ent.
  destruct (decide (e0 = e)) as [->|]; [|reflexivity].
  rewrite He. apply bool_decide_eq_false. exact Hp.
Qed.

Lemma cas_ok_not_exp i e f : cas_ok i e f = true -> f_p f <> PExpunged -> is_exp (i_st i) e = false.
Proof.
  unfold cas_ok, is_exp, ent. intros H Hp.
  destruct (f_p f) eqn:E; try congruence.
  - apply bool_decide_eq_true in H. rewrite H. reflexivity.
  - apply andb_true_iff in H as [H _]. apply bool_decide_eq_true in H. rewrite H. reflexivity.
Qed.

Lemma is_exp_ent i e : is_exp (i_st i) e = match ent i e with PExpunged => true | _ => false end.
Proof. reflexivity. Qed.

Definition out_free (o : outcome) : Prop := match o with Continue f' => in_cs f' = false | _ => True end.

Lemma in_cs_post p l f : post_label p = Some l -> f_pc f = l -> in_cs f = false.
Proof. unfold in_cs, cs_class. intros Hp ->. destruct p; simplify_eq/=; reflexivity. Qed.

(* L2: a step outside the critical section either acquires the free lock or
   leaves mu, dirty, misses, read alone and changes no expunged entry *)
Lemma sf_free t i f ch i' o :
  frame_ok f -> in_cs f = false -> step_frame t i f ch = Some (Ok (i', o)) ->
  (i_mu i = None /\ i' = Inst (i_st i) (Some t) (i_ver i) /\ exists f', o = Continue f' /\ cs_class f' = CsPlain)
  \/ (i_mu i' = i_mu i /\ rely (i_st i) (i_st i') /\ out_free o).
Proof.
  intros [He Hst Hdel Hpost] Hcs H. unfold step_frame in H. unfold in_cs, cs_class in Hcs.
  destruct (f_pc f) eqn:Hpc; try discriminate Hcs; cbn in He;
    unfold expunge_done, tlos_done, bind in H; unfold after_miss, dirty_next, los_return, range_next in H;
    repeat case_match; simplify_eq;
    try (left; split; [first [assumption|reflexivity]|split; [reflexivity|eexists; split; reflexivity]]);
    try (right; split; [reflexivity|split; [first [apply rely_refl | apply rely_put_ent] | cbn; try exact I; try reflexivity]]).
  all: try (eapply in_cs_post; [eassumption|reflexivity]).
  all: try discriminate.
  all: try (unfold in_cs, cs_class; cbn; repeat case_match; congruence).
  all: try (eapply cas_ok_not_exp; eauto; fail).
  all: try (rewrite is_exp_ent; repeat case_match; congruence).
  all: destruct (Hdel eq_refl) as [? ?]; eapply cas_ok_not_exp; eauto; congruence.
Qed.
