(* "Free AND UNCONTENDED" (C09): the key-level theorems about acquisitions that
   succeed, as statements about the real sync.Mutex / sync.RWMutex.

   The trusted mutex machine of SyncMap/Model.v ([umutex], [step_post]) takes
   every mutex operation as ONE atomic step and has no queue of waiters: in it
   RLock proceeds and TryRLock succeeds whenever the mutex is not write-LOCKED,
   and TryLock succeeds whenever it is free. Go's mutexes are weaker in two ways:
   - sync.RWMutex refuses new readers (RLock blocks, TryRLock returns false)
     while a writer is WAITING inside Lock, and sync.Mutex.TryLock may fail on a
     free mutex that has queued waiters (starvation mode);
   - sync.RWMutex.TryLock and Unlock are several atomic operations (TryLock:
     rw.w.TryLock, then a CAS on readerCount, and rw.w.Unlock when the CAS
     fails; Unlock restores readerCount before rw.w.Unlock), so a TryLock is
     not linearizable against an overlapping TryLock / Unlock of the same
     mutex: it can fail on a free mutex while another goroutine is in the
     middle of a failing TryLock or in the tail of an Unlock.
   The property says "succeed when the key is free and uncontended", so the
   theorems about succeeding acquisitions carry the hypothesis [quiet c t k]:
   no OTHER thread stands at ANY mutex-operation step (Lock, TryLock, Unlock,
   RLock, TryRLock, RUnlock: [is_post_label]) of a call on the same key, i.e.
   nobody else is operating on, or queued at, the key's mutex at this moment.
   The [_machine] theorems of InsertOnly.v / ClearKey.v / Progress.v (no such
   hypothesis) are facts about the abstract machine only and are not exported
   as property theorems.
   The theorems about FAILING / WAITING acquisitions and mutual exclusion need
   no such hypothesis: queueing and non-atomicity only ever make the real mutex
   refuse more. *)
From Typ Require Import SyncMap.Model SyncMap.Inv SyncMap.KeyedMutex SyncMap.InsertOnly SyncMap.Progress SyncMap.ClearKey.

(* thread t2 stands at a mutex-operation step of a call on key k *)
Definition at_mutex (c : config) (t2 : nat) (k : Z) : Prop :=
  exists f, top_frame c t2 = Some f /\ key_of (f_call f) = k /\ is_post_label (f_pc f) = true.
(* nobody but t does: the key is uncontended for t *)
Definition quiet (c : config) (t : nat) (k : Z) : Prop := forall t2, t2 <> t -> ~ at_mutex c t2 k.

Definition quietb (c : config) (t : nat) (k : Z) : bool :=
  forallb (fun t2 => Nat.eqb t2 t ||
             match top_frame c t2 with
             | Some f => negb (Z.eqb (key_of (f_call f)) k && is_post_label (f_pc f))
             | None => true
             end) (seq 0 (length (c_threads c))).

Lemma quietb_ok c t k : quietb c t k = true -> quiet c t k.
Proof.
  unfold quietb. rewrite forallb_forall. intros H t2 N (f & Tt & Hk & Hl).
  assert (Hlt : t2 < length (c_threads c)).
  { unfold top_frame in Tt. destruct (nth_error (c_threads c) t2) eqn:E; [|discriminate]. eapply nth_error_lt; eauto. }
  specialize (H t2 ltac:(apply in_seq; lia)). cbn in H. rewrite Tt, Hk, Z.eqb_refl, Hl in H.
  apply orb_true_iff in H as [H|H]; [apply Nat.eqb_eq in H; contradiction|discriminate].
Qed.

(* ================================================================== *)
(* insert-only programs (no ClearKey)                                 *)
(* ================================================================== *)
Section io.
Variables (progs : list (list call)) (sched : list (nat * Z)).
Hypothesis Hp : io_progs progs.
Hypothesis Hd : disc_from (init_config 1 progs) sched.
Let c := run_schedule (init_config 1 progs) sched.

(* the Try* step is always enabled and completes the call with a boolean *)
Theorem try_step_enabled t ch f : top_frame c t = Some f -> is_try (f_pc f) = true ->
  exists c' b, step c t ch = Some c' /\ completed (c_hist c') = completed (c_hist c) ++ [(t, f_call f, RBool b)].
Proof.
  intros Tt Htry.
  assert (Hpl : is_post_label (f_pc f) = true) by (destruct (f_pc f); try discriminate; reflexivity).
  pose proof (post_step c t ch f (IOInv_reachable progs sched Hp) (disciplined_no_panic progs sched Hp Hd) Tt Hpl) as Hps.
  pose proof (try_never_blocks (c_um c) f Htry) as Hne.
  destruct (step_post (c_um c) f) as [[[um' o]|k]|] eqn:Hsp; [| |congruence].
  - destruct Hps as (c' & r & Hs & -> & _ & _ & Hc). exists c'.
    assert (exists b, r = RBool b) as [b ->].
    { unfold step_post in Hsp. destruct (f_pc f); try discriminate Htry; repeat case_match; simplify_eq; eauto. }
    eauto.
  - exfalso. unfold step_post in Hsp. destruct (f_pc f); try discriminate Htry; repeat case_match; simplify_eq.
Qed.

Hypothesis Hfr : fresh_values progs.

Theorem trylock_succeeds_when_key_free t ch c' f :
  top_frame c t = Some f -> (f_pc f = KM_TryLock \/ f_pc f = KRW_TryLock) ->
  (forall t2 b, (t2, key_of (f_call f), b) ∉ holders c) -> quiet c t (key_of (f_call f)) ->
  step c t ch = Some c' ->
  completed (c_hist c') = completed (c_hist c) ++ [(t, f_call f, RBool true)] /\ holds_excl c' t (key_of (f_call f)).
Proof. intros Tt Hpc Hfree _ Hs. exact (trylock_succeeds_when_key_free_machine progs sched t ch c' f Hp Hfr Hd Tt Hpc Hfree Hs). Qed.

Theorem tryrlock_succeeds_when_key_not_write_held t ch c' f :
  top_frame c t = Some f -> f_pc f = KRW_TryRLock ->
  (forall t2, ~ holds_excl c t2 (key_of (f_call f))) -> quiet c t (key_of (f_call f)) ->
  step c t ch = Some c' ->
  completed (c_hist c') = completed (c_hist c) ++ [(t, f_call f, RBool true)] /\ holds_shared c' t (key_of (f_call f)).
Proof. intros Tt Hpc Hfree _ Hs. exact (tryrlock_succeeds_when_key_not_write_held_machine progs sched t ch c' f Hp Hfr Hd Tt Hpc Hfree Hs). Qed.

Theorem lock_succeeds_when_key_free t ch f :
  top_frame c t = Some f -> (f_pc f = KM_Lock \/ f_pc f = KRW_Lock) ->
  (forall t2 b, (t2, key_of (f_call f), b) ∉ holders c) -> quiet c t (key_of (f_call f)) ->
  exists c', step c t ch = Some c' /\ completed (c_hist c') = completed (c_hist c) ++ [(t, f_call f, RUnit)] /\
             holds_excl c' t (key_of (f_call f)).
Proof. intros Tt Hpc Hfree _. exact (lock_succeeds_when_key_free_machine progs sched t ch f Hp Hfr Hd Tt Hpc Hfree). Qed.

Theorem rlock_succeeds_when_key_not_write_held t ch f :
  top_frame c t = Some f -> f_pc f = KRW_RLock ->
  (forall t2, ~ holds_excl c t2 (key_of (f_call f))) -> quiet c t (key_of (f_call f)) ->
  exists c', step c t ch = Some c' /\ completed (c_hist c') = completed (c_hist c) ++ [(t, f_call f, RUnit)] /\
             holds_shared c' t (key_of (f_call f)).
Proof. intros Tt Hpc Hfree _. exact (rlock_succeeds_when_key_not_write_held_machine progs sched t ch f Hp Hfr Hd Tt Hpc Hfree). Qed.

(* What a thread can wait for: m.mu in the hands of another thread, or - at the blocking Lock / RLock step of
   a call on k - key k itself: k held incompatibly, or (in Go; never the reason in the queue-less machine)
   k contended, i.e. another thread operating on or queued at k's mutex. No other key occurs. *)
Theorem blocked_only_by_mu_or_own_key t f i :
  c_insts c = [i] -> top_frame c t = Some f -> (forall ch, step c t ch = None) ->
  (is_lock_label (f_pc f) = true /\ exists t', t' <> t /\ i_mu i = Some t') \/
  ((f_pc f = KM_Lock \/ f_pc f = KRW_Lock) /\
     ((exists t2 b, (t2, key_of (f_call f), b) ∈ holders c) \/ ~ quiet c t (key_of (f_call f)))) \/
  (f_pc f = KRW_RLock /\ ((exists t2, holds_excl c t2 (key_of (f_call f))) \/ ~ quiet c t (key_of (f_call f)))).
Proof.
  intros Hi Tt Hb. destruct (blocked_only_by_mu_or_own_key_machine progs sched t f i Hp Hfr Hd Hi Tt Hb) as [H|[[H1 H2]|[H1 H2]]]; auto.
Qed.
End io.

(* ================================================================== *)
(* with ClearKey                                                      *)
(* ================================================================== *)
Section ck.
Variables (progs : list (list call)) (sched : list (nat * Z)).
Hypothesis Hp : ck_progs progs.
Hypothesis Hd : disc2_from (init_config 1 progs) sched.
Let c := run_schedule (init_config 1 progs) sched.

Theorem ck_try_step_enabled t ch f : top_frame c t = Some f -> is_try (f_pc f) = true ->
  exists c' b, step c t ch = Some c' /\ completed (c_hist c') = completed (c_hist c) ++ [(t, f_call f, RBool b)].
Proof.
  intros Tt Htry.
  assert (Hpl : is_post_label (f_pc f) = true) by (destruct (f_pc f); try discriminate; reflexivity).
  destruct (CK_reach progs sched Hp Hd) as (HCK & _ & Hnp).
  pose proof (ck_post_step c t ch f HCK Hnp Tt Hpl) as Hps.
  pose proof (try_never_blocks (c_um c) f Htry) as Hne.
  destruct (step_post (c_um c) f) as [[[um' o]|k]|] eqn:Hsp; [| |congruence].
  - destruct Hps as (c' & r & Hs & -> & _ & _ & Hc). exists c'.
    assert (exists b, r = RBool b) as [b ->].
    { unfold step_post in Hsp. destruct (f_pc f); try discriminate Htry; repeat case_match; simplify_eq; eauto. }
    eauto.
  - exfalso. unfold step_post in Hsp. destruct (f_pc f); try discriminate Htry; repeat case_match; simplify_eq.
Qed.

Hypothesis Hfr : fresh_values progs.

Theorem ck_trylock_succeeds_when_key_free t ch c' f :
  top_frame c t = Some f -> (f_pc f = KM_TryLock \/ f_pc f = KRW_TryLock) ->
  (forall t2 b, (t2, key_of (f_call f), b) ∉ holders c) -> quiet c t (key_of (f_call f)) ->
  step c t ch = Some c' ->
  completed (c_hist c') = completed (c_hist c) ++ [(t, f_call f, RBool true)] /\ holds_excl c' t (key_of (f_call f)).
Proof. intros Tt Hpc Hfree _ Hs. exact (ck_trylock_succeeds_when_key_free_machine progs sched Hp Hd Hfr t ch c' f Tt Hpc Hfree Hs). Qed.

Theorem ck_tryrlock_succeeds_when_key_not_write_held t ch c' f :
  top_frame c t = Some f -> f_pc f = KRW_TryRLock ->
  (forall t2, ~ holds_excl c t2 (key_of (f_call f))) -> quiet c t (key_of (f_call f)) ->
  step c t ch = Some c' ->
  completed (c_hist c') = completed (c_hist c) ++ [(t, f_call f, RBool true)] /\ holds_shared c' t (key_of (f_call f)).
Proof. intros Tt Hpc Hfree _ Hs. exact (ck_tryrlock_succeeds_when_key_not_write_held_machine progs sched Hp Hd Hfr t ch c' f Tt Hpc Hfree Hs). Qed.

Theorem ck_lock_succeeds_when_key_free t ch f :
  top_frame c t = Some f -> (f_pc f = KM_Lock \/ f_pc f = KRW_Lock) ->
  (forall t2 b, (t2, key_of (f_call f), b) ∉ holders c) -> quiet c t (key_of (f_call f)) ->
  exists c', step c t ch = Some c' /\ completed (c_hist c') = completed (c_hist c) ++ [(t, f_call f, RUnit)] /\
             holds_excl c' t (key_of (f_call f)).
Proof. intros Tt Hpc Hfree _. exact (ck_lock_succeeds_when_key_free_machine progs sched Hp Hd Hfr t ch f Tt Hpc Hfree). Qed.

Theorem ck_rlock_succeeds_when_key_not_write_held t ch f :
  top_frame c t = Some f -> f_pc f = KRW_RLock ->
  (forall t2, ~ holds_excl c t2 (key_of (f_call f))) -> quiet c t (key_of (f_call f)) ->
  exists c', step c t ch = Some c' /\ completed (c_hist c') = completed (c_hist c) ++ [(t, f_call f, RUnit)] /\
             holds_shared c' t (key_of (f_call f)).
Proof. intros Tt Hpc Hfree _. exact (ck_rlock_succeeds_when_key_not_write_held_machine progs sched Hp Hd Hfr t ch f Tt Hpc Hfree). Qed.
End ck.

(* ---- non-vacuity: a TryLockKey(7) and a LockKey(7); UnlockKey(7) ---- *)
Definition un_ex_progs : list (list call) :=
  [[CLoadOrStore 0 7 1001 PTryLock]; [CLoadOrStore 0 7 2001 PLock; CLoadOrStore 0 7 2002 PUnlock]].
(* A: thread 1 is through; thread 0 stands at its TryLock step: key 7 free and quiet *)
Definition un_ex_schedA : list (nat * Z) := repeat (1%nat, 0%Z) 20 ++ repeat (0%nat, 0%Z) 2.
(* B: both stand at their mutex step: key 7 free but NOT quiet for thread 0 (thread 1 stands at KM_Lock) *)
Definition un_ex_schedB : list (nat * Z) := repeat (1%nat, 0%Z) 6 ++ repeat (0%nat, 0%Z) 6.
Definition un_ex_obs (c : config) := (map thread_label (c_threads c), holders c, quietb c 0 7).

Lemma un_ex_progs_io : io_progs un_ex_progs.
Proof. repeat constructor. Qed.
Lemma un_ex_progs_fresh : fresh_values un_ex_progs.
Proof.
  intros c1 c2 H1 H2. cbn in H1, H2.
  destruct H1 as [<-|[<-|[<-|[]]]], H2 as [<-|[<-|[<-|[]]]]; cbn; reflexivity.
Qed.

(* ---- RW examples: a reader holds key 7; a TryRLockKey, a (writer's) LockKey and an RLockKey of key 7 ---- *)
Definition rw_ex_progs : list (list call) :=
  [[CLoadOrStore 0 7 1001 PRLock]; [CLoadOrStore 0 7 2001 PTryRLock]; [CLoadOrStore 0 7 3001 PWLock]; [CLoadOrStore 0 7 4001 PRLock]].
Definition rw_ex_run (l : list (nat * nat)) : config :=
  run_schedule (init_config 1 rw_ex_progs) (concat (map (fun tn => repeat (tn.1, 0%Z) tn.2) l)).
Definition rw_ex_obs (c : config) := (map thread_label (c_threads c), holders c, map_to_list (c_um c)).
Lemma rw_ex_progs_io : io_progs rw_ex_progs.
Proof. repeat constructor. Qed.
Lemma rw_ex_progs_fresh : fresh_values rw_ex_progs.
Proof.
  intros c1 c2 H1 H2. cbn in H1, H2.
  destruct H1 as [<-|[<-|[<-|[<-|[]]]]], H2 as [<-|[<-|[<-|[<-|[]]]]]; cbn; reflexivity.
Qed.

(* ---- with ClearKey: thread 0 holds key 7 exclusively (and will clear it later); the others stand at the
   TryRLock / RLock / TryLock / Lock step of key 7 ---- *)
Definition ckw_ex_progs : list (list call) :=
  [[CLoadOrStore 0 7 1001 PWLock; CLoadOrStore 0 7 1002 PWUnlock; CDelete 0 7]; [CLoadOrStore 0 7 2001 PTryRLock];
   [CLoadOrStore 0 7 3001 PRLock]; [CLoadOrStore 0 7 4001 PWTryLock]; [CLoadOrStore 0 7 5001 PWLock]].
Definition ckw_ex_sched : list (nat * Z) :=
  repeat (0%nat, 0%Z) 7 ++ repeat (1%nat, 0%Z) 6 ++ repeat (2%nat, 0%Z) 2 ++ repeat (3%nat, 0%Z) 2 ++ repeat (4%nat, 0%Z) 2.
Lemma ckw_ex_progs_ok : ck_progs ckw_ex_progs.
Proof. repeat constructor. Qed.

Lemma ck_ex_progs_fresh : fresh_values ck_ex_progs.
Proof.
  intros c1 c2 H1 H2. cbn in H1, H2.
  destruct H1 as [<-|[<-|[<-|[<-|[<-|[<-|[]]]]]]], H2 as [<-|[<-|[<-|[<-|[<-|[<-|[]]]]]]]; cbn; try reflexivity; discriminate.
Qed.
