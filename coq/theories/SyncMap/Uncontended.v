(* "Free AND UNCONTENDED" (C09): the key-level theorems about acquisitions that
   succeed, as statements about the real sync.Mutex / sync.RWMutex.

   The trusted mutex machine of SyncMap/Model.v ([umutex], [step_post]) has no
   queue of waiters: in it RLock proceeds and TryRLock succeeds whenever the
   mutex is not write-LOCKED, and TryLock succeeds whenever it is free. Go's
   sync.RWMutex additionally refuses new readers (RLock blocks, TryRLock returns
   false) while a writer is WAITING inside Lock, and sync.Mutex.TryLock may fail
   on a free mutex that has queued waiters (starvation mode). The property says
   "succeed when the key is free and uncontended", so the theorems about
   succeeding acquisitions carry the hypothesis [uncontended c t k]: no OTHER
   thread stands at the blocking Lock / RLock step (KM_Lock, KRW_Lock,
   KRW_RLock) of a call on the same key, i.e. nobody can be queued inside the
   key's mutex. The [_machine] theorems of InsertOnly.v / ClearKey.v /
   Progress.v (no such hypothesis) are facts about the abstract machine only and
   are not exported as property theorems.
   The theorems about FAILING / WAITING acquisitions and mutual exclusion need
   no such hypothesis: a queue only ever makes the real mutex refuse more. *)
From Typ Require Import SyncMap.Model SyncMap.Inv SyncMap.KeyedMutex SyncMap.InsertOnly SyncMap.Progress SyncMap.ClearKey.

Definition lock_wait_label (l : label) : bool := match l with KM_Lock | KRW_Lock | KRW_RLock => true | _ => false end.

(* thread t2 stands at the blocking Lock / RLock step of a call on key k *)
Definition awaits (c : config) (t2 : nat) (k : Z) : Prop :=
  exists f, top_frame c t2 = Some f /\ key_of (f_call f) = k /\ lock_wait_label (f_pc f) = true.
(* nobody but t does *)
Definition uncontended (c : config) (t : nat) (k : Z) : Prop := forall t2, t2 <> t -> ~ awaits c t2 k.

Definition uncontendedb (c : config) (t : nat) (k : Z) : bool :=
  forallb (fun t2 => Nat.eqb t2 t ||
             match top_frame c t2 with
             | Some f => negb (Z.eqb (key_of (f_call f)) k && lock_wait_label (f_pc f))
             | None => true
             end) (seq 0 (length (c_threads c))).

Lemma uncontendedb_ok c t k : uncontendedb c t k = true -> uncontended c t k.
Proof.
  unfold uncontendedb. rewrite forallb_forall. intros H t2 N (f & Tt & Hk & Hl).
  assert (Hlt : t2 < length (c_threads c)).
  { unfold top_frame in Tt. destruct (nth_error (c_threads c) t2) eqn:E; [|discriminate]. eapply nth_error_lt; eauto. }
  specialize (H t2 ltac:(apply in_seq; lia)). cbn in H. rewrite Tt, Hk, Z.eqb_refl, Hl in H.
  apply orb_true_iff in H as [H|H]; [apply Nat.eqb_eq in H; contradiction|discriminate].
Qed.

(* ================================================================== *)
(* insert-only programs (no ClearKey)                                 *)
(* ================================================================== *)
Section io.
Variables (progs : list (list call)) (sched : list (nat * Z)).
Hypothesis Hp : io_progs progs.
Hypothesis Hd : disc_from (init_config 1 progs) sched.
Let c := run_schedule (init_config 1 progs) sched.

(* the Try* step is always enabled and completes the call with a boolean *)
Theorem try_step_enabled t ch f : top_frame c t = Some f -> is_try (f_pc f) = true ->
  exists c' b, step c t ch = Some c' /\ completed (c_hist c') = completed (c_hist c) ++ [(t, f_call f, RBool b)].
Proof.
  intros Tt Htry.
  assert (Hpl : is_post_label (f_pc f) = true) by (destruct (f_pc f); try discriminate; reflexivity).
  pose proof (post_step c t ch f (IOInv_reachable progs sched Hp) (disciplined_no_panic progs sched Hp Hd) Tt Hpl) as Hps.
  pose proof (try_never_blocks (c_um c) f Htry) as Hne.
  destruct (step_post (c_um c) f) as [[[um' o]|k]|] eqn:Hsp; [| |congruence].
  - destruct Hps as (c' & r & Hs & -> & _ & _ & Hc). exists c'.
    assert (exists b, r = RBool b) as [b ->].
    { unfold step_post in Hsp. destruct (f_pc f); try discriminate Htry; repeat case_match; simplify_eq; eauto. }
    eauto.
  - exfalso. unfold step_post in Hsp. destruct (f_pc f); try discriminate Htry; repeat case_match; simplify_eq.
Qed.

Hypothesis Hfr : fresh_values progs.

Theorem trylock_succeeds_when_key_free t ch c' f :
  top_frame c t = Some f -> (f_pc f = KM_TryLock \/ f_pc f = KRW_TryLock) ->
  (forall t2 b, (t2, key_of (f_call f), b) ∉ holders c) -> uncontended c t (key_of (f_call f)) ->
  step c t ch = Some c' ->
  completed (c_hist c') = completed (c_hist c) ++ [(t, f_call f, RBool true)] /\ holds_excl c' t (key_of (f_call f)).
Proof. intros Tt Hpc Hfree _ Hs. exact (trylock_succeeds_when_key_free_machine progs sched t ch c' f Hp Hfr Hd Tt Hpc Hfree Hs). Qed.

Theorem tryrlock_succeeds_when_key_not_write_held t ch c' f :
  top_frame c t = Some f -> f_pc f = KRW_TryRLock ->
  (forall t2, ~ holds_excl c t2 (key_of (f_call f))) -> uncontended c t (key_of (f_call f)) ->
  step c t ch = Some c' ->
  completed (c_hist c') = completed (c_hist c) ++ [(t, f_call f, RBool true)] /\ holds_shared c' t (key_of (f_call f)).
Proof. intros Tt Hpc Hfree _ Hs. exact (tryrlock_succeeds_when_key_not_write_held_machine progs sched t ch c' f Hp Hfr Hd Tt Hpc Hfree Hs). Qed.

Theorem lock_succeeds_when_key_free t ch f :
  top_frame c t = Some f -> (f_pc f = KM_Lock \/ f_pc f = KRW_Lock) ->
  (forall t2 b, (t2, key_of (f_call f), b) ∉ holders c) -> uncontended c t (key_of (f_call f)) ->
  exists c', step c t ch = Some c' /\ completed (c_hist c') = completed (c_hist c) ++ [(t, f_call f, RUnit)] /\
             holds_excl c' t (key_of (f_call f)).
Proof. intros Tt Hpc Hfree _. exact (lock_succeeds_when_key_free_machine progs sched t ch f Hp Hfr Hd Tt Hpc Hfree). Qed.

Theorem rlock_succeeds_when_key_not_write_held t ch f :
  top_frame c t = Some f -> f_pc f = KRW_RLock ->
  (forall t2, ~ holds_excl c t2 (key_of (f_call f))) -> uncontended c t (key_of (f_call f)) ->
  exists c', step c t ch = Some c' /\ completed (c_hist c') = completed (c_hist c) ++ [(t, f_call f, RUnit)] /\
             holds_shared c' t (key_of (f_call f)).
Proof. intros Tt Hpc Hfree _. exact (rlock_succeeds_when_key_not_write_held_machine progs sched t ch f Hp Hfr Hd Tt Hpc Hfree). Qed.

(* What a thread can wait for: m.mu in the hands of another thread, or - at the blocking Lock / RLock step of
   a call on k - key k itself: k held incompatibly, or (in Go; never the reason in the queue-less machine)
   k contended, i.e. another thread queued at k's mutex. No other key occurs. *)
Theorem blocked_only_by_mu_or_own_key t f i :
  c_insts c = [i] -> top_frame c t = Some f -> (forall ch, step c t ch = None) ->
  (is_lock_label (f_pc f) = true /\ exists t', t' <> t /\ i_mu i = Some t') \/
  ((f_pc f = KM_Lock \/ f_pc f = KRW_Lock) /\
     ((exists t2 b, (t2, key_of (f_call f), b) ∈ holders c) \/ ~ uncontended c t (key_of (f_call f)))) \/
  (f_pc f = KRW_RLock /\ ((exists t2, holds_excl c t2 (key_of (f_call f))) \/ ~ uncontended c t (key_of (f_call f)))).
Proof.
  intros Hi Tt Hb. destruct (blocked_only_by_mu_or_own_key_machine progs sched t f i Hp Hfr Hd Hi Tt Hb) as [H|[[H1 H2]|[H1 H2]]]; auto.
Qed.
End io.

(* ================================================================== *)
(* with ClearKey                                                      *)
(* ================================================================== *)
Section ck.
Variables (progs : list (list call)) (sched : list (nat * Z)).
Hypothesis Hp : ck_progs progs.
Hypothesis Hd : disc2_from (init_config 1 progs) sched.
Let c := run_schedule (init_config 1 progs) sched.

Theorem ck_try_step_enabled t ch f : top_frame c t = Some f -> is_try (f_pc f) = true ->
  exists c' b, step c t ch = Some c' /\ completed (c_hist c') = completed (c_hist c) ++ [(t, f_call f, RBool b)].
Proof.
  intros Tt Htry.
  assert (Hpl : is_post_label (f_pc f) = true) by (destruct (f_pc f); try discriminate; reflexivity).
  destruct (CK_reach progs sched Hp Hd) as (HCK & _ & Hnp).
  pose proof (ck_post_step c t ch f HCK Hnp Tt Hpl) as Hps.
  pose proof (try_never_blocks (c_um c) f Htry) as Hne.
  destruct (step_post (c_um c) f) as [[[um' o]|k]|] eqn:Hsp; [| |congruence].
  - destruct Hps as (c' & r & Hs & -> & _ & _ & Hc). exists c'.
    assert (exists b, r = RBool b) as [b ->].
    { unfold step_post in Hsp. destruct (f_pc f); try discriminate Htry; repeat case_match; simplify_eq; eauto. }
    eauto.
  - exfalso. unfold step_post in Hsp. destruct (f_pc f); try discriminate Htry; repeat case_match; simplify_eq.
Qed.

Hypothesis Hfr : fresh_values progs.

Theorem ck_trylock_succeeds_when_key_free t ch c' f :
  top_frame c t = Some f -> (f_pc f = KM_TryLock \/ f_pc f = KRW_TryLock) ->
  (forall t2 b, (t2, key_of (f_call f), b) ∉ holders c) -> uncontended c t (key_of (f_call f)) ->
  step c t ch = Some c' ->
  completed (c_hist c') = completed (c_hist c) ++ [(t, f_call f, RBool true)] /\ holds_excl c' t (key_of (f_call f)).
Proof. intros Tt Hpc Hfree _ Hs. exact (ck_trylock_succeeds_when_key_free_machine progs sched Hp Hd Hfr t ch c' f Tt Hpc Hfree Hs). Qed.

Theorem ck_tryrlock_succeeds_when_key_not_write_held t ch c' f :
  top_frame c t = Some f -> f_pc f = KRW_TryRLock ->
  (forall t2, ~ holds_excl c t2 (key_of (f_call f))) -> uncontended c t (key_of (f_call f)) ->
  step c t ch = Some c' ->
  completed (c_hist c') = completed (c_hist c) ++ [(t, f_call f, RBool true)] /\ holds_shared c' t (key_of (f_call f)).
Proof. intros Tt Hpc Hfree _ Hs. exact (ck_tryrlock_succeeds_when_key_not_write_held_machine progs sched Hp Hd Hfr t ch c' f Tt Hpc Hfree Hs). Qed.

Theorem ck_lock_succeeds_when_key_free t ch f :
  top_frame c t = Some f -> (f_pc f = KM_Lock \/ f_pc f = KRW_Lock) ->
  (forall t2 b, (t2, key_of (f_call f), b) ∉ holders c) -> uncontended c t (key_of (f_call f)) ->
  exists c', step c t ch = Some c' /\ completed (c_hist c') = completed (c_hist c) ++ [(t, f_call f, RUnit)] /\
             holds_excl c' t (key_of (f_call f)).
Proof. intros Tt Hpc Hfree _. exact (ck_lock_succeeds_when_key_free_machine progs sched Hp Hd Hfr t ch f Tt Hpc Hfree). Qed.

Theorem ck_rlock_succeeds_when_key_not_write_held t ch f :
  top_frame c t = Some f -> f_pc f = KRW_RLock ->
  (forall t2, ~ holds_excl c t2 (key_of (f_call f))) -> uncontended c t (key_of (f_call f)) ->
  exists c', step c t ch = Some c' /\ completed (c_hist c') = completed (c_hist c) ++ [(t, f_call f, RUnit)] /\
             holds_shared c' t (key_of (f_call f)).
Proof. intros Tt Hpc Hfree _. exact (ck_rlock_succeeds_when_key_not_write_held_machine progs sched Hp Hd Hfr t ch f Tt Hpc Hfree). Qed.
End ck.

(* ---- non-vacuity: a TryLockKey(7) and a LockKey(7); UnlockKey(7) ---- *)
Definition un_ex_progs : list (list call) :=
  [[CLoadOrStore 0 7 1001 PTryLock]; [CLoadOrStore 0 7 2001 PLock; CLoadOrStore 0 7 2002 PUnlock]].
(* A: thread 1 is through; thread 0 stands at its TryLock step: key 7 free and uncontended *)
Definition un_ex_schedA : list (nat * Z) := repeat (1%nat, 0%Z) 20 ++ repeat (0%nat, 0%Z) 2.
(* B: both stand at their mutex step: key 7 free but CONTENDED for thread 0 (thread 1 stands at KM_Lock) *)
Definition un_ex_schedB : list (nat * Z) := repeat (1%nat, 0%Z) 6 ++ repeat (0%nat, 0%Z) 6.
Definition un_ex_obs (c : config) := (map thread_label (c_threads c), holders c, uncontendedb c 0 7).

Lemma un_ex_progs_io : io_progs un_ex_progs.
Proof. repeat constructor. Qed.
Lemma un_ex_progs_fresh : fresh_values un_ex_progs.
Proof.
  intros c1 c2 H1 H2. cbn in H1, H2.
  destruct H1 as [<-|[<-|[<-|[]]]], H2 as [<-|[<-|[<-|[]]]]; cbn; reflexivity.
Qed.
