(* The keyed mutexes WITH ClearKey (C09, last sentence): programs of
   LoadOrStore-based keyed-mutex calls, Loads and Deletes (= ClearKey) on one
   sync2.Map, under every schedule in which
   - a thread only unlocks what it holds,
   - a thread is inside ClearKey(k) only while nobody holds k and nobody else is
     inside a Lock/TryLock/Unlock/... call on k ("holds or awaits the key"),
   - a thread is inside such a call on k only while nobody is inside ClearKey(k)
   ([disc2_from], a condition on the thread the schedule picks, at every step).
   Proved: per-KEY mutual exclusion ([keyed_mutual_exclusion_clearkey]), the
   key's current mutex is locked while the key is held exclusively, such runs
   never panic, and (last part of the file) the key-level theorems of
   InsertOnly.v for TryLockKey / TryRLockKey / LockKey / RLockKey: they fail
   (wait) while the key is held incompatibly and succeed when it is free (the
   latter for fresh mutexes; [src2_reachable]: every value recorded for a key was
   put there by a LoadOrStore of that key).

   After ClearKey the next LockKey creates a NEW mutex for the key (see the
   example), so "one mutex per key" no longer holds across a ClearKey; what
   survives is: the mutex of a key does not change while the key is held or
   awaited. Method: [kmut s k] = the value of the entry recorded for k;
   [kmut_sf]: a step of a frame that is not a Delete of k keeps
   [kmut s k = Some m] (one pass over the labels, using the structural
   invariant of SyncMap/Inv.v and the entry-reference discipline [ref_inv] of
   SyncMap/SetAtomic.v); [cfi_sf]: the value a LoadOrStore k is about to return
   is [kmut s k]; the ghost list of holders and the mutex invariant [MInv] are
   those of SyncMap/InsertOnly.v. *)
From Typ Require Import SyncMap.Model SyncMap.Inv SyncMap.KeyedMutex SyncMap.InsertOnly SyncMap.SetAtomic.

(* programs: the keyed mutexes WITH ClearKey (= Delete on the map) *)
Definition ck_call (c : call) : Prop :=
  match c with CLoad i _ | CLoadOrStore i _ _ _ | CDelete i _ => i = 0%nat | _ => False end.
Definition ck_progs (progs : list (list call)) : Prop := Forall (Forall ck_call) progs.

Lemma ck_flat c : ck_call c -> flat_call c.
Proof. destruct c; cbn; tauto. Qed.

(* the entry kmut looks at *)
Definition klook (s : mstate) (k : Z) : option nat :=
  match read_m s !! k with Some e => Some e | None => dirty_lookup s k end.

Lemma kmut_klook s k : kmut s k = match klook s k with Some e => e_load s e | None => None end.
Proof. unfold kmut, klook. destruct (read_m s !! k); [reflexivity|]. destruct (dirty_lookup s k); reflexivity. Qed.

Lemma klook_reach s k e : klook s k = Some e -> reach_any s k e.
Proof. unfold klook. destruct (read_m s !! k) eqn:E; [intros [= <-]; left; exact E|intros H; right; exact H]. Qed.

Lemma kmut_Some s k m : kmut s k = Some m -> exists e, klook s k = Some e /\ get_ent s e = PVal m.
Proof.
  rewrite kmut_klook. destruct (klook s k) as [e|]; [|discriminate]. intros H. exists e. split; [reflexivity|].
  unfold e_load in H. destruct (get_ent s e); congruence.
Qed.

Lemma kmut_intro s k e m : klook s k = Some e -> get_ent s e = PVal m -> kmut s k = Some m.
Proof. intros H1 H2. rewrite kmut_klook, H1. unfold e_load. rewrite H2. reflexivity. Qed.

(* writing an entry that is not the one of k *)
Lemma kmut_set_ent s e p k m : kmut s k = Some m -> klook s k <> Some e -> kmut (set_ent s e p) k = Some m.
Proof.
  intros H N. apply kmut_Some in H as (e0 & H1 & H2). apply (kmut_intro _ _ e0); [exact H1|].
  rewrite get_ent_set_ent. destruct (decide (e0 = e)); [congruence|exact H2].
Qed.

(* ... in particular an entry that holds no value *)
Lemma kmut_set_ent_noval s e p k m : kmut s k = Some m -> (forall v, get_ent s e <> PVal v) -> kmut (set_ent s e p) k = Some m.
Proof.
  intros H N. apply kmut_set_ent; [exact H|]. apply kmut_Some in H as (e0 & H1 & H2). intros E. rewrite H1 in E.
  injection E as ->. eapply N; eauto.
Qed.

Lemma kmut_same_maps s s' k : read_m s' = read_m s -> dirty s' = dirty s -> ents s' = ents s -> kmut s' k = kmut s k.
Proof. intros H1 H2 H3. unfold kmut, dirty_lookup, e_load, get_ent. rewrite H1, H2, H3. reflexivity. Qed.

Lemma kmut_promote s k m : WF_core s -> WF_ad s -> dirty s <> None -> kmut s k = Some m ->
  kmut (MState (ents s) (next_e s) (default ∅ (dirty s)) false None 0) k = Some m.
Proof.
  intros Hc [Hcov _] Hd H. apply kmut_Some in H as (e & H1 & H2).
  destruct (dirty s) as [d|] eqn:E; [|congruence]. apply (kmut_intro _ _ e); [|exact H2].
  unfold klook in *. cbn. destruct (read_m s !! k) as [e'|] eqn:Er.
  - injection H1 as ->. rewrite (Hcov d k e eq_refl Er). unfold is_exp. rewrite H2. reflexivity.
  - unfold dirty_lookup in H1. rewrite E in H1. rewrite H1. reflexivity.
Qed.

(* m.dirty[k'] = e' *)
Lemma kmut_dirty_insert s d k' e' k m : dirty s = Some d ->
  (read_m s !! k' = Some e' \/ (read_m s !! k' = None /\ d !! k' = None)) ->
  kmut s k = Some m ->
  kmut (MState (ents s) (next_e s) (read_m s) (amended s) (Some (<[k' := e']> d)) (misses s)) k = Some m.
Proof.
  intros Hd Hk H. apply kmut_Some in H as (e & H1 & H2). apply (kmut_intro _ _ e); [|exact H2].
  unfold klook, dirty_lookup in *. cbn. rewrite Hd in H1. destruct (read_m s !! k) as [e0|] eqn:Er; [exact H1|].
  destruct (decide (k = k')) as [->|N]; [|rewrite lookup_insert_ne by congruence; exact H1].
  destruct Hk as [Hk|[_ Hk]]; congruence.
Qed.

Lemma kmut_dirty_delete s k' k m : k <> k' -> kmut s k = Some m -> kmut (dirty_delete s k') k = Some m.
Proof.
  intros N H. apply kmut_Some in H as (e & H1 & H2). apply (kmut_intro _ _ e).
  - unfold klook, dirty_delete, dirty_lookup in *. destruct (dirty s) as [d|] eqn:E; [|rewrite E; exact H1]. cbn.
    destruct (read_m s !! k); [exact H1|]. rewrite lookup_delete_ne by congruence. exact H1.
  - unfold dirty_delete. destruct (dirty s); exact H2.
Qed.

(* a new entry: allocated at next_e, above every reachable entry *)
Lemma kmut_alloc s v k m rm am d ms : WF_core s ->
  kmut (MState (ents s) (next_e s) rm am d ms) k = Some m ->
  (forall e, klook (MState (ents s) (next_e s) rm am d ms) k = Some e -> e < next_e s) ->
  kmut (MState (<[next_e s := PVal v]> (ents s)) (S (next_e s)) rm am d ms) k = Some m.
Proof.
  intros Hc H Hb. apply kmut_Some in H as (e & H1 & H2). apply (kmut_intro _ _ e); [exact H1|].
  specialize (Hb e H1). unfold get_ent in *. cbn in *. rewrite lookup_insert_ne by lia. exact H2.
Qed.

Lemma kmut_misses s x k : kmut (st_with_misses s x) k = kmut s k.
Proof. reflexivity. Qed.

Lemma kmut_insert_new s d k' v am ms k m : WF_core s -> dirty s = Some d -> read_m s !! k' = None -> d !! k' = None ->
  kmut s k = Some m ->
  kmut (MState (<[next_e s := PVal v]> (ents s)) (S (next_e s)) (read_m s) am (Some (<[k' := next_e s]> d)) ms) k = Some m.
Proof.
  intros Hc Hd Hr Hk H. apply kmut_Some in H as (e & H1 & H2).
  assert (Hb : e < next_e s) by (eapply wf_bound; [exact Hc|apply klook_reach, H1]).
  assert (N : k <> k'). { intros ->. unfold klook, dirty_lookup in H1. rewrite Hr, Hd, Hk in H1. discriminate. }
  apply (kmut_intro _ _ e).
  - unfold klook, dirty_lookup in *. cbn. rewrite Hd in H1. destruct (read_m s !! k); [exact H1|].
    rewrite lookup_insert_ne by congruence. exact H1.
  - unfold get_ent in *. cbn. rewrite lookup_insert_ne by lia. exact H2.
Qed.

Lemma kmut_dirty_read s k m : dirty s = None -> kmut s k = Some m -> kmut (st_with_dirty s (Some ∅)) k = Some m.
Proof.
  intros Hd H. apply kmut_Some in H as (e & H1 & H2). apply (kmut_intro _ _ e); [|exact H2].
  unfold klook, dirty_lookup in *. cbn. rewrite Hd in H1. destruct (read_m s !! k); [exact H1|discriminate].
Qed.

Lemma not_klook_pod s k' e k : WF_core s -> pub_or_dead s k' e -> k' <> k -> klook s k <> Some e.
Proof.
  intros Hc [Hp|[_ Hu]] N H; apply klook_reach in H.
  - apply N. eapply wf_inj; [exact Hc|left; exact Hp|exact H].
  - exact (Hu k H).
Qed.
Lemma not_klook_priv s e k : priv s e -> klook s k <> Some e.
Proof. intros (_ & Hu & _) H. apply klook_reach in H. exact (Hu k H). Qed.

Lemma kmut_sf t i f ch i' o k m :
  ck_call (f_call f) -> InsertOnly.pc_ok (f_call f) (f_pc f) = true -> frame_ok f ->
  WF_core (i_st i) -> (in_cs f = true -> WFL (i_st i) f) -> ref_inv (i_st i) f ->
  step_frame t i f ch = Some (Ok (i', o)) ->
  kmut (i_st i) k = Some m -> (is_lad (f_call f) = true -> key_of (f_call f) <> k) ->
  kmut (i_st i') k = Some m.
Proof.
  intros Hck Hpc [He Hst Hdel Hpost] Hc Hcs [Hre Hrp] H Hk Hlad. unfold step_frame in H.
  destruct (f_call f) as [j kk|?|j kk v p| |j kk|] eqn:Hcall; try contradiction; cbn in Hck; subst j;
  destruct (f_pc f) eqn:Hl; try discriminate Hpc; try discriminate H; try (destruct p; discriminate Hpc);
    cbn [key_of val_of is_lad] in *.
  all: try (assert (Hin : in_cs f = true) by (unfold in_cs, cs_class; rewrite Hl; reflexivity);
            destruct (Hcs Hin) as [_ Hw]; unfold cs_class in Hw; rewrite Hl, ?Hcall in Hw; cbn [key_of] in Hw).
  all: unfold ref_e in Hre; unfold ref_prom in Hrp; rewrite Hl in Hre, Hrp; rewrite ?Hcall in Hre; cbn [key_of is_lad] in Hre.
  all: unfold expunge_done, tlos_done, bind, new_entry, dirty_insert in H; unfold after_miss, dirty_next, los_return in H;
    rewrite ?Hcall in H; cbn in H.
  all: repeat case_match; simplify_eq; cbn [i_st with_st fst snd put_ent]; try assumption.
  all: rewrite ?kmut_misses.
  all: try exact Hk.
  all: try (apply kmut_promote; auto; fail).
  all: try (apply kmut_set_ent_noval; [exact Hk|intros v0; unfold ent in *; congruence]).
  all: try (apply kmut_dirty_delete; [intros ->; apply Hlad; reflexivity|exact Hk]).
  all: try (destruct Hw as (Hw & Hd & Hrk); apply kmut_dirty_read; assumption).
  all: try (apply kmut_set_ent; [exact Hk|]; specialize (Hre _ eq_refl);
            first [apply not_klook_pod with (k' := kk); [exact Hc|exact Hre|apply Hlad; reflexivity]|apply not_klook_priv; exact Hre]).
  - destruct Hw as [Hw Hrk]. apply (kmut_dirty_insert (set_ent (i_st i) n PNil) g kk n); [exact H3|left; exact Hrk|].
    apply kmut_set_ent_noval; [exact Hk|intros v0; unfold ent in *; congruence].
  - match goal with Hd : dirty (i_st i) = Some ?g, Hr : read_m (i_st i) !! kk = None, Hdl : dirty_lookup (i_st i) kk = None |- _ =>
      unfold dirty_lookup in Hdl; rewrite Hd in Hdl; apply (kmut_insert_new (i_st i) g kk v true _ k m Hc Hd Hr Hdl Hk) end.
  - destruct Hw as [(L1 & L2 & L3 & d & L4 & L5 & L6) Hall]. rewrite L1.
    assert (Hdk : d !! kk = None). { destruct (d !! kk) as [e0|] eqn:E; [|reflexivity]. apply L6 in E as [_ E]. congruence. }
    assert (g = d) by congruence. subst g.
    apply (kmut_insert_new (i_st i) d kk v true _ k m Hc L4 L3 Hdk Hk).
  - destruct Hw as (vis & _ & _ & Hcur & (L1 & _)). rewrite L1 in Hcur.
    match goal with Hd : dirty (i_st i) = Some ?g |- _ => apply (kmut_dirty_insert (i_st i) g (f_curk f) n k m Hd (or_introl Hcur) Hk) end.
  - destruct Hw as (vis & _ & _ & Hcur & (L1 & _)). rewrite L1 in Hcur.
    match goal with Hd : dirty (i_st i) = Some ?g |- _ => apply (kmut_dirty_insert (i_st i) g (f_curk f) n k m Hd (or_introl Hcur) Hk) end.
  - destruct Hw as (vis & _ & _ & Hcur & (L1 & _)). rewrite L1 in Hcur.
    match goal with Hd : dirty (i_st i) = Some ?g |- _ => apply (kmut_dirty_insert (i_st i) g (f_curk f) n k m Hd (or_introl Hcur) Hk) end.
  - destruct Hw as (vis & _ & _ & Hcur & (L1 & _)). rewrite L1 in Hcur.
    match goal with Hd : dirty (i_st i) = Some ?g |- _ => apply (kmut_dirty_insert (i_st i) g (f_curk f) n k m Hd (or_introl Hcur) Hk) end.
Qed.

(* a LoadOrStore frame that knows its result: the result is the key's current mutex *)
Definition CFI (s : mstate) (f : frame) : Prop :=
  los_known f = true -> kmut s (key_of (f_call f)) = Some (f_los f).1.

Lemma kmut_put_val s e v k : klook s k = Some e -> kmut (set_ent s e (PVal v)) k = Some v.
Proof. intros H. apply (kmut_intro _ _ e); [exact H|]. rewrite get_ent_set_ent, decide_True by reflexivity. reflexivity. Qed.

Lemma pod_klook s k e : pub_or_dead s k e -> is_exp s e = false -> klook s k = Some e.
Proof. intros [H|[H _]] Hx; [unfold klook; rewrite H; reflexivity|congruence]. Qed.

Lemma cfi_sf t i f ch i' f' :
  ck_call (f_call f) -> InsertOnly.pc_ok (f_call f) (f_pc f) = true -> frame_ok f ->
  WF_core (i_st i) -> (in_cs f = true -> WFL (i_st i) f) -> ref_inv (i_st i) f -> CFI (i_st i) f ->
  step_frame t i f ch = Some (Ok (i', Continue f')) -> CFI (i_st i') f'.
Proof.
  intros Hck Hpc Hok Hc Hcs Href HF H.
  destruct (los_known f) eqn:Hlk.
  - (* the result is known already: the step keeps it *)
    assert (Hnl : is_lad (f_call f) = false).
    { unfold los_known in Hlk. destruct (f_call f); try contradiction; try reflexivity;
        destruct (f_pc f); try discriminate Hlk; discriminate Hpc. }
    pose proof (kmut_sf t i f ch i' _ _ _ Hck Hpc Hok Hc Hcs Href H (HF Hlk) ltac:(rewrite Hnl; discriminate)) as Hk.
    intros _. rewrite (sf_call _ _ _ _ _ _ H).
    replace (f_los f').1 with (f_los f).1; [exact Hk|].
    clear -H Hlk. unfold los_known in Hlk. unfold step_frame in H.
    destruct (f_pc f) eqn:Hl; try discriminate Hlk; try discriminate H;
      unfold los_return in H; repeat case_match; simplify_eq; reflexivity.
  - destruct Hok as [He Hst Hdel Hpost]. destruct Href as [Hre Hrp]. clear HF. unfold step_frame in H.
    destruct (f_call f) as [j kk|?|j kk v p| |j kk|] eqn:Hcall; try contradiction; cbn in Hck; subst j;
    destruct (f_pc f) eqn:Hl; try discriminate Hpc; try discriminate H; try (destruct p; discriminate Hpc);
      unfold los_known in Hlk; rewrite Hl, ?Hcall in Hlk; try discriminate Hlk;
      cbn [key_of val_of is_lad] in *.
    all: try (assert (Hin : in_cs f = true) by (unfold in_cs, cs_class; rewrite Hl; reflexivity);
              destruct (Hcs Hin) as [_ Hw]; unfold cs_class in Hw; rewrite Hl, ?Hcall in Hw; cbn [key_of] in Hw).
    all: unfold ref_e in Hre; unfold ref_prom in Hrp; rewrite Hl in Hre, Hrp; rewrite ?Hcall in Hre; cbn [key_of is_lad] in Hre.
    all: unfold expunge_done, tlos_done, bind, new_entry, dirty_insert in H; unfold after_miss, dirty_next, los_return in H;
      rewrite ?Hcall in H; cbn in H.
    all: repeat case_match; simplify_eq; unfold CFI, los_known; cbn; rewrite ?Hcall; cbn; try (intros; discriminate).
    all: intros _; rewrite ?kmut_misses; try specialize (Hre _ eq_refl).
    all: try match goal with Hx : ent _ ?n = PExpunged |- _ =>
           exfalso; first [destruct Hre as [_ Hre]; unfold is_exp, ent in *; rewrite Hx in Hre; discriminate
                          |destruct Hre as [_ Hre]; eapply wf_dirty_live in Hre; [|eassumption]; unfold is_exp, ent in *; rewrite Hx in Hre; discriminate] end.
    all: try match goal with Hx : ent _ ?n = PVal ?v0 |- kmut _ _ = Some ?v0 =>
           apply (kmut_intro _ _ n); [|exact Hx];
           first [apply pod_klook; [exact Hre|unfold is_exp, ent in *; rewrite Hx; reflexivity]
                 |destruct Hre as [Hre _]; unfold klook; rewrite Hre; reflexivity
                 |destruct Hre as [Hr1 Hr2]; unfold klook; rewrite Hr1; exact Hr2] end.
    all: try match goal with Hx : ent _ ?n = PNil |- kmut (set_ent _ ?n _) _ = _ =>
           apply kmut_put_val;
           first [apply pod_klook; [exact Hre|unfold is_exp, ent in *; rewrite Hx; reflexivity]
                 |destruct Hre as [Hre _]; unfold klook; rewrite Hre; reflexivity
                 |destruct Hre as [Hr1 Hr2]; unfold klook; rewrite Hr1; exact Hr2] end.
    + apply (kmut_intro _ _ (next_e (i_st i))).
      * unfold klook, dirty_lookup. cbn. match goal with Hr : read_m (i_st i) !! kk = None |- _ => rewrite Hr end. apply lookup_insert.
      * unfold get_ent. cbn. rewrite lookup_insert. reflexivity.
    + destruct Hw as [(L1 & L2 & L3 & _) _]. apply (kmut_intro _ _ (next_e (i_st i))).
      * unfold klook, dirty_lookup. cbn. rewrite L1, L3. apply lookup_insert.
      * unfold get_ent. cbn. rewrite lookup_insert. reflexivity.
Qed.

(* ================================================================== *)
(* configurations                                                     *)
(* ================================================================== *)
(* thread t2 is inside call cl (invoked, not yet returned) *)
Definition in_call (c : config) (t2 : nat) (cl : call) : Prop :=
  exists th, nth_error (c_threads c) t2 = Some th /\ cur_call th = Some cl.
Definition is_los (c : call) : bool := match c with CLoadOrStore _ _ _ _ => true | _ => false end.

(* Thread t, about to take a step, respects the contract of the keyed mutexes:
   - it only unlocks what it holds;
   - it is inside ClearKey(k) only while nobody holds k and nobody else is inside a Lock/TryLock/
     Unlock/... call on k ("awaits" k);
   - it is inside a Lock/... call on k only while nobody else is inside ClearKey(k). *)
Definition disciplined2 (c : config) (t : nat) : Prop :=
  disciplined c t /\
  forall f, top_frame c t = Some f ->
    if is_lad (f_call f) then
      (forall t2 b, (t2, key_of (f_call f), b) ∉ holders c) /\
      (forall t2 cl, t2 <> t -> in_call c t2 cl -> key_of cl = key_of (f_call f) -> is_los cl = false)
    else if is_los (f_call f) then
      (forall t2 cl, t2 <> t -> in_call c t2 cl -> key_of cl = key_of (f_call f) -> is_lad cl = false)
    else True.

Fixpoint disc2_from (c : config) (sched : list (nat * Z)) : Prop :=
  match sched with
  | [] => True
  | (t, ch) :: sched' => disciplined2 c t /\ disc2_from (default c (step c t ch)) sched'
  end.

Record CKInv (c : config) : Prop := {
  ck_inv : Inv c;
  ck_inv2 : Inv2 c;
  ck_shape : Shaped ck_call c;
  ck_pc : PcOK c;
  ck_hist : HistOK c;
  ck_fresh : forall t th f, nth_error (c_threads c) t = Some th -> t_stack th = [f] -> t_fresh th = true ->
             f = new_frame (f_call f);
  ck_inst : exists i, c_insts c = [i] /\ forall t f, top_frame c t = Some f -> CFI (i_st i) f
}.

Lemma CFI_new s c : CFI s (new_frame c).
Proof. unfold CFI, los_known. destruct c; cbn; discriminate. Qed.

Lemma CFI_new_false c : los_known (new_frame c) = false.
Proof. unfold los_known. destruct c; reflexivity. Qed.

Lemma los_known_los f : InsertOnly.pc_ok (f_call f) (f_pc f) = true -> los_known f = true -> is_los (f_call f) = true.
Proof.
  unfold los_known. intros Hpc H. destruct (f_call f); try reflexivity; destruct (f_pc f); try discriminate H; discriminate Hpc.
Qed.

Lemma ck_call_inst c : ck_call c -> call_inst c = 0%nat.
Proof. destruct c; cbn; try contradiction; auto. Qed.

Lemma fresh_set c c' t th' :
  t < length (c_threads c) -> c_threads c' = set_nth_list t th' (c_threads c) ->
  (forall t0 th f, nth_error (c_threads c) t0 = Some th -> t_stack th = [f] -> t_fresh th = true -> f = new_frame (f_call f)) ->
  (forall f, t_stack th' = [f] -> t_fresh th' = true -> f = new_frame (f_call f)) ->
  forall t0 th f, nth_error (c_threads c') t0 = Some th -> t_stack th = [f] -> t_fresh th = true -> f = new_frame (f_call f).
Proof.
  intros Hl E H1 H2 t0 th f. rewrite E. destruct (decide (t0 = t)) as [->|N].
  - rewrite nth_error_set_nth_list_eq by exact Hl. intros [= <-]. apply H2.
  - rewrite nth_error_set_nth_list_ne by auto. apply H1.
Qed.

Lemma fresh_next_call_frame prog res f :
  t_stack (next_call (Thread prog [] res false)) = [f] -> f = new_frame (f_call f).
Proof. unfold next_call. cbn. destruct prog as [|c prog]; cbn; [discriminate|]. intros [= <-]. destruct c; reflexivity. Qed.

Theorem CKInv_step c t ch c' : CKInv c -> disciplined2 c t -> step c t ch = Some c' -> CKInv c'.
Proof.
  intros [HI HI2 HS HP HH HF (i & Hi & Hcfi)] [_ Hd] Hstep.
  assert (HS0 : Shaped flat_call c) by (eapply Shaped_weaken; [apply ck_flat|exact HS]).
  pose proof (step_fstep _ _ _ _ HI HS0 Hstep) as Hfs.
  assert (HI' : Inv c') by (eapply Inv_step; eauto).
  assert (HI2' : Inv2 c') by exact (Inv2_step _ _ _ _ HI HI2 Hstep).
  assert (HS' : Shaped ck_call c') by exact (Shaped_fstep _ _ _ _ _ HI HS Hfs).
  assert (HP' : PcOK c') by exact (PcOK_fstep _ _ _ _ HP Hfs).
  destruct (hist_fstep _ _ _ _ HH Hfs) as [HH' _].
  assert (Hi0 : nth_error (c_insts c) 0 = Some i) by (rewrite Hi; reflexivity).
  destruct Hfs as [th f um' r Hth Hst Hpl Hsp|th f k Hth Hst Hpl Hsp|th f i0 i' f' Hth Hst Hpl Hi1 Hsf|th f i0 i' r Hth Hst Hpl Hi1 Hsf];
    (assert (Hl : t < length (c_threads c)) by (eapply nth_error_lt; eauto));
    (assert (Tt : top_frame c t = Some f) by (unfold top_frame; rewrite Hth, Hst; reflexivity)).
  - constructor; auto.
    + eapply fresh_set; eauto. intros f0 H0 _. eapply fresh_next_call_frame; eauto.
    + exists i. split; [exact Hi|]. intros t' f0. erewrite top_frame_set; [|exact Hl|reflexivity].
      destruct (decide (t' = t)) as [->|N]; [|apply Hcfi].
      intros H. apply top_frame_next_call in H as [c0 ->]. apply CFI_new.
  - constructor; auto.
    + eapply fresh_set; eauto. cbn. discriminate.
    + exists i. split; [exact Hi|]. intros t' f0. erewrite top_frame_set; [|exact Hl|reflexivity].
      destruct (decide (t' = t)) as [->|N]; [|apply Hcfi]. discriminate.
  - (* a step of the map *)
    assert (i0 = i) by congruence. subst i0.
    assert (Hck : ck_call (f_call f)). { destruct (HS t th Hth) as [_ Hs]. rewrite Hst in Hs. exact Hs. }
    assert (Hj : call_inst (f_call f) = 0) by (apply ck_call_inst, Hck).
    assert (Hcs : in_cs f = true -> WFL (i_st i) f) by (intros Hcs; apply (Inv_WFL c 0 i t f HI Hi0 Tt Hj Hcs)).
    assert (Href : ref_inv (i_st i) f) by (apply (i2_ref c HI2 t f i Tt); rewrite Hj; exact Hi0).
    assert (Hc : WF_core (i_st i)) by (apply (Inv_WF_core c 0 i HI Hi0)).
    assert (Hoth : forall t' f0, t' <> t -> top_frame c t' = Some f0 -> CFI (i_st i') f0).
    { intros t' f0 N T0 Hlk. pose proof (Hcfi t' f0 T0 Hlk) as Hk0.
      apply (kmut_sf t i f ch i' _ _ _ Hck (HP t f Tt) (inv_frames c HI t f Tt) Hc Hcs Href Hsf Hk0). intros Hlad E.
      specialize (Hd f Tt). rewrite Hlad in Hd. destruct Hd as [_ Hd].
      assert (Hlos : is_los (f_call f0) = true) by (apply los_known_los; [apply (HP t' f0 T0)|exact Hlk]).
      rewrite (Hd t' (f_call f0)) in Hlos; [discriminate|exact N| |symmetry; exact E].
      unfold top_frame in T0. destruct (nth_error (c_threads c) t') as [th0|] eqn:Hth0; [|discriminate].
      exists th0. split; [exact Hth0|]. destruct (HS t' th0 Hth0) as [_ Hs].
      destruct (t_stack th0) as [|f1 [|]] eqn:Hst0; try discriminate; try contradiction. cbn in T0. injection T0 as ->.
      unfold cur_call. rewrite Hst0. destruct (t_fresh th0) eqn:Hfr; [|reflexivity].
      exfalso. rewrite (HF t' th0 f0 Hth0 Hst0 Hfr) in Hlk. revert Hlk. apply not_true_iff_false. apply CFI_new_false. }
    constructor; auto.
    + eapply fresh_set; eauto. cbn. discriminate.
    + exists i'. split; [cbn; rewrite Hi; reflexivity|]. intros t' f0. erewrite top_frame_set; [|exact Hl|reflexivity].
      destruct (decide (t' = t)) as [->|N]; [|apply Hoth; exact N]. cbn. intros [= <-].
      apply (cfi_sf t i f ch i' f' Hck (HP t f Tt) (inv_frames c HI t f Tt) Hc Hcs Href (Hcfi t f Tt) Hsf).
  - (* ... returning *)
    assert (i0 = i) by congruence. subst i0.
    assert (Hck : ck_call (f_call f)). { destruct (HS t th Hth) as [_ Hs]. rewrite Hst in Hs. exact Hs. }
    assert (Hj : call_inst (f_call f) = 0) by (apply ck_call_inst, Hck).
    assert (Hcs : in_cs f = true -> WFL (i_st i) f) by (intros Hcs; apply (Inv_WFL c 0 i t f HI Hi0 Tt Hj Hcs)).
    assert (Href : ref_inv (i_st i) f) by (apply (i2_ref c HI2 t f i Tt); rewrite Hj; exact Hi0).
    assert (Hc : WF_core (i_st i)) by (apply (Inv_WF_core c 0 i HI Hi0)).
    assert (Hoth : forall t' f0, t' <> t -> top_frame c t' = Some f0 -> CFI (i_st i') f0).
    { intros t' f0 N T0 Hlk. pose proof (Hcfi t' f0 T0 Hlk) as Hk0.
      apply (kmut_sf t i f ch i' _ _ _ Hck (HP t f Tt) (inv_frames c HI t f Tt) Hc Hcs Href Hsf Hk0). intros Hlad E.
      specialize (Hd f Tt). rewrite Hlad in Hd. destruct Hd as [_ Hd].
      assert (Hlos : is_los (f_call f0) = true) by (apply los_known_los; [apply (HP t' f0 T0)|exact Hlk]).
      rewrite (Hd t' (f_call f0)) in Hlos; [discriminate|exact N| |symmetry; exact E].
      unfold top_frame in T0. destruct (nth_error (c_threads c) t') as [th0|] eqn:Hth0; [|discriminate].
      exists th0. split; [exact Hth0|]. destruct (HS t' th0 Hth0) as [_ Hs].
      destruct (t_stack th0) as [|f1 [|]] eqn:Hst0; try discriminate; try contradiction. cbn in T0. injection T0 as ->.
      unfold cur_call. rewrite Hst0. destruct (t_fresh th0) eqn:Hfr; [|reflexivity].
      exfalso. rewrite (HF t' th0 f0 Hth0 Hst0 Hfr) in Hlk. revert Hlk. apply not_true_iff_false. apply CFI_new_false. }
    constructor; auto.
    + eapply fresh_set; eauto. intros f0 H0 _. eapply fresh_next_call_frame; eauto.
    + exists i'. split; [cbn; rewrite Hi; reflexivity|]. intros t' f0. erewrite top_frame_set; [|exact Hl|reflexivity].
      destruct (decide (t' = t)) as [->|N]; [|apply Hoth; exact N].
      intros H. apply top_frame_next_call in H as [c0 ->]. apply CFI_new.
Qed.

(* ---- the mutex invariant (MInv of InsertOnly.v) along runs with ClearKey ---- *)
Lemma hold_step_not_los hs t c r : is_los c = false -> hold_step hs (t, c, r) = hs.
Proof. intros H. unfold hold_step. cbn [fst snd]. destruct c; try discriminate H; destruct r; reflexivity. Qed.

Lemma hold_step_rlos hs t c a l : hold_step hs (t, c, RLos a l) = hs.
Proof. apply hold_step_other; discriminate. Qed.

(* a map step: the mutexes of the held keys do not change *)
Lemma MInv_kmut c c' i i' :
  c_insts c = [i] -> c_insts c' = [i'] ->
  (forall h m, h ∈ holders c -> kmut (i_st i) h.1.2 = Some m -> kmut (i_st i') h.1.2 = Some m) ->
  c_um c' = c_um c -> holders c' = holders c -> MInv c -> MInv c'.
Proof.
  intros Hi Hi' Hst Hum Hh (i0 & Hi0 & Hk & Hm). assert (i0 = i) by congruence. subst i0.
  exists i'. split; [exact Hi'|]. rewrite Hh, Hum.
  assert (Hk' : Forall (fun h : hold => is_Some (kmut (i_st i') h.1.2)) (holders c)).
  { apply Forall_forall. intros h Hin. rewrite Forall_forall in Hk. destruct (Hk h Hin) as [m Hm0]. exists m.
    apply Hst; [apply elem_of_list_In, Hin|exact Hm0]. }
  split; [exact Hk'|]. intros m.
  rewrite (filter_ext_in (on_km (kmut (i_st i')) m) (on_km (kmut (i_st i)) m)); [apply Hm|].
  intros h Hin. rewrite Forall_forall in Hk. destruct (Hk h (proj1 (elem_of_list_In _ _) Hin)) as [m0 Hm0]. unfold on_km.
  rewrite Hm0, (Hst h m0 Hin Hm0). reflexivity.
Qed.

Lemma sf_ret_shape2 t i f ch i' r : step_frame t i f ch = Some (Ok (i', Return r)) ->
  (exists o, r = ROpt o) \/ (exists a l, r = RLos a l) \/ r = RUnit \/ (exists l n, r = RRange l n).
Proof.
  intros H. unfold step_frame in H.
  destruct (f_pc f) eqn:Hl;
    unfold expunge_done, tlos_done, bind in H; unfold after_miss, dirty_next, los_return, range_next in H;
    repeat case_match; simplify_eq; eauto 10.
Qed.

Lemma sf_ret_los t i f ch i' r : ck_call (f_call f) -> InsertOnly.pc_ok (f_call f) (f_pc f) = true ->
  step_frame t i f ch = Some (Ok (i', Return r)) -> is_los (f_call f) = true -> exists a l, r = RLos a l.
Proof.
  intros Hck Hpc H Hlos. unfold step_frame in H.
  destruct (f_call f) as [| |j k v p| | |] eqn:Hcall; try discriminate Hlos.
  destruct (f_pc f) eqn:Hl; try discriminate Hpc; try discriminate H; try (destruct p; discriminate Hpc);
    unfold expunge_done, tlos_done, bind in H; unfold after_miss, dirty_next, los_return in H;
    rewrite ?Hcall in H; repeat case_match; simplify_eq; eauto.
Qed.

Theorem MInv2_step c t ch c' : CKInv c -> MInv c -> disciplined2 c t -> step c t ch = Some c' -> MInv c'.
Proof.
  intros HCK HM Hd2 Hstep. pose proof (CKInv_step _ _ _ _ HCK Hd2 Hstep) as HCK'.
  destruct Hd2 as [Hd Hd2].
  destruct HCK as [HI HI2 HS HP HH HF (i & Hi & Hcfi)].
  assert (HS0 : Shaped flat_call c) by (eapply Shaped_weaken; [apply ck_flat|exact HS]).
  pose proof (step_fstep _ _ _ _ HI HS0 Hstep) as Hfs.
  assert (Hi0 : nth_error (c_insts c) 0 = Some i) by (rewrite Hi; reflexivity).
  destruct (ck_inst _ HCK') as (i2 & Hi2 & _).
  destruct Hfs as [th f um' r Hth Hst Hpl Hsp|th f k Hth Hst Hpl Hsp|th f i0 i' f' Hth Hst Hpl Hi1 Hsf|th f i0 i' r Hth Hst Hpl Hi1 Hsf];
    (assert (Tt : top_frame c t = Some f) by (unfold top_frame; rewrite Hth, Hst; reflexivity));
    (assert (P0 : t_fresh th = false -> pend_of (c_hist c) !! t = Some (f_call f)) by (eapply HistOK_pend; eauto));
    (assert (Hck : ck_call (f_call f)) by (destruct (HS t th Hth) as [_ Hs]; rewrite Hst in Hs; exact Hs)).
  - (* the step on the key's mutex *)
    destruct HM as (i0 & Hi0' & Hk & Hm). assert (i0 = i) by congruence. subst i0.
    assert (Hfo := fo_post _ (inv_frames c HI t f Tt) Hpl).
    destruct (f_call f) as [| |j k v p| | |] eqn:Hcall; try contradiction.
    specialize (HP t f Tt). rewrite Hcall in HP. pose proof (pc_ok_post_label _ _ _ _ _ HP Hpl) as Hpost.
    assert (Hkv : kmut (i_st i) k = Some (f_los f).1).
    { pose proof (Hcfi t f Tt) as HF2. unfold CFI in HF2. rewrite Hcall in HF2. apply HF2.
      unfold los_known. destruct (f_pc f); try discriminate; reflexivity. }
    assert (Hh : holders {| c_insts := c_insts c; c_um := um';
                  c_threads := set_nth_list t (next_call {| t_prog := t_prog th; t_stack := []; t_results := t_results th ++ [r]; t_fresh := false |}) (c_threads c);
                  c_hist := c_hist c ++ inv_ev t th f ++ [EvRes t r]; c_panicked := false |}
                = hold_step (holders c) (t, CLoadOrStore j k v p, r)).
    { unfold holders. cbn [c_hist]. unfold inv_ev. rewrite Hcall. fold (maybe_inv (t_fresh th) t (CLoadOrStore j k v p)).
      rewrite completed_ret by exact P0. rewrite holders_of_snoc. reflexivity. }
    exists i. split; [exact Hi|]. rewrite Hh. cbn [c_um]. split.
    + apply hold_step_Forall; [exact Hk|]. intros b. cbn. eauto.
    + eapply mutex_post; eauto.
      specialize (Hd f Tt). rewrite Hcall in Hd. cbn [key_of] in Hd. exact Hd.
  - (* ... panics *)
    destruct HM as (i0 & Hi0' & Hk & Hm). assert (i0 = i) by congruence. subst i0.
    exists i. split; [exact Hi|].
    assert (Hh : holders {| c_insts := c_insts c; c_um := c_um c;
                  c_threads := set_nth_list t {| t_prog := []; t_stack := []; t_results := t_results th ++ [RPanic k]; t_fresh := false |} (c_threads c);
                  c_hist := c_hist c ++ inv_ev t th f ++ [EvRes t (RPanic k)]; c_panicked := true |} = holders c).
    { unfold holders. cbn [c_hist]. unfold inv_ev. fold (maybe_inv (t_fresh th) t (f_call f)).
      rewrite completed_ret by exact P0. rewrite holders_of_snoc. apply hold_step_other; discriminate. }
    rewrite Hh. cbn [c_um]. auto.
  - (* map steps *)
    assert (i0 = i) by congruence. subst i0.
    assert (Hj : call_inst (f_call f) = 0) by (apply ck_call_inst, Hck).
    assert (Hstab : forall (h : hold) m, h ∈ holders c -> kmut (i_st i) h.1.2 = Some m -> kmut (i_st i') h.1.2 = Some m).
    { intros [[t2 k2] b2] m Hin Hk0. cbn in Hk0 |- *.
      apply (kmut_sf t i f ch i' _ _ _ Hck (HP t f Tt) (inv_frames c HI t f Tt) (Inv_WF_core c 0 i HI Hi0)
               (fun Hcs => proj2 (Inv_WFL c 0 i t f HI Hi0 Tt Hj Hcs))
               ltac:(apply (i2_ref c HI2 t f i Tt); rewrite Hj; exact Hi0) Hsf Hk0).
      intros Hlad E. specialize (Hd2 f Tt). rewrite Hlad in Hd2. destruct Hd2 as [Hd2 _]. apply (Hd2 t2 b2). rewrite E. exact Hin. }
    eapply MInv_kmut with (i := i) (i' := i'); [exact Hi|cbn; rewrite Hi; reflexivity|exact Hstab|reflexivity| |exact HM].
    unfold holders. cbn [c_hist]. unfold inv_ev. fold (maybe_inv (t_fresh th) t (f_call f)).
    rewrite completed_cont by exact P0. reflexivity.
  -
    assert (i0 = i) by congruence. subst i0.
    assert (Hj : call_inst (f_call f) = 0) by (apply ck_call_inst, Hck).
    assert (Hstab : forall (h : hold) m, h ∈ holders c -> kmut (i_st i) h.1.2 = Some m -> kmut (i_st i') h.1.2 = Some m).
    { intros [[t2 k2] b2] m Hin Hk0. cbn in Hk0 |- *.
      apply (kmut_sf t i f ch i' _ _ _ Hck (HP t f Tt) (inv_frames c HI t f Tt) (Inv_WF_core c 0 i HI Hi0)
               (fun Hcs => proj2 (Inv_WFL c 0 i t f HI Hi0 Tt Hj Hcs))
               ltac:(apply (i2_ref c HI2 t f i Tt); rewrite Hj; exact Hi0) Hsf Hk0).
      intros Hlad E. specialize (Hd2 f Tt). rewrite Hlad in Hd2. destruct Hd2 as [Hd2 _]. apply (Hd2 t2 b2). rewrite E. exact Hin. }
    eapply MInv_kmut with (i := i) (i' := i'); [exact Hi|cbn; rewrite Hi; reflexivity|exact Hstab|reflexivity| |exact HM].
    unfold holders. cbn [c_hist]. unfold inv_ev. fold (maybe_inv (t_fresh th) t (f_call f)).
    rewrite completed_ret by exact P0. rewrite holders_of_snoc.
    destruct (is_los (f_call f)) eqn:Hlos; [|apply hold_step_not_los, Hlos].
    destruct (sf_ret_los _ _ _ _ _ _ Hck (HP t f Tt) Hsf Hlos) as (a & l & ->).
    destruct (f_call f); try discriminate Hlos. apply hold_step_rlos.
Qed.

Theorem CKInv_init progs : ck_progs progs -> CKInv (init_config 1 progs).
Proof.
  intros Hp. constructor.
  - apply Inv_init.
  - apply Inv2_init.
  - apply Shaped_init, Hp.
  - apply PcOK_init.
  - apply HistOK_init.
  - intros t th f. cbn. rewrite nth_error_map. destruct (nth_error progs t) as [p|]; [|discriminate]. cbn.
    intros [= <-] Hst _. eapply fresh_next_call_frame; eauto.
  - exists empty_inst. split; [reflexivity|]. intros t f H. apply init_top in H as [c ->]. apply CFI_new.
Qed.

Theorem CK_run c sched : CKInv c -> MInv c -> disc2_from c sched ->
  CKInv (run_schedule c sched) /\ MInv (run_schedule c sched).
Proof.
  revert c. induction sched as [|[t ch] sched IH]; intros c HCK HM Hd; cbn; [auto|].
  destruct Hd as [Hd1 Hd2]. destruct (step c t ch) as [c'|] eqn:E; cbn in *; [|apply IH; assumption].
  apply IH; [eapply CKInv_step; eauto|eapply MInv2_step; eauto|exact Hd2].
Qed.

(* per-KEY mutual exclusion in runs WITH ClearKey, as far as the property claims it: ClearKey(k) only
   while nobody holds or awaits k *)
Theorem keyed_mutual_exclusion_clearkey progs sched : ck_progs progs -> disc2_from (init_config 1 progs) sched ->
  let c := run_schedule (init_config 1 progs) sched in
  forall k t1 t2, holds_excl c t1 k -> (holds_excl c t2 k -> t1 = t2) /\ ~ holds_shared c t2 k.
Proof.
  intros Hp Hd c k t1 t2 H1.
  destruct (CK_run _ sched (CKInv_init progs Hp) (MInv_init progs) Hd) as [_ HM].
  destruct (MInv_excl c t1 k HM H1) as [H _]. split.
  - intros H2. destruct (H t2 true H2). auto.
  - intros H2. destruct (H t2 false H2). discriminate.
Qed.

(* ... and the key's current mutex is locked while the key is held exclusively *)
Theorem keyed_holder_locks_mutex_clearkey progs sched : ck_progs progs -> disc2_from (init_config 1 progs) sched ->
  let c := run_schedule (init_config 1 progs) sched in
  forall k t, holds_excl c t k -> exists i m, c_insts c = [i] /\ kmut (i_st i) k = Some m /\ c_um c !! m = Some ULocked.
Proof.
  intros Hp Hd c k t H1.
  destruct (CK_run _ sched (CKInv_init progs Hp) (MInv_init progs) Hd) as [_ HM].
  apply (MInv_excl c t k HM H1).
Qed.

(* ---- a decidable form of the discipline, for examples ---- *)
Definition call_eqb_key_los (k : Z) (cl : call) : bool := Z.eqb (key_of cl) k && is_los cl.
Definition others_ok (c : config) (t : nat) (bad : call -> bool) : bool :=
  forallb (fun tth : nat * thread =>
             Nat.eqb tth.1 t || match cur_call tth.2 with Some cl => negb (bad cl) | None => true end)
          (imap pair (c_threads c)).

Definition disciplined2b (c : config) (t : nat) : bool :=
  disciplinedb c t &&
  match top_frame c t with
  | Some f =>
      let k := key_of (f_call f) in
      if is_lad (f_call f) then
        forallb (fun h : hold => negb (Z.eqb h.1.2 k)) (holders c) &&
        others_ok c t (fun cl => Z.eqb (key_of cl) k && is_los cl)
      else if is_los (f_call f) then others_ok c t (fun cl => Z.eqb (key_of cl) k && is_lad cl)
      else true
  | None => true
  end.

Lemma nth_error_list_lookup {X} (l : list X) n : nth_error l n = l !! n.
Proof. revert n. induction l as [|x l IH]; intros [|n]; cbn; auto. Qed.

Lemma others_ok_spec c t bad t2 cl : others_ok c t bad = true -> t2 <> t -> in_call c t2 cl -> bad cl = false.
Proof.
  unfold others_ok. rewrite forallb_forall. intros H N (th & Hth & Hc).
  assert (Hin : In (t2, th) (imap pair (c_threads c))).
  { apply elem_of_list_In, elem_of_lookup_imap. exists t2, th. split; [reflexivity|]. rewrite <- nth_error_list_lookup. exact Hth. }
  specialize (H _ Hin). cbn in H. rewrite Hc in H. apply orb_true_iff in H as [H|H].
  - apply Nat.eqb_eq in H. contradiction.
  - destruct (bad cl); [discriminate|reflexivity].
Qed.

Lemma disciplined2b_ok c t : disciplined2b c t = true -> disciplined2 c t.
Proof.
  unfold disciplined2b. intros H. apply andb_true_iff in H as [H1 H2]. split; [apply disciplinedb_ok, H1|].
  intros f Tt. rewrite Tt in H2. destruct (is_lad (f_call f)); [|destruct (is_los (f_call f)); [|exact I]].
  - apply andb_true_iff in H2 as [H2 H3]. split.
    + intros t2 b Hin. rewrite forallb_forall in H2. specialize (H2 _ (proj1 (elem_of_list_In _ _) Hin)). cbn in H2.
      rewrite Z.eqb_refl in H2. discriminate.
    + intros t2 cl N Hic Hk. pose proof (others_ok_spec _ _ _ _ _ H3 N Hic) as Hb. cbn in Hb.
      rewrite Hk, Z.eqb_refl in Hb. exact Hb.
  - intros t2 cl N Hic Hk. pose proof (others_ok_spec _ _ _ _ _ H2 N Hic) as Hb. cbn in Hb.
    rewrite Hk, Z.eqb_refl in Hb. exact Hb.
Qed.

Fixpoint disc2_fromb (c : config) (sched : list (nat * Z)) : bool :=
  match sched with
  | [] => true
  | (t, ch) :: sched' => disciplined2b c t && disc2_fromb (default c (step c t ch)) sched'
  end.
Lemma disc2_fromb_ok c sched : disc2_fromb c sched = true -> disc2_from c sched.
Proof.
  revert c. induction sched as [|[t ch] sched IH]; intros c H; cbn in *; [exact I|].
  apply andb_true_iff in H as [H1 H2]. split; [apply disciplined2b_ok, H1|apply IH, H2].
Qed.

(* ---- non-vacuity: ClearKey while another key is held; the key gets a new mutex afterwards ---- *)
Definition ck_ex_progs : list (list call) :=
  [[CLoadOrStore 0 7 1001 PLock; CLoadOrStore 0 7 1002 PUnlock; CDelete 0 7];
   [CLoadOrStore 0 8 3001 PLock; CLoadOrStore 0 7 2001 PLock; CLoadOrStore 0 7 2002 PUnlock]].
(* thread 1 locks key 8; thread 0 locks, unlocks and clears key 7; then thread 1 goes on (the choices 7, 8
   are the keys dirtyLocked's loop may visit) *)
Definition ck_ex_sched (n : nat) : list (nat * Z) :=
  repeat (1%nat, 0%Z) 7 ++ repeat (0%nat, 0%Z) 40 ++ concat (repeat [(1%nat, 7%Z); (1%nat, 8%Z)] n).
Definition ck_ex_obs (c : config) :=
  (map thread_label (c_threads c), holders c, map_to_list (c_um c),
   match c_insts c with [i] => (kmut (i_st i) 7, kmut (i_st i) 8) | _ => (None, None) end).

Lemma ck_ex_progs_ok : ck_progs ck_ex_progs.
Proof. repeat constructor. Qed.

Example clearkey_example :
  disc2_fromb (init_config 1 ck_ex_progs) (ck_ex_sched 30) = true /\
  (* thread 0 holds key 7 (mutex 1001) while thread 1 holds key 8 *)
  ck_ex_obs (run_schedule (init_config 1 ck_ex_progs) (repeat (1%nat, 0%Z) 7 ++ repeat (0%nat, 0%Z) 8)) =
    ([Some Tlos_load1; Some LOS_read1], [(1%nat, 8%Z, true); (0%nat, 7%Z, true)],
     [(1001%Z, ULocked); (3001%Z, ULocked)], (Some 1001%Z, Some 3001%Z)) /\
  (* after thread 0's UnlockKey(7); ClearKey(7): key 7 has no mutex *)
  ck_ex_obs (run_schedule (init_config 1 ck_ex_progs) (ck_ex_sched 0)) =
    ([None; Some LOS_read1], [(1%nat, 8%Z, true)], [(1001%Z, UFree); (3001%Z, ULocked)], (None, Some 3001%Z)) /\
  (* thread 1's LockKey(7) created the new mutex 2001 and holds it *)
  ck_ex_obs (run_schedule (init_config 1 ck_ex_progs) (ck_ex_sched 5)) =
    ([None; Some LOS_read1], [(1%nat, 8%Z, true); (1%nat, 7%Z, true)],
     [(2001%Z, ULocked); (1001%Z, UFree); (3001%Z, ULocked)], (Some 2001%Z, Some 3001%Z)) /\
  ck_ex_obs (run_schedule (init_config 1 ck_ex_progs) (ck_ex_sched 30)) =
    ([None; None], [(1%nat, 8%Z, true)], [(2001%Z, UFree); (1001%Z, UFree); (3001%Z, ULocked)], (Some 2001%Z, Some 3001%Z)).
Proof. vm_compute. repeat split. Qed.

Lemma reach_dirty_ins es ne rm am d ms k' e' k e :
  reach_any (MState es ne rm am (Some (<[k' := e']> d)) ms) k e ->
  rm !! k = Some e \/ (k = k' /\ e = e') \/ (k <> k' /\ d !! k = Some e).
Proof.
  intros [H|H]; cbn in H; [left; exact H|]. destruct (decide (k = k')) as [->|N].
  - rewrite lookup_insert in H. right. left. split; congruence.
  - rewrite lookup_insert_ne in H by congruence. right. right. auto.
Qed.
Lemma get_ent_ins es ne rm am d ms n p e :
  get_ent (MState (<[n := p]> es) ne rm am d ms) e = if decide (e = n) then p else default PNil (es !! e).
Proof. unfold get_ent. cbn. destruct (decide (e = n)) as [->|N]; [rewrite lookup_insert|rewrite lookup_insert_ne by congruence]; reflexivity. Qed.

Lemma new_val_insert s d kk v am ms rm k0 e0 m0 : WF_core s -> dirty s = Some d -> rm = read_m s ->
  reach_any (MState (<[next_e s := PVal v]> (ents s)) (S (next_e s)) rm am (Some (<[kk := next_e s]> d)) ms) k0 e0 ->
  get_ent (MState (<[next_e s := PVal v]> (ents s)) (S (next_e s)) rm am (Some (<[kk := next_e s]> d)) ms) e0 = PVal m0 ->
  (reach_any s k0 e0 /\ get_ent s e0 = PVal m0) \/ (k0 = kk /\ m0 = v).
Proof.
  intros Hc Hd -> Hr Hg. rewrite get_ent_ins in Hg.
  assert (Hold : reach_any s k0 e0 -> reach_any s k0 e0 /\ get_ent s e0 = PVal m0).
  { intros H. split; [exact H|]. pose proof (wf_bound _ Hc _ _ H). rewrite decide_False in Hg by lia. exact Hg. }
  apply reach_dirty_ins in Hr as [Hr|[[-> ->]|[_ Hr]]].
  - left. apply Hold. left. exact Hr.
  - right. rewrite decide_True in Hg by reflexivity. split; congruence.
  - left. apply Hold. right. unfold dirty_lookup. rewrite Hd. exact Hr.
Qed.

Lemma get_ent_misses s x e : get_ent (st_with_misses s x) e = get_ent s e.
Proof. reflexivity. Qed.

Lemma reach_dirty_delete s k' k e : reach_any (dirty_delete s k') k e -> reach_any s k e.
Proof.
  unfold dirty_delete. destruct (dirty s) as [d|] eqn:Hd; [|auto]. intros [H|H]; cbn in H; [left; exact H|].
  apply lookup_delete_Some in H as [_ H]. right. unfold dirty_lookup. rewrite Hd. exact H.
Qed.
Lemma get_ent_dirty_delete s k' e : get_ent (dirty_delete s k') e = get_ent s e.
Proof. unfold dirty_delete. destruct (dirty s); reflexivity. Qed.

(* ---- where values come from: every value reachable under key k was put there by a LoadOrStore k ---- *)
Lemma new_val_ck t i f ch i' o :
  ck_call (f_call f) -> InsertOnly.pc_ok (f_call f) (f_pc f) = true -> frame_ok f ->
  WF_core (i_st i) -> (in_cs f = true -> WFL (i_st i) f) -> ref_inv (i_st i) f ->
  step_frame t i f ch = Some (Ok (i', o)) ->
  forall k e m, reach_any (i_st i') k e -> get_ent (i_st i') e = PVal m ->
    (reach_any (i_st i) k e /\ get_ent (i_st i) e = PVal m) \/ (exists j v p, f_call f = CLoadOrStore j k v p /\ m = v).
Proof.
  intros Hck Hpc [He Hst Hdel Hpost] Hc Hcs [Hre Hrp] H. unfold step_frame in H.
  destruct (f_call f) as [j kk|?|j kk v p| |j kk|] eqn:Hcall; try contradiction; cbn in Hck; subst j;
  destruct (f_pc f) eqn:Hl; try discriminate Hpc; try discriminate H; try (destruct p; discriminate Hpc);
    cbn [key_of val_of is_lad] in *.
  all: try (assert (Hin : in_cs f = true) by (unfold in_cs, cs_class; rewrite Hl; reflexivity);
            destruct (Hcs Hin) as [_ Hw]; unfold cs_class in Hw; rewrite Hl, ?Hcall in Hw; cbn [key_of] in Hw).
  all: unfold ref_e in Hre; unfold ref_prom in Hrp; rewrite Hl in Hre, Hrp; rewrite ?Hcall in Hre; cbn [key_of is_lad] in Hre.
  all: unfold expunge_done, tlos_done, bind, new_entry, dirty_insert in H; unfold after_miss, dirty_next, los_return in H;
    rewrite ?Hcall in H; cbn in H.
  all: repeat case_match; simplify_eq; cbn [i_st with_st fst snd put_ent]; try (intros; left; split; assumption).
  all: intros k0 e0 m0 Hr Hg; rewrite ?get_ent_misses in Hg.
  (* writes of nil / expunged *)
  all: try (match type of Hg with get_ent (set_ent _ ?n ?pp) _ = _ =>
              match pp with PVal _ => fail 1 | _ => idtac end;
              rewrite get_ent_set_ent in Hg; destruct (decide (e0 = n)); [discriminate Hg|left; split; [exact Hr|exact Hg]] end).
  (* tryLoadOrStore's CAS from nil *)
  all: try (match type of Hg with get_ent (set_ent _ ?n (PVal ?vv)) _ = _ =>
              rewrite get_ent_set_ent in Hg; destruct (decide (e0 = n)) as [->|Ne]; [|left; split; [exact Hr|exact Hg]];
              injection Hg as <-; right; exists 0%nat, vv, p; split; [|reflexivity]; f_equal;
              specialize (Hre _ eq_refl); change (reach_any (i_st i) k0 n) in Hr;
              first [destruct Hre as [Hp|[_ Hu]]; [eapply (wf_inj _ Hc); [left; exact Hp|exact Hr]|exfalso; exact (Hu _ Hr)]
                    |destruct Hre as [Hp _]; eapply (wf_inj _ Hc); [left; exact Hp|exact Hr]
                    |destruct Hre as [_ Hp]; eapply (wf_inj _ Hc); [right; exact Hp|exact Hr]] end).
  (* promotion *)
  all: try (match type of Hr with reach_any (MState _ _ (default ∅ _) false None 0) _ _ =>
              left; split; [|exact Hg]; destruct Hr as [Hr|Hr]; cbn in Hr; [|discriminate Hr];
              right; unfold dirty_lookup; match goal with |- context [dirty (i_st ?ii)] => destruct (dirty (i_st ii)) end; cbn in Hr;
              [exact Hr|rewrite lookup_empty in Hr; discriminate Hr] end).
  (* dirty := make(map) *)
  all: try (match type of Hr with reach_any (st_with_dirty _ (Some ∅)) _ _ =>
              left; split; [|exact Hg]; destruct Hr as [Hr|Hr]; cbn in Hr; [left; exact Hr|rewrite lookup_empty in Hr; discriminate Hr] end).
  - (* Unexpunge_cas *)
    destruct Hw as [_ Hrk]. rewrite get_ent_ins in Hg. destruct (decide (e0 = n)); [discriminate Hg|].
    left. split; [|exact Hg]. apply reach_dirty_ins in Hr as [Hr|[[-> ->]|[_ Hr]]]; [left; exact Hr|left; exact Hrk|].
    right. unfold dirty_lookup. rewrite H3. exact Hr.
  - destruct (new_val_insert _ _ _ _ _ _ _ _ _ _ Hc H4 eq_refl Hr Hg) as [H|[-> ->]]; [left; exact H|right; eauto].
  - destruct Hw as [(L1 & L2 & L3 & d & L4 & _) _]. assert (g = d) by congruence. subst g.
    destruct (new_val_insert _ _ _ _ _ _ _ _ _ _ Hc L4 L1 Hr Hg) as [H|[-> ->]]; [left; exact H|right; eauto].
  - destruct Hw as (vis & _ & _ & Hcur & (L1 & _)). rewrite L1 in Hcur. left. split; [|exact Hg].
    match goal with Hd : dirty (i_st i) = Some ?g |- _ =>
      apply reach_dirty_ins in Hr as [Hr|[[-> ->]|[_ Hr]]]; [left; exact Hr|left; exact Hcur|right; unfold dirty_lookup; rewrite Hd; exact Hr] end.
  - destruct Hw as (vis & _ & _ & Hcur & (L1 & _)). rewrite L1 in Hcur. left. split; [|exact Hg].
    match goal with Hd : dirty (i_st i) = Some ?g |- _ =>
      apply reach_dirty_ins in Hr as [Hr|[[-> ->]|[_ Hr]]]; [left; exact Hr|left; exact Hcur|right; unfold dirty_lookup; rewrite Hd; exact Hr] end.
  - destruct Hw as (vis & _ & _ & Hcur & (L1 & _)). rewrite L1 in Hcur. left. split; [|exact Hg].
    match goal with Hd : dirty (i_st i) = Some ?g |- _ =>
      apply reach_dirty_ins in Hr as [Hr|[[-> ->]|[_ Hr]]]; [left; exact Hr|left; exact Hcur|right; unfold dirty_lookup; rewrite Hd; exact Hr] end.
  - destruct Hw as (vis & _ & _ & Hcur & (L1 & _)). rewrite L1 in Hcur. left. split; [|exact Hg].
    match goal with Hd : dirty (i_st i) = Some ?g |- _ =>
      apply reach_dirty_ins in Hr as [Hr|[[-> ->]|[_ Hr]]]; [left; exact Hr|left; exact Hcur|right; unfold dirty_lookup; rewrite Hd; exact Hr] end.
  - left. rewrite get_ent_dirty_delete in Hg. split; [|exact Hg]. apply (reach_dirty_delete _ kk). exact Hr.
  - left. rewrite get_ent_dirty_delete in Hg. split; [|exact Hg]. apply (reach_dirty_delete _ kk). exact Hr.
Qed.

Definition src2 (G : Z -> Z -> Prop) (s : mstate) : Prop :=
  forall k e m, reach_any s k e -> get_ent s e = PVal m -> G k m.

Theorem src2_reachable G progs sched i : ck_progs progs -> Forall (Forall (callG G)) progs ->
  c_insts (run_schedule (init_config 1 progs) sched) = [i] -> src2 G (i_st i).
Proof.
  intros Hp HG.
  enough (H : let c := run_schedule (init_config 1 progs) sched in
              Inv c /\ Inv2 c /\ Shaped ck_call c /\ Shaped (callG G) c /\ PcOK c /\
              exists i, c_insts c = [i] /\ src2 G (i_st i)).
  { intros Hi. destruct H as (_ & _ & _ & _ & _ & i0 & Hi0 & H). assert (i0 = i) by congruence. subst. exact H. }
  apply run_schedule_ind.
  - split; [apply Inv_init|]. split; [apply Inv2_init|]. split; [apply Shaped_init, Hp|]. split; [apply Shaped_init, HG|].
    split; [apply PcOK_init|]. exists empty_inst. split; [reflexivity|].
    intros k e m [H|H]; cbn in H; [rewrite lookup_empty in H|]; discriminate.
  - clear sched. intros c t ch c' (HI & HI2 & HS & HSG & HP & i0 & Hi & Hsrc) Hstep.
    assert (HS0 : Shaped flat_call c) by (eapply Shaped_weaken; [apply ck_flat|exact HS]).
    pose proof (step_fstep _ _ _ _ HI HS0 Hstep) as Hfs.
    split; [eapply Inv_step; eauto|]. split; [exact (Inv2_step _ _ _ _ HI HI2 Hstep)|].
    split; [exact (Shaped_fstep _ _ _ _ _ HI HS Hfs)|]. split; [exact (Shaped_fstep _ _ _ _ _ HI HSG Hfs)|].
    split; [exact (PcOK_fstep _ _ _ _ HP Hfs)|].
    assert (Hi0 : nth_error (c_insts c) 0 = Some i0) by (rewrite Hi; reflexivity).
    assert (Hmap : forall th f i' o, nth_error (c_threads c) t = Some th -> t_stack th = [f] ->
              step_frame t i0 f ch = Some (Ok (i', o)) -> src2 G (i_st i')).
    { intros th f i' o Hth Hst Hsf k e m Hr Hg.
      assert (Tt : top_frame c t = Some f) by (unfold top_frame; rewrite Hth, Hst; reflexivity).
      assert (Hck : ck_call (f_call f)) by (destruct (HS t th Hth) as [_ Hs]; rewrite Hst in Hs; exact Hs).
      assert (Hj : call_inst (f_call f) = 0) by (apply ck_call_inst, Hck).
      destruct (new_val_ck t i0 f ch i' o Hck (HP t f Tt) (inv_frames c HI t f Tt) (Inv_WF_core c 0 i0 HI Hi0)
                  (fun Hcs => proj2 (Inv_WFL c 0 i0 t f HI Hi0 Tt Hj Hcs))
                  ltac:(apply (i2_ref c HI2 t f i0 Tt); rewrite Hj; exact Hi0) Hsf k e m Hr Hg) as [[H1 H2]|(j & v & p & Hcall & ->)].
      - eapply Hsrc; eauto.
      - destruct (HSG t th Hth) as [_ Hs]. rewrite Hst, Hcall in Hs. exact Hs. }
    destruct Hfs as [th f um' r Hth Hst Hpl Hsp|th f k Hth Hst Hpl Hsp|th f i1 i' f' Hth Hst Hpl Hi1 Hsf|th f i1 i' r Hth Hst Hpl Hi1 Hsf].
    + exists i0. auto.
    + exists i0. auto.
    + assert (i1 = i0) by congruence. subst i1. exists i'. split; [cbn; rewrite Hi; reflexivity|]. eapply Hmap; eauto.
    + assert (i1 = i0) by congruence. subst i1. exists i'. split; [cbn; rewrite Hi; reflexivity|]. eapply Hmap; eauto.
Qed.

Lemma kmut_injective_ck progs sched i k1 k2 m : ck_progs progs -> fresh_values progs ->
  c_insts (run_schedule (init_config 1 progs) sched) = [i] ->
  kmut (i_st i) k1 = Some m -> kmut (i_st i) k2 = Some m -> k1 = k2.
Proof.
  intros Hp Hfr Hi H1 H2.
  set (G := fun (k m : Z) => exists j p, In (CLoadOrStore j k m p) (concat progs)).
  assert (HG : Forall (Forall (callG G)) progs).
  { apply Forall_forall. intros prog Hprog. apply Forall_forall. intros c Hc.
    destruct c as [| |j k v p| | |]; cbn; try exact I. exists j, p. apply in_concat. eauto. }
  pose proof (src2_reachable G progs sched i Hp HG Hi) as Hsrc.
  apply kmut_Some in H1 as (e1 & R1 & E1). apply kmut_Some in H2 as (e2 & R2 & E2).
  destruct (Hsrc _ _ _ (klook_reach _ _ _ R1) E1) as (j1 & p1 & G1). destruct (Hsrc _ _ _ (klook_reach _ _ _ R2) E2) as (j2 & p2 & G2).
  apply (Hfr _ _ G1 G2). reflexivity.
Qed.

(* ================================================================== *)
(* Try* / Lock at the level of keys, in runs with ClearKey            *)
(* ================================================================== *)
Lemma ck_post_frame_mutex c i t f : CKInv c -> c_insts c = [i] -> top_frame c t = Some f -> is_post_label (f_pc f) = true ->
  kmut (i_st i) (key_of (f_call f)) = Some (f_los f).1.
Proof.
  intros HCK Hi Tt Hpl. destruct (ck_inst _ HCK) as (i0 & Hi0 & Hcfi). assert (i0 = i) by congruence. subst i0.
  apply (Hcfi t f Tt). unfold los_known. destruct (f_pc f); try discriminate; reflexivity.
Qed.

Lemma ck_post_step c t ch f : CKInv c -> c_panicked c = false -> top_frame c t = Some f -> is_post_label (f_pc f) = true ->
  match step_post (c_um c) f with
  | None => step c t ch = None
  | Some (Panic _) => exists c', step c t ch = Some c' /\ c_panicked c' = true
  | Some (Ok (um', o)) => exists c' r, step c t ch = Some c' /\ o = Return r /\ c_um c' = um' /\ c_insts c' = c_insts c /\
       InsertOnly.completed (c_hist c') = InsertOnly.completed (c_hist c) ++ [(t, f_call f, r)]
  end.
Proof.
  intros HCK Hnp Tt Hpl. pose proof (ck_inv _ HCK) as HI. pose proof (ck_shape _ HCK) as HS. pose proof (ck_hist _ HCK) as HH.
  unfold top_frame in Tt. destruct (nth_error (c_threads c) t) as [th|] eqn:Hth; [|discriminate].
  destruct (HS t th Hth) as [_ Hs]. destruct (t_stack th) as [|f0 [|]] eqn:Hst; try discriminate; try contradiction.
  cbn in Tt. injection Tt as ->.
  assert (Tt : top_frame c t = Some f) by (unfold top_frame; rewrite Hth, Hst; reflexivity).
  assert (P0 : t_fresh th = false -> pend_of (c_hist c) !! t = Some (f_call f)) by (eapply HistOK_pend; eauto).
  rewrite step_unfold, Hnp, Hth, Hst, Hpl.
  destruct (step_post (c_um c) f) as [[[um' o]|k]|] eqn:Hsp; [| |reflexivity].
  - destruct (step_post_return _ _ _ _ Hsp) as [r ->]. unfold fin, do_return.
    assert (Hfo := fo_post _ (inv_frames c HI t f Tt) Hpl).
    destruct (f_call f) as [| |j k v p| | |] eqn:Hcall; try contradiction.
    eexists _, r. split; [reflexivity|]. split; [reflexivity|]. split; [reflexivity|]. split; [reflexivity|].
    cbn [c_hist]. fold (maybe_inv (t_fresh th) t (CLoadOrStore j k v p)). apply completed_ret, P0.
  - unfold fin. eexists. split; reflexivity.
Qed.

Lemma ck_step_no_panic c t ch c' : CKInv c -> MInv c -> disciplined2 c t -> step c t ch = Some c' -> c_panicked c' = false.
Proof.
  intros HCK HM [Hd _] Hstep.
  pose proof (ck_inv _ HCK) as HI. pose proof (ck_shape _ HCK) as HS.
  assert (HS0 : Shaped flat_call c) by (eapply Shaped_weaken; [apply ck_flat|exact HS]).
  pose proof (step_fstep _ _ _ _ HI HS0 Hstep) as Hfs.
  destruct Hfs as [th f um' r Hth Hst Hpl Hsp|th f k Hth Hst Hpl Hsp|th f i0 i' f' Hth Hst Hpl Hi1 Hsf|th f i0 i' r Hth Hst Hpl Hi1 Hsf];
    try reflexivity.
  exfalso.
  assert (Tt : top_frame c t = Some f) by (unfold top_frame; rewrite Hth, Hst; reflexivity).
  destruct HM as (i & Hi & Hk & Hm).
  pose proof (ck_post_frame_mutex c i t f HCK Hi Tt Hpl) as Hkm. specialize (Hm (f_los f).1). specialize (Hd f Tt).
  unfold step_post in Hsp.
  destruct (f_pc f); try discriminate Hpl; unfold holds_excl, holds_shared in Hd;
    try (assert (Hin : (t, key_of (f_call f), true) ∈ base.filter (on_km (kmut (i_st i)) (f_los f).1) (holders c))
           by (apply elem_of_list_filter; split; [exact Hkm|exact Hd]));
    try (assert (Hin : (t, key_of (f_call f), false) ∈ base.filter (on_km (kmut (i_st i)) (f_los f).1) (holders c))
           by (apply elem_of_list_filter; split; [exact Hkm|exact Hd]));
    destruct (default UFree (c_um c !! (f_los f).1)) as [| |[|n]]; try discriminate Hsp; cbn in Hm.
  all: try (rewrite Hm in Hin; inversion Hin; fail).
  all: try (destruct Hm as [Hm Hall]; try (apply length_zero_nil in Hm; rewrite Hm in Hin; inversion Hin; fail);
            rewrite Forall_forall in Hall; specialize (Hall _ (proj1 (elem_of_list_In _ _) Hin)); discriminate).
  all: destruct Hm as (t0 & k0 & Hm); rewrite Hm in Hin; apply elem_of_list_singleton in Hin; discriminate.
Qed.

Theorem CK_reach progs sched : ck_progs progs -> disc2_from (init_config 1 progs) sched ->
  let c := run_schedule (init_config 1 progs) sched in CKInv c /\ MInv c /\ c_panicked c = false.
Proof.
  intros Hp.
  enough (H : forall c, CKInv c -> MInv c -> c_panicked c = false -> disc2_from c sched ->
               CKInv (run_schedule c sched) /\ MInv (run_schedule c sched) /\ c_panicked (run_schedule c sched) = false)
    by (intros Hd; apply H; [apply CKInv_init, Hp|apply MInv_init|reflexivity|exact Hd]).
  induction sched as [|[t ch] sched IH]; intros c HCK HM Hnp Hd; cbn; [auto|].
  destruct Hd as [Hd1 Hd2]. destruct (step c t ch) as [c'|] eqn:E; cbn in *; [|apply IH; assumption].
  apply IH; [eapply CKInv_step; eauto|eapply MInv2_step; eauto|eapply ck_step_no_panic; eauto|exact Hd2].
Qed.

(* the state of the key's mutex, seen from a frame that is about to act on it *)
Lemma ck_mutex_at c i t f : CKInv c -> MInv c -> c_insts c = [i] -> top_frame c t = Some f -> is_post_label (f_pc f) = true ->
  kmut (i_st i) (key_of (f_call f)) = Some (f_los f).1 /\
  mutex_ok (mstate_of (c_um c) f) (base.filter (on_km (kmut (i_st i)) (f_los f).1) (holders c)).
Proof.
  intros HCK (i0 & Hi0 & _ & Hm) Hi Tt Hpl. assert (i0 = i) by congruence. subst i0.
  split; [apply (ck_post_frame_mutex c i t f HCK Hi Tt Hpl)|apply Hm].
Qed.

Local Notation completed := InsertOnly.completed.

Lemma filter_nil_not_held (km : Z -> option Z) m (hs : list hold) h : base.filter (on_km km m) hs = [] -> h ∈ hs -> km h.1.2 <> Some m.
Proof. intros Hn Hin E. assert (H : h ∈ base.filter (on_km km m) hs) by (apply elem_of_list_filter; split; assumption). rewrite Hn in H. inversion H. Qed.

(* a holder on the mutex makes it non-free for a writer *)
Lemma held_not_free_for_writer st (Hm : list hold) h : mutex_ok st Hm -> h ∈ Hm -> free_for_writer st = false.
Proof.
  destruct st as [| |[|n]]; cbn; intros H Hin; try reflexivity.
  - rewrite H in Hin. inversion Hin.
  - destruct H as [H _]. apply length_zero_nil in H. rewrite H in Hin. inversion Hin.
Qed.
Lemma excl_not_free_for_reader st (Hm : list hold) t k : mutex_ok st Hm -> (t, k, true) ∈ Hm -> free_for_reader st = false.
Proof.
  destruct st as [| |n]; cbn; intros H Hin; try reflexivity.
  - rewrite H in Hin. inversion Hin.
  - destruct H as [_ H]. rewrite Forall_forall in H. specialize (H _ (proj1 (elem_of_list_In _ _) Hin)). discriminate.
Qed.
Lemma nil_free_for_writer st : mutex_ok st [] -> free_for_writer st = true.
Proof. destruct st as [| |[|n]]; cbn; intros H; try reflexivity; [destruct H as (? & ? & ?)|destruct H]; discriminate. Qed.
Lemma no_excl_free_for_reader st (Hm : list hold) : mutex_ok st Hm -> (forall h, h ∈ Hm -> h.2 = false) -> free_for_reader st = true.
Proof. destruct st as [| |n]; cbn; intros H Hall; try reflexivity. destruct H as (t & k & ->). specialize (Hall (t, k, true) ltac:(left)). discriminate. Qed.

Section ck_keys.
Variables (progs : list (list call)) (sched : list (nat * Z)).
Hypothesis Hp : ck_progs progs.
Hypothesis Hd : disc2_from (init_config 1 progs) sched.
Let c := run_schedule (init_config 1 progs) sched.

Lemma ck_facts t f : top_frame c t = Some f -> is_post_label (f_pc f) = true ->
  exists i, c_insts c = [i] /\ kmut (i_st i) (key_of (f_call f)) = Some (f_los f).1 /\
    mutex_ok (mstate_of (c_um c) f) (base.filter (on_km (kmut (i_st i)) (f_los f).1) (holders c)) /\
    Forall (fun h : hold => is_Some (kmut (i_st i) h.1.2)) (holders c) /\
    forall ch, match step_post (c_um c) f with
      | None => step c t ch = None
      | Some (Panic _) => exists c', step c t ch = Some c' /\ c_panicked c' = true
      | Some (Ok (um', o)) => exists c' r, step c t ch = Some c' /\ o = Return r /\ c_um c' = um' /\ c_insts c' = c_insts c /\
           completed (c_hist c') = completed (c_hist c) ++ [(t, f_call f, r)]
      end.
Proof.
  intros Tt Hpl. destruct (CK_reach progs sched Hp Hd) as (HCK & HM & Hnp). fold c in HCK, HM, Hnp.
  pose proof HM as (i & Hi & Hk & _). exists i. split; [exact Hi|].
  destruct (ck_mutex_at c i t f HCK HM Hi Tt Hpl) as [H1 H2]. split; [exact H1|]. split; [exact H2|]. split; [exact Hk|].
  intros ch. apply (ck_post_step c t ch f HCK Hnp Tt Hpl).
Qed.

Lemma ck_in_filter i f h : kmut (i_st i) (key_of (f_call f)) = Some (f_los f).1 -> h ∈ holders c -> h.1.2 = key_of (f_call f) ->
  h ∈ base.filter (on_km (kmut (i_st i)) (f_los f).1) (holders c).
Proof. intros Hkm Hin Hk. apply elem_of_list_filter. split; [unfold on_km; rewrite Hk; exact Hkm|exact Hin]. Qed.

Theorem ck_trylock_fails_while_held t ch c' f t2 b2 :
  top_frame c t = Some f -> (f_pc f = KM_TryLock \/ f_pc f = KRW_TryLock) ->
  (t2, key_of (f_call f), b2) ∈ holders c -> step c t ch = Some c' ->
  completed (c_hist c') = completed (c_hist c) ++ [(t, f_call f, RBool false)] /\ c_um c' = c_um c /\ holders c' = holders c.
Proof.
  intros Tt Hpc Hh Hstep.
  assert (Hpl : is_post_label (f_pc f) = true) by (destruct Hpc as [-> | ->]; reflexivity).
  destruct (ck_facts t f Tt Hpl) as (i & Hi & Hkm & Hmo & _ & Hps). specialize (Hps ch).
  pose proof (held_not_free_for_writer _ _ _ Hmo (ck_in_filter i f _ Hkm Hh eq_refl)) as Hnf.
  destruct (try_lock_result (c_um c) f Hpc) as (um2 & Hsp & _ & Hsame). rewrite Hsp, Hnf in Hps.
  destruct Hps as (c'' & r & Hs & [= <-] & Hum & _ & Hc). assert (c'' = c') by congruence. subst c''.
  split; [exact Hc|]. split; [rewrite Hum; apply Hsame, Hnf|]. rewrite (holders_snoc _ _ _ Hc). apply hold_step_false.
Qed.

Theorem ck_tryrlock_fails_while_write_held t ch c' f t2 :
  top_frame c t = Some f -> f_pc f = KRW_TryRLock ->
  holds_excl c t2 (key_of (f_call f)) -> step c t ch = Some c' ->
  completed (c_hist c') = completed (c_hist c) ++ [(t, f_call f, RBool false)] /\ c_um c' = c_um c /\ holders c' = holders c.
Proof.
  intros Tt Hpc Hh Hstep.
  assert (Hpl : is_post_label (f_pc f) = true) by (rewrite Hpc; reflexivity).
  destruct (ck_facts t f Tt Hpl) as (i & Hi & Hkm & Hmo & _ & Hps). specialize (Hps ch).
  pose proof (excl_not_free_for_reader _ _ _ _ Hmo (ck_in_filter i f _ Hkm Hh eq_refl)) as Hnf.
  destruct (try_rlock_result (c_um c) f Hpc) as (um2 & Hsp & Hsame & _). rewrite Hsp, Hnf in Hps.
  destruct Hps as (c'' & r & Hs & [= <-] & Hum & _ & Hc). assert (c'' = c') by congruence. subst c''.
  split; [exact Hc|]. split; [rewrite Hum; apply Hsame, Hnf|]. rewrite (holders_snoc _ _ _ Hc). apply hold_step_false.
Qed.

Theorem ck_lock_waits_while_held t ch f t2 b2 :
  top_frame c t = Some f -> (f_pc f = KM_Lock \/ f_pc f = KRW_Lock) ->
  (t2, key_of (f_call f), b2) ∈ holders c -> step c t ch = None.
Proof.
  intros Tt Hpc Hh.
  assert (Hpl : is_post_label (f_pc f) = true) by (destruct Hpc as [-> | ->]; reflexivity).
  destruct (ck_facts t f Tt Hpl) as (i & Hi & Hkm & Hmo & _ & Hps). specialize (Hps ch).
  pose proof (held_not_free_for_writer _ _ _ Hmo (ck_in_filter i f _ Hkm Hh eq_refl)) as Hnf.
  assert (Hex : is_excl_lock (f_pc f) = true) by (destruct Hpc as [-> | ->]; reflexivity).
  destruct (lock_enabled_iff_free (c_um c) f Hex) as [Hen _].
  destruct (step_post (c_um c) f) as [r|] eqn:Hsp; [|exact Hps].
  assert (Hf : free_for_writer (mstate_of (c_um c) f) = true) by (apply Hen; discriminate). congruence.
Qed.

Theorem ck_rlock_waits_while_write_held t ch f t2 :
  top_frame c t = Some f -> f_pc f = KRW_RLock ->
  holds_excl c t2 (key_of (f_call f)) -> step c t ch = None.
Proof.
  intros Tt Hpc Hh.
  assert (Hpl : is_post_label (f_pc f) = true) by (rewrite Hpc; reflexivity).
  destruct (ck_facts t f Tt Hpl) as (i & Hi & Hkm & Hmo & _ & Hps). specialize (Hps ch).
  pose proof (excl_not_free_for_reader _ _ _ _ Hmo (ck_in_filter i f _ Hkm Hh eq_refl)) as Hnf.
  destruct (step_post (c_um c) f) as [r|] eqn:Hsp; [|exact Hps].
  assert (Hen : step_post (c_um c) f <> None) by congruence.
  apply (rlock_enabled_iff_no_writer (c_um c) f Hpc) in Hen. congruence.
Qed.

Hypothesis Hfr : fresh_values progs.

(* with fresh mutexes, the holders on k's mutex are the holders of k *)
Lemma ck_filter_key i f h : c_insts c = [i] -> kmut (i_st i) (key_of (f_call f)) = Some (f_los f).1 ->
  h ∈ base.filter (on_km (kmut (i_st i)) (f_los f).1) (holders c) -> h ∈ holders c /\ h.1.2 = key_of (f_call f).
Proof.
  intros Hi Hkm Hin. apply elem_of_list_filter in Hin as [H1 H2]. split; [exact H2|].
  unfold on_km in H1. eapply (kmut_injective_ck progs sched i); eauto.
Qed.

Lemma ck_acquires f j k v p r b : f_call f = CLoadOrStore j k v p -> post_label p = Some (f_pc f) ->
  (((f_pc f = KM_Lock \/ f_pc f = KRW_Lock) /\ r = RUnit /\ b = true) \/
   ((f_pc f = KM_TryLock \/ f_pc f = KRW_TryLock) /\ r = RBool true /\ b = true) \/
   (f_pc f = KRW_RLock /\ r = RUnit /\ b = false) \/ (f_pc f = KRW_TryRLock /\ r = RBool true /\ b = false)) ->
  acquires (CLoadOrStore j k v p) r = Some (k, b).
Proof.
  intros _ Hpost H. destruct H as [([E|E] & -> & ->)|[([E|E] & -> & ->)|[(E & -> & ->)|(E & -> & ->)]]];
    rewrite E in Hpost; destruct p; cbn in Hpost; try discriminate; reflexivity.
Qed.

(* after a successful acquisition the thread holds the key *)
Lemma ck_now_holds t f c' r b : top_frame c t = Some f -> is_post_label (f_pc f) = true ->
  completed (c_hist c') = completed (c_hist c) ++ [(t, f_call f, r)] ->
  (((f_pc f = KM_Lock \/ f_pc f = KRW_Lock) /\ r = RUnit /\ b = true) \/
   ((f_pc f = KM_TryLock \/ f_pc f = KRW_TryLock) /\ r = RBool true /\ b = true) \/
   (f_pc f = KRW_RLock /\ r = RUnit /\ b = false) \/ (f_pc f = KRW_TryRLock /\ r = RBool true /\ b = false)) ->
  (t, key_of (f_call f), b) ∈ holders c'.
Proof.
  intros Tt Hpl Hc Hcase. destruct (CK_reach progs sched Hp Hd) as (HCK & _ & _). fold c in HCK.
  rewrite (holders_snoc _ _ _ Hc). unfold hold_step. cbn [fst snd].
  assert (Hfo := fo_post _ (inv_frames c (ck_inv _ HCK) t f Tt) Hpl).
  destruct (f_call f) as [| |j k v p| | |] eqn:Hcall; try contradiction.
  pose proof (pc_ok_post_label _ _ _ _ _ ltac:(rewrite <- Hcall; apply (ck_pc _ HCK t f Tt)) Hpl) as Hpost.
  rewrite (ck_acquires f j k v p r b Hcall Hpost Hcase). cbn [key_of]. apply elem_of_app. right. left.
Qed.

(* NOTE ([_machine] lemmas): facts about the trusted mutex machine of Model.v (one atomic step per mutex
   operation, no queue of waiters). Go's sync.RWMutex also refuses new readers while a writer WAITS,
   sync.Mutex.TryLock may fail on a free mutex with queued waiters, and RWMutex.TryLock/Unlock are not atomic;
   the property ("free and uncontended") therefore needs the hypothesis [quiet] (nobody else at a
   mutex-operation step of the key), which SyncMap/Uncontended.v adds. Only those versions are property
   theorems. *)
Theorem ck_trylock_succeeds_when_key_free_machine t ch c' f :
  top_frame c t = Some f -> (f_pc f = KM_TryLock \/ f_pc f = KRW_TryLock) ->
  (forall t2 b, (t2, key_of (f_call f), b) ∉ holders c) -> step c t ch = Some c' ->
  completed (c_hist c') = completed (c_hist c) ++ [(t, f_call f, RBool true)] /\ holds_excl c' t (key_of (f_call f)).
Proof.
  intros Tt Hpc Hfree Hstep.
  assert (Hpl : is_post_label (f_pc f) = true) by (destruct Hpc as [-> | ->]; reflexivity).
  destruct (ck_facts t f Tt Hpl) as (i & Hi & Hkm & Hmo & _ & Hps). specialize (Hps ch).
  assert (Hnil : base.filter (on_km (kmut (i_st i)) (f_los f).1) (holders c) = []).
  { destruct (base.filter _ _) as [|[[t2 k2] b2] l] eqn:E; [reflexivity|]. exfalso.
    destruct (ck_filter_key i f (t2, k2, b2) Hi Hkm ltac:(rewrite E; left)) as [H1 H2]. cbn in H2. subst k2. exact (Hfree t2 b2 H1). }
  rewrite Hnil in Hmo. apply nil_free_for_writer in Hmo.
  destruct (try_lock_result (c_um c) f Hpc) as (um2 & Hsp & _ & _). rewrite Hsp, Hmo in Hps.
  destruct Hps as (c'' & r & Hs & [= <-] & _ & _ & Hc). assert (c'' = c') by congruence. subst c''.
  split; [exact Hc|]. apply (ck_now_holds t f c' _ true Tt Hpl Hc). right. left. auto.
Qed.

Theorem ck_tryrlock_succeeds_when_key_not_write_held_machine t ch c' f :
  top_frame c t = Some f -> f_pc f = KRW_TryRLock ->
  (forall t2, ~ holds_excl c t2 (key_of (f_call f))) -> step c t ch = Some c' ->
  completed (c_hist c') = completed (c_hist c) ++ [(t, f_call f, RBool true)] /\ holds_shared c' t (key_of (f_call f)).
Proof.
  intros Tt Hpc Hfree Hstep.
  assert (Hpl : is_post_label (f_pc f) = true) by (rewrite Hpc; reflexivity).
  destruct (ck_facts t f Tt Hpl) as (i & Hi & Hkm & Hmo & _ & Hps). specialize (Hps ch).
  assert (Hf : free_for_reader (mstate_of (c_um c) f) = true).
  { apply (no_excl_free_for_reader _ _ Hmo). intros [[t2 k2] b2] Hin. cbn.
    destruct (ck_filter_key i f _ Hi Hkm Hin) as [H1 H2]. cbn in H2. subst k2.
    destruct b2; [|reflexivity]. exfalso. exact (Hfree t2 H1). }
  destruct (try_rlock_result (c_um c) f Hpc) as (um2 & Hsp & _ & _). rewrite Hsp, Hf in Hps.
  destruct Hps as (c'' & r & Hs & [= <-] & _ & _ & Hc). assert (c'' = c') by congruence. subst c''.
  split; [exact Hc|]. apply (ck_now_holds t f c' _ false Tt Hpl Hc). right. right. right. auto.
Qed.

Theorem ck_lock_succeeds_when_key_free_machine t ch f :
  top_frame c t = Some f -> (f_pc f = KM_Lock \/ f_pc f = KRW_Lock) ->
  (forall t2 b, (t2, key_of (f_call f), b) ∉ holders c) ->
  exists c', step c t ch = Some c' /\ completed (c_hist c') = completed (c_hist c) ++ [(t, f_call f, RUnit)] /\
             holds_excl c' t (key_of (f_call f)).
Proof.
  intros Tt Hpc Hfree.
  assert (Hpl : is_post_label (f_pc f) = true) by (destruct Hpc as [-> | ->]; reflexivity).
  destruct (ck_facts t f Tt Hpl) as (i & Hi & Hkm & Hmo & _ & Hps). specialize (Hps ch).
  assert (Hnil : base.filter (on_km (kmut (i_st i)) (f_los f).1) (holders c) = []).
  { destruct (base.filter _ _) as [|[[t2 k2] b2] l] eqn:E; [reflexivity|]. exfalso.
    destruct (ck_filter_key i f (t2, k2, b2) Hi Hkm ltac:(rewrite E; left)) as [H1 H2]. cbn in H2. subst k2. exact (Hfree t2 b2 H1). }
  rewrite Hnil in Hmo. apply nil_free_for_writer in Hmo.
  assert (Hex : is_excl_lock (f_pc f) = true) by (destruct Hpc as [-> | ->]; reflexivity).
  destruct (lock_enabled_iff_free (c_um c) f Hex) as [Hen Hres]. apply Hen in Hmo.
  destruct (step_post (c_um c) f) as [r|] eqn:Hsp; [|congruence]. rewrite (Hres r eq_refl) in Hps.
  destruct Hps as (c' & r' & Hs & [= <-] & _ & _ & Hc). exists c'. split; [exact Hs|]. split; [exact Hc|].
  apply (ck_now_holds t f c' _ true Tt Hpl Hc). left. auto.
Qed.

Theorem ck_rlock_succeeds_when_key_not_write_held_machine t ch f :
  top_frame c t = Some f -> f_pc f = KRW_RLock ->
  (forall t2, ~ holds_excl c t2 (key_of (f_call f))) ->
  exists c', step c t ch = Some c' /\ completed (c_hist c') = completed (c_hist c) ++ [(t, f_call f, RUnit)] /\
             holds_shared c' t (key_of (f_call f)).
Proof.
  intros Tt Hpc Hfree.
  assert (Hpl : is_post_label (f_pc f) = true) by (rewrite Hpc; reflexivity).
  destruct (ck_facts t f Tt Hpl) as (i & Hi & Hkm & Hmo & _ & Hps). specialize (Hps ch).
  assert (Hf : free_for_reader (mstate_of (c_um c) f) = true).
  { apply (no_excl_free_for_reader _ _ Hmo). intros [[t2 k2] b2] Hin. cbn.
    destruct (ck_filter_key i f _ Hi Hkm Hin) as [H1 H2]. cbn in H2. subst k2.
    destruct b2; [|reflexivity]. exfalso. exact (Hfree t2 H1). }
  assert (Hsp : exists um', step_post (c_um c) f = Some (Ok (um', Return RUnit))).
  { unfold step_post. rewrite Hpc. unfold mstate_of, mutex_of in Hf.
    destruct (default UFree (c_um c !! (f_los f).1)); try discriminate Hf; eauto. }
  destruct Hsp as [um' Hsp]. rewrite Hsp in Hps. destruct Hps as (c' & r' & Hs & [= <-] & _ & _ & Hc).
  exists c'. split; [exact Hs|]. split; [exact Hc|].
  apply (ck_now_holds t f c' _ false Tt Hpl Hc). right. right. left. auto.
Qed.

End ck_keys.

Theorem ck_disciplined_no_panic progs sched : ck_progs progs -> disc2_from (init_config 1 progs) sched ->
  c_panicked (run_schedule (init_config 1 progs) sched) = false.
Proof. intros Hp Hd. apply (CK_reach progs sched Hp Hd). Qed.
