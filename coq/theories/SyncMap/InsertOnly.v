(* Insert-only runs of the small-step model of sync2.Map (SyncMap/Model.v):
   one instance, programs made of Load and LoadOrStore calls only - exactly
   KeyedMutex / KeyedRWMutex without ClearKey (C09).

   Proved for ALL programs of that shape and ALL schedules, on top of the
   structural invariant of SyncMap/Inv.v:
   1. no allocated entry is ever nil or expunged, and an entry never changes;
   2. the key -> entry association is functional and stable (reach_any only
      grows; promotion and dirtyLocked's copy keep it), and the entry a frame
      holds locally for its key is that entry;
   3. one value (mutex) per key: every completed LoadOrStore k and every
      Load k that finds something return the same value, forever;
   4. per-KEY mutual exclusion of the keyed mutexes: a ghost list of holders
      computed from the history, an invariant relating it to the state of the
      key's mutex, for runs in which a thread only unlocks keys it holds;
   5. the same at the level of keys for TryLockKey / TryRLockKey / LockKey:
      they fail (wait) while the key is held incompatibly and succeed when the
      key is free, whatever other keys are held or awaited (for programs whose
      mutexes are fresh: calls on different keys carry different values), and
      disciplined runs never panic;
   6. a static sufficient condition for the discipline ([balanced]: every
      Unlock/RUnlock of a thread's program is preceded by an unmatched blocking
      Lock/RLock of the same key), hence mutual exclusion for all balanced
      programs under ALL schedules.

   Part 0 (flat configurations: no Range, so no nested frames; the history
   ghosts) is independent of the insert-only restriction and is reused by
   SyncMap/Linearizable.v. *)
From Typ Require Import SyncMap.Model SyncMap.Inv SyncMap.KeyedMutex.

(* ================================================================== *)
(* Part 0. flat configurations                                        *)
(* ================================================================== *)

Lemma run_schedule_app c s1 s2 : run_schedule c (s1 ++ s2) = run_schedule (run_schedule c s1) s2.
Proof. revert c. induction s1 as [|[t ch] s1 IH]; intros c; cbn; [reflexivity|apply IH]. Qed.

(* induction over the steps of a run *)
Lemma run_schedule_ind (P : config -> Prop) c sched :
  P c -> (forall c t ch c', P c -> step c t ch = Some c' -> P c') -> P (run_schedule c sched).
Proof.
  intros H0 Hs. revert c H0. induction sched as [|[t ch] sched IH]; intros c H0; cbn; [exact H0|].
  apply IH. destruct (step c t ch) as [c'|] eqn:E; cbn; [eapply Hs; eauto|exact H0].
Qed.

(* a relation between a configuration and its successors that is reflexive and transitive *)
Lemma run_schedule_rel (P : config -> Prop) (R : config -> config -> Prop) c sched :
  (forall c, R c c) -> (forall a b c, R a b -> R b c -> R a c) ->
  (forall c t ch c', P c -> step c t ch = Some c' -> P c' /\ R c c') ->
  P c -> P (run_schedule c sched) /\ R c (run_schedule c sched).
Proof.
  intros Hr Ht Hs. revert c. induction sched as [|[t ch] sched IH]; intros c H0; cbn; [auto|].
  destruct (step c t ch) as [c'|] eqn:E; cbn; [|apply IH, H0].
  destruct (Hs _ _ _ _ H0 E) as [H1 H2]. destruct (IH c' H1) as [H3 H4]. eauto.
Qed.

(* calls on instance 0 other than Range *)
Definition flat_call (c : call) : Prop :=
  match c with CRange _ _ => False | _ => call_inst c = 0%nat end.

Definition shaped_thread (Q : call -> Prop) (th : thread) : Prop :=
  Forall Q (t_prog th) /\
  match t_stack th with [] => True | [f] => Q (f_call f) | _ => False end.
Definition Shaped (Q : call -> Prop) (c : config) : Prop :=
  forall t th, nth_error (c_threads c) t = Some th -> shaped_thread Q th.

Definition inv_ev (t : nat) (th : thread) (f : frame) : list event :=
  if t_fresh th then [EvInv t (f_call f)] else [].

(* [step] on a flat configuration *)
Inductive fstep (c : config) (t : nat) (ch : Z) : config -> Prop :=
| fs_post th f um' r :
    nth_error (c_threads c) t = Some th -> t_stack th = [f] -> is_post_label (f_pc f) = true ->
    step_post (c_um c) f = Some (Ok (um', Return r)) ->
    fstep c t ch (Config (c_insts c) um'
       (set_nth_list t (next_call (Thread (t_prog th) [] (t_results th ++ [r]) false)) (c_threads c))
       (c_hist c ++ inv_ev t th f ++ [EvRes t r]) false)
| fs_post_panic th f k :
    nth_error (c_threads c) t = Some th -> t_stack th = [f] -> is_post_label (f_pc f) = true ->
    step_post (c_um c) f = Some (Panic k) ->
    fstep c t ch (Config (c_insts c) (c_um c)
       (set_nth_list t (Thread [] [] (t_results th ++ [RPanic k]) false) (c_threads c))
       (c_hist c ++ inv_ev t th f ++ [EvRes t (RPanic k)]) true)
| fs_cont th f i i' f' :
    nth_error (c_threads c) t = Some th -> t_stack th = [f] -> is_post_label (f_pc f) = false ->
    nth_error (c_insts c) 0 = Some i -> step_frame t i f ch = Some (Ok (i', Continue f')) ->
    fstep c t ch (Config (set_nth_list 0 i' (c_insts c)) (c_um c)
       (set_nth_list t (Thread (t_prog th) [f'] (t_results th) false) (c_threads c))
       (c_hist c ++ inv_ev t th f) false)
| fs_ret th f i i' r :
    nth_error (c_threads c) t = Some th -> t_stack th = [f] -> is_post_label (f_pc f) = false ->
    nth_error (c_insts c) 0 = Some i -> step_frame t i f ch = Some (Ok (i', Return r)) ->
    fstep c t ch (Config (set_nth_list 0 i' (c_insts c)) (c_um c)
       (set_nth_list t (next_call (Thread (t_prog th) [] (t_results th ++ [match f_call f with CDelete _ _ => RUnit | _ => r end]) false)) (c_threads c))
       (c_hist c ++ inv_ev t th f ++ [EvRes t (match f_call f with CDelete _ _ => RUnit | _ => r end)]) false).

Lemma sf_callback t i f ch i' f' k v :
  step_frame t i f ch = Some (Ok (i', Callback f' k v)) -> exists j cb, f_call f = CRange j cb.
Proof.
  intros H. unfold step_frame in H.
  destruct (f_pc f) eqn:Hpc;
    unfold expunge_done, tlos_done, bind in H; unfold after_miss, dirty_next, los_return, range_next in H;
    repeat case_match; simplify_eq; eauto.
Qed.

Lemma sf_call t i f ch i' f' : step_frame t i f ch = Some (Ok (i', Continue f')) -> f_call f' = f_call f.
Proof.
  intros H. unfold step_frame in H.
  destruct (f_pc f) eqn:Hpc;
    unfold expunge_done, tlos_done, bind in H; unfold after_miss, dirty_next, los_return, range_next in H;
    repeat case_match; simplify_eq; cbn; congruence.
Qed.

Lemma step_fstep c t ch c' :
  Inv c -> Shaped flat_call c -> step c t ch = Some c' -> fstep c t ch c'.
Proof.
  intros HI HS H. rewrite step_unfold in H.
  destruct (c_panicked c); [discriminate|].
  destruct (nth_error (c_threads c) t) as [th|] eqn:Hth; [|discriminate].
  destruct (t_stack th) as [|f rest] eqn:Hst; [discriminate|].
  assert (Tt : top_frame c t = Some f) by (unfold top_frame; rewrite Hth, Hst; reflexivity).
  assert (Hok : frame_ok f) by (eapply inv_frames; eauto).
  destruct (HS t th Hth) as [Hprog Hstk]. rewrite Hst in Hstk.
  destruct rest as [|f2 rest]; [|contradiction].
  assert (Hj : call_inst (f_call f) = 0%nat) by (destruct (f_call f); cbn in Hstk; auto; contradiction).
  destruct (is_post_label (f_pc f)) eqn:Hpl.
  - destruct (step_post (c_um c) f) as [[[um' o]|k]|] eqn:Hsp; [| |discriminate].
    + destruct (step_post_return _ _ _ _ Hsp) as [r ->].
      apply (fo_post _ Hok) in Hpl as Hp. unfold fin, do_return in H.
      destruct (f_call f) eqn:Hc; try contradiction. injection H as <-. rewrite <- Hc.
      eapply (fs_post c t ch th f um' r); eauto.
    + unfold fin in H. injection H as <-. eapply fs_post_panic; eauto.
  - rewrite Hj in H.
    destruct (nth_error (c_insts c) 0) as [i|] eqn:Hi; [|discriminate].
    destruct (step_frame t i f ch) as [r|] eqn:Hsf; [|discriminate].
    assert (exists i' o, r = Ok (i', o)) as (i' & o & ->).
    { destruct (in_cs f) eqn:Hcs.
      - destruct (inv_insts c HI _ _ Hi) as [Hm Hw].
        assert (Hmu : i_mu i = Some t). { apply Hm. exists f. rewrite Hj. auto. }
        rewrite Hmu in Hw. destruct (sf_cs t i f ch r Hok Hcs Hmu (Hw f Tt) Hsf) as (i' & o & -> & _). eauto.
      - destruct r as [[i' o]|k]; [eauto|]. exfalso. eapply sf_free_nopanic; eauto. }
    destruct o as [f'|r|f' k v].
    + unfold fin in H. injection H as <-. eapply fs_cont; eauto.
    + unfold fin, do_return in H. injection H as <-. eapply fs_ret; eauto.
    + exfalso. apply sf_callback in Hsf as (j & cb & E). rewrite E in Hstk. exact Hstk.
Qed.

(* ---- the threads after a step ---- *)
Lemma shaped_next_call Q prog res b : Forall Q prog -> shaped_thread Q (next_call (Thread prog [] res b)).
Proof.
  intros H. unfold next_call. cbn. destruct prog as [|c prog]; cbn.
  - split; [constructor|exact I].
  - inversion H; subst. split; assumption.
Qed.

Lemma Shaped_set Q c c' t th' :
  t < length (c_threads c) -> Shaped Q c -> c_threads c' = set_nth_list t th' (c_threads c) -> shaped_thread Q th' ->
  Shaped Q c'.
Proof.
  intros Hl Hc E Hth' t' th0. rewrite E. destruct (decide (t' = t)) as [->|N].
  - rewrite nth_error_set_nth_list_eq by exact Hl. congruence.
  - rewrite nth_error_set_nth_list_ne by auto. apply Hc.
Qed.

Lemma Shaped_fstep Q c t ch c' : Inv c -> Shaped Q c -> fstep c t ch c' -> Shaped Q c'.
Proof.
  intros HI HS H.
  destruct H as [th f um' r Hth Hst Hpl Hsp|th f k Hth Hst Hpl Hsp|th f i i' f' Hth Hst Hpl Hi Hsf|th f i i' r Hth Hst Hpl Hi Hsf];
    (assert (Hl : t < length (c_threads c)) by (eapply nth_error_lt; eauto));
    destruct (HS t th Hth) as [Hprog Hstk]; rewrite Hst in Hstk;
    (eapply Shaped_set; [exact Hl|exact HS|reflexivity|]).
  - apply shaped_next_call, Hprog.
  - split; [constructor|exact I].
  - split; [exact Hprog|]. cbn.
    assert (Tt : top_frame c t = Some f) by (unfold top_frame; rewrite Hth, Hst; reflexivity).
    destruct (sf_frame_ok _ _ _ _ _ _ (inv_frames c HI _ _ Tt) Hsf) as [_ ->]. exact Hstk.
  - apply shaped_next_call, Hprog.
Qed.

Lemma Shaped_init Q n progs : Forall (Forall Q) progs -> Shaped Q (init_config n progs).
Proof.
  intros H t th. cbn. rewrite nth_error_map. destruct (nth_error progs t) as [p|] eqn:E; [|discriminate].
  cbn. intros [= <-]. apply shaped_next_call. rewrite Forall_forall in H. apply H. eapply nth_error_In, E.
Qed.

Lemma Shaped_weaken (Q Q' : call -> Prop) c : (forall x, Q x -> Q' x) -> Shaped Q c -> Shaped Q' c.
Proof.
  intros HQ HS t th Hth. destruct (HS t th Hth) as [H1 H2]. split.
  - eapply Forall_impl; eauto.
  - destruct (t_stack th) as [|f [|]]; auto.
Qed.

(* ---- which labels belong to which call ---- *)
Definition pc_ok (c : call) (l : label) : bool :=
  match c with
  | CLoad _ _ =>
      match l with Load_read1 | Load_lock | Load_read2 | Miss_store | Load_unlock | E_load => true | _ => false end
  | CStore _ _ _ =>
      match l with
      | Store_read1 | TryStore_load | TryStore_cas | Store_lock | Store_read2 | Unexpunge_cas | StoreLocked
      | Store_amend | Store_unlock | Dirty_read | Dirty_iter | Expunge_load1 | Expunge_cas | Expunge_load2 => true
      | _ => false
      end
  | CLoadOrStore _ _ _ p =>
      match l with
      | LOS_read1 | Tlos_load1 | Tlos_cas | Tlos_load2 | LOS_lock | LOS_read2 | Unexpunge_cas
      | Dirty_read | Dirty_iter | Expunge_load1 | Expunge_cas | Expunge_load2 | LOS_amend | Miss_store | LOS_unlock => true
      | _ => match post_label p with Some l' => label_eqb l l' | None => false end
      end
  | CLoadAndDelete _ _ | CDelete _ _ =>
      match l with LAD_read1 | LAD_lock | LAD_read2 | Miss_store | LAD_unlock | Delete_load | Delete_cas => true | _ => false end
  | CRange _ _ =>
      match l with Range_read1 | Range_lock | Range_read2 | Range_promote | Range_unlock | Range_iter | E_load => true | _ => false end
  end.

Lemma pc_ok_new c : pc_ok c (first_label c) = true.
Proof. destruct c; reflexivity. Qed.

Lemma label_eqb_refl l : label_eqb l l = true.
Proof. unfold label_eqb. destruct (label_eq_dec l l); congruence. Qed.

Lemma sf_pc_ok t i f ch i' f' :
  pc_ok (f_call f) (f_pc f) = true -> step_frame t i f ch = Some (Ok (i', Continue f')) ->
  pc_ok (f_call f') (f_pc f') = true.
Proof.
  intros Hpc H. unfold step_frame in H.
  destruct (f_call f) eqn:Hc; destruct (f_pc f) eqn:Hl; try discriminate Hpc;
    unfold expunge_done, tlos_done, bind in H; unfold after_miss, dirty_next, los_return, range_next in H;
    rewrite ?Hc in H; cbn in H;
    repeat case_match; simplify_eq; cbn; rewrite ?Hc; cbn; try reflexivity.
  all: try (destruct p; discriminate).
  all: try (match goal with H : post_label ?p = Some _ |- _ => destruct p; cbn in H; simplify_eq; reflexivity end).
Qed.

Definition PcOK (c : config) : Prop := forall t f, top_frame c t = Some f -> pc_ok (f_call f) (f_pc f) = true.

Lemma top_frame_next_call prog res b f :
  head (t_stack (next_call (Thread prog [] res b))) = Some f -> exists c, f = new_frame c.
Proof. unfold next_call. cbn. destruct prog as [|c prog]; cbn; [discriminate|]. intros [= <-]. eauto. Qed.

Lemma PcOK_fstep c t ch c' : PcOK c -> fstep c t ch c' -> PcOK c'.
Proof.
  intros HP H.
  destruct H as [th f um' r Hth Hst Hpl Hsp|th f k Hth Hst Hpl Hsp|th f i i' f' Hth Hst Hpl Hi Hsf|th f i i' r Hth Hst Hpl Hi Hsf];
    (assert (Hl : t < length (c_threads c)) by (eapply nth_error_lt; eauto));
    (assert (Tt : top_frame c t = Some f) by (unfold top_frame; rewrite Hth, Hst; reflexivity));
    intros t' f0; (erewrite top_frame_set; [|exact Hl|reflexivity]);
    (destruct (decide (t' = t)) as [->|N]; [|apply HP]).
  - intros H. apply top_frame_next_call in H as [c0 ->]. apply pc_ok_new.
  - discriminate.
  - cbn. intros [= <-]. eapply sf_pc_ok; eauto.
  - intros H. apply top_frame_next_call in H as [c0 ->]. apply pc_ok_new.
Qed.

Lemma PcOK_init n progs : PcOK (init_config n progs).
Proof. intros t f H. apply init_top in H as [c ->]. apply pc_ok_new. Qed.

(* ---- ghosts computed from the history ---- *)
(* the pending call of every thread, and the completed calls with their results, oldest first *)
Definition hstate : Type := gmap nat call * list (nat * call * res).
Definition hstep (s : hstate) (ev : event) : hstate :=
  match ev with
  | EvInv t c => (<[t := c]> s.1, s.2)
  | EvRes t r => match s.1 !! t with Some c => (delete t s.1, s.2 ++ [(t, c, r)]) | None => s end
  end.
Definition hfold (h : list event) : hstate := fold_left hstep h (∅, []).
Definition pend_of (h : list event) : gmap nat call := (hfold h).1.
Definition completed (h : list event) : list (nat * call * res) := (hfold h).2.

Lemma hfold_app h1 h2 : hfold (h1 ++ h2) = fold_left hstep h2 (hfold h1).
Proof. unfold hfold. apply fold_left_app. Qed.

Definition maybe_inv (fresh : bool) (t : nat) (c : call) : list event := if fresh then [EvInv t c] else [].

Lemma hfold_inv h t c fresh :
  (fresh = false -> pend_of h !! t = Some c) ->
  hfold (h ++ maybe_inv fresh t c) = (<[t := c]> (pend_of h), completed h).
Proof.
  intros H. rewrite hfold_app. unfold pend_of, completed in *. destruct fresh; cbn.
  - reflexivity.
  - rewrite insert_id by auto. destruct (hfold h); reflexivity.
Qed.

Lemma hfold_inv_res h t c r fresh :
  (fresh = false -> pend_of h !! t = Some c) ->
  hfold (h ++ maybe_inv fresh t c ++ [EvRes t r]) = (delete t (pend_of h), completed h ++ [(t, c, r)]).
Proof.
  intros H. rewrite app_assoc, hfold_app, hfold_inv by exact H. cbn.
  rewrite lookup_insert. cbn. rewrite delete_insert_delete. reflexivity.
Qed.

(* the call a thread is executing, as far as the history knows *)
Definition cur_call (th : thread) : option call :=
  match t_stack th with [f] => if t_fresh th then None else Some (f_call f) | _ => None end.

Definition HistOK (c : config) : Prop :=
  forall t, pend_of (c_hist c) !! t = match nth_error (c_threads c) t with Some th => cur_call th | None => None end.

Lemma cur_call_next_call prog res : cur_call (next_call (Thread prog [] res false)) = None.
Proof. unfold next_call. cbn. destruct prog; reflexivity. Qed.

(* what a step does to the history ghosts *)
Lemma hist_fstep c t ch c' : HistOK c -> fstep c t ch c' ->
  HistOK c' /\
  exists th f, nth_error (c_threads c) t = Some th /\ t_stack th = [f] /\
    (completed (c_hist c') = completed (c_hist c) \/
     exists r, completed (c_hist c') = completed (c_hist c) ++ [(t, f_call f, r)] /\
               c_hist c' = c_hist c ++ inv_ev t th f ++ [EvRes t r]).
Proof.
  intros HH H.
  assert (P0 : forall th f, nth_error (c_threads c) t = Some th -> t_stack th = [f] ->
               t_fresh th = false -> pend_of (c_hist c) !! t = Some (f_call f)).
  { intros th f Hth Hst Hf. rewrite HH, Hth. unfold cur_call. rewrite Hst, Hf. reflexivity. }
  assert (Set_ : forall th th' hist' insts um b p,
     nth_error (c_threads c) t = Some th -> p !! t = cur_call th' -> (forall t', t' <> t -> p !! t' = pend_of (c_hist c) !! t') ->
     pend_of hist' = p -> HistOK (Config insts um (set_nth_list t th' (c_threads c)) hist' b)).
  { intros th th' hist' insts um b p Hth Hp Ho Hh t'. cbn. rewrite Hh.
    assert (Hl : t < length (c_threads c)) by (eapply nth_error_lt; eauto).
    destruct (decide (t' = t)) as [->|N].
    - rewrite nth_error_set_nth_list_eq by exact Hl. exact Hp.
    - rewrite nth_error_set_nth_list_ne by auto. rewrite Ho by exact N. apply HH. }
  destruct H as [th f um' r Hth Hst Hpl Hsp|th f k Hth Hst Hpl Hsp|th f i i' f' Hth Hst Hpl Hi Hsf|th f i i' r Hth Hst Hpl Hi Hsf];
    (split; [|exists th, f; split; [exact Hth|split; [exact Hst|]]]); unfold inv_ev; fold (maybe_inv (t_fresh th) t (f_call f)); cbn [c_hist].
  - eapply Set_; [exact Hth| | |unfold pend_of; rewrite hfold_inv_res by eauto; reflexivity].
    + cbn [fst]. rewrite lookup_delete, cur_call_next_call. reflexivity.
    + intros t' N. cbn [fst]. rewrite lookup_delete_ne by auto. reflexivity.
  - right. exists r. split; [|reflexivity]. unfold completed at 1. rewrite hfold_inv_res by eauto. reflexivity.
  - eapply Set_; [exact Hth| | |unfold pend_of; rewrite hfold_inv_res by eauto; reflexivity].
    + cbn [fst]. rewrite lookup_delete. reflexivity.
    + intros t' N. cbn [fst]. rewrite lookup_delete_ne by auto. reflexivity.
  - right. exists (RPanic k). split; [|reflexivity]. unfold completed at 1. rewrite hfold_inv_res by eauto. reflexivity.
  - eapply Set_; [exact Hth| | |unfold pend_of; rewrite hfold_inv by eauto; reflexivity].
    + cbn [fst]. rewrite lookup_insert. unfold cur_call. cbn.
      f_equal. symmetry. eapply sf_call; eauto.
    + intros t' N. cbn [fst]. rewrite lookup_insert_ne by auto. reflexivity.
  - left. unfold completed at 1. rewrite hfold_inv by eauto. reflexivity.
  - eapply Set_; [exact Hth| | |unfold pend_of; rewrite hfold_inv_res by eauto; reflexivity].
    + cbn [fst]. rewrite lookup_delete, cur_call_next_call. reflexivity.
    + intros t' N. cbn [fst]. rewrite lookup_delete_ne by auto. reflexivity.
  - right. eexists. split; [|reflexivity]. unfold completed at 1. rewrite hfold_inv_res by eauto. reflexivity.
Qed.

Lemma HistOK_init n progs : HistOK (init_config n progs).
Proof.
  intros t. cbn. rewrite nth_error_map. unfold pend_of, hfold. cbn. rewrite lookup_empty.
  destruct (nth_error progs t) as [p|]; [|reflexivity]. cbn. unfold next_call. cbn. destruct p; reflexivity.
Qed.

(* ================================================================== *)
(* Part 1. insert-only programs                                       *)
(* ================================================================== *)
Definition io_call (c : call) : Prop :=
  match c with CLoad i _ | CLoadOrStore i _ _ _ => i = 0%nat | _ => False end.

Lemma io_flat c : io_call c -> flat_call c.
Proof. destruct c; cbn; tauto. Qed.

(* every allocated entry holds a value *)
Definition all_val (s : mstate) : Prop :=
  (forall e p, ents s !! e = Some p -> e < next_e s /\ exists v, p = PVal v) /\
  (forall e, e < next_e s -> is_Some (ents s !! e)).

(* what a step may do: allocate; entries never change; associations never go away *)
Definition ext (s s' : mstate) : Prop :=
  next_e s <= next_e s' /\
  (forall e p, ents s !! e = Some p -> ents s' !! e = Some p) /\
  (forall k e, reach_any s k e -> reach_any s' k e).

(* key k is associated with an entry holding m *)
Definition kval (s : mstate) (k m : Z) : Prop := exists e, reach_any s k e /\ ents s !! e = Some (PVal m).

Lemma ext_refl s : ext s s.
Proof. repeat split; auto. Qed.
Lemma ext_trans a b c : ext a b -> ext b c -> ext a c.
Proof. intros (A1 & A2 & A3) (B1 & B2 & B3). repeat split; eauto. lia. Qed.
Lemma kval_ext s s' k m : ext s s' -> kval s k m -> kval s' k m.
Proof. intros (_ & E2 & E3) (e & H1 & H2). exists e. eauto. Qed.

Lemma get_ent_val s e v : get_ent s e = PVal v -> ents s !! e = Some (PVal v).
Proof. unfold get_ent. destruct (ents s !! e); cbn; congruence. Qed.
Lemma all_val_get s e : all_val s -> e < next_e s -> exists v, get_ent s e = PVal v /\ ents s !! e = Some (PVal v).
Proof.
  intros [H1 H2] He. destruct (H2 e He) as [p Hp]. destruct (H1 e p Hp) as [_ [v ->]].
  exists v. unfold get_ent. rewrite Hp. auto.
Qed.
Lemma all_val_not_exp s e : all_val s -> e < next_e s -> is_exp s e = false.
Proof. intros Ha He. destruct (all_val_get s e Ha He) as (v & Hv & _). unfold is_exp. rewrite Hv. reflexivity. Qed.

(* the key -> entry association is functional *)
Definition kfun (s : mstate) : Prop := forall k e1 e2, reach_any s k e1 -> reach_any s k e2 -> e1 = e2.

Lemma kfun_WF_ad s : WF_ad s -> kfun s.
Proof.
  intros [Hcov _] k e1 e2 [H1|H1] [H2|H2]; try congruence; unfold dirty_lookup in *;
    destruct (dirty s) as [d|] eqn:Hd; try discriminate.
  - specialize (Hcov d k e1 eq_refl H1). rewrite H2 in Hcov. destruct (is_exp s e1); congruence.
  - specialize (Hcov d k e2 eq_refl H2). rewrite H1 in Hcov. destruct (is_exp s e2); congruence.
Qed.

Lemma kfun_loop s rdm key done : loop_inv s rdm key done -> kfun s.
Proof.
  intros (_ & _ & _ & d & Hd & _ & L6) k e1 e2 [H1|H1] [H2|H2]; try congruence; unfold dirty_lookup in *; rewrite Hd in *.
  - apply L6 in H2 as [_ H2]. congruence.
  - apply L6 in H1 as [_ H1]. congruence.
Qed.

Lemma kfun_WFL s f : in_cs f = true -> WFL s f -> kfun s.
Proof.
  unfold in_cs, WFL. intros Hcs [_ H]. destruct (cs_class f); try discriminate.
  - apply kfun_WF_ad, H.
  - apply kfun_WF_ad, H.
  - apply kfun_WF_ad, H.
  - apply kfun_WF_ad, H.
  - eapply kfun_loop, H.
  - destruct H as (vis & _ & _ & _ & H). eapply kfun_loop, H.
  - destruct H as [H _]. eapply kfun_loop, H.
Qed.

Lemma kval_fun s k m1 m2 : kfun s -> kval s k m1 -> kval s k m2 -> m1 = m2.
Proof. intros Hf (e1 & A1 & A2) (e2 & B1 & B2). assert (e1 = e2) by eauto. subst. congruence. Qed.

(* ---- the local invariant of a frame ---- *)
Definition e_is_key (l : label) : bool :=
  match l with E_load | Tlos_load1 | Tlos_cas | Tlos_load2 | Unexpunge_cas | Load_unlock | Miss_store => true | _ => false end.
Definition los_known (f : frame) : bool :=
  match f_pc f with
  | LOS_unlock => true
  | Miss_store => match f_call f with CLoadOrStore _ _ _ _ => true | _ => false end
  | l => is_post_label l
  end.
(* stable under [ext]: holds for the frames of all threads *)
Definition FI (s : mstate) (f : frame) : Prop :=
  (e_is_key (f_pc f) = true -> forall e, f_e f = Some e -> reach_any s (key_of (f_call f)) e) /\
  (los_known f = true -> kval s (key_of (f_call f)) (f_los f).1).
(* for the lock holder only: missLocked is only reached with a dirty map *)
Definition LH (s : mstate) (f : frame) : Prop :=
  match f_pc f with
  | Miss_store => dirty s <> None
  | Tlos_load1 | Tlos_cas | Tlos_load2 => f_mode f = MLockedDirty -> dirty s <> None
  | _ => True
  end.

Lemma FI_ext s s' f : ext s s' -> FI s f -> FI s' f.
Proof. intros He [H1 H2]. pose proof He as (_ & _ & E3). split; eauto using kval_ext. Qed.

Lemma FI_new s c : FI s (new_frame c).
Proof. split; destruct c; discriminate. Qed.

(* the result of a call, once it returns *)
Definition res_val (s : mstate) (k : Z) (r : res) : Prop :=
  match r with RLos m _ => kval s k m | ROpt (Some x) => kval s k x | _ => True end.

(* ---- the state transformers of the lock holder ---- *)
Lemma ext_misses s m : ext s (st_with_misses s m).
Proof. repeat split; auto. Qed.
Lemma all_val_misses s m : all_val s -> all_val (st_with_misses s m).
Proof. intros H. exact H. Qed.

Lemma ext_promote s : WF_core s -> WF_ad s -> all_val s -> dirty s <> None ->
  ext s (MState (ents s) (next_e s) (default ∅ (dirty s)) false None 0).
Proof.
  intros Hc [Hcov _] Ha Hd. destruct (dirty s) as [d|] eqn:E; [|congruence]. repeat split; auto. cbn.
  intros k e [H|H]; left; cbn.
  - rewrite (Hcov d k e eq_refl H). rewrite all_val_not_exp; [reflexivity|exact Ha|]. eapply wf_bound; eauto. left. exact H.
  - unfold dirty_lookup in H. rewrite E in H. exact H.
Qed.

Lemma ext_insert_new s d key v am :
  all_val s -> dirty s = Some d -> d !! key = None ->
  let s' := MState (<[next_e s := PVal v]> (ents s)) (S (next_e s)) (read_m s) am (Some (<[key := next_e s]> d)) (misses s) in
  all_val s' /\ ext s s' /\ kval s' key v.
Proof.
  intros [A1 A2] Hd Hk s'. split; [|split].
  - split; cbn.
    + intros e p H. destruct (decide (e = next_e s)) as [->|N].
      * rewrite lookup_insert in H. injection H as <-. split; [lia|eauto].
      * rewrite lookup_insert_ne in H by congruence. destruct (A1 e p H). split; [lia|assumption].
    + intros e He. destruct (decide (e = next_e s)) as [->|N].
      * rewrite lookup_insert. eauto.
      * rewrite lookup_insert_ne by congruence. apply A2. lia.
  - split; [cbn; lia|]. split; cbn.
    + intros e p H. destruct (A1 e p H) as [He _]. rewrite lookup_insert_ne by lia. exact H.
    + intros k e [H|H]; [left; exact H|right]. unfold dirty_lookup in *. cbn. rewrite Hd in H.
      rewrite lookup_insert_ne by congruence. exact H.
  - exists (next_e s). split; [right|]; cbn; apply lookup_insert.
Qed.

Lemma ext_dirty_read s : dirty s = None -> ext s (st_with_dirty s (Some ∅)).
Proof.
  intros Hd. repeat split; auto. intros k e [H|H]; [left; exact H|]. unfold dirty_lookup in H. rewrite Hd in H. discriminate.
Qed.

Lemma ext_loop_copy s rdm key vis ck e s' :
  loop_inv s rdm key vis -> ck ∉ vis -> dirty_insert s ck e = Ok s' -> ext s s' /\ ents s' = ents s /\ next_e s' = next_e s.
Proof.
  intros (_ & _ & _ & d & Hd & _ & L6) Hnv H. unfold dirty_insert in H. rewrite Hd in H. injection H as <-.
  split; [|split; reflexivity]. repeat split; auto. cbn.
  intros k e0 [H|H]; [left; exact H|right]. unfold dirty_lookup in *. cbn. rewrite Hd in H.
  rewrite lookup_insert_ne; [exact H|]. intros <-. apply L6 in H as [H _]. contradiction.
Qed.

Lemma all_val_same s s' : ents s' = ents s -> next_e s' = next_e s -> all_val s -> all_val s'.
Proof. unfold all_val. intros -> ->. auto. Qed.

Definition io_out (s' : mstate) (k : Z) (o : outcome) : Prop :=
  match o with
  | Continue f' => FI s' f' /\ (in_cs f' = true -> LH s' f')
  | Return r => res_val s' k r
  | Callback _ _ _ => True
  end.

Lemma reach_val s k e : all_val s -> WF_core s -> reach_any s k e -> exists v, get_ent s e = PVal v /\ ents s !! e = Some (PVal v).
Proof. intros Ha Hc H. apply all_val_get; [exact Ha|]. eapply wf_bound; eauto. Qed.

Ltac same_state := split; [assumption|split; [apply ext_refl|split; [reflexivity|]]].
Ltac in_cs_is b Hl := 
  match goal with |- context [in_cs ?f] => 
    let Hin := fresh "Hin" in assert (Hin : in_cs f = b) by (unfold in_cs, cs_class; rewrite Hl; reflexivity) end.

Ltac fi_simpl Hcall := unfold io_out, res_val, FI, LH, los_known, in_cs, cs_class; cbn; rewrite ?Hcall; cbn.
Ltac fi_easy := repeat split; try discriminate; try (intros; exact I); try (intros; discriminate).

Ltac cs_info Hcs Hl :=
  let Hw := fresh "Hw" in let Hlh := fresh "Hlh" in let Hin := fresh "Hin" in
  match type of Hcs with ?X = true -> _ => assert (Hin : X = true) by (unfold in_cs, cs_class; rewrite Hl; reflexivity) end;
  destruct (Hcs Hin) as [[_ Hw] Hlh]; unfold cs_class in Hw; rewrite Hl in Hw; unfold LH in Hlh; rewrite Hl in Hlh;
  repeat match type of Hw with context [f_call ?f] => match goal with Hc : f_call f = _ |- _ => rewrite Hc in Hw end end; cbn [key_of] in Hw.

Lemma io_sf t i f ch i' o :
  io_call (f_call f) -> pc_ok (f_call f) (f_pc f) = true -> frame_ok f ->
  all_val (i_st i) -> WF_core (i_st i) -> (in_cs f = true -> WFL (i_st i) f /\ LH (i_st i) f) -> FI (i_st i) f ->
  step_frame t i f ch = Some (Ok (i', o)) ->
  all_val (i_st i') /\ ext (i_st i) (i_st i') /\ (in_cs f = false -> i_st i' = i_st i) /\
  io_out (i_st i') (key_of (f_call f)) o.
Proof.
  intros Hio Hpc [He Hst Hdel Hpost] Ha Hc Hcs [F1 F2] H. unfold step_frame in H.
  assert (Hv : forall k e, reach_any (i_st i) k e -> exists v, ent i e = PVal v /\ ents (i_st i) !! e = Some (PVal v))
    by (intros; eapply reach_val; eauto).
  destruct (f_call f) as [j k|?|j k v p| | |] eqn:Hcall; try contradiction; cbn in Hio; subst j;
  destruct (f_pc f) eqn:Hl; try discriminate Hpc; try discriminate H; try (destruct p; discriminate Hpc);
    cbn in He, F1; unfold los_known in F2; rewrite Hl, ?Hcall in F2; cbn in F2; cbn [key_of] in *.
  - (* Load_read1 *)
    repeat case_match; simplify_eq; same_state; fi_simpl Hcall; fi_easy.
    intros _ e0 [= <-]. left. assumption.
  - (* Load_lock *)
    repeat case_match; simplify_eq; same_state; fi_simpl Hcall; fi_easy.
  - (* Load_read2 *)
    cs_info Hcs Hl. unfold after_miss in H.
    repeat case_match; simplify_eq; cbn [i_st with_st]; (split; [assumption|split; [first [apply ext_refl|apply ext_misses]|split; [intros; try congruence; try reflexivity|]]]);
      fi_simpl Hcall; fi_easy.
    all: try (intros _ e0 E0; first [left; congruence|right; exact E0]).
    all: try (intros _; eapply wf_amended; eauto; fail).
  - (* Load_unlock *)
    repeat case_match; simplify_eq; same_state; fi_simpl Hcall; fi_easy. intros _ e0 E0. apply F1; congruence.
  - (* E_load *)
    destruct (f_e f) as [e|] eqn:Hfe; [|exfalso; apply He; reflexivity].
    destruct (Hv k e (F1 eq_refl e eq_refl)) as (v & Hv1 & Hv2). rewrite Hv1 in H. simplify_eq. same_state.
    fi_simpl Hcall. exists e. auto.
  - (* Miss_store *)
    cs_info Hcs Hl. simplify_eq. cbn [i_st with_st].
    assert (Hx := ext_promote _ Hc Hw Ha Hlh).
    split; [exact Ha|split; [exact Hx|split; [intros; congruence|]]]. fi_simpl Hcall. fi_easy.
    intros _ e0 E0. apply Hx. auto.
  - (* Unexpunge_cas *)
    cs_info Hcs Hl. destruct Hw as [Hw Hk].
    destruct (f_e f) as [e|] eqn:Hfe; [|exfalso; apply He; reflexivity].
    destruct (Hv k e (F1 eq_refl e eq_refl)) as (v0 & Hv1 & Hv2). rewrite Hv1 in H. simplify_eq. same_state.
    fi_simpl Hcall. fi_easy. intros _ e0 E0. apply F1; congruence.
  - (* LOS_read1 *)
    repeat case_match; simplify_eq; same_state; fi_simpl Hcall; fi_easy.
    intros _ e0 [= <-]. left. assumption.
  - (* LOS_lock *)
    repeat case_match; simplify_eq; same_state; fi_simpl Hcall; fi_easy.
  - (* LOS_read2 *)
    cs_info Hcs Hl. unfold new_entry, dirty_insert, bind in H. cbn in H.
    destruct (read_m (i_st i) !! k) as [n|] eqn:Hrk; [|destruct (dirty_lookup (i_st i) k) as [e'|] eqn:Hdk;
      [|destruct (amended (i_st i)) eqn:Ham; [|destruct (dirty (i_st i)) as [d|] eqn:Hd]]].
    + injection H as <- <-. same_state. fi_simpl Hcall. fi_easy. intros _ e0 [= <-]. left. assumption.
    + injection H as <- <-. same_state. fi_simpl Hcall. fi_easy.
      * intros _ e0 [= <-]. right. assumption.
      * intros _ _. unfold dirty_lookup in *. destruct (dirty (i_st i)); congruence.
    + unfold dirty_lookup in *. destruct (dirty (i_st i)) as [d|] eqn:Hd; [|discriminate H]. injection H as <- <-.
      destruct (ext_insert_new (i_st i) d k v (amended (i_st i)) Ha Hd Hdk) as (A1 & A2 & A3). rewrite Ham in *.
      split; [exact A1|split; [exact A2|split; [intros; congruence|]]]. fi_simpl Hcall. fi_easy. intros _. exact A3.
    + injection H as <- <-. same_state. fi_simpl Hcall. fi_easy.
    + injection H as <- <-. same_state. fi_simpl Hcall. fi_easy.
  - (* LOS_amend *)
    cs_info Hcs Hl. destruct Hw as [(L1 & L2 & L3 & d & L4 & L5 & L6) Hall].
    unfold new_entry, dirty_insert, bind, st_with_read in H. cbn in H. rewrite L4 in H. injection H as <- <-. cbn [i_st with_st].
    assert (Hdk : d !! k = None). { destruct (d !! k) as [e0|] eqn:E; [|reflexivity]. apply L6 in E as [_ E]. congruence. }
    rewrite L1.
    destruct (ext_insert_new (i_st i) d k v true Ha L4 Hdk) as (A1 & A2 & A3).
    split; [exact A1|split; [exact A2|split; [intros; congruence|]]]. fi_simpl Hcall. fi_easy. intros _. exact A3.
  - (* LOS_unlock *)
    unfold los_return in H. rewrite ?Hcall in H. cbn in H. destruct (post_label p) eqn:Hp; injection H as <- <-; same_state.
    + destruct p; cbn in Hp; simplify_eq; fi_simpl Hcall; fi_easy; exact F2.
    + apply F2. reflexivity.
  - (* Tlos_load1 *)
    destruct (f_e f) as [e|] eqn:Hfe; [|exfalso; apply He; reflexivity].
    destruct (Hv k e (F1 eq_refl e eq_refl)) as (v0 & Hv1 & Hv2). rewrite Hv1 in H.
    assert (Hkv : kval (i_st i) k v0) by (exists e; split; [apply F1; auto|exact Hv2]).
    unfold tlos_done in H. destruct (f_mode f) eqn:Hm.
    + unfold los_return in H. rewrite ?Hcall in H. cbn in H. destruct (post_label p) eqn:Hp; injection H as <- <-; same_state.
      * destruct p; cbn in Hp; simplify_eq; fi_simpl Hcall; fi_easy; intros _; exact Hkv.
      * exact Hkv.
    + injection H as <- <-. same_state. fi_simpl Hcall. fi_easy. intros _; exact Hkv.
    + assert (Hin : in_cs f = true) by (unfold in_cs, cs_class; rewrite Hl, Hm; reflexivity).
      destruct (Hcs Hin) as [_ Hlh]. unfold LH in Hlh. rewrite Hl in Hlh. specialize (Hlh Hm).
      unfold after_miss in H. destruct (misses (i_st i) + 1 <? dirty_len (i_st i))%Z; injection H as <- <-; cbn [i_st with_st];
        (split; [exact Ha|split; [apply ext_misses|split; [intros; congruence|]]]); fi_simpl Hcall; fi_easy;
        try (intros _; exact Hkv); try (intros _; exact Hlh).
      intros _ e0 E0. apply F1; congruence.
  - (* Tlos_cas *)
    destruct (f_e f) as [e|] eqn:Hfe; [|exfalso; apply He; reflexivity].
    destruct (Hv k e (F1 eq_refl e eq_refl)) as (v0 & Hv1 & Hv2). rewrite Hv1 in H. injection H as <- <-. same_state.
    fi_simpl Hcall. fi_easy.
    + intros _ e0 E0. apply F1; congruence.
    + intros Hmode Hm. assert (Hin : in_cs f = true) by (unfold in_cs, cs_class; rewrite Hl, Hm; reflexivity).
      destruct (Hcs Hin) as [_ Hlh]. unfold LH in Hlh. rewrite Hl in Hlh. auto.
  - (* Tlos_load2 *)
    destruct (f_e f) as [e|] eqn:Hfe; [|exfalso; apply He; reflexivity].
    destruct (Hv k e (F1 eq_refl e eq_refl)) as (v0 & Hv1 & Hv2). rewrite Hv1 in H.
    assert (Hkv : kval (i_st i) k v0) by (exists e; split; [apply F1; auto|exact Hv2]).
    unfold tlos_done in H. destruct (f_mode f) eqn:Hm.
    + unfold los_return in H. rewrite ?Hcall in H. cbn in H. destruct (post_label p) eqn:Hp; injection H as <- <-; same_state.
      * destruct p; cbn in Hp; simplify_eq; fi_simpl Hcall; fi_easy; intros _; exact Hkv.
      * exact Hkv.
    + injection H as <- <-. same_state. fi_simpl Hcall. fi_easy. intros _; exact Hkv.
    + assert (Hin : in_cs f = true) by (unfold in_cs, cs_class; rewrite Hl, Hm; reflexivity).
      destruct (Hcs Hin) as [_ Hlh]. unfold LH in Hlh. rewrite Hl in Hlh. specialize (Hlh Hm).
      unfold after_miss in H. destruct (misses (i_st i) + 1 <? dirty_len (i_st i))%Z; injection H as <- <-; cbn [i_st with_st];
        (split; [exact Ha|split; [apply ext_misses|split; [intros; congruence|]]]); fi_simpl Hcall; fi_easy;
        try (intros _; exact Hkv); try (intros _; exact Hlh).
      intros _ e0 E0. apply F1; congruence.
  - (* Miss_store *)
    cs_info Hcs Hl. simplify_eq. cbn [i_st with_st].
    assert (Hx := ext_promote _ Hc Hw Ha Hlh).
    split; [exact Ha|split; [exact Hx|split; [intros; congruence|]]]. fi_simpl Hcall. fi_easy.
    intros _. eapply kval_ext; eauto.
  - (* Dirty_read *)
    cs_info Hcs Hl. destruct Hw as (Hw & Hd & Hk). injection H as <- <-. cbn [i_st with_st].
    split; [exact Ha|split; [apply ext_dirty_read, Hd|split; [intros; congruence|]]].
    unfold dirty_next. case_match; fi_simpl Hcall; fi_easy.
  - (* Dirty_iter *)
    repeat case_match; simplify_eq; same_state; fi_simpl Hcall; fi_easy.
  - (* Expunge_load1 *)
    cs_info Hcs Hl. destruct Hw as (vis & Hvis & Hnv & Hcur & Hloop).
    destruct (f_e f) as [e|] eqn:Hfe; [|exfalso; apply He; reflexivity].
    assert (Hrk : read_m (i_st i) !! f_curk f = Some e) by (destruct Hloop as [<- _]; exact Hcur).
    destruct (Hv (f_curk f) e (or_introl Hrk)) as (v0 & Hv1 & Hv2). rewrite Hv1 in H.
    unfold expunge_done, bind in H.
    destruct (dirty_insert (i_st i) (f_curk f) e) as [s'|] eqn:Hs'; [|discriminate]. cbn in H. injection H as <- <-.
    destruct (ext_loop_copy _ _ _ _ _ _ _ Hloop Hnv Hs') as (A1 & A2 & A3). cbn [i_st with_st].
    split; [eapply all_val_same; eauto|split; [exact A1|split; [intros; congruence|]]].
    unfold dirty_next. case_match; fi_simpl Hcall; fi_easy.
  - (* Expunge_cas *)
    cs_info Hcs Hl. destruct Hw as (vis & Hvis & Hnv & Hcur & Hloop).
    destruct (f_e f) as [e|] eqn:Hfe; [|exfalso; apply He; reflexivity].
    assert (Hrk : read_m (i_st i) !! f_curk f = Some e) by (destruct Hloop as [<- _]; exact Hcur).
    destruct (Hv (f_curk f) e (or_introl Hrk)) as (v0 & Hv1 & Hv2). rewrite Hv1 in H. injection H as <- <-.
    same_state. fi_simpl Hcall. fi_easy.
  - (* Expunge_load2 *)
    cs_info Hcs Hl. destruct Hw as (vis & Hvis & Hnv & Hcur & Hloop).
    destruct (f_e f) as [e|] eqn:Hfe; [|exfalso; apply He; reflexivity].
    assert (Hrk : read_m (i_st i) !! f_curk f = Some e) by (destruct Hloop as [<- _]; exact Hcur).
    destruct (Hv (f_curk f) e (or_introl Hrk)) as (v0 & Hv1 & Hv2). rewrite Hv1 in H.
    unfold expunge_done, bind in H.
    destruct (dirty_insert (i_st i) (f_curk f) e) as [s'|] eqn:Hs'; [|discriminate]. cbn in H. injection H as <- <-.
    destruct (ext_loop_copy _ _ _ _ _ _ _ Hloop Hnv Hs') as (A1 & A2 & A3). cbn [i_st with_st].
    split; [eapply all_val_same; eauto|split; [exact A1|split; [intros; congruence|]]].
    unfold dirty_next. case_match; fi_simpl Hcall; fi_easy.
Qed.

(* ---- facts from Inv ---- *)
Lemma Inv_WF_core c j i : Inv c -> nth_error (c_insts c) j = Some i -> WF_core (i_st i).
Proof.
  intros HI Hi. destruct (inv_insts c HI j i Hi) as [Hm Hw]. destruct (i_mu i) as [t|] eqn:E; [|apply Hw].
  destruct (proj1 (Hm t) eq_refl) as (f & Tt & _). apply (Hw f Tt).
Qed.

Lemma Inv_WFL c j i t f : Inv c -> nth_error (c_insts c) j = Some i -> top_frame c t = Some f ->
  call_inst (f_call f) = j -> in_cs f = true -> i_mu i = Some t /\ WFL (i_st i) f.
Proof.
  intros HI Hi Tt Hj Hcs. destruct (inv_insts c HI j i Hi) as [Hm Hw].
  assert (Hmu : i_mu i = Some t) by (apply Hm; exists f; auto). rewrite Hmu in Hw. auto.
Qed.

Lemma step_post_res um f um' r : step_post um f = Some (Ok (um', Return r)) -> r = RUnit \/ exists b, r = RBool b.
Proof. unfold step_post. intros H. repeat case_match; simplify_eq; eauto. Qed.

Lemma HistOK_pend c t th f : HistOK c -> nth_error (c_threads c) t = Some th -> t_stack th = [f] ->
  t_fresh th = false -> pend_of (c_hist c) !! t = Some (f_call f).
Proof. intros HH Hth Hst Hf. rewrite HH, Hth. unfold cur_call. rewrite Hst, Hf. reflexivity. Qed.

Lemma completed_ret h t c r fresh : (fresh = false -> pend_of h !! t = Some c) ->
  completed (h ++ maybe_inv fresh t c ++ [EvRes t r]) = completed h ++ [(t, c, r)].
Proof. intros H. unfold completed at 1. rewrite hfold_inv_res by exact H. reflexivity. Qed.
Lemma completed_cont h t c fresh : (fresh = false -> pend_of h !! t = Some c) ->
  completed (h ++ maybe_inv fresh t c) = completed h.
Proof. intros H. unfold completed at 1. rewrite hfold_inv by exact H. reflexivity. Qed.

Lemma res_val_ext s s' k r : ext s s' -> res_val s k r -> res_val s' k r.
Proof. intros He. destruct r as [|[x|]| | | | |]; cbn; eauto using kval_ext. Qed.

(* ---- the invariant of insert-only configurations ---- *)
Definition inst_io (c : config) (i : inst) : Prop :=
  all_val (i_st i) /\
  (forall t f, top_frame c t = Some f -> FI (i_st i) f /\ (in_cs f = true -> LH (i_st i) f)) /\
  (forall t cl r, (t, cl, r) ∈ completed (c_hist c) -> res_val (i_st i) (key_of cl) r).

Record IOInv (c : config) : Prop := {
  io_inv : Inv c;
  io_shape : Shaped io_call c;
  io_pc : PcOK c;
  io_hist : HistOK c;
  io_inst : exists i, c_insts c = [i] /\ inst_io c i
}.

(* the instance's state only grows *)
Definition cext (c c' : config) : Prop :=
  forall i i', c_insts c = [i] -> c_insts c' = [i'] -> ext (i_st i) (i_st i').

Lemma io_call_not_delete c : io_call c -> forall r, match c with CDelete _ _ => RUnit | _ => r end = r.
Proof. destruct c; cbn; try contradiction; reflexivity. Qed.

Theorem IOInv_step c t ch c' : IOInv c -> step c t ch = Some c' -> IOInv c' /\ cext c c'.
Proof.
  intros [HI HS HP HH (i & Hi & Ha & Hf & Hr)] Hstep.
  assert (HS0 : Shaped flat_call c) by (eapply Shaped_weaken; [apply io_flat|exact HS]).
  pose proof (step_fstep _ _ _ _ HI HS0 Hstep) as Hfs.
  assert (HI' : Inv c') by (eapply Inv_step; eauto).
  assert (HS' : Shaped io_call c') by exact (Shaped_fstep _ _ _ _ _ HI HS Hfs).
  assert (HP' : PcOK c') by exact (PcOK_fstep _ _ _ _ HP Hfs).
  destruct (hist_fstep _ _ _ _ HH Hfs) as [HH' _].
  assert (Hi0 : nth_error (c_insts c) 0 = Some i) by (rewrite Hi; reflexivity).
  destruct Hfs as [th f um' r Hth Hst Hpl Hsp|th f k Hth Hst Hpl Hsp|th f i0 i' f' Hth Hst Hpl Hi1 Hsf|th f i0 i' r Hth Hst Hpl Hi1 Hsf];
    (assert (Hl : t < length (c_threads c)) by (eapply nth_error_lt; eauto));
    (assert (Tt : top_frame c t = Some f) by (unfold top_frame; rewrite Hth, Hst; reflexivity));
    (assert (P0 : t_fresh th = false -> pend_of (c_hist c) !! t = Some (f_call f)) by (eapply HistOK_pend; eauto)).
  - (* keyed-mutex step *)
    split; [|intros i1 i2 E1 E2; cbn in E2; assert (i1 = i2) by congruence; subst; apply ext_refl].
    constructor; auto. exists i. split; [exact Hi|]. split; [exact Ha|]. split.
    + intros t' f0. erewrite top_frame_set; [|exact Hl|reflexivity].
      destruct (decide (t' = t)) as [->|N]; [|apply Hf].
      intros H. apply top_frame_next_call in H as [c0 ->]. split; [apply FI_new|]. rewrite in_cs_new. discriminate.
    + intros t' cl r'. cbn [c_hist]. unfold inv_ev. fold (maybe_inv (t_fresh th) t (f_call f)). rewrite completed_ret by exact P0.
      rewrite elem_of_app, elem_of_list_singleton. intros [H|[= -> -> ->]]; [eapply Hr; eauto|].
      destruct (step_post_res _ _ _ _ Hsp) as [->|[b ->]]; exact I.
  - (* ... panics *)
    split; [|intros i1 i2 E1 E2; cbn in E2; assert (i1 = i2) by congruence; subst; apply ext_refl].
    constructor; auto. exists i. split; [exact Hi|]. split; [exact Ha|]. split.
    + intros t' f0. erewrite top_frame_set; [|exact Hl|reflexivity].
      destruct (decide (t' = t)) as [->|N]; [|apply Hf]. discriminate.
    + intros t' cl r'. cbn [c_hist]. unfold inv_ev. fold (maybe_inv (t_fresh th) t (f_call f)). rewrite completed_ret by exact P0.
      rewrite elem_of_app, elem_of_list_singleton. intros [H|[= -> -> ->]]; [eapply Hr; eauto|]. exact I.
  - (* a step of the map, the call goes on *)
    assert (i0 = i) by congruence. subst i0.
    assert (Hio : io_call (f_call f)). { destruct (HS t th Hth) as [_ Hs]. rewrite Hst in Hs. exact Hs. }
    assert (Hj : call_inst (f_call f) = 0) by (destruct (f_call f); cbn in Hio; try contradiction; auto).
    destruct (Hf t f Tt) as [HFI HLH].
    destruct (io_sf t i f ch i' (Continue f') Hio (HP t f Tt) (inv_frames c HI t f Tt) Ha (Inv_WF_core c 0 i HI Hi0)) as (A1 & A2 & A3 & A4); auto.
    { intros Hcs. split; [apply (Inv_WFL c 0 i t f HI Hi0 Tt Hj Hcs)|auto]. }
    assert (Hoth : forall t' f0, t' <> t -> top_frame c t' = Some f0 -> FI (i_st i') f0 /\ (in_cs f0 = true -> LH (i_st i') f0)).
    { intros t' f0 N T0. destruct (Hf t' f0 T0) as [B1 B2]. split; [eapply FI_ext; eauto|]. intros Hcs0.
      assert (Hj0 : call_inst (f_call f0) = 0).
      { unfold top_frame in T0. destruct (nth_error (c_threads c) t') as [th0|] eqn:Hth0; [|discriminate].
        destruct (HS t' th0 Hth0) as [_ Hs]. destruct (t_stack th0) as [|f1 [|]]; try discriminate; try contradiction.
        cbn in T0. injection T0 as ->. destruct (f_call f0); cbn in Hs; try contradiction; auto. }
      destruct (Inv_WFL c 0 i t' f0 HI Hi0 T0 Hj0 Hcs0) as [Hmu _].
      destruct (in_cs f) eqn:Hcs.
      - destruct (Inv_WFL c 0 i t f HI Hi0 Tt Hj Hcs) as [Hmu' _]. congruence.
      - rewrite A3 by reflexivity. auto. }
    split; [|intros i1 i2 E1 E2; cbn in E2; rewrite Hi in E1, E2; cbn in E2; assert (i1 = i) by congruence; assert (i2 = i') by congruence; subst; exact A2].
    constructor; auto. exists i'. split; [cbn; rewrite Hi; reflexivity|]. split; [exact A1|]. split.
    + intros t' f0. erewrite top_frame_set; [|exact Hl|reflexivity].
      destruct (decide (t' = t)) as [->|N]; [|apply Hoth; exact N]. cbn. intros [= <-]. exact A4.
    + intros t' cl r'. cbn [c_hist]. unfold inv_ev. fold (maybe_inv (t_fresh th) t (f_call f)). rewrite completed_cont by exact P0.
      intros H. eapply res_val_ext; eauto.
  - (* ... the call returns *)
    assert (i0 = i) by congruence. subst i0.
    assert (Hio : io_call (f_call f)). { destruct (HS t th Hth) as [_ Hs]. rewrite Hst in Hs. exact Hs. }
    assert (Hj : call_inst (f_call f) = 0) by (destruct (f_call f); cbn in Hio; try contradiction; auto).
    destruct (Hf t f Tt) as [HFI HLH].
    destruct (io_sf t i f ch i' (Return r) Hio (HP t f Tt) (inv_frames c HI t f Tt) Ha (Inv_WF_core c 0 i HI Hi0)) as (A1 & A2 & A3 & A4); auto.
    { intros Hcs. split; [apply (Inv_WFL c 0 i t f HI Hi0 Tt Hj Hcs)|auto]. }
    assert (Hoth : forall t' f0, t' <> t -> top_frame c t' = Some f0 -> FI (i_st i') f0 /\ (in_cs f0 = true -> LH (i_st i') f0)).
    { intros t' f0 N T0. destruct (Hf t' f0 T0) as [B1 B2]. split; [eapply FI_ext; eauto|]. intros Hcs0.
      assert (Hj0 : call_inst (f_call f0) = 0).
      { unfold top_frame in T0. destruct (nth_error (c_threads c) t') as [th0|] eqn:Hth0; [|discriminate].
        destruct (HS t' th0 Hth0) as [_ Hs]. destruct (t_stack th0) as [|f1 [|]]; try discriminate; try contradiction.
        cbn in T0. injection T0 as ->. destruct (f_call f0); cbn in Hs; try contradiction; auto. }
      destruct (Inv_WFL c 0 i t' f0 HI Hi0 T0 Hj0 Hcs0) as [Hmu _].
      destruct (in_cs f) eqn:Hcs.
      - destruct (Inv_WFL c 0 i t f HI Hi0 Tt Hj Hcs) as [Hmu' _]. congruence.
      - rewrite A3 by reflexivity. auto. }
    split; [|intros i1 i2 E1 E2; cbn in E2; rewrite Hi in E1, E2; cbn in E2; assert (i1 = i) by congruence; assert (i2 = i') by congruence; subst; exact A2].
    constructor; auto. exists i'. split; [cbn; rewrite Hi; reflexivity|]. split; [exact A1|]. split.
    + intros t' f0. erewrite top_frame_set; [|exact Hl|reflexivity].
      destruct (decide (t' = t)) as [->|N]; [|apply Hoth; exact N].
      intros H. apply top_frame_next_call in H as [c0 ->]. split; [apply FI_new|]. rewrite in_cs_new. discriminate.
    + intros t' cl r'. cbn [c_hist]. unfold inv_ev. fold (maybe_inv (t_fresh th) t (f_call f)). rewrite completed_ret by exact P0.
      rewrite elem_of_app, elem_of_list_singleton. intros [H|[= -> -> ->]]; [eapply res_val_ext; eauto|].
      rewrite io_call_not_delete by exact Hio. exact A4.
Qed.

Definition io_progs (progs : list (list call)) : Prop := Forall (Forall io_call) progs.

Lemma all_val_empty : all_val empty_mstate.
Proof. split; cbn; [intros e p H; rewrite lookup_empty in H; discriminate|intros e H; lia]. Qed.

Theorem IOInv_init progs : io_progs progs -> IOInv (init_config 1 progs).
Proof.
  intros Hp. constructor.
  - apply Inv_init.
  - apply Shaped_init, Hp.
  - apply PcOK_init.
  - apply HistOK_init.
  - exists empty_inst. split; [reflexivity|]. split; [apply all_val_empty|]. split.
    + intros t f H. apply init_top in H as [c ->]. split; [apply FI_new|]. rewrite in_cs_new. discriminate.
    + intros t cl r H. cbn in H. inversion H.
Qed.

Lemma cext_refl c : cext c c.
Proof. intros i i' E1 E2. assert (i = i') by congruence. subst. apply ext_refl. Qed.

Lemma IOInv_run c sched : IOInv c -> IOInv (run_schedule c sched) /\ cext c (run_schedule c sched).
Proof.
  revert c. induction sched as [|[t ch] sched IH]; intros c H0; cbn; [split; [exact H0|apply cext_refl]|].
  destruct (step c t ch) as [c'|] eqn:E; cbn; [|apply IH, H0].
  destruct (IOInv_step _ _ _ _ H0 E) as [H1 H2]. destruct (IH c' H1) as [H3 H4]. split; [exact H3|].
  intros i i2 E1 E2. destruct (io_inst _ H1) as (i1 & Ei1 & _). eapply ext_trans; [apply H2|apply H4]; eauto.
Qed.

Theorem IOInv_reachable progs sched : io_progs progs -> IOInv (run_schedule (init_config 1 progs) sched).
Proof. intros Hp. apply IOInv_run, IOInv_init, Hp. Qed.

(* between a configuration of a run and a later one *)
Theorem io_ext progs s1 s2 i1 i2 : io_progs progs ->
  c_insts (run_schedule (init_config 1 progs) s1) = [i1] ->
  c_insts (run_schedule (init_config 1 progs) (s1 ++ s2)) = [i2] -> ext (i_st i1) (i_st i2).
Proof.
  intros Hp E1 E2. rewrite run_schedule_app in E2.
  destruct (IOInv_run _ s2 (IOInv_reachable progs s1 Hp)) as [_ H]. apply H; assumption.
Qed.

(* ---- 1. entries ---- *)
Theorem io_entries_are_values progs sched i e p : io_progs progs ->
  c_insts (run_schedule (init_config 1 progs) sched) = [i] ->
  ents (i_st i) !! e = Some p -> e < next_e (i_st i) /\ exists v, p = PVal v.
Proof.
  intros Hp Hi. destruct (io_inst _ (IOInv_reachable progs sched Hp)) as (i0 & Hi0 & [Ha _] & _).
  assert (i0 = i) by congruence. subst. apply Ha.
Qed.

Theorem io_allocated_entries_hold_values progs sched i e : io_progs progs ->
  c_insts (run_schedule (init_config 1 progs) sched) = [i] ->
  e < next_e (i_st i) -> exists v, get_ent (i_st i) e = PVal v.
Proof.
  intros Hp Hi He. destruct (io_inst _ (IOInv_reachable progs sched Hp)) as (i0 & Hi0 & Ha & _).
  assert (i0 = i) by congruence. subst. destruct (all_val_get _ _ Ha He) as (v & Hv & _). eauto.
Qed.

Theorem io_entries_never_change progs s1 s2 i1 i2 e p : io_progs progs ->
  c_insts (run_schedule (init_config 1 progs) s1) = [i1] ->
  c_insts (run_schedule (init_config 1 progs) (s1 ++ s2)) = [i2] ->
  ents (i_st i1) !! e = Some p -> ents (i_st i2) !! e = Some p.
Proof. intros Hp E1 E2. destruct (io_ext progs s1 s2 i1 i2 Hp E1 E2) as (_ & H & _). apply H. Qed.

(* ---- 2. the key -> entry association ---- *)
Lemma Inv_kfun c j i : Inv c -> nth_error (c_insts c) j = Some i -> kfun (i_st i).
Proof.
  intros HI Hi. destruct (inv_insts c HI j i Hi) as [Hm Hw]. destruct (i_mu i) as [t|] eqn:E.
  - destruct (proj1 (Hm t) eq_refl) as (f & Tt & _ & Hcs). eapply kfun_WFL; eauto.
  - apply kfun_WF_ad, Hw.
Qed.

Theorem io_assoc_functional progs sched i k e1 e2 : io_progs progs ->
  c_insts (run_schedule (init_config 1 progs) sched) = [i] ->
  reach_any (i_st i) k e1 -> reach_any (i_st i) k e2 -> e1 = e2.
Proof.
  intros Hp Hi. eapply (Inv_kfun _ 0); [apply (io_inv _ (IOInv_reachable progs sched Hp))|]. rewrite Hi. reflexivity.
Qed.

Theorem io_assoc_stable progs s1 s2 i1 i2 k e : io_progs progs ->
  c_insts (run_schedule (init_config 1 progs) s1) = [i1] ->
  c_insts (run_schedule (init_config 1 progs) (s1 ++ s2)) = [i2] ->
  reach_any (i_st i1) k e -> reach_any (i_st i2) k e.
Proof. intros Hp E1 E2. destruct (io_ext progs s1 s2 i1 i2 Hp E1 E2) as (_ & _ & H). apply H. Qed.

Theorem io_frame_entry progs sched i t f e : io_progs progs ->
  let c := run_schedule (init_config 1 progs) sched in
  c_insts c = [i] -> top_frame c t = Some f -> e_is_key (f_pc f) = true -> f_e f = Some e ->
  reach_any (i_st i) (key_of (f_call f)) e.
Proof.
  intros Hp c Hi Tt Hk He. destruct (io_inst _ (IOInv_reachable progs sched Hp)) as (i0 & Hi0 & _ & Hf & _).
  assert (i0 = i) by (fold c in Hi0; congruence). subst. destruct (Hf t f Tt) as [[H _] _]. auto.
Qed.

(* ---- 3. one value per key ---- *)
Definition key_value (c : config) (k m : Z) : Prop := exists i, c_insts c = [i] /\ kval (i_st i) k m.

(* the value a LoadOrStore k obtained (visible in the frame while the keyed mutex acts on it, or in
   the result of a plain LoadOrStore), or a Load k returned *)
Definition observed (c : config) (k m : Z) : Prop :=
  (exists t f, top_frame c t = Some f /\ is_post_label (f_pc f) = true /\ key_of (f_call f) = k /\ (f_los f).1 = m) \/
  (exists t v p l, (t, CLoadOrStore 0 k v p, RLos m l) ∈ completed (c_hist c)) \/
  (exists t, (t, CLoad 0 k, ROpt (Some m)) ∈ completed (c_hist c)).

Lemma observed_key_value c k m : IOInv c -> observed c k m -> key_value c k m.
Proof.
  intros HI H. destruct (io_inst _ HI) as (i & Hi & _ & Hf & Hr). exists i. split; [exact Hi|].
  destruct H as [(t & f & Tt & Hpl & <- & <-)|[(t & v & p & l & H)|(t & H)]].
  - destruct (Hf t f Tt) as [[_ H] _]. apply H. unfold los_known. destruct (f_pc f); try discriminate; reflexivity.
  - apply Hr in H. exact H.
  - apply Hr in H. exact H.
Qed.

Theorem key_value_stable progs s1 s2 k m : io_progs progs ->
  key_value (run_schedule (init_config 1 progs) s1) k m ->
  key_value (run_schedule (init_config 1 progs) (s1 ++ s2)) k m.
Proof.
  intros Hp (i1 & E1 & H). destruct (io_inst _ (IOInv_reachable progs (s1 ++ s2) Hp)) as (i2 & E2 & _).
  exists i2. split; [exact E2|]. exact (kval_ext _ _ _ _ (io_ext progs s1 s2 i1 i2 Hp E1 E2) H).
Qed.

Theorem key_value_functional progs sched k m1 m2 : io_progs progs ->
  let c := run_schedule (init_config 1 progs) sched in
  key_value c k m1 -> key_value c k m2 -> m1 = m2.
Proof.
  intros Hp c (i1 & E1 & H1) (i2 & E2 & H2). assert (i1 = i2) by congruence. subst.
  eapply kval_fun; eauto. eapply (Inv_kfun _ 0); [apply (io_inv _ (IOInv_reachable progs sched Hp))|].
  fold c. rewrite E2. reflexivity.
Qed.

Theorem one_value_per_key progs s1 s2 k m1 m2 : io_progs progs ->
  observed (run_schedule (init_config 1 progs) s1) k m1 ->
  observed (run_schedule (init_config 1 progs) (s1 ++ s2)) k m2 -> m1 = m2.
Proof.
  intros Hp H1 H2. apply observed_key_value in H1; [|apply IOInv_reachable, Hp].
  apply observed_key_value in H2; [|apply IOInv_reachable, Hp].
  eapply key_value_functional; [exact Hp| |exact H2]. apply key_value_stable; assumption.
Qed.

(* ================================================================== *)
(* 4. per-key mutual exclusion of the keyed mutexes                   *)
(* ================================================================== *)
(* ---- who holds what, computed from the history ---- *)
Definition hold : Type := nat * Z * bool.   (* thread, key, exclusively? *)

Definition acquires (c : call) (r : res) : option (Z * bool) :=
  match c, r with
  | CLoadOrStore _ k _ (PLock | PWLock), RUnit => Some (k, true)
  | CLoadOrStore _ k _ (PTryLock | PWTryLock), RBool true => Some (k, true)
  | CLoadOrStore _ k _ PRLock, RUnit => Some (k, false)
  | CLoadOrStore _ k _ PTryRLock, RBool true => Some (k, false)
  | _, _ => None
  end.
Definition releases (c : call) (r : res) : option (Z * bool) :=
  match c, r with
  | CLoadOrStore _ k _ (PUnlock | PWUnlock), RUnit => Some (k, true)
  | CLoadOrStore _ k _ PRUnlock, RUnit => Some (k, false)
  | _, _ => None
  end.

Fixpoint remove_first (x : hold) (l : list hold) : list hold :=
  match l with [] => [] | y :: l' => if decide (x = y) then l' else y :: remove_first x l' end.

Definition hold_step (hs : list hold) (x : nat * call * res) : list hold :=
  match acquires x.1.2 x.2 with
  | Some (k, b) => hs ++ [(x.1.1, k, b)]
  | None => match releases x.1.2 x.2 with Some (k, b) => remove_first (x.1.1, k, b) hs | None => hs end
  end.
Definition holders_of (l : list (nat * call * res)) : list hold := fold_left hold_step l [].
Definition holders (c : config) : list hold := holders_of (completed (c_hist c)).

Definition holds_excl (c : config) (t : nat) (k : Z) : Prop := (t, k, true) ∈ holders c.
Definition holds_shared (c : config) (t : nat) (k : Z) : Prop := (t, k, false) ∈ holders c.

Lemma holders_of_snoc l x : holders_of (l ++ [x]) = hold_step (holders_of l) x.
Proof. unfold holders_of. rewrite fold_left_app. reflexivity. Qed.

(* ---- remove_first ---- *)
Lemma remove_first_length x l : x ∈ l -> length l = S (length (remove_first x l)).
Proof.
  induction l as [|y l IH]; intros H; [inversion H|]. cbn. destruct (decide (x = y)) as [->|N]; [reflexivity|].
  cbn. rewrite <- IH; [reflexivity|]. apply elem_of_cons in H as [?|?]; [contradiction|assumption].
Qed.
Lemma remove_first_Forall (P : hold -> Prop) x l : Forall P l -> Forall P (remove_first x l).
Proof.
  induction l as [|y l IH]; intros H; [constructor|]. inversion H; subst. cbn.
  destruct (decide (x = y)); [assumption|]. constructor; auto.
Qed.
Lemma filter_remove_first_in (P : hold -> Prop) `{forall x, Decision (P x)} x l :
  P x -> base.filter P (remove_first x l) = remove_first x (base.filter P l).
Proof.
  intros Hx. induction l as [|y l IH]; [reflexivity|]. cbn [remove_first]. destruct (decide (x = y)) as [->|N].
  - rewrite filter_cons_True by exact Hx. cbn [remove_first]. rewrite decide_True by reflexivity. reflexivity.
  - rewrite !filter_cons. destruct (decide (P y)); [|exact IH]. cbn [remove_first]. rewrite decide_False by exact N. rewrite IH. reflexivity.
Qed.
Lemma filter_remove_first_out (P : hold -> Prop) `{forall x, Decision (P x)} x l :
  ~ P x -> base.filter P (remove_first x l) = base.filter P l.
Proof.
  intros Hx. induction l as [|y l IH]; [reflexivity|]. cbn [remove_first]. destruct (decide (x = y)) as [->|N].
  - rewrite filter_cons_False by exact Hx. reflexivity.
  - rewrite !filter_cons. destruct (decide (P y)); [|exact IH]. rewrite IH. reflexivity.
Qed.
Lemma filter_ext_in (P Q : hold -> Prop) `{forall x, Decision (P x)} `{forall x, Decision (Q x)} (l : list hold) :
  (forall x, x ∈ l -> (P x <-> Q x)) -> base.filter P l = base.filter Q l.
Proof.
  induction l as [|y l IH]; intros HPQ; [reflexivity|]. rewrite !filter_cons.
  assert (Hy := HPQ y (elem_of_list_here y l)).
  rewrite IH by (intros x Hx; apply HPQ; right; exact Hx).
  destruct (decide (P y)), (decide (Q y)); tauto.
Qed.

(* ---- the mutex of a key ---- *)
Definition kmut (s : mstate) (k : Z) : option Z :=
  match read_m s !! k with
  | Some e => e_load s e
  | None => match dirty_lookup s k with Some e => e_load s e | None => None end
  end.

Lemma e_load_Some s e m : e_load s e = Some m <-> ents s !! e = Some (PVal m).
Proof.
  unfold e_load, get_ent. destruct (ents s !! e) as [[| |v]|]; cbn; split; intros H; try discriminate; congruence.
Qed.

Lemma kmut_kval s k m : kfun s -> (kmut s k = Some m <-> kval s k m).
Proof.
  intros Hf. unfold kmut. split.
  - destruct (read_m s !! k) as [e|] eqn:E1.
    + intros H. exists e. split; [left; exact E1|apply e_load_Some, H].
    + destruct (dirty_lookup s k) as [e|] eqn:E2; [|discriminate].
      intros H. exists e. split; [right; exact E2|apply e_load_Some, H].
  - intros (e & Hr & He). destruct (read_m s !! k) as [e'|] eqn:E1.
    + assert (e' = e) by (eapply Hf; [left; exact E1|exact Hr]). subst. apply e_load_Some, He.
    + destruct Hr as [Hr|Hr]; [congruence|]. rewrite Hr. apply e_load_Some, He.
Qed.

Lemma kmut_ext s s' k m : kfun s -> kfun s' -> ext s s' -> kmut s k = Some m -> kmut s' k = Some m.
Proof. intros F1 F2 He H. apply kmut_kval; [exact F2|]. eapply kval_ext; [exact He|]. apply kmut_kval; assumption. Qed.

(* ---- the invariant ---- *)
Definition on_km (km : Z -> option Z) (m : Z) (h : hold) : Prop := km h.1.2 = Some m.
Global Instance on_km_dec km m h : Decision (on_km km m h).
Proof. unfold on_km. apply _. Defined.

Definition mutex_ok (st : umutex) (Hm : list hold) : Prop :=
  match st with
  | UFree => Hm = []
  | ULocked => exists t k, Hm = [(t, k, true)]
  | UReaders n => length Hm = n /\ Forall (fun h : hold => h.2 = false) Hm
  end.

Definition MInv (c : config) : Prop := exists i, c_insts c = [i] /\
  Forall (fun h : hold => is_Some (kmut (i_st i) h.1.2)) (holders c) /\
  forall m, mutex_ok (default UFree (c_um c !! m)) (base.filter (on_km (kmut (i_st i)) m) (holders c)).

(* thread t, about to take a step, only unlocks what it holds *)
Definition disciplined (c : config) (t : nat) : Prop := forall f, top_frame c t = Some f ->
  match f_pc f with
  | KM_Unlock | KRW_Unlock => holds_excl c t (key_of (f_call f))
  | KRW_RUnlock => holds_shared c t (key_of (f_call f))
  | _ => True
  end.

Fixpoint disc_from (c : config) (sched : list (nat * Z)) : Prop :=
  match sched with
  | [] => True
  | (t, ch) :: sched' => disciplined c t /\ disc_from (default c (step c t ch)) sched'
  end.

Lemma sf_ret_shape t i f ch i' r : io_call (f_call f) -> pc_ok (f_call f) (f_pc f) = true ->
  step_frame t i f ch = Some (Ok (i', Return r)) ->
  (exists o, r = ROpt o) \/ (exists a l, r = RLos a l).
Proof.
  intros Hio Hpc H. unfold step_frame in H.
  destruct (f_call f) as [j k|?|j k v p| | |] eqn:Hcall; try contradiction;
  destruct (f_pc f) eqn:Hl; try discriminate Hpc; try discriminate H; try (destruct p; discriminate Hpc);
    unfold expunge_done, tlos_done, bind in H; unfold after_miss, dirty_next, los_return, range_next in H;
    rewrite ?Hcall in H; repeat case_match; simplify_eq; eauto.
Qed.

Lemma pc_ok_post_label i k v p l : pc_ok (CLoadOrStore i k v p) l = true -> is_post_label l = true -> post_label p = Some l.
Proof. destruct l; cbn; try discriminate; destruct p; cbn; try discriminate; reflexivity. Qed.

Lemma remove_first_here x : remove_first x [x] = [].
Proof. cbn. rewrite decide_True by reflexivity. reflexivity. Qed.

Lemma length_zero_nil (l : list hold) : length l = 0 -> l = [].
Proof. destruct l; [reflexivity|discriminate]. Qed.

(* the step on the key's mutex, on the ghost level *)
Lemma mutex_post (km : Z -> option Z) (hs : list hold) (um um' : gmap Z umutex) (f : frame) t j k v p r m0 :
  f_call f = CLoadOrStore j k v p -> post_label p = Some (f_pc f) -> (f_los f).1 = m0 -> km k = Some m0 ->
  step_post um f = Some (Ok (um', Return r)) ->
  (forall m, mutex_ok (default UFree (um !! m)) (base.filter (on_km km m) hs)) ->
  match f_pc f with
  | KM_Unlock | KRW_Unlock => (t, k, true) ∈ hs
  | KRW_RUnlock => (t, k, false) ∈ hs
  | _ => True
  end ->
  forall m, mutex_ok (default UFree (um' !! m)) (base.filter (on_km km m) (hold_step hs (t, CLoadOrStore j k v p, r))).
Proof.
  intros Hcall Hpost Hlos Hkm Hsp HI Hd m.
  assert (Hin : forall b, on_km km m0 (t, k, b)) by (intros b; exact Hkm).
  assert (Hout : forall b m, m <> m0 -> ~ on_km km m (t, k, b)) by (intros b m1 N E; unfold on_km in E; cbn in E; congruence).
  destruct (decide (m = m0)) as [->|N].
  - specialize (HI m0). unfold step_post in Hsp. rewrite Hlos in Hsp.
    destruct p; cbn in Hpost; try discriminate; injection Hpost as Hpost; rewrite <- Hpost in Hsp, Hd;
      destruct (default UFree (um !! m0)) as [| |[|n]] eqn:Est; cbn in Hsp; simplify_eq;
      rewrite ?lookup_insert, ?Est; cbn [default from_option id]; unfold hold_step; cbn [acquires releases fst snd];
      cbn [mutex_ok] in HI |- *.
    all: try exact HI.
    all: try (rewrite list.filter_app, filter_cons_True, filter_nil by apply Hin).
    all: try (rewrite filter_remove_first_in by apply Hin).
    all: try (assert (Hd' : (t, k, true) ∈ base.filter (on_km km (f_los f).1) hs) by (apply elem_of_list_filter; split; [apply Hin|exact Hd]));
         try (assert (Hd' : (t, k, false) ∈ base.filter (on_km km (f_los f).1) hs) by (apply elem_of_list_filter; split; [apply Hin|exact Hd])).
    all: try solve [rewrite HI; cbn; eauto].
    all: try solve [destruct HI as [HI _]; apply length_zero_nil in HI; rewrite HI; cbn; eauto].
    all: try solve [destruct HI as (t1 & k1 & HI); rewrite HI in *; apply elem_of_list_singleton in Hd'; rewrite <- Hd'; apply remove_first_here].
    all: try solve [destruct HI as [HI1 HI2]; split; [rewrite app_length; cbn; lia|apply Forall_app; split; [exact HI2|repeat constructor]]].
    destruct HI as [HI1 HI2]. apply remove_first_length in Hd'. rewrite HI1 in Hd'. injection Hd' as Hd'.
    destruct n as [|n]; cbn [mutex_ok].
    + apply length_zero_nil. symmetry. exact Hd'.
    + split; [symmetry; exact Hd'|apply remove_first_Forall, HI2].
  - rewrite (step_post_frame _ _ _ _ m Hsp) by (unfold mutex_of; congruence).
    specialize (HI m). unfold hold_step. cbn [fst snd].
    destruct (acquires (CLoadOrStore j k v p) r) as [[k' b]|] eqn:Ea.
    + assert (k' = k) by (destruct p, r as [| | |[|]| | |]; cbn in Ea; congruence). subst k'.
      rewrite list.filter_app, filter_cons_False, filter_nil, app_nil_r by (apply Hout; exact N). exact HI.
    + destruct (releases (CLoadOrStore j k v p) r) as [[k' b]|] eqn:Er; [|exact HI].
      assert (k' = k) by (destruct p, r; cbn in Er; congruence). subst k'.
      rewrite filter_remove_first_out by (apply Hout; exact N). exact HI.
Qed.

Lemma hold_step_Forall (Q : hold -> Prop) hs t j k v p r :
  Forall Q hs -> (forall b, Q (t, k, b)) -> Forall Q (hold_step hs (t, CLoadOrStore j k v p, r)).
Proof.
  intros H1 H2. unfold hold_step. cbn [fst snd].
  destruct (acquires (CLoadOrStore j k v p) r) as [[k' b]|] eqn:Ea.
  - assert (k' = k) by (destruct p, r as [| | |[|]| | |]; cbn in Ea; congruence). subst k'.
    apply Forall_app. split; [exact H1|]. constructor; [apply H2|constructor].
  - destruct (releases (CLoadOrStore j k v p) r) as [[k' b]|] eqn:Er; [|exact H1]. apply remove_first_Forall, H1.
Qed.

Lemma hold_step_other hs t c r : (forall b, r <> RBool b) -> r <> RUnit -> hold_step hs (t, c, r) = hs.
Proof.
  intros H1 H2. unfold hold_step. cbn [fst snd].
  assert (acquires c r = None) as -> by (destruct c as [| |? ? ? []| | |], r as [| | |[|]| | |]; cbn; try reflexivity; try congruence; exfalso; eapply H1; eauto).
  assert (releases c r = None) as -> by (destruct c as [| |? ? ? []| | |], r as [| | |[|]| | |]; cbn; try reflexivity; try congruence; exfalso; eapply H1; eauto).
  reflexivity.
Qed.

(* the instance changed by a map step; the ghosts and the mutexes did not *)
Lemma MInv_ext c c' i i' :
  c_insts c = [i] -> c_insts c' = [i'] -> kfun (i_st i) -> kfun (i_st i') -> ext (i_st i) (i_st i') ->
  c_um c' = c_um c -> holders c' = holders c -> MInv c -> MInv c'.
Proof.
  intros Hi Hi' F1 F2 He Hum Hh (i0 & Hi0 & Hk & Hm). assert (i0 = i) by congruence. subst i0.
  exists i'. split; [exact Hi'|]. rewrite Hh, Hum.
  assert (Hk' : Forall (fun h : hold => is_Some (kmut (i_st i') h.1.2)) (holders c)).
  { eapply Forall_impl; [|exact Hk]. intros h [m Hm0]. exists m. exact (kmut_ext _ _ _ _ F1 F2 He Hm0). }
  split; [exact Hk'|]. intros m.
  rewrite (filter_ext_in (on_km (kmut (i_st i')) m) (on_km (kmut (i_st i)) m)); [apply Hm|].
  intros h Hin. rewrite Forall_forall in Hk. destruct (Hk h (proj1 (elem_of_list_In _ _) Hin)) as [m0 Hm0]. unfold on_km.
  rewrite Hm0, (kmut_ext _ _ _ _ F1 F2 He Hm0). reflexivity.
Qed.

Theorem MInv_step c t ch c' : IOInv c -> MInv c -> disciplined c t -> step c t ch = Some c' -> MInv c'.
Proof.
  intros HIO HM Hd Hstep. destruct (IOInv_step _ _ _ _ HIO Hstep) as [HIO' Hext].
  destruct HIO as [HI HS HP HH (i & Hi & Ha & Hf & Hr)].
  assert (HS0 : Shaped flat_call c) by (eapply Shaped_weaken; [apply io_flat|exact HS]).
  pose proof (step_fstep _ _ _ _ HI HS0 Hstep) as Hfs.
  assert (Hi0 : nth_error (c_insts c) 0 = Some i) by (rewrite Hi; reflexivity).
  assert (Hkf : kfun (i_st i)) by (eapply Inv_kfun; eauto).
  destruct (io_inst _ HIO') as (i2 & Hi2 & _).
  assert (Hkf2 : kfun (i_st i2)). { eapply (Inv_kfun c' 0); [apply (io_inv _ HIO')|]. rewrite Hi2. reflexivity. }
  destruct Hfs as [th f um' r Hth Hst Hpl Hsp|th f k Hth Hst Hpl Hsp|th f i0 i' f' Hth Hst Hpl Hi1 Hsf|th f i0 i' r Hth Hst Hpl Hi1 Hsf];
    (assert (Tt : top_frame c t = Some f) by (unfold top_frame; rewrite Hth, Hst; reflexivity));
    (assert (P0 : t_fresh th = false -> pend_of (c_hist c) !! t = Some (f_call f)) by (eapply HistOK_pend; eauto));
    (assert (Hio : io_call (f_call f)) by (destruct (HS t th Hth) as [_ Hs]; rewrite Hst in Hs; exact Hs)).
  - (* the step on the key's mutex *)
    destruct HM as (i0 & Hi0' & Hk & Hm). assert (i0 = i) by congruence. subst i0.
    destruct (f_call f) as [|?|j k v p| | |] eqn:Hcall; try contradiction.
    { exfalso. apply (fo_post _ (inv_frames c HI t f Tt)) in Hpl. rewrite Hcall in Hpl. exact Hpl. }
    specialize (HP t f Tt). rewrite Hcall in HP. pose proof (pc_ok_post_label _ _ _ _ _ HP Hpl) as Hpost.
    destruct (Hf t f Tt) as [[_ HF2] _].
    assert (Hkv : kval (i_st i) k (f_los f).1).
    { rewrite Hcall in HF2. apply HF2. unfold los_known. destruct (f_pc f); try discriminate; reflexivity. }
    apply kmut_kval in Hkv; [|exact Hkf].
    assert (Hh : holders {| c_insts := c_insts c; c_um := um';
                  c_threads := set_nth_list t (next_call {| t_prog := t_prog th; t_stack := []; t_results := t_results th ++ [r]; t_fresh := false |}) (c_threads c);
                  c_hist := c_hist c ++ inv_ev t th f ++ [EvRes t r]; c_panicked := false |}
                = hold_step (holders c) (t, CLoadOrStore j k v p, r)).
    { unfold holders. cbn [c_hist]. unfold inv_ev. rewrite Hcall. fold (maybe_inv (t_fresh th) t (CLoadOrStore j k v p)).
      rewrite completed_ret by exact P0. rewrite holders_of_snoc. reflexivity. }
    exists i. split; [exact Hi|]. rewrite Hh. cbn [c_um]. split.
    + apply hold_step_Forall; [exact Hk|]. intros b. cbn. eauto.
    + eapply mutex_post; eauto.
      specialize (Hd f Tt). rewrite Hcall in Hd. cbn [key_of] in Hd. exact Hd.
  - (* ... panics *)
    destruct HM as (i0 & Hi0' & Hk & Hm). assert (i0 = i) by congruence. subst i0.
    exists i. split; [exact Hi|].
    assert (Hh : holders {| c_insts := c_insts c; c_um := c_um c;
                  c_threads := set_nth_list t {| t_prog := []; t_stack := []; t_results := t_results th ++ [RPanic k]; t_fresh := false |} (c_threads c);
                  c_hist := c_hist c ++ inv_ev t th f ++ [EvRes t (RPanic k)]; c_panicked := true |} = holders c).
    { unfold holders. cbn [c_hist]. unfold inv_ev. fold (maybe_inv (t_fresh th) t (f_call f)).
      rewrite completed_ret by exact P0. rewrite holders_of_snoc. apply hold_step_other; discriminate. }
    rewrite Hh. cbn [c_um]. auto.
  - (* map steps *)
    assert (i0 = i) by congruence. subst i0.
    apply (MInv_ext c _ i i2 Hi Hi2 Hkf Hkf2 (Hext i i2 Hi Hi2)); [reflexivity| |exact HM].
    unfold holders. cbn [c_hist]. unfold inv_ev. fold (maybe_inv (t_fresh th) t (f_call f)).
    rewrite completed_cont by exact P0. reflexivity.
  - assert (i0 = i) by congruence. subst i0.
    apply (MInv_ext c _ i i2 Hi Hi2 Hkf Hkf2 (Hext i i2 Hi Hi2)); [reflexivity| |exact HM].
    unfold holders. cbn [c_hist]. unfold inv_ev. fold (maybe_inv (t_fresh th) t (f_call f)).
    rewrite completed_ret by exact P0. rewrite holders_of_snoc. apply hold_step_other.
    + rewrite io_call_not_delete by exact Hio. destruct (sf_ret_shape _ _ _ _ _ _ Hio (HP t f Tt) Hsf) as [[o ->]|(a & l & ->)]; discriminate.
    + rewrite io_call_not_delete by exact Hio. destruct (sf_ret_shape _ _ _ _ _ _ Hio (HP t f Tt) Hsf) as [[o ->]|(a & l & ->)]; discriminate.
Qed.

Lemma MInv_init progs : MInv (init_config 1 progs).
Proof.
  exists empty_inst. split; [reflexivity|]. split; [constructor|]. intros m. cbn. rewrite lookup_empty. reflexivity.
Qed.

Theorem MInv_run c sched : IOInv c -> MInv c -> disc_from c sched -> MInv (run_schedule c sched).
Proof.
  revert c. induction sched as [|[t ch] sched IH]; intros c HIO HM Hd; cbn; [exact HM|].
  destruct Hd as [Hd1 Hd2]. destruct (step c t ch) as [c'|] eqn:E; cbn in *; [|apply IH; assumption].
  apply IH; [apply (IOInv_step _ _ _ _ HIO E)|eapply MInv_step; eauto|exact Hd2].
Qed.

Theorem MInv_reachable progs sched : io_progs progs -> disc_from (init_config 1 progs) sched ->
  MInv (run_schedule (init_config 1 progs) sched).
Proof. intros Hp Hd. apply MInv_run; [apply IOInv_init, Hp|apply MInv_init|exact Hd]. Qed.

(* while a thread holds key k exclusively nobody else holds k, in any mode, and the key's mutex is locked *)
Lemma MInv_excl c t1 k : MInv c -> holds_excl c t1 k ->
  (forall t2 b, (t2, k, b) ∈ holders c -> t2 = t1 /\ b = true) /\
  exists i m, c_insts c = [i] /\ kmut (i_st i) k = Some m /\ c_um c !! m = Some ULocked.
Proof.
  intros (i & Hi & Hk & Hm) H1. unfold holds_excl in H1.
  rewrite Forall_forall in Hk. destruct (Hk _ (proj1 (elem_of_list_In _ _) H1)) as [m Hkm]. cbn in Hkm.
  specialize (Hm m).
  assert (In1 : (t1, k, true) ∈ base.filter (on_km (kmut (i_st i)) m) (holders c)) by (apply elem_of_list_filter; split; [exact Hkm|exact H1]).
  destruct (c_um c !! m) as [[| |n]|] eqn:Est; cbn in Hm.
  - rewrite Hm in In1. inversion In1.
  - destruct Hm as (t0 & k0 & Hm). rewrite Hm in In1. apply elem_of_list_singleton in In1. injection In1 as <- <-. split.
    + intros t2 b H2.
      assert (In2 : (t2, k, b) ∈ base.filter (on_km (kmut (i_st i)) m) (holders c)) by (apply elem_of_list_filter; split; [exact Hkm|exact H2]).
      rewrite Hm in In2. apply elem_of_list_singleton in In2. injection In2 as -> ->. auto.
    + exists i, m. auto.
  - destruct Hm as [_ Hm]. rewrite Forall_forall in Hm. specialize (Hm _ (proj1 (elem_of_list_In _ _) In1)). discriminate.
  - rewrite Hm in In1. inversion In1.
Qed.

(* per-KEY mutual exclusion, for all programs of keyed-mutex calls and all schedules in which a thread
   only unlocks what it holds: at most one thread holds k exclusively, and then nobody holds it shared *)
Theorem keyed_mutual_exclusion progs sched : io_progs progs -> disc_from (init_config 1 progs) sched ->
  let c := run_schedule (init_config 1 progs) sched in
  forall k t1 t2, holds_excl c t1 k -> (holds_excl c t2 k -> t1 = t2) /\ ~ holds_shared c t2 k.
Proof.
  intros Hp Hd c k t1 t2 H1. destruct (MInv_excl c t1 k (MInv_reachable progs sched Hp Hd) H1) as [H _]. split.
  - intros H2. destruct (H t2 true H2). auto.
  - intros H2. destruct (H t2 false H2). discriminate.
Qed.

(* ... and the key's mutex (the value every LoadOrStore k returns) is then locked; with readers inside
   it is in the reader state *)
Theorem keyed_holder_locks_mutex progs sched : io_progs progs -> disc_from (init_config 1 progs) sched ->
  let c := run_schedule (init_config 1 progs) sched in
  forall k t m, holds_excl c t k -> key_value c k m -> c_um c !! m = Some ULocked.
Proof.
  intros Hp Hd c k t m H1 (i & Hi & Hkv).
  destruct (MInv_excl c t k (MInv_reachable progs sched Hp Hd) H1) as [_ (i0 & m0 & Hi0 & Hkm & Hum)].
  assert (i0 = i) by congruence. subst i0.
  assert (Hkf : kfun (i_st i)). { eapply (Inv_kfun c 0); [apply (io_inv _ (IOInv_reachable progs sched Hp))|]. fold c. rewrite Hi. reflexivity. }
  apply kmut_kval in Hkm; [|exact Hkf]. rewrite (kval_fun _ _ _ _ Hkf Hkv Hkm). exact Hum.
Qed.

(* ---- a decidable form of the discipline, for examples ---- *)
Definition disciplinedb (c : config) (t : nat) : bool :=
  match top_frame c t with
  | Some f =>
      match f_pc f with
      | KM_Unlock | KRW_Unlock => bool_decide ((t, key_of (f_call f), true) ∈ holders c)
      | KRW_RUnlock => bool_decide ((t, key_of (f_call f), false) ∈ holders c)
      | _ => true
      end
  | None => true
  end.

Lemma disciplinedb_ok c t : disciplinedb c t = true -> disciplined c t.
Proof.
  unfold disciplinedb. intros H f Tt. rewrite Tt in H.
  unfold holds_excl, holds_shared. destruct (f_pc f); try exact I; apply bool_decide_eq_true in H; exact H.
Qed.

Fixpoint disc_fromb (c : config) (sched : list (nat * Z)) : bool :=
  match sched with
  | [] => true
  | (t, ch) :: sched' => disciplinedb c t && disc_fromb (default c (step c t ch)) sched'
  end.
Lemma disc_fromb_ok c sched : disc_fromb c sched = true -> disc_from c sched.
Proof.
  revert c. induction sched as [|[t ch] sched IH]; intros c H; cbn in *; [exact I|].
  apply andb_true_iff in H as [H1 H2]. split; [apply disciplinedb_ok, H1|apply IH, H2].
Qed.

(* ---- non-vacuity: two threads race LockKey/UnlockKey on a never-seen key ---- *)
Definition ex_progs : list (list call) :=
  [[CLoadOrStore 0 7 1001 PLock; CLoadOrStore 0 7 1002 PUnlock]; [CLoadOrStore 0 7 2001 PLock; CLoadOrStore 0 7 2002 PUnlock]].
Definition ex_alt (n : nat) : list (nat * Z) := concat (repeat [(0%nat, 0%Z); (1%nat, 0%Z)] n).

Lemma ex_progs_io : io_progs ex_progs.
Proof. repeat constructor. Qed.

Example insert_only_example :
  disc_fromb (init_config 1 ex_progs) (ex_alt 30) = true /\
  (let c := run_schedule (init_config 1 ex_progs) (ex_alt 10) in
   (* thread 0 won the race and holds key 7; thread 1's LoadOrStore(7, 2001) returned thread 0's mutex 1001 and it is blocked on it *)
   holders c = [(0%nat, 7%Z, true)] /\ map thread_label (c_threads c) = [Some LOS_lock; Some KM_Lock] /\
   option_map (fun f => (f_los f).1) (top_frame c 1) = Some 1001%Z /\ map_to_list (c_um c) = [(1001%Z, ULocked)] /\
   step c 1 0 = None) /\
  (let c := run_schedule (init_config 1 ex_progs) (ex_alt 30) in
   holders c = [] /\ map thread_label (c_threads c) = [None; None] /\ map_to_list (c_um c) = [(1001%Z, UFree)] /\
   length (completed (c_hist c)) = 4 /\ c_panicked c = false).
Proof. vm_compute. repeat split. Qed.

(* ================================================================== *)
(* 5. TryLockKey / TryRLockKey at the level of keys                   *)
(* ================================================================== *)
Lemma hold_step_false hs t c : hold_step hs (t, c, RBool false) = hs.
Proof.
  unfold hold_step. cbn [fst snd].
  assert (acquires c (RBool false) = None) as -> by (destruct c as [| |? ? ? []| | |]; reflexivity).
  assert (releases c (RBool false) = None) as -> by (destruct c as [| |? ? ? []| | |]; reflexivity).
  reflexivity.
Qed.

(* the step of thread t standing at a Try* label, seen from outside: the call completes with RBool b *)
Lemma try_step c t ch c' f : IOInv c -> top_frame c t = Some f -> is_try (f_pc f) = true ->
  step c t ch = Some c' ->
  exists um' b, step_post (c_um c) f = Some (Ok (um', Return (RBool b))) /\ c_um c' = um' /\ c_insts c' = c_insts c /\
    completed (c_hist c') = completed (c_hist c) ++ [(t, f_call f, RBool b)].
Proof.
  intros HIO Tt Htry Hstep. destruct HIO as [HI HS HP HH _].
  assert (HS0 : Shaped flat_call c) by (eapply Shaped_weaken; [apply io_flat|exact HS]).
  pose proof (step_fstep _ _ _ _ HI HS0 Hstep) as Hfs.
  assert (Hpl : is_post_label (f_pc f) = true) by (destruct (f_pc f); try discriminate; reflexivity).
  destruct Hfs as [th f0 um' r Hth Hst Hpl0 Hsp|th f0 k Hth Hst Hpl0 Hsp|th f0 i0 i' f' Hth Hst Hpl0 Hi1 Hsf|th f0 i0 i' r Hth Hst Hpl0 Hi1 Hsf];
    (assert (f0 = f) by (unfold top_frame in Tt; rewrite Hth, Hst in Tt; cbn in Tt; congruence)); subst f0; try congruence.
  - assert (P0 : t_fresh th = false -> pend_of (c_hist c) !! t = Some (f_call f)) by (eapply HistOK_pend; eauto).
    assert (exists b, r = RBool b) as [b ->].
    { unfold step_post in Hsp. destruct (f_pc f); try discriminate Htry; repeat case_match; simplify_eq; eauto. }
    exists um', b. split; [exact Hsp|]. split; [reflexivity|]. split; [reflexivity|].
    cbn [c_hist]. unfold inv_ev. fold (maybe_inv (t_fresh th) t (f_call f)). apply completed_ret, P0.
  - exfalso. unfold step_post in Hsp. destruct (f_pc f); try discriminate Htry; repeat case_match; simplify_eq.
Qed.

(* the frame of a keyed-mutex call that stands at its mutex step holds the key's mutex *)
Lemma post_frame_mutex c i t f : IOInv c -> c_insts c = [i] -> top_frame c t = Some f -> is_post_label (f_pc f) = true ->
  kmut (i_st i) (key_of (f_call f)) = Some (f_los f).1.
Proof.
  intros HIO Hi Tt Hpl. destruct (io_inst _ HIO) as (i0 & Hi0 & _ & Hf & _). assert (i0 = i) by congruence. subst i0.
  destruct (Hf t f Tt) as [[_ HF2] _]. apply kmut_kval.
  - eapply (Inv_kfun c 0); [apply (io_inv _ HIO)|]. rewrite Hi. reflexivity.
  - apply HF2. unfold los_known. destruct (f_pc f); try discriminate; reflexivity.
Qed.

(* TryLockKey(k) fails while k is held, in any mode, by anybody *)
Theorem trylock_fails_while_held progs sched t ch c' f t2 b2 :
  io_progs progs -> disc_from (init_config 1 progs) sched ->
  let c := run_schedule (init_config 1 progs) sched in
  top_frame c t = Some f -> (f_pc f = KM_TryLock \/ f_pc f = KRW_TryLock) ->
  (t2, key_of (f_call f), b2) ∈ holders c ->
  step c t ch = Some c' ->
  completed (c_hist c') = completed (c_hist c) ++ [(t, f_call f, RBool false)] /\ c_um c' = c_um c /\ holders c' = holders c.
Proof.
  intros Hp Hd c Tt Hpc Hh Hstep.
  pose proof (IOInv_reachable progs sched Hp) as HIO. fold c in HIO.
  destruct (MInv_reachable progs sched Hp Hd) as (i & Hi & Hk & Hm). fold c in Hi, Hk, Hm.
  assert (Htry : is_try (f_pc f) = true) by (destruct Hpc as [-> | ->]; reflexivity).
  destruct (try_step c t ch c' f HIO Tt Htry Hstep) as (um' & b & Hsp & Hum & _ & Hc).
  assert (Hpl : is_post_label (f_pc f) = true) by (destruct Hpc as [-> | ->]; reflexivity).
  pose proof (post_frame_mutex c i t f HIO Hi Tt Hpl) as Hkm.
  destruct (try_lock_result (c_um c) f Hpc) as (um2 & Hsp2 & _ & Hsame).
  rewrite Hsp in Hsp2. injection Hsp2 as -> ->.
  assert (Hnf : free_for_writer (mstate_of (c_um c) f) = false).
  { specialize (Hm (f_los f).1).
    assert (Hin : (t2, key_of (f_call f), b2) ∈ base.filter (on_km (kmut (i_st i)) (f_los f).1) (holders c))
      by (apply elem_of_list_filter; split; [exact Hkm|exact Hh]).
    unfold mstate_of, mutex_of. destruct (default UFree (c_um c !! (f_los f).1)) as [| |[|n]]; cbn in Hm |- *; try reflexivity.
    - rewrite Hm in Hin. inversion Hin.
    - destruct Hm as [Hm _]. apply length_zero_nil in Hm. rewrite Hm in Hin. inversion Hin. }
  rewrite Hnf in Hc. split; [exact Hc|]. split; [rewrite Hum; apply Hsame, Hnf|].
  unfold holders. rewrite Hc, holders_of_snoc. apply hold_step_false.
Qed.

(* TryRLockKey(k) fails while k is held exclusively *)
Theorem tryrlock_fails_while_write_held progs sched t ch c' f t2 :
  io_progs progs -> disc_from (init_config 1 progs) sched ->
  let c := run_schedule (init_config 1 progs) sched in
  top_frame c t = Some f -> f_pc f = KRW_TryRLock ->
  holds_excl c t2 (key_of (f_call f)) ->
  step c t ch = Some c' ->
  completed (c_hist c') = completed (c_hist c) ++ [(t, f_call f, RBool false)] /\ c_um c' = c_um c /\ holders c' = holders c.
Proof.
  intros Hp Hd c Tt Hpc Hh Hstep.
  pose proof (IOInv_reachable progs sched Hp) as HIO. fold c in HIO.
  pose proof (MInv_reachable progs sched Hp Hd) as HM. fold c in HM.
  assert (Htry : is_try (f_pc f) = true) by (rewrite Hpc; reflexivity).
  destruct (try_step c t ch c' f HIO Tt Htry Hstep) as (um' & b & Hsp & Hum & _ & Hc).
  assert (Hpl : is_post_label (f_pc f) = true) by (rewrite Hpc; reflexivity).
  destruct (MInv_excl c t2 _ HM Hh) as [_ (i & m & Hi & Hkm & Hlocked)].
  pose proof (post_frame_mutex c i t f HIO Hi Tt Hpl) as Hkm'. assert (m = (f_los f).1) by congruence. subst m.
  destruct (try_rlock_result (c_um c) f Hpc) as (um2 & Hsp2 & Hsame & _).
  rewrite Hsp in Hsp2. injection Hsp2 as -> ->.
  assert (Hnf : free_for_reader (mstate_of (c_um c) f) = false) by (unfold mstate_of, mutex_of; rewrite Hlocked; reflexivity).
  rewrite Hnf in Hc. split; [exact Hc|]. split; [rewrite Hum; apply Hsame, Hnf|].
  unfold holders. rewrite Hc, holders_of_snoc. apply hold_step_false.
Qed.

(* NOTE ([_machine] lemmas): facts about the trusted mutex machine of Model.v (one atomic step per mutex
   operation, no queue of waiters). Go's sync.RWMutex also refuses new readers while a writer WAITS,
   sync.Mutex.TryLock may fail on a free mutex with queued waiters, and RWMutex.TryLock/Unlock are not atomic;
   the property ("free and uncontended") therefore needs the hypothesis [quiet] (nobody else at a
   mutex-operation step of the key), which SyncMap/Uncontended.v adds. Only those versions are property
   theorems. *)
(* TryLockKey(k) succeeds, and then holds k, when nobody holds a key with k's mutex *)
Theorem trylock_succeeds_when_free_machine progs sched t ch c' f i :
  io_progs progs -> disc_from (init_config 1 progs) sched ->
  let c := run_schedule (init_config 1 progs) sched in
  top_frame c t = Some f -> (f_pc f = KM_TryLock \/ f_pc f = KRW_TryLock) -> c_insts c = [i] ->
  (forall h, h ∈ holders c -> kmut (i_st i) h.1.2 <> kmut (i_st i) (key_of (f_call f))) ->
  step c t ch = Some c' ->
  completed (c_hist c') = completed (c_hist c) ++ [(t, f_call f, RBool true)] /\ holds_excl c' t (key_of (f_call f)).
Proof.
  intros Hp Hd c Tt Hpc Hi Hfree Hstep.
  pose proof (IOInv_reachable progs sched Hp) as HIO. fold c in HIO.
  destruct (MInv_reachable progs sched Hp Hd) as (i0 & Hi0 & Hk & Hm). fold c in Hi0, Hk, Hm.
  assert (i0 = i) by congruence. subst i0.
  assert (Htry : is_try (f_pc f) = true) by (destruct Hpc as [-> | ->]; reflexivity).
  destruct (try_step c t ch c' f HIO Tt Htry Hstep) as (um' & b & Hsp & Hum & _ & Hc).
  assert (Hpl : is_post_label (f_pc f) = true) by (destruct Hpc as [-> | ->]; reflexivity).
  pose proof (post_frame_mutex c i t f HIO Hi Tt Hpl) as Hkm.
  destruct (try_lock_result (c_um c) f Hpc) as (um2 & Hsp2 & _ & _).
  rewrite Hsp in Hsp2. injection Hsp2 as -> ->.
  assert (Hnil : base.filter (on_km (kmut (i_st i)) (f_los f).1) (holders c) = []).
  { destruct (base.filter _ _) as [|h l] eqn:E; [reflexivity|]. exfalso.
    assert (Hin : h ∈ base.filter (on_km (kmut (i_st i)) (f_los f).1) (holders c)) by (rewrite E; left).
    apply elem_of_list_filter in Hin as [H1 H2]. apply (Hfree h H2). unfold on_km in H1. congruence. }
  assert (Hf : free_for_writer (mstate_of (c_um c) f) = true).
  { specialize (Hm (f_los f).1). rewrite Hnil in Hm. unfold mstate_of, mutex_of.
    destruct (default UFree (c_um c !! (f_los f).1)) as [| |[|n]]; cbn in Hm |- *; try reflexivity.
    - destruct Hm as (? & ? & ?). discriminate.
    - destruct Hm. discriminate. }
  rewrite Hf in Hc. split; [exact Hc|].
  unfold holds_excl, holders. rewrite Hc, holders_of_snoc. unfold hold_step. cbn [fst snd].
  assert (Hfo := fo_post _ (inv_frames c (io_inv _ HIO) t f Tt) Hpl).
  destruct (f_call f) as [| |j k v p| | |] eqn:Hcall; try contradiction.
  pose proof (pc_ok_post_label _ _ _ _ _ ltac:(rewrite <- Hcall; apply (io_pc _ HIO t f Tt)) Hpl) as Hpost.
  assert (acquires (CLoadOrStore j k v p) (RBool true) = Some (k, true)) as ->.
  { destruct Hpc as [E|E]; rewrite E in Hpost; destruct p; cbn in Hpost; try discriminate; reflexivity. }
  cbn [key_of]. apply elem_of_app. right. left.
Qed.

(* ---- where associations come from ---- *)
Lemma new_reach t i f ch i' o :
  io_call (f_call f) -> pc_ok (f_call f) (f_pc f) = true -> (in_cs f = true -> WFL (i_st i) f) ->
  step_frame t i f ch = Some (Ok (i', o)) ->
  forall k e, reach_any (i_st i') k e ->
    reach_any (i_st i) k e \/ (exists j v p, f_call f = CLoadOrStore j k v p /\ ents (i_st i') !! e = Some (PVal v)).
Proof.
  intros Hio Hpc Hcs H. unfold step_frame in H.
  destruct (f_call f) as [j k|?|j k v p| | |] eqn:Hcall; try contradiction; cbn in Hio; subst j;
  destruct (f_pc f) eqn:Hl; try discriminate Hpc; try discriminate H; try (destruct p; discriminate Hpc);
    cbn [key_of val_of] in *.
  all: try (assert (Hin : in_cs f = true) by (unfold in_cs, cs_class; rewrite Hl; reflexivity);
            destruct (Hcs Hin) as [_ Hw]; unfold cs_class in Hw; rewrite Hl, ?Hcall in Hw; cbn [key_of] in Hw).
  all: unfold expunge_done, tlos_done, bind, new_entry, dirty_insert in H; unfold after_miss, dirty_next, los_return in H;
    rewrite ?Hcall in H; cbn in H.
  all: repeat case_match; simplify_eq; cbn [i_st with_st]; try (intros; left; assumption).
  all: cbn [fst snd i_st with_st]; intros k0 e0 [Hr|Hr]; cbn in Hr.
  all: try (left; left; exact Hr).
  all: try discriminate Hr.
  all: try (rewrite lookup_empty in Hr; discriminate Hr).
  all: try (left; right; unfold dirty_lookup; match goal with |- context [dirty (i_st ?ii)] => destruct (dirty (i_st ii)) end; cbn in Hr; [exact Hr|rewrite lookup_empty in Hr; discriminate Hr]).
  all: try match goal with Hd : dirty (i_st _) = Some ?g |- _ =>
         match type of Hr with context [<[?kk := ?ee]> g] =>
           destruct (decide (k0 = kk)) as [->|Nk];
           [rewrite lookup_insert in Hr; injection Hr as <-
           |rewrite lookup_insert_ne in Hr by congruence; left; right; unfold dirty_lookup; rewrite Hd; exact Hr]
         end end.
  - (* Unexpunge_cas: the entry put into dirty is the one in read.m *)
    destruct Hw as [_ Hk]. left. left. congruence.
  - right. eexists _, _, _. split; [reflexivity|]. cbn. apply lookup_insert.
  - destruct Hw as [(L1 & _) _]. left. left. congruence.
  - right. eexists _, _, _. split; [reflexivity|]. cbn. apply lookup_insert.
  - destruct Hw as (vis & _ & _ & Hcur & (L1 & _)). left. left. congruence.
  - destruct Hw as (vis & _ & _ & Hcur & (L1 & _)). left. left. congruence.
  - destruct Hw as (vis & _ & _ & Hcur & (L1 & _)). left. left. congruence.
  - destruct Hw as (vis & _ & _ & Hcur & (L1 & _)). left. left. congruence.
Qed.

Definition src (G : Z -> Z -> Prop) (s : mstate) : Prop :=
  forall k e, reach_any s k e -> exists m, ents s !! e = Some (PVal m) /\ G k m.
Definition callG (G : Z -> Z -> Prop) (c : call) : Prop :=
  match c with CLoadOrStore _ k v _ => G k v | _ => True end.

(* every association was made by a LoadOrStore of the programs: key and value are those of a call *)
Theorem src_reachable G progs sched i : io_progs progs -> Forall (Forall (callG G)) progs ->
  c_insts (run_schedule (init_config 1 progs) sched) = [i] -> src G (i_st i).
Proof.
  intros Hp HG.
  enough (H : let c := run_schedule (init_config 1 progs) sched in
              IOInv c /\ Shaped (callG G) c /\ forall i, c_insts c = [i] -> src G (i_st i)) by (apply H).
  apply run_schedule_ind.
  - split; [apply IOInv_init, Hp|]. split; [apply Shaped_init, HG|]. intros i0 [= <-] k e [H|H]; cbn in H; [rewrite lookup_empty in H|]; discriminate.
  - clear i sched. intros c t ch c' (HIO & HSG & Hsrc) Hstep.
    destruct (IOInv_step _ _ _ _ HIO Hstep) as [HIO' Hext].
    pose proof (io_inv _ HIO) as HI. pose proof (io_shape _ HIO) as HS.
    assert (HS0 : Shaped flat_call c) by (eapply Shaped_weaken; [apply io_flat|exact HS]).
    pose proof (step_fstep _ _ _ _ HI HS0 Hstep) as Hfs.
    split; [exact HIO'|]. split; [exact (Shaped_fstep _ _ _ _ _ HI HSG Hfs)|].
    destruct (io_inst _ HIO) as (i & Hi & _). specialize (Hsrc i Hi).
    assert (Hi0 : nth_error (c_insts c) 0 = Some i) by (rewrite Hi; reflexivity).
    assert (Hmap : forall th f i' o, nth_error (c_threads c) t = Some th -> t_stack th = [f] ->
              step_frame t i f ch = Some (Ok (i', o)) -> ext (i_st i) (i_st i') -> src G (i_st i')).
    { intros th f i' o Hth Hst Hsf (_ & He & _) k e Hr.
      assert (Tt : top_frame c t = Some f) by (unfold top_frame; rewrite Hth, Hst; reflexivity).
      assert (Hio : io_call (f_call f)) by (destruct (HS t th Hth) as [_ Hs]; rewrite Hst in Hs; exact Hs).
      assert (Hj : call_inst (f_call f) = 0) by (destruct (f_call f); cbn in Hio; try contradiction; auto).
      destruct (new_reach t i f ch i' o Hio (io_pc _ HIO t f Tt)) with (k := k) (e := e) as [H|(j & v & p & Hcall & H)]; auto.
      - intros Hcs. apply (Inv_WFL c 0 i t f HI Hi0 Tt Hj Hcs).
      - destruct (Hsrc k e H) as (m & Hm & HGm). eauto.
      - exists v. split; [exact H|]. destruct (HSG t th Hth) as [_ Hs]. rewrite Hst, Hcall in Hs. exact Hs. }
    destruct Hfs as [th f um' r Hth Hst Hpl Hsp|th f k Hth Hst Hpl Hsp|th f i0 i' f' Hth Hst Hpl Hi1 Hsf|th f i0 i' r Hth Hst Hpl Hi1 Hsf];
      intros i2 Hi2; cbn in Hi2.
    + assert (i2 = i) by congruence. subst. exact Hsrc.
    + assert (i2 = i) by congruence. subst. exact Hsrc.
    + assert (i0 = i) by congruence. subst i0. rewrite Hi in Hi2. cbn in Hi2. injection Hi2 as <-.
      eapply Hmap; eauto. apply Hext; [exact Hi|cbn; rewrite Hi; reflexivity].
    + assert (i0 = i) by congruence. subst i0. rewrite Hi in Hi2. cbn in Hi2. injection Hi2 as <-.
      eapply Hmap; eauto. apply Hext; [exact Hi|cbn; rewrite Hi; reflexivity].
Qed.

(* TryRLockKey(k) succeeds, and then holds k shared, when nobody holds exclusively a key with k's mutex *)
Theorem tryrlock_succeeds_when_no_writer_machine progs sched t ch c' f i :
  io_progs progs -> disc_from (init_config 1 progs) sched ->
  let c := run_schedule (init_config 1 progs) sched in
  top_frame c t = Some f -> f_pc f = KRW_TryRLock -> c_insts c = [i] ->
  (forall h, h ∈ holders c -> h.2 = true -> kmut (i_st i) h.1.2 <> kmut (i_st i) (key_of (f_call f))) ->
  step c t ch = Some c' ->
  completed (c_hist c') = completed (c_hist c) ++ [(t, f_call f, RBool true)] /\ holds_shared c' t (key_of (f_call f)).
Proof.
  intros Hp Hd c Tt Hpc Hi Hfree Hstep.
  pose proof (IOInv_reachable progs sched Hp) as HIO. fold c in HIO.
  destruct (MInv_reachable progs sched Hp Hd) as (i0 & Hi0 & Hk & Hm). fold c in Hi0, Hk, Hm.
  assert (i0 = i) by congruence. subst i0.
  assert (Htry : is_try (f_pc f) = true) by (rewrite Hpc; reflexivity).
  destruct (try_step c t ch c' f HIO Tt Htry Hstep) as (um' & b & Hsp & Hum & _ & Hc).
  assert (Hpl : is_post_label (f_pc f) = true) by (rewrite Hpc; reflexivity).
  pose proof (post_frame_mutex c i t f HIO Hi Tt Hpl) as Hkm.
  destruct (try_rlock_result (c_um c) f Hpc) as (um2 & Hsp2 & _ & _).
  rewrite Hsp in Hsp2. injection Hsp2 as -> ->.
  assert (Hf : free_for_reader (mstate_of (c_um c) f) = true).
  { specialize (Hm (f_los f).1). unfold mstate_of, mutex_of.
    destruct (default UFree (c_um c !! (f_los f).1)) as [| |n]; cbn in Hm |- *; try reflexivity.
    destruct Hm as (t0 & k0 & Hm). exfalso.
    assert (Hin : (t0, k0, true) ∈ base.filter (on_km (kmut (i_st i)) (f_los f).1) (holders c)) by (rewrite Hm; left).
    apply elem_of_list_filter in Hin as [H1 H2]. apply (Hfree _ H2 eq_refl). unfold on_km in H1. cbn in H1 |- *. congruence. }
  rewrite Hf in Hc. split; [exact Hc|].
  unfold holds_shared, holders. rewrite Hc, holders_of_snoc. unfold hold_step. cbn [fst snd].
  assert (Hfo := fo_post _ (inv_frames c (io_inv _ HIO) t f Tt) Hpl).
  destruct (f_call f) as [| |j k v p| | |] eqn:Hcall; try contradiction.
  pose proof (pc_ok_post_label _ _ _ _ _ ltac:(rewrite <- Hcall; apply (io_pc _ HIO t f Tt)) Hpl) as Hpost.
  assert (acquires (CLoadOrStore j k v p) (RBool true) = Some (k, false)) as ->.
  { rewrite Hpc in Hpost; destruct p; cbn in Hpost; try discriminate; reflexivity. }
  cbn [key_of]. apply elem_of_app. right. left.
Qed.

(* ---- fresh mutexes: distinct keys get distinct mutexes ---- *)
(* In the code every LoadOrStore passes a newly allocated mutex; in the model the value is a parameter of
   the call, and "fresh" means that calls on different keys carry different values. *)
Definition fresh_values (progs : list (list call)) : Prop :=
  forall c1 c2, In c1 (concat progs) -> In c2 (concat progs) ->
    match c1, c2 with
    | CLoadOrStore _ k1 v1 _, CLoadOrStore _ k2 v2 _ => v1 = v2 -> k1 = k2
    | _, _ => True
    end.

Lemma kmut_injective progs sched i k1 k2 m : io_progs progs -> fresh_values progs ->
  c_insts (run_schedule (init_config 1 progs) sched) = [i] ->
  kmut (i_st i) k1 = Some m -> kmut (i_st i) k2 = Some m -> k1 = k2.
Proof.
  intros Hp Hfr Hi H1 H2.
  set (G := fun (k m : Z) => exists j p, In (CLoadOrStore j k m p) (concat progs)).
  assert (HG : Forall (Forall (callG G)) progs).
  { apply Forall_forall. intros prog Hprog. apply Forall_forall. intros c Hc.
    destruct c as [| |j k v p| | |]; cbn; try exact I. exists j, p. apply in_concat. eauto. }
  pose proof (src_reachable G progs sched i Hp HG Hi) as Hsrc.
  assert (Hkf : kfun (i_st i)). { eapply (Inv_kfun _ 0); [apply (io_inv _ (IOInv_reachable progs sched Hp))|]. rewrite Hi. reflexivity. }
  apply kmut_kval in H1 as (e1 & R1 & E1); [|exact Hkf]. apply kmut_kval in H2 as (e2 & R2 & E2); [|exact Hkf].
  destruct (Hsrc _ _ R1) as (m1 & E1' & (j1 & p1 & G1)). destruct (Hsrc _ _ R2) as (m2 & E2' & (j2 & p2 & G2)).
  assert (m1 = m) by congruence. assert (m2 = m) by congruence. subst.
  apply (Hfr _ _ G1 G2). reflexivity.
Qed.

(* TryLockKey(k) succeeds when nobody holds k *)
Theorem trylock_succeeds_when_key_free_machine progs sched t ch c' f :
  io_progs progs -> fresh_values progs -> disc_from (init_config 1 progs) sched ->
  let c := run_schedule (init_config 1 progs) sched in
  top_frame c t = Some f -> (f_pc f = KM_TryLock \/ f_pc f = KRW_TryLock) ->
  (forall t2 b, (t2, key_of (f_call f), b) ∉ holders c) ->
  step c t ch = Some c' ->
  completed (c_hist c') = completed (c_hist c) ++ [(t, f_call f, RBool true)] /\ holds_excl c' t (key_of (f_call f)).
Proof.
  intros Hp Hfr Hd c Tt Hpc Hfree Hstep.
  destruct (MInv_reachable progs sched Hp Hd) as (i & Hi & Hk & _). fold c in Hi, Hk.
  eapply (trylock_succeeds_when_free_machine progs sched t ch c' f i); eauto.
  intros [[t2 k2] b2] Hh E. cbn in E.
  rewrite Forall_forall in Hk. destruct (Hk _ (proj1 (elem_of_list_In _ _) Hh)) as [m Hm]. cbn in Hm.
  assert (k2 = key_of (f_call f)) by (eapply (kmut_injective progs sched i); eauto; congruence).
  subst k2. exact (Hfree t2 b2 Hh).
Qed.

(* TryRLockKey(k) succeeds when nobody holds k exclusively *)
Theorem tryrlock_succeeds_when_key_not_write_held_machine progs sched t ch c' f :
  io_progs progs -> fresh_values progs -> disc_from (init_config 1 progs) sched ->
  let c := run_schedule (init_config 1 progs) sched in
  top_frame c t = Some f -> f_pc f = KRW_TryRLock ->
  (forall t2, ~ holds_excl c t2 (key_of (f_call f))) ->
  step c t ch = Some c' ->
  completed (c_hist c') = completed (c_hist c) ++ [(t, f_call f, RBool true)] /\ holds_shared c' t (key_of (f_call f)).
Proof.
  intros Hp Hfr Hd c Tt Hpc Hfree Hstep.
  destruct (MInv_reachable progs sched Hp Hd) as (i & Hi & Hk & _). fold c in Hi, Hk.
  eapply (tryrlock_succeeds_when_no_writer_machine progs sched t ch c' f i); eauto.
  intros [[t2 k2] b2] Hh Hb E. cbn in E, Hb. subst b2.
  rewrite Forall_forall in Hk. destruct (Hk _ (proj1 (elem_of_list_In _ _) Hh)) as [m Hm]. cbn in Hm.
  assert (k2 = key_of (f_call f)) by (eapply (kmut_injective progs sched i); eauto; congruence).
  subst k2. exact (Hfree t2 Hh).
Qed.

(* ---- disciplined runs never panic (no unlock of an unlocked mutex) ---- *)
Lemma step_no_panic c t ch c' : IOInv c -> MInv c -> disciplined c t -> step c t ch = Some c' -> c_panicked c' = false.
Proof.
  intros HIO HM Hd Hstep.
  pose proof (io_inv _ HIO) as HI. pose proof (io_shape _ HIO) as HS.
  assert (HS0 : Shaped flat_call c) by (eapply Shaped_weaken; [apply io_flat|exact HS]).
  pose proof (step_fstep _ _ _ _ HI HS0 Hstep) as Hfs.
  destruct Hfs as [th f um' r Hth Hst Hpl Hsp|th f k Hth Hst Hpl Hsp|th f i0 i' f' Hth Hst Hpl Hi1 Hsf|th f i0 i' r Hth Hst Hpl Hi1 Hsf];
    try reflexivity.
  exfalso.
  assert (Tt : top_frame c t = Some f) by (unfold top_frame; rewrite Hth, Hst; reflexivity).
  destruct HM as (i & Hi & Hk & Hm).
  pose proof (post_frame_mutex c i t f HIO Hi Tt Hpl) as Hkm. specialize (Hm (f_los f).1). specialize (Hd f Tt).
  unfold step_post in Hsp.
  destruct (f_pc f); try discriminate Hpl; unfold holds_excl, holds_shared in Hd;
    try (assert (Hin : (t, key_of (f_call f), true) ∈ base.filter (on_km (kmut (i_st i)) (f_los f).1) (holders c))
           by (apply elem_of_list_filter; split; [exact Hkm|exact Hd]));
    try (assert (Hin : (t, key_of (f_call f), false) ∈ base.filter (on_km (kmut (i_st i)) (f_los f).1) (holders c))
           by (apply elem_of_list_filter; split; [exact Hkm|exact Hd]));
    destruct (default UFree (c_um c !! (f_los f).1)) as [| |[|n]]; try discriminate Hsp; cbn in Hm.
  all: try (rewrite Hm in Hin; inversion Hin; fail).
  all: try (destruct Hm as [Hm Hall]; try (apply length_zero_nil in Hm; rewrite Hm in Hin; inversion Hin; fail);
            rewrite Forall_forall in Hall; specialize (Hall _ (proj1 (elem_of_list_In _ _) Hin)); discriminate).
  all: destruct Hm as (t0 & k0 & Hm); rewrite Hm in Hin; apply elem_of_list_singleton in Hin; discriminate.
Qed.

Theorem disciplined_no_panic progs sched : io_progs progs -> disc_from (init_config 1 progs) sched ->
  c_panicked (run_schedule (init_config 1 progs) sched) = false.
Proof.
  intros Hp.
  enough (H : forall c, IOInv c -> MInv c -> c_panicked c = false -> disc_from c sched -> c_panicked (run_schedule c sched) = false)
    by (apply H; [apply IOInv_init, Hp|apply MInv_init|reflexivity]).
  induction sched as [|[t ch] sched IH]; intros c HIO HM Hnp Hd; cbn; [exact Hnp|].
  destruct Hd as [Hd1 Hd2]. destruct (step c t ch) as [c'|] eqn:E; cbn in *; [|apply IH; assumption].
  apply IH; [apply (IOInv_step _ _ _ _ HIO E)|eapply MInv_step; eauto|eapply step_no_panic; eauto|exact Hd2].
Qed.

(* ---- LockKey / RLockKey at the level of keys ---- *)
(* the step at a mutex label is the mutex step: enabled iff step_post is, and it completes the call *)
Lemma post_step c t ch f : IOInv c -> c_panicked c = false -> top_frame c t = Some f -> is_post_label (f_pc f) = true ->
  match step_post (c_um c) f with
  | None => step c t ch = None
  | Some (Panic _) => exists c', step c t ch = Some c' /\ c_panicked c' = true
  | Some (Ok (um', o)) => exists c' r, step c t ch = Some c' /\ o = Return r /\ c_um c' = um' /\ c_insts c' = c_insts c /\
       completed (c_hist c') = completed (c_hist c) ++ [(t, f_call f, r)]
  end.
Proof.
  intros HIO Hnp Tt Hpl. pose proof (io_inv _ HIO) as HI. pose proof (io_shape _ HIO) as HS. pose proof (io_hist _ HIO) as HH.
  unfold top_frame in Tt. destruct (nth_error (c_threads c) t) as [th|] eqn:Hth; [|discriminate].
  destruct (HS t th Hth) as [_ Hs]. destruct (t_stack th) as [|f0 [|]] eqn:Hst; try discriminate; try contradiction.
  cbn in Tt. injection Tt as ->.
  assert (Tt : top_frame c t = Some f) by (unfold top_frame; rewrite Hth, Hst; reflexivity).
  assert (P0 : t_fresh th = false -> pend_of (c_hist c) !! t = Some (f_call f)) by (eapply HistOK_pend; eauto).
  rewrite step_unfold, Hnp, Hth, Hst, Hpl.
  destruct (step_post (c_um c) f) as [[[um' o]|k]|] eqn:Hsp; [| |reflexivity].
  - destruct (step_post_return _ _ _ _ Hsp) as [r ->]. unfold fin, do_return.
    assert (Hfo := fo_post _ (inv_frames c HI t f Tt) Hpl).
    destruct (f_call f) as [| |j k v p| | |] eqn:Hcall; try contradiction.
    eexists _, r. split; [reflexivity|]. split; [reflexivity|]. split; [reflexivity|]. split; [reflexivity|].
    cbn [c_hist]. fold (maybe_inv (t_fresh th) t (CLoadOrStore j k v p)). apply completed_ret, P0.
  - unfold fin. eexists. split; reflexivity.
Qed.

Lemma holders_snoc c c' x : completed (c_hist c') = completed (c_hist c) ++ [x] -> holders c' = hold_step (holders c) x.
Proof. intros H. unfold holders. rewrite H. apply holders_of_snoc. Qed.

(* LockKey(k) waits while k is held, in any mode, by anybody *)
Theorem lock_waits_while_held progs sched t ch f t2 b2 :
  io_progs progs -> disc_from (init_config 1 progs) sched ->
  let c := run_schedule (init_config 1 progs) sched in
  top_frame c t = Some f -> (f_pc f = KM_Lock \/ f_pc f = KRW_Lock) ->
  (t2, key_of (f_call f), b2) ∈ holders c -> step c t ch = None.
Proof.
  intros Hp Hd c Tt Hpc Hh.
  pose proof (IOInv_reachable progs sched Hp) as HIO. fold c in HIO.
  destruct (MInv_reachable progs sched Hp Hd) as (i & Hi & Hk & Hm). fold c in Hi, Hk, Hm.
  assert (Hpl : is_post_label (f_pc f) = true) by (destruct Hpc as [-> | ->]; reflexivity).
  pose proof (post_step c t ch f HIO (disciplined_no_panic progs sched Hp Hd) Tt Hpl) as Hps.
  pose proof (post_frame_mutex c i t f HIO Hi Tt Hpl) as Hkm.
  assert (Hex : is_excl_lock (f_pc f) = true) by (destruct Hpc as [-> | ->]; reflexivity).
  destruct (lock_enabled_iff_free (c_um c) f Hex) as [Hen _].
  destruct (step_post (c_um c) f) as [r|] eqn:Hsp; [|exact Hps]. exfalso.
  assert (Hf : free_for_writer (mstate_of (c_um c) f) = true) by (apply Hen; discriminate).
  specialize (Hm (f_los f).1).
  assert (Hin : (t2, key_of (f_call f), b2) ∈ base.filter (on_km (kmut (i_st i)) (f_los f).1) (holders c))
    by (apply elem_of_list_filter; split; [exact Hkm|exact Hh]).
  unfold mstate_of, mutex_of in Hf. destruct (default UFree (c_um c !! (f_los f).1)) as [| |[|n]]; cbn in Hm, Hf; try discriminate.
  - rewrite Hm in Hin. inversion Hin.
  - destruct Hm as [Hm _]. apply length_zero_nil in Hm. rewrite Hm in Hin. inversion Hin.
Qed.

(* LockKey(k) is enabled, completes and then holds k, when nobody holds k - whatever other keys are held or awaited *)
Theorem lock_succeeds_when_key_free_machine progs sched t ch f :
  io_progs progs -> fresh_values progs -> disc_from (init_config 1 progs) sched ->
  let c := run_schedule (init_config 1 progs) sched in
  top_frame c t = Some f -> (f_pc f = KM_Lock \/ f_pc f = KRW_Lock) ->
  (forall t2 b, (t2, key_of (f_call f), b) ∉ holders c) ->
  exists c', step c t ch = Some c' /\ completed (c_hist c') = completed (c_hist c) ++ [(t, f_call f, RUnit)] /\
             holds_excl c' t (key_of (f_call f)).
Proof.
  intros Hp Hfr Hd c Tt Hpc Hfree.
  pose proof (IOInv_reachable progs sched Hp) as HIO. fold c in HIO.
  destruct (MInv_reachable progs sched Hp Hd) as (i & Hi & Hk & Hm). fold c in Hi, Hk, Hm.
  assert (Hpl : is_post_label (f_pc f) = true) by (destruct Hpc as [-> | ->]; reflexivity).
  pose proof (post_step c t ch f HIO (disciplined_no_panic progs sched Hp Hd) Tt Hpl) as Hps.
  pose proof (post_frame_mutex c i t f HIO Hi Tt Hpl) as Hkm.
  assert (Hex : is_excl_lock (f_pc f) = true) by (destruct Hpc as [-> | ->]; reflexivity).
  destruct (lock_enabled_iff_free (c_um c) f Hex) as [Hen Hres].
  assert (Hnil : base.filter (on_km (kmut (i_st i)) (f_los f).1) (holders c) = []).
  { destruct (base.filter _ _) as [|[[t2 k2] b2] l] eqn:E; [reflexivity|]. exfalso.
    assert (Hin : (t2, k2, b2) ∈ base.filter (on_km (kmut (i_st i)) (f_los f).1) (holders c)) by (rewrite E; left).
    apply elem_of_list_filter in Hin as [H1 H2]. unfold on_km in H1. cbn in H1.
    assert (k2 = key_of (f_call f)) by (eapply (kmut_injective progs sched i); eauto). subst k2. exact (Hfree t2 b2 H2). }
  assert (Hf : free_for_writer (mstate_of (c_um c) f) = true).
  { specialize (Hm (f_los f).1). rewrite Hnil in Hm. unfold mstate_of, mutex_of.
    destruct (default UFree (c_um c !! (f_los f).1)) as [| |[|n]]; cbn in Hm |- *; try reflexivity.
    - destruct Hm as (? & ? & ?). discriminate.
    - destruct Hm. discriminate. }
  apply Hen in Hf. destruct (step_post (c_um c) f) as [r|] eqn:Hsp; [|congruence].
  rewrite (Hres r eq_refl) in Hps. destruct Hps as (c' & r' & Hstep & [= <-] & _ & _ & Hc).
  exists c'. split; [exact Hstep|]. split; [exact Hc|].
  unfold holds_excl. rewrite (holders_snoc _ _ _ Hc). unfold hold_step. cbn [fst snd].
  assert (Hfo := fo_post _ (inv_frames c (io_inv _ HIO) t f Tt) Hpl).
  destruct (f_call f) as [| |j k v p| | |] eqn:Hcall; try contradiction.
  pose proof (pc_ok_post_label _ _ _ _ _ ltac:(rewrite <- Hcall; apply (io_pc _ HIO t f Tt)) Hpl) as Hpost.
  assert (acquires (CLoadOrStore j k v p) RUnit = Some (k, true)) as ->.
  { destruct Hpc as [E|E]; rewrite E in Hpost; destruct p; cbn in Hpost; try discriminate; reflexivity. }
  cbn [key_of]. apply elem_of_app. right. left.
Qed.

(* RLockKey(k) waits while k is held exclusively *)
Theorem rlock_waits_while_write_held progs sched t ch f t2 :
  io_progs progs -> disc_from (init_config 1 progs) sched ->
  let c := run_schedule (init_config 1 progs) sched in
  top_frame c t = Some f -> f_pc f = KRW_RLock ->
  holds_excl c t2 (key_of (f_call f)) -> step c t ch = None.
Proof.
  intros Hp Hd c Tt Hpc Hh.
  pose proof (IOInv_reachable progs sched Hp) as HIO. fold c in HIO.
  pose proof (MInv_reachable progs sched Hp Hd) as HM. fold c in HM.
  assert (Hpl : is_post_label (f_pc f) = true) by (rewrite Hpc; reflexivity).
  pose proof (post_step c t ch f HIO (disciplined_no_panic progs sched Hp Hd) Tt Hpl) as Hps.
  destruct (MInv_excl c t2 _ HM Hh) as [_ (i & m & Hi & Hkm & Hlocked)].
  pose proof (post_frame_mutex c i t f HIO Hi Tt Hpl) as Hkm'. assert (m = (f_los f).1) by congruence. subst m.
  destruct (step_post (c_um c) f) as [r|] eqn:Hsp; [|exact Hps]. exfalso.
  assert (Hen : step_post (c_um c) f <> None) by congruence.
  apply (rlock_enabled_iff_no_writer (c_um c) f Hpc) in Hen. unfold mstate_of, mutex_of in Hen. rewrite Hlocked in Hen. discriminate.
Qed.

(* RLockKey(k) is enabled, completes and then holds k shared, when nobody holds k exclusively - readers
   do not exclude each other, and other keys do not matter *)
Theorem rlock_succeeds_when_key_not_write_held_machine progs sched t ch f :
  io_progs progs -> fresh_values progs -> disc_from (init_config 1 progs) sched ->
  let c := run_schedule (init_config 1 progs) sched in
  top_frame c t = Some f -> f_pc f = KRW_RLock ->
  (forall t2, ~ holds_excl c t2 (key_of (f_call f))) ->
  exists c', step c t ch = Some c' /\ completed (c_hist c') = completed (c_hist c) ++ [(t, f_call f, RUnit)] /\
             holds_shared c' t (key_of (f_call f)).
Proof.
  intros Hp Hfr Hd c Tt Hpc Hfree.
  pose proof (IOInv_reachable progs sched Hp) as HIO. fold c in HIO.
  destruct (MInv_reachable progs sched Hp Hd) as (i & Hi & Hk & Hm). fold c in Hi, Hk, Hm.
  assert (Hpl : is_post_label (f_pc f) = true) by (rewrite Hpc; reflexivity).
  pose proof (post_step c t ch f HIO (disciplined_no_panic progs sched Hp Hd) Tt Hpl) as Hps.
  pose proof (post_frame_mutex c i t f HIO Hi Tt Hpl) as Hkm.
  assert (Hf : free_for_reader (mstate_of (c_um c) f) = true).
  { specialize (Hm (f_los f).1). unfold mstate_of, mutex_of.
    destruct (default UFree (c_um c !! (f_los f).1)) as [| |n]; cbn in Hm |- *; try reflexivity.
    destruct Hm as (t0 & k0 & Hm). exfalso.
    assert (Hin : (t0, k0, true) ∈ base.filter (on_km (kmut (i_st i)) (f_los f).1) (holders c)) by (rewrite Hm; left).
    apply elem_of_list_filter in Hin as [H1 H2]. unfold on_km in H1. cbn in H1.
    assert (k0 = key_of (f_call f)) by (eapply (kmut_injective progs sched i); eauto). subst k0. exact (Hfree t0 H2). }
  assert (Hsp : exists um', step_post (c_um c) f = Some (Ok (um', Return RUnit))).
  { unfold step_post. rewrite Hpc. unfold mstate_of, mutex_of in Hf.
    destruct (default UFree (c_um c !! (f_los f).1)); try discriminate Hf; eauto. }
  destruct Hsp as [um' Hsp]. rewrite Hsp in Hps. destruct Hps as (c' & r' & Hstep & [= <-] & _ & _ & Hc).
  exists c'. split; [exact Hstep|]. split; [exact Hc|].
  unfold holds_shared. rewrite (holders_snoc _ _ _ Hc). unfold hold_step. cbn [fst snd].
  assert (Hfo := fo_post _ (inv_frames c (io_inv _ HIO) t f Tt) Hpl).
  destruct (f_call f) as [| |j k v p| | |] eqn:Hcall; try contradiction.
  pose proof (pc_ok_post_label _ _ _ _ _ ltac:(rewrite <- Hcall; apply (io_pc _ HIO t f Tt)) Hpl) as Hpost.
  assert (acquires (CLoadOrStore j k v p) RUnit = Some (k, false)) as ->.
  { rewrite Hpc in Hpost; destruct p; cbn in Hpost; try discriminate; reflexivity. }
  cbn [key_of]. apply elem_of_app. right. left.
Qed.

(* ================================================================== *)
(* 6. a static sufficient condition for the discipline                *)
(* ================================================================== *)
Section cnt.
Context {A : Type} `{EqDecision A}.
Fixpoint cnt (x : A) (l : list A) : nat :=
  match l with [] => 0 | y :: l' => (if decide (x = y) then 1 else 0) + cnt x l' end.
Fixpoint rem1 (x : A) (l : list A) : list A :=
  match l with [] => [] | y :: l' => if decide (x = y) then l' else y :: rem1 x l' end.
Lemma cnt_app x l1 l2 : cnt x (l1 ++ l2) = cnt x l1 + cnt x l2.
Proof. induction l1 as [|y l1 IH]; cbn; [reflexivity|]. rewrite IH. lia. Qed.
Lemma cnt_pos x l : x ∈ l <-> 0 < cnt x l.
Proof.
  induction l as [|y l IH]; cbn.
  - split; [intros H; inversion H|lia].
  - rewrite elem_of_cons, IH. destruct (decide (x = y)); [split; [lia|auto]|split; [intros [?|?]; [contradiction|lia]|intros; right; lia]].
Qed.
Lemma cnt_rem1_same x l : cnt x (rem1 x l) = cnt x l - 1.
Proof.
  induction l as [|y l IH]; cbn; [reflexivity|]. destruct (decide (x = y)) as [->|N]; [lia|].
  cbn. rewrite decide_False by exact N. rewrite IH. lia.
Qed.
Lemma cnt_rem1_other x y l : y <> x -> cnt y (rem1 x l) = cnt y l.
Proof.
  intros N. induction l as [|z l IH]; cbn; [reflexivity|]. destruct (decide (x = z)) as [->|N2].
  - rewrite decide_False by exact N. reflexivity.
  - cbn. rewrite IH. reflexivity.
Qed.
End cnt.

Lemma remove_first_rem1 x l : remove_first x l = rem1 x l.
Proof. induction l as [|y l IH]; cbn; [reflexivity|]. destruct (decide (x = y)); [reflexivity|]. rewrite IH. reflexivity. Qed.

(* what thread certainly holds after a prefix of its program: blocking Lock/RLock acquire, Unlock/RUnlock
   must find the key in the list and release it; keys acquired by Try* are never counted (so never unlocked) *)
Fixpoint balanced_from (held : list (Z * bool)) (prog : list call) : Prop :=
  match prog with
  | [] => True
  | c :: prog' =>
      match c with
      | CLoadOrStore _ k _ (PLock | PWLock) => balanced_from ((k, true) :: held) prog'
      | CLoadOrStore _ k _ PRLock => balanced_from ((k, false) :: held) prog'
      | CLoadOrStore _ k _ (PUnlock | PWUnlock) => (k, true) ∈ held /\ balanced_from (rem1 (k, true) held) prog'
      | CLoadOrStore _ k _ PRUnlock => (k, false) ∈ held /\ balanced_from (rem1 (k, false) held) prog'
      | _ => balanced_from held prog'
      end
  end.
Definition balanced (progs : list (list call)) : Prop := Forall (balanced_from []) progs.

(* the calls a thread still has to complete *)
Definition todo (th : thread) : list call :=
  match t_stack th with [f] => f_call f :: t_prog th | _ => t_prog th end.

Definition BInv (c : config) : Prop :=
  forall t th, nth_error (c_threads c) t = Some th ->
    exists held, (forall k b, cnt (k, b) held <= cnt (t, k, b) (holders c)) /\ balanced_from held (todo th).

Lemma todo_next_call prog res : todo (next_call (Thread prog [] res false)) = prog.
Proof. unfold next_call, todo. cbn. destruct prog; reflexivity. Qed.

Lemma sf_ret_nopost t i f ch i' r : io_call (f_call f) -> pc_ok (f_call f) (f_pc f) = true ->
  step_frame t i f ch = Some (Ok (i', Return r)) ->
  match f_call f with CLoadOrStore _ _ _ p => p = PNone | _ => True end.
Proof.
  intros Hio Hpc H. unfold step_frame in H.
  destruct (f_call f) as [j k|?|j k v p| | |] eqn:Hcall; try contradiction; try exact I.
  destruct (f_pc f) eqn:Hl; try discriminate Hpc; try discriminate H; try (destruct p; discriminate Hpc);
    unfold expunge_done, tlos_done, bind in H; unfold after_miss, dirty_next, los_return in H;
    rewrite ?Hcall in H; repeat case_match; simplify_eq; destruct p; try reflexivity; discriminate.
Qed.

Lemma BInv_disciplined c t : IOInv c -> BInv c -> disciplined c t.
Proof.
  intros HIO HB f Tt. unfold top_frame in Tt. destruct (nth_error (c_threads c) t) as [th|] eqn:Hth; [|discriminate].
  destruct (io_shape _ HIO t th Hth) as [_ Hs]. destruct (t_stack th) as [|f0 [|]] eqn:Hst; try discriminate; try contradiction.
  cbn in Tt. injection Tt as ->.
  assert (Tt : top_frame c t = Some f) by (unfold top_frame; rewrite Hth, Hst; reflexivity).
  destruct (HB t th Hth) as (held & Hcnt & Hbal). unfold todo in Hbal. rewrite Hst in Hbal.
  destruct (is_post_label (f_pc f)) eqn:Hpl; [|destruct (f_pc f); try exact I; discriminate].
  assert (Hfo := fo_post _ (inv_frames c (io_inv _ HIO) t f Tt) Hpl).
  destruct (f_call f) as [| |j k v p| | |] eqn:Hcall; try contradiction.
  pose proof (pc_ok_post_label _ _ _ _ _ ltac:(rewrite <- Hcall; apply (io_pc _ HIO t f Tt)) Hpl) as Hpost.
  cbn [key_of]. unfold holds_excl, holds_shared.
  destruct p; cbn in Hpost; try discriminate Hpost; injection Hpost as Hpost; rewrite <- Hpost; try exact I; cbn in Hbal; destruct Hbal as [Hin _];
    apply cnt_pos in Hin; apply cnt_pos; specialize (Hcnt k); [specialize (Hcnt true)|specialize (Hcnt true)|specialize (Hcnt false)]; lia.
Qed.

Lemma cnt_hold_step_other hs t cl r t' k b : t' <> t -> cnt (t', k, b) (hold_step hs (t, cl, r)) = cnt (t', k, b) hs.
Proof.
  intros N. unfold hold_step. cbn [fst snd]. destruct (acquires cl r) as [[k0 b0]|].
  - rewrite cnt_app. cbn. rewrite decide_False by congruence. lia.
  - destruct (releases cl r) as [[k0 b0]|]; [|reflexivity]. rewrite remove_first_rem1. apply cnt_rem1_other. congruence.
Qed.

Lemma step_post_lock_res um f um' r : step_post um f = Some (Ok (um', Return r)) ->
  match f_pc f with
  | KM_Lock | KRW_Lock | KRW_RLock | KM_Unlock | KRW_Unlock | KRW_RUnlock => r = RUnit
  | _ => exists b, r = RBool b
  end.
Proof. unfold step_post. intros H. destruct (f_pc f); try discriminate H; repeat case_match; simplify_eq; eauto. Qed.

Theorem BInv_step c t ch c' : IOInv c -> BInv c -> step c t ch = Some c' -> BInv c'.
Proof.
  intros HIO HB Hstep. destruct HIO as [HI HS HP HH _].
  assert (HS0 : Shaped flat_call c) by (eapply Shaped_weaken; [apply io_flat|exact HS]).
  pose proof (step_fstep _ _ _ _ HI HS0 Hstep) as Hfs.
  (* it suffices to say what happens to the holders and to thread t *)
  assert (Hgen : forall th f th' hs', nth_error (c_threads c) t = Some th -> t_stack th = [f] ->
            c_threads c' = set_nth_list t th' (c_threads c) ->
            holders c' = hs' -> (hs' = holders c \/ exists cl r, hs' = hold_step (holders c) (t, cl, r)) ->
            (forall held, (forall k b, cnt (k, b) held <= cnt (t, k, b) (holders c)) -> balanced_from held (f_call f :: t_prog th) ->
               exists held', (forall k b, cnt (k, b) held' <= cnt (t, k, b) hs') /\ balanced_from held' (todo th')) ->
            BInv c').
  { intros th f th' hs' Hth Hst Hc' Hh Hhs Ht t' th0. rewrite Hc'.
    assert (Hl : t < length (c_threads c)) by (eapply nth_error_lt; eauto).
    destruct (decide (t' = t)) as [->|N].
    - rewrite nth_error_set_nth_list_eq by exact Hl. intros [= <-]. rewrite Hh.
      destruct (HB t th Hth) as (held & H1 & H2). unfold todo in H2. rewrite Hst in H2. eauto.
    - rewrite nth_error_set_nth_list_ne by auto. intros Hth0. destruct (HB t' th0 Hth0) as (held & H1 & H2).
      exists held. split; [|exact H2]. intros k b. rewrite Hh.
      destruct Hhs as [->|(cl & r & ->)]; [apply H1|]. rewrite cnt_hold_step_other by exact N. apply H1. }
  destruct Hfs as [th f um' r Hth Hst Hpl Hsp|th f k Hth Hst Hpl Hsp|th f i0 i' f' Hth Hst Hpl Hi1 Hsf|th f i0 i' r Hth Hst Hpl Hi1 Hsf];
    (assert (Tt : top_frame c t = Some f) by (unfold top_frame; rewrite Hth, Hst; reflexivity));
    (assert (P0 : t_fresh th = false -> pend_of (c_hist c) !! t = Some (f_call f)) by (eapply HistOK_pend; eauto));
    (assert (Hio : io_call (f_call f)) by (destruct (HS t th Hth) as [_ Hs]; rewrite Hst in Hs; exact Hs)).
  - (* the step on the key's mutex *)
    assert (Hfo := fo_post _ (inv_frames c HI t f Tt) Hpl).
    destruct (f_call f) as [| |j k v p| | |] eqn:Hcall; try contradiction.
    specialize (HP t f Tt). rewrite Hcall in HP. pose proof (pc_ok_post_label _ _ _ _ _ HP Hpl) as Hpost.
    pose proof (step_post_lock_res _ _ _ _ Hsp) as Hres.
    eapply (Hgen th f _ (hold_step (holders c) (t, CLoadOrStore j k v p, r)) Hth Hst eq_refl).
    + unfold holders. cbn [c_hist]. unfold inv_ev. rewrite Hcall. fold (maybe_inv (t_fresh th) t (CLoadOrStore j k v p)).
      rewrite completed_ret by exact P0. rewrite holders_of_snoc. reflexivity.
    + right. eauto.
    + intros held Hcnt Hbal. rewrite todo_next_call. rewrite Hcall in Hbal. unfold hold_step. cbn [fst snd].
      destruct p; cbn in Hpost; try discriminate Hpost; injection Hpost as Hpost; rewrite <- Hpost in Hres;
        cbn in Hres; first [subst r|destruct Hres as [b ->]]; cbn [acquires releases] in *; cbn in Hbal.
      all: try (destruct b).
      all: try (exists ((k, true) :: held); split; [|exact Hbal]; intros k0 b0; specialize (Hcnt k0 b0); rewrite cnt_app; cbn;
                repeat case_decide; simplify_eq; lia).
      all: try (exists ((k, false) :: held); split; [|exact Hbal]; intros k0 b0; specialize (Hcnt k0 b0); rewrite cnt_app; cbn;
                repeat case_decide; simplify_eq; lia).
      all: try (exists held; split; [|exact Hbal]; intros k0 b0; specialize (Hcnt k0 b0); rewrite ?cnt_app; cbn; lia).
      all: destruct Hbal as [Hin Hbal]; eexists; (split; [|exact Hbal]); intros k0 b0; specialize (Hcnt k0 b0);
           rewrite remove_first_rem1;
           match goal with |- context [rem1 (_, ?kk, ?bb) (holders _)] =>
             destruct (decide ((k0, b0) = (kk, bb))) as [E|N];
             [injection E as -> ->; rewrite !cnt_rem1_same; lia
             |rewrite !cnt_rem1_other by congruence; exact Hcnt] end.
  - (* ... panics: the thread is dead *)
    eapply (Hgen th f _ (holders c) Hth Hst eq_refl); [|left; reflexivity|].
    + unfold holders. cbn [c_hist]. unfold inv_ev. fold (maybe_inv (t_fresh th) t (f_call f)).
      rewrite completed_ret by exact P0. rewrite holders_of_snoc. apply hold_step_other; discriminate.
    + intros held Hcnt Hbal. exists []. split; [intros; cbn; lia|exact I].
  - (* map steps: nothing changes *)
    eapply (Hgen th f _ (holders c) Hth Hst eq_refl); [|left; reflexivity|].
    + unfold holders. cbn [c_hist]. unfold inv_ev. fold (maybe_inv (t_fresh th) t (f_call f)).
      rewrite completed_cont by exact P0. reflexivity.
    + intros held Hcnt Hbal. exists held. split; [exact Hcnt|]. unfold todo. cbn.
      rewrite (sf_call _ _ _ _ _ _ Hsf). exact Hbal.
  - (* a plain LoadOrStore or a Load returns *)
    pose proof (sf_ret_nopost _ _ _ _ _ _ Hio (HP t f Tt) Hsf) as Hnp.
    eapply (Hgen th f _ (holders c) Hth Hst eq_refl); [|left; reflexivity|].
    + unfold holders. cbn [c_hist]. unfold inv_ev. fold (maybe_inv (t_fresh th) t (f_call f)).
      rewrite completed_ret by exact P0. rewrite holders_of_snoc. rewrite io_call_not_delete by exact Hio.
      destruct (sf_ret_shape _ _ _ _ _ _ Hio (HP t f Tt) Hsf) as [[o ->]|(a & l & ->)]; apply hold_step_other; discriminate.
    + intros held Hcnt Hbal. exists held. split; [exact Hcnt|]. rewrite todo_next_call.
      destruct (f_call f) as [| |j k v p| | |]; try contradiction; [exact Hbal|]. subst p. exact Hbal.
Qed.

Lemma BInv_init progs : balanced progs -> BInv (init_config 1 progs).
Proof.
  intros Hb t th. cbn. rewrite nth_error_map. destruct (nth_error progs t) as [p|] eqn:E; [|discriminate]. cbn.
  intros [= <-]. exists []. split; [intros; cbn; lia|]. rewrite todo_next_call.
  unfold balanced in Hb. rewrite Forall_forall in Hb. apply Hb. eapply nth_error_In, E.
Qed.

(* balanced programs are disciplined under every schedule *)
Theorem balanced_disciplined progs sched : io_progs progs -> balanced progs -> disc_from (init_config 1 progs) sched.
Proof.
  intros Hp Hb.
  enough (H : forall c, IOInv c -> BInv c -> disc_from c sched) by (apply H; [apply IOInv_init, Hp|apply BInv_init, Hb]).
  induction sched as [|[t ch] sched IH]; intros c HIO HB; cbn; [exact I|].
  split; [apply BInv_disciplined; assumption|].
  destruct (step c t ch) as [c'|] eqn:E; cbn; [|apply IH; assumption].
  apply IH; [apply (IOInv_step _ _ _ _ HIO E)|eapply BInv_step; eauto].
Qed.

(* hence: per-key mutual exclusion for all balanced programs and ALL schedules *)
Corollary keyed_mutual_exclusion_balanced progs sched : io_progs progs -> balanced progs ->
  let c := run_schedule (init_config 1 progs) sched in
  forall k t1 t2, holds_excl c t1 k -> (holds_excl c t2 k -> t1 = t2) /\ ~ holds_shared c t2 k.
Proof. intros Hp Hb. apply keyed_mutual_exclusion; [exact Hp|apply balanced_disciplined; assumption]. Qed.


Lemma ex_progs_balanced : balanced ex_progs.
Proof. repeat constructor. Qed.

(* the mutex of a key is always the value some LoadOrStore call of the programs supplied for that key
   (never a default such as the 0 of tryLoadOrStore's unreachable expunged branch) *)
Theorem observed_value_is_supplied progs sched k m : io_progs progs ->
  observed (run_schedule (init_config 1 progs) sched) k m ->
  exists j p, In (CLoadOrStore j k m p) (concat progs).
Proof.
  intros Hp Ho. apply observed_key_value in Ho; [|apply IOInv_reachable, Hp]. destruct Ho as (i & Hi & e & Hr & He).
  set (G := fun (k m : Z) => exists j p, In (CLoadOrStore j k m p) (concat progs)).
  assert (HG : Forall (Forall (callG G)) progs).
  { apply Forall_forall. intros prog Hprog. apply Forall_forall. intros c Hc.
    destruct c as [| |j k0 v p| | |]; cbn; try exact I. exists j, p. apply in_concat. eauto. }
  destruct (src_reachable G progs sched i Hp HG Hi _ _ Hr) as (m' & He' & HGm). assert (m' = m) by congruence. subst. exact HGm.
Qed.
