(* Insert-only runs of the small-step model of sync2.Map (SyncMap/Model.v):
   one instance, programs made of Load and LoadOrStore calls only - exactly
   KeyedMutex / KeyedRWMutex without ClearKey (C09).

   Proved for ALL programs of that shape and ALL schedules, on top of the
   structural invariant of SyncMap/Inv.v:
   1. no allocated entry is ever nil or expunged, and an entry never changes;
   2. the key -> entry association is functional and stable (reach_any only
      grows; promotion and dirtyLocked's copy keep it), and the entry a frame
      holds locally for its key is that entry;
   3. one value (mutex) per key: every completed LoadOrStore k and every
      Load k that finds something return the same value, forever;
   4. per-KEY mutual exclusion of the keyed mutexes: a ghost list of holders
      computed from the history, an invariant relating it to the state of the
      key's mutex, for runs in which a thread only unlocks keys it holds.

   Part 0 (flat configurations: no Range, so no nested frames; the history
   ghosts) is independent of the insert-only restriction and is reused by
   SyncMap/Linearizable.v. *)
From Typ Require Import SyncMap.Model SyncMap.Inv SyncMap.KeyedMutex.

(* ================================================================== *)
(* Part 0. flat configurations                                        *)
(* ================================================================== *)

Lemma run_schedule_app c s1 s2 : run_schedule c (s1 ++ s2) = run_schedule (run_schedule c s1) s2.
Proof. revert c. induction s1 as [|[t ch] s1 IH]; intros c; cbn; [reflexivity|apply IH]. Qed.

(* induction over the steps of a run *)
Lemma run_schedule_ind (P : config -> Prop) c sched :
  P c -> (forall c t ch c', P c -> step c t ch = Some c' -> P c') -> P (run_schedule c sched).
Proof.
  intros H0 Hs. revert c H0. induction sched as [|[t ch] sched IH]; intros c H0; cbn; [exact H0|].
  apply IH. destruct (step c t ch) as [c'|] eqn:E; cbn; [eapply Hs; eauto|exact H0].
Qed.

(* a relation between a configuration and its successors that is reflexive and transitive *)
Lemma run_schedule_rel (P : config -> Prop) (R : config -> config -> Prop) c sched :
  (forall c, R c c) -> (forall a b c, R a b -> R b c -> R a c) ->
  (forall c t ch c', P c -> step c t ch = Some c' -> P c' /\ R c c') ->
  P c -> P (run_schedule c sched) /\ R c (run_schedule c sched).
Proof.
  intros Hr Ht Hs. revert c. induction sched as [|[t ch] sched IH]; intros c H0; cbn; [auto|].
  destruct (step c t ch) as [c'|] eqn:E; cbn; [|apply IH, H0].
  destruct (Hs _ _ _ _ H0 E) as [H1 H2]. destruct (IH c' H1) as [H3 H4]. eauto.
Qed.

(* calls on instance 0 other than Range *)
Definition flat_call (c : call) : Prop :=
  match c with CRange _ _ => False | _ => call_inst c = 0%nat end.

Definition shaped_thread (Q : call -> Prop) (th : thread) : Prop :=
  Forall Q (t_prog th) /\
  match t_stack th with [] => True | [f] => Q (f_call f) | _ => False end.
Definition Shaped (Q : call -> Prop) (c : config) : Prop :=
  forall t th, nth_error (c_threads c) t = Some th -> shaped_thread Q th.

Definition inv_ev (t : nat) (th : thread) (f : frame) : list event :=
  if t_fresh th then [EvInv t (f_call f)] else [].

(* [step] on a flat configuration *)
Inductive fstep (c : config) (t : nat) (ch : Z) : config -> Prop :=
| fs_post th f um' r :
    nth_error (c_threads c) t = Some th -> t_stack th = [f] -> is_post_label (f_pc f) = true ->
    step_post (c_um c) f = Some (Ok (um', Return r)) ->
    fstep c t ch (Config (c_insts c) um'
       (set_nth_list t (next_call (Thread (t_prog th) [] (t_results th ++ [r]) false)) (c_threads c))
       (c_hist c ++ inv_ev t th f ++ [EvRes t r]) false)
| fs_post_panic th f k :
    nth_error (c_threads c) t = Some th -> t_stack th = [f] -> is_post_label (f_pc f) = true ->
    step_post (c_um c) f = Some (Panic k) ->
    fstep c t ch (Config (c_insts c) (c_um c)
       (set_nth_list t (Thread [] [] (t_results th ++ [RPanic k]) false) (c_threads c))
       (c_hist c ++ inv_ev t th f ++ [EvRes t (RPanic k)]) true)
| fs_cont th f i i' f' :
    nth_error (c_threads c) t = Some th -> t_stack th = [f] -> is_post_label (f_pc f) = false ->
    nth_error (c_insts c) 0 = Some i -> step_frame t i f ch = Some (Ok (i', Continue f')) ->
    fstep c t ch (Config (set_nth_list 0 i' (c_insts c)) (c_um c)
       (set_nth_list t (Thread (t_prog th) [f'] (t_results th) false) (c_threads c))
       (c_hist c ++ inv_ev t th f) false)
| fs_ret th f i i' r :
    nth_error (c_threads c) t = Some th -> t_stack th = [f] -> is_post_label (f_pc f) = false ->
    nth_error (c_insts c) 0 = Some i -> step_frame t i f ch = Some (Ok (i', Return r)) ->
    fstep c t ch (Config (set_nth_list 0 i' (c_insts c)) (c_um c)
       (set_nth_list t (next_call (Thread (t_prog th) [] (t_results th ++ [match f_call f with CDelete _ _ => RUnit | _ => r end]) false)) (c_threads c))
       (c_hist c ++ inv_ev t th f ++ [EvRes t (match f_call f with CDelete _ _ => RUnit | _ => r end)]) false).

Lemma sf_callback t i f ch i' f' k v :
  step_frame t i f ch = Some (Ok (i', Callback f' k v)) -> exists j cb, f_call f = CRange j cb.
Proof.
  intros H. unfold step_frame in H.
  destruct (f_pc f) eqn:Hpc;
    unfold expunge_done, tlos_done, bind in H; unfold after_miss, dirty_next, los_return, range_next in H;
    repeat case_match; simplify_eq; eauto.
Qed.

Lemma step_fstep c t ch c' :
  Inv c -> Shaped flat_call c -> step c t ch = Some c' -> fstep c t ch c'.
Proof.
  intros HI HS H. rewrite step_unfold in H.
  destruct (c_panicked c); [discriminate|].
  destruct (nth_error (c_threads c) t) as [th|] eqn:Hth; [|discriminate].
  destruct (t_stack th) as [|f rest] eqn:Hst; [discriminate|].
  assert (Tt : top_frame c t = Some f) by (unfold top_frame; rewrite Hth, Hst; reflexivity).
  assert (Hok : frame_ok f) by (eapply inv_frames; eauto).
  destruct (HS t th Hth) as [Hprog Hstk]. rewrite Hst in Hstk.
  destruct rest as [|f2 rest]; [|contradiction].
  assert (Hj : call_inst (f_call f) = 0%nat) by (destruct (f_call f); cbn in Hstk; auto; contradiction).
  destruct (is_post_label (f_pc f)) eqn:Hpl.
  - destruct (step_post (c_um c) f) as [[[um' o]|k]|] eqn:Hsp; [| |discriminate].
    + destruct (step_post_return _ _ _ _ Hsp) as [r ->].
      apply (fo_post _ Hok) in Hpl as Hp. destruct (f_call f) eqn:Hc; try contradiction.
      cbn in H. injection H as <-. rewrite <- Hc, <- Hst at 1.
      replace (Thread (t_prog th) (t_stack th) (t_results th) false) with (Thread (t_prog th) (t_stack th) (t_results th) false) by reflexivity.
      eapply (fs_post c t ch th f um' r); eauto.
    + cbn in H. injection H as <-. eapply fs_post_panic; eauto.
  - rewrite Hj in H.
    destruct (nth_error (c_insts c) 0) as [i|] eqn:Hi; [|discriminate].
    destruct (step_frame t i f ch) as [r|] eqn:Hsf; [|discriminate].
    assert (exists i' o, r = Ok (i', o)) as (i' & o & ->).
    { destruct (in_cs f) eqn:Hcs.
      - destruct (inv_insts c HI _ _ Hi) as [Hm Hw].
        assert (Hmu : i_mu i = Some t). { apply Hm. exists f. rewrite Hj. auto. }
        rewrite Hmu in Hw. destruct (sf_cs t i f ch r Hok Hcs Hmu (Hw f Tt) Hsf) as (i' & o & -> & _). eauto.
      - destruct r as [[i' o]|k]; [eauto|]. exfalso. eapply sf_free_nopanic; eauto. }
    destruct o as [f'|r|f' k v].
    + cbn in H. injection H as <-. eapply fs_cont; eauto.
    + cbn in H. injection H as <-. eapply fs_ret; eauto.
    + exfalso. apply sf_callback in Hsf as (j & cb & E). rewrite E in Hstk. exact Hstk.
Qed.
