(* Insert-only runs of the small-step model of sync2.Map (SyncMap/Model.v):
   one instance, programs made of Load and LoadOrStore calls only - exactly
   KeyedMutex / KeyedRWMutex without ClearKey (C09).

   Proved for ALL programs of that shape and ALL schedules, on top of the
   structural invariant of SyncMap/Inv.v:
   1. no allocated entry is ever nil or expunged, and an entry never changes;
   2. the key -> entry association is functional and stable (reach_any only
      grows; promotion and dirtyLocked's copy keep it), and the entry a frame
      holds locally for its key is that entry;
   3. one value (mutex) per key: every completed LoadOrStore k and every
      Load k that finds something return the same value, forever;
   4. per-KEY mutual exclusion of the keyed mutexes: a ghost list of holders
      computed from the history, an invariant relating it to the state of the
      key's mutex, for runs in which a thread only unlocks keys it holds.

   Part 0 (flat configurations: no Range, so no nested frames; the history
   ghosts) is independent of the insert-only restriction and is reused by
   SyncMap/Linearizable.v. *)
From Typ Require Import SyncMap.Model SyncMap.Inv SyncMap.KeyedMutex.

(* ================================================================== *)
(* Part 0. flat configurations                                        *)
(* ================================================================== *)

Lemma run_schedule_app c s1 s2 : run_schedule c (s1 ++ s2) = run_schedule (run_schedule c s1) s2.
Proof. revert c. induction s1 as [|[t ch] s1 IH]; intros c; cbn; [reflexivity|apply IH]. Qed.

(* induction over the steps of a run *)
Lemma run_schedule_ind (P : config -> Prop) c sched :
  P c -> (forall c t ch c', P c -> step c t ch = Some c' -> P c') -> P (run_schedule c sched).
Proof.
  intros H0 Hs. revert c H0. induction sched as [|[t ch] sched IH]; intros c H0; cbn; [exact H0|].
  apply IH. destruct (step c t ch) as [c'|] eqn:E; cbn; [eapply Hs; eauto|exact H0].
Qed.

(* a relation between a configuration and its successors that is reflexive and transitive *)
Lemma run_schedule_rel (P : config -> Prop) (R : config -> config -> Prop) c sched :
  (forall c, R c c) -> (forall a b c, R a b -> R b c -> R a c) ->
  (forall c t ch c', P c -> step c t ch = Some c' -> P c' /\ R c c') ->
  P c -> P (run_schedule c sched) /\ R c (run_schedule c sched).
Proof.
  intros Hr Ht Hs. revert c. induction sched as [|[t ch] sched IH]; intros c H0; cbn; [auto|].
  destruct (step c t ch) as [c'|] eqn:E; cbn; [|apply IH, H0].
  destruct (Hs _ _ _ _ H0 E) as [H1 H2]. destruct (IH c' H1) as [H3 H4]. eauto.
Qed.

(* calls on instance 0 other than Range *)
Definition flat_call (c : call) : Prop :=
  match c with CRange _ _ => False | _ => call_inst c = 0%nat end.

Definition shaped_thread (Q : call -> Prop) (th : thread) : Prop :=
  Forall Q (t_prog th) /\
  match t_stack th with [] => True | [f] => Q (f_call f) | _ => False end.
Definition Shaped (Q : call -> Prop) (c : config) : Prop :=
  forall t th, nth_error (c_threads c) t = Some th -> shaped_thread Q th.

Definition inv_ev (t : nat) (th : thread) (f : frame) : list event :=
  if t_fresh th then [EvInv t (f_call f)] else [].

(* [step] on a flat configuration *)
Inductive fstep (c : config) (t : nat) (ch : Z) : config -> Prop :=
| fs_post th f um' r :
    nth_error (c_threads c) t = Some th -> t_stack th = [f] -> is_post_label (f_pc f) = true ->
    step_post (c_um c) f = Some (Ok (um', Return r)) ->
    fstep c t ch (Config (c_insts c) um'
       (set_nth_list t (next_call (Thread (t_prog th) [] (t_results th ++ [r]) false)) (c_threads c))
       (c_hist c ++ inv_ev t th f ++ [EvRes t r]) false)
| fs_post_panic th f k :
    nth_error (c_threads c) t = Some th -> t_stack th = [f] -> is_post_label (f_pc f) = true ->
    step_post (c_um c) f = Some (Panic k) ->
    fstep c t ch (Config (c_insts c) (c_um c)
       (set_nth_list t (Thread [] [] (t_results th ++ [RPanic k]) false) (c_threads c))
       (c_hist c ++ inv_ev t th f ++ [EvRes t (RPanic k)]) true)
| fs_cont th f i i' f' :
    nth_error (c_threads c) t = Some th -> t_stack th = [f] -> is_post_label (f_pc f) = false ->
    nth_error (c_insts c) 0 = Some i -> step_frame t i f ch = Some (Ok (i', Continue f')) ->
    fstep c t ch (Config (set_nth_list 0 i' (c_insts c)) (c_um c)
       (set_nth_list t (Thread (t_prog th) [f'] (t_results th) false) (c_threads c))
       (c_hist c ++ inv_ev t th f) false)
| fs_ret th f i i' r :
    nth_error (c_threads c) t = Some th -> t_stack th = [f] -> is_post_label (f_pc f) = false ->
    nth_error (c_insts c) 0 = Some i -> step_frame t i f ch = Some (Ok (i', Return r)) ->
    fstep c t ch (Config (set_nth_list 0 i' (c_insts c)) (c_um c)
       (set_nth_list t (next_call (Thread (t_prog th) [] (t_results th ++ [match f_call f with CDelete _ _ => RUnit | _ => r end]) false)) (c_threads c))
       (c_hist c ++ inv_ev t th f ++ [EvRes t (match f_call f with CDelete _ _ => RUnit | _ => r end)]) false).

Lemma sf_callback t i f ch i' f' k v :
  step_frame t i f ch = Some (Ok (i', Callback f' k v)) -> exists j cb, f_call f = CRange j cb.
Proof.
  intros H. unfold step_frame in H.
  destruct (f_pc f) eqn:Hpc;
    unfold expunge_done, tlos_done, bind in H; unfold after_miss, dirty_next, los_return, range_next in H;
    repeat case_match; simplify_eq; eauto.
Qed.

Lemma sf_call t i f ch i' f' : step_frame t i f ch = Some (Ok (i', Continue f')) -> f_call f' = f_call f.
Proof.
  intros H. unfold step_frame in H.
  destruct (f_pc f) eqn:Hpc;
    unfold expunge_done, tlos_done, bind in H; unfold after_miss, dirty_next, los_return, range_next in H;
    repeat case_match; simplify_eq; cbn; congruence.
Qed.

Lemma step_fstep c t ch c' :
  Inv c -> Shaped flat_call c -> step c t ch = Some c' -> fstep c t ch c'.
Proof.
  intros HI HS H. rewrite step_unfold in H.
  destruct (c_panicked c); [discriminate|].
  destruct (nth_error (c_threads c) t) as [th|] eqn:Hth; [|discriminate].
  destruct (t_stack th) as [|f rest] eqn:Hst; [discriminate|].
  assert (Tt : top_frame c t = Some f) by (unfold top_frame; rewrite Hth, Hst; reflexivity).
  assert (Hok : frame_ok f) by (eapply inv_frames; eauto).
  destruct (HS t th Hth) as [Hprog Hstk]. rewrite Hst in Hstk.
  destruct rest as [|f2 rest]; [|contradiction].
  assert (Hj : call_inst (f_call f) = 0%nat) by (destruct (f_call f); cbn in Hstk; auto; contradiction).
  destruct (is_post_label (f_pc f)) eqn:Hpl.
  - destruct (step_post (c_um c) f) as [[[um' o]|k]|] eqn:Hsp; [| |discriminate].
    + destruct (step_post_return _ _ _ _ Hsp) as [r ->].
      apply (fo_post _ Hok) in Hpl as Hp. unfold fin, do_return in H.
      destruct (f_call f) eqn:Hc; try contradiction. injection H as <-. rewrite <- Hc.
      eapply (fs_post c t ch th f um' r); eauto.
    + unfold fin in H. injection H as <-. eapply fs_post_panic; eauto.
  - rewrite Hj in H.
    destruct (nth_error (c_insts c) 0) as [i|] eqn:Hi; [|discriminate].
    destruct (step_frame t i f ch) as [r|] eqn:Hsf; [|discriminate].
    assert (exists i' o, r = Ok (i', o)) as (i' & o & ->).
    { destruct (in_cs f) eqn:Hcs.
      - destruct (inv_insts c HI _ _ Hi) as [Hm Hw].
        assert (Hmu : i_mu i = Some t). { apply Hm. exists f. rewrite Hj. auto. }
        rewrite Hmu in Hw. destruct (sf_cs t i f ch r Hok Hcs Hmu (Hw f Tt) Hsf) as (i' & o & -> & _). eauto.
      - destruct r as [[i' o]|k]; [eauto|]. exfalso. eapply sf_free_nopanic; eauto. }
    destruct o as [f'|r|f' k v].
    + unfold fin in H. injection H as <-. eapply fs_cont; eauto.
    + unfold fin, do_return in H. injection H as <-. eapply fs_ret; eauto.
    + exfalso. apply sf_callback in Hsf as (j & cb & E). rewrite E in Hstk. exact Hstk.
Qed.

(* ---- the threads after a step ---- *)
Lemma shaped_next_call Q prog res b : Forall Q prog -> shaped_thread Q (next_call (Thread prog [] res b)).
Proof.
  intros H. unfold next_call. cbn. destruct prog as [|c prog]; cbn.
  - split; [constructor|exact I].
  - inversion H; subst. split; assumption.
Qed.

Lemma Shaped_set Q c c' t th' :
  t < length (c_threads c) -> Shaped Q c -> c_threads c' = set_nth_list t th' (c_threads c) -> shaped_thread Q th' ->
  Shaped Q c'.
Proof.
  intros Hl Hc E Hth' t' th0. rewrite E. destruct (decide (t' = t)) as [->|N].
  - rewrite nth_error_set_nth_list_eq by exact Hl. congruence.
  - rewrite nth_error_set_nth_list_ne by auto. apply Hc.
Qed.

Lemma Shaped_fstep Q c t ch c' : Inv c -> Shaped Q c -> fstep c t ch c' -> Shaped Q c'.
Proof.
  intros HI HS H.
  destruct H as [th f um' r Hth Hst Hpl Hsp|th f k Hth Hst Hpl Hsp|th f i i' f' Hth Hst Hpl Hi Hsf|th f i i' r Hth Hst Hpl Hi Hsf];
    (assert (Hl : t < length (c_threads c)) by (eapply nth_error_lt; eauto));
    destruct (HS t th Hth) as [Hprog Hstk]; rewrite Hst in Hstk;
    (eapply Shaped_set; [exact Hl|exact HS|reflexivity|]).
  - apply shaped_next_call, Hprog.
  - split; [constructor|exact I].
  - split; [exact Hprog|]. cbn.
    assert (Tt : top_frame c t = Some f) by (unfold top_frame; rewrite Hth, Hst; reflexivity).
    destruct (sf_frame_ok _ _ _ _ _ _ (inv_frames c HI _ _ Tt) Hsf) as [_ ->]. exact Hstk.
  - apply shaped_next_call, Hprog.
Qed.

Lemma Shaped_init Q n progs : Forall (Forall Q) progs -> Shaped Q (init_config n progs).
Proof.
  intros H t th. cbn. rewrite nth_error_map. destruct (nth_error progs t) as [p|] eqn:E; [|discriminate].
  cbn. intros [= <-]. apply shaped_next_call. rewrite Forall_forall in H. apply H. eapply nth_error_In, E.
Qed.

Lemma Shaped_weaken (Q Q' : call -> Prop) c : (forall x, Q x -> Q' x) -> Shaped Q c -> Shaped Q' c.
Proof.
  intros HQ HS t th Hth. destruct (HS t th Hth) as [H1 H2]. split.
  - eapply Forall_impl; eauto.
  - destruct (t_stack th) as [|f [|]]; auto.
Qed.

(* ---- which labels belong to which call ---- *)
Definition pc_ok (c : call) (l : label) : bool :=
  match c with
  | CLoad _ _ =>
      match l with Load_read1 | Load_lock | Load_read2 | Miss_store | Load_unlock | E_load => true | _ => false end
  | CStore _ _ _ =>
      match l with
      | Store_read1 | TryStore_load | TryStore_cas | Store_lock | Store_read2 | Unexpunge_cas | StoreLocked
      | Store_amend | Store_unlock | Dirty_read | Dirty_iter | Expunge_load1 | Expunge_cas | Expunge_load2 => true
      | _ => false
      end
  | CLoadOrStore _ _ _ p =>
      match l with
      | LOS_read1 | Tlos_load1 | Tlos_cas | Tlos_load2 | LOS_lock | LOS_read2 | Unexpunge_cas
      | Dirty_read | Dirty_iter | Expunge_load1 | Expunge_cas | Expunge_load2 | LOS_amend | Miss_store | LOS_unlock => true
      | _ => match post_label p with Some l' => label_eqb l l' | None => false end
      end
  | CLoadAndDelete _ _ | CDelete _ _ =>
      match l with LAD_read1 | LAD_lock | LAD_read2 | Miss_store | LAD_unlock | Delete_load | Delete_cas => true | _ => false end
  | CRange _ _ =>
      match l with Range_read1 | Range_lock | Range_read2 | Range_promote | Range_unlock | Range_iter | E_load => true | _ => false end
  end.

Lemma pc_ok_new c : pc_ok c (first_label c) = true.
Proof. destruct c; reflexivity. Qed.

Lemma label_eqb_refl l : label_eqb l l = true.
Proof. unfold label_eqb. destruct (label_eq_dec l l); congruence. Qed.

Lemma sf_pc_ok t i f ch i' f' :
  pc_ok (f_call f) (f_pc f) = true -> step_frame t i f ch = Some (Ok (i', Continue f')) ->
  pc_ok (f_call f') (f_pc f') = true.
Proof.
  intros Hpc H. unfold step_frame in H.
  destruct (f_call f) eqn:Hc; destruct (f_pc f) eqn:Hl; try discriminate Hpc;
    unfold expunge_done, tlos_done, bind in H; unfold after_miss, dirty_next, los_return, range_next in H;
    rewrite ?Hc in H; cbn in H;
    repeat case_match; simplify_eq; cbn; rewrite ?Hc; cbn; try reflexivity.
  all: try (destruct p; discriminate).
  all: try (match goal with H : post_label ?p = Some _ |- _ => destruct p; cbn in H; simplify_eq; reflexivity end).
Qed.

Definition PcOK (c : config) : Prop := forall t f, top_frame c t = Some f -> pc_ok (f_call f) (f_pc f) = true.

Lemma top_frame_next_call prog res b f :
  head (t_stack (next_call (Thread prog [] res b))) = Some f -> exists c, f = new_frame c.
Proof. unfold next_call. cbn. destruct prog as [|c prog]; cbn; [discriminate|]. intros [= <-]. eauto. Qed.

Lemma PcOK_fstep c t ch c' : PcOK c -> fstep c t ch c' -> PcOK c'.
Proof.
  intros HP H.
  destruct H as [th f um' r Hth Hst Hpl Hsp|th f k Hth Hst Hpl Hsp|th f i i' f' Hth Hst Hpl Hi Hsf|th f i i' r Hth Hst Hpl Hi Hsf];
    (assert (Hl : t < length (c_threads c)) by (eapply nth_error_lt; eauto));
    (assert (Tt : top_frame c t = Some f) by (unfold top_frame; rewrite Hth, Hst; reflexivity));
    intros t' f0; (erewrite top_frame_set; [|exact Hl|reflexivity]);
    (destruct (decide (t' = t)) as [->|N]; [|apply HP]).
  - intros H. apply top_frame_next_call in H as [c0 ->]. apply pc_ok_new.
  - discriminate.
  - cbn. intros [= <-]. eapply sf_pc_ok; eauto.
  - intros H. apply top_frame_next_call in H as [c0 ->]. apply pc_ok_new.
Qed.

Lemma PcOK_init n progs : PcOK (init_config n progs).
Proof. intros t f H. apply init_top in H as [c ->]. apply pc_ok_new. Qed.

(* ---- ghosts computed from the history ---- *)
(* the pending call of every thread, and the completed calls with their results, oldest first *)
Definition hstate : Type := gmap nat call * list (nat * call * res).
Definition hstep (s : hstate) (ev : event) : hstate :=
  match ev with
  | EvInv t c => (<[t := c]> s.1, s.2)
  | EvRes t r => match s.1 !! t with Some c => (delete t s.1, s.2 ++ [(t, c, r)]) | None => s end
  end.
Definition hfold (h : list event) : hstate := fold_left hstep h (∅, []).
Definition pend_of (h : list event) : gmap nat call := (hfold h).1.
Definition completed (h : list event) : list (nat * call * res) := (hfold h).2.

Lemma hfold_app h1 h2 : hfold (h1 ++ h2) = fold_left hstep h2 (hfold h1).
Proof. unfold hfold. apply fold_left_app. Qed.

Definition maybe_inv (fresh : bool) (t : nat) (c : call) : list event := if fresh then [EvInv t c] else [].

Lemma hfold_inv h t c fresh :
  (fresh = false -> pend_of h !! t = Some c) ->
  hfold (h ++ maybe_inv fresh t c) = (<[t := c]> (pend_of h), completed h).
Proof.
  intros H. rewrite hfold_app. unfold pend_of, completed in *. destruct fresh; cbn.
  - reflexivity.
  - rewrite insert_id by auto. destruct (hfold h); reflexivity.
Qed.

Lemma hfold_inv_res h t c r fresh :
  (fresh = false -> pend_of h !! t = Some c) ->
  hfold (h ++ maybe_inv fresh t c ++ [EvRes t r]) = (delete t (pend_of h), completed h ++ [(t, c, r)]).
Proof.
  intros H. rewrite app_assoc, hfold_app, hfold_inv by exact H. cbn.
  rewrite lookup_insert. cbn. rewrite delete_insert_delete. reflexivity.
Qed.

(* the call a thread is executing, as far as the history knows *)
Definition cur_call (th : thread) : option call :=
  match t_stack th with [f] => if t_fresh th then None else Some (f_call f) | _ => None end.

Definition HistOK (c : config) : Prop :=
  forall t, pend_of (c_hist c) !! t = match nth_error (c_threads c) t with Some th => cur_call th | None => None end.

Lemma cur_call_next_call prog res : cur_call (next_call (Thread prog [] res false)) = None.
Proof. unfold next_call. cbn. destruct prog; reflexivity. Qed.

(* what a step does to the history ghosts *)
Lemma hist_fstep c t ch c' : HistOK c -> fstep c t ch c' ->
  HistOK c' /\
  exists th f, nth_error (c_threads c) t = Some th /\ t_stack th = [f] /\
    (completed (c_hist c') = completed (c_hist c) \/
     exists r, completed (c_hist c') = completed (c_hist c) ++ [(t, f_call f, r)] /\
               c_hist c' = c_hist c ++ inv_ev t th f ++ [EvRes t r]).
Proof.
  intros HH H.
  assert (P0 : forall th f, nth_error (c_threads c) t = Some th -> t_stack th = [f] ->
               t_fresh th = false -> pend_of (c_hist c) !! t = Some (f_call f)).
  { intros th f Hth Hst Hf. rewrite HH, Hth. unfold cur_call. rewrite Hst, Hf. reflexivity. }
  assert (Set_ : forall th th' hist' insts um b p,
     nth_error (c_threads c) t = Some th -> p !! t = cur_call th' -> (forall t', t' <> t -> p !! t' = pend_of (c_hist c) !! t') ->
     pend_of hist' = p -> HistOK (Config insts um (set_nth_list t th' (c_threads c)) hist' b)).
  { intros th th' hist' insts um b p Hth Hp Ho Hh t'. cbn. rewrite Hh.
    assert (Hl : t < length (c_threads c)) by (eapply nth_error_lt; eauto).
    destruct (decide (t' = t)) as [->|N].
    - rewrite nth_error_set_nth_list_eq by exact Hl. exact Hp.
    - rewrite nth_error_set_nth_list_ne by auto. rewrite Ho by exact N. apply HH. }
  destruct H as [th f um' r Hth Hst Hpl Hsp|th f k Hth Hst Hpl Hsp|th f i i' f' Hth Hst Hpl Hi Hsf|th f i i' r Hth Hst Hpl Hi Hsf];
    (split; [|exists th, f; split; [exact Hth|split; [exact Hst|]]]); unfold inv_ev; fold (maybe_inv (t_fresh th) t (f_call f)); cbn [c_hist].
  - eapply Set_; [exact Hth| | |unfold pend_of; rewrite hfold_inv_res by eauto; reflexivity].
    + cbn [fst]. rewrite lookup_delete, cur_call_next_call. reflexivity.
    + intros t' N. cbn [fst]. rewrite lookup_delete_ne by auto. reflexivity.
  - right. exists r. split; [|reflexivity]. unfold completed at 1. rewrite hfold_inv_res by eauto. reflexivity.
  - eapply Set_; [exact Hth| | |unfold pend_of; rewrite hfold_inv_res by eauto; reflexivity].
    + cbn [fst]. rewrite lookup_delete. reflexivity.
    + intros t' N. cbn [fst]. rewrite lookup_delete_ne by auto. reflexivity.
  - right. exists (RPanic k). split; [|reflexivity]. unfold completed at 1. rewrite hfold_inv_res by eauto. reflexivity.
  - eapply Set_; [exact Hth| | |unfold pend_of; rewrite hfold_inv by eauto; reflexivity].
    + cbn [fst]. rewrite lookup_insert. unfold cur_call. cbn.
      f_equal. symmetry. eapply sf_call; eauto.
    + intros t' N. cbn [fst]. rewrite lookup_insert_ne by auto. reflexivity.
  - left. unfold completed at 1. rewrite hfold_inv by eauto. reflexivity.
  - eapply Set_; [exact Hth| | |unfold pend_of; rewrite hfold_inv_res by eauto; reflexivity].
    + cbn [fst]. rewrite lookup_delete, cur_call_next_call. reflexivity.
    + intros t' N. cbn [fst]. rewrite lookup_delete_ne by auto. reflexivity.
  - right. eexists. split; [|reflexivity]. unfold completed at 1. rewrite hfold_inv_res by eauto. reflexivity.
Qed.

Lemma HistOK_init n progs : HistOK (init_config n progs).
Proof.
  intros t. cbn. rewrite nth_error_map. unfold pend_of, hfold. cbn. rewrite lookup_empty.
  destruct (nth_error progs t) as [p|]; [|reflexivity]. cbn. unfold next_call. cbn. destruct p; reflexivity.
Qed.

(* ================================================================== *)
(* Part 1. insert-only programs                                       *)
(* ================================================================== *)
Definition io_call (c : call) : Prop :=
  match c with CLoad i _ | CLoadOrStore i _ _ _ => i = 0%nat | _ => False end.

Lemma io_flat c : io_call c -> flat_call c.
Proof. destruct c; cbn; tauto. Qed.

(* every allocated entry holds a value *)
Definition all_val (s : mstate) : Prop :=
  (forall e p, ents s !! e = Some p -> e < next_e s /\ exists v, p = PVal v) /\
  (forall e, e < next_e s -> is_Some (ents s !! e)).

(* what a step may do: allocate; entries never change; associations never go away *)
Definition ext (s s' : mstate) : Prop :=
  next_e s <= next_e s' /\
  (forall e p, ents s !! e = Some p -> ents s' !! e = Some p) /\
  (forall k e, reach_any s k e -> reach_any s' k e).

(* key k is associated with an entry holding m *)
Definition kval (s : mstate) (k m : Z) : Prop := exists e, reach_any s k e /\ ents s !! e = Some (PVal m).

Lemma ext_refl s : ext s s.
Proof. repeat split; auto. Qed.
Lemma ext_trans a b c : ext a b -> ext b c -> ext a c.
Proof. intros (A1 & A2 & A3) (B1 & B2 & B3). repeat split; eauto. lia. Qed.
Lemma kval_ext s s' k m : ext s s' -> kval s k m -> kval s' k m.
Proof. intros (_ & E2 & E3) (e & H1 & H2). exists e. eauto. Qed.

Lemma get_ent_val s e v : get_ent s e = PVal v -> ents s !! e = Some (PVal v).
Proof. unfold get_ent. destruct (ents s !! e); cbn; congruence. Qed.
Lemma all_val_get s e : all_val s -> e < next_e s -> exists v, get_ent s e = PVal v /\ ents s !! e = Some (PVal v).
Proof.
  intros [H1 H2] He. destruct (H2 e He) as [p Hp]. destruct (H1 e p Hp) as [_ [v ->]].
  exists v. unfold get_ent. rewrite Hp. auto.
Qed.
Lemma all_val_not_exp s e : all_val s -> e < next_e s -> is_exp s e = false.
Proof. intros Ha He. destruct (all_val_get s e Ha He) as (v & Hv & _). unfold is_exp. rewrite Hv. reflexivity. Qed.

(* the key -> entry association is functional *)
Definition kfun (s : mstate) : Prop := forall k e1 e2, reach_any s k e1 -> reach_any s k e2 -> e1 = e2.

Lemma kfun_WF_ad s : WF_ad s -> kfun s.
Proof.
  intros [Hcov _] k e1 e2 [H1|H1] [H2|H2]; try congruence; unfold dirty_lookup in *;
    destruct (dirty s) as [d|] eqn:Hd; try discriminate.
  - specialize (Hcov d k e1 eq_refl H1). rewrite H2 in Hcov. destruct (is_exp s e1); congruence.
  - specialize (Hcov d k e2 eq_refl H2). rewrite H1 in Hcov. destruct (is_exp s e2); congruence.
Qed.

Lemma kfun_loop s rdm key done : loop_inv s rdm key done -> kfun s.
Proof.
  intros (_ & _ & _ & d & Hd & _ & L6) k e1 e2 [H1|H1] [H2|H2]; try congruence; unfold dirty_lookup in *; rewrite Hd in *.
  - apply L6 in H2 as [_ H2]. congruence.
  - apply L6 in H1 as [_ H1]. congruence.
Qed.

Lemma kfun_WFL s f : in_cs f = true -> WFL s f -> kfun s.
Proof.
  unfold in_cs, WFL. intros Hcs [_ H]. destruct (cs_class f); try discriminate.
  - apply kfun_WF_ad, H.
  - apply kfun_WF_ad, H.
  - apply kfun_WF_ad, H.
  - apply kfun_WF_ad, H.
  - eapply kfun_loop, H.
  - destruct H as (vis & _ & _ & _ & H). eapply kfun_loop, H.
  - destruct H as [H _]. eapply kfun_loop, H.
Qed.

Lemma kval_fun s k m1 m2 : kfun s -> kval s k m1 -> kval s k m2 -> m1 = m2.
Proof. intros Hf (e1 & A1 & A2) (e2 & B1 & B2). assert (e1 = e2) by eauto. subst. congruence. Qed.

(* ---- the local invariant of a frame ---- *)
Definition e_is_key (l : label) : bool :=
  match l with E_load | Tlos_load1 | Tlos_cas | Tlos_load2 | Unexpunge_cas | Load_unlock | Miss_store => true | _ => false end.
Definition los_known (f : frame) : bool :=
  match f_pc f with
  | LOS_unlock => true
  | Miss_store => match f_call f with CLoadOrStore _ _ _ _ => true | _ => false end
  | l => is_post_label l
  end.
(* stable under [ext]: holds for the frames of all threads *)
Definition FI (s : mstate) (f : frame) : Prop :=
  (e_is_key (f_pc f) = true -> forall e, f_e f = Some e -> reach_any s (key_of (f_call f)) e) /\
  (los_known f = true -> kval s (key_of (f_call f)) (f_los f).1).
(* for the lock holder only: missLocked is only reached with a dirty map *)
Definition LH (s : mstate) (f : frame) : Prop :=
  match f_pc f with
  | Miss_store => dirty s <> None
  | Tlos_load1 | Tlos_cas | Tlos_load2 => f_mode f = MLockedDirty -> dirty s <> None
  | _ => True
  end.

Lemma FI_ext s s' f : ext s s' -> FI s f -> FI s' f.
Proof. intros He [H1 H2]. pose proof He as (_ & _ & E3). split; eauto using kval_ext. Qed.

Lemma FI_new s c : FI s (new_frame c).
Proof. split; destruct c; discriminate. Qed.

(* the result of a call, once it returns *)
Definition res_val (s : mstate) (k : Z) (r : res) : Prop :=
  match r with RLos m _ => kval s k m | ROpt (Some x) => kval s k x | _ => True end.
