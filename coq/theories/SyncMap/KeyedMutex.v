(* Facts about the keyed-mutex part of the small-step model (Model.v):
   the user-level mutex machine [step_post]. *)
From Typ Require Import SyncMap.Model.
Local Open Scope Z_scope.

Definition mutex_of (f : frame) : Z := (f_los f).1.
Definition mstate_of (um : gmap Z umutex) (f : frame) : umutex := default UFree (um !! mutex_of f).

Definition is_try (l : label) : bool :=
  match l with KM_TryLock | KRW_TryLock | KRW_TryRLock => true | _ => false end.
Definition is_excl_lock (l : label) : bool := match l with KM_Lock | KRW_Lock => true | _ => false end.

(* TryLockKey / TryRLockKey: the step on the key's mutex is always enabled (never blocks) *)
Lemma try_never_blocks um f : is_try (f_pc f) = true -> step_post um f <> None.
Proof.
  unfold step_post. destruct (f_pc f); simpl; try discriminate; intros _;
    destruct (default UFree (um !! (f_los f).1)) as [| |[|n]]; discriminate.
Qed.

Definition free_for_writer (s : umutex) : bool := match s with UFree | UReaders O => true | _ => false end.
Definition free_for_reader (s : umutex) : bool := match s with ULocked => false | _ => true end.

(* ... returns true exactly when the mutex is free (compatible) at that step, and then holds it *)
Lemma try_lock_result um f : (f_pc f = KM_TryLock \/ f_pc f = KRW_TryLock) ->
  exists um', step_post um f = Some (Ok (um', Return (RBool (free_for_writer (mstate_of um f))))) /\
    (free_for_writer (mstate_of um f) = true -> um' = <[mutex_of f := ULocked]> um) /\
    (free_for_writer (mstate_of um f) = false -> um' = um).
Proof.
  unfold step_post, mstate_of, mutex_of. intros [-> | ->];
    destruct (default UFree (um !! (f_los f).1)) as [| |[|n]]; simpl;
    eexists; (split; [reflexivity|]); split; intros; try discriminate; reflexivity.
Qed.

Lemma try_rlock_result um f : f_pc f = KRW_TryRLock ->
  exists um', step_post um f = Some (Ok (um', Return (RBool (free_for_reader (mstate_of um f))))) /\
    (free_for_reader (mstate_of um f) = false -> um' = um) /\
    (free_for_reader (mstate_of um f) = true -> um' !! mutex_of f <> Some ULocked /\ um' !! mutex_of f <> Some UFree /\ um' !! mutex_of f <> None).
Proof.
  unfold step_post, mstate_of, mutex_of. intros ->.
  destruct (default UFree (um !! (f_los f).1)) as [| |n]; simpl;
    eexists; (split; [reflexivity|]); split; intros; try discriminate; try reflexivity;
    rewrite lookup_insert; repeat split; discriminate.
Qed.

(* LockKey: the step is enabled exactly when the key's mutex is free; it then holds it exclusively *)
Lemma lock_enabled_iff_free um f : is_excl_lock (f_pc f) = true ->
  (step_post um f <> None <-> free_for_writer (mstate_of um f) = true) /\
  (forall r, step_post um f = Some r -> r = Ok (<[mutex_of f := ULocked]> um, Return RUnit)).
Proof.
  unfold step_post, mstate_of, mutex_of. destruct (f_pc f); simpl; try discriminate; intros _;
    destruct (default UFree (um !! (f_los f).1)) as [| |[|n]]; simpl; split;
    try (split; [intros; reflexivity | intros; discriminate]);
    try (split; [intros H; exfalso; apply H; reflexivity | intros; discriminate]);
    intros r H; try discriminate; injection H as <-; reflexivity.
Qed.

Lemma rlock_enabled_iff_no_writer um f : f_pc f = KRW_RLock ->
  (step_post um f <> None <-> free_for_reader (mstate_of um f) = true).
Proof.
  unfold step_post, mstate_of, mutex_of. intros ->.
  destruct (default UFree (um !! (f_los f).1)) as [| |n]; simpl; split; intros H; try reflexivity; try discriminate.
  exfalso; apply H; reflexivity.
Qed.

(* a mutex step touches only the mutex the call's LoadOrStore returned: other mutexes are unchanged,
   and whether the step is enabled depends on that mutex alone (cross-key independence at this level) *)
Lemma step_post_frame um f um' o m : step_post um f = Some (Ok (um', o)) -> m <> mutex_of f -> um' !! m = um !! m.
Proof.
  unfold step_post, mutex_of. intros H Hm.
  destruct (f_pc f); try discriminate;
    destruct (default UFree (um !! (f_los f).1)) as [| |[|[|n]]]; simpl in H; try discriminate;
    injection H as <- _; try reflexivity; rewrite lookup_insert_ne; auto.
Qed.

Lemma step_post_depends_on_own_mutex um1 um2 f :
  um1 !! mutex_of f = um2 !! mutex_of f ->
  (step_post um1 f = None <-> step_post um2 f = None).
Proof.
  unfold step_post, mutex_of. intros E. rewrite E.
  destruct (f_pc f); try tauto;
    destruct (default UFree (um2 !! (f_los f).1)) as [| |[|[|n]]]; simpl; split; intros; try discriminate; reflexivity.
Qed.
