(* Cross-key progress of the keyed mutexes (C09), for insert-only programs
   (SyncMap/InsertOnly.v): the only things a thread inside a keyed-mutex call on
   key k can ever wait for are
   - the Map's internal mutex m.mu, whose holder can always take a step (no step
     of the critical section blocks) and releases it within
     3 * (number of keys of the read map) + 6 of its own steps - the dirtyLocked
     loop takes 2 steps per key here, every entry holding a value - whatever the
     other threads do meanwhile ([cs_measure], [holder_step],
     [other_step_keeps_cs], [mu_released_within_bound]);
   - at the blocking Lock / RLock step, key k ITSELF being held incompatibly
     ([blocked_only_by_mu_or_own_key_machine]).
   Holding or waiting for another key appears in neither condition. *)
From Typ Require Import SyncMap.Model SyncMap.Inv SyncMap.KeyedMutex SyncMap.InsertOnly.

(* ---- the dirtyLocked loop has a next key whenever it is at its iteration hook ---- *)
Definition iter_ok (f : frame) : Prop := f_pc f = Dirty_iter -> unvisited (f_rd_m f) (f_visited f) <> [].
Definition IterOK (c : config) : Prop := forall t f, top_frame c t = Some f -> iter_ok f.

Lemma sf_iter_ok t i f ch i' f' : step_frame t i f ch = Some (Ok (i', Continue f')) -> iter_ok f'.
Proof.
  intros H. unfold step_frame in H.
  destruct (f_pc f) eqn:Hpc;
    unfold expunge_done, tlos_done, bind in H; unfold after_miss, dirty_next, los_return, range_next in H;
    repeat case_match; simplify_eq; unfold iter_ok; cbn; try discriminate; try (destruct (f_call f); discriminate);
    try (intros _; congruence).
  all: try (match goal with H : post_label ?p = Some _ |- _ => destruct p; cbn in H; simplify_eq; discriminate end).
  all: intros _; match goal with H : unvisited _ _ = _ :: _ |- _ => cbn in H; rewrite H; discriminate end.
Qed.

Lemma iter_ok_new c : iter_ok (new_frame c).
Proof. unfold iter_ok. destruct c; discriminate. Qed.

Lemma IterOK_fstep c t ch c' : IterOK c -> fstep c t ch c' -> IterOK c'.
Proof.
  intros HP H.
  destruct H as [th f um' r Hth Hst Hpl Hsp|th f k Hth Hst Hpl Hsp|th f i i' f' Hth Hst Hpl Hi Hsf|th f i i' r Hth Hst Hpl Hi Hsf];
    (assert (Hl : t < length (c_threads c)) by (eapply nth_error_lt; eauto));
    intros t' f0; (erewrite top_frame_set; [|exact Hl|reflexivity]);
    (destruct (decide (t' = t)) as [->|N]; [|apply HP]).
  - intros H. apply top_frame_next_call in H as [c0 ->]. apply iter_ok_new.
  - discriminate.
  - cbn. intros [= <-]. eapply sf_iter_ok; eauto.
  - intros H. apply top_frame_next_call in H as [c0 ->]. apply iter_ok_new.
Qed.

Lemma IterOK_init n progs : IterOK (init_config n progs).
Proof. intros t f H. apply init_top in H as [c ->]. apply iter_ok_new. Qed.

(* ---- a step of the map that step_frame allows is a step of the configuration ---- *)
Lemma map_step_enabled c t ch f i r :
  IOInv c -> c_panicked c = false -> top_frame c t = Some f -> is_post_label (f_pc f) = false ->
  nth_error (c_insts c) 0 = Some i -> step_frame t i f ch = Some r -> exists c', step c t ch = Some c'.
Proof.
  intros HIO Hnp Tt Hpl Hi Hsf. pose proof (io_shape _ HIO) as HS.
  unfold top_frame in Tt. destruct (nth_error (c_threads c) t) as [th|] eqn:Hth; [|discriminate].
  destruct (HS t th Hth) as [_ Hs]. destruct (t_stack th) as [|f0 [|]] eqn:Hst; try discriminate; try contradiction.
  cbn in Tt. injection Tt as ->.
  assert (Hj : call_inst (f_call f) = 0) by (destruct (f_call f); cbn in Hs; try contradiction; auto).
  rewrite step_unfold, Hnp, Hth, Hst, Hpl, Hj, Hi, Hsf.
  destruct r as [[i' [f'|r|f' k v]]|k]; unfold fin, do_return; try (eexists; reflexivity).
  exfalso. apply sf_callback in Hsf as (j & cb & E). rewrite E in Hs. exact Hs.
Qed.

Definition is_lock_label (l : label) : bool := match l with Load_lock | LOS_lock => true | _ => false end.

(* step_frame of the insert-only calls is enabled except: *_lock while mu is held; Dirty_iter with a choice
   that is not an unvisited key *)
Lemma sf_enabled t i f ch :
  io_call (f_call f) -> pc_ok (f_call f) (f_pc f) = true -> is_post_label (f_pc f) = false ->
  (is_lock_label (f_pc f) = true -> i_mu i = None) ->
  (f_pc f = Dirty_iter -> exists e, f_rd_m f !! ch = Some e /\ existsb (Z.eqb ch) (f_visited f) = false) ->
  step_frame t i f ch <> None.
Proof.
  intros Hio Hpc Hpl Hmu Hit. unfold step_frame.
  destruct (f_call f) as [j k|?|j k v p| | |] eqn:Hcall; try contradiction;
  destruct (f_pc f) eqn:Hl; try discriminate Hpc; try discriminate Hpl; try (destruct p; discriminate Hpc);
    try (rewrite (Hmu eq_refl)); try (destruct (Hit eq_refl) as (e & -> & ->));
    unfold expunge_done, tlos_done, bind, new_entry, dirty_insert; unfold after_miss, dirty_next, los_return;
    repeat case_match; discriminate.
Qed.

Lemma unvisited_choice (m : gmap Z nat) vis k l : unvisited m vis = k :: l ->
  exists e, m !! k = Some e /\ existsb (Z.eqb k) vis = false.
Proof.
  unfold unvisited. intros H.
  assert (Hin : In k (List.filter (fun k : Z => negb (existsb (Z.eqb k) vis)) (map fst (map_to_list m)))) by (rewrite H; left; reflexivity).
  apply filter_In in Hin as [H1 H2]. apply in_map_iff in H1 as ([k' e] & E & H1). cbn in E. subst k'.
  exists e. split; [apply elem_of_map_to_list, elem_of_list_In, H1|]. destruct (existsb _ _); [discriminate|reflexivity].
Qed.

(* ---- the length of the critical section ---- *)
Definition nunv (f : frame) : nat := length (unvisited (f_rd_m f) (f_visited f)).
Definition cs_measure (s : mstate) (f : frame) : nat :=
  match f_pc f with
  | Load_unlock | LOS_unlock => 1
  | Miss_store | LOS_amend => 2
  | Load_read2 | Tlos_load1 | Tlos_load2 => 3
  | Tlos_cas | Unexpunge_cas => 4
  | Dirty_iter => 3 * nunv f + 3
  | Expunge_load1 | Expunge_load2 => 3 * nunv f + 5
  | Expunge_cas => 3 * nunv f + 6
  | Dirty_read => 3 * size (read_m s) + 4
  | LOS_read2 => 3 * size (read_m s) + 6
  | _ => 1
  end.

Lemma filter_length_le {X} (p : X -> bool) l : length (List.filter p l) <= length l.
Proof. induction l as [|x l IH]; cbn; [lia|]. destruct (p x); cbn; lia. Qed.

Lemma filter_length_lt {X} (p q : X -> bool) l x :
  (forall y, q y = true -> p y = true) -> In x l -> p x = true -> q x = false ->
  length (List.filter q l) < length (List.filter p l).
Proof.
  intros Hqp. induction l as [|y l IH]; intros Hin Hp Hq; [destruct Hin|]. cbn.
  assert (Hle : length (List.filter q l) <= length (List.filter p l)).
  { clear -Hqp. induction l as [|z l IH]; cbn; [lia|]. destruct (q z) eqn:E; [rewrite (Hqp z E); cbn; lia|].
    destruct (p z); cbn; lia. }
  destruct Hin as [->|Hin].
  - rewrite Hp, Hq. cbn. lia.
  - specialize (IH Hin Hp Hq). destruct (q y) eqn:E; [rewrite (Hqp y E); cbn; lia|]. destruct (p y); cbn; lia.
Qed.

Lemma nunv_le_size f : nunv f <= size (f_rd_m f).
Proof.
  unfold nunv, unvisited. etransitivity; [apply filter_length_le|]. rewrite map_length.
  unfold size, map_size. reflexivity.
Qed.

Lemma unvisited_cons_lt (m : gmap Z nat) vis k e : m !! k = Some e -> existsb (Z.eqb k) vis = false ->
  length (unvisited m (k :: vis)) < length (unvisited m vis).
Proof.
  intros Hk Hv. unfold unvisited. apply (filter_length_lt _ _ _ k).
  - intros y. cbn. destruct (y =? k)%Z; cbn; [discriminate|auto].
  - apply in_map_iff. exists (k, e). split; [reflexivity|]. apply elem_of_list_In, elem_of_map_to_list, Hk.
  - rewrite Hv. reflexivity.
  - cbn. rewrite Z.eqb_refl. reflexivity.
Qed.

Lemma cs_measure_sf t i f ch i' f' :
  io_call (f_call f) -> pc_ok (f_call f) (f_pc f) = true -> frame_ok f ->
  all_val (i_st i) -> WF_core (i_st i) -> WFL (i_st i) f -> FI (i_st i) f -> in_cs f = true ->
  step_frame t i f ch = Some (Ok (i', Continue f')) -> in_cs f' = true ->
  cs_measure (i_st i') f' < cs_measure (i_st i) f.
Proof.
  intros Hio Hpc [He Hst Hdel Hpost] Ha Hc [_ Hw] [F1 _] Hcs H Hcs'. unfold step_frame in H.
  assert (Hv : forall k e, reach_any (i_st i) k e -> exists v, ent i e = PVal v)
    by (intros k e Hr; destruct (reach_val _ _ _ Ha Hc Hr) as (v & Hv1 & _); eauto).
  unfold in_cs, cs_class in Hcs. unfold cs_class in Hw.
  destruct (f_call f) as [j k|?|j k v p| | |] eqn:Hcall; try contradiction; cbn in Hio; subst j;
  destruct (f_pc f) eqn:Hl; try discriminate Hpc; try discriminate H; try discriminate Hcs; try (destruct p; discriminate Hpc);
    cbn in He, F1; cbn [key_of] in *.
  all: unfold expunge_done, tlos_done, bind, new_entry, dirty_insert in H; unfold after_miss, dirty_next, los_return in H;
    rewrite ?Hcall in H; cbn in H.
  all: repeat case_match; simplify_eq; unfold cs_measure; rewrite Hl; cbn [f_pc set_pc set_rd set_e set_mode set_iter set_los set_p fst snd]; try lia.
  all: rewrite ?Hcall; cbn [unlock_label amend_label]; try lia.
  all: try (match goal with Hp : post_label ?p = Some _ |- _ => exfalso; destruct p; cbn in Hp; simplify_eq; discriminate Hcs' end).
  all: try (exfalso; match goal with Hn : ent _ ?e = PNil |- _ =>
              first [destruct (Hv k e (F1 eq_refl e eq_refl)) as [v0 Hv0]
                    |destruct Hw as (vis & _ & _ & Hcur & (L1 & _)); rewrite L1 in Hcur; destruct (Hv _ e (or_introl Hcur)) as [v0 Hv0]];
              congruence end).
  all: unfold nunv; cbn [f_rd_m f_visited set_pc set_rd set_e set_mode set_iter set_los set_p]; try lia.
  - pose proof (nunv_le_size (set_iter (set_rd f (read_m (i_st i)) false None) [] 0)) as Hle. unfold nunv in Hle. cbn in Hle. lia.
  - match goal with Hk : f_rd_m f !! ch = Some ?e, Hx : existsb _ _ = false |- _ => pose proof (unvisited_cons_lt _ _ _ _ Hk Hx) end. lia.
Qed.

Lemma in_cs_not_lock f : in_cs f = true -> is_lock_label (f_pc f) = false /\ is_post_label (f_pc f) = false.
Proof. unfold in_cs, cs_class. destruct (f_pc f); try discriminate; auto. Qed.

Lemma cs_measure_pos s f : in_cs f = true -> 0 < cs_measure s f.
Proof. unfold in_cs, cs_class, cs_measure. destruct (f_pc f); try discriminate; lia. Qed.

(* the bound: 3 steps per key of the read map, plus a constant *)
Lemma cs_measure_bound s f : in_cs f = true -> WFL s f -> cs_measure s f <= 3 * size (read_m s) + 6.
Proof.
  unfold in_cs, WFL, cs_measure, cs_class. intros Hcs [_ Hw]. pose proof (nunv_le_size f) as Hn.
  destruct (f_pc f); try discriminate Hcs; try lia.
  - destruct Hw as [<- _]. lia.
  - destruct Hw as (vis & _ & _ & _ & [<- _]). lia.
  - destruct Hw as (vis & _ & _ & _ & [<- _]). lia.
  - destruct Hw as (vis & _ & _ & _ & [<- _]). lia.
Qed.

(* the holder of m.mu is enabled, and its step shortens what is left of the critical section *)
Lemma holder_step c t f i :
  IOInv c -> IterOK c -> c_panicked c = false -> c_insts c = [i] -> top_frame c t = Some f -> in_cs f = true ->
  exists ch c' i', step c t ch = Some c' /\ IOInv c' /\ IterOK c' /\ c_panicked c' = false /\ c_insts c' = [i'] /\
    (i_mu i' = None \/ exists f', top_frame c' t = Some f' /\ in_cs f' = true /\ cs_measure (i_st i') f' < cs_measure (i_st i) f).
Proof.
  intros HIO HIT Hnp Hi Tt Hcs. pose proof (io_inv _ HIO) as HI. pose proof (io_shape _ HIO) as HS.
  destruct (in_cs_not_lock f Hcs) as [Hnl Hpl].
  assert (Hi0 : nth_error (c_insts c) 0 = Some i) by (rewrite Hi; reflexivity).
  assert (Hio : io_call (f_call f)).
  { unfold top_frame in Tt. destruct (nth_error (c_threads c) t) as [th|] eqn:Hth; [|discriminate].
    destruct (HS t th Hth) as [_ Hs]. destruct (t_stack th) as [|f0 [|]]; try discriminate; try contradiction.
    cbn in Tt. injection Tt as ->. exact Hs. }
  assert (Hj : call_inst (f_call f) = 0) by (destruct (f_call f); cbn in Hio; try contradiction; auto).
  assert (exists ch, step_frame t i f ch <> None) as [ch Hen].
  { destruct (label_eq_dec (f_pc f) Dirty_iter) as [E|N].
    - destruct (unvisited (f_rd_m f) (f_visited f)) as [|k l] eqn:Eu; [exfalso; apply (HIT t f Tt E Eu)|].
      exists k. apply sf_enabled; auto; [apply (io_pc _ HIO t f Tt)|congruence|]. intros _. eapply unvisited_choice; eauto.
    - exists 0%Z. apply sf_enabled; auto; [apply (io_pc _ HIO t f Tt)|congruence|contradiction]. }
  exists ch. destruct (step_frame t i f ch) as [r|] eqn:Hsf; [|congruence].
  destruct (map_step_enabled c t ch f i r HIO Hnp Tt Hpl Hi0 Hsf) as [c' Hstep].
  destruct (IOInv_step _ _ _ _ HIO Hstep) as [HIO' _].
  assert (HS0 : Shaped flat_call c) by (eapply Shaped_weaken; [apply io_flat|exact HS]).
  pose proof (step_fstep _ _ _ _ HI HS0 Hstep) as Hfs.
  pose proof (IterOK_fstep _ _ _ _ HIT Hfs) as HIT'.
  destruct (Inv_WFL c 0 i t f HI Hi0 Tt Hj Hcs) as [Hmu Hw].
  destruct (io_inst _ HIO) as (i0 & Hi0' & Ha & Hf & _). assert (i0 = i) by congruence. subst i0.
  destruct (sf_cs t i f ch r (inv_frames c HI t f Tt) Hcs Hmu Hw Hsf) as (i' & o & -> & Hcase).
  exists c', i'.
  destruct Hfs as [th f0 um' r Hth Hst Hpl0 Hsp|th f0 k Hth Hst Hpl0 Hsp|th f0 i1 i1' f' Hth Hst Hpl0 Hi1 Hsf1|th f0 i1 i1' r Hth Hst Hpl0 Hi1 Hsf1];
    (assert (f0 = f) by (unfold top_frame in Tt; rewrite Hth, Hst in Tt; cbn in Tt; congruence)); subst f0; try congruence;
    (assert (i1 = i) by congruence); subst i1; rewrite Hsf in Hsf1; injection Hsf1 as E1 E2; subst i1'; subst o;
    (split; [exact Hstep|]); (split; [exact HIO'|]); (split; [exact HIT'|]); (split; [reflexivity|]);
    (split; [cbn; rewrite Hi; reflexivity|]).
  - destruct Hcase as [(Hmu' & f'' & [= <-] & Hcs' & _)|(Hmu' & _)]; [right|left; exact Hmu'].
    exists f'. split; [|split; [exact Hcs'|]].
    + erewrite top_frame_set; [|eapply nth_error_lt; eauto|reflexivity]. rewrite decide_True by reflexivity. reflexivity.
    + destruct (Hf t f Tt) as [HFI _].
      apply (cs_measure_sf t i f ch i' f' Hio (io_pc _ HIO t f Tt) (inv_frames c HI t f Tt) Ha (Inv_WF_core c 0 i HI Hi0) Hw HFI Hcs Hsf Hcs').
  - destruct Hcase as [(_ & f'' & [=] & _)|(Hmu' & _)]. left. exact Hmu'.
Qed.

(* hence m.mu is released within [cs_measure] steps of its holder, none of which can block *)
Lemma holder_releases n : forall c t f i,
  IOInv c -> IterOK c -> c_panicked c = false -> c_insts c = [i] -> top_frame c t = Some f -> in_cs f = true ->
  cs_measure (i_st i) f <= n ->
  exists solo, Forall (fun x : nat * Z => x.1 = t) solo /\ length solo <= n /\
    exists i', c_insts (run_schedule c solo) = [i'] /\ i_mu i' = None.
Proof.
  induction n as [|n IH]; intros c t f i HIO HIT Hnp Hi Tt Hcs Hm;
    destruct (holder_step c t f i HIO HIT Hnp Hi Tt Hcs) as (ch & c' & i' & Hstep & HIO' & HIT' & Hnp' & Hi' & Hcase).
  - exfalso. pose proof (cs_measure_pos (i_st i) f Hcs). lia.
  - destruct Hcase as [Hmu'|(f' & Tt' & Hcs' & Hlt)].
    + exists [(t, ch)]. split; [repeat constructor|]. split; [cbn; lia|]. cbn. rewrite Hstep. cbn. eauto.
    + destruct (IH c' t f' i' HIO' HIT' Hnp' Hi' Tt' Hcs' ltac:(lia)) as (solo & Hall & Hlen & i2 & Hi2 & Hmu2).
      exists ((t, ch) :: solo). split; [constructor; [reflexivity|exact Hall]|]. split; [cbn; lia|].
      cbn. rewrite Hstep. cbn. eauto.
Qed.

(* steps of the other threads leave the holder's frame and the whole Map state alone: what is left of
   the critical section does not grow *)
Lemma other_step_keeps_cs c t f i t2 ch c' :
  IOInv c -> c_insts c = [i] -> top_frame c t = Some f -> in_cs f = true -> t2 <> t -> step c t2 ch = Some c' ->
  top_frame c' t = Some f /\ exists i', c_insts c' = [i'] /\ i_st i' = i_st i.
Proof.
  intros HIO Hi Tt Hcs N Hstep. pose proof (io_inv _ HIO) as HI. pose proof (io_shape _ HIO) as HS.
  assert (HS0 : Shaped flat_call c) by (eapply Shaped_weaken; [apply io_flat|exact HS]).
  pose proof (step_fstep _ _ _ _ HI HS0 Hstep) as Hfs.
  assert (Hi0 : nth_error (c_insts c) 0 = Some i) by (rewrite Hi; reflexivity).
  assert (Hio : io_call (f_call f)).
  { unfold top_frame in Tt. destruct (nth_error (c_threads c) t) as [th|] eqn:Hth; [|discriminate].
    destruct (HS t th Hth) as [_ Hs]. destruct (t_stack th) as [|f0 [|]]; try discriminate; try contradiction.
    cbn in Tt. injection Tt as ->. exact Hs. }
  assert (Hj : call_inst (f_call f) = 0) by (destruct (f_call f); cbn in Hio; try contradiction; auto).
  destruct (Inv_WFL c 0 i t f HI Hi0 Tt Hj Hcs) as [Hmu _].
  destruct (io_inst _ HIO) as (i0 & Hi0' & Ha & Hf & _). assert (i0 = i) by congruence. subst i0.
  destruct Hfs as [th f2 um' r Hth Hst Hpl Hsp|th f2 k Hth Hst Hpl Hsp|th f2 i1 i' f' Hth Hst Hpl Hi1 Hsf|th f2 i1 i' r Hth Hst Hpl Hi1 Hsf];
    (assert (Hl : t2 < length (c_threads c)) by (eapply nth_error_lt; eauto));
    (split; [erewrite top_frame_set; [|exact Hl|reflexivity]; rewrite decide_False by congruence; exact Tt|]);
    try (exists i; split; [exact Hi|reflexivity]).
  all: assert (i1 = i) by congruence; subst i1;
    (assert (Tt2 : top_frame c t2 = Some f2) by (unfold top_frame; rewrite Hth, Hst; reflexivity));
    (assert (Hio2 : io_call (f_call f2)) by (destruct (HS t2 th Hth) as [_ Hs]; rewrite Hst in Hs; exact Hs));
    (assert (Hj2 : call_inst (f_call f2) = 0) by (destruct (f_call f2); cbn in Hio2; try contradiction; auto));
    (assert (Hcs2 : in_cs f2 = false) by (destruct (in_cs f2) eqn:E; [|reflexivity]; destruct (Inv_WFL c 0 i t2 f2 HI Hi0 Tt2 Hj2 E) as [Hmu2 _]; congruence));
    destruct (Hf t2 f2 Tt2) as [HFI _];
    exists i'; (split; [cbn; rewrite Hi; reflexivity|]).
  - destruct (io_sf t2 i f2 ch i' (Continue f') Hio2 (io_pc _ HIO t2 f2 Tt2) (inv_frames c HI t2 f2 Tt2) Ha (Inv_WF_core c 0 i HI Hi0)) as (_ & _ & A3 & _); auto.
    intros E. congruence.
  - destruct (io_sf t2 i f2 ch i' (Return r) Hio2 (io_pc _ HIO t2 f2 Tt2) (inv_frames c HI t2 f2 Tt2) Ha (Inv_WF_core c 0 i HI Hi0)) as (_ & _ & A3 & _); auto.
    intros E. congruence.
Qed.

Lemma IterOK_reachable progs sched : io_progs progs -> IterOK (run_schedule (init_config 1 progs) sched).
Proof.
  intros Hp.
  enough (H : IOInv (run_schedule (init_config 1 progs) sched) /\ IterOK (run_schedule (init_config 1 progs) sched)) by apply H.
  apply run_schedule_ind.
  - split; [apply IOInv_init, Hp|apply IterOK_init].
  - intros c t ch c' [HIO HIT] Hstep. split; [apply (IOInv_step _ _ _ _ HIO Hstep)|].
    eapply IterOK_fstep; [exact HIT|]. apply step_fstep; [apply (io_inv _ HIO)| |exact Hstep].
    eapply Shaped_weaken; [apply io_flat|apply (io_shape _ HIO)].
Qed.

(* Cross-key progress, part 1: whoever holds the Map's internal mutex m.mu can always take a step (no step
   of the critical section blocks), and releases m.mu within 3 * (number of keys of the read map) + 6 of
   its own steps, whatever the other threads do meanwhile and whatever keyed mutexes anybody holds. *)
Theorem mu_released_within_bound progs sched t i :
  io_progs progs ->
  let c := run_schedule (init_config 1 progs) sched in
  c_panicked c = false -> c_insts c = [i] -> i_mu i = Some t ->
  exists solo, Forall (fun x : nat * Z => x.1 = t) solo /\ length solo <= 3 * size (read_m (i_st i)) + 6 /\
    exists i', c_insts (run_schedule c solo) = [i'] /\ i_mu i' = None.
Proof.
  intros Hp c Hnp Hi Hmu.
  pose proof (IOInv_reachable progs sched Hp) as HIO. pose proof (IterOK_reachable progs sched Hp) as HIT. fold c in HIO, HIT.
  assert (Hi0 : nth_error (c_insts c) 0 = Some i) by (rewrite Hi; reflexivity).
  destruct (inv_insts c (io_inv _ HIO) 0 i Hi0) as [Hm Hw]. rewrite Hmu in Hw.
  destruct (proj1 (Hm t) Hmu) as (f & Tt & _ & Hcs).
  apply (holder_releases _ c t f i HIO HIT Hnp Hi Tt Hcs). apply cs_measure_bound; auto.
Qed.

(* Cross-key progress, part 2: a thread that cannot take a step is waiting for m.mu (held by another
   thread, which by part 1 is enabled and releases it within the bound), or it stands at the blocking
   Lock / RLock step of a call on key k while k ITSELF is held incompatibly. Holding or waiting for any
   other key appears nowhere. *)
(* about the queue-less mutex machine; the property theorem with the "contended" alternative is in
   SyncMap/Uncontended.v *)
Theorem blocked_only_by_mu_or_own_key_machine progs sched t f i :
  io_progs progs -> fresh_values progs -> disc_from (init_config 1 progs) sched ->
  let c := run_schedule (init_config 1 progs) sched in
  c_insts c = [i] -> top_frame c t = Some f -> (forall ch, step c t ch = None) ->
  (is_lock_label (f_pc f) = true /\ exists t', t' <> t /\ i_mu i = Some t') \/
  ((f_pc f = KM_Lock \/ f_pc f = KRW_Lock) /\ exists t2 b, (t2, key_of (f_call f), b) ∈ holders c) \/
  (f_pc f = KRW_RLock /\ exists t2, holds_excl c t2 (key_of (f_call f))).
Proof.
  intros Hp Hfr Hd c Hi Tt Hblk.
  pose proof (IOInv_reachable progs sched Hp) as HIO. pose proof (IterOK_reachable progs sched Hp) as HIT. fold c in HIO, HIT.
  pose proof (disciplined_no_panic progs sched Hp Hd) as Hnp. fold c in Hnp.
  pose proof (io_inv _ HIO) as HI. pose proof (io_shape _ HIO) as HS.
  assert (Hi0 : nth_error (c_insts c) 0 = Some i) by (rewrite Hi; reflexivity).
  assert (Hio : io_call (f_call f)).
  { unfold top_frame in Tt. destruct (nth_error (c_threads c) t) as [th|] eqn:Hth; [|discriminate].
    destruct (HS t th Hth) as [_ Hs]. destruct (t_stack th) as [|f0 [|]]; try discriminate; try contradiction.
    cbn in Tt. injection Tt as ->. exact Hs. }
  assert (Hj : call_inst (f_call f) = 0) by (destruct (f_call f); cbn in Hio; try contradiction; auto).
  destruct (is_post_label (f_pc f)) eqn:Hpl.
  - (* at the key's mutex *)
    pose proof (post_step c t 0%Z f HIO Hnp Tt Hpl) as Hps. rewrite (Hblk 0%Z) in Hps.
    destruct (f_pc f) eqn:Hpc; try discriminate Hpl.
    + (* KM_Lock *)
      destruct (decide (Exists (fun h : hold => h.1.2 = key_of (f_call f)) (holders c))) as [E|E].
      * right. left. split; [auto|]. apply Exists_exists in E as ([[t2 k2] b2] & Hin & Hk). cbn in Hk. subst k2.
        exists t2, b2. apply elem_of_list_In, Hin.
      * exfalso. destruct (lock_succeeds_when_key_free_machine progs sched t 0%Z f Hp Hfr Hd Tt (or_introl Hpc)) as (c' & Hs & _).
        -- intros t2 b Hin. apply E, Exists_exists. exists (t2, key_of (f_call f), b). split; [apply elem_of_list_In, Hin|reflexivity].
        -- fold c in Hs. rewrite (Hblk 0%Z) in Hs. discriminate.
    + (* KM_TryLock *) exfalso. pose proof (try_never_blocks (c_um c) f ltac:(rewrite Hpc; reflexivity)) as Hne.
      destruct (step_post (c_um c) f) as [[[um' o]|k]|]; [destruct Hps as (? & ? & ? & _); discriminate|destruct Hps as (? & ? & _); discriminate|congruence].
    + (* KM_Unlock *) exfalso. unfold step_post in Hps. rewrite Hpc in Hps.
      destruct (default UFree (c_um c !! (f_los f).1)); [destruct Hps as (? & ? & _)|destruct Hps as (? & ? & ? & _)|destruct Hps as (? & ? & _)]; discriminate.
    + (* KRW_Lock *)
      destruct (decide (Exists (fun h : hold => h.1.2 = key_of (f_call f)) (holders c))) as [E|E].
      * right. left. split; [auto|]. apply Exists_exists in E as ([[t2 k2] b2] & Hin & Hk). cbn in Hk. subst k2.
        exists t2, b2. apply elem_of_list_In, Hin.
      * exfalso. destruct (lock_succeeds_when_key_free_machine progs sched t 0%Z f Hp Hfr Hd Tt (or_intror Hpc)) as (c' & Hs & _).
        -- intros t2 b Hin. apply E, Exists_exists. exists (t2, key_of (f_call f), b). split; [apply elem_of_list_In, Hin|reflexivity].
        -- fold c in Hs. rewrite (Hblk 0%Z) in Hs. discriminate.
    + (* KRW_TryLock *) exfalso. pose proof (try_never_blocks (c_um c) f ltac:(rewrite Hpc; reflexivity)) as Hne.
      destruct (step_post (c_um c) f) as [[[um' o]|k]|]; [destruct Hps as (? & ? & ? & _); discriminate|destruct Hps as (? & ? & _); discriminate|congruence].
    + (* KRW_Unlock *) exfalso. unfold step_post in Hps. rewrite Hpc in Hps.
      destruct (default UFree (c_um c !! (f_los f).1)); [destruct Hps as (? & ? & _)|destruct Hps as (? & ? & ? & _)|destruct Hps as (? & ? & _)]; discriminate.
    + (* KRW_RLock *)
      destruct (decide (Exists (fun h : hold => h.1.2 = key_of (f_call f) /\ h.2 = true) (holders c))) as [E|E].
      * right. right. split; [reflexivity|]. apply Exists_exists in E as ([[t2 k2] b2] & Hin & Hk & Hb). cbn in Hk, Hb. subst k2 b2.
        exists t2. apply elem_of_list_In, Hin.
      * exfalso. destruct (rlock_succeeds_when_key_not_write_held_machine progs sched t 0%Z f Hp Hfr Hd Tt Hpc) as (c' & Hs & _).
        -- intros t2 Hin. apply E, Exists_exists. exists (t2, key_of (f_call f), true). split; [apply elem_of_list_In, Hin|auto].
        -- fold c in Hs. rewrite (Hblk 0%Z) in Hs. discriminate.
    + (* KRW_TryRLock *) exfalso. pose proof (try_never_blocks (c_um c) f ltac:(rewrite Hpc; reflexivity)) as Hne.
      destruct (step_post (c_um c) f) as [[[um' o]|k]|]; [destruct Hps as (? & ? & ? & _); discriminate|destruct Hps as (? & ? & _); discriminate|congruence].
    + (* KRW_RUnlock *) exfalso. unfold step_post in Hps. rewrite Hpc in Hps.
      destruct (default UFree (c_um c !! (f_los f).1)) as [| |[|n]]; [destruct Hps as (? & ? & _)|destruct Hps as (? & ? & _)|destruct Hps as (? & ? & _)|destruct Hps as (? & ? & ? & _)]; discriminate.
  - (* at a step of the map *)
    destruct (in_cs f) eqn:Hcs.
    { exfalso. destruct (holder_step c t f i HIO HIT Hnp Hi Tt Hcs) as (ch & c' & _ & Hs & _). rewrite (Hblk ch) in Hs. discriminate. }
    assert (Hnot : i_mu i <> Some t).
    { intros E. apply (inv_insts c HI 0 i Hi0) in E as (f1 & T1 & _ & H1). congruence. }
    destruct (is_lock_label (f_pc f)) eqn:Hll.
    + destruct (i_mu i) as [t'|] eqn:Hmu.
      * left. split; [reflexivity|]. exists t'. split; [congruence|reflexivity].
      * exfalso. assert (Hen : step_frame t i f 0%Z <> None).
        { apply sf_enabled; auto; [apply (io_pc _ HIO t f Tt)|]. intros E. unfold in_cs, cs_class in Hcs. rewrite E in Hcs. discriminate. }
        destruct (step_frame t i f 0%Z) as [r|] eqn:Hsf; [|congruence].
        destruct (map_step_enabled c t 0%Z f i r HIO Hnp Tt Hpl Hi0 Hsf) as [c' Hs]. rewrite (Hblk 0%Z) in Hs. discriminate.
    + exfalso. assert (Hen : step_frame t i f 0%Z <> None).
      { apply sf_enabled; auto; [apply (io_pc _ HIO t f Tt)|congruence|]. intros E. unfold in_cs, cs_class in Hcs. rewrite E in Hcs. discriminate. }
      destruct (step_frame t i f 0%Z) as [r|] eqn:Hsf; [|congruence].
      destruct (map_step_enabled c t 0%Z f i r HIO Hnp Tt Hpl Hi0 Hsf) as [c' Hs]. rewrite (Hblk 0%Z) in Hs. discriminate.
Qed.

(* ---- non-vacuity: a dirtyLocked loop over a read map of two keys, another thread waiting for m.mu ---- *)
Definition pr_ex_progs : list (list call) :=
  [[CLoadOrStore 0 1 11 PNone; CLoadOrStore 0 2 22 PNone; CLoad 0 1; CLoad 0 1; CLoadOrStore 0 3 33 PLock];
   [CLoadOrStore 0 9 99 PLock]].
Definition pr_ex_sched : list (nat * Z) := repeat (0%nat, 0%Z) 25 ++ [(1%nat, 0%Z); (1%nat, 0%Z)].
Definition pr_ex_solo : list (nat * Z) := [(0%nat, 1%Z); (0%nat, 0%Z); (0%nat, 2%Z); (0%nat, 0%Z); (0%nat, 0%Z); (0%nat, 0%Z)].
Definition pr_ex_obs (c : config) :=
  (map thread_label (c_threads c),
   match c_insts c with
   | [i] => (i_mu i, size (read_m (i_st i)), match top_frame c 0 with Some f => cs_measure (i_st i) f | None => 0 end)
   | _ => (None, 0, 0)
   end).

Lemma pr_ex_progs_io : io_progs pr_ex_progs.
Proof. repeat constructor. Qed.

Example progress_example :
  let c := run_schedule (init_config 1 pr_ex_progs) pr_ex_sched in
  (* thread 0 (LockKey 3 after two promoted keys) is in dirtyLocked's loop, 9 <= 3*2+6 steps from the unlock;
     thread 1 (LockKey 9, another key) waits for m.mu and cannot move *)
  pr_ex_obs c = ([Some Dirty_iter; Some LOS_lock], (Some 0%nat, 2, 9)) /\ step c 1 0 = None /\
  (* six own steps later m.mu is free, and thread 1 gets it *)
  pr_ex_obs (run_schedule c pr_ex_solo) = ([Some KM_Lock; Some LOS_lock], (None, 2, 1)) /\
  pr_ex_obs (run_schedule c (pr_ex_solo ++ [(1%nat, 0%Z)])) = ([Some KM_Lock; Some LOS_read2], (Some 1%nat, 2, 1)).
Proof. vm_compute. repeat split. Qed.
