(* sync2.Set is an atomic set (C05): every concurrent history of Add / Remove /
   Has on one Set is linearizable to the SET specification, and the order of
   the linearization points is a legal sequential set history, so the
   alternation law of SyncMap/SetSpec.v applies to it.

   Add v = LoadOrStore(v, struct{}{}) reporting !loaded, Remove v =
   LoadAndDelete(v) reporting loaded, Has v = Load(v) reporting ok; the unit
   value is modelled by 0. Derived from [map_linearizable] (Linearizable.v) by a
   simulation between the possibilities of the map specification, on maps all
   of whose values are 0, and the possibilities of the set specification. *)
From Typ Require Import SyncMap.Model SyncMap.Inv SyncMap.SetAtomic Lib.Lin SyncMap.Linearizable SyncMap.SetSpec.

Definition set_frag (c : call) : Prop :=
  match c with
  | CLoad j _ => j = 0
  | CLoadOrStore j _ v p => j = 0 /\ v = 0%Z /\ p = PNone
  | CLoadAndDelete j _ => j = 0
  | _ => False
  end.

Lemma set_frag_lin c : set_frag c -> lin_frag c.
Proof. destruct c; cbn; try tauto; intros; split; tauto. Qed.

Definition unit_opt (b : bool) : option Z := if b then Some 0%Z else None.

(* the sequential set, on the calls of the machine (same shape as SetSpec.legal) *)
Definition set_spec (s : gset Z) (c : call) : gset Z * res :=
  match c with
  | CLoad _ v => (s, ROpt (unit_opt (bool_decide (v ∈ s))))
  | CLoadOrStore _ v _ _ => (if bool_decide (v ∈ s) then s else {[v]} ∪ s, RLos 0 (bool_decide (v ∈ s)))
  | CLoadAndDelete _ v => (if bool_decide (v ∈ s) then s ∖ {[v]} else s, ROpt (unit_opt (bool_decide (v ∈ s))))
  | _ => (s, RUnit)
  end.

(* a map that stands for a set *)
Definition set_of (m : gmap Z Z) (s : gset Z) : Prop := forall k, m !! k = unit_opt (bool_decide (k ∈ s)).

Lemma sim_spec m s c : set_of m s -> set_frag c ->
  snd (map_spec m c) = snd (set_spec s c) /\ set_of (fst (map_spec m c)) (fst (set_spec s c)).
Proof.
  intros R Hf. destruct c as [j k|j k v|j k v p|j k|j k|j cb]; cbn in Hf; try contradiction.
  - cbn. rewrite (R k). auto.
  - destruct Hf as (_ & -> & _). cbn. rewrite (R k). destruct (bool_decide (k ∈ s)) eqn:E; cbn.
    + auto.
    + split; [reflexivity|]. intros k0. destruct (decide (k0 = k)) as [->|N].
      * rewrite lookup_insert. rewrite bool_decide_eq_true_2 by set_solver. reflexivity.
      * rewrite lookup_insert_ne by congruence. rewrite (R k0). f_equal. apply bool_decide_ext. set_solver.
  - cbn. rewrite (R k). split; [reflexivity|]. destruct (bool_decide (k ∈ s)) eqn:E.
    + intros k0. destruct (decide (k0 = k)) as [->|N].
      * rewrite lookup_delete. rewrite bool_decide_eq_false_2 by set_solver. reflexivity.
      * rewrite lookup_delete_ne by congruence. rewrite (R k0). f_equal. apply bool_decide_ext. set_solver.
    + apply bool_decide_eq_false in E. intros k0. destruct (decide (k0 = k)) as [->|N].
      * rewrite lookup_delete. rewrite bool_decide_eq_false_2 by exact E. reflexivity.
      * rewrite lookup_delete_ne by congruence. apply R.
Qed.

(* every possibility of the map specification is one of the set specification *)
Lemma sim_poss h m (P : lpend) :
  poss map_spec ∅ h m P -> (forall t c0, In (HInv t c0) h -> set_frag c0) ->
  exists s, set_of m s /\ poss set_spec ∅ h s P /\ forall t c0 r, P t = Some (c0, r) -> set_frag c0.
Proof.
  induction 1 as [|h a P t c Hp IH HP|h a P t c Hp IH HP|h a P t c r Hp IH HP]; intros Hh.
  - exists ∅. split; [intros k; rewrite lookup_empty; reflexivity|]. split; [constructor|]. intros t c0 r. discriminate.
  - destruct IH as (s & R & Hs & Hf); [intros; apply (Hh t0); right; assumption|].
    exists s. split; [exact R|]. split; [constructor; assumption|].
    intros t0 c0 r. unfold upd. destruct (Nat.eq_dec t0 t) as [->|N]; [|apply Hf].
    intros [= <- <-]. apply (Hh t). left. reflexivity.
  - destruct (IH Hh) as (s & R & Hs & Hf).
    destruct (sim_spec a s c R (Hf t c None HP)) as [E1 E2].
    exists (fst (set_spec s c)). split; [exact E2|]. split.
    + rewrite E1. apply poss_lin; assumption.
    + intros t0 c0 r. unfold upd. destruct (Nat.eq_dec t0 t) as [->|N]; [|apply Hf].
      intros [= <- <-]. apply (Hf t c None HP).
  - destruct IH as (s & R & Hs & Hf); [intros; apply (Hh t0); right; assumption|].
    exists s. split; [exact R|]. split; [econstructor; eassumption|].
    intros t0 c0 r0. unfold upd. destruct (Nat.eq_dec t0 t) as [->|N]; [discriminate|apply Hf].
Qed.

(* ---- every call the history mentions comes from the programs ---- *)
Section HistCalls.
Variable Q : call -> Prop.
Definition calls_Q (c : config) : Prop :=
  (forall t th, nth_error (c_threads c) t = Some th -> Forall Q (t_prog th) /\ Forall (fun f => Q (f_call f)) (t_stack th)) /\
  (forall t c0, In (EvInv t c0) (c_hist c) -> Q c0).

Lemma calls_Q_step c t ch c' seen a :
  Inv c -> Inv2 c -> Inv4 c seen a -> calls_Q c -> step c t ch = Some c' -> calls_Q c'.
Proof.
  intros HI HI2 HI4 [HT HH] H.
  destruct (step_facts c t ch c' seen a HI HI2 HI4 H)
    as (th & f & i & i' & o & Hth & Hst & _ & _ & _ & _ & _ & _ & Hout & _).
  destruct (HT t th Hth) as [Hp Hs]. rewrite Hst in Hs. inversion Hs as [|? ? Hqf _]; subst.
  assert (Hlt : t < length (c_threads c)) by (eapply nth_error_lt; eauto).
  cbv zeta in Hout.
  assert (Hinv : forall t0 c0, In (EvInv t0 c0) (if t_fresh th then [EvInv t (f_call f)] else []) -> Q c0).
  { intros t0 c0. destruct (t_fresh th); [|intros []]. intros [[= <- <-]|[]]. exact Hqf. }
  destruct o as [f'|r|? ? ?]; [| |contradiction].
  - destruct Hout as (E & Hh & Hcall). split.
    + intros t2 th2. rewrite E. destruct (decide (t2 = t)) as [->|N].
      * rewrite nth_error_set_nth_list_eq by exact Hlt. intros [= <-]. cbn. split; [exact Hp|]. constructor; [rewrite Hcall; exact Hqf|constructor].
      * rewrite nth_error_set_nth_list_ne by auto. apply HT.
    + intros t0 c0. rewrite Hh, in_app_iff. intros [Hi|Hi]; [eapply HH; eauto|eapply Hinv; eauto].
  - destruct Hout as (E & Hh). split.
    + intros t2 th2. rewrite E. destruct (decide (t2 = t)) as [->|N].
      * rewrite nth_error_set_nth_list_eq by exact Hlt. intros [= <-]. unfold next_call. cbn.
        destruct (t_prog th) as [|c1 p1]; cbn; [split; constructor|]. inversion Hp; subst.
        split; [assumption|]. constructor; [assumption|constructor].
      * rewrite nth_error_set_nth_list_ne by auto. apply HT.
    + intros t0 c0. rewrite Hh, !in_app_iff. intros [Hi|[Hi|Hi]]; [eapply HH; eauto|eapply Hinv; eauto|].
      destruct Hi as [Hi|[]]. discriminate.
Qed.

Lemma calls_Q_init z progs : Forall (Forall Q) progs -> calls_Q (init_config_z [z] progs).
Proof.
  intros HQ. split; [|intros t c0 []].
  intros t th. cbn. rewrite nth_error_map. destruct (nth_error progs t) as [p|] eqn:E; [|discriminate]. cbn.
  intros [= <-]. assert (Hp : Forall Q p). { rewrite Forall_forall in HQ. apply HQ. eapply nth_error_In, E. }
  unfold next_call. cbn. destruct p as [|c0 p]; cbn; [split; constructor|]. inversion Hp; subst.
  split; [assumption|]. constructor; [assumption|constructor].
Qed.

Lemma run_all c sched seen a : Inv c -> Inv2 c -> Inv4 c seen a -> calls_Q c ->
  exists seen' a', Inv4 (run_schedule c sched) seen' a' /\ calls_Q (run_schedule c sched).
Proof.
  revert c seen a. induction sched as [|[t ch] sched IH]; intros c seen a H1 H2 H4 HQ; cbn; [eauto|].
  destruct (step c t ch) as [c'|] eqn:E; cbn; [|eapply IH; eauto].
  destruct (Inv4_step c t ch c' seen a H1 H2 H4 E) as (seen' & a' & H4').
  eapply IH; [eapply Inv_step; eauto|eapply Inv2_step; eauto|exact H4'|eapply calls_Q_step; eauto].
Qed.
End HistCalls.

(* ---- linearizable to a set ---- *)
Theorem set_linearizable_contents z progs sched :
  Forall (Forall set_frag) progs ->
  let c := run_schedule (init_config_z [z] progs) sched in
  exists (s : gset Z) (P : lpend),
    poss set_spec ∅ (rev (map_hist c)) s P /\
    (forall v, v ∈ s <-> abs_lookup (st0 c) v <> None) /\
    (finished c = true -> forall t, P t = None).
Proof.
  intros Hfr c.
  assert (Hlf : Forall (Forall lin_frag) progs).
  { eapply List.Forall_impl; [|exact Hfr]. intros p. apply List.Forall_impl. apply set_frag_lin. }
  destruct (run_all set_frag (init_config_z [z] progs) sched _ _ (Inv_init_z [z] progs) (Inv2_init_z [z] progs)
              (Inv4_init z progs Hlf) (calls_Q_init set_frag z progs Hfr)) as (seen & a & HI4 & [_ HH]). fold c in HI4, HH.
  destruct (i4_fam _ _ _ HI4 (fun _ => None)) as (P & Hp & HP); [intros t x; discriminate|].
  destruct (sim_poss _ _ _ Hp) as (s & R & Hs & _).
  { intros t c0 Hin. apply in_rev in Hin. unfold map_hist in Hin. apply in_map_iff in Hin as ([t1 c1|t1 r1] & E & Hin); [|discriminate].
    injection E as -> ->. eapply HH; eauto. }
  exists s, P. split; [exact Hs|]. split.
  - intros v. rewrite <- (i4_abs _ _ _ HI4 v), (R v). destruct (bool_decide (v ∈ s)) eqn:E.
    + apply bool_decide_eq_true in E. cbn. split; [discriminate|auto].
    + apply bool_decide_eq_false in E. cbn. split; [contradiction|]. intros N. exfalso. apply N. reflexivity.
  - intros Hfin t. rewrite HP. unfold Pof, info.
    destruct (nth_error (c_threads c) t) as [th|] eqn:E; [|reflexivity].
    unfold finished in Hfin. rewrite forallb_forall in Hfin. specialize (Hfin th (nth_error_In _ _ E)).
    unfold frame_of. destruct (t_stack th); [|discriminate]. destruct (t_fresh th); reflexivity.
Qed.

Theorem set_linearizable z progs sched :
  Forall (Forall set_frag) progs ->
  linearizable set_spec ∅ (map_hist (run_schedule (init_config_z [z] progs) sched)).
Proof.
  intros Hfr. destruct (set_linearizable_contents z progs sched Hfr) as (s & P & Hp & _). exists s, P. exact Hp.
Qed.

(* ================================================================== *)
(* the linearization order                                             *)
(* ================================================================== *)
(* possibilities that also record the sequence of markers (most recent first):
   (thread, call, result fixed at the marker). A marker is placed between the
   call's invocation and its response (rules [po_lin] needs the call pending
   and unmarked, [po_res] needs it marked), so this sequence is consistent with
   the real-time order of the history. *)
Section Ord.
Context {Call Res St : Type}.
Variable spec : St -> Call -> St * Res.

Inductive poss_ord (a0 : St) : list (@hevent Call Res) -> St -> @pend Call Res -> list (nat * Call * Res) -> Prop :=
| po_nil : poss_ord a0 [] a0 no_pend []
| po_inv h a P o t c : poss_ord a0 h a P o -> P t = None -> poss_ord a0 (HInv t c :: h) a (upd P t (Some (c, None))) o
| po_lin h a P o t c : poss_ord a0 h a P o -> P t = Some (c, None) ->
    poss_ord a0 h (fst (spec a c)) (upd P t (Some (c, Some (snd (spec a c))))) ((t, c, snd (spec a c)) :: o)
| po_res h a P o t c r : poss_ord a0 h a P o -> P t = Some (c, Some r) -> poss_ord a0 (HRes t r :: h) a (upd P t None) o.

Lemma poss_ord_of_poss a0 h a P : poss spec a0 h a P -> exists o, poss_ord a0 h a P o.
Proof.
  induction 1 as [|h a P t c Hp [o IH] HP|h a P t c Hp [o IH] HP|h a P t c r Hp [o IH] HP].
  - exists []. constructor.
  - exists o. constructor; assumption.
  - eexists. apply po_lin; eassumption.
  - exists o. econstructor; eassumption.
Qed.

Lemma poss_of_ord a0 h a P o : poss_ord a0 h a P o -> poss spec a0 h a P.
Proof. induction 1; econstructor; eassumption. Qed.

(* the order and the history talk about the same calls *)
Lemma ord_links a0 h a P o : poss_ord a0 h a P o ->
  (forall t c r, P t = Some (c, Some r) -> In (t, c, r) o) /\
  (forall t r, In (HRes t r) h -> exists c, In (t, c, r) o) /\
  (forall t c r, In (t, c, r) o -> In (HInv t c) h).
Proof.
  induction 1 as [|h a P o t c Hp (I1 & I2 & I3) HP|h a P o t c Hp (I1 & I2 & I3) HP|h a P o t c r Hp (I1 & I2 & I3) HP].
  - split; [discriminate|]. split; [intros t r []|intros t c r []].
  - split; [|split].
    + intros t0 c0 r0. unfold upd. destruct (Nat.eq_dec t0 t); [discriminate|apply I1].
    + intros t0 r0 [Hi|Hi]; [discriminate|apply I2, Hi].
    + intros t0 c0 r0 Hi. right. eapply I3, Hi.
  - split; [|split].
    + intros t0 c0 r0. unfold upd. destruct (Nat.eq_dec t0 t) as [->|N].
      * intros [= <- <-]. left. reflexivity.
      * intros Hi. right. apply I1, Hi.
    + intros t0 r0 Hi. destruct (I2 t0 r0 Hi) as [c0 Hc0]. exists c0. right. exact Hc0.
    + intros t0 c0 r0 [[= <- <- <-]|Hi]; [|eapply I3, Hi].
      (* the call marked now was invoked: it is pending *)
      clear I1 I2. revert HP. clear -Hp. induction Hp as [|h a P o t1 c1 Hp IH HP1|h a P o t1 c1 Hp IH HP1|h a P o t1 c1 r1 Hp IH HP1]; intros HP.
      * discriminate.
      * unfold upd in HP. destruct (Nat.eq_dec t t1) as [->|N]; [injection HP as ->; left; reflexivity|right; apply IH, HP].
      * unfold upd in HP. destruct (Nat.eq_dec t t1) as [->|N]; [discriminate|apply IH, HP].
      * unfold upd in HP. destruct (Nat.eq_dec t t1) as [->|N]; [discriminate|right; apply IH, HP].
  - split; [|split].
    + intros t0 c0 r0. unfold upd. destruct (Nat.eq_dec t0 t); [discriminate|apply I1].
    + intros t0 r0 [[= <- <-]|Hi]; [exists c; apply I1, HP|apply I2, Hi].
    + intros t0 c0 r0 Hi. right. eapply I3, Hi.
Qed.
End Ord.

(* ---- the order, read as a sequential set history ---- *)
Definition sop_of (c : call) (r : res) : sop :=
  match c, r with
  | CLoadOrStore _ v _ _, RLos _ loaded => SAdd v (negb loaded)
  | CLoadAndDelete _ v, ROpt o => SRemove v (match o with Some _ => true | None => false end)
  | CLoad _ v, ROpt o => SHas v (match o with Some _ => true | None => false end)
  | _, _ => SHas 0 false
  end.
Definition sops (o : list (nat * call * res)) : list sop := map (fun x => sop_of (snd (fst x)) (snd x)) (rev o).

Lemma legal_app s h1 h2 : legal s (h1 ++ h2) <-> legal s h1 /\ legal (final s h1) h2.
Proof.
  revert s. induction h1 as [|[v ok|v ok|v r] h1 IH]; intros s; cbn; [tauto| | |]; rewrite IH; tauto.
Qed.
Lemma final_app s h1 h2 : final s (h1 ++ h2) = final (final s h1) h2.
Proof. revert s. induction h1 as [|[v ok|v ok|v r] h1 IH]; intros s; cbn; auto. Qed.

Lemma set_spec_sop s c : set_frag c ->
  legal s [sop_of c (snd (set_spec s c))] /\ final s [sop_of c (snd (set_spec s c))] = fst (set_spec s c).
Proof.
  destruct c as [j k|j k v|j k v p|j k|j k|j cb]; cbn; try contradiction; intros _.
  - destruct (bool_decide (k ∈ s)); cbn; auto.
  - destruct (bool_decide (k ∈ s)); cbn; auto.
  - destruct (bool_decide (k ∈ s)); cbn; auto.
Qed.

Lemma ord_legal h s (P : lpend) o :
  poss_ord set_spec ∅ h s P o -> (forall t c0 r, In (t, c0, r) o -> set_frag c0) ->
  legal ∅ (sops o) /\ final ∅ (sops o) = s.
Proof.
  induction 1 as [|h a P o t c Hp IH HP|h a P o t c Hp IH HP|h a P o t c r Hp IH HP]; intros Ho; auto.
  - split; [exact I|reflexivity].
  - destruct IH as [L F]; [intros t0 c0 r0 Hi; apply (Ho t0 c0 r0); right; exact Hi|].
    assert (Hf : set_frag c) by (apply (Ho t c (snd (set_spec a c))); left; reflexivity).
    destruct (set_spec_sop a c Hf) as [L1 F1].
    unfold sops. cbn [rev]. rewrite map_app. cbn [map fst snd]. fold (sops o).
    split.
    + apply legal_app. split; [exact L|]. rewrite F. exact L1.
    + rewrite final_app, F. exact F1.
Qed.

Lemma hist_set_frag z progs sched :
  Forall (Forall set_frag) progs ->
  forall t c0, In (HInv t c0) (map_hist (run_schedule (init_config_z [z] progs) sched)) -> set_frag c0.
Proof.
  intros Hfr t c0 Hin.
  assert (Hlf : Forall (Forall lin_frag) progs).
  { eapply List.Forall_impl; [|exact Hfr]. intros p. apply List.Forall_impl. apply set_frag_lin. }
  destruct (run_all set_frag (init_config_z [z] progs) sched _ _ (Inv_init_z [z] progs) (Inv2_init_z [z] progs)
              (Inv4_init z progs Hlf) (calls_Q_init set_frag z progs Hfr)) as (seen & a & _ & [_ HH]).
  unfold map_hist in Hin. apply in_map_iff in Hin as ([t1 c1|t1 r1] & E & Hin); [|discriminate].
  injection E as -> ->. eapply HH; eauto.
Qed.

(* sync2.Set is an atomic set: there is a linearization order [o] of the calls
   of the history (markers inside the calls' intervals), which read as a
   sequential history is a legal history of a set starting empty and ending in
   the current contents; every response of the history is the result its call
   has in [o]. Hence (SetSpec.seq_alternation) for every value the successful
   Adds and Removes alternate in that order, starting with an Add, and their
   balance is the value's membership. *)
Theorem set_atomic z progs sched :
  Forall (Forall set_frag) progs ->
  let c := run_schedule (init_config_z [z] progs) sched in
  exists (s : gset Z) (P : lpend) (o : list (nat * call * res)),
    poss_ord set_spec ∅ (rev (map_hist c)) s P o /\
    (forall v, v ∈ s <-> abs_lookup (st0 c) v <> None) /\
    (finished c = true -> forall t, P t = None) /\
    (forall t r, In (HRes t r) (map_hist c) -> exists c0, In (t, c0, r) o) /\
    (forall t c0 r, In (t, c0, r) o -> In (HInv t c0) (map_hist c)) /\
    legal ∅ (sops o) /\ final ∅ (sops o) = s /\
    forall v, alternates true (succ_events v (sops o)) /\
              (count_true (succ_events v (sops o)) - count_false (succ_events v (sops o)) =
               if bool_decide (v ∈ s) then 1 else 0)%Z.
Proof.
  intros Hfr c.
  destruct (set_linearizable_contents z progs sched Hfr) as (s & P & Hp & Hmem & Hfin). fold c in Hp, Hmem, Hfin.
  destruct (poss_ord_of_poss _ _ _ _ _ Hp) as [o Ho].
  destruct (ord_links _ _ _ _ _ _ Ho) as (_ & I2 & I3).
  assert (Hof : forall t c0 r, In (t, c0, r) o -> set_frag c0).
  { intros t c0 r Hi. apply I3 in Hi. apply (proj2 (in_rev _ _)) in Hi. eapply (hist_set_frag z progs sched Hfr); eauto. }
  destruct (ord_legal _ _ _ _ Ho Hof) as [L F].
  exists s, P, o. split; [exact Ho|]. split; [exact Hmem|]. split; [exact Hfin|].
  split; [intros t r Hi; apply I2; exact (proj1 (in_rev _ _) Hi)|].
  split; [intros t c0 r Hi; apply (proj2 (in_rev _ _)); apply (I3 t c0 r), Hi|].
  split; [exact L|]. split; [exact F|].
  intros v. destruct (seq_alternation v (sops o) L) as [A B]. rewrite F in B. auto.
Qed.
