(* Small-step interleaving model of sync2.Map, sync2.Set's use of it and the
   keyed mutexes (/repo/sync2/map.go, set.go, keyedmutex.go).

   One step = one hook of the `verif` build (the atomic action that follows
   the hook: an atomic load/store/CAS of an entry pointer or of m.read, a
   mutex operation, one map-iteration step) plus the goroutine-private code
   up to the next hook. Code that runs with m.mu held and touches only
   m.dirty / m.misses is private to the lock holder and is folded into the
   step that precedes it (Appendix A of DESIGN.md).

   A configuration holds several Map instances, the user-level mutexes of the
   keyed mutexes, and threads; each thread runs a list of API calls. A call is
   a frame with a program counter (the label of its next hook) and locals.
   Range with a callback that itself calls the API (Set.AddSet/RemoveSet)
   pushes a child frame.

   Published maps (m.read's map) are never mutated by the code, so a thread's
   local copy `read` is modelled by value.
   Definitions only. *)
From Typ Require Export SyncMap.Seq.
Local Open Scope Z_scope.

(* ---- labels = hook names ---- *)
Inductive label :=
| Load_read1 | Load_lock | Load_read2 | Load_unlock | E_load
| Store_read1 | Store_lock | Store_read2 | Store_amend | Store_unlock
| TryStore_load | TryStore_cas | Unexpunge_cas | StoreLocked
| LOS_read1 | LOS_lock | LOS_read2 | LOS_amend | LOS_unlock
| Tlos_load1 | Tlos_cas | Tlos_load2
| LAD_read1 | LAD_lock | LAD_read2 | LAD_unlock | Delete_load | Delete_cas
| Range_read1 | Range_lock | Range_read2 | Range_promote | Range_unlock | Range_iter
| Miss_store | Dirty_read | Dirty_iter | Expunge_load1 | Expunge_cas | Expunge_load2
| KM_Lock | KM_TryLock | KM_Unlock | KRW_Lock | KRW_TryLock | KRW_Unlock | KRW_RLock | KRW_TryRLock | KRW_RUnlock.

Definition label_eq_dec : forall a b : label, {a = b} + {a <> b}.
Proof. decide equality. Defined.
Definition label_eqb (a b : label) : bool := if label_eq_dec a b then true else false.

(* ---- API calls ---- *)
(* what a keyed-mutex method does with the mutex LoadOrStore returned *)
Inductive post := PNone | PLock | PTryLock | PUnlock | PWLock | PWTryLock | PWUnlock | PRLock | PTryRLock | PRUnlock.
(* Range callbacks: stop at the n-th call / add to, remove from another set *)
Inductive cb := CbStop (n : option nat) | CbAdd (i : nat) | CbRemove (i : nat).

Inductive call :=
| CLoad (i : nat) (k : Z)
| CStore (i : nat) (k v : Z)
| CLoadOrStore (i : nat) (k v : Z) (p : post)
| CLoadAndDelete (i : nat) (k : Z)
| CDelete (i : nat) (k : Z)               (* m.LoadAndDelete(key) with the result dropped *)
| CRange (i : nat) (f : cb).

Inductive res :=
| RUnit | ROpt (o : option Z) | RLos (actual : Z) (loaded : bool) | RBool (b : bool)
| RRange (l : list (Z * Z)) (count : Z) | RPanic (k : panic_kind)
| RCount (count : Z).   (* only used for OBSERVED results: a Range whose pairs the caller did not record *)

Definition call_inst (c : call) : nat :=
  match c with CLoad i _ | CStore i _ _ | CLoadOrStore i _ _ _ | CLoadAndDelete i _ | CDelete i _ | CRange i _ => i end.

(* ---- per-call locals ---- *)
Inductive tmode := MFast | MLockedRead | MLockedDirty.  (* where tryLoadOrStore was called from *)

Record frame := Frame {
  f_call : call;
  f_pc : label;
  f_rd_m : gmap Z nat;   (* local `read`.m *)
  f_rd_am : bool;        (* local `read`.amended *)
  f_e : option nat;      (* local e (with ok = isSome) *)
  f_p : ptr;             (* last loaded pointer *)
  f_pver : nat;          (* ... and the identity of that pointer, see i_ver *)
  f_mode : tmode;
  f_visited : list Z;    (* keys already visited by the current `range` loop *)
  f_curk : Z;            (* key of the current iteration *)
  f_out : list (Z * Z);  (* pairs passed to the Range callback so far *)
  f_acc : Z;             (* Range: number of callback calls / count accumulated by CbAdd, CbRemove *)
  f_los : Z * bool       (* LoadOrStore: (actual, loaded) once known *)
}.

Definition first_label (c : call) : label :=
  match c with
  | CLoad _ _ => Load_read1 | CStore _ _ _ => Store_read1 | CLoadOrStore _ _ _ _ => LOS_read1
  | CLoadAndDelete _ _ | CDelete _ _ => LAD_read1 | CRange _ _ => Range_read1
  end.
Definition new_frame (c : call) : frame :=
  Frame c (first_label c) ∅ false None PNil 0 MFast [] 0 [] 0 (0, false).

Definition set_pc (f : frame) (l : label) : frame :=
  Frame (f_call f) l (f_rd_m f) (f_rd_am f) (f_e f) (f_p f) (f_pver f) (f_mode f) (f_visited f) (f_curk f) (f_out f) (f_acc f) (f_los f).
Definition set_rd (f : frame) (m : gmap Z nat) (am : bool) (e : option nat) : frame :=
  Frame (f_call f) (f_pc f) m am e (f_p f) (f_pver f) (f_mode f) (f_visited f) (f_curk f) (f_out f) (f_acc f) (f_los f).
Definition set_e (f : frame) (e : option nat) : frame :=
  Frame (f_call f) (f_pc f) (f_rd_m f) (f_rd_am f) e (f_p f) (f_pver f) (f_mode f) (f_visited f) (f_curk f) (f_out f) (f_acc f) (f_los f).
Definition set_p (f : frame) (p : ptr) (ver : nat) : frame :=
  Frame (f_call f) (f_pc f) (f_rd_m f) (f_rd_am f) (f_e f) p ver (f_mode f) (f_visited f) (f_curk f) (f_out f) (f_acc f) (f_los f).
Definition set_mode (f : frame) (m : tmode) : frame :=
  Frame (f_call f) (f_pc f) (f_rd_m f) (f_rd_am f) (f_e f) (f_p f) (f_pver f) m (f_visited f) (f_curk f) (f_out f) (f_acc f) (f_los f).
Definition set_iter (f : frame) (visited : list Z) (k : Z) : frame :=
  Frame (f_call f) (f_pc f) (f_rd_m f) (f_rd_am f) (f_e f) (f_p f) (f_pver f) (f_mode f) visited k (f_out f) (f_acc f) (f_los f).
Definition set_out (f : frame) (out : list (Z * Z)) (acc : Z) : frame :=
  Frame (f_call f) (f_pc f) (f_rd_m f) (f_rd_am f) (f_e f) (f_p f) (f_pver f) (f_mode f) (f_visited f) (f_curk f) out acc (f_los f).
Definition set_los (f : frame) (a : Z) (l : bool) : frame :=
  Frame (f_call f) (f_pc f) (f_rd_m f) (f_rd_am f) (f_e f) (f_p f) (f_pver f) (f_mode f) (f_visited f) (f_curk f) (f_out f) (f_acc f) (a, l).

(* ---- shared state ---- *)
(* i_ver e counts the writes to entry e's pointer: a CompareAndSwap whose old
   value is a pointer to a value succeeds iff the pointer is still the very
   same one, i.e. iff nothing was written since it was loaded (every write
   installs nil, expunged or a freshly allocated pointer). nil and expunged
   are constants and compare by value.
   i_zs says that the values of this Map are ZERO-SIZE (sync2.Set is a
   Map[T, struct{}]); see cas_ok. It never changes. *)
Record inst := Inst { i_st : mstate; i_mu : option nat; i_ver : gmap nat nat; i_zs : bool }.
Definition empty_inst_z (zs : bool) : inst := Inst empty_mstate None ∅ zs.
Definition empty_inst : inst := empty_inst_z false.

Inductive umutex := UFree | ULocked | UReaders (n : nat).   (* sync.Mutex / sync.RWMutex, trusted abstract machine *)

Inductive event := EvInv (t : nat) (c : call) | EvRes (t : nat) (r : res).

Record thread := Thread {
  t_prog : list call;      (* calls still to make, after the current one *)
  t_stack : list frame;    (* current call (bottom) and a callback's nested call (top) *)
  t_results : list res;    (* results of completed top-level calls, oldest first *)
  t_fresh : bool           (* the current top-level call has not taken a step yet *)
}.

Record config := Config {
  c_insts : list inst;
  c_um : gmap Z umutex;
  c_threads : list thread;
  c_hist : list event;
  c_panicked : bool
}.

(* outcome of one step of the top frame *)
Inductive outcome :=
| Continue (f : frame)                 (* now waits at f_pc f *)
| Return (r : res)                     (* the frame's call returns r *)
| Callback (f : frame) (k v : Z).      (* Range passes (k,v) to its callback; f is the Range frame after the load *)

Definition with_st (i : inst) (s : mstate) : inst := Inst s (i_mu i) (i_ver i) (i_zs i).
Definition ent (i : inst) (e : nat) : ptr := get_ent (i_st i) e.
Definition ver (i : inst) (e : nat) : nat := default O (i_ver i !! e).
Definition put_ent (i : inst) (e : nat) (p : ptr) : inst :=
  Inst (set_ent (i_st i) e p) (i_mu i) (<[e := S (ver i e)]> (i_ver i)) (i_zs i).
(* does CompareAndSwapPointer(&e.p, f_p, _) succeed?
   In a Map whose values are ZERO-SIZE (i_zs = true: sync2.Set stores
   struct{}{}, modelled by the value 0) Go gives every value the same address
   (runtime.zerobase), so pointers to values are all identical and a
   compare-and-swap from one of them succeeds whenever the entry currently
   holds a value, even if it was deleted and re-added in between. In every
   other Map (i_zs = false, e.g. Map[int,int], also when it stores the int 0)
   the pointer identity (write counter) decides. *)
Definition cas_ok (i : inst) (e : nat) (f : frame) : bool :=
  match f_p f with
  | PVal v => bool_decide (ent i e = f_p f) && ((i_zs i && (v =? 0)) || Nat.eqb (ver i e) (f_pver f))
  | p => bool_decide (ent i e = p)
  end.
Definition st_with_misses (s : mstate) (m : Z) : mstate :=
  MState (ents s) (next_e s) (read_m s) (amended s) (dirty s) m.
Definition st_with_read (s : mstate) (m : gmap Z nat) (am : bool) : mstate :=
  MState (ents s) (next_e s) m am (dirty s) (misses s).
Definition st_with_dirty (s : mstate) (d : option (gmap Z nat)) : mstate :=
  MState (ents s) (next_e s) (read_m s) (amended s) d (misses s).

(* the unlock label of the call a frame belongs to *)
Definition unlock_label (c : call) : label :=
  match c with
  | CLoad _ _ => Load_unlock | CStore _ _ _ => Store_unlock | CLoadOrStore _ _ _ _ => LOS_unlock
  | CLoadAndDelete _ _ | CDelete _ _ => LAD_unlock | CRange _ _ => Range_unlock
  end.
Definition amend_label (c : call) : label :=
  match c with CStore _ _ _ => Store_amend | _ => LOS_amend end.

(* private part of missLocked: "m.misses++; if m.misses < len(m.dirty) { return }" then the miss.store hook *)
Definition after_miss (i : inst) (f : frame) : inst * frame :=
  let s := i_st i in
  let m' := misses s + 1 in
  let i' := with_st i (st_with_misses s m') in
  if m' <? dirty_len s then (i', set_pc f (unlock_label (f_call f)))
  else (i', set_pc f Miss_store).

(* the keys of a `range` loop that have not been visited yet *)
Definition unvisited (m : gmap Z nat) (visited : list Z) : list Z :=
  filter (fun k => negb (existsb (Z.eqb k) visited)) (map fst (map_to_list m)).

(* dirtyLocked's loop: after finishing a key, either another iteration or the caller's amend hook *)
Definition dirty_next (f : frame) : frame :=
  match unvisited (f_rd_m f) (f_visited f) with
  | [] => set_pc f (amend_label (f_call f))
  | _ => set_pc f Dirty_iter
  end.

(* "if !e.tryExpungeLocked() { m.dirty[k] = e }" once tryExpungeLocked's result is known *)
Definition expunge_done (i : inst) (f : frame) (e : nat) (is_expunged : bool) : result (inst * frame) :=
  if is_expunged then Ok (i, dirty_next f)
  else do s' <- dirty_insert (i_st i) (f_curk f) e; Ok (with_st i s', dirty_next f).

(* post action of the keyed mutexes on the mutex id LoadOrStore returned *)
Definition post_label (p : post) : option label :=
  match p with
  | PNone => None | PLock => Some KM_Lock | PTryLock => Some KM_TryLock | PUnlock => Some KM_Unlock
  | PWLock => Some KRW_Lock | PWTryLock => Some KRW_TryLock | PWUnlock => Some KRW_Unlock
  | PRLock => Some KRW_RLock | PTryRLock => Some KRW_TryRLock | PRUnlock => Some KRW_RUnlock
  end.

(* LoadOrStore is about to return (actual, loaded) *)
Definition los_return (f : frame) (actual : Z) (loaded : bool) : outcome :=
  match f_call f with
  | CLoadOrStore _ _ _ p =>
      match post_label p with
      | None => Return (RLos actual loaded)
      | Some l => Continue (set_pc (set_los f actual loaded) l)
      end
  | _ => Return (RLos actual loaded)
  end.

(* tryLoadOrStore finished with (actual, loaded, ok) in mode f_mode *)
Definition tlos_done (i : inst) (f : frame) (actual : Z) (loaded ok : bool) : inst * outcome :=
  match f_mode f with
  | MFast => if ok then (i, los_return f actual loaded) else (i, Continue (set_pc f LOS_lock))
  | MLockedRead => (i, Continue (set_pc (set_los f actual loaded) LOS_unlock))
  | MLockedDirty => let '(i', f') := after_miss i (set_los f actual loaded) in (i', Continue f')
  end.

(* the Range loop after the current key is done: next iteration, or the call returns *)
Definition range_next (f : frame) (stop : bool) : outcome :=
  if stop then Return (RRange (f_out f) (f_acc f))
  else match unvisited (f_rd_m f) (f_visited f) with
       | [] => Return (RRange (f_out f) (f_acc f))
       | _ => Continue (set_pc f Range_iter)
       end.

Definition key_of (c : call) : Z :=
  match c with CLoad _ k | CStore _ k _ | CLoadOrStore _ k _ _ | CLoadAndDelete _ k | CDelete _ k => k | CRange _ _ => 0 end.
Definition val_of (c : call) : Z :=
  match c with CStore _ _ v | CLoadOrStore _ _ v _ => v | _ => 0 end.

(* One step of frame f of thread t on its instance i. [choice] is the key of a
   map-iteration hook. None = the step is not enabled (mutex held by someone
   else, or the choice is not a legal next key). User mutexes are handled by
   [step_post] below. *)
Definition step_frame (t : nat) (i : inst) (f : frame) (choice : Z) : option (result (inst * outcome)) :=
  let s := i_st i in
  let key := key_of (f_call f) in
  let value := val_of (f_call f) in
  let lock (next : label) :=
    match i_mu i with None => Some (Ok (Inst s (Some t) (i_ver i) (i_zs i), Continue (set_pc f next))) | Some _ => None end in
  let unlock (o : outcome) := Some (Ok (Inst s None (i_ver i) (i_zs i), o)) in
  match f_pc f with
  (* ---------------- Load ---------------- *)
  | Load_read1 =>
      let e := read_m s !! key in
      let f' := set_rd f (read_m s) (amended s) e in
      match e with
      | Some _ => Some (Ok (i, Continue (set_pc f' E_load)))
      | None => if amended s then Some (Ok (i, Continue (set_pc f' Load_lock)))
                else Some (Ok (i, Return (ROpt None)))
      end
  | Load_lock => lock Load_read2
  | Load_read2 =>
      let e := read_m s !! key in
      let f' := set_rd f (read_m s) (amended s) e in
      match e with
      | None => if amended s then
                  let f'' := set_e f' (dirty_lookup s key) in
                  let '(i', f3) := after_miss i f'' in Some (Ok (i', Continue f3))
                else Some (Ok (i, Continue (set_pc f' Load_unlock)))
      | Some _ => Some (Ok (i, Continue (set_pc f' Load_unlock)))
      end
  | Miss_store =>
      let s' := MState (ents s) (next_e s) (default ∅ (dirty s)) false None 0 in
      Some (Ok (with_st i s', Continue (set_pc f (unlock_label (f_call f)))))
  | Load_unlock =>
      match f_e f with
      | Some _ => unlock (Continue (set_pc f E_load))
      | None => unlock (Return (ROpt None))
      end
  | E_load =>
      match f_e f with
      | None => Some (Panic NilDeref)
      | Some e =>
          match f_call f with
          | CRange _ c =>
              match ent i e with
              | PVal v => Some (Ok (i, Callback f (f_curk f) v))
              | _ => Some (Ok (i, range_next f false))
              end
          | _ => match ent i e with
                 | PVal v => Some (Ok (i, Return (ROpt (Some v))))
                 | _ => Some (Ok (i, Return (ROpt None)))
                 end
          end
      end
  (* ---------------- Store ---------------- *)
  | Store_read1 =>
      let e := read_m s !! key in
      let f' := set_rd f (read_m s) (amended s) e in
      match e with
      | Some _ => Some (Ok (i, Continue (set_pc f' TryStore_load)))
      | None => Some (Ok (i, Continue (set_pc f' Store_lock)))
      end
  | TryStore_load =>
      match f_e f with
      | None => Some (Panic NilDeref)
      | Some e => let p := ent i e in
                  match p with
                  | PExpunged => Some (Ok (i, Continue (set_pc f Store_lock)))
                  | _ => Some (Ok (i, Continue (set_pc (set_p f p (ver i e)) TryStore_cas)))
                  end
      end
  | TryStore_cas =>
      match f_e f with
      | None => Some (Panic NilDeref)
      | Some e => if cas_ok i e f then Some (Ok (put_ent i e (PVal value), Return RUnit))
                  else Some (Ok (i, Continue (set_pc f TryStore_load)))
      end
  | Store_lock => lock Store_read2
  | Store_read2 =>
      let e := read_m s !! key in
      let f' := set_rd f (read_m s) (amended s) e in
      match e with
      | Some _ => Some (Ok (i, Continue (set_pc f' Unexpunge_cas)))
      | None =>
          match dirty_lookup s key with
          | Some e' => Some (Ok (i, Continue (set_pc (set_e f' (Some e')) StoreLocked)))
          | None =>
              if amended s then
                let '(s1, e1) := new_entry s value in
                Some (do s2 <- dirty_insert s1 key e1; Ok (with_st i s2, Continue (set_pc f' Store_unlock)))
              else match dirty s with
                   | Some _ => Some (Ok (i, Continue (set_pc f' Store_amend)))   (* dirtyLocked returns at once *)
                   | None => Some (Ok (i, Continue (set_pc f' Dirty_read)))
                   end
          end
      end
  | Unexpunge_cas =>
      match f_e f with
      | None => Some (Panic NilDeref)
      | Some e =>
          let next := match f_call f with
                      | CStore _ _ _ => set_pc f StoreLocked
                      | _ => set_pc (set_mode f MLockedRead) Tlos_load1
                      end in
          match ent i e with
          | PExpunged => let i1 := put_ent i e PNil in Some (do s' <- dirty_insert (i_st i1) key e; Ok (with_st i1 s', Continue next))
          | _ => Some (Ok (i, Continue next))
          end
      end
  | StoreLocked =>
      match f_e f with
      | None => Some (Panic NilDeref)
      | Some e => Some (Ok (put_ent i e (PVal value), Continue (set_pc f Store_unlock)))
      end
  | Store_amend | LOS_amend =>
      (* m.read.Store(readOnly{m: read.m, amended: true}) with the LOCAL read.m; m.dirty[key] = newEntry(value) *)
      let s0 := st_with_read s (f_rd_m f) true in
      let '(s1, e1) := new_entry s0 value in
      Some (do s2 <- dirty_insert s1 key e1;
            Ok (with_st i s2,
                match f_call f with
                | CStore _ _ _ => Continue (set_pc f Store_unlock)
                | _ => Continue (set_pc (set_los f value false) LOS_unlock)
                end))
  | Store_unlock => unlock (Return RUnit)
  (* ---------------- dirtyLocked ---------------- *)
  | Dirty_read =>
      (* read, _ := m.read.Load(); m.dirty = make(map) *)
      let f' := set_iter (set_rd f (read_m s) (amended s) (f_e f)) [] 0 in
      Some (Ok (with_st i (st_with_dirty s (Some ∅)), Continue (dirty_next f')))
  | Dirty_iter =>
      match f_rd_m f !! choice with
      | Some e => if existsb (Z.eqb choice) (f_visited f) then None
                  else Some (Ok (i, Continue (set_pc (set_e (set_iter f (choice :: f_visited f) choice) (Some e)) Expunge_load1)))
      | None => None
      end
  | Expunge_load1 | Expunge_load2 =>
      match f_e f with
      | None => Some (Panic NilDeref)
      | Some e => match ent i e with
                  | PNil => Some (Ok (i, Continue (set_pc f Expunge_cas)))
                  | PExpunged => Some (do r <- expunge_done i f e true; Ok (r.1, Continue r.2))
                  | PVal _ => Some (do r <- expunge_done i f e false; Ok (r.1, Continue r.2))
                  end
      end
  | Expunge_cas =>
      match f_e f with
      | None => Some (Panic NilDeref)
      | Some e => match ent i e with
                  | PNil => Some (do r <- expunge_done (put_ent i e PExpunged) f e true; Ok (r.1, Continue r.2))
                  | _ => Some (Ok (i, Continue (set_pc f Expunge_load2)))
                  end
      end
  (* ---------------- LoadOrStore ---------------- *)
  | LOS_read1 =>
      let e := read_m s !! key in
      let f' := set_rd f (read_m s) (amended s) e in
      match e with
      | Some _ => Some (Ok (i, Continue (set_pc (set_mode f' MFast) Tlos_load1)))
      | None => Some (Ok (i, Continue (set_pc f' LOS_lock)))
      end
  | Tlos_load1 | Tlos_load2 =>
      match f_e f with
      | None => Some (Panic NilDeref)
      | Some e => match ent i e with
                  | PExpunged => let '(i', o) := tlos_done i f 0 false false in Some (Ok (i', o))
                  | PVal v => let '(i', o) := tlos_done i f v true true in Some (Ok (i', o))
                  | PNil => Some (Ok (i, Continue (set_pc f Tlos_cas)))
                  end
      end
  | Tlos_cas =>
      match f_e f with
      | None => Some (Panic NilDeref)
      | Some e => match ent i e with
                  | PNil => let '(i', o) := tlos_done (put_ent i e (PVal value)) f value false true in Some (Ok (i', o))
                  | _ => Some (Ok (i, Continue (set_pc f Tlos_load2)))
                  end
      end
  | LOS_lock => lock LOS_read2
  | LOS_read2 =>
      let e := read_m s !! key in
      let f' := set_rd f (read_m s) (amended s) e in
      match e with
      | Some _ => Some (Ok (i, Continue (set_pc f' Unexpunge_cas)))
      | None =>
          match dirty_lookup s key with
          | Some e' => Some (Ok (i, Continue (set_pc (set_mode (set_e f' (Some e')) MLockedDirty) Tlos_load1)))
          | None =>
              if amended s then
                let '(s1, e1) := new_entry s value in
                Some (do s2 <- dirty_insert s1 key e1;
                      Ok (with_st i s2, Continue (set_pc (set_los f' value false) LOS_unlock)))
              else match dirty s with
                   | Some _ => Some (Ok (i, Continue (set_pc f' LOS_amend)))
                   | None => Some (Ok (i, Continue (set_pc f' Dirty_read)))
                   end
          end
      end
  | LOS_unlock => unlock (los_return f (f_los f).1 (f_los f).2)
  (* ---------------- LoadAndDelete ---------------- *)
  | LAD_read1 =>
      let e := read_m s !! key in
      let f' := set_rd f (read_m s) (amended s) e in
      match e with
      | Some _ => Some (Ok (i, Continue (set_pc f' Delete_load)))
      | None => if amended s then Some (Ok (i, Continue (set_pc f' LAD_lock)))
                else Some (Ok (i, Return (ROpt None)))
      end
  | LAD_lock => lock LAD_read2
  | LAD_read2 =>
      let e := read_m s !! key in
      let f' := set_rd f (read_m s) (amended s) e in
      match e with
      | None => if amended s then
                  let f'' := set_e f' (dirty_lookup s key) in
                  let '(i', f3) := after_miss (with_st i (dirty_delete s key)) f'' in Some (Ok (i', Continue f3))
                else Some (Ok (i, Continue (set_pc f' LAD_unlock)))
      | Some _ => Some (Ok (i, Continue (set_pc f' LAD_unlock)))
      end
  | LAD_unlock =>
      match f_e f with
      | Some _ => unlock (Continue (set_pc f Delete_load))
      | None => unlock (Return (ROpt None))
      end
  | Delete_load =>
      match f_e f with
      | None => Some (Panic NilDeref)
      | Some e => match ent i e with
                  | PVal v => Some (Ok (i, Continue (set_pc (set_p f (PVal v) (ver i e)) Delete_cas)))
                  | _ => Some (Ok (i, Return (ROpt None)))
                  end
      end
  | Delete_cas =>
      match f_e f with
      | None => Some (Panic NilDeref)
      | Some e => if cas_ok i e f then
                    Some (Ok (put_ent i e PNil, Return (ROpt (match f_p f with PVal v => Some v | _ => None end))))
                  else Some (Ok (i, Continue (set_pc f Delete_load)))
      end
  (* ---------------- Range ---------------- *)
  | Range_read1 =>
      let f' := set_iter (set_rd f (read_m s) (amended s) None) [] 0 in
      if amended s then Some (Ok (i, Continue (set_pc f' Range_lock)))
      else Some (Ok (i, range_next f' false))
  | Range_lock => lock Range_read2
  | Range_read2 =>
      let f' := set_rd f (read_m s) (amended s) None in
      if amended s then Some (Ok (i, Continue (set_pc f' Range_promote)))
      else Some (Ok (i, Continue (set_pc f' Range_unlock)))
  | Range_promote =>
      let m := default ∅ (dirty s) in
      let s' := MState (ents s) (next_e s) m false None 0 in
      Some (Ok (with_st i s', Continue (set_pc (set_rd f m false None) Range_unlock)))
  | Range_unlock => unlock (range_next f false)
  | Range_iter =>
      match f_rd_m f !! choice with
      | Some e => if existsb (Z.eqb choice) (f_visited f) then None
                  else Some (Ok (i, Continue (set_pc (set_e (set_iter f (choice :: f_visited f) choice) (Some e)) E_load)))
      | None => None
      end
  (* keyed-mutex hooks are handled by step_post *)
  | KM_Lock | KM_TryLock | KM_Unlock | KRW_Lock | KRW_TryLock | KRW_Unlock | KRW_RLock | KRW_TryRLock | KRW_RUnlock => None
  end.

(* the keyed mutexes' step on the user mutex [m] = the value LoadOrStore returned *)
Definition step_post (um : gmap Z umutex) (f : frame) : option (result (gmap Z umutex * outcome)) :=
  let m := (f_los f).1 in
  let st := default UFree (um !! m) in
  match f_pc f with
  | KM_Lock | KRW_Lock =>
      match st with UFree | UReaders O => Some (Ok (<[m := ULocked]> um, Return RUnit)) | _ => None end
  | KM_TryLock | KRW_TryLock =>
      match st with
      | UFree | UReaders O => Some (Ok (<[m := ULocked]> um, Return (RBool true)))
      | _ => Some (Ok (um, Return (RBool false)))
      end
  | KM_Unlock | KRW_Unlock =>
      match st with ULocked => Some (Ok (<[m := UFree]> um, Return RUnit)) | _ => Some (Panic OtherPanic) end
  | KRW_RLock =>
      match st with
      | UFree => Some (Ok (<[m := UReaders 1]> um, Return RUnit))
      | UReaders n => Some (Ok (<[m := UReaders (S n)]> um, Return RUnit))
      | ULocked => None
      end
  | KRW_TryRLock =>
      match st with
      | UFree => Some (Ok (<[m := UReaders 1]> um, Return (RBool true)))
      | UReaders n => Some (Ok (<[m := UReaders (S n)]> um, Return (RBool true)))
      | ULocked => Some (Ok (um, Return (RBool false)))
      end
  | KRW_RUnlock =>
      match st with
      | UReaders (S n) => Some (Ok (<[m := match n with O => UFree | _ => UReaders n end]> um, Return RUnit))
      | _ => Some (Panic OtherPanic)
      end
  | _ => None
  end.

Definition is_post_label (l : label) : bool :=
  match l with
  | KM_Lock | KM_TryLock | KM_Unlock | KRW_Lock | KRW_TryLock | KRW_Unlock | KRW_RLock | KRW_TryRLock | KRW_RUnlock => true
  | _ => false
  end.

(* ---- threads ---- *)
Definition set_nth_list {X} (n : nat) (x : X) (l : list X) : list X := firstn n l ++ x :: skipn (S n) l.

(* the Range callback, as far as it is private to the thread *)
Definition cb_of (c : call) : cb := match c with CRange _ f => f | _ => CbStop None end.

(* start the next top-level call of a thread whose stack is empty *)
Definition next_call (th : thread) : thread :=
  match t_prog th with
  | c :: prog => Thread prog [new_frame c] (t_results th) true
  | [] => th
  end.

(* a frame of thread th returned r: pop it, resume the Range parent or finish the top-level call *)
Definition do_return (th : thread) (r : res) (rest : list frame) : thread * list res :=
  match rest with
  | [] => (next_call (Thread (t_prog th) [] (t_results th ++ [r]) false), [r])
  | parent :: rest' =>
      (* parent is a Range frame whose callback just finished: CbAdd counts !loaded, CbRemove counts loaded *)
      let inc := match cb_of (f_call parent), r with
                 | CbAdd _, RLos _ loaded => if loaded then 0 else 1
                 | CbRemove _, ROpt (Some _) => 1
                 | _, _ => 0
                 end in
      let parent' := set_out parent (f_out parent) (f_acc parent + inc) in
      match range_next parent' false with
      | Continue p => (Thread (t_prog th) (p :: rest') (t_results th) false, [])
      | Return r' => (next_call (Thread (t_prog th) [] (t_results th ++ [r']) false), [r'])
      | Callback _ _ _ => (th, [])  (* impossible *)
      end
  end.

Definition thread_label (th : thread) : option label :=
  match t_stack th with f :: _ => Some (f_pc f) | [] => None end.

(* One step of thread t. None = not enabled / thread finished. *)
Definition step (c : config) (t : nat) (choice : Z) : option config :=
  if c_panicked c then None else
  match nth_error (c_threads c) t with
  | None => None
  | Some th =>
      match t_stack th with
      | [] => None
      | f :: rest =>
          let inv := if t_fresh th then [EvInv t (f_call f)] else [] in
          let finish (insts : list inst) (um : gmap Z umutex) (o : result outcome) : option config :=
            match o with
            | Panic k =>
                Some (Config insts um (set_nth_list t (Thread [] [] (t_results th ++ [RPanic k]) false) (c_threads c))
                             (c_hist c ++ inv ++ [EvRes t (RPanic k)]) true)
            | Ok (Continue f') =>
                Some (Config insts um (set_nth_list t (Thread (t_prog th) (f' :: rest) (t_results th) false) (c_threads c))
                             (c_hist c ++ inv) false)
            | Ok (Return r) =>
                let r := match f_call f with CDelete _ _ => RUnit | _ => r end in
                let '(th', rs) := do_return (Thread (t_prog th) (t_stack th) (t_results th) false) r rest in
                Some (Config insts um (set_nth_list t th' (c_threads c))
                             (c_hist c ++ inv ++ map (EvRes t) rs) false)
            | Ok (Callback f' k v) =>
                let f'' := set_out f' (f_out f' ++ [(k, v)]) (match cb_of (f_call f') with CbStop _ => f_acc f' + 1 | _ => f_acc f' end) in
                match cb_of (f_call f') with
                | CbStop n =>
                    let stop := match n with Some n => Z.of_nat n <=? f_acc f'' | None => false end in
                    match range_next f'' stop with
                    | Continue p =>
                        Some (Config insts um (set_nth_list t (Thread (t_prog th) (p :: rest) (t_results th) false) (c_threads c))
                                     (c_hist c ++ inv) false)
                    | Return r =>
                        let '(th', rs) := do_return (Thread (t_prog th) (t_stack th) (t_results th) false) r rest in
                        Some (Config insts um (set_nth_list t th' (c_threads c)) (c_hist c ++ inv ++ map (EvRes t) rs) false)
                    | Callback _ _ _ => None
                    end
                | CbAdd j =>
                    Some (Config insts um
                            (set_nth_list t (Thread (t_prog th) (new_frame (CLoadOrStore j k 0 PNone) :: f'' :: rest) (t_results th) false) (c_threads c))
                            (c_hist c ++ inv) false)
                | CbRemove j =>
                    Some (Config insts um
                            (set_nth_list t (Thread (t_prog th) (new_frame (CLoadAndDelete j k) :: f'' :: rest) (t_results th) false) (c_threads c))
                            (c_hist c ++ inv) false)
                end
            end in
          if is_post_label (f_pc f) then
            match step_post (c_um c) f with
            | None => None
            | Some (Panic k) => finish (c_insts c) (c_um c) (Panic k)
            | Some (Ok (um', o)) => finish (c_insts c) um' (Ok o)
            end
          else
            let j := call_inst (f_call f) in
            match nth_error (c_insts c) j with
            | None => None
            | Some i =>
                match step_frame t i f choice with
                | None => None
                | Some (Panic k) => finish (c_insts c) (c_um c) (Panic k)
                | Some (Ok (i', o)) => finish (set_nth_list j i' (c_insts c)) (c_um c) (Ok o)
                end
            end
      end
  end.

Definition init_config (ninst : nat) (progs : list (list call)) : config :=
  Config (repeat empty_inst ninst) ∅ (map (fun p => next_call (Thread p [] [] false)) progs) [] false.
(* the same with the kind of every instance given: zs_j = true iff instance j is a Set (zero-size values) *)
Definition init_config_z (zs : list bool) (progs : list (list call)) : config :=
  Config (map empty_inst_z zs) ∅ (map (fun p => next_call (Thread p [] [] false)) progs) [] false.

(* a schedule is a list of (thread, choice); entries that are not enabled are skipped *)
Fixpoint run_schedule (c : config) (sched : list (nat * Z)) : config :=
  match sched with
  | [] => c
  | (t, ch) :: sched' => run_schedule (default c (step c t ch)) sched'
  end.

Definition finished (c : config) : bool := forallb (fun th => match t_stack th with [] => true | _ => false end) (c_threads c).
