From Typ Require Import SyncMap.Model SyncMap.Inv SyncMap.KeyedMutex SyncMap.InsertOnly.

(* ---- the state transformers of the lock holder ---- *)
Lemma ext_misses s m : ext s (st_with_misses s m).
Proof. repeat split; auto. Qed.
Lemma all_val_misses s m : all_val s -> all_val (st_with_misses s m).
Proof. intros H. exact H. Qed.

Lemma ext_promote s : WF_core s -> WF_ad s -> all_val s -> dirty s <> None ->
  ext s (MState (ents s) (next_e s) (default ∅ (dirty s)) false None 0).
Proof.
  intros Hc [Hcov _] Ha Hd. destruct (dirty s) as [d|] eqn:E; [|congruence]. repeat split; auto. cbn.
  intros k e [H|H]; left; cbn.
  - rewrite (Hcov d k e eq_refl H). rewrite all_val_not_exp; [reflexivity|exact Ha|]. eapply wf_bound; eauto. left. exact H.
  - unfold dirty_lookup in H. rewrite E in H. exact H.
Qed.

Lemma ext_insert_new s d key v am :
  all_val s -> dirty s = Some d -> d !! key = None ->
  let s' := MState (<[next_e s := PVal v]> (ents s)) (S (next_e s)) (read_m s) am (Some (<[key := next_e s]> d)) (misses s) in
  all_val s' /\ ext s s' /\ kval s' key v.
Proof.
  intros [A1 A2] Hd Hk s'. split; [|split].
  - split; cbn.
    + intros e p H. destruct (decide (e = next_e s)) as [->|N].
      * rewrite lookup_insert in H. injection H as <-. split; [lia|eauto].
      * rewrite lookup_insert_ne in H by congruence. destruct (A1 e p H). split; [lia|assumption].
    + intros e He. destruct (decide (e = next_e s)) as [->|N].
      * rewrite lookup_insert. eauto.
      * rewrite lookup_insert_ne by congruence. apply A2. lia.
  - split; [cbn; lia|]. split; cbn.
    + intros e p H. destruct (A1 e p H) as [He _]. rewrite lookup_insert_ne by lia. exact H.
    + intros k e [H|H]; [left; exact H|right]. unfold dirty_lookup in *. cbn. rewrite Hd in H.
      rewrite lookup_insert_ne by congruence. exact H.
  - exists (next_e s). split; [right|]; cbn; apply lookup_insert.
Qed.

Lemma ext_dirty_read s : dirty s = None -> ext s (st_with_dirty s (Some ∅)).
Proof.
  intros Hd. repeat split; auto. intros k e [H|H]; [left; exact H|]. unfold dirty_lookup in H. rewrite Hd in H. discriminate.
Qed.

Lemma ext_loop_copy s rdm key vis ck e s' :
  loop_inv s rdm key vis -> ck ∉ vis -> dirty_insert s ck e = Ok s' -> ext s s' /\ ents s' = ents s /\ next_e s' = next_e s.
Proof.
  intros (_ & _ & _ & d & Hd & _ & L6) Hnv H. unfold dirty_insert in H. rewrite Hd in H. injection H as <-.
  split; [|split; reflexivity]. repeat split; auto. cbn.
  intros k e0 [H|H]; [left; exact H|right]. unfold dirty_lookup in *. cbn. rewrite Hd in H.
  rewrite lookup_insert_ne; [exact H|]. intros <-. apply L6 in H as [H _]. contradiction.
Qed.

Lemma all_val_same s s' : ents s' = ents s -> next_e s' = next_e s -> all_val s -> all_val s'.
Proof. unfold all_val. intros -> ->. auto. Qed.

Definition io_out (s' : mstate) (k : Z) (o : outcome) : Prop :=
  match o with
  | Continue f' => FI s' f' /\ (in_cs f' = true -> LH s' f')
  | Return r => res_val s' k r
  | Callback _ _ _ => True
  end.

Lemma reach_val s k e : all_val s -> WF_core s -> reach_any s k e -> exists v, get_ent s e = PVal v /\ ents s !! e = Some (PVal v).
Proof. intros Ha Hc H. apply all_val_get; [exact Ha|]. eapply wf_bound; eauto. Qed.

Ltac same_state := split; [assumption|split; [apply ext_refl|split; [reflexivity|]]].
Ltac in_cs_is b Hl := 
  match goal with |- context [in_cs ?f] => 
    let Hin := fresh "Hin" in assert (Hin : in_cs f = b) by (unfold in_cs, cs_class; rewrite Hl; reflexivity) end.

Ltac fi_simpl Hcall := unfold io_out, res_val, FI, LH, los_known, in_cs, cs_class; cbn; rewrite ?Hcall; cbn.
Ltac fi_easy := repeat split; try discriminate; try (intros; exact I); try (intros; discriminate).

Ltac cs_info Hcs Hl :=
  let Hw := fresh "Hw" in let Hlh := fresh "Hlh" in let Hin := fresh "Hin" in
  match type of Hcs with ?X = true -> _ => assert (Hin : X = true) by (unfold in_cs, cs_class; rewrite Hl; reflexivity) end;
  destruct (Hcs Hin) as [[_ Hw] Hlh]; unfold cs_class in Hw; rewrite Hl in Hw; unfold LH in Hlh; rewrite Hl in Hlh;
  repeat match type of Hw with context [f_call ?f] => match goal with Hc : f_call f = _ |- _ => rewrite Hc in Hw end end; cbn [key_of] in Hw.

Lemma io_sf t i f ch i' o :
  io_call (f_call f) -> pc_ok (f_call f) (f_pc f) = true -> frame_ok f ->
  all_val (i_st i) -> WF_core (i_st i) -> (in_cs f = true -> WFL (i_st i) f /\ LH (i_st i) f) -> FI (i_st i) f ->
  step_frame t i f ch = Some (Ok (i', o)) ->
  all_val (i_st i') /\ ext (i_st i) (i_st i') /\ (in_cs f = false -> i_st i' = i_st i) /\
  io_out (i_st i') (key_of (f_call f)) o.
Proof.
  intros Hio Hpc [He Hst Hdel Hpost] Ha Hc Hcs [F1 F2] H. unfold step_frame in H.
  assert (Hv : forall k e, reach_any (i_st i) k e -> exists v, ent i e = PVal v /\ ents (i_st i) !! e = Some (PVal v))
    by (intros; eapply reach_val; eauto).
  destruct (f_call f) as [j k|?|j k v p| | |] eqn:Hcall; try contradiction; cbn in Hio; subst j;
  destruct (f_pc f) eqn:Hl; try discriminate Hpc; try discriminate H; try (destruct p; discriminate Hpc);
    cbn in He, F1; unfold los_known in F2; rewrite Hl, ?Hcall in F2; cbn in F2; cbn [key_of] in *.
  - (* Load_read1 *)
    repeat case_match; simplify_eq; same_state; fi_simpl Hcall; fi_easy.
    intros _ e0 [= <-]. left. assumption.
  - (* Load_lock *)
    repeat case_match; simplify_eq; same_state; fi_simpl Hcall; fi_easy.
  - (* Load_read2 *)
    cs_info Hcs Hl. unfold after_miss in H.
    repeat case_match; simplify_eq; cbn [i_st with_st]; (split; [assumption|split; [first [apply ext_refl|apply ext_misses]|split; [intros; try congruence; try reflexivity|]]]);
      fi_simpl Hcall; fi_easy.
    all: try (intros _ e0 E0; first [left; congruence|right; exact E0]).
    all: try (intros _; eapply wf_amended; eauto; fail).
  - (* Load_unlock *)
    repeat case_match; simplify_eq; same_state; fi_simpl Hcall; fi_easy. intros _ e0 E0. apply F1; congruence.
  - (* E_load *)
    destruct (f_e f) as [e|] eqn:Hfe; [|exfalso; apply He; reflexivity].
    destruct (Hv k e (F1 eq_refl e eq_refl)) as (v & Hv1 & Hv2). rewrite Hv1 in H. simplify_eq. same_state.
    fi_simpl Hcall. exists e. auto.
  - (* Miss_store *)
    cs_info Hcs Hl. simplify_eq. cbn [i_st with_st].
    assert (Hx := ext_promote _ Hc Hw Ha Hlh).
    split; [exact Ha|split; [exact Hx|split; [intros; congruence|]]]. fi_simpl Hcall. fi_easy.
    intros _ e0 E0. apply Hx. auto.
  - (* Unexpunge_cas *)
    cs_info Hcs Hl. destruct Hw as [Hw Hk].
    destruct (f_e f) as [e|] eqn:Hfe; [|exfalso; apply He; reflexivity].
    destruct (Hv k e (F1 eq_refl e eq_refl)) as (v0 & Hv1 & Hv2). rewrite Hv1 in H. simplify_eq. same_state.
    fi_simpl Hcall. fi_easy. intros _ e0 E0. apply F1; congruence.
  - (* LOS_read1 *)
    repeat case_match; simplify_eq; same_state; fi_simpl Hcall; fi_easy.
    intros _ e0 [= <-]. left. assumption.
  - (* LOS_lock *)
    repeat case_match; simplify_eq; same_state; fi_simpl Hcall; fi_easy.
  - (* LOS_read2 *)
    cs_info Hcs Hl. unfold new_entry, dirty_insert, bind in H. cbn in H.
    destruct (read_m (i_st i) !! k) as [n|] eqn:Hrk; [|destruct (dirty_lookup (i_st i) k) as [e'|] eqn:Hdk;
      [|destruct (amended (i_st i)) eqn:Ham; [|destruct (dirty (i_st i)) as [d|] eqn:Hd]]].
    + injection H as <- <-. same_state. fi_simpl Hcall. fi_easy. intros _ e0 [= <-]. left. assumption.
    + injection H as <- <-. same_state. fi_simpl Hcall. fi_easy.
      * intros _ e0 [= <-]. right. assumption.
      * intros _ _. unfold dirty_lookup in *. destruct (dirty (i_st i)); congruence.
    + unfold dirty_lookup in *. destruct (dirty (i_st i)) as [d|] eqn:Hd; [|discriminate H]. injection H as <- <-.
      destruct (ext_insert_new (i_st i) d k v (amended (i_st i)) Ha Hd Hdk) as (A1 & A2 & A3). rewrite Ham in *.
      split; [exact A1|split; [exact A2|split; [intros; congruence|]]]. fi_simpl Hcall. fi_easy. intros _. exact A3.
    + injection H as <- <-. same_state. fi_simpl Hcall. fi_easy.
    + injection H as <- <-. same_state. fi_simpl Hcall. fi_easy.
  - (* LOS_amend *)
    cs_info Hcs Hl. destruct Hw as [(L1 & L2 & L3 & d & L4 & L5 & L6) Hall].
    unfold new_entry, dirty_insert, bind, st_with_read in H. cbn in H. rewrite L4 in H. injection H as <- <-. cbn [i_st with_st].
    assert (Hdk : d !! k = None). { destruct (d !! k) as [e0|] eqn:E; [|reflexivity]. apply L6 in E as [_ E]. congruence. }
    rewrite L1.
    destruct (ext_insert_new (i_st i) d k v true Ha L4 Hdk) as (A1 & A2 & A3).
    split; [exact A1|split; [exact A2|split; [intros; congruence|]]]. fi_simpl Hcall. fi_easy. intros _. exact A3.
  - (* LOS_unlock *)
    unfold los_return in H. rewrite Hcall in H. destruct (post_label p) eqn:Hp; injection H as <- <-; same_state.
    + destruct p; cbn in Hp; simplify_eq; fi_simpl Hcall; fi_easy; exact F2.
    + apply F2. reflexivity.
  - (* Tlos_load1 *)
    destruct (f_e f) as [e|] eqn:Hfe; [|exfalso; apply He; reflexivity].
    destruct (Hv k e (F1 eq_refl e eq_refl)) as (v0 & Hv1 & Hv2). rewrite Hv1 in H.
    assert (Hkv : kval (i_st i) k v0) by (exists e; split; [apply F1; auto|exact Hv2]).
    unfold tlos_done in H. destruct (f_mode f) eqn:Hm.
    + unfold los_return in H. destruct (post_label p) eqn:Hp; injection H as <- <-; same_state.
      * destruct p; cbn in Hp; simplify_eq. all: unfold io_out, res_val, FI, LH, los_known, in_cs, cs_class; cbn. all: rewrite Hcall. Show. fi_easy; intros _; exact Hkv.
      * exact Hkv.
    + injection H as <- <-. same_state. fi_simpl Hcall. fi_easy. intros _; exact Hkv.
    + assert (Hin : in_cs f = true) by (unfold in_cs, cs_class; rewrite Hl, Hm; reflexivity).
      destruct (Hcs Hin) as [_ Hlh]. unfold LH in Hlh. rewrite Hl in Hlh. specialize (Hlh Hm).
      unfold after_miss in H. case_match; injection H as <- <-; cbn [i_st with_st];
        (split; [exact Ha|split; [apply ext_misses|split; [intros; congruence|]]]); fi_simpl Hcall; fi_easy;
        try (intros _; exact Hkv); try (intros _; exact Hlh).
      intros _ e0 E0. apply F1; congruence.
  - (* Tlos_cas *)
    destruct (f_e f) as [e|] eqn:Hfe; [|exfalso; apply He; reflexivity].
    destruct (Hv k e (F1 eq_refl e eq_refl)) as (v0 & Hv1 & Hv2). rewrite Hv1 in H. injection H as <- <-. same_state.
    fi_simpl Hcall. fi_easy.
    + intros _ e0 E0. apply F1; congruence.
    + intros Hmode Hm. assert (Hin : in_cs f = true) by (unfold in_cs, cs_class; rewrite Hl, Hm; reflexivity).
      destruct (Hcs Hin) as [_ Hlh]. unfold LH in Hlh. rewrite Hl in Hlh. auto.
  - (* Tlos_load2 *)
    destruct (f_e f) as [e|] eqn:Hfe; [|exfalso; apply He; reflexivity].
    destruct (Hv k e (F1 eq_refl e eq_refl)) as (v0 & Hv1 & Hv2). rewrite Hv1 in H.
    assert (Hkv : kval (i_st i) k v0) by (exists e; split; [apply F1; auto|exact Hv2]).
    unfold tlos_done in H. destruct (f_mode f) eqn:Hm.
    + unfold los_return in H. destruct (post_label p) eqn:Hp; injection H as <- <-; same_state.
      * destruct p; cbn in Hp; simplify_eq. all: unfold io_out, res_val, FI, LH, los_known, in_cs, cs_class; cbn. all: rewrite Hcall. Show. fi_easy; intros _; exact Hkv.
      * exact Hkv.
    + injection H as <- <-. same_state. fi_simpl Hcall. fi_easy. intros _; exact Hkv.
    + assert (Hin : in_cs f = true) by (unfold in_cs, cs_class; rewrite Hl, Hm; reflexivity).
      destruct (Hcs Hin) as [_ Hlh]. unfold LH in Hlh. rewrite Hl in Hlh. specialize (Hlh Hm).
      unfold after_miss in H. case_match; injection H as <- <-; cbn [i_st with_st];
        (split; [exact Ha|split; [apply ext_misses|split; [intros; congruence|]]]); fi_simpl Hcall; fi_easy;
        try (intros _; exact Hkv); try (intros _; exact Hlh).
      intros _ e0 E0. apply F1; congruence.
  - (* Miss_store *)
    cs_info Hcs Hl. simplify_eq. cbn [i_st with_st].
    assert (Hx := ext_promote _ Hc Hw Ha Hlh).
    split; [exact Ha|split; [exact Hx|split; [intros; congruence|]]]. fi_simpl Hcall. fi_easy.
    intros _. eapply kval_ext; eauto.
  - (* Dirty_read *)
    cs_info Hcs Hl. destruct Hw as (Hw & Hd & Hk). injection H as <- <-. cbn [i_st with_st].
    split; [exact Ha|split; [apply ext_dirty_read, Hd|split; [intros; congruence|]]].
    unfold dirty_next. case_match; fi_simpl Hcall; fi_easy.
  - (* Dirty_iter *)
    repeat case_match; simplify_eq; same_state; fi_simpl Hcall; fi_easy.
  - admit.
  - admit.
  - admit.
Abort.
