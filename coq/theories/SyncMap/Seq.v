(* Sequential (single goroutine, big-step) model of sync2.Map
   (/repo/sync2/map.go): every method run to completion with nobody else
   touching the map, so every CAS succeeds at its first attempt and locking
   is invisible. Entries are heap cells (eid -> ptr); the read map, the dirty
   map and the entry states nil / expunged / value are explicit, because the
   promotion / re-creation / expunge state machine is what the property
   quantifies over ("all construction histories").
   Keys and values are Z. Definitions only. *)
From stdpp Require Export gmap list.
From Typ Require Export Lib.Base.
Local Open Scope Z_scope.

Inductive ptr := PNil | PExpunged | PVal (v : Z).
Global Instance ptr_eq_dec : EqDecision ptr.
Proof. solve_decision. Defined.

Record mstate := MState {
  ents : gmap nat ptr;          (* entry id -> *entry.p *)
  next_e : nat;                 (* allocation counter *)
  read_m : gmap Z nat;          (* read.m  (nil map = empty) *)
  amended : bool;               (* read.amended *)
  dirty : option (gmap Z nat);  (* m.dirty, None = nil *)
  misses : Z
}.

Definition empty_mstate : mstate := MState ∅ 0 ∅ false None 0.

Definition set_ent (s : mstate) (e : nat) (p : ptr) : mstate :=
  MState (<[e := p]> (ents s)) (next_e s) (read_m s) (amended s) (dirty s) (misses s).
Definition get_ent (s : mstate) (e : nat) : ptr := default PNil (ents s !! e).

(* m.dirty[key] (reading a nil map gives "absent") *)
Definition dirty_lookup (s : mstate) (k : Z) : option nat :=
  match dirty s with Some d => d !! k | None => None end.
(* len(m.dirty) *)
Definition dirty_len (s : mstate) : Z :=
  match dirty s with Some d => Z.of_nat (size d) | None => 0 end.
(* m.dirty[key] = e : assignment to a nil map panics *)
Definition dirty_insert (s : mstate) (k : Z) (e : nat) : result mstate :=
  match dirty s with
  | Some d => Ok (MState (ents s) (next_e s) (read_m s) (amended s) (Some (<[k := e]> d)) (misses s))
  | None => Panic NilDeref
  end.
(* delete(m.dirty, key) : no-op on a nil map *)
Definition dirty_delete (s : mstate) (k : Z) : mstate :=
  match dirty s with
  | Some d => MState (ents s) (next_e s) (read_m s) (amended s) (Some (delete k d)) (misses s)
  | None => s
  end.

(* newEntry(value) *)
Definition new_entry (s : mstate) (v : Z) : mstate * nat :=
  (MState (<[next_e s := PVal v]> (ents s)) (S (next_e s)) (read_m s) (amended s) (dirty s) (misses s), next_e s).

(* m.missLocked() *)
Definition missLocked (s : mstate) : mstate :=
  let m' := misses s + 1 in
  if m' <? dirty_len s then MState (ents s) (next_e s) (read_m s) (amended s) (dirty s) m'
  else MState (ents s) (next_e s) (default ∅ (dirty s)) false None 0.

(* e.load() *)
Definition e_load (s : mstate) (e : nat) : option Z :=
  match get_ent s e with PVal v => Some v | _ => None end.

(* Load *)
Definition Load (s : mstate) (key : Z) : mstate * option Z :=
  match read_m s !! key with
  | Some e => (s, e_load s e)
  | None =>
      if amended s then
        let e := dirty_lookup s key in
        let s' := missLocked s in
        match e with Some e => (s', e_load s' e) | None => (s', None) end
      else (s, None)
  end.

(* m.dirtyLocked(): one iteration of "for k, e := range read.m" *)
Definition dirtyLocked_body (acc : gmap nat ptr * gmap Z nat) (ke : Z * nat) : gmap nat ptr * gmap Z nat :=
  let '(es, d) := acc in
  match default PNil (es !! ke.2) with
  | PNil => (<[ke.2 := PExpunged]> es, d)          (* tryExpungeLocked: nil -> expunged, stays out of dirty *)
  | PExpunged => (es, d)
  | PVal _ => (es, <[ke.1 := ke.2]> d)
  end.
Definition dirtyLocked (s : mstate) : mstate :=
  match dirty s with
  | Some _ => s
  | None =>
      let '(es, d) := fold_left dirtyLocked_body (map_to_list (read_m s)) (ents s, ∅) in
      MState es (next_e s) (read_m s) (amended s) (Some d) (misses s)
  end.

(* "if !read.amended { m.dirtyLocked(); m.read.Store(readOnly{m: read.m, amended: true}) }; m.dirty[key] = newEntry(value)" *)
Definition insert_new (s : mstate) (key value : Z) : result mstate :=
  let s1 := if amended s then s
            else let s' := dirtyLocked s in
                 MState (ents s') (next_e s') (read_m s') true (dirty s') (misses s') in
  let '(s2, e) := new_entry s1 value in
  dirty_insert s2 key e.

(* "if e.unexpungeLocked() { m.dirty[key] = e }" *)
Definition unexpunge (s : mstate) (key : Z) (e : nat) : result mstate :=
  match get_ent s e with
  | PExpunged => dirty_insert (set_ent s e PNil) key e
  | _ => Ok s
  end.

(* Store *)
Definition Store (s : mstate) (key value : Z) : result mstate :=
  let locked :=
    match read_m s !! key with
    | Some e => do s1 <- unexpunge s key e; Ok (set_ent s1 e (PVal value))
    | None =>
        match dirty_lookup s key with
        | Some e => Ok (set_ent s e (PVal value))
        | None => insert_new s key value
        end
    end in
  match read_m s !! key with
  | Some e => match get_ent s e with
              | PExpunged => locked                       (* tryStore fails *)
              | _ => Ok (set_ent s e (PVal value))        (* tryStore succeeds *)
              end
  | None => locked
  end.

(* e.tryLoadOrStore(value): (state, actual, loaded, ok) *)
Definition tryLoadOrStore (s : mstate) (e : nat) (value : Z) : mstate * Z * bool * bool :=
  match get_ent s e with
  | PExpunged => (s, 0, false, false)
  | PVal v => (s, v, true, true)
  | PNil => (set_ent s e (PVal value), value, false, true)
  end.

(* LoadOrStore: (state, actual, loaded) *)
Definition LoadOrStore (s : mstate) (key value : Z) : result (mstate * Z * bool) :=
  let locked :=
    match read_m s !! key with
    | Some e =>
        do s1 <- unexpunge s key e;
        let '(s2, actual, loaded, _) := tryLoadOrStore s1 e value in Ok (s2, actual, loaded)
    | None =>
        match dirty_lookup s key with
        | Some e =>
            let '(s1, actual, loaded, _) := tryLoadOrStore s e value in
            Ok (missLocked s1, actual, loaded)
        | None => do s1 <- insert_new s key value; Ok (s1, value, false)
        end
    end in
  match read_m s !! key with
  | Some e =>
      let '(s1, actual, loaded, ok) := tryLoadOrStore s e value in
      if ok then Ok (s1, actual, loaded) else locked
  | None => locked
  end.

(* e.delete() *)
Definition e_delete (s : mstate) (e : nat) : mstate * option Z :=
  match get_ent s e with
  | PVal v => (set_ent s e PNil, Some v)
  | _ => (s, None)
  end.

(* LoadAndDelete *)
Definition LoadAndDelete (s : mstate) (key : Z) : mstate * option Z :=
  match read_m s !! key with
  | Some e => e_delete s e
  | None =>
      if amended s then
        let e := dirty_lookup s key in
        let s' := missLocked (dirty_delete s key) in
        match e with Some e => e_delete s' e | None => (s', None) end
      else (s, None)
  end.

Definition Delete (s : mstate) (key : Z) : mstate := (LoadAndDelete s key).1.

(* Range, first part: promote the dirty map when read.amended *)
Definition range_promotion (s : mstate) : mstate :=
  if amended s then MState (ents s) (next_e s) (default ∅ (dirty s)) false None 0 else s.

(* Range, second part: the pairs the loop can pass to f. Go visits the keys of
   read.m in an unspecified order; [order] is that order. A key whose entry
   holds no value is skipped; f returning false stops the loop: [stop_after]
   = Some n means f returns false at its n-th call (n >= 1). *)
Fixpoint Range_loop (s : mstate) (order : list Z) (stop_after : option nat) : list (Z * Z) :=
  match order with
  | [] => []
  | k :: order' =>
      match read_m s !! k with
      | Some e =>
          match e_load s e with
          | Some v =>
              match stop_after with
              | Some 1%nat => [(k, v)]
              | Some (S n) => (k, v) :: Range_loop s order' (Some n)
              | Some O => []            (* not used: f is called at least once before it can say stop *)
              | None => (k, v) :: Range_loop s order' None
              end
          | None => Range_loop s order' stop_after
          end
      | None => Range_loop s order' stop_after
      end
  end.

Definition Range (s : mstate) (order : list Z) (stop_after : option nat) : mstate * list (Z * Z) :=
  let s' := range_promotion s in (s', Range_loop s' order stop_after).

(* ---- abstraction: the map[K]V the Map stands for ---- *)
Definition reach (s : mstate) (k : Z) : option nat :=
  match read_m s !! k with
  | Some e => Some e
  | None => if amended s then dirty_lookup s k else None
  end.
Definition abs_lookup (s : mstate) (k : Z) : option Z :=
  match reach s k with Some e => e_load s e | None => None end.

(* all keys that may be reachable, for computing the contents *)
Definition all_keys (s : mstate) : list Z :=
  map fst (map_to_list (read_m s)) ++ match dirty s with Some d => map fst (map_to_list d) | None => [] end.
Definition abs_map (s : mstate) : gmap Z Z :=
  list_to_map (omap (fun k => match abs_lookup s k with Some v => Some (k, v) | None => None end) (all_keys s)).
