(* C04 - linearizability of the point operations in the presence of Range.
   Programs: Load / Store / LoadOrStore / LoadAndDelete / Delete and Range with
   a counting / stopping callback on one Map ([rfrag]). The history of the
   point operations - the events of the Range calls removed ([pt_hist]) - is
   linearizable to an ordinary map, whatever the Range calls do meanwhile (their
   promotion of the dirty map rewrites read / dirty but keeps the contents).
   Same method as Linearizable.v: a family of possibilities indexed by markings;
   a thread inside a Range has no pending point operation ([infoR] = None) and
   its steps keep the abstract map, so the family is carried over unchanged.
   [fam_NR] / [fam_LR] are fam_N / fam_L of Linearizable.v, re-proved for
   [infoR] / [pt_hist] (same proofs). *)
From Typ Require Import SyncMap.Model SyncMap.Inv SyncMap.SetAtomic Lib.Lin Lib.LinHW SyncMap.Linearizable SyncMap.RangeConc.

(* the history without the events of Range calls *)
Definition pt_hev (e : hev) : bool :=
  match e with HInv _ (CRange _ _) => false | HRes _ (RRange _ _) => false | _ => true end.
Definition pt_hist (c : config) : list hev := List.filter pt_hev (map_hist c).

(* per thread: the point operation in flight and its result if already decided *)
Definition infoR (c : config) (t : nat) : option (call * option res) :=
  match nth_error (c_threads c) t with
  | Some th => match frame_of th with
               | Some f => if is_range (f_call f) then None else Some (f_call f, dec (st0 c) f)
               | None => None
               end
  | None => None
  end.
Definition PofR (c : config) (m : marking) (t : nat) : option (call * option res) :=
  match infoR c t with
  | Some (c0, Some r) => Some (c0, Some r)
  | Some (c0, None) => Some (c0, res_of c0 <$> m t)
  | None => None
  end.
Definition okmR (c : config) (seen : nat -> option Z -> Prop) (m : marking) : Prop :=
  forall t x, m t = Some x -> seen t x /\ forall c0 d, infoR c t = Some (c0, d) -> ro c0 x.

Definition famR (c : config) (seen : nat -> option Z -> Prop) (a : gmap Z Z) : Prop :=
  forall m, okmR c seen m ->
  exists P : lpend, poss map_spec ∅ (rev (pt_hist c)) a P /\ forall t, P t = PofR c m t.

(* a step without linearization point of the stepping thread t *)
Lemma fam_NR c c' (seen seen' : nat -> option Z -> Prop) a t c0 (fresh : bool) (d : option res) (ret : option res) :
  (forall t2, t2 <> t -> infoR c' t2 = infoR c t2) ->
  infoR c t = (if fresh then None else Some (c0, d)) ->
  infoR c' t = (match ret with None => Some (c0, d) | Some _ => None end) ->
  (fresh = true -> d = None) ->
  rev (pt_hist c') = (match ret with Some r => [HRes t r] | None => [] end) ++ (if fresh then [HInv t c0] else []) ++ rev (pt_hist c) ->
  (forall t2 x, t2 <> t -> seen' t2 x -> seen t2 x) ->
  (forall x, seen' t x -> if fresh then x = a !! key_of c0 else seen t x) ->
  (match ret with
   | Some r => d = Some r \/ (d = None /\ exists x, ro c0 x /\ r = res_of c0 x /\ seen' t x)
   | None => True end) ->
  famR c seen a -> famR c' seen' a.
Proof.
  intros HK1 HK2 HK3 Hfd Hh Hs2 Hst Hret Hfam m' Hok'.
  (* the marking of the old configuration *)
  assert (exists mt : option (option Z),
            (fresh = true -> mt = None) /\
            (forall x, mt = Some x -> seen t x /\ ro c0 x) /\
            (fresh = false ->
               match ret with
               | None => mt = m' t
               | Some r => d = Some r \/ (d = None /\ exists x, mt = Some x /\ r = res_of c0 x)
               end)) as (mt & Hmt1 & Hmt2 & Hmt3).
  { destruct fresh.
    - exists None. split; [auto|]. split; [discriminate|discriminate].
    - destruct ret as [r|].
      + destruct Hret as [Hd|(Hd & x & Hro & Hr & Hsx)].
        * exists None. split; [auto|]. split; [discriminate|]. intros _. left. exact Hd.
        * exists (Some x). split; [discriminate|]. split.
          -- intros x0 [= <-]. split; [apply (Hst x Hsx)|exact Hro].
          -- intros _. right. split; [exact Hd|]. exists x. auto.
      + exists (m' t). split; [discriminate|]. split; [|auto].
        intros x Hx. destruct (Hok' t x Hx) as [A B]. split; [apply (Hst x A)|]. eapply B. rewrite HK3. reflexivity. }
  set (m0 := fun t2 => if decide (t2 = t) then mt else m' t2).
  assert (Hok0 : okmR c seen m0).
  { intros t2 x. unfold m0. destruct (decide (t2 = t)) as [->|N].
    - intros Hx. destruct (Hmt2 x Hx) as [A B]. split; [exact A|]. intros c1 d1 Hi1. rewrite HK2 in Hi1.
      destruct fresh; [discriminate|]. injection Hi1 as <- <-. exact B.
    - intros Hx. destruct (Hok' t2 x Hx) as [A B]. split; [apply (Hs2 t2 x N A)|]. intros c1 d1 Hi1. eapply B. rewrite HK1 by exact N. exact Hi1. }
  destruct (Hfam m0 Hok0) as (P0 & Hp0 & HP0).
  assert (Hoth : forall t2, t2 <> t -> P0 t2 = PofR c' m' t2).
  { intros t2 N. rewrite HP0. unfold PofR. rewrite HK1 by exact N. unfold m0. rewrite decide_False by exact N. reflexivity. }
  assert (HP0t : P0 t = if fresh then None else Some (c0, match d with Some r => Some r | None => res_of c0 <$> mt end)).
  { rewrite HP0. unfold PofR. rewrite HK2. destruct fresh; [reflexivity|]. unfold m0. rewrite decide_True by reflexivity.
    destruct d; reflexivity. }
  rewrite Hh.
  destruct fresh.
  - (* the call is invoked in this step *)
    specialize (Hfd eq_refl). subst d.
    pose proof (poss_inv map_spec ∅ _ a P0 t c0 Hp0 HP0t) as Hp1.
    destruct ret as [r|].
    + (* ... and returns in it: a read-only result of the current state *)
      destruct Hret as [Hd|(_ & x & Hro & Hr & Hsx)]; [discriminate|].
      pose proof (Hst x Hsx) as Hx. cbn in Hx. subst x. subst r.
      pose proof (poss_mark _ _ _ t c0 Hp1 (upd_same _ _ _) Hro) as Hp2.
      pose proof (poss_res map_spec ∅ _ a _ t c0 _ Hp2 (upd_same _ _ _)) as Hp3.
      eexists. split; [exact Hp3|]. intros t2. destruct (Nat.eq_dec t2 t) as [->|N].
      * rewrite upd_same. unfold PofR. rewrite HK3. reflexivity.
      * rewrite !upd_other by exact N. apply Hoth, N.
    + destruct (m' t) as [x|] eqn:Hm.
      * destruct (Hok' t x Hm) as [A B]. pose proof (Hst x A) as Hx. cbn in Hx. subst x.
        assert (Hro : ro c0 (a !! key_of c0)) by (eapply B; rewrite HK3; reflexivity).
        pose proof (poss_mark _ _ _ t c0 Hp1 (upd_same _ _ _) Hro) as Hp2.
        eexists. split; [exact Hp2|]. intros t2. destruct (Nat.eq_dec t2 t) as [->|N].
        -- rewrite upd_same. unfold PofR. rewrite HK3, Hm. reflexivity.
        -- rewrite !upd_other by exact N. apply Hoth, N.
      * eexists. split; [exact Hp1|]. intros t2. destruct (Nat.eq_dec t2 t) as [->|N].
        -- rewrite upd_same. unfold PofR. rewrite HK3, Hm. reflexivity.
        -- rewrite !upd_other by exact N. apply Hoth, N.
  - specialize (Hmt3 eq_refl). cbn [app].
    destruct ret as [r|].
    + assert (HPt : P0 t = Some (c0, Some r)).
      { rewrite HP0t. destruct Hmt3 as [->|(-> & x & -> & ->)]; reflexivity. }
      pose proof (poss_res map_spec ∅ _ a _ t c0 r Hp0 HPt) as Hp3.
      eexists. split; [exact Hp3|]. intros t2. destruct (Nat.eq_dec t2 t) as [->|N].
      * rewrite upd_same. unfold PofR. rewrite HK3. reflexivity.
      * rewrite !upd_other by exact N. apply Hoth, N.
    + exists P0. split; [exact Hp0|]. intros t2. destruct (Nat.eq_dec t2 t) as [->|N]; [|apply Hoth, N].
      rewrite HP0t. unfold PofR. rewrite HK3, Hmt3. destruct d; reflexivity.
Qed.

(* a step in which the stepping thread t passes its linearization point *)
Lemma fam_LR c c' (seen seen' : nat -> option Z -> Prop) a t c0 (fresh : bool) (ret : option res) :
  let a' := fst (map_spec a c0) in
  let rl := snd (map_spec a c0) in
  let k := key_of c0 in
  (forall t2, t2 <> t -> infoR c' t2 = infoR c t2) ->
  infoR c t = (if fresh then None else Some (c0, None)) ->
  infoR c' t = (match ret with None => Some (c0, Some rl) | Some _ => None end) ->
  (forall r, ret = Some r -> r = rl) ->
  rev (pt_hist c') = (match ret with Some r => [HRes t r] | None => [] end) ++ (if fresh then [HInv t c0] else []) ++ rev (pt_hist c) ->
  (forall t2 x, t2 <> t -> seen' t2 x ->
     seen t2 x \/ exists c2 d2, infoR c t2 = Some (c2, d2) /\ key_of c2 = k /\ x = a' !! k) ->
  famR c seen a -> famR c' seen' a'.
Proof.
  intros a' rl k HK1 HK2 HK3 Hretl Hh Hs2 Hfam m' Hok'.
  set (mk := fun t2 => match infoR c t2 with
                       | Some (c2, None) => bool_decide (key_of c2 = k) && bool_decide (m' t2 = Some (a' !! k))
                       | _ => false end).
  set (m0 := fun t2 => if decide (t2 = t) then None
                       else match infoR c t2 with
                            | Some (_, None) => if mk t2 then None else m' t2
                            | Some (_, Some _) => None
                            | None => m' t2 end).
  assert (Hok0 : okmR c seen m0).
  { intros t2 x. unfold m0. destruct (decide (t2 = t)) as [->|N]; [discriminate|].
    intros Hx.
    assert (Hm' : m' t2 = Some x /\ (forall c2, infoR c t2 = Some (c2, None) -> mk t2 = false) /\ (forall c2 r2, infoR c t2 <> Some (c2, Some r2))).
    { destruct (infoR c t2) as [[c2 [r2|]]|] eqn:Ei; [discriminate| |].
      - destruct (mk t2) eqn:Emk; [discriminate|]. split; [exact Hx|]. split; [auto|discriminate].
      - split; [exact Hx|]. split; discriminate. }
    destruct Hm' as (Hm' & Hmk & Hnd).
    destruct (Hok' t2 x Hm') as [A B]. split.
    - destruct (Hs2 t2 x N A) as [Hs|(c2 & d2 & Hi2 & Hk2 & Hxa)]; [exact Hs|]. exfalso.
      destruct d2 as [r2|]; [exact (Hnd c2 r2 Hi2)|]. specialize (Hmk c2 Hi2). unfold mk in Hmk. rewrite Hi2 in Hmk.
      rewrite bool_decide_eq_true_2 in Hmk by exact Hk2. rewrite bool_decide_eq_true_2 in Hmk by congruence. discriminate.
    - intros c1 d1 Hi1. eapply B. rewrite HK1 by exact N. exact Hi1. }
  destruct (Hfam m0 Hok0) as (P0 & Hp0 & HP0).
  assert (HP0t : P0 t = if fresh then None else Some (c0, None)).
  { rewrite HP0. unfold PofR. rewrite HK2. destruct fresh; [reflexivity|]. unfold m0. rewrite decide_True by reflexivity. reflexivity. }
  (* invocation (if any), then the linearization point *)
  assert (exists P1 : lpend, poss map_spec ∅ ((if fresh then [HInv t c0] else []) ++ rev (pt_hist c)) a P1 /\
            P1 t = Some (c0, None) /\ forall t2, t2 <> t -> P1 t2 = P0 t2) as (P1 & Hp1 & HP1t & HP1o).
  { destruct fresh.
    - eexists. split; [apply (poss_inv map_spec ∅ _ a P0 t c0 Hp0 HP0t)|]. split; [apply upd_same|].
      intros t2 N. apply upd_other. exact N.
    - exists P0. auto. }
  pose proof (poss_lin map_spec ∅ _ a P1 t c0 Hp1 HP1t) as Hp2. fold a' rl in Hp2.
  (* the readers of the key that the marking links to the new value are linearized right after it *)
  set (n := length (c_threads c)).
  set (l := List.filter (fun t2 => negb (Nat.eqb t2 t) && mk t2) (seq 0 n)).
  set (want := fun t2 => PofR c' m' t2).
  assert (Hin : forall t2, In t2 l <-> t2 <> t /\ mk t2 = true).
  { intros t2. unfold l. rewrite filter_In, in_seq, andb_true_iff, negb_true_iff, Nat.eqb_neq. split; [tauto|].
    intros [N Hmk]. split; [|auto]. split; [lia|]. cbn.
    unfold mk, infoR in Hmk. destruct (nth_error (c_threads c) t2) eqn:E; [|discriminate]. eapply nth_error_lt; eauto. }
  destruct (poss_mark_list _ a' want l (upd P1 t (Some (c0, Some rl))) Hp2) as (P3 & Hp3 & HP3).
  { apply NoDup_filter, seq_NoDup. }
  { intros t2 Ht2. apply Hin in Ht2 as [N Hmk]. pose proof Hmk as Hmk'. unfold mk in Hmk'.
    destruct (infoR c t2) as [[c2 [r2|]]|] eqn:Ei; try discriminate.
    apply andb_true_iff in Hmk' as [Hk2 Hm2]. apply bool_decide_eq_true in Hk2, Hm2.
    exists c2. split; [|split].
    - rewrite upd_other by exact N. rewrite HP1o by exact N. rewrite HP0. unfold PofR. rewrite Ei.
      unfold m0. rewrite decide_False by exact N. rewrite Ei, Hmk. reflexivity.
    - rewrite Hk2. destruct (Hok' t2 _ Hm2) as [_ B]. eapply B. rewrite HK1 by exact N. exact Ei.
    - unfold want, PofR. rewrite HK1 by exact N. rewrite Ei, Hm2, Hk2. reflexivity. }
  (* what P3 is *)
  assert (HP3t : P3 t = Some (c0, Some rl)).
  { rewrite HP3. destruct (in_dec Nat.eq_dec t l) as [Hi|_]; [apply Hin in Hi; tauto|]. apply upd_same. }
  assert (HP3o : forall t2, t2 <> t -> P3 t2 = PofR c' m' t2).
  { intros t2 N. rewrite HP3. destruct (in_dec Nat.eq_dec t2 l) as [Hi|Hni]; [reflexivity|].
    rewrite upd_other by exact N. rewrite HP1o by exact N. rewrite HP0. unfold PofR. rewrite HK1 by exact N.
    unfold m0. rewrite decide_False by exact N.
    destruct (infoR c t2) as [[c2 [r2|]]|] eqn:Ei; try reflexivity.
    destruct (mk t2) eqn:Emk; [|reflexivity]. exfalso. apply Hni. apply Hin. auto. }
  subst want. cbv beta in *.
  rewrite Hh. destruct ret as [r|].
  - rewrite (Hretl r eq_refl).
    pose proof (poss_res map_spec ∅ _ a' _ t c0 rl Hp3 HP3t) as Hp4.
    eexists. split; [exact Hp4|]. intros t2. destruct (Nat.eq_dec t2 t) as [->|N].
    + rewrite upd_same. unfold PofR. rewrite HK3. reflexivity.
    + rewrite upd_other by exact N. apply HP3o, N.
  - exists P3. split; [exact Hp3|]. intros t2. destruct (Nat.eq_dec t2 t) as [->|N]; [|apply HP3o, N].
    rewrite HP3t. unfold PofR. rewrite HK3. reflexivity.
Qed.


Lemma infoR_frame c t th f : nth_error (c_threads c) t = Some th -> frame_of th = Some f -> is_range (f_call f) = false ->
  infoR c t = Some (f_call f, dec (st0 c) f).
Proof. intros H1 H2 H3. unfold infoR. rewrite H1, H2, H3. reflexivity. Qed.

Lemma infoR_inv c t c2 d2 : infoR c t = Some (c2, d2) ->
  exists th f, nth_error (c_threads c) t = Some th /\ frame_of th = Some f /\ is_range (f_call f) = false /\
               c2 = f_call f /\ d2 = dec (st0 c) f.
Proof.
  unfold infoR. destruct (nth_error (c_threads c) t) as [th|]; [|discriminate].
  destruct (frame_of th) as [f|] eqn:E; [|discriminate]. destruct (is_range (f_call f)) eqn:Hr; [discriminate|].
  intros [= <- <-]. eauto 10.
Qed.

Lemma rfrag_lin c : rfrag c -> is_range c = false -> lin_frag c.
Proof. destruct c; cbn; auto; discriminate. Qed.

Lemma pt_hist_app c c' evs : c_hist c' = c_hist c ++ evs ->
  rev (pt_hist c') = rev (List.filter pt_hev (map ev_of evs)) ++ rev (pt_hist c).
Proof. intros E. unfold pt_hist, map_hist. rewrite E, map_app, filter_app, rev_app_distr. reflexivity. Qed.

(* ================================================================== *)
(* the invariant (on top of Inv, Inv2 and RInv)                        *)
(* ================================================================== *)
Record Inv4R (c : config) (seen : nat -> option Z -> Prop) (a : gmap Z Z) : Prop := {
  r4_abs : forall k, a !! k = abs_lookup (st0 c) k;
  r4_seen : forall t th f, nth_error (c_threads c) t = Some th -> frame_of th = Some f -> is_range (f_call f) = false ->
            seen t (abs_lookup (st0 c) (key_of (f_call f))) /\ lin_ref (st0 c) f (seen t);
  r4_fam : famR c seen a
}.

(* everything the family argument needs to know about one step *)
Lemma step_factsR tr c t ch c' seen a :
  Inv c -> Inv2 c -> RInv tr c -> Inv4R c seen a -> step c t ch = Some c' ->
  exists th f i i' o,
    nth_error (c_threads c) t = Some th /\ t_stack th = [f] /\ rfrag (f_call f) /\
    nth_error (c_insts c) 0 = Some i /\ st0 c = i_st i /\ st0 c' = i_st i' /\
    (if is_range (f_call f)
     then (forall k, abs_lookup (i_st i') k = abs_lookup (i_st i) k) /\
          match eff o with Return r => exists out cnt, r = RRange out cnt | _ => True end
     else eff o = o /\ (t_fresh th = true -> dec (i_st i) f = None) /\
          (let S := if t_fresh th then (fun x => x = abs_lookup (i_st i) (key_of (f_call f))) else seen t in
           lin_post (i_st i) (i_st i') f o S) /\
          match o with Return r => forall out cnt, rep (f_call f) r <> RRange out cnt | _ => True end) /\
    (let inv := if t_fresh th then [EvInv t (f_call f)] else [] in
     match eff o with
     | Continue f' =>
         c_threads c' = set_nth_list t (Thread (t_prog th) [f'] (t_results th) false) (c_threads c) /\
         c_hist c' = c_hist c ++ inv /\ f_call f' = f_call f
     | Return r =>
         c_threads c' = set_nth_list t (next_call (Thread (t_prog th) [] (t_results th ++ [rep (f_call f) r]) false)) (c_threads c) /\
         c_hist c' = c_hist c ++ inv ++ [EvRes t (rep (f_call f) r)]
     | Callback _ _ _ => False
     end) /\
    (forall t2 th2 f2, t2 <> t -> nth_error (c_threads c) t2 = Some th2 -> frame_of th2 = Some f2 ->
       dec (i_st i') f2 = dec (i_st i) f2 /\
       forall (S2 S2' : option Z -> Prop), (forall x, S2 x -> S2' x) ->
         S2 (abs_lookup (i_st i) (key_of (f_call f2))) -> S2' (abs_lookup (i_st i') (key_of (f_call f2))) ->
         lin_ref (i_st i) f2 S2 -> lin_ref (i_st i') f2 S2').
Proof.
  intros HI HI2 HR HI4 H. pose proof HR as [_ _ Rfrag Rfresh Rrange _].
  destruct (step_nopost c t ch c' HI (RInv_nopost tr c HR) H) as [_ Hnp].
  pose proof H as Hstep. apply step_cases in Hstep as (th & f & rest & th0 & Hth & Hst & _ & _).
  destruct (Rfrag t th Hth) as (Hfp & Hfs & Hlen). rewrite Hst in Hfs, Hlen.
  destruct rest as [|? ?]; [|cbn in Hlen; lia]. inversion Hfs as [|? ? Hfr _]; subst.
  assert (Tt : top_frame c t = Some f) by (unfold top_frame; rewrite Hth, Hst; reflexivity).
  assert (Hok : frame_ok f) by (eapply inv_frames; eauto).
  assert (Hpl : is_post_label (f_pc f) = false).
  { destruct (is_post_label (f_pc f)) eqn:E; [|reflexivity]. exfalso. apply (fo_post _ Hok) in E.
    pose proof (rfrag_nopost _ Hfr). destruct (f_call f); cbn in *; try contradiction. }
  destruct (step_rfrag c t ch c' th f H Hth Hst Hfr Hpl) as (i & r & Hi & Hsf & Hr).
  destruct r as [[i' o]|kk]; [|rewrite Hr in Hnp; discriminate].
  pose proof (rfrag_inst _ Hfr) as Hinst0.
  assert (Hl0 : 0 < length (c_insts c)) by (eapply nth_error_lt; eauto).
  assert (Hcore : WF_core (i_st i)) by (eapply Inv_WF_core; eauto).
  assert (Hwfl : in_cs f = true -> WFL (i_st i) f).
  { intros Hcs. destruct (inv_insts c HI _ _ Hi) as [Hm Hw].
    assert (Hmu : i_mu i = Some t) by (apply Hm; exists f; rewrite Hinst0; auto). rewrite Hmu in Hw. apply Hw, Tt. }
  assert (H2 : WF2 (i_st i)) by (eapply i2_wf2; eauto).
  assert (Href : ref_inv (i_st i) f) by (eapply i2_ref; eauto; rewrite Hinst0; exact Hi).
  assert (Hpk : frame_pc_ok f) by (eapply i2_pc; eauto).
  assert (Hs0 : st0 c = i_st i) by (unfold st0; rewrite Hi; reflexivity).
  assert (Hi' : c_insts c' = set_nth_list 0 i' (c_insts c)).
  { destruct (eff o) as [f'|r|? ? ?]; [| |contradiction]; subst c'; reflexivity. }
  assert (Hi'0 : nth_error (c_insts c') 0 = Some i') by (rewrite Hi'; apply nth_error_set_nth_list_eq; exact Hl0).
  assert (Hs0' : st0 c' = i_st i') by (unfold st0; rewrite Hi'0; reflexivity).
  destruct (sf_ref t i f ch i' o Hok Hpk Hcore Hwfl H2 Href Hsf) as (w & Htr & _ & Hwj & _).
  pose proof (sf_frame_ok _ _ _ _ _ _ Hok Hsf) as Hfo.
  assert (Ht2 : trans2 (i_st i) (i_st i') /\
     if is_range (f_call f)
     then (forall k, abs_lookup (i_st i') k = abs_lookup (i_st i) k) /\
          match eff o with Return r => exists out cnt, r = RRange out cnt | _ => True end
     else eff o = o /\ (t_fresh th = true -> dec (i_st i) f = None) /\
          (let S := if t_fresh th then (fun x => x = abs_lookup (i_st i) (key_of (f_call f))) else seen t in
           lin_post (i_st i) (i_st i') f o S) /\
          match o with Return r => forall out cnt, rep (f_call f) r <> RRange out cnt | _ => True end).
  { destruct (is_range (f_call f)) eqn:Hrg.
    - destruct (f_call f) as [| | | | |j cb] eqn:Hcall; try discriminate Hrg.
      destruct (Rrange t th f Hth Hst) as (A & B & _); [rewrite Hcall; reflexivity|]. rewrite Hs0 in B.
      destruct (sf_range t i f ch j cb Hcall Hok Hpk Hcore Hwfl Href A B i' o Hsf) as [X T2].
      split; [exact T2|]. split.
      + apply (cons_Range t i f ch i' o j cb Hcall Hok Hpk Hcore Hwfl Href Hsf).
      + destruct (eff o) as [f'|r|? ? ?]; [exact I| |exact I]. destruct X as (out & cnt & -> & _). eauto.
    - pose proof (rfrag_lin _ Hfr Hrg) as Hlf.
      set (S := if t_fresh th then (fun x => x = abs_lookup (i_st i) (key_of (f_call f))) else seen t).
      assert (HSl : S (abs_lookup (i_st i) (key_of (f_call f))) /\ lin_ref (i_st i) f S /\ (t_fresh th = true -> dec (i_st i) f = None)).
      { unfold S. destruct (t_fresh th) eqn:Efr.
        - assert (Hpc : f_pc f = first_label (f_call f)) by (eapply (Rfresh t th f); eauto; rewrite Hst; reflexivity).
          destruct (first_label_facts (i_st i) f (fun x => x = abs_lookup (i_st i) (key_of (f_call f))) Hlf Hpc) as (D & L & _).
          auto.
        - assert (Hfo' : frame_of th = Some f) by (unfold frame_of; rewrite Efr, Hst; reflexivity).
          destruct (r4_seen c seen a HI4 t th f Hth Hfo' Hrg) as [A B]. rewrite Hs0 in A, B. split; [exact A|]. split; [exact B|discriminate]. }
      destruct HSl as (HS0 & HSl & Hdf).
      pose proof (sf_lin t i f ch i' o S Hlf Hok Hpk Hcore Hwfl H2 Href HSl HS0 Hsf) as Hlin.
      split; [apply Hlin|].
      assert (Heff : eff o = o).
      { destruct o as [f1|r1|f1 k1 v1]; try reflexivity. exfalso.
        apply sf_callback in Hsf as (_ & _ & (j & cb & Hc) & _). rewrite Hc in Hrg. discriminate. }
      split; [exact Heff|]. split; [exact Hdf|]. split; [exact Hlin|].
      destruct o as [f1|r1|f1 k1 v1]; [exact I| |exact I]. intros out cnt E.
      destruct (f_call f) eqn:Hcall; try discriminate Hrg; cbn in E; try discriminate E;
        eapply (sf_no_range_res t i f ch i' r1 Hpk); eauto; rewrite Hcall; reflexivity. }
  destruct Ht2 as [Ht2 Hkind].
  exists th, f, i, i', o.
  split; [exact Hth|]. split; [exact Hst|]. split; [exact Hfr|]. split; [exact Hi|]. split; [exact Hs0|]. split; [exact Hs0'|].
  split; [exact Hkind|]. split.
  { cbv zeta. destruct (eff o) as [f'|r|? ? ?] eqn:Eo; [| |contradiction]; subst c'; cbn; auto.
    split; [reflexivity|]. split; [reflexivity|].
    destruct o as [f1|r1|f1 k1 v1]; cbn in Eo.
    + injection Eo as ->. apply Hfo.
    + discriminate.
    + pose proof Hsf as Hsf'. apply sf_callback in Hsf' as (-> & _ & _ & _).
      destruct (cb_next_cases f k1 v1) as [E|E]; rewrite E in Eo; [injection Eo as <-; reflexivity|discriminate]. }
  intros t2 th2 f2 N Hth2 Hfo2.
  assert (T2 : top_frame c t2 = Some f2).
  { unfold top_frame. rewrite Hth2. unfold frame_of in Hfo2. destruct (t_fresh th2); [discriminate|exact Hfo2]. }
  assert (Hinst2 : call_inst (f_call f2) = 0).
  { destruct (Rfrag t2 th2 Hth2) as (_ & Hfs2 & _). unfold top_frame in T2. rewrite Hth2 in T2.
    destruct (t_stack th2) as [|g ?]; [discriminate|]. cbn in T2. injection T2 as ->. inversion Hfs2; subst. apply rfrag_inst. assumption. }
  assert (Href2 : ref_inv (i_st i) f2) by (eapply i2_ref; eauto; rewrite Hinst2; exact Hi).
  split.
  - apply dec_stable. intros Hp2 e2 He2.
    destruct (is_priv_priv _ _ _ Hp2 Href2 He2) as (_ & Hu2 & Hb2).
    apply (tr_ents _ _ _ Htr); [|exact Hb2]. intros Ew. destruct (Hwj e2 Ew) as [[k' Hk']|[Hpf Hef]].
    + exact (Hu2 k' Hk').
    + eapply (i2_priv c HI2 t t2 f f2 e2); eauto. congruence.
  - intros S2 S2' Hm A B. eapply lin_ref_stable; eauto.
    intros Hcs2.
    assert (Hmu : i_mu i <> Some t).
    { destruct (inv_insts c HI _ _ Hi) as [Hm' _]. assert (i_mu i = Some t2) by (apply Hm'; exists f2; auto). congruence. }
    destruct (step_rely c t ch c' 0 i i' HI H Hi Hi'0 Hmu) as [[Hsim _] _]. exact Hsim.
Qed.

Theorem Inv4R_step tr c t ch c' seen a :
  Inv c -> Inv2 c -> RInv tr c -> Inv4R c seen a -> step c t ch = Some c' -> exists seen' a', Inv4R c' seen' a'.
Proof.
  intros HI HI2 HR HI4 H.
  destruct (step_factsR tr c t ch c' seen a HI HI2 HR HI4 H)
    as (th & f & i & i' & o & Hth & Hst & Hfr & Hi & Hs0 & Hs0' & Hkind & Hout & Hoth).
  set (s := i_st i) in *. set (s' := i_st i') in *. set (c0 := f_call f) in *. set (k := key_of c0) in *.
  cbv zeta in Hout.
  assert (Hlt : t < length (c_threads c)) by (eapply nth_error_lt; eauto).
  pose proof HI4 as [I4abs I4seen I4fam].
  rewrite Hs0 in I4abs, I4seen.
  assert (C1 : forall t2, t2 <> t -> nth_error (c_threads c') t2 = nth_error (c_threads c) t2).
  { intros t2 N. destruct (eff o) as [f'|r|? ? ?]; [| |contradiction]; destruct Hout as (E & _); rewrite E;
      apply nth_error_set_nth_list_ne; auto. }
  assert (HK1 : forall t2, t2 <> t -> infoR c' t2 = infoR c t2).
  { intros t2 N. unfold infoR. rewrite (C1 t2 N). destruct (nth_error (c_threads c) t2) as [th2|] eqn:E2; [|reflexivity].
    destruct (frame_of th2) as [f2|] eqn:F2; [|reflexivity]. rewrite Hs0, Hs0'.
    destruct (Hoth t2 th2 f2 N E2 F2) as [D _]. fold s s' in D. rewrite D. reflexivity. }
  destruct (is_range c0) eqn:Hrg.
  - (* a step of a Range call: the contents and the point operations in flight stay *)
    destruct Hkind as [Hall Hres].
    assert (HKt : infoR c t = None).
    { unfold infoR. rewrite Hth. unfold frame_of. rewrite Hst. destruct (t_fresh th); [reflexivity|]. cbn. fold c0. rewrite Hrg. reflexivity. }
    assert (HKt' : infoR c' t = None).
    { unfold infoR. destruct (eff o) as [f'|r|? ? ?]; [| |contradiction]; destruct Hout as (E & Hrest); rewrite E, nth_error_set_nth_list_eq by exact Hlt.
      - destruct Hrest as [_ Hcall]. unfold frame_of. cbn. rewrite Hcall. fold c0. rewrite Hrg. reflexivity.
      - rewrite frame_of_next_call. reflexivity. }
    assert (Hh : rev (pt_hist c') = rev (pt_hist c)).
    { assert (Hinv : List.filter pt_hev (map ev_of (if t_fresh th then [EvInv t c0] else [])) = []).
      { destruct (t_fresh th); [|reflexivity]. cbn. destruct c0; try discriminate Hrg. reflexivity. }
      destruct (eff o) as [f'|r|? ? ?]; [| |contradiction].
      - destruct Hout as (_ & Hh & _). rewrite (pt_hist_app c c' _ Hh), Hinv. reflexivity.
      - destruct Hout as (_ & Hh). rewrite (pt_hist_app c c' _ Hh). rewrite map_app, filter_app, Hinv.
        destruct Hres as (out & cnt & ->). destruct c0; try discriminate Hrg. reflexivity. }
    exists seen, a. constructor.
    + rewrite Hs0'. intros k0. fold s'. rewrite Hall. apply I4abs.
    + rewrite Hs0'. intros t2 th2 f2. destruct (decide (t2 = t)) as [->|N].
      * destruct (eff o) as [f'|r|? ? ?]; [| |contradiction]; destruct Hout as (E & Hrest); rewrite E, nth_error_set_nth_list_eq by exact Hlt;
          intros [= <-].
        -- destruct Hrest as [_ Hcall]. unfold frame_of. cbn. intros [= <-]. rewrite Hcall. fold c0. rewrite Hrg. discriminate.
        -- rewrite frame_of_next_call. discriminate.
      * rewrite (C1 t2 N). intros E2 F2 Hr2. destruct (Hoth t2 th2 f2 N E2 F2) as [_ Hl]. fold s s' in Hl.
        destruct (I4seen t2 th2 f2 E2 F2 Hr2) as [A B]. fold s'. rewrite Hall. split; [exact A|].
        apply (Hl (seen t2) (seen t2)); auto. rewrite Hall. exact A.
    + intros m' Hok'.
      set (m0 := fun t2 => if decide (t2 = t) then None else m' t2).
      assert (Hok0 : okmR c seen m0).
      { intros t2 x. unfold m0. destruct (decide (t2 = t)) as [->|N]; [discriminate|]. intros Hx.
        destruct (Hok' t2 x Hx) as [A B]. split; [exact A|]. intros c1 d1 Hi1. eapply B. rewrite HK1 by exact N. exact Hi1. }
      destruct (I4fam m0 Hok0) as (P0 & Hp0 & HP0). exists P0. rewrite Hh. split; [exact Hp0|].
      intros t2. rewrite HP0. unfold PofR. destruct (decide (t2 = t)) as [->|N].
      * rewrite HKt, HKt'. reflexivity.
      * rewrite HK1 by exact N. unfold m0. rewrite decide_False by exact N. reflexivity.
  - (* a step of a point operation: as in Linearizable.v *)
    destruct Hkind as (Heff & Hdf & Hlin & Hnr). rewrite Heff in Hout.
    set (S := if t_fresh th then (fun x => x = abs_lookup s k) else seen t) in *.
    cbv zeta in Hlin. destruct Hlin as (Habs_o & Ht2 & Hcase).
    assert (HK2 : infoR c t = if t_fresh th then None else Some (c0, dec s f)).
    { unfold infoR. rewrite Hth. unfold frame_of. rewrite Hst, Hs0. destruct (t_fresh th); [reflexivity|]. cbn. fold c0. rewrite Hrg. reflexivity. }
    set (seen' := fun t2 x => if decide (t2 = t) then S x \/ x = abs_lookup s' k
                              else seen t2 x \/ exists c2 d2, infoR c t2 = Some (c2, d2) /\ x = abs_lookup s' (key_of c2)).
    assert (Hseen' : forall t2 th2 f2, nth_error (c_threads c') t2 = Some th2 -> frame_of th2 = Some f2 -> is_range (f_call f2) = false ->
              seen' t2 (abs_lookup s' (key_of (f_call f2))) /\ lin_ref s' f2 (seen' t2)).
    { intros t2 th2 f2. destruct (decide (t2 = t)) as [->|N].
      - destruct o as [f'|r|? ? ?]; [| |contradiction]; destruct Hout as (E & Hrest); rewrite E, nth_error_set_nth_list_eq by exact Hlt;
          intros [= <-].
        + destruct Hrest as [_ Hcall]. unfold frame_of. cbn. intros [= <-] _. unfold seen'. rewrite decide_True by reflexivity.
          rewrite Hcall. split; [right; reflexivity|].
          destruct Hcase as [(_ & _ & Hl)|(_ & _ & _ & Hl)]; (eapply lin_ref_mono; [|exact Hl]); intros x Hx; cbv beta; rewrite decide_True by reflexivity; exact Hx.
        + rewrite frame_of_next_call. discriminate.
      - rewrite (C1 t2 N). intros E2 F2 Hr2. destruct (Hoth t2 th2 f2 N E2 F2) as [_ Hl]. fold s s' in Hl.
        destruct (I4seen t2 th2 f2 E2 F2 Hr2) as [A B]. unfold seen'. rewrite decide_False by exact N. split.
        + right. exists (f_call f2), (dec (st0 c) f2). split; [eapply infoR_frame; eassumption|reflexivity].
        + apply (Hl (seen t2)); auto.
          * intros x Hx. rewrite decide_False by exact N. left. exact Hx.
          * rewrite decide_False by exact N.
            right. exists (f_call f2), (dec (st0 c) f2). split; [eapply infoR_frame; eassumption|reflexivity]. }
    (* the history *)
    set (invh := (if t_fresh th then [HInv t c0] else []) : list hev).
    assert (Hinv : rev (List.filter pt_hev (map ev_of (if t_fresh th then [EvInv t c0] else []))) = invh).
    { unfold invh. destruct (t_fresh th); [|reflexivity]. cbn. destruct c0; try discriminate Hrg; reflexivity. }
    assert (Hhist : rev (pt_hist c') = (match o with Return r => [HRes t (rep c0 r)] | _ => [] end) ++ invh ++ rev (pt_hist c)).
    { destruct o as [f'|r|? ? ?]; [| |contradiction].
      - destruct Hout as (_ & Hh & _). rewrite (pt_hist_app c c' _ Hh), Hinv. reflexivity.
      - destruct Hout as (_ & Hh). rewrite (pt_hist_app c c' _ Hh). rewrite map_app, filter_app, rev_app_distr, Hinv.
        rewrite <- app_assoc. f_equal. cbn. specialize (Hnr). destruct (rep c0 r) eqn:Er; try reflexivity.
        exfalso. eapply Hnr. reflexivity. }
    destruct Hcase as [(Hk & Hn)|(Hd0 & Hk & Hl)].
    + (* no linearization point of t in this step: the abstract map is unchanged *)
      assert (Hall : forall k0, abs_lookup s' k0 = abs_lookup s k0).
      { intros k0. destruct (decide (k0 = k)) as [->|N]; [exact Hk|apply Habs_o, N]. }
      exists seen', a. constructor.
      * rewrite Hs0'. intros k0. fold s'. rewrite Hall. apply I4abs.
      * rewrite Hs0'. exact Hseen'.
      * apply (fam_NR c c' seen seen' a t c0 (t_fresh th) (dec s f)
                 (match o with Return r => Some (rep c0 r) | _ => None end)).
        -- exact HK1.
        -- exact HK2.
        -- destruct o as [f'|r|? ? ?]; [| |contradiction]; destruct Hout as (E & Hrest); unfold infoR; rewrite E, nth_error_set_nth_list_eq by exact Hlt.
           ++ destruct Hrest as [_ Hcall]. unfold frame_of. cbn. rewrite Hs0'. fold s'. destruct Hn as [Hn _]. rewrite Hn, Hcall. fold c0. rewrite Hrg. reflexivity.
           ++ rewrite frame_of_next_call. reflexivity.
        -- exact Hdf.
        -- rewrite Hhist. destruct o as [f'|r|? ? ?]; [reflexivity|reflexivity|contradiction].
        -- intros t2 x N. unfold seen'. rewrite decide_False by exact N. intros [Hs|(c2 & d2 & Hi2' & ->)]; [exact Hs|].
           apply infoR_inv in Hi2' as (th2 & f2 & E2 & F2 & R2 & -> & _). rewrite Hall. apply (I4seen t2 th2 f2 E2 F2 R2).
        -- intros x. unfold seen'. rewrite decide_True by reflexivity. unfold S. rewrite Hall. fold k.
           destruct (t_fresh th) eqn:Efr.
           ++ rewrite I4abs. tauto.
           ++ assert (F : frame_of th = Some f) by (unfold frame_of; rewrite Efr, Hst; reflexivity).
              intros [Hs| ->]; [exact Hs|]. apply (I4seen t th f Hth F Hrg).
        -- destruct o as [f'|r|? ? ?]; [exact I| |contradiction]. destruct Hn as [Hn|(Hn & x & Hro & Hr & Hsx)]; [left; exact Hn|].
           right. split; [exact Hn|]. exists x. split; [exact Hro|]. split; [exact Hr|]. unfold seen'. rewrite decide_True by reflexivity. exact Hsx.
        -- exact I4fam.
    + (* t passes its linearization point *)
      destruct (abs_after_lin a s s' c0 I4abs Habs_o Hk) as [Habs' Hrl].
      exists seen', (fst (map_spec a c0)). constructor.
      * rewrite Hs0'. exact Habs'.
      * rewrite Hs0'. exact Hseen'.
      * apply (fam_LR c c' seen seen' a t c0 (t_fresh th) (match o with Return r => Some (rep c0 r) | _ => None end)).
        -- exact HK1.
        -- rewrite HK2, Hd0. reflexivity.
        -- destruct o as [f'|r|? ? ?]; [| |contradiction]; destruct Hout as (E & Hrest); unfold infoR; rewrite E, nth_error_set_nth_list_eq by exact Hlt.
           ++ destruct Hrest as [_ Hcall]. unfold frame_of. cbn. rewrite Hs0'. fold s'. destruct Hl as [Hl _]. rewrite Hl, Hcall, Hrl. fold c0. rewrite Hrg. reflexivity.
           ++ rewrite frame_of_next_call. reflexivity.
        -- intros r0. destruct o as [f'|r|? ? ?]; [discriminate| |contradiction]. intros [= <-]. rewrite Hrl. exact Hl.
        -- rewrite Hhist. destruct o as [f'|r|? ? ?]; [reflexivity|reflexivity|contradiction].
        -- intros t2 x N. unfold seen'. rewrite decide_False by exact N. intros [Hs|(c2 & d2 & Hi2' & ->)]; [left; exact Hs|].
           destruct (decide (key_of c2 = k)) as [Ek|Nk].
           ++ right. exists c2, d2. split; [exact Hi2'|]. split; [exact Ek|]. rewrite Ek. fold k. rewrite Habs'. reflexivity.
           ++ left. apply infoR_inv in Hi2' as (th2 & f2 & E2 & F2 & R2 & -> & _). rewrite (Habs_o _ Nk). apply (I4seen t2 th2 f2 E2 F2 R2).
        -- exact I4fam.
Qed.

Theorem Inv4R_init z progs : Inv4R (init_config_z [z] progs) (fun _ _ => False) ∅.
Proof.
  assert (Hfo : forall t th, nth_error (c_threads (init_config_z [z] progs)) t = Some th -> frame_of th = None).
  { intros t th. cbn. rewrite nth_error_map. destruct (nth_error progs t) as [p|]; [|discriminate]. cbn.
    intros [= <-]. apply frame_of_next_call. }
  assert (Hnone : forall t, infoR (init_config_z [z] progs) t = None).
  { intros t. unfold infoR. destruct (nth_error (c_threads (init_config_z [z] progs)) t) as [th|] eqn:E; [|reflexivity].
    rewrite (Hfo t th E). reflexivity. }
  constructor.
  - intros k. rewrite lookup_empty. reflexivity.
  - intros t th f Hth. rewrite (Hfo t th Hth). discriminate.
  - intros m _. exists no_pend. split; [apply poss_nil|]. intros t. unfold PofR. rewrite Hnone. reflexivity.
Qed.

Lemma Inv4R_run sched : forall tr c seen a, Inv c -> Inv2 c -> RInv tr c -> Inv4R c seen a ->
  exists seen' a', Inv4R (run_schedule c sched) seen' a'.
Proof.
  induction sched as [|[t ch] sched IH]; intros tr c seen a H1 H2 HR H4; cbn; [eauto|].
  destruct (step c t ch) as [c'|] eqn:E; cbn; [|eapply IH; eauto].
  destruct (Inv4R_step tr c t ch c' seen a H1 H2 HR H4 E) as (seen' & a' & H4').
  eapply (IH (tr ++ [c'])); [eapply Inv_step; eauto|eapply Inv2_step; eauto|eapply RInv_step; eauto|exact H4'].
Qed.

(* Every history of Load / Store / LoadOrStore / LoadAndDelete / Delete calls
   on one sync2.Map, by any number of goroutines of which any may also run Range
   (counting / stopping callback) at any time, under every interleaving of the
   atomic steps: the history of the point operations is linearizable to an
   ordinary map. *)
Theorem map_linearizable_range z progs sched :
  Forall (Forall rfrag) progs ->
  linearizable map_spec ∅ (pt_hist (run_schedule (init_config_z [z] progs) sched)).
Proof.
  intros Hfr.
  destruct (Inv4R_run sched [init_config_z [z] progs] (init_config_z [z] progs) _ _ (Inv_init_z [z] progs) (Inv2_init_z [z] progs)
              (RInv_init z progs Hfr) (Inv4R_init z progs)) as (seen & a & HI4).
  destruct (r4_fam _ _ _ HI4 (fun _ => None)) as (P & Hp & _); [intros t x; discriminate|].
  exists a, P. exact Hp.
Qed.

(* ... the map the linearization ends in IS the contents of the Map; when every
   goroutine has finished, every point operation of the history has been
   linearized. *)
Theorem map_linearizable_range_contents z progs sched :
  Forall (Forall rfrag) progs ->
  let c := run_schedule (init_config_z [z] progs) sched in
  exists (a : gmap Z Z) (P : lpend),
    poss map_spec ∅ (rev (pt_hist c)) a P /\
    (forall k, a !! k = abs_lookup (st0 c) k) /\
    (finished c = true -> forall t, P t = None).
Proof.
  intros Hfr c.
  destruct (Inv4R_run sched [init_config_z [z] progs] (init_config_z [z] progs) _ _ (Inv_init_z [z] progs) (Inv2_init_z [z] progs)
              (RInv_init z progs Hfr) (Inv4R_init z progs)) as (seen & a & HI4). fold c in HI4.
  destruct (r4_fam _ _ _ HI4 (fun _ => None)) as (P & Hp & HP); [intros t x; discriminate|].
  exists a, P. split; [exact Hp|]. split; [apply (r4_abs _ _ _ HI4)|].
  intros Hfin t. rewrite HP. unfold PofR, infoR.
  destruct (nth_error (c_threads c) t) as [th|] eqn:E; [|reflexivity].
  unfold finished in Hfin. rewrite forallb_forall in Hfin. specialize (Hfin th (nth_error_In _ _ E)).
  unfold frame_of. destruct (t_stack th); [|discriminate]. destruct (t_fresh th); reflexivity.
Qed.

(* ... hence linearizable in the classic sense of Herlihy & Wing (Lib/LinHW.v) *)
Theorem map_linearizable_range_classic z progs sched :
  Forall (Forall rfrag) progs ->
  let h := pt_hist (run_schedule (init_config_z [z] progs) sched) in
  exists (a : gmap Z Z) (S : list (nat * call * res)),
    spec_run map_spec ∅ (calls S) = (a, results S) /\
    (forall t, exists l1 l2, invs t h = calls (sel t S) ++ l1 /\ results (sel t S) = ress t h ++ l2 /\
                             length l1 + length l2 <= 1) /\
    (forall h1 h2, h = h1 ++ h2 -> exists S1 S2, S = S1 ++ S2 /\
       forall t, length (ress t h1) <= length (sel t S1) <= length (invs t h1)).
Proof. intros Hfr. apply linearizable_classic, map_linearizable_range, Hfr. Qed.
