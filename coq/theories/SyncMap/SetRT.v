(* sync2.Set: real-time consequences of linearizability, stated on the
   positions of the events of the history (C05).

   The general part is Lib/LinHW.v: cutting derivations of possibilities
   (Part 1), the classic Herlihy-Wing form (Part 2), and windows of a history
   without "anti-operations" for a state property Phi (Part 3). Here Part 3 is
   instantiated twice for the set specification:
   - Phi = "v is a member", operation Add v, anti-operation Remove v
     (lemmas A1-A4);
   - Phi = "v is not a member", operation Remove v, anti-operation Add v
     (lemmas R1-R4).
   Results: [set_after_add] / [set_after_remove] - once an Add(v) (Remove(v)) has
   returned, with either result, every call invoked after that response gets
   the result it has on a set containing (not containing) v, provided no
   Remove(v) (Add(v)) is pending when it is invoked and none is invoked before
   the later call returns; [adds_window_count] / [removes_window_count] /
   [two_adds_window] / [two_removes_window] - in a window without Remove(v)
   (Add(v)) activity at most one Add(v) (Remove(v)) invoked and answered in the
   window reports success, however the calls overlap; [seq_adds_separated] /
   [seq_removes_separated] / [set_classic_separated] - in the classic sequential
   history the separating call is a successful one. *)
From Typ Require Import SyncMap.Model SyncMap.Inv SyncMap.SetAtomic Lib.Lin Lib.LinHW SyncMap.Linearizable SyncMap.SetSpec SyncMap.SetLin.


(* ================================================================== *)
(* the set specification as an instance of Lib/LinHW.v, Part 3          *)
(* ================================================================== *)
Definition is_remove (v : Z) (c : call) : Prop := match c with CLoadAndDelete _ k => k = v | _ => False end.
Definition is_add (v : Z) (c : call) : Prop := match c with CLoadOrStore _ k _ _ => k = v | _ => False end.
Definition is_removeb (v : Z) (c : call) : bool := match c with CLoadAndDelete _ k => Z.eqb k v | _ => false end.
Definition is_addb (v : Z) (c : call) : bool := match c with CLoadOrStore _ k _ _ => Z.eqb k v | _ => false end.
(* the call reports success: Add "added", Remove "removed" (Has: "present") *)
Definition succ_set (r : res) : bool :=
  match r with RLos _ loaded => negb loaded | ROpt (Some _) => true | _ => false end.

Lemma is_addb_true v c : is_addb v c = true <-> is_add v c.
Proof. destruct c; cbn; try (split; [discriminate|contradiction]); apply Z.eqb_eq. Qed.
Lemma is_removeb_true v c : is_removeb v c = true <-> is_remove v c.
Proof. destruct c; cbn; try (split; [discriminate|contradiction]); apply Z.eqb_eq. Qed.
Lemma is_removeb_false v c : is_removeb v c = false <-> ~ is_remove v c.
Proof.
  rewrite <- is_removeb_true. destruct (is_removeb v c); split; intros H.
  - discriminate.
  - exfalso. apply H. reflexivity.
  - discriminate.
  - reflexivity.
Qed.
Lemma is_addb_false v c : is_addb v c = false <-> ~ is_add v c.
Proof.
  rewrite <- is_addb_true. destruct (is_addb v c); split; intros H.
  - discriminate.
  - exfalso. apply H. reflexivity.
  - discriminate.
  - reflexivity.
Qed.
Lemma add_not_remove v c : is_add v c -> ~ is_remove v c.
Proof. destruct c; cbn; auto. Qed.
Lemma remove_not_add v c : is_remove v c -> ~ is_add v c.
Proof. destruct c; cbn; auto. Qed.

Section SetInst.
Variable v : Z.

(* Phi = "v is a member": established by Add v, destroyed only by Remove v *)
Lemma A1 : forall (a : gset Z) c, is_removeb v c = false -> v ∈ a -> v ∈ fst (set_spec a c).
Proof.
  intros a c Hn Hv. destruct c as [j k|j k x|j k x p|j k|j k|j cb]; cbn; try exact Hv.
  - destruct (bool_decide (k ∈ a)); cbn; set_solver.
  - cbn in Hn. apply Z.eqb_neq in Hn. destruct (bool_decide (k ∈ a)); cbn; set_solver.
Qed.
Lemma A2 : forall (a : gset Z) c, is_addb v c = true -> v ∈ fst (set_spec a c).
Proof.
  intros a c H. destruct c as [j k|j k x|j k x p|j k|j k|j cb]; cbn in H; try discriminate. apply Z.eqb_eq in H. subst k. cbn.
  destruct (bool_decide (v ∈ a)) eqn:E; cbn; [apply bool_decide_eq_true in E; exact E|set_solver].
Qed.
Lemma A3 : forall (a : gset Z) c, is_addb v c = true -> v ∈ a -> succ_set (snd (set_spec a c)) = false.
Proof.
  intros a c H Hv. destruct c as [j k|j k x|j k x p|j k|j k|j cb]; cbn in H; try discriminate. apply Z.eqb_eq in H. subst k. cbn.
  rewrite bool_decide_eq_true_2 by exact Hv. reflexivity.
Qed.
Lemma A4 : forall (a : gset Z) c, v ∈ a -> ~ v ∈ fst (set_spec a c) -> is_removeb v c = true /\ succ_set (snd (set_spec a c)) = true.
Proof.
  intros a c Hv Hn. destruct c as [j k|j k x|j k x p|j k|j k|j cb]; cbn in Hn; try contradiction.
  - exfalso. apply Hn. destruct (bool_decide (k ∈ a)); cbn; set_solver.
  - destruct (decide (k = v)) as [->|N].
    + cbn. rewrite Z.eqb_refl, bool_decide_eq_true_2 by exact Hv. auto.
    + exfalso. apply Hn. destruct (bool_decide (k ∈ a)); cbn; set_solver.
Qed.

(* Phi = "v is not a member": established by Remove v, destroyed only by Add v *)
Lemma R1 : forall (a : gset Z) c, is_addb v c = false -> ~ v ∈ a -> ~ v ∈ fst (set_spec a c).
Proof.
  intros a c Hn Hv. destruct c as [j k|j k x|j k x p|j k|j k|j cb]; cbn; try exact Hv.
  - cbn in Hn. apply Z.eqb_neq in Hn. destruct (bool_decide (k ∈ a)); cbn; set_solver.
  - destruct (bool_decide (k ∈ a)); cbn; set_solver.
Qed.
Lemma R2 : forall (a : gset Z) c, is_removeb v c = true -> ~ v ∈ fst (set_spec a c).
Proof.
  intros a c H. destruct c as [j k|j k x|j k x p|j k|j k|j cb]; cbn in H; try discriminate. apply Z.eqb_eq in H. subst k. cbn.
  destruct (bool_decide (v ∈ a)) eqn:E; cbn; [set_solver|apply bool_decide_eq_false in E; exact E].
Qed.
Lemma R3 : forall (a : gset Z) c, is_removeb v c = true -> ~ v ∈ a -> succ_set (snd (set_spec a c)) = false.
Proof.
  intros a c H Hv. destruct c as [j k|j k x|j k x p|j k|j k|j cb]; cbn in H; try discriminate. apply Z.eqb_eq in H. subst k. cbn.
  rewrite bool_decide_eq_false_2 by exact Hv. reflexivity.
Qed.
Lemma R4 : forall (a : gset Z) c, ~ v ∈ a -> ~ ~ v ∈ fst (set_spec a c) -> is_addb v c = true /\ succ_set (snd (set_spec a c)) = true.
Proof.
  intros a c Hv Hn. destruct c as [j k|j k x|j k x p|j k|j k|j cb]; cbn in Hn; try contradiction.
  - destruct (decide (k = v)) as [->|N].
    + cbn. rewrite Z.eqb_refl, bool_decide_eq_false_2 by exact Hv. auto.
    + exfalso. apply Hn. destruct (bool_decide (k ∈ a)); cbn; set_solver.
  - exfalso. apply Hn. destruct (bool_decide (k ∈ a)); cbn; set_solver.
Qed.

Definition in_dec_v (a : gset Z) : {v ∈ a} + {~ v ∈ a} := decide (v ∈ a).
Definition notin_dec_v (a : gset Z) : {~ v ∈ a} + {~ ~ v ∈ a} :=
  match decide (v ∈ a) with left H => right (fun N => N H) | right N => left N end.
End SetInst.

(* ================================================================== *)
(* after an Add(v) / a Remove(v) has returned                          *)
(* ================================================================== *)
(* History (oldest first): ... Add(v) invoked by t1 ... it returns r1 ... c2
   invoked by t2 ... it returns r2 ...; hA / hB contain no event of t1 / t2, so
   the responses belong to these invocations. If no Remove(v) is pending when
   the Add is invoked and none is invoked before c2 returns, then r2 is the
   result of c2 on a set that contains v. *)
Theorem set_after_add v (h0 hA h2 hB h4 : list hev) t1 c1 r1 t2 c2 r2 :
  linearizable set_spec ∅ (h0 ++ [HInv t1 c1] ++ hA ++ [HRes t1 r1] ++ h2 ++ [HInv t2 c2] ++ hB ++ [HRes t2 r2] ++ h4) ->
  is_add v c1 -> no_ev t1 hA -> no_ev t2 hB -> ~ is_remove v c2 ->
  (forall t c, pend_call h0 t = Some c -> ~ is_remove v c) ->
  (forall t c, In (HInv t c) (hA ++ h2 ++ hB) -> ~ is_remove v c) ->
  exists sm, v ∈ sm /\ r2 = snd (set_spec sm c2).
Proof.
  intros L Hadd HnA HnB Hc2 Hpend Hwin.
  apply (after_op set_spec (fun a => v ∈ a) (is_addb v) (is_removeb v) (A1 v) (A2 v) ∅ h0 hA h2 hB h4 t1 c1 r1 t2 c2 r2 L);
    try assumption.
  - apply is_addb_true, Hadd.
  - apply is_removeb_false, add_not_remove, Hadd.
  - apply is_removeb_false, Hc2.
  - intros t c E. apply is_removeb_false, (Hpend t c E).
  - intros t c E. apply is_removeb_false, (Hwin t c E).
Qed.

(* the dual: after a Remove(v) has returned (with either result), with no
   Add(v) pending at its invocation and none invoked before c2 returns, r2 is
   the result of c2 on a set that does not contain v *)
Theorem set_after_remove v (h0 hA h2 hB h4 : list hev) t1 c1 r1 t2 c2 r2 :
  linearizable set_spec ∅ (h0 ++ [HInv t1 c1] ++ hA ++ [HRes t1 r1] ++ h2 ++ [HInv t2 c2] ++ hB ++ [HRes t2 r2] ++ h4) ->
  is_remove v c1 -> no_ev t1 hA -> no_ev t2 hB -> ~ is_add v c2 ->
  (forall t c, pend_call h0 t = Some c -> ~ is_add v c) ->
  (forall t c, In (HInv t c) (hA ++ h2 ++ hB) -> ~ is_add v c) ->
  exists sm, ~ v ∈ sm /\ r2 = snd (set_spec sm c2).
Proof.
  intros L Hrem HnA HnB Hc2 Hpend Hwin.
  apply (after_op set_spec (fun a => ~ v ∈ a) (is_removeb v) (is_addb v) (R1 v) (R2 v) ∅ h0 hA h2 hB h4 t1 c1 r1 t2 c2 r2 L);
    try assumption.
  - apply is_removeb_true, Hrem.
  - apply is_addb_false, remove_not_add, Hrem.
  - apply is_addb_false, Hc2.
  - intros t c E. apply is_addb_false, (Hpend t c E).
  - intros t c E. apply is_addb_false, (Hwin t c E).
Qed.

(* ================================================================== *)
(* overlapping Adds / Removes: at most one succeeds per window         *)
(* ================================================================== *)
(* the number of responses in w (most recent event first) that report "added" /
   "removed" and answer an Add(v) / Remove(v) invoked within w *)
Definition cnt_added (v : Z) (w : list hev) : nat := cnt_succ (is_addb v) succ_set w.
Definition cnt_removed (v : Z) (w : list hev) : nat := cnt_succ (is_removeb v) succ_set w.

(* A window W of a linearizable history: if no Remove(v) is pending at its
   start and none is invoked in it, at most one Add(v) that is invoked and
   answered in W reports "added" - whatever the overlap of the Adds. *)
Theorem adds_window_count v (h0 W h4 : list hev) :
  linearizable set_spec ∅ (h0 ++ W ++ h4) ->
  (forall t c, pend_call h0 t = Some c -> ~ is_remove v c) ->
  (forall t c, In (HInv t c) W -> ~ is_remove v c) ->
  cnt_added v (rev W) <= 1.
Proof.
  intros L Hp Hw.
  apply (window_one set_spec (fun a => v ∈ a) (in_dec_v v) (is_addb v) (is_removeb v) succ_set (A1 v) (A2 v) (A3 v) ∅ h0 W h4 L).
  - intros t c E. apply is_removeb_false, (Hp t c E).
  - intros t c E. apply is_removeb_false, (Hw t c E).
Qed.

Theorem removes_window_count v (h0 W h4 : list hev) :
  linearizable set_spec ∅ (h0 ++ W ++ h4) ->
  (forall t c, pend_call h0 t = Some c -> ~ is_add v c) ->
  (forall t c, In (HInv t c) W -> ~ is_add v c) ->
  cnt_removed v (rev W) <= 1.
Proof.
  intros L Hp Hw.
  apply (window_one set_spec (fun a => ~ v ∈ a) (notin_dec_v v) (is_removeb v) (is_addb v) succ_set (R1 v) (R2 v) (R3 v) ∅ h0 W h4 L).
  - intros t c E. apply is_addb_false, (Hp t c E).
  - intros t c E. apply is_addb_false, (Hw t c E).
Qed.

(* spelled out for two calls A and B of the window, A answered first:
     W = z ++ [HRes tA rA] ++ y ++ [HRes tB rB] ++ x
   where tA's pending call after z is cA and tB's pending call after
   z ++ [HRes tA rA] ++ y is cB (both invoked within W, in any order, B before,
   during or after A). Two Add(v) cannot both report "added" ... *)
Theorem two_adds_window v (h0 z y x h4 : list hev) tA cA rA tB cB rB :
  linearizable set_spec ∅ (h0 ++ (z ++ [HRes tA rA] ++ y ++ [HRes tB rB] ++ x) ++ h4) ->
  pend_call z tA = Some cA -> is_add v cA -> succ_set rA = true ->
  pend_call (z ++ [HRes tA rA] ++ y) tB = Some cB -> is_add v cB -> succ_set rB = true ->
  (forall t c, pend_call h0 t = Some c -> ~ is_remove v c) ->
  (forall t c, In (HInv t c) (z ++ [HRes tA rA] ++ y ++ [HRes tB rB] ++ x) -> ~ is_remove v c) ->
  False.
Proof.
  intros L PA AA SA PB AB SB Hp Hw.
  pose proof (adds_window_count v h0 _ h4 L Hp Hw) as C. unfold cnt_added in C.
  repeat rewrite rev_app_distr in C. cbn [rev app] in C. rewrite <- !app_assoc in C. cbn [app] in C.
  unfold pend_call in PA, PB. repeat rewrite rev_app_distr in PB. cbn [rev app] in PB. rewrite <- !app_assoc in PB. cbn [app] in PB.
  destruct (last_ev (rev z) tA) as [[tA' cA'|? ?]|] eqn:EA; try discriminate PA. injection PA as ->.
  destruct (last_ev_in _ _ _ EA) as [_ ETA]. cbn in ETA. subst tA'.
  destruct (last_ev (rev y ++ HRes tA rA :: rev z) tB) as [[tB' cB'|? ?]|] eqn:EB; try discriminate PB. injection PB as ->.
  destruct (last_ev_in _ _ _ EB) as [_ ETB]. cbn in ETB. subst tB'.
  pose proof (cnt_succ_two (is_addb v) succ_set (rev x) (rev y) (rev z) tA rA tB rB cA cB SA SB EA (proj2 (is_addb_true v cA) AA) EB (proj2 (is_addb_true v cB) AB)).
  lia.
Qed.

(* ... and two Remove(v) cannot both report "removed" without an Add(v) around *)
Theorem two_removes_window v (h0 z y x h4 : list hev) tA cA rA tB cB rB :
  linearizable set_spec ∅ (h0 ++ (z ++ [HRes tA rA] ++ y ++ [HRes tB rB] ++ x) ++ h4) ->
  pend_call z tA = Some cA -> is_remove v cA -> succ_set rA = true ->
  pend_call (z ++ [HRes tA rA] ++ y) tB = Some cB -> is_remove v cB -> succ_set rB = true ->
  (forall t c, pend_call h0 t = Some c -> ~ is_add v c) ->
  (forall t c, In (HInv t c) (z ++ [HRes tA rA] ++ y ++ [HRes tB rB] ++ x) -> ~ is_add v c) ->
  False.
Proof.
  intros L PA AA SA PB AB SB Hp Hw.
  pose proof (removes_window_count v h0 _ h4 L Hp Hw) as C. unfold cnt_removed in C.
  repeat rewrite rev_app_distr in C. cbn [rev app] in C. rewrite <- !app_assoc in C. cbn [app] in C.
  unfold pend_call in PA, PB. repeat rewrite rev_app_distr in PB. cbn [rev app] in PB. rewrite <- !app_assoc in PB. cbn [app] in PB.
  destruct (last_ev (rev z) tA) as [[tA' cA'|? ?]|] eqn:EA; try discriminate PA. injection PA as ->.
  destruct (last_ev_in _ _ _ EA) as [_ ETA]. cbn in ETA. subst tA'.
  destruct (last_ev (rev y ++ HRes tA rA :: rev z) tB) as [[tB' cB'|? ?]|] eqn:EB; try discriminate PB. injection PB as ->.
  destruct (last_ev_in _ _ _ EB) as [_ ETB]. cbn in ETB. subst tB'.
  pose proof (cnt_succ_two (is_removeb v) succ_set (rev x) (rev y) (rev z) tA rA tB rB cA cB SA SB EA (proj2 (is_removeb_true v cA) AA) EB (proj2 (is_removeb_true v cB) AB)).
  lia.
Qed.

(* in a legal sequential set history a successful Add(v) is separated from
   every earlier Add(v) by a successful Remove(v), and dually *)
Theorem seq_adds_separated v (S : list (nat * call * res)) (s : gset Z) Sa x Sm y Sb :
  Lin.spec_run set_spec ∅ (calls S) = (s, results S) -> S = Sa ++ x :: Sm ++ y :: Sb ->
  is_add v (snd (fst x)) -> is_add v (snd (fst y)) -> succ_set (snd y) = true ->
  exists z, In z Sm /\ is_remove v (snd (fst z)) /\ succ_set (snd z) = true.
Proof.
  intros H E Hx Hy Hs.
  destruct (seq_between set_spec (fun a => v ∈ a) (in_dec_v v) (is_addb v) (is_removeb v) succ_set (A2 v) (A3 v) (A4 v)
              ∅ S s Sa x Sm y Sb H E (proj2 (is_addb_true _ _) Hx) (proj2 (is_addb_true _ _) Hy) Hs) as (z & Hz & Z1 & Z2).
  exists z. split; [exact Hz|]. split; [apply is_removeb_true, Z1|exact Z2].
Qed.

Theorem seq_removes_separated v (S : list (nat * call * res)) (s : gset Z) Sa x Sm y Sb :
  Lin.spec_run set_spec ∅ (calls S) = (s, results S) -> S = Sa ++ x :: Sm ++ y :: Sb ->
  is_remove v (snd (fst x)) -> is_remove v (snd (fst y)) -> succ_set (snd y) = true ->
  exists z, In z Sm /\ is_add v (snd (fst z)) /\ succ_set (snd z) = true.
Proof.
  intros H E Hx Hy Hs.
  destruct (seq_between set_spec (fun a => ~ v ∈ a) (notin_dec_v v) (is_removeb v) (is_addb v) succ_set (R2 v) (R3 v) (R4 v)
              ∅ S s Sa x Sm y Sb H E (proj2 (is_removeb_true _ _) Hx) (proj2 (is_removeb_true _ _) Hy) Hs) as (z & Hz & Z1 & Z2).
  exists z. split; [exact Hz|]. split; [apply is_addb_true, Z1|exact Z2].
Qed.

(* ---- for the runs of the machine ---- *)
Theorem run_after_add z progs sched v (h0 hA h2 hB h4 : list hev) t1 c1 r1 t2 c2 r2 :
  Forall (Forall set_frag) progs ->
  map_hist (run_schedule (init_config_z [z] progs) sched) =
    h0 ++ [HInv t1 c1] ++ hA ++ [HRes t1 r1] ++ h2 ++ [HInv t2 c2] ++ hB ++ [HRes t2 r2] ++ h4 ->
  is_add v c1 -> no_ev t1 hA -> no_ev t2 hB -> ~ is_remove v c2 ->
  (forall t c, pend_call h0 t = Some c -> ~ is_remove v c) ->
  (forall t c, In (HInv t c) (hA ++ h2 ++ hB) -> ~ is_remove v c) ->
  exists sm, v ∈ sm /\ r2 = snd (set_spec sm c2).
Proof.
  intros Hfr E. pose proof (set_linearizable z progs sched Hfr) as L. rewrite E in L. exact (set_after_add v h0 hA h2 hB h4 t1 c1 r1 t2 c2 r2 L).
Qed.

(* Has never misses a value that is stably present: Has(v) invoked after an
   Add(v) has returned reports true, unless a Remove(v) is around *)
Theorem has_after_add z progs sched v (h0 hA h2 hB h4 : list hev) t1 j1 x1 p1 r1 t2 j2 r2 :
  Forall (Forall set_frag) progs ->
  map_hist (run_schedule (init_config_z [z] progs) sched) =
    h0 ++ [HInv t1 (CLoadOrStore j1 v x1 p1)] ++ hA ++ [HRes t1 r1] ++ h2 ++ [HInv t2 (CLoad j2 v)] ++ hB ++ [HRes t2 r2] ++ h4 ->
  no_ev t1 hA -> no_ev t2 hB ->
  (forall t c, pend_call h0 t = Some c -> ~ is_remove v c) ->
  (forall t c, In (HInv t c) (hA ++ h2 ++ hB) -> ~ is_remove v c) ->
  r2 = ROpt (Some 0%Z).
Proof.
  intros Hfr E HA HB Hp Hw.
  destruct (run_after_add z progs sched v h0 hA h2 hB h4 t1 _ r1 t2 _ r2 Hfr E eq_refl HA HB (fun x => x) Hp Hw) as (sm & Hv & ->).
  cbn. rewrite bool_decide_eq_true_2 by exact Hv. reflexivity.
Qed.

(* an Add(v) invoked after an Add(v) has returned reports "already present",
   unless a Remove(v) is around; so two Adds of v, one after the other, cannot
   both succeed without a Remove(v) pending or invoked in between *)
Theorem add_after_add z progs sched v (h0 hA h2 hB h4 : list hev) t1 j1 x1 p1 r1 t2 j2 x2 p2 r2 :
  Forall (Forall set_frag) progs ->
  map_hist (run_schedule (init_config_z [z] progs) sched) =
    h0 ++ [HInv t1 (CLoadOrStore j1 v x1 p1)] ++ hA ++ [HRes t1 r1] ++ h2 ++ [HInv t2 (CLoadOrStore j2 v x2 p2)] ++ hB ++ [HRes t2 r2] ++ h4 ->
  no_ev t1 hA -> no_ev t2 hB ->
  (forall t c, pend_call h0 t = Some c -> ~ is_remove v c) ->
  (forall t c, In (HInv t c) (hA ++ h2 ++ hB) -> ~ is_remove v c) ->
  r2 = RLos 0 true.
Proof.
  intros Hfr E HA HB Hp Hw.
  destruct (run_after_add z progs sched v h0 hA h2 hB h4 t1 _ r1 t2 _ r2 Hfr E eq_refl HA HB (fun x => x) Hp Hw) as (sm & Hv & ->).
  cbn. rewrite bool_decide_eq_true_2 by exact Hv. reflexivity.
Qed.

(* ---- the classic formulation (Lib/LinHW.v) for the Set ---- *)
Theorem set_linearizable_classic z progs sched :
  Forall (Forall set_frag) progs ->
  let h := map_hist (run_schedule (init_config_z [z] progs) sched) in
  exists (s : gset Z) (S : list (nat * call * res)),
    spec_run set_spec ∅ (calls S) = (s, results S) /\
    (forall t, exists l1 l2, invs t h = calls (sel t S) ++ l1 /\ results (sel t S) = ress t h ++ l2 /\
                             length l1 + length l2 <= 1) /\
    (forall h1 h2, h = h1 ++ h2 -> exists S1 S2, S = S1 ++ S2 /\
       forall t, length (ress t h1) <= length (sel t S1) <= length (invs t h1)).
Proof. intros Hfr. apply linearizable_classic, set_linearizable, Hfr. Qed.

(* ---- the duals and the window theorems for the runs of the machine ---- *)
Theorem has_after_remove z progs sched v (h0 hA h2 hB h4 : list hev) t1 j1 r1 t2 j2 r2 :
  Forall (Forall set_frag) progs ->
  map_hist (run_schedule (init_config_z [z] progs) sched) =
    h0 ++ [HInv t1 (CLoadAndDelete j1 v)] ++ hA ++ [HRes t1 r1] ++ h2 ++ [HInv t2 (CLoad j2 v)] ++ hB ++ [HRes t2 r2] ++ h4 ->
  no_ev t1 hA -> no_ev t2 hB ->
  (forall t c, pend_call h0 t = Some c -> ~ is_add v c) ->
  (forall t c, In (HInv t c) (hA ++ h2 ++ hB) -> ~ is_add v c) ->
  r2 = ROpt None.
Proof.
  intros Hfr E HA HB Hp Hw. pose proof (set_linearizable z progs sched Hfr) as L. rewrite E in L.
  destruct (set_after_remove v h0 hA h2 hB h4 t1 _ r1 t2 _ r2 L eq_refl HA HB (fun x => x) Hp Hw) as (sm & Hv & ->).
  cbn. rewrite bool_decide_eq_false_2 by exact Hv. reflexivity.
Qed.

Theorem remove_after_remove z progs sched v (h0 hA h2 hB h4 : list hev) t1 j1 r1 t2 j2 r2 :
  Forall (Forall set_frag) progs ->
  map_hist (run_schedule (init_config_z [z] progs) sched) =
    h0 ++ [HInv t1 (CLoadAndDelete j1 v)] ++ hA ++ [HRes t1 r1] ++ h2 ++ [HInv t2 (CLoadAndDelete j2 v)] ++ hB ++ [HRes t2 r2] ++ h4 ->
  no_ev t1 hA -> no_ev t2 hB ->
  (forall t c, pend_call h0 t = Some c -> ~ is_add v c) ->
  (forall t c, In (HInv t c) (hA ++ h2 ++ hB) -> ~ is_add v c) ->
  r2 = ROpt None.
Proof.
  intros Hfr E HA HB Hp Hw. pose proof (set_linearizable z progs sched Hfr) as L. rewrite E in L.
  destruct (set_after_remove v h0 hA h2 hB h4 t1 _ r1 t2 _ r2 L eq_refl HA HB (fun x => x) Hp Hw) as (sm & Hv & ->).
  cbn. rewrite bool_decide_eq_false_2 by exact Hv. reflexivity.
Qed.

Theorem run_adds_window z progs sched v (h0 W h4 : list hev) :
  Forall (Forall set_frag) progs ->
  map_hist (run_schedule (init_config_z [z] progs) sched) = h0 ++ W ++ h4 ->
  (forall t c, pend_call h0 t = Some c -> ~ is_remove v c) ->
  (forall t c, In (HInv t c) W -> ~ is_remove v c) ->
  cnt_added v (rev W) <= 1.
Proof. intros Hfr E. pose proof (set_linearizable z progs sched Hfr) as L. rewrite E in L. exact (adds_window_count v h0 W h4 L). Qed.

Theorem run_removes_window z progs sched v (h0 W h4 : list hev) :
  Forall (Forall set_frag) progs ->
  map_hist (run_schedule (init_config_z [z] progs) sched) = h0 ++ W ++ h4 ->
  (forall t c, pend_call h0 t = Some c -> ~ is_add v c) ->
  (forall t c, In (HInv t c) W -> ~ is_add v c) ->
  cnt_removed v (rev W) <= 1.
Proof. intros Hfr E. pose proof (set_linearizable z progs sched Hfr) as L. rewrite E in L. exact (removes_window_count v h0 W h4 L). Qed.

Theorem run_two_adds z progs sched v (h0 z0 y x h4 : list hev) tA cA rA tB cB rB :
  Forall (Forall set_frag) progs ->
  map_hist (run_schedule (init_config_z [z] progs) sched) = h0 ++ (z0 ++ [HRes tA rA] ++ y ++ [HRes tB rB] ++ x) ++ h4 ->
  pend_call z0 tA = Some cA -> is_add v cA -> succ_set rA = true ->
  pend_call (z0 ++ [HRes tA rA] ++ y) tB = Some cB -> is_add v cB -> succ_set rB = true ->
  (forall t c, pend_call h0 t = Some c -> ~ is_remove v c) ->
  (forall t c, In (HInv t c) (z0 ++ [HRes tA rA] ++ y ++ [HRes tB rB] ++ x) -> ~ is_remove v c) ->
  False.
Proof. intros Hfr E. pose proof (set_linearizable z progs sched Hfr) as L. rewrite E in L. exact (two_adds_window v h0 z0 y x h4 tA cA rA tB cB rB L). Qed.

Theorem run_two_removes z progs sched v (h0 z0 y x h4 : list hev) tA cA rA tB cB rB :
  Forall (Forall set_frag) progs ->
  map_hist (run_schedule (init_config_z [z] progs) sched) = h0 ++ (z0 ++ [HRes tA rA] ++ y ++ [HRes tB rB] ++ x) ++ h4 ->
  pend_call z0 tA = Some cA -> is_remove v cA -> succ_set rA = true ->
  pend_call (z0 ++ [HRes tA rA] ++ y) tB = Some cB -> is_remove v cB -> succ_set rB = true ->
  (forall t c, pend_call h0 t = Some c -> ~ is_add v c) ->
  (forall t c, In (HInv t c) (z0 ++ [HRes tA rA] ++ y ++ [HRes tB rB] ++ x) -> ~ is_add v c) ->
  False.
Proof. intros Hfr E. pose proof (set_linearizable z progs sched Hfr) as L. rewrite E in L. exact (two_removes_window v h0 z0 y x h4 tA cA rA tB cB rB L). Qed.

(* the classic sequential history of a run, with the separation property: the
   successful Remove(v) between two successful Adds of v is an entry of S, and
   clause (c) places it in real time (Lib/LinHW.v, classic_rt_order) *)
Theorem set_classic_separated z progs sched :
  Forall (Forall set_frag) progs ->
  let h := map_hist (run_schedule (init_config_z [z] progs) sched) in
  exists (s : gset Z) (S : list (nat * call * res)),
    Lin.spec_run set_spec ∅ (calls S) = (s, results S) /\
    (forall t, exists l1 l2, invs t h = calls (sel t S) ++ l1 /\ results (sel t S) = ress t h ++ l2 /\
                             length l1 + length l2 <= 1) /\
    (forall h1 h2, h = h1 ++ h2 -> exists S1 S2, S = S1 ++ S2 /\
       forall t, length (ress t h1) <= length (sel t S1) <= length (invs t h1)) /\
    (forall v Sa x Sm y Sb, S = Sa ++ x :: Sm ++ y :: Sb ->
       is_add v (snd (fst x)) -> is_add v (snd (fst y)) -> succ_set (snd y) = true ->
       exists z, In z Sm /\ is_remove v (snd (fst z)) /\ succ_set (snd z) = true) /\
    (forall v Sa x Sm y Sb, S = Sa ++ x :: Sm ++ y :: Sb ->
       is_remove v (snd (fst x)) -> is_remove v (snd (fst y)) -> succ_set (snd y) = true ->
       exists z, In z Sm /\ is_add v (snd (fst z)) /\ succ_set (snd z) = true).
Proof.
  intros Hfr h. destruct (set_linearizable_classic z progs sched Hfr) as (s & S & A & B & C). fold h in B, C.
  exists s, S. split; [exact A|]. split; [exact B|]. split; [exact C|]. split.
  - intros v Sa x Sm y Sb E. exact (seq_adds_separated v S s Sa x Sm y Sb A E).
  - intros v Sa x Sm y Sb E. exact (seq_removes_separated v S s Sa x Sm y Sb A E).
Qed.
