(* sync2.Set: real-time consequences of linearizability, stated on the
   positions of the events of the history (C05).

   Part 1 (any specification) is Lib/LinHW.v: possibilities continued from an
   arbitrary possibility ([possF]), cutting a derivation at any position
   ([possF_app], [possF_snoc]), pending calls are those of the history
   ([possF_pend]).

   Part 2 (set specification): over a stretch of history in which no
   Remove(v) is invoked, starting from a possibility in which no Remove(v) is
   pending unlinearized, v stays a member and every call linearized in the
   stretch sees it ([seg_keep]).

   Part 3: [set_after_add] - in a linearizable history, once an Add(v) has
   returned (with either result), every Has(v) / Add(v) / other call c2 invoked
   after that response gets the result c2 has on a set containing v, provided no
   Remove(v) is pending when the Add is invoked and none is invoked before c2
   returns. Instances: Has never misses a stably present value; two Adds of v
   one after the other cannot both succeed without a Remove(v) in between. *)
From Typ Require Import SyncMap.Model SyncMap.Inv SyncMap.SetAtomic Lib.Lin Lib.LinHW SyncMap.Linearizable SyncMap.SetSpec SyncMap.SetLin.


(* ================================================================== *)
(* the set specification over a stretch without Remove(v)              *)
(* ================================================================== *)
Definition is_remove (v : Z) (c : call) : Prop := match c with CLoadAndDelete _ k => k = v | _ => False end.
Definition is_add (v : Z) (c : call) : Prop := match c with CLoadOrStore _ k _ _ => k = v | _ => False end.
(* no Remove(v) is pending with its marker still to come *)
Definition nounm (v : Z) (P : lpend) : Prop := forall t c, P t = Some (c, None) -> ~ is_remove v c.

Lemma set_spec_keeps v s c : ~ is_remove v c -> v ∈ s -> v ∈ fst (set_spec s c).
Proof.
  destruct c as [j k|j k x|j k x p|j k|j k|j cb]; cbn; intros Hn Hv; try exact Hv.
  - destruct (bool_decide (k ∈ s)); cbn; set_solver.
  - destruct (bool_decide (k ∈ s)); cbn; set_solver.
Qed.

Lemma set_spec_adds v s c : is_add v c -> v ∈ fst (set_spec s c).
Proof.
  destruct c as [j k|j k x|j k x p|j k|j k|j cb]; cbn; try contradiction. intros ->.
  destruct (bool_decide (v ∈ s)) eqn:E; cbn; [apply bool_decide_eq_true in E; exact E|set_solver].
Qed.

Lemma seg_keep v s1 (P1 : lpend) w s2 (P2 : lpend) :
  possF set_spec s1 P1 w s2 P2 ->
  (forall t c, In (HInv t c) w -> ~ is_remove v c) -> nounm v P1 ->
  nounm v P2 /\ (v ∈ s1 -> v ∈ s2) /\
  forall t c r, P2 t = Some (c, Some r) ->
    ((forall c', ~ In (HInv t c') w) /\ P1 t = Some (c, Some r)) \/
    ((exists sm, r = snd (set_spec sm c) /\ (v ∈ s1 -> v ∈ sm)) /\ (is_add v c -> v ∈ s2)).
Proof.
  induction 1 as [|h a P t c H IH HP|h a P t c H IH HP|h a P t c r H IH HP]; intros Hw Hn.
  - split; [exact Hn|]. split; [auto|]. intros t c r Ht. left. split; [intros c' []|exact Ht].
  - destruct IH as (I1 & I2 & I3); [intros t0 c0 Hi; apply (Hw t0 c0); right; exact Hi|exact Hn|].
    split; [|split; [exact I2|]].
    + intros t0 c0. unfold upd. destruct (Nat.eq_dec t0 t) as [->|N]; [|apply I1].
      intros [= <-]. apply (Hw t c). left. reflexivity.
    + intros t0 c0 r0. unfold upd. destruct (Nat.eq_dec t0 t) as [->|N]; [discriminate|]. intros Ht.
      destruct (I3 t0 c0 r0 Ht) as [[A B]|B]; [left|right; exact B].
      split; [|exact B]. intros c' [[= E _]|Hi]; [congruence|exact (A c' Hi)].
  - destruct (IH Hw Hn) as (I1 & I2 & I3).
    assert (Hnr : ~ is_remove v c) by (apply (I1 t c HP)).
    split; [|split].
    + intros t0 c0. unfold upd. destruct (Nat.eq_dec t0 t) as [->|N]; [discriminate|apply I1].
    + intros Hv. apply set_spec_keeps; auto.
    + intros t0 c0 r0. unfold upd. destruct (Nat.eq_dec t0 t) as [->|N].
      * intros [= <- <-]. right. split; [exists a; auto|]. apply set_spec_adds.
      * intros Ht. destruct (I3 t0 c0 r0 Ht) as [A|[A B]]; [left; exact A|right].
        split; [exact A|]. intros Ha. apply set_spec_keeps; auto.
  - destruct IH as (I1 & I2 & I3); [intros t0 c0 Hi; apply (Hw t0 c0); right; exact Hi|exact Hn|].
    split; [|split; [exact I2|]].
    + intros t0 c0. unfold upd. destruct (Nat.eq_dec t0 t) as [->|N]; [discriminate|apply I1].
    + intros t0 c0 r0. unfold upd. destruct (Nat.eq_dec t0 t) as [->|N]; [discriminate|]. intros Ht.
      destruct (I3 t0 c0 r0 Ht) as [[A B]|B]; [left|right; exact B].
      split; [|exact B]. intros c' [Hi|Hi]; [discriminate|exact (A c' Hi)].
Qed.

(* ================================================================== *)
(* after an Add(v) has returned                                        *)
(* ================================================================== *)
(* the call pending for thread t after history h (oldest event first) *)
Definition pend_call (h : list hev) (t : nat) : option call :=
  match last_ev (rev h) t with Some (HInv _ c) => Some c | _ => None end.

Lemma nounm_upd_none v (P : lpend) t : nounm v P -> nounm v (upd P t None).
Proof. intros H t0 c0. unfold upd. destruct (Nat.eq_dec t0 t); [discriminate|apply H]. Qed.
Lemma nounm_upd_inv v (P : lpend) t c : nounm v P -> ~ is_remove v c -> nounm v (upd P t (Some (c, None))).
Proof. intros H Hc t0 c0. unfold upd. destruct (Nat.eq_dec t0 t); [intros [= <-]; exact Hc|apply H]. Qed.

(* History (oldest first): ... Add(v) invoked by t1 ... it returns r1 ... c2
   invoked by t2 ... it returns r2 ...; hA / hB contain no event of t1 / t2, so
   the responses belong to these invocations. If no Remove(v) is pending when
   the Add is invoked and none is invoked before c2 returns, then r2 is the
   result of c2 on a set that contains v. *)
Theorem set_after_add v (h0 hA h2 hB h4 : list hev) t1 c1 r1 t2 c2 r2 :
  linearizable set_spec ∅ (h0 ++ [HInv t1 c1] ++ hA ++ [HRes t1 r1] ++ h2 ++ [HInv t2 c2] ++ hB ++ [HRes t2 r2] ++ h4) ->
  is_add v c1 -> no_ev t1 hA -> no_ev t2 hB -> ~ is_remove v c2 ->
  (forall t c, pend_call h0 t = Some c -> ~ is_remove v c) ->
  (forall t c, In (HInv t c) (hA ++ h2 ++ hB) -> ~ is_remove v c) ->
  exists sm, v ∈ sm /\ r2 = snd (set_spec sm c2).
Proof.
  intros (s & P & Hp) Hadd HnA HnB Hc2 Hpend Hwin. apply poss_possF in Hp.
  repeat rewrite rev_app_distr in Hp. cbn [rev app] in Hp.
  apply possF_app in Hp as (s0 & P0 & H0 & Hp).
  apply possF_snoc in Hp as (s0' & P0' & L0 & Hn0 & Hp).
  apply possF_app in Hp as (sa & Pa & HA & Hp).
  apply possF_snoc in Hp as (sa' & Pa' & La & (c1' & Hc1 & Hp)).
  apply possF_app in Hp as (sb & Pb & H2 & Hp).
  apply possF_snoc in Hp as (sb' & Pb' & Lb & Hnb & Hp).
  apply possF_app in Hp as (sc & Pc & HB & Hp).
  apply possF_snoc in Hp as (sc' & Pc' & Lc & (c2' & Hc2' & _)).
  assert (Hnil : forall t c, In (@HInv call res t c) [] -> ~ is_remove v c) by (intros t c []).
  assert (HwA : forall t c, In (HInv t c) ([] ++ rev hA) -> ~ is_remove v c).
  { intros t c Hi. cbn in Hi. apply in_rev in Hi. apply (Hwin t c). apply in_or_app. auto. }
  assert (Hw2 : forall t c, In (HInv t c) ([] ++ rev h2) -> ~ is_remove v c).
  { intros t c Hi. cbn in Hi. apply in_rev in Hi. apply (Hwin t c). apply in_or_app. right. apply in_or_app. auto. }
  assert (HwB : forall t c, In (HInv t c) ([] ++ rev hB) -> ~ is_remove v c).
  { intros t c Hi. cbn in Hi. apply in_rev in Hi. apply (Hwin t c). apply in_or_app. right. apply in_or_app. auto. }
  assert (Hadd_nr : ~ is_remove v c1) by (destruct c1; cbn in *; auto).
  (* when the Add is invoked *)
  assert (N0 : nounm v P0).
  { intros t c Ht Hr. pose proof (possF_pend _ _ _ _ _ _ H0 t) as X. specialize (Hpend t). unfold pend_call in Hpend.
    destruct (last_ev (rev h0) t) as [[? c0|? ?]|].
    - destruct X as [d Hd]. rewrite Ht in Hd. injection Hd as <- _. exact (Hpend c eq_refl Hr).
    - rewrite Ht in X. discriminate.
    - destruct (X c None Ht) as [d' Hd']. discriminate. }
  destruct (seg_keep v _ _ _ _ _ L0 Hnil N0) as (N0' & _ & _).
  pose proof (nounm_upd_inv v P0' t1 c1 N0' Hadd_nr) as Na.
  (* until the Add has returned *)
  pose proof (possF_trans _ _ _ _ _ _ _ _ _ HA La) as SA.
  destruct (seg_keep v _ _ _ _ _ SA HwA Na) as (Na' & _ & Ia).
  assert (Ec1 : c1' = c1).
  { pose proof (possF_pend _ _ _ _ _ _ SA t1) as X. cbn [app] in X. rewrite (last_ev_none _ _ (no_ev_rev _ _ HnA)) in X.
    destruct (X c1' (Some r1) Hc1) as [d' Hd']. rewrite upd_same in Hd'. congruence. }
  subst c1'.
  assert (Va : v ∈ sa').
  { destruct (Ia t1 c1 r1 Hc1) as [[_ B]|[_ B]]; [rewrite upd_same in B; discriminate|exact (B Hadd)]. }
  pose proof (nounm_upd_none v Pa' t1 Na') as Nb.
  (* until c2 is invoked *)
  pose proof (possF_trans _ _ _ _ _ _ _ _ _ H2 Lb) as S2.
  destruct (seg_keep v _ _ _ _ _ S2 Hw2 Nb) as (Nb' & Vb & _).
  pose proof (nounm_upd_inv v Pb' t2 c2 Nb' Hc2) as Nc.
  (* until c2 returns *)
  pose proof (possF_trans _ _ _ _ _ _ _ _ _ HB Lc) as SB.
  destruct (seg_keep v _ _ _ _ _ SB HwB Nc) as (_ & _ & Ic).
  assert (Ec2 : c2' = c2).
  { pose proof (possF_pend _ _ _ _ _ _ SB t2) as X. cbn [app] in X. rewrite (last_ev_none _ _ (no_ev_rev _ _ HnB)) in X.
    destruct (X c2' (Some r2) Hc2') as [d' Hd']. rewrite upd_same in Hd'. congruence. }
  subst c2'.
  destruct (Ic t2 c2 r2 Hc2') as [[_ B]|[(sm & Er & Vm) _]]; [rewrite upd_same in B; discriminate|].
  exists sm. split; [apply Vm, Vb, Va|exact Er].
Qed.

(* ---- for the runs of the machine ---- *)
Theorem run_after_add z progs sched v (h0 hA h2 hB h4 : list hev) t1 c1 r1 t2 c2 r2 :
  Forall (Forall set_frag) progs ->
  map_hist (run_schedule (init_config_z [z] progs) sched) =
    h0 ++ [HInv t1 c1] ++ hA ++ [HRes t1 r1] ++ h2 ++ [HInv t2 c2] ++ hB ++ [HRes t2 r2] ++ h4 ->
  is_add v c1 -> no_ev t1 hA -> no_ev t2 hB -> ~ is_remove v c2 ->
  (forall t c, pend_call h0 t = Some c -> ~ is_remove v c) ->
  (forall t c, In (HInv t c) (hA ++ h2 ++ hB) -> ~ is_remove v c) ->
  exists sm, v ∈ sm /\ r2 = snd (set_spec sm c2).
Proof.
  intros Hfr E. pose proof (set_linearizable z progs sched Hfr) as L. rewrite E in L. exact (set_after_add v h0 hA h2 hB h4 t1 c1 r1 t2 c2 r2 L).
Qed.

(* Has never misses a value that is stably present: Has(v) invoked after an
   Add(v) has returned reports true, unless a Remove(v) is around *)
Theorem has_after_add z progs sched v (h0 hA h2 hB h4 : list hev) t1 j1 x1 p1 r1 t2 j2 r2 :
  Forall (Forall set_frag) progs ->
  map_hist (run_schedule (init_config_z [z] progs) sched) =
    h0 ++ [HInv t1 (CLoadOrStore j1 v x1 p1)] ++ hA ++ [HRes t1 r1] ++ h2 ++ [HInv t2 (CLoad j2 v)] ++ hB ++ [HRes t2 r2] ++ h4 ->
  no_ev t1 hA -> no_ev t2 hB ->
  (forall t c, pend_call h0 t = Some c -> ~ is_remove v c) ->
  (forall t c, In (HInv t c) (hA ++ h2 ++ hB) -> ~ is_remove v c) ->
  r2 = ROpt (Some 0%Z).
Proof.
  intros Hfr E HA HB Hp Hw.
  destruct (run_after_add z progs sched v h0 hA h2 hB h4 t1 _ r1 t2 _ r2 Hfr E eq_refl HA HB (fun x => x) Hp Hw) as (sm & Hv & ->).
  cbn. rewrite bool_decide_eq_true_2 by exact Hv. reflexivity.
Qed.

(* an Add(v) invoked after an Add(v) has returned reports "already present",
   unless a Remove(v) is around; so two Adds of v, one after the other, cannot
   both succeed without a Remove(v) pending or invoked in between *)
Theorem add_after_add z progs sched v (h0 hA h2 hB h4 : list hev) t1 j1 x1 p1 r1 t2 j2 x2 p2 r2 :
  Forall (Forall set_frag) progs ->
  map_hist (run_schedule (init_config_z [z] progs) sched) =
    h0 ++ [HInv t1 (CLoadOrStore j1 v x1 p1)] ++ hA ++ [HRes t1 r1] ++ h2 ++ [HInv t2 (CLoadOrStore j2 v x2 p2)] ++ hB ++ [HRes t2 r2] ++ h4 ->
  no_ev t1 hA -> no_ev t2 hB ->
  (forall t c, pend_call h0 t = Some c -> ~ is_remove v c) ->
  (forall t c, In (HInv t c) (hA ++ h2 ++ hB) -> ~ is_remove v c) ->
  r2 = RLos 0 true.
Proof.
  intros Hfr E HA HB Hp Hw.
  destruct (run_after_add z progs sched v h0 hA h2 hB h4 t1 _ r1 t2 _ r2 Hfr E eq_refl HA HB (fun x => x) Hp Hw) as (sm & Hv & ->).
  cbn. rewrite bool_decide_eq_true_2 by exact Hv. reflexivity.
Qed.

(* ---- the classic formulation (Lib/LinHW.v) for the Set ---- *)
Theorem set_linearizable_classic z progs sched :
  Forall (Forall set_frag) progs ->
  let h := map_hist (run_schedule (init_config_z [z] progs) sched) in
  exists (s : gset Z) (S : list (nat * call * res)),
    spec_run set_spec ∅ (calls S) = (s, results S) /\
    (forall t, exists l1 l2, invs t h = calls (sel t S) ++ l1 /\ results (sel t S) = ress t h ++ l2 /\
                             length l1 + length l2 <= 1) /\
    (forall h1 h2, h = h1 ++ h2 -> exists S1 S2, S = S1 ++ S2 /\
       forall t, length (ress t h1) <= length (sel t S1) <= length (invs t h1)).
Proof. intros Hfr. apply linearizable_classic, set_linearizable, Hfr. Qed.
