(* The two models of sync2.Map agree on single-goroutine runs (C04).

   Seq.v is a big-step model (one Coq function per method; theorems C04_seq_* and
   the sequential refinement theorem SeqHist.seq_refinement are about it);
   Model.v is the small-step model (one step per atomic / mutex operation; all
   concurrent theorems are about it). Both are tied to the real code by the
   harness. Here they are tied to each other, in Coq: for every program p of
   Load / Store / LoadOrStore / LoadAndDelete / Delete calls, the run of the
   small-step machine with the single goroutine p - under any schedule, i.e.
   any sequence of iteration choices - returns, once finished, exactly the
   results the big-step functions return call by call from the zero Map, and
   ends with the same abstract contents.

   Proof: a single-goroutine history is linearizable (Linearizable.v); the
   classic form (Lib/LinHW.v) gives a legal sequential history made of exactly
   the goroutine's calls in program order with the results it received, i.e.
   results = the ordinary map's results; SeqHist.seq_refinement says the same
   of the big-step model. [HK] relates the history to the threads' programs
   and result lists. *)
From Typ Require Import SyncMap.Model SyncMap.Inv SyncMap.SetAtomic Lib.Lin Lib.LinHW SyncMap.Linearizable SyncMap.SeqProofs SyncMap.SeqHist.

(* ---- history vs programs and result lists ---- *)
Record HK (progs : list (list call)) (c : config) : Prop := {
  hk_len : length (c_threads c) = length progs;
  hk_ev : forall e, In e (map_hist c) -> ev_thread e < length (c_threads c);
  hk_thr : forall t th p, nth_error progs t = Some p -> nth_error (c_threads c) t = Some th ->
     ress t (map_hist c) = t_results th /\
     (t_stack th = [] -> t_prog th = []) /\
     exists done, p = done ++ map f_call (t_stack th) ++ t_prog th /\
                  invs t (map_hist c) = done ++ (if t_fresh th then [] else map f_call (t_stack th))
}.

Lemma map_hist_snoc c c' evs : c_hist c' = c_hist c ++ evs -> map_hist c' = map_hist c ++ map ev_of evs.
Proof. intros E. unfold map_hist. rewrite E, map_app. reflexivity. Qed.

Lemma HK_init z progs : HK progs (init_config_z [z] progs).
Proof.
  constructor.
  - cbn. apply map_length.
  - intros e [].
  - intros t th p Hp. cbn. rewrite nth_error_map, Hp. cbn. intros [= <-].
    unfold next_call. cbn. destruct p as [|c0 p]; cbn.
    + split; [reflexivity|]. split; [reflexivity|]. exists []. split; reflexivity.
    + split; [reflexivity|]. split; [discriminate|]. exists []. split; reflexivity.
Qed.

Lemma HK_step progs c t ch c' seen a :
  Inv c -> Inv2 c -> Inv4 c seen a -> HK progs c -> step c t ch = Some c' -> HK progs c'.
Proof.
  intros HI HI2 HI4 [Klen Kev Kthr] H.
  destruct (step_facts c t ch c' seen a HI HI2 HI4 H)
    as (th & f & i & i' & o & Hth & Hst & _ & _ & _ & _ & _ & _ & Hout & _).
  cbv zeta in Hout.
  assert (Hlt : t < length (c_threads c)) by (eapply nth_error_lt; eauto).
  set (inv := if t_fresh th then [EvInv t (f_call f)] else []) in *.
  (* uniform description of the step *)
  assert (exists th' evs,
            c_threads c' = set_nth_list t th' (c_threads c) /\ c_hist c' = c_hist c ++ evs /\
            (forall e, In e (map ev_of evs) -> ev_thread e = t) /\
            ress t (map ev_of evs) ++ [] = ress t (map ev_of evs) /\
            (t_results th' = t_results th ++ ress t (map ev_of evs)) /\
            (t_stack th' = [] -> t_prog th' = []) /\
            (forall done, invs t (map_hist c) = done ++ (if t_fresh th then [] else map f_call (t_stack th)) ->
                          forall p, p = done ++ map f_call (t_stack th) ++ t_prog th ->
               exists done', p = done' ++ map f_call (t_stack th') ++ t_prog th' /\
                             invs t (map_hist c) ++ invs t (map ev_of evs) = done' ++ (if t_fresh th' then [] else map f_call (t_stack th'))))
    as (th' & evs & Et & Eh & Hevt & _ & Hres & Hemp & Hinv).
  { assert (Hinv_t : forall e, In e (map ev_of inv) -> ev_thread e = t).
    { unfold inv. destruct (t_fresh th); [|intros e []]. intros e [<-|[]]. reflexivity. }
    assert (Hinv_r : ress t (map ev_of inv) = []) by (unfold inv; destruct (t_fresh th); reflexivity).
    assert (Hinv_i : forall done, invs t (map_hist c) = done ++ (if t_fresh th then [] else map f_call (t_stack th)) ->
              invs t (map_hist c) ++ invs t (map ev_of inv) = done ++ [f_call f]).
    { intros done E. rewrite E, Hst. unfold inv. destruct (t_fresh th); cbn.
      - destruct (Nat.eq_dec t t) as [_|N]; [|congruence]. rewrite app_nil_r. reflexivity.
      - rewrite app_nil_r. reflexivity. }
    destruct o as [f'|r|? ? ?]; [| |contradiction].
    - destruct Hout as (E1 & E2 & Hcall). eexists _, inv. split; [exact E1|]. split; [exact E2|].
      split; [exact Hinv_t|]. split; [apply app_nil_r|]. cbn [t_results t_stack t_prog t_fresh].
      split; [rewrite Hinv_r, app_nil_r; reflexivity|]. split; [discriminate|].
      intros done Ei p Ep. exists done. rewrite Hst in Ep. cbn in Ep. cbn [map]. rewrite Hcall. split; [exact Ep|].
      apply Hinv_i, Ei.
    - destruct Hout as (E1 & E2). eexists _, (inv ++ [EvRes t (rep (f_call f) r)]). split; [exact E1|]. split; [exact E2|].
      split.
      { intros e. rewrite map_app, in_app_iff. intros [Hi|[<-|[]]]; [apply Hinv_t, Hi|reflexivity]. }
      split; [apply app_nil_r|].
      assert (Er : ress t (map ev_of (inv ++ [EvRes t (rep (f_call f) r)])) = [rep (f_call f) r]).
      { rewrite map_app, ress_app, Hinv_r. cbn. destruct (Nat.eq_dec t t) as [_|N]; [reflexivity|congruence]. }
      rewrite Er.
      assert (Ei2 : forall done, invs t (map_hist c) = done ++ (if t_fresh th then [] else map f_call (t_stack th)) ->
                invs t (map_hist c) ++ invs t (map ev_of (inv ++ [EvRes t (rep (f_call f) r)])) = done ++ [f_call f]).
      { intros done E. rewrite map_app, invs_app. cbn [map ev_of invs]. rewrite app_nil_r. apply Hinv_i, E. }
      unfold next_call. cbn [t_prog]. destruct (t_prog th) as [|c1 p1] eqn:Ep1; cbn [t_results t_stack t_prog t_fresh].
      + split; [reflexivity|]. split; [reflexivity|]. intros done Ei p Ep. exists (done ++ [f_call f]).
        rewrite Hst in Ep. cbn in Ep. cbn. rewrite !app_nil_r. split; [exact Ep|]. apply Ei2, Ei.
      + split; [reflexivity|]. split; [discriminate|]. intros done Ei p Ep. exists (done ++ [f_call f]).
        rewrite Hst in Ep. cbn in Ep. cbn. rewrite app_nil_r, <- app_assoc. split; [exact Ep|]. apply Ei2, Ei. }
  assert (Hlen : length (c_threads c') = length (c_threads c)) by (rewrite Et; apply length_set_nth_list; exact Hlt).
  pose proof (map_hist_snoc c c' evs Eh) as Emh.
  constructor.
  - rewrite Hlen. exact Klen.
  - intros e. rewrite Emh, in_app_iff, Hlen. intros [Hi|Hi]; [apply Kev, Hi|]. rewrite (Hevt e Hi). exact Hlt.
  - intros t2 th2 p Hp. rewrite Et, Emh, ress_app, invs_app. destruct (decide (t2 = t)) as [->|N].
    + rewrite nth_error_set_nth_list_eq by exact Hlt. intros [= <-].
      destruct (Kthr t th p Hp Hth) as (K1 & K2 & done & K3 & K4).
      split; [rewrite K1, Hres; reflexivity|]. split; [exact Hemp|]. apply (Hinv done K4 p K3).
    + rewrite nth_error_set_nth_list_ne by auto. intros Hth2.
      assert (Eo : invs t2 (map ev_of evs) = [] /\ ress t2 (map ev_of evs) = []).
      { clear -Hevt N. induction (map ev_of evs) as [|e l IH]; [auto|].
        assert (He : ev_thread e = t) by (apply Hevt; left; reflexivity).
        destruct IH as [I1 I2]; [intros e' Hi; apply Hevt; right; exact Hi|].
        destruct e as [t0 c0|t0 r0]; cbn in He; subst t0; cbn; destruct (Nat.eq_dec t t2); try congruence; auto. }
      destruct Eo as [-> ->]. rewrite !app_nil_r. apply (Kthr t2 th2 p Hp Hth2).
Qed.

Lemma HK_run progs sched : forall c seen a, Inv c -> Inv2 c -> Inv4 c seen a -> HK progs c ->
  exists seen' a', Inv4 (run_schedule c sched) seen' a' /\ HK progs (run_schedule c sched).
Proof.
  induction sched as [|[t ch] sched IH]; intros c seen a H1 H2 H4 HK0; cbn; [eauto|].
  destruct (step c t ch) as [c'|] eqn:E; cbn; [|eapply IH; eauto].
  destruct (Inv4_step c t ch c' seen a H1 H2 H4 E) as (seen' & a' & H4').
  eapply IH; [eapply Inv_step; eauto|eapply Inv2_step; eauto|exact H4'|eapply HK_step; eauto].
Qed.

(* ---- a single goroutine: the results are those of the ordinary map ---- *)
Lemma invs_none {Call Res} t (h : list (@hevent Call Res)) : (forall e, In e h -> ev_thread e <> t) -> invs t h = [].
Proof.
  induction h as [|[t0 c0|t0 r0] h IH]; intros H; cbn; [reflexivity| |].
  - destruct (Nat.eq_dec t0 t) as [->|N]; [exfalso; apply (H (HInv t c0)); [left; reflexivity|reflexivity]|].
    apply IH. intros e Hi. apply H. right. exact Hi.
  - apply IH. intros e Hi. apply H. right. exact Hi.
Qed.

Lemma sel_all {Call Res} (S : list (nat * Call * Res)) : (forall t, t <> 0 -> sel t S = []) -> sel 0 S = S.
Proof.
  induction S as [|x S IH]; intros H; [reflexivity|]. cbn.
  destruct (Nat.eq_dec (fst (fst x)) 0) as [E|N].
  - f_equal. apply IH. intros t Ht. specialize (H t Ht). cbn in H. destruct (Nat.eq_dec (fst (fst x)) t); [congruence|exact H].
  - exfalso. specialize (H _ N). cbn in H. destruct (Nat.eq_dec (fst (fst x)) (fst (fst x))); [discriminate|congruence].
Qed.

Theorem solo_spec z p sched :
  Forall lin_frag p ->
  let c := run_schedule (init_config_z [z] [p]) sched in
  finished c = true ->
  exists th (a : gmap Z Z), nth_error (c_threads c) 0 = Some th /\
    Lin.spec_run map_spec ∅ p = (a, t_results th) /\ forall k, a !! k = abs_lookup (st0 c) k.
Proof.
  intros Hfr c Hfin.
  assert (Hfrs : Forall (Forall lin_frag) [p]) by (constructor; [exact Hfr|constructor]).
  destruct (HK_run [p] sched (init_config_z [z] [p]) _ _ (Inv_init_z [z] [p]) (Inv2_init_z [z] [p]) (Inv4_init z [p] Hfrs) (HK_init z [p]))
    as (seen & a & HI4 & [Klen Kev Kthr]). fold c in HI4, Klen, Kev, Kthr. cbn in Klen.
  destruct (i4_fam _ _ _ HI4 (fun _ => None)) as (P & Hp & HP); [intros t x; discriminate|].
  assert (HPn : forall t, P t = None).
  { intros t. rewrite HP. unfold Pof, info.
    destruct (nth_error (c_threads c) t) as [th|] eqn:E; [|reflexivity].
    unfold finished in Hfin. rewrite forallb_forall in Hfin. specialize (Hfin th (nth_error_In _ _ E)).
    unfold frame_of. destruct (t_stack th); [|discriminate]. destruct (t_fresh th); reflexivity. }
  destruct (poss_classic_inv map_spec ∅ _ a P Hp) as (S & J1 & J2 & _). rewrite rev_involutive in J2.
  assert (Hag : forall t, invs t (map_hist c) = calls (sel t S) /\ results (sel t S) = ress t (map_hist c)).
  { intros t. specialize (J2 t). rewrite HPn in J2. exact J2. }
  destruct (nth_error (c_threads c) 0) as [th|] eqn:Eth; [|apply nth_error_None in Eth; lia].
  assert (Hsel : sel 0 S = S).
  { apply sel_all. intros t Ht. destruct (Hag t) as [A _]. rewrite invs_none in A.
    - unfold calls in A. symmetry in A. apply map_eq_nil in A. exact A.
    - intros e Hi E. apply Kev in Hi. lia. }
  destruct (Kthr 0 th p eq_refl Eth) as (K1 & K2 & done & K3 & K4).
  assert (Hst : t_stack th = []).
  { unfold finished in Hfin. rewrite forallb_forall in Hfin. specialize (Hfin th (nth_error_In _ _ Eth)).
    destruct (t_stack th); [reflexivity|discriminate]. }
  rewrite Hst, (K2 Hst) in K3. rewrite Hst in K4. cbn in K3, K4. rewrite app_nil_r in K3. subst done.
  assert (K4' : invs 0 (map_hist c) = p) by (rewrite K4; destruct (t_fresh th); apply app_nil_r).
  destruct (Hag 0) as [A1 A2]. rewrite Hsel in A1, A2.
  exists th, a. split; [reflexivity|]. split; [|apply (i4_abs _ _ _ HI4)].
  rewrite <- K4', A1, J1, A2, K1. reflexivity.
Qed.

(* ---- ... and so are the results of the big-step model ---- *)
Definition sop_of (c : call) : sop :=
  match c with
  | CLoad _ k => SLoad k
  | CStore _ k v => SStore k v
  | CLoadOrStore _ k v _ => SLoadOrStore k v
  | CLoadAndDelete _ k => SLoadAndDelete k
  | CDelete _ k => SDelete k
  | CRange _ _ => SRange [] None
  end.
Definition sres_of (r : res) : sres :=
  match r with ROpt o => SROpt o | RLos a l => SRLos a l | RRange l _ => SRPairs l | _ => SRUnit end.

Lemma spec_op_map m c : lin_frag c -> spec_op m (sop_of c) = (fst (map_spec m c), sres_of (snd (map_spec m c))).
Proof. intros [_ H]. destruct c as [j k|j k v|j k v q|j k|j k|j cb]; cbn; try reflexivity; try contradiction. destruct (m !! k); reflexivity. Qed.

Lemma spec_run_map p : Forall lin_frag p -> forall m,
  SeqHist.spec_run (map sop_of p) m = (fst (Lin.spec_run map_spec m p), map sres_of (snd (Lin.spec_run map_spec m p))).
Proof.
  induction 1 as [|c p Hc _ IH]; intros m; cbn; [reflexivity|].
  rewrite (spec_op_map m c Hc). destruct (map_spec m c) as [m1 r] eqn:E1. cbn. rewrite IH.
  destruct (Lin.spec_run map_spec m1 p) as [m2 rs]. reflexivity.
Qed.

(* The small-step machine run with the single goroutine p, under any schedule,
   and the big-step functions of Seq.v run call by call from the zero Map
   return the same results and end with the same abstract contents. *)
Theorem solo_is_bigstep z p sched :
  Forall lin_frag p ->
  let c := run_schedule (init_config_z [z] [p]) sched in
  finished c = true ->
  exists th s outs, nth_error (c_threads c) 0 = Some th /\
    run_seq (map sop_of p) empty_mstate = Ok (s, outs) /\ WF s /\
    map sres_of (t_results th) = outs /\
    forall k, abs_lookup (st0 c) k = abs_lookup s k.
Proof.
  intros Hfr c Hfin. destruct (solo_spec z p sched Hfr Hfin) as (th & a & Hth & Hs & Ha).
  destruct (seq_refinement (map sop_of p)) as (s & outs & Hr & Hw & Ho & Hm).
  rewrite (spec_run_map p Hfr ∅), Hs in Ho, Hm. cbn in Ho, Hm.
  exists th, s, outs. split; [exact Hth|]. split; [exact Hr|]. split; [exact Hw|]. split; [symmetry; exact Ho|].
  intros k. rewrite <- Ha, <- Hm. apply abs_map_lookup, Hw.
Qed.
