(* Second layer of concurrent invariants of sync2.Map (on top of SyncMap/Inv.v),
   and the per-key conservation law of the LoadOrStore / LoadAndDelete / Load
   fragment (what sync2.Set's Add / Remove / Has are made of; C05).

   Part A (all programs, all schedules): which entries a goroutine may still
   hold. An entry taken from a read map under key k is still in the current
   read map under k, or it is expunged and unreachable for good
   ([pub_or_dead]); an entry LoadAndDelete removed from the dirty map is
   unreachable, holds a value and is written by its remover only ([priv],
   pairwise distinct between threads); entries that were never in a read map
   hold a value ([WF2]). Method as in Inv.v: an invariant [Inv2] of
   configurations, one pass over the labels on [step_frame] ([sf_ref]), a
   stability lemma for the frames of the other threads ([ref_inv_stable]).

   Part B: conservation (see below). *)
From Typ Require Import SyncMap.Model SyncMap.Inv.

(* ================================================================== *)
(* Second layer: which entries a frame may still hold                 *)
(* ================================================================== *)
Definition unreachable (s : mstate) (e : nat) : Prop := forall k, ~ reach_any s k e.

(* an entry taken from a read map under key k: still there, or expunged and dropped for good *)
Definition pub_or_dead (s : mstate) (k : Z) (e : nat) : Prop :=
  read_m s !! k = Some e \/ (is_exp s e = true /\ unreachable s e).

(* an entry LoadAndDelete removed from the dirty map: only the remover will ever write it *)
Definition priv (s : mstate) (e : nat) : Prop :=
  (exists v, get_ent s e = PVal v) /\ unreachable s e /\ e < next_e s.

(* entries that were never in a read map hold a value *)
Definition WF2 (s : mstate) : Prop :=
  forall k e, dirty_lookup s k = Some e -> read_m s !! k = None -> exists v, get_ent s e = PVal v.

(* what any step may do, as far as the other threads' references are concerned;
   w = the entry whose pointer was written *)
Record trans (s s' : mstate) (w : option nat) : Prop := {
  tr_next : next_e s <= next_e s';
  tr_ents : forall e, w <> Some e -> e < next_e s -> get_ent s' e = get_ent s e;
  tr_pub : forall k e, read_m s !! k = Some e -> pub_or_dead s' k e;
  tr_unreach : forall e, e < next_e s -> unreachable s e -> unreachable s' e
}.

Definition w_ok (s : mstate) (w : option nat) : Prop :=
  forall e, w = Some e -> is_exp s e = false \/ exists k, reach_any s k e.

Lemma is_exp_get s e : is_exp s e = true <-> get_ent s e = PExpunged.
Proof. unfold is_exp. destruct (get_ent s e); split; congruence. Qed.

Lemma is_exp_eq s s' e : get_ent s' e = get_ent s e -> is_exp s' e = is_exp s e.
Proof. unfold is_exp. intros ->. reflexivity. Qed.

Lemma pod_trans s s' w k e :
  WF_core s -> trans s s' w -> w_ok s w -> pub_or_dead s k e -> pub_or_dead s' k e.
Proof.
  intros Hc [T1 T2 T3 T4] Hw [Hp|[He Hu]]; [eauto|].
  assert (Hb : e < next_e s) by (eapply wf_exp_bound; eauto).
  right. split; [|eauto].
  rewrite (is_exp_eq s s'); [exact He|]. apply T2; [|exact Hb].
  intros E. destruct (Hw e E) as [X|[k' X]]; [congruence|]. exact (Hu k' X).
Qed.

Lemma priv_trans s s' w e : trans s s' w -> w <> Some e -> priv s e -> priv s' e.
Proof.
  intros [T1 T2 T3 T4] Hw ([v Hv] & Hu & Hb). split; [|split].
  - exists v. rewrite T2; auto.
  - auto.
  - lia.
Qed.

Lemma trans_refl s : trans s s None.
Proof. constructor; auto. intros k e H. left. exact H. Qed.

(* same maps, same allocation, entries changed at w only *)
Lemma trans_same_maps s s' w :
  next_e s' = next_e s -> read_m s' = read_m s -> dirty s' = dirty s ->
  (forall e, w <> Some e -> get_ent s' e = get_ent s e) -> trans s s' w.
Proof.
  intros Hn Hr Hd He. constructor.
  - lia.
  - intros e H _. apply He, H.
  - intros k e H. left. rewrite Hr. exact H.
  - intros e _ Hu k [H|H]; apply (Hu k); [left|right].
    + rewrite <- Hr. exact H.
    + unfold dirty_lookup in *. rewrite <- Hd. exact H.
Qed.

Lemma trans_misses s m : trans s (st_with_misses s m) None.
Proof. apply trans_same_maps; reflexivity. Qed.

Lemma trans_set_ent s e p : trans s (set_ent s e p) (Some e).
Proof.
  apply trans_same_maps; try reflexivity. intros e0 H. rewrite get_ent_set_ent.
  destruct (decide (e0 = e)); [congruence|reflexivity].
Qed.

Lemma WF2_same s s' :
  read_m s' = read_m s -> dirty s' = dirty s ->
  (forall k e, dirty_lookup s k = Some e -> read_m s !! k = None -> get_ent s' e = get_ent s e) ->
  WF2 s -> WF2 s'.
Proof.
  intros Hr Hd He H k e Hk Hn. unfold dirty_lookup in Hk. rewrite Hd in Hk. rewrite Hr in Hn.
  destruct (H k e Hk Hn) as [v Hv]. exists v. rewrite (He k e Hk Hn). exact Hv.
Qed.

Lemma WF2_misses s m : WF2 s -> WF2 (st_with_misses s m).
Proof. apply WF2_same; reflexivity. Qed.

(* writing a value, or writing an entry that is not "dirty only" *)
Lemma WF2_set_ent s e p :
  WF_core s -> WF2 s ->
  (exists v, p = PVal v) \/ (exists k, read_m s !! k = Some e) \/ unreachable s e ->
  WF2 (set_ent s e p).
Proof.
  intros Hc H Hp k e0 Hk Hn. change (dirty_lookup s k = Some e0) in Hk. change (read_m s !! k = None) in Hn.
  rewrite get_ent_set_ent. destruct (decide (e0 = e)) as [->|N]; [|eauto].
  destruct Hp as [[v ->]|[[k' Hk']|Hu]]; [eauto| |].
  - exfalso. assert (k = k') by (eapply (wf_inj s Hc k k' e); [right|left]; assumption). congruence.
  - exfalso. apply (Hu k). right. exact Hk.
Qed.

(* ---- promotion ---- *)
Lemma trans_promote s d :
  WF_core s -> WF_ad s -> dirty s = Some d ->
  trans s (MState (ents s) (next_e s) (default ∅ (dirty s)) false None 0) None.
Proof.
  intros Hc Ha Hd. rewrite Hd. cbn. constructor; cbn.
  - lia.
  - reflexivity.
  - intros k e Hk. pose proof (wf_cover s Ha d k e Hd Hk) as Hcov.
    destruct (is_exp s e) eqn:He.
    + right. split; [exact He|]. intros k' [H|H]; cbn in H; [|discriminate].
      assert (is_exp s e = false); [|congruence]. apply (wf_dirty_live s Hc k'). unfold dirty_lookup. rewrite Hd. exact H.
    + left. exact Hcov.
  - intros e _ Hu k [H|H]; cbn in H; [|discriminate]. apply (Hu k). right. unfold dirty_lookup. rewrite Hd. exact H.
Qed.

Lemma WF2_promote s : WF2 (MState (ents s) (next_e s) (default ∅ (dirty s)) false None 0).
Proof. intros k e H. discriminate. Qed.

(* ---- m.dirty[key] = newEntry(value) ---- *)
Lemma trans_insert_new s d key v rm am :
  dirty s = Some d -> rm = read_m s ->
  trans s (MState (<[next_e s := PVal v]> (ents s)) (S (next_e s)) rm am (Some (<[key := next_e s]> d)) (misses s)) None.
Proof.
  intros Hd ->. constructor; cbn.
  - lia.
  - intros e _ He. unfold get_ent. cbn. rewrite lookup_insert_ne by lia. reflexivity.
  - intros k e H. left. exact H.
  - intros e He Hu k [H|H]; cbn in H.
    + apply (Hu k). left. exact H.
    + destruct (decide (k = key)) as [->|N].
      * rewrite lookup_insert in H. injection H as <-. lia.
      * rewrite lookup_insert_ne in H by congruence. apply (Hu k). right. unfold dirty_lookup. rewrite Hd. exact H.
Qed.

Lemma WF2_insert_new s d key v rm am :
  WF_core s -> WF2 s -> dirty s = Some d -> rm = read_m s ->
  WF2 (MState (<[next_e s := PVal v]> (ents s)) (S (next_e s)) rm am (Some (<[key := next_e s]> d)) (misses s)).
Proof.
  intros Hc H Hd -> k e Hk Hn. cbn in Hk, Hn. unfold get_ent. cbn.
  destruct (decide (k = key)) as [->|N].
  - rewrite lookup_insert in Hk. injection Hk as <-. rewrite lookup_insert. cbn. eauto.
  - rewrite lookup_insert_ne in Hk by congruence.
    assert (Hk' : dirty_lookup s k = Some e) by (unfold dirty_lookup; rewrite Hd; exact Hk).
    assert (e < next_e s) by (eapply wf_bound; [exact Hc|right; exact Hk']).
    rewrite lookup_insert_ne by lia. apply (H k e Hk' Hn).
Qed.

(* ---- unexpunge + m.dirty[key] = e ---- *)
Lemma trans_unexpunge s d key e :
  dirty s = Some d -> read_m s !! key = Some e ->
  trans s (MState (<[e := PNil]> (ents s)) (next_e s) (read_m s) (amended s) (Some (<[key := e]> d)) (misses s)) (Some e).
Proof.
  intros Hd Hk. constructor; cbn.
  - lia.
  - intros e0 N _. unfold get_ent. cbn. rewrite lookup_insert_ne by congruence. reflexivity.
  - intros k e0 H. left. exact H.
  - intros e0 _ Hu k [H|H]; cbn in H.
    + apply (Hu k). left. exact H.
    + destruct (decide (k = key)) as [->|N].
      * rewrite lookup_insert in H. injection H as <-. apply (Hu key). left. exact Hk.
      * rewrite lookup_insert_ne in H by congruence. apply (Hu k). right. unfold dirty_lookup. rewrite Hd. exact H.
Qed.

Lemma WF2_unexpunge s d key e :
  WF2 s -> dirty s = Some d -> read_m s !! key = Some e -> is_exp s e = true ->
  WF2 (MState (<[e := PNil]> (ents s)) (next_e s) (read_m s) (amended s) (Some (<[key := e]> d)) (misses s)).
Proof.
  intros H Hd Hk He k e0 Hk0 Hn. cbn in Hk0, Hn. destruct (decide (k = key)) as [->|N]; [congruence|].
  rewrite lookup_insert_ne in Hk0 by congruence.
  assert (Hk' : dirty_lookup s k = Some e0) by (unfold dirty_lookup; rewrite Hd; exact Hk0).
  destruct (H k e0 Hk' Hn) as [v Hv]. exists v. unfold get_ent. cbn.
  rewrite lookup_insert_ne; [exact Hv|]. intros <-. apply is_exp_get in He. congruence.
Qed.

(* ---- delete(m.dirty, key) ---- *)
Lemma trans_dirty_delete s key : trans s (dirty_delete s key) None.
Proof.
  unfold dirty_delete. destruct (dirty s) as [d|] eqn:Hd; [|apply trans_refl].
  constructor; cbn.
  - lia.
  - reflexivity.
  - intros k e H. left. exact H.
  - intros e _ Hu k [H|H]; cbn in H.
    + apply (Hu k). left. exact H.
    + apply lookup_delete_Some in H as [_ H]. apply (Hu k). right. unfold dirty_lookup. rewrite Hd. exact H.
Qed.

Lemma WF2_dirty_delete s key : WF2 s -> WF2 (dirty_delete s key).
Proof.
  intros H. unfold dirty_delete. destruct (dirty s) as [d|] eqn:Hd; [|exact H].
  intros k e Hk Hn. cbn in Hk, Hn. apply lookup_delete_Some in Hk as [_ Hk].
  apply (H k e); [unfold dirty_lookup; rewrite Hd; exact Hk|exact Hn].
Qed.

(* the entry LoadAndDelete took out of the dirty map is private *)
Lemma priv_dirty_delete s key e :
  WF_core s -> WF2 s -> read_m s !! key = None -> dirty_lookup s key = Some e -> priv (dirty_delete s key) e.
Proof.
  intros Hc H2 Hn Hk. unfold dirty_lookup in Hk. destruct (dirty s) as [d|] eqn:Hd; [|discriminate].
  assert (Hk' : dirty_lookup s key = Some e) by (unfold dirty_lookup; rewrite Hd; exact Hk).
  split; [|split].
  - unfold dirty_delete. rewrite Hd. apply (H2 key e Hk' Hn).
  - unfold dirty_delete. rewrite Hd. intros k [H|H]; cbn in H.
    + assert (k = key) by (apply (wf_inj s Hc k key e); [left|right]; assumption). congruence.
    + apply lookup_delete_Some in H as [N H].
      apply N. apply (wf_inj s Hc key k e); right; [|unfold dirty_lookup; rewrite Hd]; assumption.
  - unfold dirty_delete. rewrite Hd. cbn. eapply wf_bound; [exact Hc|right; exact Hk'].
Qed.

(* ---- dirtyLocked ---- *)
Lemma trans_dirty_read s : dirty s = None -> trans s (st_with_dirty s (Some ∅)) None.
Proof.
  intros Hd. constructor; cbn.
  - lia.
  - reflexivity.
  - intros k e H. left. exact H.
  - intros e _ Hu k [H|H]; cbn in H.
    + apply (Hu k). left. exact H.
    + rewrite lookup_empty in H. discriminate.
Qed.

Lemma WF2_dirty_read s : WF2 (st_with_dirty s (Some ∅)).
Proof. intros k e H. cbn in H. rewrite lookup_empty in H. discriminate. Qed.

Lemma trans_loop_copy s ck e s' :
  read_m s !! ck = Some e -> dirty_insert s ck e = Ok s' -> trans s s' None.
Proof.
  intros Hk Hs'. unfold dirty_insert in Hs'. destruct (dirty s) as [d|] eqn:Hd; [|discriminate]. injection Hs' as <-.
  constructor; cbn.
  - lia.
  - reflexivity.
  - intros k e0 H. left. exact H.
  - intros e0 _ Hu k [H|H]; cbn in H.
    + apply (Hu k). left. exact H.
    + destruct (decide (k = ck)) as [->|N].
      * rewrite lookup_insert in H. injection H as <-. apply (Hu ck). left. exact Hk.
      * rewrite lookup_insert_ne in H by congruence. apply (Hu k). right. unfold dirty_lookup. rewrite Hd. exact H.
Qed.

Lemma WF2_loop_copy s ck e s' :
  WF2 s -> read_m s !! ck = Some e -> dirty_insert s ck e = Ok s' -> WF2 s'.
Proof.
  intros H Hk Hs'. unfold dirty_insert in Hs'. destruct (dirty s) as [d|] eqn:Hd; [|discriminate]. injection Hs' as <-.
  intros k e0 Hk0 Hn. cbn in Hk0, Hn. destruct (decide (k = ck)) as [->|N]; [congruence|].
  rewrite lookup_insert_ne in Hk0 by congruence. apply (H k e0); [unfold dirty_lookup; rewrite Hd; exact Hk0|exact Hn].
Qed.

(* ---- program counters and calls agree ---- *)
Definition is_lad (c : call) : bool := match c with CLoadAndDelete _ _ | CDelete _ _ => true | _ => false end.

Definition pc_ok (c : call) (l : label) : bool :=
  match c with
  | CLoad _ _ => match l with Load_read1 | Load_lock | Load_read2 | Miss_store | Load_unlock | E_load => true | _ => false end
  | CStore _ _ _ =>
      match l with
      | Store_read1 | TryStore_load | TryStore_cas | Store_lock | Store_read2 | Unexpunge_cas | StoreLocked | Store_amend
      | Store_unlock | Dirty_read | Dirty_iter | Expunge_load1 | Expunge_cas | Expunge_load2 => true
      | _ => false
      end
  | CLoadOrStore _ _ _ _ =>
      match l with
      | LOS_read1 | Tlos_load1 | Tlos_cas | Tlos_load2 | LOS_lock | LOS_read2 | Unexpunge_cas | LOS_amend | LOS_unlock
      | Miss_store | Dirty_read | Dirty_iter | Expunge_load1 | Expunge_cas | Expunge_load2 => true
      | l => is_post_label l
      end
  | CLoadAndDelete _ _ | CDelete _ _ =>
      match l with LAD_read1 | LAD_lock | LAD_read2 | Miss_store | LAD_unlock | Delete_load | Delete_cas => true | _ => false end
  | CRange _ _ =>
      match l with Range_read1 | Range_lock | Range_read2 | Range_promote | Range_unlock | Range_iter | E_load => true | _ => false end
  end.

Definition frame_pc_ok (f : frame) : Prop := pc_ok (f_call f) (f_pc f) = true.

Lemma pc_ok_new c : frame_pc_ok (new_frame c).
Proof. destruct c; reflexivity. Qed.

Lemma pc_ok_post c p l : post_label p = Some l -> (exists i k v, c = CLoadOrStore i k v p) -> pc_ok c l = true.
Proof. intros Hp (i & k & v & ->). destruct p; simplify_eq/=; reflexivity. Qed.

Lemma sf_pc_ok t i f ch i' f' :
  frame_pc_ok f -> step_frame t i f ch = Some (Ok (i', Continue f')) -> frame_pc_ok f'.
Proof.
  unfold frame_pc_ok. intros Hok H. unfold step_frame in H.
  destruct (f_call f) eqn:Hc; destruct (f_pc f) eqn:Hpc; try discriminate Hok;
    unfold expunge_done, tlos_done, bind in H; unfold after_miss, dirty_next, los_return, range_next in H;
    rewrite ?Hc in H; cbn in H; repeat case_match; simplify_eq; cbn; rewrite ?Hc; try reflexivity.
  all: try (eapply pc_ok_post; eauto; fail).
Qed.

(* ---- the entry a frame holds, by program counter ---- *)
Definition ref_e (s : mstate) (f : frame) : Prop :=
  let k := key_of (f_call f) in
  match f_pc f with
  | TryStore_load | TryStore_cas => forall e, f_e f = Some e -> pub_or_dead s k e
  | Tlos_load1 | Tlos_cas | Tlos_load2 =>
      forall e, f_e f = Some e ->
      match f_mode f with
      | MFast => pub_or_dead s k e
      | MLockedRead => read_m s !! k = Some e /\ is_exp s e = false
      | MLockedDirty => read_m s !! k = None /\ dirty_lookup s k = Some e
      end
  | StoreLocked => forall e, f_e f = Some e -> exists k', reach_any s k' e
  | Miss_store | LAD_unlock | Delete_load | Delete_cas =>
      if is_lad (f_call f) then
        forall e, f_e f = Some e -> match f_rd_m f !! k with Some _ => pub_or_dead s k e | None => priv s e end
      else True
  | _ => True
  end.

(* a promotion is pending: there is a dirty map *)
Definition ref_prom (s : mstate) (f : frame) : Prop :=
  match f_pc f with Miss_store | Range_promote => dirty s <> None | _ => True end.

Definition ref_inv (s : mstate) (f : frame) : Prop := ref_e s f /\ ref_prom s f.

Definition lad_pc (l : label) : bool :=
  match l with Miss_store | LAD_unlock | Delete_load | Delete_cas => true | _ => false end.

(* the frame holds an entry it removed from the dirty map *)
Definition is_priv (f : frame) : bool :=
  lad_pc (f_pc f) && is_lad (f_call f) && bool_decide (f_rd_m f !! key_of (f_call f) = None).

Lemma ref_inv_stable s s' w f :
  WF_core s -> trans s s' w -> w_ok s w ->
  (is_priv f = true -> forall e, f_e f = Some e -> w <> Some e) ->
  (in_cs f = true -> sim s s') ->
  ref_inv s f -> ref_inv s' f.
Proof.
  intros Hc Ht Hw Hp Hcs [He Hm]. unfold ref_inv, ref_e, ref_prom, is_priv, in_cs, cs_class, lad_pc in *.
  destruct (f_pc f) eqn:Hpc; cbn in *; (split; [|first [exact I | destruct (Hcs eq_refl) as [_ _ _ Hd _]; rewrite Hd; exact Hm]]);
    try exact I.
  all: try (intros e Hfe; eapply pod_trans; eauto; fail).
  all: try (destruct (is_lad (f_call f)); [|exact I]; intros e Hfe; specialize (He e Hfe);
            destruct (f_rd_m f !! key_of (f_call f)); [eapply pod_trans; eauto|];
            eapply priv_trans; eauto; try (apply Hp; [|exact Hfe]; cbn; apply bool_decide_eq_true; reflexivity)).
  - (* StoreLocked *)
    destruct (Hcs eq_refl) as [_ Hr _ Hd _]. intros e Hfe. destruct (He e Hfe) as [k' Hk']. exists k'.
    unfold reach_any, dirty_lookup in *. rewrite Hr, Hd. exact Hk'.
  - intros e Hfe. specialize (He e Hfe). destruct (f_mode f); [eapply pod_trans; eauto| |];
      destruct (Hcs eq_refl) as [_ Hr _ Hd Hx]; unfold dirty_lookup in *; rewrite ?Hr, ?Hd, ?Hx; exact He.
  - intros e Hfe. specialize (He e Hfe). destruct (f_mode f); [eapply pod_trans; eauto| |];
      destruct (Hcs eq_refl) as [_ Hr _ Hd Hx]; unfold dirty_lookup in *; rewrite ?Hr, ?Hd, ?Hx; exact He.
  - intros e Hfe. specialize (He e Hfe). destruct (f_mode f); [eapply pod_trans; eauto| |];
      destruct (Hcs eq_refl) as [_ Hr _ Hd Hx]; unfold dirty_lookup in *; rewrite ?Hr, ?Hd, ?Hx; exact He.
Qed.

Definition w_just (s : mstate) (f : frame) (w : option nat) : Prop :=
  forall e, w = Some e -> (exists k, reach_any s k e) \/ (is_priv f = true /\ f_e f = Some e).
Definition priv_origin (s : mstate) (f f' : frame) : Prop :=
  is_priv f' = true -> forall e, f_e f' = Some e -> (is_priv f = true /\ f_e f = Some e) \/ (exists k, reach_any s k e).

Definition ref_post (s : mstate) (f : frame) (i' : inst) (o : outcome) : Prop :=
  exists w, trans s (i_st i') w /\ WF2 (i_st i') /\ w_just s f w /\
    match o with Continue f' => ref_inv (i_st i') f' /\ priv_origin s f f' | _ => True end.

Lemma ref_post_same s f i' o :
  i_st i' = s -> WF2 s ->
  match o with Continue f' => ref_inv s f' /\ priv_origin s f f' | _ => True end ->
  ref_post s f i' o.
Proof.
  intros E H2 Ho. exists None. rewrite E. split; [apply trans_refl|]. split; [exact H2|]. split; [intros e; discriminate|exact Ho].
Qed.

Lemma w_just_none s f : w_just s f None.
Proof. intros e; discriminate. Qed.

(* target pcs whose frame carries no reference obligation *)
Definition needs_ref (l : label) : bool :=
  match l with
  | TryStore_load | TryStore_cas | StoreLocked | Tlos_load1 | Tlos_cas | Tlos_load2
  | Miss_store | LAD_unlock | Delete_load | Delete_cas | Range_promote => true
  | _ => false
  end.

Lemma ref_triv s s0 f f' : needs_ref (f_pc f') = false -> ref_inv s f' /\ priv_origin s0 f f'.
Proof.
  intros H. unfold ref_inv, ref_e, ref_prom, priv_origin, is_priv.
  destruct (f_pc f'); try discriminate H; cbn; (split; [split; exact I|intros ?; discriminate]).
Qed.

Lemma needs_ref_amend c : needs_ref (amend_label c) = false.
Proof. destruct c; reflexivity. Qed.

Lemma needs_ref_post p l : post_label p = Some l -> needs_ref l = false.
Proof. destruct p; intros [= <-]; reflexivity. Qed.

Notation ref_goal l := (forall t i f ch i' o, frame_ok f -> frame_pc_ok f -> f_pc f = l -> WF_core (i_st i) ->
  (in_cs f = true -> WFL (i_st i) f) -> WF2 (i_st i) -> ref_inv (i_st i) f ->
  step_frame t i f ch = Some (Ok (i', o)) -> ref_post (i_st i) f i' o).

Ltac ref_start :=
  let Hc := fresh "Hc" in let Hw := fresh "Hw" in let H2 := fresh "H2" in
  let Hre := fresh "Hre" in let Hrp := fresh "Hrp" in let Hpk := fresh "Hpk" in
  intros t i f ch i' o [He Hst Hdel Hpost] Hpk Hpc Hc Hw H2 [Hre Hrp] H;
  unfold step_frame in H; rewrite Hpc in H;
  unfold ref_e in Hre; unfold ref_prom in Hrp; rewrite Hpc in Hre, Hrp, He; cbn in He;
  unfold frame_pc_ok in Hpk; rewrite Hpc in Hpk;
  unfold WFL, in_cs in Hw; unfold cs_class in Hw; rewrite Hpc in Hw; cbn in Hw.

Ltac ref_same H2 := apply ref_post_same; [reflexivity|exact H2|]; try exact I.
Ltac ref_easy H2 := repeat case_match; simplify_eq; ref_same H2; try (apply ref_triv; reflexivity).

Lemma ref_Load_read1 : ref_goal Load_read1. Proof. ref_start. ref_easy H2. Qed.
Lemma ref_Load_lock : ref_goal Load_lock. Proof. ref_start. ref_easy H2. Qed.
Lemma ref_Load_unlock : ref_goal Load_unlock. Proof. ref_start. ref_easy H2. Qed.
Lemma ref_E_load : ref_goal E_load.
Proof.
  ref_start. repeat case_match; simplify_eq; ref_same H2.
  all: unfold range_next; repeat case_match; simplify_eq; try exact I; apply ref_triv; reflexivity.
Qed.
Lemma ref_Store_lock : ref_goal Store_lock. Proof. ref_start. ref_easy H2. Qed.
Lemma ref_Store_unlock : ref_goal Store_unlock. Proof. ref_start. ref_easy H2. Qed.
Lemma ref_LOS_lock : ref_goal LOS_lock. Proof. ref_start. ref_easy H2. Qed.
Lemma ref_LAD_lock : ref_goal LAD_lock. Proof. ref_start. ref_easy H2. Qed.
Lemma ref_Range_read1 : ref_goal Range_read1.
Proof.
  ref_start. repeat case_match; simplify_eq; ref_same H2; try (apply ref_triv; reflexivity).
  all: unfold range_next; repeat case_match; simplify_eq; try exact I; apply ref_triv; reflexivity.
Qed.
Lemma ref_Range_lock : ref_goal Range_lock. Proof. ref_start. ref_easy H2. Qed.
Lemma ref_Range_unlock : ref_goal Range_unlock.
Proof.
  ref_start. simplify_eq. ref_same H2.
  all: unfold range_next; repeat case_match; simplify_eq; try exact I; apply ref_triv; reflexivity.
Qed.
Lemma ref_Range_iter : ref_goal Range_iter. Proof. ref_start. ref_easy H2. Qed.
Lemma ref_Dirty_iter : ref_goal Dirty_iter. Proof. ref_start. ref_easy H2. Qed.
Lemma ref_LOS_unlock : ref_goal LOS_unlock.
Proof.
  ref_start. simplify_eq. ref_same H2. unfold los_return. destruct (f_call f); try exact I.
  destruct (post_label p) eqn:Hp; [|exact I]. apply ref_triv. cbn. eapply needs_ref_post; eauto.
Qed.

Lemma priv_origin_nolad s f f' : lad_pc (f_pc f') = false -> priv_origin s f f'.
Proof. unfold priv_origin, is_priv. intros ->. discriminate. Qed.

Lemma trans_post_misses s s1 w m : trans s s1 w -> trans s (st_with_misses s1 m) w.
Proof. intros [T1 T2 T3 T4]. constructor; auto. Qed.

Lemma cas_ok_exp i e f : cas_ok i e f = true -> f_p f <> PExpunged -> is_exp (i_st i) e = false.
Proof. apply cas_ok_not_exp. Qed.

Lemma pod_live s k e : pub_or_dead s k e -> is_exp s e = false -> read_m s !! k = Some e.
Proof. intros [H|[H _]] He; [exact H|congruence]. Qed.

Lemma ref_Store_read1 : ref_goal Store_read1.
Proof.
  ref_start. repeat case_match; simplify_eq; ref_same H2; [|apply ref_triv; reflexivity].
  split; [split; [|exact I]|apply priv_origin_nolad; reflexivity].
  unfold ref_e; cbn. intros e [= <-]. left. assumption.
Qed.

Lemma ref_TryStore_load : ref_goal TryStore_load.
Proof.
  ref_start. repeat case_match; simplify_eq; ref_same H2; try (apply ref_triv; reflexivity).
  all: split; [split; [|exact I]|apply priv_origin_nolad; reflexivity]; unfold ref_e; cbn; intros e Hfe; apply Hre; congruence.
Qed.

Lemma ref_TryStore_cas : ref_goal TryStore_cas.
Proof.
  ref_start. repeat case_match; simplify_eq.
  - exists (Some n). split; [apply trans_set_ent|]. split; [apply WF2_set_ent; eauto|]. split; [|exact I].
    intros e [= <-]. left. exists (key_of (f_call f)). left. apply pod_live; [auto|].
    eapply cas_ok_exp; eauto.
  - ref_same H2. split; [split; [|exact I]|apply priv_origin_nolad; reflexivity]. unfold ref_e; cbn. intros e Hfe; apply Hre; congruence.
Qed.

Lemma ref_LOS_read1 : ref_goal LOS_read1.
Proof.
  ref_start. repeat case_match; simplify_eq; ref_same H2; [|apply ref_triv; reflexivity].
  split; [split; [|exact I]|apply priv_origin_nolad; reflexivity].
  unfold ref_e; cbn. intros e [= <-]. left. assumption.
Qed.

(* the frame after missLocked's private part *)
Lemma ref_after_miss s f0 i f w i' f' :
  trans s (i_st i) w -> WF2 (i_st i) -> w_just s f0 w -> dirty (i_st i) <> None ->
  (if is_lad (f_call f) then
     forall e, f_e f = Some e ->
       match f_rd_m f !! key_of (f_call f) with
       | Some _ => pub_or_dead (i_st i) (key_of (f_call f)) e
       | None => priv (i_st i) e
       end
   else True) ->
  priv_origin s f0 (set_pc f Miss_store) ->
  after_miss i f = (i', f') -> ref_post s f0 i' (Continue f').
Proof.
  intros Ht H2 Hw Hd Hre Hpo H. unfold after_miss in H.
  assert (X : forall l, (l = Miss_store \/ l = unlock_label (f_call f)) ->
              ref_inv (st_with_misses (i_st i) (misses (i_st i) + 1)) (set_pc f l) /\ priv_origin s f0 (set_pc f l)).
  { intros l [->| ->].
    - split; [split|exact Hpo]; [unfold ref_e; cbn; exact Hre|exact Hd].
    - destruct (f_call f) eqn:Hc; cbn; try (split; [split; exact I|apply priv_origin_nolad; reflexivity]).
      + split; [split; [|exact I]|]; [unfold ref_e; cbn; rewrite Hc; exact Hre|].
        unfold priv_origin, is_priv in *. cbn in *. rewrite Hc in *. exact Hpo.
      + split; [split; [|exact I]|]; [unfold ref_e; cbn; rewrite Hc; exact Hre|].
        unfold priv_origin, is_priv in *. cbn in *. rewrite Hc in *. exact Hpo. }
  exists w. case_match; simplify_eq; cbn.
  - split; [apply trans_post_misses, Ht|]. split; [apply WF2_misses, H2|]. split; [exact Hw|]. apply X. auto.
  - split; [apply trans_post_misses, Ht|]. split; [apply WF2_misses, H2|]. split; [exact Hw|]. apply X. auto.
Qed.

Lemma ref_Load_read2 : ref_goal Load_read2.
Proof.
  ref_start. specialize (Hw eq_refl). destruct Hw as [_ Hw]. repeat case_match; simplify_eq;
    try (ref_same H2; apply ref_triv; reflexivity).
  eapply ref_after_miss; [apply trans_refl|exact H2|apply w_just_none| | | |eassumption].
  - eapply wf_amended; eauto.
  - cbn. destruct (f_call f); try exact I; discriminate.
  - unfold priv_origin, is_priv. cbn. destruct (f_call f); try discriminate.
Qed.

Lemma ref_los_return s s0 f0 f a l :
  match los_return f a l with Continue f' => ref_inv s f' /\ priv_origin s0 f0 f' | _ => True end.
Proof.
  unfold los_return. destruct (f_call f); try exact I.
  destruct (post_label p) eqn:Hp; [|exact I]. apply ref_triv. cbn. eapply needs_ref_post; eauto.
Qed.

Lemma is_exp_of_ent i e : ent i e <> PExpunged -> is_exp (i_st i) e = false.
Proof. rewrite is_exp_ent. destruct (ent i e); congruence. Qed.

Lemma dirty_lookup_some s k e : dirty_lookup s k = Some e -> dirty s <> None.
Proof. unfold dirty_lookup. destruct (dirty s); congruence. Qed.

Lemma ref_tlos_load i f i' o :
  frame_ok f -> frame_pc_ok f -> (f_pc f = Tlos_load1 \/ f_pc f = Tlos_load2) -> WF2 (i_st i) -> ref_inv (i_st i) f ->
  match f_e f with
  | None => Some (Panic NilDeref)
  | Some e => match ent i e with
              | PExpunged => let '(i', o) := tlos_done i f 0 false false in Some (Ok (i', o))
              | PVal v => let '(i', o) := tlos_done i f v true true in Some (Ok (i', o))
              | PNil => Some (Ok (i, Continue (set_pc f Tlos_cas)))
              end
  end = Some (Ok (i', o)) -> ref_post (i_st i) f i' o.
Proof.
  intros [He Hst Hdel Hpost] Hpk Hpc H2 [Hre Hrp] H.
  assert (Hne : needs_e (f_pc f) = true) by (destruct Hpc as [-> | ->]; reflexivity).
  destruct (f_e f) as [e|] eqn:Hfe; [|discriminate].
  assert (Hre' : match f_mode f with
                 | MFast => pub_or_dead (i_st i) (key_of (f_call f)) e
                 | MLockedRead => read_m (i_st i) !! key_of (f_call f) = Some e /\ is_exp (i_st i) e = false
                 | MLockedDirty => read_m (i_st i) !! key_of (f_call f) = None /\ dirty_lookup (i_st i) (key_of (f_call f)) = Some e
                 end).
  { unfold ref_e in Hre. destruct Hpc as [Hpc|Hpc]; rewrite Hpc in Hre; apply Hre; exact Hfe. }
  assert (Hlos : is_lad (f_call f) = false).
  { unfold frame_pc_ok in Hpk. destruct Hpc as [Hpc|Hpc]; rewrite Hpc in Hpk; destruct (f_call f); try discriminate; reflexivity. }
  assert (Hsame : forall f1, f_mode f1 = f_mode f -> f_e f1 = f_e f -> f_call f1 = f_call f ->
            (f_pc f1 = Tlos_cas \/ f_pc f1 = Tlos_load2) -> ref_inv (i_st i) f1 /\ priv_origin (i_st i) f f1).
  { intros f1 E1 E2 E3 Hp1. split; [split|]; [| |apply priv_origin_nolad].
    - unfold ref_e. destruct Hp1 as [-> | ->]; rewrite E1, E2, E3; intros e0; rewrite Hfe; intros [= <-]; exact Hre'.
    - unfold ref_prom. destruct Hp1 as [-> | ->]; exact I.
    - destruct Hp1 as [-> | ->]; reflexivity. }
  assert (Hdone : forall a l ok i1 o1, tlos_done i f a l ok = (i1, o1) -> ref_post (i_st i) f i1 o1).
  { intros a l ok i1 o1 Hd. unfold tlos_done in Hd. destruct (f_mode f) eqn:Hm.
    - destruct ok; simplify_eq; ref_same H2; [apply ref_los_return|apply ref_triv; reflexivity].
    - simplify_eq. ref_same H2. apply ref_triv; reflexivity.
    - destruct (after_miss i (set_los f a l)) as [i2 f2] eqn:Eam. simplify_eq.
      eapply ref_after_miss; [apply trans_refl|exact H2|apply w_just_none| | | |exact Eam].
      + eapply dirty_lookup_some, Hre'.
      + cbn. rewrite Hlos. exact I.
      + unfold priv_origin, is_priv. cbn. rewrite Hlos. rewrite andb_false_r. discriminate. }
  destruct (ent i e) eqn:Hent.
  - simplify_eq. ref_same H2. apply Hsame; auto.
  - destruct (tlos_done i f 0 false false) as [i1 o1] eqn:Hd. simplify_eq. eapply Hdone; eauto.
  - destruct (tlos_done i f v true true) as [i1 o1] eqn:Hd. simplify_eq. eapply Hdone; eauto.
Qed.

Lemma ref_Tlos_load1 : ref_goal Tlos_load1.
Proof.
  intros t i f ch i' o Hok Hpk Hpc Hc Hw H2 Hr H. unfold step_frame in H. rewrite Hpc in H.
  eapply ref_tlos_load; eauto.
Qed.
Lemma ref_Tlos_load2 : ref_goal Tlos_load2.
Proof.
  intros t i f ch i' o Hok Hpk Hpc Hc Hw H2 Hr H. unfold step_frame in H. rewrite Hpc in H.
  eapply ref_tlos_load; eauto.
Qed.

Lemma ref_Tlos_cas : ref_goal Tlos_cas.
Proof.
  ref_start. destruct (f_e f) as [e|] eqn:Hfe; [|discriminate]. specialize (Hre e eq_refl).
  assert (Hlos : is_lad (f_call f) = false) by (destruct (f_call f); try discriminate; reflexivity).
  destruct (ent i e) eqn:Hent; simplify_eq.
  - (* the CAS succeeds *)
    assert (Hex : is_exp (i_st i) e = false) by (apply is_exp_of_ent; congruence).
    assert (Hreach : exists k, reach_any (i_st i) k e).
    { exists (key_of (f_call f)). destruct (f_mode f); [left; apply pod_live; auto|left; apply Hre|right; apply Hre]. }
    assert (Hwj : w_just (i_st i) f (Some e)) by (intros e0 [= <-]; left; exact Hreach).
    assert (H2' : WF2 (i_st (put_ent i e (PVal (val_of (f_call f)))))) by (apply WF2_set_ent; eauto).
    unfold tlos_done in H. destruct (f_mode f) eqn:Hm.
    + simplify_eq. exists (Some e). split; [apply trans_set_ent|]. split; [exact H2'|]. split; [exact Hwj|].
      apply ref_los_return.
    + simplify_eq. exists (Some e). split; [apply trans_set_ent|]. split; [exact H2'|]. split; [exact Hwj|].
      apply ref_triv; reflexivity.
    + destruct (after_miss _ _) as [i2 f2] eqn:Eam. simplify_eq.
      eapply (ref_after_miss _ _ (put_ent i e (PVal (val_of (f_call f)))) _ (Some e)); [apply trans_set_ent|exact H2'|exact Hwj| | | |exact Eam].
      * cbn. eapply dirty_lookup_some, Hre.
      * cbn. rewrite Hlos. exact I.
      * unfold priv_origin, is_priv. cbn. rewrite Hlos. rewrite andb_false_r. discriminate.
  - ref_same H2. split; [split; [|exact I]|apply priv_origin_nolad; reflexivity].
    unfold ref_e; cbn. intros e0. rewrite Hfe. intros [= <-]. exact Hre.
  - ref_same H2. split; [split; [|exact I]|apply priv_origin_nolad; reflexivity].
    unfold ref_e; cbn. intros e0. rewrite Hfe. intros [= <-]. exact Hre.
Qed.

Lemma ref_Store_read2 : ref_goal Store_read2.
Proof.
  ref_start. destruct (Hw eq_refl) as [_ Hwa]. unfold new_entry, dirty_insert, bind in H. cbn in H.
  repeat case_match; simplify_eq; try (ref_same H2; apply ref_triv; reflexivity).
  - (* found in dirty: storeLocked *)
    ref_same H2. split; [split; [|exact I]|apply priv_origin_nolad; reflexivity].
    unfold ref_e; cbn. intros e [= <-]. exists (key_of (f_call f)). right. assumption.
  - (* new key, amended *)
    exists None. cbn. split; [apply trans_insert_new; auto|]. split; [apply WF2_insert_new; auto|].
    split; [apply w_just_none|]. apply ref_triv; reflexivity.
Qed.

Lemma ref_LOS_read2 : ref_goal LOS_read2.
Proof.
  ref_start. destruct (Hw eq_refl) as [_ Hwa]. unfold new_entry, dirty_insert, bind in H. cbn in H.
  repeat case_match; simplify_eq; try (ref_same H2; apply ref_triv; reflexivity).
  - (* found in dirty: tryLoadOrStore under the lock *)
    ref_same H2. split; [split; [|exact I]|apply priv_origin_nolad; reflexivity].
    unfold ref_e; cbn. intros e [= <-]. auto.
  - exists None. cbn. split; [apply trans_insert_new; auto|]. split; [apply WF2_insert_new; auto|].
    split; [apply w_just_none|]. apply ref_triv; reflexivity.
Qed.

Lemma ref_unexp_next s s0 f e :
  f_e f = Some e -> read_m s !! key_of (f_call f) = Some e -> is_exp s e = false ->
  let next := match f_call f with
              | CStore _ _ _ => set_pc f StoreLocked
              | _ => set_pc (set_mode f MLockedRead) Tlos_load1
              end in
  ref_inv s next /\ priv_origin s0 f next.
Proof.
  intros Hfe Hk Hex. destruct (f_call f) eqn:Hc; cbn in *;
    (split; [split; [|exact I]|apply priv_origin_nolad; reflexivity]); unfold ref_e; cbn; rewrite ?Hc; cbn; rewrite Hfe; intros e0 [= <-];
    eauto.
  exists k. left. exact Hk.
Qed.

Lemma ref_Unexpunge_cas : ref_goal Unexpunge_cas.
Proof.
  ref_start. destruct (Hw eq_refl) as [Hc' [Hwa Hk]].
  destruct (f_e f) as [e|] eqn:Hfe; [|discriminate].
  destruct (ent i e) eqn:Hent; simplify_eq.
  - ref_same H2. apply (ref_unexp_next _ _ f e); auto. apply is_exp_of_ent. congruence.
  - destruct (WF_unexpunge (i_st i) (key_of (f_call f)) e) as (d & Hd & _); auto.
    { rewrite is_exp_ent, Hent. reflexivity. }
    unfold dirty_insert, bind in H. cbn in H. rewrite Hd in H. simplify_eq.
    exists (Some e). cbn. split; [apply trans_unexpunge; auto|]. split.
    { apply WF2_unexpunge; auto. rewrite is_exp_ent, Hent. reflexivity. }
    split; [intros e0 [= <-]; left; exists (key_of (f_call f)); left; exact Hk|].
    apply (ref_unexp_next _ _ f e); auto. rewrite is_exp_mk, exps_insert, decide_True by reflexivity. reflexivity.
  - ref_same H2. apply (ref_unexp_next _ _ f e); auto. apply is_exp_of_ent. congruence.
Qed.

Lemma ref_StoreLocked : ref_goal StoreLocked.
Proof.
  ref_start. destruct (f_e f) as [e|] eqn:Hfe; [|discriminate]. simplify_eq.
  exists (Some e). split; [apply trans_set_ent|]. split; [apply WF2_set_ent; eauto|].
  split; [intros e0 [= <-]; left; apply Hre; reflexivity|]. apply ref_triv; reflexivity.
Qed.

Lemma ref_amend i f i' o :
  WF_core (i_st i) -> WF2 (i_st i) ->
  loop_inv (i_st i) (f_rd_m f) (key_of (f_call f)) (f_visited f) ->
  (let s := i_st i in
   let s0 := st_with_read s (f_rd_m f) true in
   let '(s1, e1) := new_entry s0 (val_of (f_call f)) in
   Some (do s2 <- dirty_insert s1 (key_of (f_call f)) e1;
         Ok (with_st i s2,
             match f_call f with
             | CStore _ _ _ => Continue (set_pc f Store_unlock)
             | _ => Continue (set_pc (set_los f (val_of (f_call f)) false) LOS_unlock)
             end))) = Some (Ok (i', o)) -> ref_post (i_st i) f i' o.
Proof.
  intros Hc H2 (L1 & L2 & L3 & d & L4 & L5 & L6) H.
  unfold new_entry, dirty_insert, bind in H. cbn in H. rewrite L4 in H. simplify_eq.
  exists None. cbn. split; [apply trans_insert_new; auto|]. split; [apply WF2_insert_new; auto|].
  split; [apply w_just_none|]. destruct (f_call f); apply ref_triv; reflexivity.
Qed.

Lemma ref_Store_amend : ref_goal Store_amend.
Proof.
  intros t i f ch i' o Hok Hpk Hpc Hc Hw H2 Hr H. unfold step_frame in H. rewrite Hpc in H.
  unfold WFL, in_cs in Hw; unfold cs_class in Hw; rewrite Hpc in Hw; cbn in Hw. destruct (Hw eq_refl) as [_ [Hl _]].
  eapply ref_amend; eauto.
Qed.
Lemma ref_LOS_amend : ref_goal LOS_amend.
Proof.
  intros t i f ch i' o Hok Hpk Hpc Hc Hw H2 Hr H. unfold step_frame in H. rewrite Hpc in H.
  unfold WFL, in_cs in Hw; unfold cs_class in Hw; rewrite Hpc in Hw; cbn in Hw. destruct (Hw eq_refl) as [_ [Hl _]].
  eapply ref_amend; eauto.
Qed.

Lemma needs_ref_dirty_next f : needs_ref (f_pc (dirty_next f)) = false.
Proof. unfold dirty_next. destruct (unvisited _ _); cbn; [apply needs_ref_amend|reflexivity]. Qed.

Lemma ref_Dirty_read : ref_goal Dirty_read.
Proof.
  ref_start. destruct (Hw eq_refl) as [_ (Hwa & Hd & Hk)]. simplify_eq.
  exists None. cbn. split; [apply trans_dirty_read; auto|]. split; [apply WF2_dirty_read|].
  split; [apply w_just_none|]. apply ref_triv. apply needs_ref_dirty_next.
Qed.

Lemma ref_expunge_load i f i' o :
  frame_ok f -> needs_e (f_pc f) = true -> WF2 (i_st i) ->
  (exists vis, f_visited f = f_curk f :: vis /\ f_curk f ∉ vis /\ f_rd_m f !! f_curk f = f_e f /\
               loop_inv (i_st i) (f_rd_m f) (key_of (f_call f)) vis) ->
  match f_e f with
  | None => Some (Panic NilDeref)
  | Some e => match ent i e with
              | PNil => Some (Ok (i, Continue (set_pc f Expunge_cas)))
              | PExpunged => Some (do r <- expunge_done i f e true; Ok (r.1, Continue r.2))
              | PVal _ => Some (do r <- expunge_done i f e false; Ok (r.1, Continue r.2))
              end
  end = Some (Ok (i', o)) -> ref_post (i_st i) f i' o.
Proof.
  intros [He Hst Hdel Hpost] Hne H2 (vis & Hv & Hnv & Hcur & Hl) H.
  destruct (f_e f) as [e|] eqn:Hfe; [|discriminate].
  assert (Hrk : read_m (i_st i) !! f_curk f = Some e). { destruct Hl as [<- _]. exact Hcur. }
  destruct (ent i e) eqn:Hent; simplify_eq.
  - ref_same H2. apply ref_triv; reflexivity.
  - cbn in H. simplify_eq. ref_same H2. apply ref_triv, needs_ref_dirty_next.
  - unfold expunge_done, bind in H. destruct (dirty_insert (i_st i) (f_curk f) e) as [s'|] eqn:Hs'; [|discriminate].
    cbn in H. simplify_eq. exists None. cbn.
    split; [eapply trans_loop_copy; eauto|]. split; [eapply WF2_loop_copy; eauto|].
    split; [apply w_just_none|]. apply ref_triv, needs_ref_dirty_next.
Qed.

Lemma ref_Expunge_load1 : ref_goal Expunge_load1.
Proof.
  intros t i f ch i' o Hok Hpk Hpc Hc Hw H2 Hr H. unfold step_frame in H. rewrite Hpc in H.
  unfold WFL, in_cs in Hw; unfold cs_class in Hw; rewrite Hpc in Hw; cbn in Hw. destruct (Hw eq_refl) as [_ Hl].
  eapply ref_expunge_load; eauto. rewrite Hpc. reflexivity.
Qed.
Lemma ref_Expunge_load2 : ref_goal Expunge_load2.
Proof.
  intros t i f ch i' o Hok Hpk Hpc Hc Hw H2 Hr H. unfold step_frame in H. rewrite Hpc in H.
  unfold WFL, in_cs in Hw; unfold cs_class in Hw; rewrite Hpc in Hw; cbn in Hw. destruct (Hw eq_refl) as [_ Hl].
  eapply ref_expunge_load; eauto. rewrite Hpc. reflexivity.
Qed.

Lemma ref_Expunge_cas : ref_goal Expunge_cas.
Proof.
  ref_start. destruct (Hw eq_refl) as [_ (vis & Hv & Hnv & Hcur & Hl)].
  destruct (f_e f) as [e|] eqn:Hfe; [|discriminate].
  assert (Hrk : read_m (i_st i) !! f_curk f = Some e). { destruct Hl as [<- _]. exact Hcur. }
  destruct (ent i e) eqn:Hent; simplify_eq; try (ref_same H2; apply ref_triv; reflexivity).
  cbn in H. simplify_eq. exists (Some e). split; [apply trans_set_ent|]. split; [apply WF2_set_ent; eauto|].
  split; [intros e0 [= <-]; left; exists (f_curk f); left; exact Hrk|]. apply ref_triv, needs_ref_dirty_next.
Qed.

Lemma w_ok_none s : w_ok s None.
Proof. intros e; discriminate. Qed.

Lemma ref_Miss_store : ref_goal Miss_store.
Proof.
  ref_start. destruct (Hw eq_refl) as [_ Hwa]. destruct (dirty (i_st i)) as [d|] eqn:Hd; [|congruence]. simplify_eq.
  assert (Ht : trans (i_st i) (MState (ents (i_st i)) (next_e (i_st i)) (default ∅ (dirty (i_st i))) false None 0) None)
    by (eapply trans_promote; eauto).
  rewrite Hd in Ht. cbn in Ht.
  exists None. cbn. split; [exact Ht|]. split; [intros k e Hk; discriminate|]. split; [apply w_just_none|].
  destruct (f_call f) eqn:Hcall; cbn in *; try (apply ref_triv; reflexivity).
  - split; [split; [|exact I]|].
    + unfold ref_e; cbn. rewrite Hcall. cbn. intros e Hfe. specialize (Hre e Hfe).
      destruct (f_rd_m f !! k); [eapply pod_trans; eauto using w_ok_none|eapply priv_trans; eauto; discriminate].
    + unfold priv_origin, is_priv. cbn. rewrite Hcall, Hpc. cbn. intros Hp e Hfe. left. auto.
  - split; [split; [|exact I]|].
    + unfold ref_e; cbn. rewrite Hcall. cbn. intros e Hfe. specialize (Hre e Hfe).
      destruct (f_rd_m f !! k); [eapply pod_trans; eauto using w_ok_none|eapply priv_trans; eauto; discriminate].
    + unfold priv_origin, is_priv. cbn. rewrite Hcall, Hpc. cbn. intros Hp e Hfe. left. auto.
Qed.

Lemma ref_Range_read2 : ref_goal Range_read2.
Proof.
  ref_start. destruct (Hw eq_refl) as [_ Hwa]. repeat case_match; simplify_eq; ref_same H2; [|apply ref_triv; reflexivity].
  split; [split; [exact I|]|apply priv_origin_nolad; reflexivity]. cbn. eapply wf_amended; eauto.
Qed.

Lemma ref_Range_promote : ref_goal Range_promote.
Proof.
  ref_start. destruct (Hw eq_refl) as [_ Hwa]. destruct (dirty (i_st i)) as [d|] eqn:Hd; [|congruence]. simplify_eq.
  assert (Ht : trans (i_st i) (MState (ents (i_st i)) (next_e (i_st i)) (default ∅ (dirty (i_st i))) false None 0) None)
    by (eapply trans_promote; eauto).
  rewrite Hd in Ht. cbn in Ht.
  exists None. cbn. split; [exact Ht|]. split; [intros k e Hk; discriminate|]. split; [apply w_just_none|].
  apply ref_triv; reflexivity.
Qed.

Lemma is_lad_pc_ok c l : pc_ok c l = true ->
  (l = LAD_read1 \/ l = LAD_lock \/ l = LAD_read2 \/ l = LAD_unlock \/ l = Delete_load \/ l = Delete_cas) -> is_lad c = true.
Proof. intros H Hl. destruct c; try reflexivity; destruct Hl as [->|[->|[->|[->|[->| ->]]]]]; discriminate. Qed.

Lemma ref_LAD_read1 : ref_goal LAD_read1.
Proof.
  ref_start. assert (Hlad : is_lad (f_call f) = true) by (eapply is_lad_pc_ok; eauto).
  repeat case_match; simplify_eq; ref_same H2; try (apply ref_triv; reflexivity).
  split; [split; [|exact I]|].
  - unfold ref_e; cbn. rewrite Hlad. intros e [= <-]. rewrite H0. left. assumption.
  - unfold priv_origin, is_priv. cbn. rewrite H0. rewrite bool_decide_eq_false_2 by discriminate. rewrite andb_false_r. discriminate.
Qed.

Lemma ref_LAD_read2 : ref_goal LAD_read2.
Proof.
  ref_start. destruct (Hw eq_refl) as [_ Hwa]. assert (Hlad : is_lad (f_call f) = true) by (eapply is_lad_pc_ok; eauto 10).
  destruct (read_m (i_st i) !! key_of (f_call f)) as [e0|] eqn:Hk.
  - simplify_eq. ref_same H2. split; [split; [|exact I]|].
    + unfold ref_e; cbn. rewrite Hlad. intros e [= <-]. rewrite Hk. left. assumption.
    + unfold priv_origin, is_priv. cbn. rewrite Hk. rewrite bool_decide_eq_false_2 by discriminate. rewrite andb_false_r. discriminate.
  - destruct (amended (i_st i)) eqn:Ham.
    + destruct (after_miss _ _) as [i2 f2] eqn:Eam. simplify_eq.
      assert (Hd : dirty (i_st i) <> None) by (eapply wf_amended; eauto).
      eapply (ref_after_miss _ _ (with_st i (dirty_delete (i_st i) (key_of (f_call f)))) _ None);
        [apply trans_dirty_delete|apply WF2_dirty_delete, H2|apply w_just_none| | | |exact Eam].
      * cbn. unfold dirty_delete. destruct (dirty (i_st i)); [discriminate|congruence].
      * cbn. rewrite Hlad. intros e He0. rewrite Hk. apply priv_dirty_delete; auto.
      * unfold priv_origin, is_priv. cbn. intros _ e He0. right. exists (key_of (f_call f)). right. exact He0.
    + simplify_eq. ref_same H2. split; [split; [|exact I]|].
      * unfold ref_e; cbn. rewrite Hlad. intros e [=].
      * unfold priv_origin. cbn. intros _ e [=].
Qed.

Lemma ref_lad_same s f f' :
  is_lad (f_call f) = true -> lad_pc (f_pc f) = true ->
  (f_pc f' = Delete_load \/ f_pc f' = Delete_cas) -> f_call f' = f_call f -> f_e f' = f_e f -> f_rd_m f' = f_rd_m f ->
  ref_e s f -> ref_inv s f' /\ priv_origin s f f'.
Proof.
  intros Hlad Hpcf Hpc' Hc He Hr Hre. split; [split|].
  - unfold ref_e in *. rewrite Hlad in Hre. 
    assert (X : forall e, f_e f = Some e -> match f_rd_m f !! key_of (f_call f) with Some _ => pub_or_dead s (key_of (f_call f)) e | None => priv s e end).
    { destruct (f_pc f); try discriminate Hpcf; exact Hre. }
    destruct Hpc' as [-> | ->]; rewrite Hc, He, Hr, Hlad; exact X.
  - unfold ref_prom. destruct Hpc' as [-> | ->]; exact I.
  - unfold priv_origin, is_priv. rewrite Hc, He, Hr, Hlad, Hpcf. destruct Hpc' as [-> | ->]; cbn; intros Hp e Hfe; left; auto.
Qed.

Lemma ref_LAD_unlock : ref_goal LAD_unlock.
Proof.
  intros t i f ch i' o Hok Hpk Hpc Hc Hw H2 [Hre Hrp] H. unfold step_frame in H. rewrite Hpc in H.
  assert (Hlad : is_lad (f_call f) = true) by (unfold frame_pc_ok in Hpk; rewrite Hpc in Hpk; eapply is_lad_pc_ok; eauto 10).
  repeat case_match; simplify_eq; ref_same H2.
  apply ref_lad_same; auto. rewrite Hpc. reflexivity.
Qed.

Lemma ref_Delete_load : ref_goal Delete_load.
Proof.
  intros t i f ch i' o Hok Hpk Hpc Hc Hw H2 [Hre Hrp] H. unfold step_frame in H. rewrite Hpc in H.
  assert (Hlad : is_lad (f_call f) = true) by (unfold frame_pc_ok in Hpk; rewrite Hpc in Hpk; eapply is_lad_pc_ok; eauto 10).
  repeat case_match; simplify_eq; ref_same H2.
  apply ref_lad_same; auto. rewrite Hpc. reflexivity.
Qed.

Lemma ref_Delete_cas : ref_goal Delete_cas.
Proof.
  intros t i f ch i' o [He Hst Hdel Hpost] Hpk Hpc Hc Hw H2 [Hre Hrp] H. unfold step_frame in H. rewrite Hpc in H.
  assert (Hlad : is_lad (f_call f) = true) by (unfold frame_pc_ok in Hpk; rewrite Hpc in Hpk; eapply is_lad_pc_ok; eauto 10).
  destruct (f_e f) as [e|] eqn:Hfe; [|discriminate].
  destruct (cas_ok i e f) eqn:Hcas; simplify_eq.
  - destruct (Hdel Hpc) as [v Hv].
    assert (Hex : is_exp (i_st i) e = false) by (eapply cas_ok_exp; eauto; congruence).
    unfold ref_e in Hre. rewrite Hpc, Hlad in Hre. specialize (Hre e Hfe).
    exists (Some e). split; [apply trans_set_ent|].
    destruct (f_rd_m f !! key_of (f_call f)) eqn:Hrd.
    + pose proof (pod_live _ _ _ Hre Hex) as Hk.
      split; [apply WF2_set_ent; eauto|]. split; [|exact I].
      intros e0 [= <-]. left. exists (key_of (f_call f)). left. exact Hk.
    + destruct Hre as (_ & Hu & _). split; [apply WF2_set_ent; eauto|]. split; [|exact I].
      intros e0 [= <-]. right. split; [|exact Hfe]. unfold is_priv. rewrite Hpc, Hlad, Hrd. reflexivity.
  - ref_same H2. apply ref_lad_same; auto. rewrite Hpc. reflexivity.
Qed.

Lemma sf_ref t i f ch i' o :
  frame_ok f -> frame_pc_ok f -> WF_core (i_st i) -> (in_cs f = true -> WFL (i_st i) f) -> WF2 (i_st i) ->
  ref_inv (i_st i) f -> step_frame t i f ch = Some (Ok (i', o)) -> ref_post (i_st i) f i' o.
Proof.
  intros Hok Hpk Hc Hw H2 Hr H.
  destruct (f_pc f) eqn:Hpc;
  first
    [ eapply ref_Load_read1; eassumption | eapply ref_Load_lock; eassumption | eapply ref_Load_read2; eassumption
    | eapply ref_Load_unlock; eassumption | eapply ref_E_load; eassumption
    | eapply ref_Store_read1; eassumption | eapply ref_Store_lock; eassumption | eapply ref_Store_read2; eassumption
    | eapply ref_Store_amend; eassumption | eapply ref_Store_unlock; eassumption
    | eapply ref_TryStore_load; eassumption | eapply ref_TryStore_cas; eassumption
    | eapply ref_Unexpunge_cas; eassumption | eapply ref_StoreLocked; eassumption
    | eapply ref_LOS_read1; eassumption | eapply ref_LOS_lock; eassumption | eapply ref_LOS_read2; eassumption
    | eapply ref_LOS_amend; eassumption | eapply ref_LOS_unlock; eassumption
    | eapply ref_Tlos_load1; eassumption | eapply ref_Tlos_cas; eassumption | eapply ref_Tlos_load2; eassumption
    | eapply ref_LAD_read1; eassumption | eapply ref_LAD_lock; eassumption | eapply ref_LAD_read2; eassumption
    | eapply ref_LAD_unlock; eassumption | eapply ref_Delete_load; eassumption | eapply ref_Delete_cas; eassumption
    | eapply ref_Range_read1; eassumption | eapply ref_Range_lock; eassumption | eapply ref_Range_read2; eassumption
    | eapply ref_Range_promote; eassumption | eapply ref_Range_unlock; eassumption | eapply ref_Range_iter; eassumption
    | eapply ref_Miss_store; eassumption | eapply ref_Dirty_read; eassumption | eapply ref_Dirty_iter; eassumption
    | eapply ref_Expunge_load1; eassumption | eapply ref_Expunge_cas; eassumption | eapply ref_Expunge_load2; eassumption
    | unfold step_frame in H; rewrite Hpc in H; discriminate H ].
Qed.

(* ---- the stack of the stepping thread after a step, precisely ---- *)
Definition resumed (p : frame) (rest' st' : list frame) : Prop :=
  exists out a, st' = set_pc (set_out p out a) Range_iter :: rest'.
Definition ret_stack (rest st' : list frame) : Prop :=
  st' = [] \/ (exists c, st' = [new_frame c]) \/ (exists p rest', rest = p :: rest' /\ resumed p rest' st').
Definition stack_after2 (rest : list frame) (o : outcome) (st' : list frame) : Prop :=
  match o with
  | Continue f' => st' = f' :: rest
  | Return _ => ret_stack rest st'
  | Callback f' _ _ =>
      ret_stack rest st' \/ resumed f' rest st' \/
      (exists c out a, st' = new_frame c :: set_out f' out a :: rest)
  end.

Lemma next_call_stack prog res b :
  t_stack (next_call (Thread prog [] res b)) = [] \/ exists c, t_stack (next_call (Thread prog [] res b)) = [new_frame c].
Proof. unfold next_call. cbn. destruct prog; cbn; eauto. Qed.

Lemma do_return_stack th r rest th' rs : do_return th r rest = (th', rs) -> ret_stack rest (t_stack th').
Proof.
  unfold do_return, ret_stack. destruct rest as [|p rest'].
  - intros [= <- <-]. destruct (next_call_stack (t_prog th) (t_results th ++ [r]) false); auto.
  - match goal with |- context [range_next ?x false] => destruct (range_next_cases x false) as [[r' ->]| ->] end.
    + intros [= <- <-]. destruct (next_call_stack (t_prog th) (t_results th ++ [r']) false); auto.
    + intros [= <- <-]. right. right. exists p, rest'. split; [reflexivity|]. cbn. unfold resumed. eauto.
Qed.

Lemma fin_stack c t th f rest insts um o c' :
  fin c t th f rest insts um (Ok o) = Some c' ->
  exists th', c_threads c' = set_nth_list t th' (c_threads c) /\ stack_after2 rest o (t_stack th').
Proof.
  unfold fin. intros H. destruct o as [f'|r|f' k v].
  - simplify_eq. cbn. eauto.
  - destruct (do_return _ _ rest) as [th' rs] eqn:E. simplify_eq. cbn. apply do_return_stack in E. eauto.
  - destruct (cb_of (f_call f')) as [n|j|j] eqn:Ecb.
    + match type of H with context [range_next ?x ?y] => destruct (range_next_cases x y) as [[r' Hr]| Hr]; rewrite Hr in H end.
      * destruct (do_return _ _ rest) as [th' rs] eqn:E. simplify_eq. cbn. apply do_return_stack in E. eauto.
      * simplify_eq. cbn. eexists. split; [reflexivity|]. right. left. unfold resumed. cbn. eauto.
    + simplify_eq. cbn. eexists. split; [reflexivity|]. right. right. cbn. eauto.
    + simplify_eq. cbn. eexists. split; [reflexivity|]. right. right. cbn. eauto.
Qed.

Lemma fin_panic c t th f rest insts um k c' :
  fin c t th f rest insts um (Panic k) = Some c' ->
  exists th', c_threads c' = set_nth_list t th' (c_threads c) /\ t_stack th' = [].
Proof. unfold fin. intros H. simplify_eq. cbn. eauto. Qed.

Lemma fin_insts c t th f rest insts um ro c' : fin c t th f rest insts um ro = Some c' -> c_insts c' = insts.
Proof. intros H. apply fin_shape in H as (H & _). exact H. Qed.

Lemma sf_callback t i f ch i' f' k v :
  step_frame t i f ch = Some (Ok (i', Callback f' k v)) ->
  f' = f /\ f_pc f = E_load /\ (exists j cb, f_call f = CRange j cb) /\ i' = i.
Proof.
  intros H. unfold step_frame in H.
  destruct (f_pc f) eqn:Hpc;
    unfold expunge_done, tlos_done, bind in H; unfold after_miss, dirty_next, los_return, range_next in H;
    repeat case_match; simplify_eq. eauto 10.
Qed.

(* one step, taken apart once and for all *)
Lemma step_cases c t ch c' :
  step c t ch = Some c' ->
  exists th f rest th',
    nth_error (c_threads c) t = Some th /\ t_stack th = f :: rest /\
    c_threads c' = set_nth_list t th' (c_threads c) /\
    ((is_post_label (f_pc f) = true /\ c_insts c' = c_insts c /\ ret_stack rest (t_stack th')) \/
     (is_post_label (f_pc f) = false /\
      exists i r, nth_error (c_insts c) (call_inst (f_call f)) = Some i /\ step_frame t i f ch = Some r /\
        match r with
        | Panic _ => c_insts c' = c_insts c /\ t_stack th' = []
        | Ok (i', o) => c_insts c' = set_nth_list (call_inst (f_call f)) i' (c_insts c) /\
                        stack_after2 rest o (t_stack th')
        end)).
Proof.
  intros H. rewrite step_unfold in H.
  destruct (c_panicked c); [discriminate|].
  destruct (nth_error (c_threads c) t) as [th|] eqn:Hth; [|discriminate].
  destruct (t_stack th) as [|f rest] eqn:Hst; [discriminate|].
  exists th, f, rest.
  destruct (is_post_label (f_pc f)) eqn:Hpl.
  - destruct (step_post (c_um c) f) as [[[um' o]|k]|] eqn:Hsp; [| |discriminate].
    + destruct (step_post_return _ _ _ _ Hsp) as [r ->]. pose proof (fin_insts _ _ _ _ _ _ _ _ _ H) as Hi.
      apply fin_stack in H as (th' & E & Hs). exists th'. split; [reflexivity|]. split; [exact Hst|]. split; [exact E|]. left. auto.
    + pose proof (fin_insts _ _ _ _ _ _ _ _ _ H) as Hi.
      apply fin_panic in H as (th' & E & Hs). exists th'. split; [reflexivity|]. split; [exact Hst|]. split; [exact E|]. left.
      split; [reflexivity|]. split; [exact Hi|]. left. exact Hs.
  - destruct (nth_error (c_insts c) (call_inst (f_call f))) as [i|] eqn:Hi; [|discriminate].
    destruct (step_frame t i f ch) as [[[i' o]|k]|] eqn:Hsf; [| |discriminate].
    + pose proof (fin_insts _ _ _ _ _ _ _ _ _ H) as Hi'.
      apply fin_stack in H as (th' & E & Hs). exists th'. split; [reflexivity|]. split; [exact Hst|]. split; [exact E|]. right.
      split; [reflexivity|]. exists i, (Ok (i', o)). auto.
    + pose proof (fin_insts _ _ _ _ _ _ _ _ _ H) as Hi'.
      apply fin_panic in H as (th' & E & Hs). exists th'. split; [reflexivity|]. split; [exact Hst|]. split; [exact E|]. right.
      split; [reflexivity|]. exists i, (Panic k). auto.
Qed.

(* ------------------------------------------------------------------ *)
(* the second invariant of configurations                             *)
(* ------------------------------------------------------------------ *)
Definition is_range (c : call) : bool := match c with CRange _ _ => true | _ => false end.

Record Inv2 (c : config) : Prop := {
  i2_pc : forall t f, top_frame c t = Some f -> frame_pc_ok f;
  i2_ref : forall t f i, top_frame c t = Some f -> nth_error (c_insts c) (call_inst (f_call f)) = Some i ->
           ref_inv (i_st i) f;
  i2_wf2 : forall j i, nth_error (c_insts c) j = Some i -> WF2 (i_st i);
  (* two threads never hold the same removed entry *)
  i2_priv : forall t1 t2 f1 f2 e, t1 <> t2 -> top_frame c t1 = Some f1 -> top_frame c t2 = Some f2 ->
            call_inst (f_call f1) = call_inst (f_call f2) -> is_priv f1 = true -> is_priv f2 = true ->
            f_e f1 = Some e -> f_e f2 = Some e -> False;
  i2_parents : forall t th, nth_error (c_threads c) t = Some th ->
               Forall (fun p => is_range (f_call p) = true) (tail (t_stack th))
}.

Lemma is_priv_priv s f e : is_priv f = true -> ref_inv s f -> f_e f = Some e -> priv s e.
Proof.
  unfold is_priv, ref_inv, ref_e. intros Hp [Hre _] Hfe.
  apply andb_true_iff in Hp as [Hp Hn]. apply andb_true_iff in Hp as [Hpc Hlad].
  apply bool_decide_eq_true in Hn. rewrite Hlad, Hn in Hre.
  destruct (f_pc f); try discriminate Hpc; apply Hre, Hfe.
Qed.

Lemma Inv_WF_core c j i : Inv c -> nth_error (c_insts c) j = Some i -> WF_core (i_st i).
Proof.
  intros HI Hi. destruct (inv_insts c HI j i Hi) as [Hm Hw]. destruct (i_mu i) as [t|] eqn:E.
  - destruct (proj1 (Hm t) eq_refl) as (f & Hf & _). destruct (Hw f Hf) as [Hc _]. exact Hc.
  - apply Hw.
Qed.

Lemma Inv2_step_gen c c' t th f rest th' j0 :
  Inv2 c -> nth_error (c_threads c) t = Some th -> t_stack th = f :: rest -> call_inst (f_call f) = j0 ->
  c_threads c' = set_nth_list t th' (c_threads c) ->
  (forall j, j <> j0 -> nth_error (c_insts c') j = nth_error (c_insts c) j) ->
  Forall (fun p => is_range (f_call p) = true) (tail (t_stack th')) ->
  (forall i', nth_error (c_insts c') j0 = Some i' -> exists i w,
     nth_error (c_insts c) j0 = Some i /\ WF_core (i_st i) /\ trans (i_st i) (i_st i') w /\ WF2 (i_st i') /\
     w_just (i_st i) f w /\
     (forall t2 f2, t2 <> t -> top_frame c t2 = Some f2 -> call_inst (f_call f2) = j0 -> in_cs f2 = true ->
        sim (i_st i) (i_st i'))) ->
  (forall f0, head (t_stack th') = Some f0 ->
     frame_pc_ok f0 /\
     (forall i', nth_error (c_insts c') (call_inst (f_call f0)) = Some i' -> ref_inv (i_st i') f0) /\
     (is_priv f0 = true -> call_inst (f_call f0) = j0 /\
        exists i, nth_error (c_insts c) j0 = Some i /\ priv_origin (i_st i) f f0)) ->
  Inv2 c'.
Proof.
  intros [Ipc Iref Iwf Ipriv Ipar] Hth Hst Hj0 Hc' Hother Hpar Hinst Htop.
  assert (Hl : t < length (c_threads c)) by (eapply nth_error_lt; eauto).
  assert (TF : forall t', top_frame c' t' = if decide (t' = t) then head (t_stack th') else top_frame c t')
    by (intros; eapply top_frame_set; eauto).
  assert (Tt : top_frame c t = Some f) by (unfold top_frame; rewrite Hth, Hst; reflexivity).
  (* a frame of another thread against the new top of t *)
  assert (Pair : forall t2 f2 f0 e, t2 <> t -> top_frame c t2 = Some f2 -> head (t_stack th') = Some f0 ->
            call_inst (f_call f0) = call_inst (f_call f2) -> is_priv f0 = true -> is_priv f2 = true ->
            f_e f0 = Some e -> f_e f2 = Some e -> False).
  { intros t2 f2 f0 e N Hf2 Hf0 Hcall Hp0 Hp2 He0 He2.
    destruct (Htop f0 Hf0) as (_ & _ & Hpo). destruct (Hpo Hp0) as (Hj & i & Hi & Hor).
    assert (Hpr2 : priv (i_st i) e).
    { eapply is_priv_priv; [exact Hp2| |exact He2]. eapply Iref; [exact Hf2|]. rewrite <- Hcall, Hj. exact Hi. }
    destruct (Hor Hp0 e He0) as [[Hpf Hef]|[k Hk]].
    - eapply (Ipriv t t2 f f2 e); eauto. congruence.
    - destruct Hpr2 as (_ & Hu & _). exact (Hu k Hk). }
  constructor.
  - intros t' f0. rewrite TF. destruct (decide (t' = t)) as [->|N]; [|apply Ipc]. intros H. apply Htop, H.
  - intros t' f2 i'. rewrite TF. destruct (decide (t' = t)) as [->|N].
    { intros H Hi'. destruct (Htop f2 H) as (_ & Hr & _). apply Hr, Hi'. }
    intros Hf2 Hi'. destruct (decide (call_inst (f_call f2) = j0)) as [Ej|Nj].
    + rewrite Ej in Hi'. destruct (Hinst i' Hi') as (i & w & Hi & Hcore & Htr & _ & Hwj & Hsim).
      assert (Hr2 : ref_inv (i_st i) f2) by (eapply Iref; [exact Hf2|rewrite Ej; exact Hi]).
      assert (Hrf : ref_inv (i_st i) f) by (eapply Iref; [exact Tt|rewrite Hj0; exact Hi]).
      eapply ref_inv_stable; [exact Hcore|exact Htr| | | |exact Hr2].
      * intros e Ew. destruct (Hwj e Ew) as [Hre|[Hpf Hef]]; [right; exact Hre|].
        left. destruct (is_priv_priv _ _ _ Hpf Hrf Hef) as ([v Hv] & _). unfold is_exp. rewrite Hv. reflexivity.
      * intros Hp2 e He2 Ew. destruct (Hwj e Ew) as [[k Hk]|[Hpf Hef]].
        -- destruct (is_priv_priv _ _ _ Hp2 Hr2 He2) as (_ & Hu & _). exact (Hu k Hk).
        -- eapply (Ipriv t t' f f2 e); eauto. congruence.
      * intros Hcs. eapply Hsim; eauto.
    + rewrite (Hother _ Nj) in Hi'. eapply Iref; eauto.
  - intros j i' Hi'. destruct (decide (j = j0)) as [->|Nj].
    + destruct (Hinst i' Hi') as (i & w & _ & _ & _ & H2 & _). exact H2.
    + rewrite (Hother _ Nj) in Hi'. eapply Iwf; eauto.
  - intros t1 t2 f1 f2 e N. rewrite !TF.
    destruct (decide (t1 = t)) as [->|N1]; destruct (decide (t2 = t)) as [->|N2]; [congruence| | |apply Ipriv; exact N].
    + intros H1 H2 Hcall Hp1 Hp2 He1 He2. eapply (Pair t2 f2 f1 e); eauto.
    + intros H1 H2 Hcall Hp1 Hp2 He1 He2. eapply (Pair t1 f1 f2 e); eauto.
  - intros t' th0. rewrite Hc'. destruct (decide (t' = t)) as [->|N].
    + rewrite nth_error_set_nth_list_eq by exact Hl. intros [= <-]. exact Hpar.
    + rewrite nth_error_set_nth_list_ne by auto. apply Ipar.
Qed.

Definition fresh_frame (f0 : frame) : Prop :=
  (exists c, f0 = new_frame c) \/
  (exists p out a, f0 = set_pc (set_out p out a) Range_iter /\ is_range (f_call p) = true).

Lemma fresh_frame_props f0 : fresh_frame f0 -> frame_pc_ok f0 /\ (forall s, ref_inv s f0) /\ is_priv f0 = false.
Proof.
  intros [[c ->]|(p & out & a & -> & Hr)].
  - split; [apply pc_ok_new|]. split; [|destruct c; reflexivity].
    intros s. destruct (ref_triv s s (new_frame c) (new_frame c)) as [H _]; [destruct c; reflexivity|exact H].
  - split; [|split; [|reflexivity]].
    + unfold frame_pc_ok. cbn. destruct (f_call p); try discriminate Hr. reflexivity.
    + intros s. destruct (ref_triv s s p (set_pc (set_out p out a) Range_iter)) as [H _]; [reflexivity|exact H].
Qed.

Lemma ret_stack_props rest st' :
  ret_stack rest st' -> Forall (fun p => is_range (f_call p) = true) rest ->
  Forall (fun p => is_range (f_call p) = true) (tail st') /\ forall f0, head st' = Some f0 -> fresh_frame f0.
Proof.
  intros [->|[[c ->]|(p & rest' & -> & out & a & ->)]] Hr; cbn.
  - split; [constructor|discriminate].
  - split; [constructor|]. intros f0 [= <-]. left. eauto.
  - inversion Hr; subst. split; [assumption|]. intros f0 [= <-]. right. eauto 10.
Qed.

Theorem Inv2_step c t ch c' : Inv c -> Inv2 c -> step c t ch = Some c' -> Inv2 c'.
Proof.
  intros HI HI2 H. pose proof H as Hstep.
  apply step_cases in H as (th & f & rest & th' & Hth & Hst & Hc' & Hcase).
  assert (Tt : top_frame c t = Some f) by (unfold top_frame; rewrite Hth, Hst; reflexivity).
  assert (Hok : frame_ok f) by (eapply inv_frames; eauto).
  assert (Hpk : frame_pc_ok f) by (eapply i2_pc; eauto).
  assert (Hrest : Forall (fun p => is_range (f_call p) = true) rest).
  { pose proof (i2_parents c HI2 t th Hth) as X. rewrite Hst in X. exact X. }
  set (j0 := call_inst (f_call f)).
  (* the cases in which no instance changes *)
  assert (Idle : c_insts c' = c_insts c ->
            Forall (fun p => is_range (f_call p) = true) (tail (t_stack th')) ->
            (forall f0, head (t_stack th') = Some f0 -> fresh_frame f0) -> Inv2 c').
  { intros Hi Hpar Hfresh. eapply (Inv2_step_gen c c' t th f rest th' j0); eauto.
    - intros j _. rewrite Hi. reflexivity.
    - intros i' Hi'. rewrite Hi in Hi'. exists i', None. split; [exact Hi'|].
      split; [eapply Inv_WF_core; eauto|]. split; [apply trans_refl|]. split; [eapply i2_wf2; eauto|].
      split; [apply w_just_none|]. intros. apply sim_refl.
    - intros f0 Hf0. destruct (fresh_frame_props f0 (Hfresh f0 Hf0)) as (H1 & H2 & H3).
      split; [exact H1|]. split; [intros; apply H2|]. congruence. }
  destruct Hcase as [(Hpl & Hi & Hs)|(Hpl & i & r & Hi & Hsf & Hr)].
  - destruct (ret_stack_props _ _ Hs Hrest). apply Idle; auto.
  - destruct r as [[i' o]|k].
    2:{ destruct Hr as [Hi' Hs]. apply Idle; auto; rewrite Hs; [constructor|discriminate]. }
    destruct Hr as [Hi' Hs].
    assert (Hl : j0 < length (c_insts c)) by (eapply nth_error_lt; eauto).
    assert (Hcore : WF_core (i_st i)) by (eapply Inv_WF_core; eauto).
    assert (Hwfl : in_cs f = true -> WFL (i_st i) f).
    { intros Hcs. destruct (inv_insts c HI _ _ Hi) as [Hm Hw].
      assert (Hmu : i_mu i = Some t) by (apply Hm; exists f; auto). rewrite Hmu in Hw. apply Hw, Tt. }
    assert (Href : ref_inv (i_st i) f) by (eapply i2_ref; eauto).
    destruct (sf_ref t i f ch i' o Hok Hpk Hcore Hwfl (i2_wf2 c HI2 _ _ Hi) Href Hsf) as (w & Htr & H2' & Hwj & Ho).
    pose proof (sf_frame_ok _ _ _ _ _ _ Hok Hsf) as Hfo.
    assert (Hi'j : nth_error (c_insts c') j0 = Some i').
    { rewrite Hi'. apply nth_error_set_nth_list_eq. exact Hl. }
    eapply (Inv2_step_gen c c' t th f rest th' j0); eauto.
    + intros j Nj. rewrite Hi'. apply nth_error_set_nth_list_ne; auto.
    + destruct o as [f'|r|f' k v]; cbn in Hs.
      * rewrite Hs. exact Hrest.
      * eapply ret_stack_props; eauto.
      * apply sf_callback in Hsf as (-> & Hpc & (j & cb & Hcall) & _).
        destruct Hs as [Hs|[(out & a & ->)|(cc & out & a & ->)]]; [eapply ret_stack_props; eauto|exact Hrest|].
        cbn. constructor; [cbn; rewrite Hcall; reflexivity|exact Hrest].
    + intros i2 Hi2. assert (i2 = i') by congruence. subst i2. exists i, w.
      split; [exact Hi|]. split; [exact Hcore|]. split; [exact Htr|]. split; [exact H2'|]. split; [exact Hwj|].
      intros t2 f2 N Hf2 Hj2 Hcs2.
      assert (Hmu : i_mu i <> Some t).
      { destruct (inv_insts c HI _ _ Hi) as [Hm _]. assert (i_mu i = Some t2) by (apply Hm; exists f2; auto). congruence. }
      destruct (step_rely c t ch c' j0 i i' HI Hstep Hi Hi'j Hmu) as [[Hsim _] _]. exact Hsim.
    + intros f0 Hf0. destruct o as [f'|r|f' k v]; cbn in Hs.
      * rewrite Hs in Hf0. injection Hf0 as <-. destruct Hfo as [_ Hcall]. destruct Ho as [Hr' Hpo].
        split; [eapply sf_pc_ok; eauto|]. split.
        -- intros i2. rewrite Hcall. fold j0. rewrite Hi'j. intros [= <-]. exact Hr'.
        -- intros _. split; [rewrite Hcall; reflexivity|]. exists i. auto.
      * destruct (ret_stack_props _ _ Hs Hrest) as [_ Hf]. destruct (fresh_frame_props f0 (Hf f0 Hf0)) as (H1 & H2 & H3).
        split; [exact H1|]. split; [intros; apply H2|]. congruence.
      * apply sf_callback in Hsf as (-> & Hpc & (j & cb & Hcall) & _).
        assert (fresh_frame f0) as Hff.
        { destruct Hs as [Hs|[(out & a & Hs)|(cc & out & a & Hs)]].
          - destruct (ret_stack_props _ _ Hs Hrest) as [_ Hf]. apply Hf, Hf0.
          - rewrite Hs in Hf0. injection Hf0 as <-. right. exists f, out, a. split; [reflexivity|]. rewrite Hcall. reflexivity.
          - rewrite Hs in Hf0. injection Hf0 as <-. left. eauto. }
        destruct (fresh_frame_props f0 Hff) as (H1 & H2 & H3).
        split; [exact H1|]. split; [intros; apply H2|]. congruence.
Qed.

Theorem Inv2_init_z zs progs : Inv2 (init_config_z zs progs).
Proof.
  constructor.
  - intros t f H. apply init_top_z in H as [c ->]. apply pc_ok_new.
  - intros t f i H _. apply init_top_z in H as [c ->].
    destruct (fresh_frame_props (new_frame c)) as (_ & H & _); [left; eauto|apply H].
  - intros j i H. cbn in H. rewrite nth_error_map in H. destruct (nth_error zs j) as [z|]; [|discriminate]. injection H as <-. intros k e Hk. discriminate.
  - intros t1 t2 f1 f2 e _ H1 _ _ Hp. apply init_top_z in H1 as [c ->]. destruct c; discriminate.
  - intros t th. cbn. rewrite nth_error_map. destruct (nth_error progs t) as [p|]; [|discriminate]. cbn.
    intros [= <-]. unfold next_call. cbn. destruct p; cbn; constructor.
Qed.

Lemma Inv12_run c sched : Inv c -> Inv2 c -> Inv (run_schedule c sched) /\ Inv2 (run_schedule c sched).
Proof.
  revert c. induction sched as [|[t ch] sched IH]; intros c HI HI2; cbn; [auto|].
  destruct (step c t ch) as [c'|] eqn:E; cbn; [|apply IH; assumption].
  apply IH; [eapply Inv_step; eauto|eapply Inv2_step; eauto].
Qed.

Theorem Inv2_reachable zs progs sched : Inv2 (run_schedule (init_config_z zs progs) sched).
Proof. apply Inv12_run; [apply Inv_init_z|apply Inv2_init_z]. Qed.

Theorem Inv2_init n progs : Inv2 (init_config n progs).
Proof. rewrite init_config_eq. apply Inv2_init_z. Qed.


(* ================================================================== *)
(* Part B. Programs of Load / LoadOrStore / LoadAndDelete only (sync2.Set's
   Has / Add / Remove). For every instance j and key k, in EVERY reachable
   configuration:
     #(LoadOrStore(j,k) that returned loaded = false)
   - #(LoadAndDelete(j,k) that returned loaded = true)
   + (effects of calls in flight that are decided but not yet reported)
   = 1 if k is in the abstract map, else 0                    [conservation]
   The deciding steps: the successful Tlos_cas, the dirty insert at LOS_read2 /
   LOS_amend, the successful Delete_cas on an entry of the read map, and - for
   an entry found only in the dirty map - the LAD_read2 step that removes it
   from dirty (from then on the entry is private to the remover, so its
   delete.cas can only report (v, true)). Proof: one more pass over the labels
   ([sf_cons]: what a step does to the abstract contents, per key), then the
   invariant [Inv3] on configurations with the history. *)

(* presence of key k in the map the Map stands for *)
Definition Aof (s : mstate) (k : Z) : Z := match abs_lookup s k with Some _ => 1 | None => 0 end.

Lemma abs_same_fields s s' k :
  ents s' = ents s -> read_m s' = read_m s -> amended s' = amended s -> dirty s' = dirty s ->
  abs_lookup s' k = abs_lookup s k.
Proof. unfold abs_lookup, reach, dirty_lookup, e_load, get_ent. intros -> -> -> ->. reflexivity. Qed.

Lemma reach_reach_any s k e : reach s k = Some e -> reach_any s k e.
Proof.
  unfold reach, reach_any. destruct (read_m s !! k); [intros [= ->]; auto|].
  destruct (amended s); [auto|discriminate].
Qed.

Lemma e_load_set_ent s e p e0 :
  e_load (set_ent s e p) e0 = if decide (e0 = e) then match p with PVal v => Some v | _ => None end else e_load s e0.
Proof. unfold e_load. rewrite get_ent_set_ent. destruct (decide (e0 = e)); reflexivity. Qed.

(* writing entry e changes at most the key under which e is reachable *)
Lemma abs_set_ent s e p k :
  abs_lookup (set_ent s e p) k =
  if decide (reach s k = Some e) then match p with PVal v => Some v | _ => None end else abs_lookup s k.
Proof.
  unfold abs_lookup. change (reach (set_ent s e p) k) with (reach s k).
  destruct (reach s k) as [e0|]; [|rewrite decide_False by discriminate; reflexivity].
  rewrite e_load_set_ent. destruct (decide (e0 = e)) as [->|N].
  - rewrite decide_True by reflexivity. reflexivity.
  - rewrite decide_False by congruence. reflexivity.
Qed.

Lemma abs_set_ent_other s e p k k0 :
  WF_core s -> reach_any s k0 e -> k <> k0 -> abs_lookup (set_ent s e p) k = abs_lookup s k.
Proof.
  intros Hc Hr N. rewrite abs_set_ent. rewrite decide_False; [reflexivity|].
  intros H. apply N. eapply (wf_inj s Hc); [apply reach_reach_any; exact H|exact Hr].
Qed.

Lemma abs_set_ent_unreachable s e p k : unreachable s e -> abs_lookup (set_ent s e p) k = abs_lookup s k.
Proof.
  intros Hu. rewrite abs_set_ent. rewrite decide_False; [reflexivity|].
  intros H. apply (Hu k). apply reach_reach_any. exact H.
Qed.

Lemma abs_misses s m k : abs_lookup (st_with_misses s m) k = abs_lookup s k.
Proof. apply abs_same_fields; reflexivity. Qed.

Lemma Aof_misses s m k : Aof (st_with_misses s m) k = Aof s k.
Proof. unfold Aof. rewrite abs_misses. reflexivity. Qed.

(* promotion does not change the contents *)
Lemma abs_promote s d k :
  WF_core s -> WF_ad s -> dirty s = Some d ->
  abs_lookup (MState (ents s) (next_e s) d false None 0) k = abs_lookup s k.
Proof.
  intros Hc Ha Hd. unfold abs_lookup, reach, dirty_lookup. cbn. rewrite Hd.
  assert (Ham : amended s = true).
  { destruct (amended s) eqn:E; [reflexivity|]. pose proof (wf_unamended s Ha E). congruence. }
  rewrite Ham. destruct (read_m s !! k) as [e|] eqn:Hk.
  - rewrite (wf_cover s Ha d k e Hd Hk). destruct (is_exp s e) eqn:He; [|reflexivity].
    unfold e_load. apply is_exp_get in He. change (get_ent s e) with (default PNil (ents s !! e)) in He.
    unfold get_ent. rewrite He. reflexivity.
  - destruct (d !! k); reflexivity.
Qed.

(* m.dirty[key] = newEntry(v) when read is already amended *)
Lemma abs_insert_new s d key v k :
  WF_core s -> dirty s = Some d -> read_m s !! key = None -> amended s = true ->
  abs_lookup (MState (<[next_e s := PVal v]> (ents s)) (S (next_e s)) (read_m s) true (Some (<[key := next_e s]> d)) (misses s)) k =
  if decide (k = key) then Some v else abs_lookup s k.
Proof.
  intros Hc Hd Hk Ham. unfold abs_lookup, reach, dirty_lookup, e_load, get_ent. cbn. rewrite Hd, Ham.
  destruct (decide (k = key)) as [->|N].
  - rewrite Hk, lookup_insert. cbn. rewrite lookup_insert. reflexivity.
  - rewrite lookup_insert_ne by congruence.
    assert (X : forall e, reach_any s k e -> <[next_e s:=PVal v]> (ents s) !! e = ents s !! e).
    { intros e He. apply (wf_bound s Hc) in He. rewrite lookup_insert_ne by lia. reflexivity. }
    destruct (read_m s !! k) as [e|] eqn:Hrk.
    + rewrite X; [reflexivity|left; exact Hrk].
    + destruct (d !! k) as [e|] eqn:Hdk; [|reflexivity].
      rewrite X; [reflexivity|right; unfold dirty_lookup; rewrite Hd; exact Hdk].
Qed.

(* the amend step: m.read := (read.m, true); m.dirty[key] = newEntry(v) *)
Lemma abs_amend s d key v k :
  WF_core s -> dirty s = Some d -> read_m s !! key = None -> amended s = false ->
  (forall k' e, d !! k' = Some e -> read_m s !! k' = Some e) ->
  abs_lookup (MState (<[next_e s := PVal v]> (ents s)) (S (next_e s)) (read_m s) true (Some (<[key := next_e s]> d)) (misses s)) k =
  if decide (k = key) then Some v else abs_lookup s k.
Proof.
  intros Hc Hd Hk Ham Hsub. unfold abs_lookup, reach, dirty_lookup, e_load, get_ent. cbn. rewrite Ham.
  destruct (decide (k = key)) as [->|N].
  - rewrite Hk, lookup_insert. cbn. rewrite lookup_insert. reflexivity.
  - rewrite lookup_insert_ne by congruence.
    destruct (read_m s !! k) as [e|] eqn:Hrk.
    + assert (e < next_e s) by (eapply (wf_bound s Hc); left; exact Hrk). rewrite lookup_insert_ne by lia. reflexivity.
    + destruct (d !! k) as [e|] eqn:Hdk; [|reflexivity]. apply Hsub in Hdk. congruence.
Qed.

Lemma abs_unexpunge s d key e k :
  WF_core s -> dirty s = Some d -> read_m s !! key = Some e -> is_exp s e = true ->
  abs_lookup (MState (<[e := PNil]> (ents s)) (next_e s) (read_m s) (amended s) (Some (<[key := e]> d)) (misses s)) k =
  abs_lookup s k.
Proof.
  intros Hc Hd Hk He. unfold abs_lookup, reach, dirty_lookup. cbn. rewrite Hd.
  assert (X : forall e0, e_load (MState (<[e := PNil]> (ents s)) (next_e s) (read_m s) (amended s) (Some (<[key := e]> d)) (misses s)) e0 = e_load s e0).
  { intros e0. unfold e_load, get_ent. cbn. destruct (decide (e0 = e)) as [->|N].
    - rewrite lookup_insert. cbn. apply is_exp_get in He. unfold get_ent in He. rewrite He. reflexivity.
    - rewrite lookup_insert_ne by congruence. reflexivity. }
  destruct (read_m s !! k) as [e0|] eqn:Hrk; [apply X|].
  destruct (amended s); [|reflexivity].
  assert (k <> key) by congruence. rewrite lookup_insert_ne by congruence.
  destruct (d !! k); [apply X|reflexivity].
Qed.

Lemma abs_dirty_delete s key k :
  read_m s !! key = None ->
  abs_lookup (dirty_delete s key) k = if decide (k = key) then None else abs_lookup s k.
Proof.
  intros Hk. unfold dirty_delete. destruct (dirty s) as [d|] eqn:Hd.
  - unfold abs_lookup, reach, dirty_lookup. cbn. rewrite Hd. destruct (decide (k = key)) as [->|N].
    + rewrite Hk, lookup_delete. destruct (amended s); reflexivity.
    + rewrite lookup_delete_ne by congruence. reflexivity.
  - destruct (decide (k = key)) as [->|N]; [|reflexivity].
    unfold abs_lookup, reach, dirty_lookup. rewrite Hk, Hd. destruct (amended s); reflexivity.
Qed.

(* while read is not amended the dirty map is not part of the contents *)
Lemma abs_unamended s s' k :
  ents s' = ents s -> read_m s' = read_m s -> amended s' = amended s -> amended s = false ->
  abs_lookup s' k = abs_lookup s k.
Proof.
  unfold abs_lookup, reach, e_load, get_ent. intros -> -> -> ->. reflexivity.
Qed.

(* expunging a nil entry *)
Lemma abs_expunge s e k : is_exp s e = false -> (forall v, get_ent s e <> PVal v) ->
  abs_lookup (set_ent s e PExpunged) k = abs_lookup s k.
Proof.
  intros He Hv. rewrite abs_set_ent. destruct (decide (reach s k = Some e)) as [H|]; [|reflexivity].
  unfold abs_lookup. rewrite H. unfold e_load. destruct (get_ent s e) eqn:E; try reflexivity. exfalso. eapply Hv; eauto.
Qed.

Local Open Scope Z_scope.

(* the calls of the fragment: Has / Add / Remove of sync2.Set *)
Definition frag (c : call) : Prop :=
  match c with CLoad _ _ | CLoadAndDelete _ _ => True | CLoadOrStore _ _ _ p => p = PNone | _ => False end.

(* the effect a call in flight has already had on its key but not yet reported:
   +1 = LoadOrStore stored, -1 = LoadAndDelete removed the entry from the dirty map *)
Definition pendf (f : frame) : Z :=
  match f_call f with
  | CLoadOrStore _ _ _ _ =>
      match f_pc f with LOS_unlock | Miss_store => if (f_los f).2 then 0 else 1 | _ => 0 end
  | CLoadAndDelete _ _ => if is_priv f then match f_e f with Some _ => -1 | None => 0 end else 0
  | _ => 0
  end.

(* what a result reports: +1 = LoadOrStore stored (loaded = false), -1 = LoadAndDelete deleted *)
Definition dH (c : call) (r : res) : Z :=
  match c, r with
  | CLoadOrStore _ _ _ _, RLos _ false => 1
  | CLoadAndDelete _ _, ROpt (Some _) => -1
  | _, _ => 0
  end.

Definition out_delta (f : frame) (o : outcome) : Z :=
  match o with Continue f' => pendf f' | Return r => dH (f_call f) r | Callback _ _ _ => 0 end.

Definition cons_post (s s' : mstate) (f : frame) (o : outcome) : Prop :=
  (forall k, k <> key_of (f_call f) -> abs_lookup s' k = abs_lookup s k) /\
  Aof s' (key_of (f_call f)) - Aof s (key_of (f_call f)) = out_delta f o - pendf f.

Lemma cons_same s f o : out_delta f o = pendf f -> cons_post s s f o.
Proof. intros H. split; [reflexivity|]. lia. Qed.

Lemma cons_abs_same s s' f o :
  (forall k, abs_lookup s' k = abs_lookup s k) -> out_delta f o = pendf f -> cons_post s s' f o.
Proof. intros Ha H. split; [intros; apply Ha|]. unfold Aof. rewrite Ha. lia. Qed.

Lemma pendf_after_miss i f i' f' :
  after_miss i f = (i', f') -> pendf f' = pendf (set_pc f Miss_store) /\ i_st i' = st_with_misses (i_st i) (misses (i_st i) + 1).
Proof.
  unfold after_miss. intros H. case_match; simplify_eq; (split; [|reflexivity]); [|reflexivity].
  unfold pendf, is_priv. cbn. destruct (f_call f); reflexivity.
Qed.

(* ---- Load ---- *)
Lemma cons_Load t i f ch i' o j k :
  f_call f = CLoad j k -> frame_ok f -> frame_pc_ok f -> WF_core (i_st i) -> (in_cs f = true -> WFL (i_st i) f) ->
  ref_inv (i_st i) f -> step_frame t i f ch = Some (Ok (i', o)) -> cons_post (i_st i) (i_st i') f o.
Proof.
  intros Hcall [He Hst Hdel Hpost] Hpk Hc Hw [Hre Hrp] H. unfold frame_pc_ok in Hpk. rewrite Hcall in Hpk.
  unfold step_frame in H. unfold WFL, in_cs in Hw. unfold cs_class in Hw. unfold ref_prom in Hrp.
  assert (P0 : forall f1, f_call f1 = f_call f -> pendf f1 = 0) by (intros f1 E; unfold pendf; rewrite E, Hcall; reflexivity).
  destruct (f_pc f) eqn:Hpc; try discriminate Hpk; rewrite ?Hcall in H; cbn in H, Hw, Hrp.
  - (* Load_read1 *) repeat case_match; simplify_eq; apply cons_same; cbn; rewrite ?Hcall, ?P0; reflexivity.
  - (* Load_lock *) repeat case_match; simplify_eq; apply cons_same; cbn; rewrite ?Hcall, ?P0; reflexivity.
  - (* Load_read2 *)
    repeat case_match; simplify_eq; try (apply cons_same; cbn; rewrite ?Hcall, ?P0; reflexivity).
    match goal with E : after_miss _ _ = _ |- _ => apply pendf_after_miss in E as [E1 E2] end.
    rewrite E2. apply cons_abs_same; [intros; apply abs_misses|]. cbn. rewrite E1, !P0 by reflexivity. reflexivity.
  - (* Load_unlock *) repeat case_match; simplify_eq; apply cons_same; cbn; rewrite ?Hcall, ?P0; reflexivity.
  - (* E_load *) repeat case_match; simplify_eq; apply cons_same; cbn; rewrite ?Hcall, ?P0; reflexivity.
  - (* Miss_store *)
    destruct (Hw eq_refl) as [_ Hwa]. destruct (dirty (i_st i)) as [d|] eqn:Hd; [|congruence]. simplify_eq. cbn.
    apply cons_abs_same; [intros; apply abs_promote; auto|]. cbn. rewrite !P0 by reflexivity. reflexivity.
Qed.

Lemma reach_read s k e : read_m s !! k = Some e -> reach s k = Some e.
Proof. unfold reach. intros ->. reflexivity. Qed.

Lemma Aof_some s k v : abs_lookup s k = Some v -> Aof s k = 1.
Proof. unfold Aof. intros ->. reflexivity. Qed.
Lemma Aof_none s k : abs_lookup s k = None -> Aof s k = 0.
Proof. unfold Aof. intros ->. reflexivity. Qed.

(* ---- LoadAndDelete ---- *)
Lemma cons_LAD t i f ch i' o j k :
  f_call f = CLoadAndDelete j k -> frame_ok f -> frame_pc_ok f -> WF_core (i_st i) -> (in_cs f = true -> WFL (i_st i) f) ->
  WF2 (i_st i) -> ref_inv (i_st i) f -> step_frame t i f ch = Some (Ok (i', o)) -> cons_post (i_st i) (i_st i') f o.
Proof.
  intros Hcall [He Hst Hdel Hpost] Hpk Hc Hw H2 [Hre Hrp] H. unfold frame_pc_ok in Hpk. rewrite Hcall in Hpk.
  unfold step_frame in H. unfold WFL, in_cs in Hw. unfold cs_class in Hw. unfold ref_prom in Hrp. unfold ref_e in Hre.
  unfold cons_post. rewrite Hcall in Hre |- *. cbn [key_of] in *.
  assert (PF : forall f1, f_call f1 = f_call f ->
            pendf f1 = if is_priv f1 then match f_e f1 with Some _ => -1 | None => 0 end else 0)
    by (intros f1 E; unfold pendf; rewrite E, Hcall; reflexivity).
  assert (IP : forall f1, f_call f1 = f_call f -> is_priv f1 = lad_pc (f_pc f1) && bool_decide (f_rd_m f1 !! k = None))
    by (intros f1 E; unfold is_priv; rewrite E, Hcall; cbn; rewrite andb_true_r; reflexivity).
  destruct (f_pc f) eqn:Hpc; try discriminate Hpk; rewrite ?Hcall in H; cbn in H, Hw, Hrp, Hre, He.
  - (* LAD_read1 *)
    repeat case_match; simplify_eq; (split; [reflexivity|]); cbn; rewrite ?Hcall, ?PF, ?IP by reflexivity; cbn; rewrite ?Hpc; cbn.
    + try (rewrite bool_decide_eq_false_2 by congruence); lia.
    + lia.
    + lia.
  - (* LAD_lock *)
    repeat case_match; simplify_eq; (split; [reflexivity|]); cbn; rewrite ?Hcall, ?PF, ?IP by reflexivity; cbn; rewrite ?Hpc; cbn; lia.
  - (* LAD_read2 *)
    destruct (Hw eq_refl) as [_ Hwa].
    destruct (read_m (i_st i) !! k) as [e0|] eqn:Hk.
    { simplify_eq. split; [reflexivity|]. cbn. rewrite !PF, !IP by reflexivity. cbn. rewrite Hpc, Hk. cbn.
      try (rewrite bool_decide_eq_false_2 by congruence); lia. }
    destruct (amended (i_st i)) eqn:Ham.
    2:{ simplify_eq. split; [reflexivity|]. cbn. rewrite !PF, !IP by reflexivity. cbn. rewrite Hpc. cbn. destruct (bool_decide _); lia. }
    destruct (after_miss _ _) as [i2 f2] eqn:Eam. simplify_eq.
    apply pendf_after_miss in Eam as [E1 E2]. cbn in E2. rewrite E2. cbn [out_delta]. rewrite E1.
    rewrite !PF, !IP by reflexivity. cbn. rewrite Hpc, Hk. cbn.
    split.
    + intros k0 N. rewrite abs_misses, abs_dirty_delete by exact Hk. rewrite decide_False by exact N. reflexivity.
    + rewrite Aof_misses. rewrite (Aof_none (dirty_delete _ _)); [|rewrite abs_dirty_delete by exact Hk; rewrite decide_True by reflexivity; reflexivity].
      destruct (dirty_lookup (i_st i) k) as [e|] eqn:Hdk.
      * destruct (H2 k e Hdk Hk) as [v Hv].
        rewrite (Aof_some _ _ v); [lia|]. unfold abs_lookup, reach. rewrite Hk, Ham, Hdk. unfold e_load. rewrite Hv. reflexivity.
      * rewrite Aof_none; [lia|]. unfold abs_lookup, reach. rewrite Hk, Ham, Hdk. reflexivity.
  - (* LAD_unlock *)
    destruct (f_e f) as [e|] eqn:Hfe; simplify_eq; (split; [reflexivity|]); cbn; rewrite ?Hcall, ?PF, ?IP by reflexivity; cbn;
      rewrite ?Hpc, ?Hfe; cbn.
    + lia.
    + destruct (bool_decide _); lia.
  - (* Delete_load *)
    destruct (f_e f) as [e|] eqn:Hfe; [|discriminate]. specialize (Hre e eq_refl).
    destruct (ent i e) eqn:Hent; simplify_eq; (split; [reflexivity|]); cbn; rewrite ?Hcall, ?PF, ?IP by reflexivity; cbn; rewrite ?Hpc, ?Hfe; cbn.
    + destruct (f_rd_m f !! k); [try (rewrite bool_decide_eq_false_2 by congruence); lia|].
      destruct Hre as ([v Hv] & _). unfold ent in Hent. congruence.
    + destruct (f_rd_m f !! k); [try (rewrite bool_decide_eq_false_2 by congruence); lia|].
      destruct Hre as ([v Hv] & _). unfold ent in Hent. congruence.
    + lia.
  - (* Delete_cas *)
    destruct (f_e f) as [e|] eqn:Hfe; [|discriminate]. specialize (Hre e eq_refl).
    destruct (cas_ok i e f) eqn:Hcas; simplify_eq.
    2:{ split; [reflexivity|]. cbn. rewrite !PF, !IP by reflexivity. cbn. rewrite Hpc, Hfe. cbn. lia. }
    destruct (Hdel eq_refl) as [v Hv]. rewrite Hv in *. cbn [out_delta dH]. rewrite Hcall. cbn [dH].
    rewrite PF, IP by reflexivity. rewrite Hpc, Hfe. cbn [lad_pc andb].
    assert (Hent : ent i e = PVal v).
    { unfold cas_ok in Hcas. rewrite Hv in Hcas. apply andb_true_iff in Hcas as [Hcas _]. apply bool_decide_eq_true in Hcas. exact Hcas. }
    destruct (f_rd_m f !! k) eqn:Hrd.
    + rewrite bool_decide_eq_false_2 by congruence.
      assert (Hk : read_m (i_st i) !! k = Some e).
      { apply pod_live; [exact Hre|]. apply is_exp_of_ent. congruence. }
      split.
      * intros k0 N. cbn. eapply abs_set_ent_other; eauto. left. exact Hk.
      * cbn. rewrite (Aof_none (set_ent _ _ _)); [|rewrite abs_set_ent, decide_True by (apply reach_read; exact Hk); reflexivity].
        rewrite (Aof_some _ _ v); [lia|]. unfold abs_lookup. rewrite (reach_read _ _ _ Hk). unfold e_load. unfold ent in Hent. rewrite Hent. reflexivity.
    + rewrite bool_decide_eq_true_2 by reflexivity. destruct Hre as (_ & Hu & _). cbn.
      split; [intros; apply abs_set_ent_unreachable; exact Hu|].
      unfold Aof. rewrite abs_set_ent_unreachable by exact Hu. lia.
  - (* Miss_store *)
    destruct (Hw eq_refl) as [_ Hwa]. destruct (dirty (i_st i)) as [d|] eqn:Hd; [|congruence]. simplify_eq. cbn.
    split; [intros; apply abs_promote; auto|]. unfold Aof. rewrite abs_promote by auto.
    rewrite !PF, !IP by reflexivity. cbn. rewrite Hpc. cbn. lia.
Qed.

(* ---- LoadOrStore ---- *)
Section LOS.
Variables (t : nat) (i : inst) (f : frame) (ch : Z) (j : nat) (k v : Z).
Hypothesis Hcall : f_call f = CLoadOrStore j k v PNone.
Hypothesis Hok : frame_ok f.
Hypothesis Hc : WF_core (i_st i).
Hypothesis Hw : in_cs f = true -> WFL (i_st i) f.
Hypothesis H2 : WF2 (i_st i).
Hypothesis Hr : ref_inv (i_st i) f.

Lemma los_pendf f1 : f_call f1 = f_call f ->
  pendf f1 = match f_pc f1 with LOS_unlock | Miss_store => if (f_los f1).2 then 0 else 1 | _ => 0 end.
Proof. intros E. unfold pendf. rewrite E, Hcall. reflexivity. Qed.

Lemma los_return_eq f1 a l : f_call f1 = f_call f -> los_return f1 a l = Return (RLos a l).
Proof. intros E. unfold los_return. rewrite E, Hcall. reflexivity. Qed.

Lemma los_pendf_dirty_next f1 : f_call f1 = f_call f -> pendf (dirty_next f1) = 0.
Proof.
  intros E. unfold dirty_next. destruct (unvisited _ _); rewrite los_pendf by exact E; cbn; [rewrite E, Hcall|]; reflexivity.
Qed.

(* tryLoadOrStore is done with (a, loaded); [d] = 1 if it stored *)
Lemma cons_tlos_done s' a (l ok : bool) i1 i' o (d : Z) :
  i_st i1 = s' -> f_pc f <> LOS_unlock -> f_pc f <> Miss_store ->
  (ok = false -> f_mode f = MFast) -> d = (if l then 0 else if ok then 1 else 0) ->
  (forall k0, k0 <> k -> abs_lookup s' k0 = abs_lookup (i_st i) k0) ->
  Aof s' k - Aof (i_st i) k = d ->
  tlos_done i1 f a l ok = (i', o) ->
  cons_post (i_st i) (i_st i') f o.
Proof.
  intros Hs Hp1 Hp2 Hokm Hd Habs HA H. unfold tlos_done in H. unfold cons_post. rewrite Hcall. cbn [key_of].
  assert (P0 : pendf f = 0). { rewrite los_pendf by reflexivity. destruct (f_pc f); try reflexivity; congruence. }
  rewrite P0. destruct (f_mode f) eqn:Hm.
  - destruct ok; simplify_eq.
    + rewrite los_return_eq by reflexivity. cbn. rewrite Hcall. split; [exact Habs|]. destruct l; cbn; lia.
    + cbn. rewrite los_pendf by reflexivity. cbn. split; [exact Habs|]. destruct l; lia.
  - simplify_eq. cbn. rewrite los_pendf by reflexivity. cbn. split; [exact Habs|].
    destruct ok; [destruct l; lia|]. specialize (Hokm eq_refl). congruence.
  - destruct (after_miss i1 (set_los f a l)) as [i2 f2] eqn:Eam. simplify_eq.
    apply pendf_after_miss in Eam as [E1 E2]. rewrite E2. cbn [out_delta]. rewrite E1, los_pendf by reflexivity. cbn.
    split; [intros k0 N; rewrite abs_misses; auto|]. rewrite Aof_misses.
    destruct ok; [destruct l; lia|]. specialize (Hokm eq_refl). congruence.
Qed.

Lemma cons_tlos_load i' o :
  (f_pc f = Tlos_load1 \/ f_pc f = Tlos_load2) ->
  match f_e f with
  | None => Some (Panic NilDeref)
  | Some e => match ent i e with
              | PExpunged => let '(i', o) := tlos_done i f 0 false false in Some (Ok (i', o))
              | PVal v => let '(i', o) := tlos_done i f v true true in Some (Ok (i', o))
              | PNil => Some (Ok (i, Continue (set_pc f Tlos_cas)))
              end
  end = Some (Ok (i', o)) -> cons_post (i_st i) (i_st i') f o.
Proof.
  intros Hpc H. destruct Hr as [Hre _]. unfold ref_e in Hre.
  assert (Hp1 : f_pc f <> LOS_unlock) by (destruct Hpc as [-> | ->]; discriminate).
  assert (Hp2 : f_pc f <> Miss_store) by (destruct Hpc as [-> | ->]; discriminate).
  destruct (f_e f) as [e|] eqn:Hfe; [|discriminate].
  assert (Hre' : match f_mode f with
                 | MFast => pub_or_dead (i_st i) k e
                 | MLockedRead => read_m (i_st i) !! k = Some e /\ is_exp (i_st i) e = false
                 | MLockedDirty => read_m (i_st i) !! k = None /\ dirty_lookup (i_st i) k = Some e
                 end).
  { rewrite Hcall in Hre. cbn in Hre. destruct Hpc as [Hpc|Hpc]; rewrite Hpc in Hre; apply Hre; reflexivity. }
  destruct (ent i e) eqn:Hent.
  - simplify_eq. apply cons_same. cbn. rewrite !los_pendf by reflexivity. cbn. destruct Hpc as [-> | ->]; reflexivity.
  - destruct (tlos_done i f 0 false false) as [i1 o1] eqn:Hd. simplify_eq.
    eapply (cons_tlos_done (i_st i) 0 false false i i' o 0); eauto; [|lia].
    intros _. destruct (f_mode f); [reflexivity| |]; exfalso.
    + destruct Hre' as [_ Hx]. rewrite is_exp_ent, Hent in Hx. discriminate.
    + destruct Hre' as [_ Hx]. apply (wf_dirty_live _ Hc) in Hx. rewrite is_exp_ent, Hent in Hx. discriminate.
  - destruct (tlos_done i f v0 true true) as [i1 o1] eqn:Hd. simplify_eq.
    eapply (cons_tlos_done (i_st i) v0 true true i i' o 0); eauto; [discriminate|lia].
Qed.

Lemma cons_expunge_load i' o :
  (f_pc f = Expunge_load1 \/ f_pc f = Expunge_load2) -> amended (i_st i) = false ->
  match f_e f with
  | None => Some (Panic NilDeref)
  | Some e => match ent i e with
              | PNil => Some (Ok (i, Continue (set_pc f Expunge_cas)))
              | PExpunged => Some (do r <- expunge_done i f e true; Ok (r.1, Continue r.2))
              | PVal _ => Some (do r <- expunge_done i f e false; Ok (r.1, Continue r.2))
              end
  end = Some (Ok (i', o)) -> cons_post (i_st i) (i_st i') f o.
Proof.
  intros Hpc Ham H.
  assert (P0 : pendf f = 0) by (rewrite los_pendf by reflexivity; destruct Hpc as [-> | ->]; reflexivity).
  destruct (f_e f) as [e|] eqn:Hfe; [|discriminate].
  destruct (ent i e) eqn:Hent; simplify_eq.
  - apply cons_same. cbn. rewrite los_pendf by reflexivity. cbn. congruence.
  - cbn in H. simplify_eq. apply cons_same. cbn. rewrite los_pendf_dirty_next by reflexivity. congruence.
  - unfold expunge_done, bind in H. destruct (dirty_insert (i_st i) (f_curk f) e) as [s'|] eqn:Hs'; [|discriminate].
    cbn in H. simplify_eq. cbn. apply cons_abs_same.
    + intros k0. unfold dirty_insert in Hs'. destruct (dirty (i_st i)); [|discriminate]. injection Hs' as <-.
      apply abs_unamended; try reflexivity. exact Ham.
    + cbn. rewrite los_pendf_dirty_next by reflexivity. congruence.
Qed.

Lemma cons_LOS i' o :
  frame_pc_ok f -> step_frame t i f ch = Some (Ok (i', o)) -> cons_post (i_st i) (i_st i') f o.
Proof.
  intros Hpk H. pose proof Hok as [He Hst Hdel Hpost]. pose proof Hr as [Hre Hrp]. pose proof Hw as Hw'.
  unfold frame_pc_ok in Hpk. rewrite Hcall in Hpk.
  unfold step_frame in H. unfold WFL, in_cs in Hw'. unfold cs_class in Hw'. unfold ref_prom in Hrp. unfold ref_e in Hre.
  rewrite Hcall in Hre. cbn [key_of] in Hre.
  assert (PF := los_pendf).
  destruct (f_pc f) eqn:Hpc; try discriminate Hpk;
    try (exfalso; apply Hpost in Hpk; rewrite Hcall in Hpk; apply Hpk; reflexivity);
    rewrite ?Hcall in H; cbn in H, Hw', Hrp, Hre, He.
  - (* Unexpunge_cas *)
    destruct (Hw' eq_refl) as [_ [Hwa Hk]]. rewrite Hcall in Hk. cbn in Hk.
    destruct (f_e f) as [e|] eqn:Hfe; [|discriminate].
    destruct (ent i e) eqn:Hent; simplify_eq; try (apply cons_same; cbn; rewrite !PF by reflexivity; cbn; rewrite Hpc; reflexivity).
    destruct (WF_unexpunge (i_st i) k e) as (d & Hd & _); auto.
    { rewrite is_exp_ent, Hent. reflexivity. }
    unfold dirty_insert, bind in H. cbn in H. rewrite Hd in H. simplify_eq. cbn.
    apply cons_abs_same; [|cbn; rewrite !PF by reflexivity; cbn; rewrite Hpc; reflexivity].
    intros k0. apply abs_unexpunge; auto. rewrite is_exp_ent, Hent. reflexivity.
  - (* LOS_read1 *)
    repeat case_match; simplify_eq; apply cons_same; cbn; rewrite !PF by reflexivity; cbn; rewrite Hpc; reflexivity.
  - (* LOS_lock *)
    repeat case_match; simplify_eq; apply cons_same; cbn; rewrite !PF by reflexivity; cbn; rewrite Hpc; reflexivity.
  - (* LOS_read2 *)
    destruct (Hw' eq_refl) as [_ Hwa]. unfold new_entry, dirty_insert, bind in H. cbn in H.
    repeat case_match; simplify_eq; try (apply cons_same; cbn; rewrite !PF by reflexivity; cbn; rewrite Hpc; reflexivity).
    cbn. unfold cons_post. rewrite Hcall. cbn [key_of out_delta]. rewrite !PF by reflexivity. cbn. rewrite Hpc.
    unfold dirty_lookup in *. case_match; simplify_eq.
    split.
    + intros k0 N. rewrite abs_insert_new by auto. rewrite decide_False by exact N. reflexivity.
    + rewrite (Aof_some _ _ v); [|rewrite abs_insert_new by auto; rewrite decide_True by reflexivity; reflexivity].
      rewrite Aof_none; [lia|]. unfold abs_lookup, reach, dirty_lookup.
      repeat match goal with E : _ = _ |- _ => rewrite E end. reflexivity.
  - (* LOS_amend *)
    destruct (Hw' eq_refl) as [_ [(L1 & L2 & L3 & d & L4 & L5 & L6) _]]. rewrite Hcall in L3. cbn in L3.
    unfold new_entry, dirty_insert, bind in H. cbn in H. rewrite L4 in H. simplify_eq. cbn.
    unfold cons_post. rewrite Hcall. cbn [key_of out_delta]. rewrite !PF by reflexivity. cbn. rewrite Hpc. rewrite L1.
    assert (Hsub : forall k' e, d !! k' = Some e -> read_m (i_st i) !! k' = Some e) by (intros k' e Hd; apply (L6 k' e Hd)).
    split.
    + intros k0 N. rewrite abs_amend by auto. rewrite decide_False by exact N. reflexivity.
    + rewrite (Aof_some _ _ v); [|rewrite abs_amend by auto; rewrite decide_True by reflexivity; reflexivity].
      rewrite Aof_none; [lia|]. unfold abs_lookup, reach. rewrite L3, L2. reflexivity.
  - (* LOS_unlock *)
    simplify_eq. rewrite los_return_eq by reflexivity. apply cons_same. cbn. rewrite Hcall, PF by reflexivity. rewrite Hpc.
    destruct (f_los f) as [a []]; reflexivity.
  - (* Tlos_load1 *)
    eapply cons_tlos_load; eauto.
  - (* Tlos_cas *)
    destruct (f_e f) as [e|] eqn:Hfe; [|discriminate]. specialize (Hre e eq_refl).
    destruct (ent i e) eqn:Hent; simplify_eq;
      try (apply cons_same; cbn; rewrite !PF by reflexivity; cbn; rewrite Hpc; reflexivity).
    destruct (tlos_done _ f v false true) as [i1 o1] eqn:Hd. simplify_eq.
    assert (Hk : read_m (i_st i) !! k = Some e).
    { destruct (f_mode f).
      - apply pod_live; [exact Hre|]. apply is_exp_of_ent. congruence.
      - apply Hre.
      - exfalso. destruct Hre as [Hn Hd']. destruct (H2 k e Hd' Hn) as [v' Hv']. unfold ent in Hent. congruence. }
    eapply (cons_tlos_done (i_st (put_ent i e (PVal v))) v false true _ i' o 1); eauto; try congruence; try discriminate.
    + intros k0 N. cbn. eapply abs_set_ent_other; eauto. left. exact Hk.
    + cbn. rewrite (Aof_some _ _ v); [|rewrite abs_set_ent, decide_True by (apply reach_read; exact Hk); reflexivity].
      rewrite Aof_none; [lia|]. unfold abs_lookup. rewrite (reach_read _ _ _ Hk). unfold e_load. unfold ent in Hent. rewrite Hent. reflexivity.
  - (* Tlos_load2 *)
    eapply cons_tlos_load; eauto.
  - (* Miss_store *)
    destruct (Hw' eq_refl) as [_ Hwa]. destruct (dirty (i_st i)) as [d|] eqn:Hd; [|congruence]. simplify_eq. cbn.
    apply cons_abs_same; [intros; apply abs_promote; auto|]. cbn. rewrite !PF by reflexivity. cbn. rewrite Hpc. reflexivity.
  - (* Dirty_read *)
    destruct (Hw' eq_refl) as [_ (Hwa & Hd & Hk)]. simplify_eq. cbn.
    apply cons_abs_same.
    + intros k0. apply abs_unamended; try reflexivity. destruct (amended (i_st i)) eqn:E; [|reflexivity].
      exfalso. eapply wf_amended; eauto.
    + cbn. rewrite los_pendf_dirty_next by reflexivity. rewrite PF by reflexivity. rewrite Hpc. reflexivity.
  - (* Dirty_iter *)
    repeat case_match; simplify_eq; apply cons_same; cbn; rewrite !PF by reflexivity; cbn; rewrite Hpc; reflexivity.
  - (* Expunge_load1 *)
    eapply cons_expunge_load; eauto. destruct (Hw' eq_refl) as [_ (vis & _ & _ & _ & (_ & L2 & _))]. exact L2.
  - (* Expunge_cas *)
    destruct (Hw' eq_refl) as [_ (vis & _ & _ & _ & (_ & L2 & _))].
    destruct (f_e f) as [e|] eqn:Hfe; [|discriminate].
    destruct (ent i e) eqn:Hent; simplify_eq;
      try (apply cons_same; cbn; rewrite !PF by reflexivity; cbn; rewrite Hpc; reflexivity).
    cbn. apply cons_abs_same.
    + intros k0. apply abs_expunge; [apply is_exp_of_ent; congruence|]. unfold ent in Hent. intros v0. congruence.
    + cbn. rewrite los_pendf_dirty_next by reflexivity. rewrite PF by reflexivity. rewrite Hpc. reflexivity.
  - (* Expunge_load2 *)
    eapply cons_expunge_load; eauto. destruct (Hw' eq_refl) as [_ (vis & _ & _ & _ & (_ & L2 & _))]. exact L2.
Qed.
End LOS.

Lemma sf_cons t i f ch i' o :
  frag (f_call f) -> frame_ok f -> frame_pc_ok f -> WF_core (i_st i) -> (in_cs f = true -> WFL (i_st i) f) ->
  WF2 (i_st i) -> ref_inv (i_st i) f -> step_frame t i f ch = Some (Ok (i', o)) ->
  cons_post (i_st i) (i_st i') f o.
Proof.
  intros Hfr Hok Hpk Hc Hw H2 Hr H. destruct (f_call f) eqn:Hcall; try contradiction.
  - eapply cons_Load; eauto.
  - cbn in Hfr. subst p. eapply cons_LOS; eauto.
  - eapply cons_LAD; eauto.
Qed.


(* ---- the history: completed calls with their results ---- *)
(* pair every response with the open invocation of its thread *)
Fixpoint completed_from (cur : gmap nat call) (h : list event) : list (call * res) :=
  match h with
  | [] => []
  | EvInv t c :: h' => completed_from (<[t := c]> cur) h'
  | EvRes t r :: h' =>
      match cur !! t with
      | Some c => (c, r) :: completed_from (delete t cur) h'
      | None => completed_from cur h'
      end
  end.
Definition completed (h : list event) : list (call * res) := completed_from ∅ h.

(* LoadOrStore(j, k, _) that stored (loaded = false) / LoadAndDelete(j, k) that deleted (loaded = true) *)
Definition is_stored (j : nat) (k : Z) (cr : call * res) : bool :=
  match cr with
  | (CLoadOrStore j' k' _ _, RLos _ false) => Nat.eqb j' j && Z.eqb k' k
  | _ => false
  end.
Definition is_deleted (j : nat) (k : Z) (cr : call * res) : bool :=
  match cr with
  | (CLoadAndDelete j' k', ROpt (Some _)) => Nat.eqb j' j && Z.eqb k' k
  | _ => false
  end.
Definition count {X} (p : X -> bool) (l : list X) : Z := Z.of_nat (length (List.filter p l)).
Definition stored (j : nat) (k : Z) (h : list event) : Z := count (is_stored j k) (completed h).
Definition deleted (j : nat) (k : Z) (h : list event) : Z := count (is_deleted j k) (completed h).

(* the same as a left fold, which is how the history grows *)
Definition on_key (j : nat) (k : Z) (c : call) : bool := Nat.eqb (call_inst c) j && Z.eqb (key_of c) k.
Definition hdelta (j : nat) (k : Z) (oc : option call) (r : res) : Z :=
  match oc with Some c => if on_key j k c then dH c r else 0 | None => 0 end.
Definition hstep (j : nat) (k : Z) (st : gmap nat call * Z) (ev : event) : gmap nat call * Z :=
  match ev with
  | EvInv t c => (<[t := c]> st.1, st.2)
  | EvRes t r => (delete t st.1, st.2 + hdelta j k (st.1 !! t) r)
  end.
Definition hist_state (j : nat) (k : Z) (h : list event) : gmap nat call * Z := fold_left (hstep j k) h (∅, 0).

Lemma count_cons {X} (p : X -> bool) x l : count p (x :: l) = (if p x then 1 else 0) + count p l.
Proof. unfold count. cbn. destruct (p x); cbn [length]; lia. Qed.

Lemma hdelta_count j k c r :
  hdelta j k (Some c) r = (if is_stored j k (c, r) then 1 else 0) - (if is_deleted j k (c, r) then 1 else 0).
Proof.
  unfold hdelta, on_key, is_stored, is_deleted, dH.
  destruct c; cbn; try (destruct (_ && _); reflexivity).
  - destruct r; try (destruct (_ && _); reflexivity). destruct loaded; destruct (_ && _); reflexivity.
  - destruct r; try (destruct (_ && _); reflexivity). destruct o; destruct (_ && _); reflexivity.
Qed.

Lemma fold_hstep_completed j k h cur acc :
  (fold_left (hstep j k) h (cur, acc)).2 =
  acc + count (is_stored j k) (completed_from cur h) - count (is_deleted j k) (completed_from cur h).
Proof.
  revert cur acc. induction h as [|ev h IH]; intros cur acc; cbn.
  - unfold count. cbn. lia.
  - destruct ev as [t c|t r]; cbn.
    + apply IH.
    + rewrite IH. destruct (cur !! t) as [c|] eqn:E.
      * rewrite !count_cons, hdelta_count. lia.
      * cbn.
        assert (X : completed_from (delete t cur) h = completed_from cur h).
        { f_equal. apply delete_notin. exact E. }
        rewrite X. lia.
Qed.

Lemma balance_counts j k h : (hist_state j k h).2 = stored j k h - deleted j k h.
Proof. unfold hist_state, stored, deleted, completed. rewrite fold_hstep_completed. lia. Qed.

(* ---- calls in flight ---- *)
Definition pend (j : nat) (k : Z) (of : option frame) : Z :=
  match of with Some f => if on_key j k (f_call f) then pendf f else 0 | None => 0 end.
Definition sumZ (l : list Z) : Z := fold_right Z.add 0 l.
Definition pending (j : nat) (k : Z) (c : config) : Z :=
  sumZ (map (fun th => pend j k (head (t_stack th))) (c_threads c)).

Lemma sumZ_set {X} (g : X -> Z) t x old l :
  nth_error l t = Some old -> sumZ (map g (set_nth_list t x l)) = sumZ (map g l) - g old + g x.
Proof.
  unfold set_nth_list. revert t. induction l as [|y l IH]; intros [|t] H; cbn in *; try discriminate.
  - injection H as ->. rewrite drop_0. lia.
  - fold (sumZ (map g (take t l ++ x :: drop (S t) l))). rewrite (IH t H). unfold sumZ. lia.
Qed.

Definition thread_frag (th : thread) : Prop :=
  Forall frag (t_prog th) /\ Forall (fun f => frag (f_call f)) (t_stack th) /\ (length (t_stack th) <= 1)%nat.

Record Inv3 (j : nat) (k : Z) (c : config) : Prop := {
  i3_frag : forall t th, nth_error (c_threads c) t = Some th -> thread_frag th;
  i3_cur : forall t th, nth_error (c_threads c) t = Some th ->
           (hist_state j k (c_hist c)).1 !! t = if t_fresh th then None else f_call <$> head (t_stack th);
  i3_bal : forall i, nth_error (c_insts c) j = Some i ->
           (hist_state j k (c_hist c)).2 + pending j k c = Aof (i_st i) k
}.

(* one step of a thread of the fragment *)
Lemma step_frag c t ch c' th f :
  step c t ch = Some c' -> nth_error (c_threads c) t = Some th -> t_stack th = [f] -> frag (f_call f) ->
  is_post_label (f_pc f) = false ->
  let inv := if t_fresh th then [EvInv t (f_call f)] else [] in
  exists i r, nth_error (c_insts c) (call_inst (f_call f)) = Some i /\ step_frame t i f ch = Some r /\
    match r with
    | Panic _ => c_panicked c' = true
    | Ok (i', Continue f') =>
        c' = Config (set_nth_list (call_inst (f_call f)) i' (c_insts c)) (c_um c)
                    (set_nth_list t (Thread (t_prog th) [f'] (t_results th) false) (c_threads c))
                    (c_hist c ++ inv) false
    | Ok (i', Return r) =>
        c' = Config (set_nth_list (call_inst (f_call f)) i' (c_insts c)) (c_um c)
                    (set_nth_list t (next_call (Thread (t_prog th) [] (t_results th ++ [r]) false)) (c_threads c))
                    (c_hist c ++ inv ++ [EvRes t r]) false
    | Ok (_, Callback _ _ _) => False
    end.
Proof.
  intros H Hth Hst Hfr Hpl inv. rewrite step_unfold in H.
  destruct (c_panicked c); [discriminate|]. rewrite Hth, Hst, Hpl in H.
  destruct (nth_error (c_insts c) (call_inst (f_call f))) as [i|] eqn:Hi; [|discriminate].
  destruct (step_frame t i f ch) as [r|] eqn:Hsf; [|discriminate].
  exists i, r. split; [reflexivity|]. split; [exact Hsf|].
  destruct r as [[i' [f'|r|f' k v]]|k]; unfold fin in H.
  - simplify_eq. reflexivity.
  - cbn in H. destruct (f_call f); try contradiction; simplify_eq; reflexivity.
  - apply sf_callback in Hsf as (_ & _ & (j & cb & Hc) & _). rewrite Hc in Hfr. exact Hfr.
  - simplify_eq. reflexivity.
Qed.

Lemma pendf_new c : pendf (new_frame c) = 0.
Proof. destruct c; reflexivity. Qed.

Lemma pend_new j k c : pend j k (Some (new_frame c)) = 0.
Proof. unfold pend. rewrite pendf_new. destruct (on_key _ _ _); reflexivity. Qed.

Lemma hist_state_app j k h evs : hist_state j k (h ++ evs) = fold_left (hstep j k) evs (hist_state j k h).
Proof. unfold hist_state. apply fold_left_app. Qed.

Lemma frag_nopost c : frag c -> nopost c.
Proof. destruct c; cbn; auto. Qed.

Lemma Inv3_nopost j k c : Inv3 j k c -> calls_nopost c.
Proof.
  intros [Ifr _ _] t th Hth. destruct (Ifr t th Hth) as (H1 & H2 & _). split.
  - eapply List.Forall_impl; [|exact H1]. apply frag_nopost.
  - eapply List.Forall_impl; [|exact H2]. intros f. apply frag_nopost.
Qed.

(* the history after the invocation event of a step, if any *)
Lemma hist_inv j k (st : gmap nat call * Z) t c (fresh : bool) :
  (fresh = false -> st.1 !! t = Some c) ->
  let st' := fold_left (hstep j k) (if fresh then [EvInv t c] else []) st in
  st'.2 = st.2 /\ st'.1 !! t = Some c /\ forall t', t' <> t -> st'.1 !! t' = st.1 !! t'.
Proof.
  intros H. destruct fresh; cbn.
  - split; [reflexivity|]. split; [apply lookup_insert|]. intros t' N. apply lookup_insert_ne. congruence.
  - split; [reflexivity|]. split; [auto|]. reflexivity.
Qed.

Lemma on_key_spec j k c : on_key j k c = true <-> call_inst c = j /\ key_of c = k.
Proof.
  unfold on_key. rewrite andb_true_iff, Nat.eqb_eq, Z.eqb_eq. reflexivity.
Qed.

Theorem Inv3_step j k c t ch c' :
  Inv c -> Inv2 c -> Inv3 j k c -> step c t ch = Some c' -> Inv3 j k c'.
Proof.
  intros HI HI2 HI3 H. pose proof HI3 as [Ifr Icur Ibal].
  destruct (step_nopost c t ch c' HI (Inv3_nopost j k c HI3) H) as [_ Hnp].
  pose proof H as Hstep. apply step_cases in Hstep as (th & f & rest & th0 & Hth & Hst & _ & _).
  destruct (Ifr t th Hth) as (Hfp & Hfs & Hlen). rewrite Hst in Hfs, Hlen.
  destruct rest as [|? ?]; [|cbn in Hlen; lia]. inversion Hfs as [|? ? Hfr _]; subst.
  assert (Tt : top_frame c t = Some f) by (unfold top_frame; rewrite Hth, Hst; reflexivity).
  assert (Hok : frame_ok f) by (eapply inv_frames; eauto).
  assert (Hpl : is_post_label (f_pc f) = false).
  { destruct (is_post_label (f_pc f)) eqn:E; [|reflexivity]. exfalso. apply (fo_post _ Hok) in E.
    destruct (f_call f); cbn in *; try contradiction. }
  destruct (step_frag c t ch c' th f H Hth Hst Hfr Hpl) as (i & r & Hi & Hsf & Hr).
  destruct r as [[i' o]|kk]; [|rewrite Hr in Hnp; discriminate].
  set (j0 := call_inst (f_call f)) in *.
  assert (Hl : (j0 < length (c_insts c))%nat) by (eapply nth_error_lt; eauto).
  assert (Hlt : (t < length (c_threads c))%nat) by (eapply nth_error_lt; eauto).
  assert (Hcons : cons_post (i_st i) (i_st i') f o).
  { eapply sf_cons; eauto.
    - eapply i2_pc; eauto.
    - eapply Inv_WF_core; eauto.
    - intros Hcs. destruct (inv_insts c HI _ _ Hi) as [Hm Hw].
      assert (Hmu : i_mu i = Some t) by (apply Hm; exists f; auto). rewrite Hmu in Hw. apply Hw, Tt.
    - eapply i2_wf2; eauto.
    - eapply i2_ref; eauto. }
  pose proof (sf_frame_ok _ _ _ _ _ _ Hok Hsf) as Hfo.
  (* the state of instance j after the step *)
  assert (HA : forall i2, nth_error (set_nth_list j0 i' (c_insts c)) j = Some i2 ->
            exists i1, nth_error (c_insts c) j = Some i1 /\
              Aof (i_st i2) k - Aof (i_st i1) k = (if on_key j k (f_call f) then out_delta f o - pendf f else 0)).
  { intros i2 Hi2. destruct (decide (j = j0)) as [->|Nj].
    - rewrite nth_error_set_nth_list_eq in Hi2 by exact Hl. injection Hi2 as <-. exists i. split; [exact Hi|].
      destruct Hcons as [Hother Hkey]. destruct (on_key j0 k (f_call f)) eqn:E.
      + apply on_key_spec in E as [_ <-]. exact Hkey.
      + assert (N : k <> key_of (f_call f)).
        { intros ->. assert (on_key j0 (key_of (f_call f)) (f_call f) = true) by (apply on_key_spec; auto). congruence. }
        unfold Aof. rewrite (Hother k N). lia.
    - rewrite nth_error_set_nth_list_ne in Hi2 by auto. exists i2. split; [exact Hi2|].
      destruct (on_key j k (f_call f)) eqn:E; [|lia]. apply on_key_spec in E as [E _]. exfalso. apply Nj. symmetry. exact E. }
  assert (Hcur0 : t_fresh th = false -> (hist_state j k (c_hist c)).1 !! t = Some (f_call f)).
  { intros E. rewrite (Icur t th Hth), E, Hst. reflexivity. }
  destruct (hist_inv j k (hist_state j k (c_hist c)) t (f_call f) (t_fresh th) Hcur0) as (Hb & Hct & Hco).
  destruct o as [f'|r|f' k0 v0]; [| |contradiction].
  - (* the call goes on *)
    destruct Hfo as [_ Hcall]. subst c'. constructor; cbn [c_insts c_um c_threads c_hist c_panicked].
    + intros t' th'. destruct (decide (t' = t)) as [->|N].
      * rewrite nth_error_set_nth_list_eq by exact Hlt. intros [= <-]. split; [exact Hfp|]. cbn. split; [|lia].
        constructor; [rewrite Hcall; exact Hfr|constructor].
      * rewrite nth_error_set_nth_list_ne by auto. apply Ifr.
    + intros t' th'. rewrite hist_state_app. destruct (decide (t' = t)) as [->|N].
      * rewrite nth_error_set_nth_list_eq by exact Hlt. intros [= <-]. cbn. rewrite Hcall. exact Hct.
      * rewrite nth_error_set_nth_list_ne by auto. intros Hth'. rewrite (Hco t' N). apply Icur, Hth'.
    + intros i2 Hi2. destruct (HA i2 Hi2) as (i1 & Hi1 & HAof). specialize (Ibal i1 Hi1).
      rewrite hist_state_app, Hb. unfold pending in *. cbn.
      rewrite (sumZ_set _ t _ th) by exact Hth. rewrite Hst. cbn [head t_stack pend].
      rewrite Hcall. cbn [out_delta] in HAof. destruct (on_key j k (f_call f)); lia.
  - (* the call returns *)
    subst c'. constructor; cbn [c_insts c_um c_threads c_hist c_panicked].
    + intros t' th'. destruct (decide (t' = t)) as [->|N].
      * rewrite nth_error_set_nth_list_eq by exact Hlt. intros [= <-]. unfold next_call. cbn.
        destruct (t_prog th) as [|c0 p0] eqn:Ep; cbn.
        -- split; [constructor|]. split; [constructor|cbn; lia].
        -- inversion Hfp; subst. split; [assumption|]. split; [constructor; [assumption|constructor]|cbn; lia].
      * rewrite nth_error_set_nth_list_ne by auto. apply Ifr.
    + intros t' th'. rewrite app_assoc, !hist_state_app. cbn [fold_left hstep]. cbn [fst snd].
      destruct (decide (t' = t)) as [->|N].
      * rewrite nth_error_set_nth_list_eq by exact Hlt. intros [= <-]. rewrite lookup_delete. unfold next_call. cbn.
        destruct (t_prog th); reflexivity.
      * rewrite nth_error_set_nth_list_ne by auto. intros Hth'. rewrite lookup_delete_ne by congruence.
        rewrite (Hco t' N). apply Icur, Hth'.
    + intros i2 Hi2. destruct (HA i2 Hi2) as (i1 & Hi1 & HAof). specialize (Ibal i1 Hi1).
      rewrite app_assoc, !hist_state_app. cbn [fold_left hstep]. cbn [fst snd]. rewrite Hb, Hct.
      unfold pending in *. cbn.
      rewrite (sumZ_set _ t _ th) by exact Hth. rewrite Hst. cbn [head t_stack pend].
      assert (Hnew : pend j k (head (t_stack (next_call (Thread (t_prog th) [] (t_results th ++ [r]) false)))) = 0).
      { unfold next_call. cbn [t_prog]. destruct (t_prog th) as [|c1 p1]; cbn [t_stack head]; [reflexivity|]. apply pend_new. }
      rewrite Hnew. unfold hdelta. cbn [out_delta] in HAof. destruct (on_key j k (f_call f)); lia.
Qed.

Lemma sumZ_zero {X} (g : X -> Z) l : (forall x, In x l -> g x = 0) -> sumZ (map g l) = 0.
Proof.
  induction l as [|x l IH]; intros H; [reflexivity|]. cbn [map sumZ fold_right]. rewrite (H x) by (left; reflexivity).
  fold (sumZ (map g l)). rewrite IH; [reflexivity|]. intros y Hy. apply H. right. exact Hy.
Qed.

Theorem Inv3_init j k zs progs : Forall (Forall frag) progs -> Inv3 j k (init_config_z zs progs).
Proof.
  intros Hfr. constructor.
  - intros t th. cbn. rewrite nth_error_map. destruct (nth_error progs t) as [p|] eqn:E; [|discriminate]. cbn.
    intros [= <-]. assert (Hp : Forall frag p). { rewrite Forall_forall in Hfr. apply Hfr. eapply nth_error_In, E. }
    unfold next_call. cbn. destruct p as [|c0 p]; cbn.
    + split; [constructor|]. split; [constructor|cbn; lia].
    + inversion Hp; subst. split; [assumption|]. split; [constructor; [assumption|constructor]|cbn; lia].
  - intros t th. cbn. rewrite nth_error_map. destruct (nth_error progs t) as [p|]; [|discriminate]. cbn.
    intros [= <-]. unfold next_call. cbn. destruct p; reflexivity.
  - intros i Hi. cbn in Hi. rewrite nth_error_map in Hi. destruct (nth_error zs j) as [z|]; [|discriminate]. injection Hi as <-. cbn.
    unfold pending. cbn. rewrite sumZ_zero; [reflexivity|].
    intros th Hin. apply in_map_iff in Hin as (p & <- & _). unfold next_call. cbn.
    destruct p; cbn; [reflexivity|apply pend_new].
Qed.

Lemma Inv123_run j k c sched : Inv c -> Inv2 c -> Inv3 j k c ->
  Inv (run_schedule c sched) /\ Inv2 (run_schedule c sched) /\ Inv3 j k (run_schedule c sched).
Proof.
  revert c. induction sched as [|[t ch] sched IH]; intros c H1 H2 H3; cbn; [auto|].
  destruct (step c t ch) as [c'|] eqn:E; cbn; [|apply IH; assumption].
  apply IH; [eapply Inv_step; eauto|eapply Inv2_step; eauto|eapply Inv3_step; eauto].
Qed.

(* Per-key conservation. In every reachable configuration of programs made of
   Load / LoadOrStore / LoadAndDelete, for every instance j and key k:
   (#LoadOrStore(j,k) results with loaded = false) - (#LoadAndDelete(j,k) results
   with loaded = true) + (effects of calls in flight not yet reported) = [k present]. *)
Theorem conservation zs progs sched j k i :
  Forall (Forall frag) progs ->
  let c := run_schedule (init_config_z zs progs) sched in
  nth_error (c_insts c) j = Some i ->
  stored j k (c_hist c) - deleted j k (c_hist c) + pending j k c = Aof (i_st i) k.
Proof.
  intros Hfr c Hi.
  destruct (Inv123_run j k (init_config_z zs progs) sched (Inv_init_z zs progs) (Inv2_init_z zs progs) (Inv3_init j k zs progs Hfr))
    as (_ & _ & [_ _ Hbal]).
  rewrite <- balance_counts. apply Hbal. exact Hi.
Qed.

Lemma pending_finished j k c : finished c = true -> pending j k c = 0.
Proof.
  unfold finished, pending. intros H. apply sumZ_zero. intros th Hin.
  rewrite forallb_forall in H. specialize (H th Hin). destruct (t_stack th); [reflexivity|discriminate].
Qed.

(* when every goroutine has finished: stored - deleted = 1 if k is in the map, else 0 *)
Theorem conservation_quiescent zs progs sched j k i :
  Forall (Forall frag) progs ->
  let c := run_schedule (init_config_z zs progs) sched in
  nth_error (c_insts c) j = Some i -> finished c = true ->
  stored j k (c_hist c) - deleted j k (c_hist c) = Aof (i_st i) k.
Proof.
  intros Hfr c Hi Hfin. pose proof (conservation zs progs sched j k i Hfr Hi) as H. cbv zeta in H.
  fold c in H. rewrite (pending_finished j k c Hfin) in H. lia.
Qed.

Local Close Scope Z_scope.
(* ================================================================== *)
(* Bridge to the sequential development: whenever mu is free, the state
   satisfies the invariant WF of SyncMap/SeqProofs.v (restated here so that
   this file does not depend on it; Props/C04refs.v checks that the two are
   the same). So every lemma of the sequential refinement applies at every
   lock-free moment of every concurrent execution. *)
(* ================================================================== *)
Definition seq_WF (s : mstate) : Prop :=
  (forall k1 k2 e, read_m s !! k1 = Some e -> read_m s !! k2 = Some e -> k1 = k2) /\
  (forall k e, read_m s !! k = Some e -> (e < next_e s)%nat) /\
  match dirty s with
  | None => amended s = false /\ forall k e, read_m s !! k = Some e -> get_ent s e <> PExpunged
  | Some d =>
      amended s = true /\
      (forall k1 k2 e, d !! k1 = Some e -> d !! k2 = Some e -> k1 = k2) /\
      (forall k e, d !! k = Some e ->
         (e < next_e s)%nat /\ get_ent s e <> PExpunged /\
         (read_m s !! k = None -> exists v, get_ent s e = PVal v) /\
         (forall k', read_m s !! k' = Some e -> k' = k)) /\
      (forall k e, read_m s !! k = Some e ->
         d !! k = if decide (get_ent s e = PExpunged) then None else Some e)
  end.

Lemma not_exp_get s e : is_exp s e = false -> get_ent s e <> PExpunged.
Proof. unfold is_exp. destruct (get_ent s e); congruence. Qed.

Lemma WF_WF2_seq s : WF s -> WF2 s -> seq_WF s.
Proof.
  intros [Hc Ha] H2. split; [|split].
  - intros k1 k2 e Ha1 Ha2. apply (wf_inj s Hc k1 k2 e); left; assumption.
  - intros k e Hk. apply (wf_bound s Hc k e). left. exact Hk.
  - destruct (dirty s) as [d|] eqn:Hd.
    + assert (DL : forall k e, d !! k = Some e -> dirty_lookup s k = Some e)
        by (intros k e H; unfold dirty_lookup; rewrite Hd; exact H).
      split; [|split; [|split]].
      * destruct (amended s) eqn:E; [reflexivity|]. pose proof (wf_unamended s Ha E). congruence.
      * intros k1 k2 e H1 H3. apply (wf_inj s Hc k1 k2 e); right; auto.
      * intros k e Hk. split; [|split; [|split]].
        -- apply (wf_bound s Hc k e). right. auto.
        -- apply not_exp_get. apply (wf_dirty_live s Hc k e). auto.
        -- intros Hn. apply (H2 k e); auto.
        -- intros k' Hk'. apply (wf_inj s Hc k' k e); [left|right]; auto.
      * intros k e Hk. rewrite (wf_cover s Ha d k e Hd Hk). destruct (is_exp s e) eqn:E.
        -- apply is_exp_get in E. rewrite decide_True by exact E. reflexivity.
        -- rewrite decide_False by (apply not_exp_get; exact E). reflexivity.
    + split.
      * destruct (amended s) eqn:E; [|reflexivity]. exfalso. apply (wf_amended s Hc E). exact Hd.
      * intros k e Hk. apply not_exp_get. apply (wf_clean s Hc Hd k e Hk).
Qed.

Theorem seq_WF_when_unlocked zs progs sched j i :
  let c := run_schedule (init_config_z zs progs) sched in
  nth_error (c_insts c) j = Some i -> i_mu i = None -> seq_WF (i_st i).
Proof.
  intros c Hi Hmu. apply WF_WF2_seq.
  - apply (structure_lock_free_z zs progs sched j i Hi Hmu).
  - apply (i2_wf2 c (Inv2_reachable zs progs sched) j i Hi).
Qed.

(* entries that were never in a read map hold a value, at every moment *)
Theorem dirty_only_entries_hold_values zs progs sched j i :
  let c := run_schedule (init_config_z zs progs) sched in
  nth_error (c_insts c) j = Some i ->
  forall k e, dirty_lookup (i_st i) k = Some e -> read_m (i_st i) !! k = None -> exists v, get_ent (i_st i) e = PVal v.
Proof. intros c Hi. apply (i2_wf2 c (Inv2_reachable zs progs sched) j i Hi). Qed.

(* the entry a goroutine is about to compare-and-swap on a lock-free path
   (tryStore, tryLoadOrStore, entry.delete on an entry of a read map) is still
   the one the current read map holds for the key, or it is expunged and no
   longer reachable from either map (so the CAS fails / reports a miss) *)
Theorem stale_entry_is_dead zs progs sched t f i e :
  let c := run_schedule (init_config_z zs progs) sched in
  top_frame c t = Some f -> nth_error (c_insts c) (call_inst (f_call f)) = Some i -> f_e f = Some e ->
  (f_pc f = TryStore_load \/ f_pc f = TryStore_cas \/
   ((f_pc f = Tlos_load1 \/ f_pc f = Tlos_cas \/ f_pc f = Tlos_load2) /\ f_mode f = MFast) \/
   ((f_pc f = Delete_load \/ f_pc f = Delete_cas) /\ f_rd_m f !! key_of (f_call f) <> None)) ->
  pub_or_dead (i_st i) (key_of (f_call f)) e.
Proof.
  intros c Hf Hi He Hpc. pose proof (Inv2_reachable zs progs sched) as HI2.
  destruct (i2_ref c HI2 t f i Hf Hi) as [Hre _]. pose proof (i2_pc c HI2 t f Hf) as Hpk.
  unfold ref_e in Hre. unfold frame_pc_ok in Hpk.
  destruct Hpc as [Hpc|[Hpc|[[Hpc Hm]|[Hpc Hrd]]]].
  - rewrite Hpc in Hre. apply Hre, He.
  - rewrite Hpc in Hre. apply Hre, He.
  - destruct Hpc as [Hpc|[Hpc|Hpc]]; rewrite Hpc in Hre; specialize (Hre e He); rewrite Hm in Hre; exact Hre.
  - assert (Hlad : is_lad (f_call f) = true) by (destruct Hpc as [Hpc|Hpc]; rewrite Hpc in Hpk; eapply is_lad_pc_ok; eauto 10).
    rewrite Hlad in Hre. destruct (f_rd_m f !! key_of (f_call f)) eqn:E; [|congruence].
    destruct Hpc as [Hpc|Hpc]; rewrite Hpc in Hre; apply Hre, He.
Qed.
