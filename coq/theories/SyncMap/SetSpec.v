(* The sequential specification of a set and the alternation law that a
   linearizable set inherits from it (used by C05): in every legal sequential
   history, for each value, the successful Adds and Removes alternate starting
   with an Add, and #successful Adds - #successful Removes is the final
   membership (0 or 1). *)
From stdpp Require Import gmap.
From Coq Require Import ZArith Lia List.
Import ListNotations.
Local Open Scope Z_scope.

Inductive sop := SAdd (v : Z) (ok : bool) | SRemove (v : Z) (ok : bool) | SHas (v : Z) (r : bool).

(* the sequential set: Add reports true iff the value was absent, etc. *)
Fixpoint legal (s : gset Z) (h : list sop) : Prop :=
  match h with
  | [] => True
  | SAdd v ok :: h' => ok = negb (bool_decide (v ∈ s)) /\ legal (if ok then {[v]} ∪ s else s) h'
  | SRemove v ok :: h' => ok = bool_decide (v ∈ s) /\ legal (if ok then s ∖ {[v]} else s) h'
  | SHas v r :: h' => r = bool_decide (v ∈ s) /\ legal s h'
  end.

Fixpoint final (s : gset Z) (h : list sop) : gset Z :=
  match h with
  | [] => s
  | SAdd v ok :: h' => final (if ok then {[v]} ∪ s else s) h'
  | SRemove v ok :: h' => final (if ok then s ∖ {[v]} else s) h'
  | SHas _ _ :: h' => final s h'
  end.

(* the successful Add/Remove events of value v, in order: true = Add, false = Remove *)
Fixpoint succ_events (v : Z) (h : list sop) : list bool :=
  match h with
  | [] => []
  | SAdd w true :: h' => if bool_decide (w = v) then true :: succ_events v h' else succ_events v h'
  | SRemove w true :: h' => if bool_decide (w = v) then false :: succ_events v h' else succ_events v h'
  | _ :: h' => succ_events v h'
  end.

(* alternating, the first element being [first] *)
Fixpoint alternates (first : bool) (l : list bool) : Prop :=
  match l with [] => True | b :: l' => b = first /\ alternates (negb first) l' end.

Definition count_true (l : list bool) : Z := Z.of_nat (length (filter (fun b => b) l)).
Definition count_false (l : list bool) : Z := Z.of_nat (length (filter negb l)).

Lemma alternation_gen v h : forall s, legal s h ->
  alternates (negb (bool_decide (v ∈ s))) (succ_events v h) /\
  count_true (succ_events v h) - count_false (succ_events v h)
    = (if bool_decide (v ∈ final s h) then 1 else 0) - (if bool_decide (v ∈ s) then 1 else 0).
Proof.
  induction h as [|o h IH]; intros s L.
  - simpl. split; [exact I|]. unfold count_true, count_false. simpl. lia.
  - destruct o as [w ok|w ok|w r]; simpl in L; destruct L as [E L].
    + destruct ok; simpl.
      * destruct (IH _ L) as [A C]. destruct (bool_decide_reflect (w = v)) as [->|Hne].
        -- assert (Hin : bool_decide (v ∈ s) = false) by (destruct (bool_decide (v ∈ s)); [discriminate|reflexivity]).
           assert (Hin' : bool_decide (v ∈ ({[v]} ∪ s : gset Z)) = true) by (apply bool_decide_eq_true; set_solver).
           rewrite Hin' in A, C. rewrite Hin. simpl. split; [split; [reflexivity|exact A]|].
           unfold count_true, count_false in *. simpl. lia.
        -- assert (Hin' : bool_decide (v ∈ ({[w]} ∪ s : gset Z)) = bool_decide (v ∈ s)).
           { apply bool_decide_ext. set_solver. }
           rewrite Hin' in A, C. split; assumption.
      * apply IH. exact L.
    + destruct ok; simpl.
      * destruct (IH _ L) as [A C]. destruct (bool_decide_reflect (w = v)) as [->|Hne].
        -- assert (Hin : bool_decide (v ∈ s) = true) by (symmetry; exact E).
           assert (Hin' : bool_decide (v ∈ (s ∖ {[v]} : gset Z)) = false) by (apply bool_decide_eq_false; set_solver).
           rewrite Hin' in A, C. rewrite Hin. simpl. split; [split; [reflexivity|exact A]|].
           unfold count_true, count_false in *. simpl. lia.
        -- assert (Hin' : bool_decide (v ∈ (s ∖ {[w]} : gset Z)) = bool_decide (v ∈ s)).
           { apply bool_decide_ext. set_solver. }
           rewrite Hin' in A, C. split; assumption.
      * apply IH. exact L.
    + apply IH. exact L.
Qed.

(* from the empty set: alternation starting with an Add; the balance is the final membership, 0 or 1 *)
Theorem seq_alternation v h : legal ∅ h ->
  alternates true (succ_events v h) /\
  count_true (succ_events v h) - count_false (succ_events v h) = (if bool_decide (v ∈ final ∅ h) then 1 else 0).
Proof.
  intros L. destruct (alternation_gen v h ∅ L) as [A C].
  revert A C. case_bool_decide as E; [set_solver|]. simpl. intros A C. split; [exact A|]. lia.
Qed.

(* Has never reports a value that was never added: a legal history in which Has v = true contains an earlier successful Add v *)
Theorem has_true_after_add v : forall (s : gset Z) pre, legal s (pre ++ [SHas v true]) -> v ∉ s ->
  In true (succ_events v pre).
Proof.
  intros s pre. revert s. induction pre as [|o pre IH]; intros s L Hs.
  - simpl in L. destruct L as [E _]. symmetry in E. apply bool_decide_eq_true in E. contradiction.
  - destruct o as [w ok|w ok|w r]; simpl in L; destruct L as [E L].
    + destruct ok; simpl.
      * destruct (bool_decide_reflect (w = v)) as [->|Hne]; [left; reflexivity|].
        apply (IH _ L). set_solver.
      * apply (IH _ L Hs).
    + destruct ok; simpl.
      * destruct (bool_decide_reflect (w = v)) as [->|Hne].
        -- right. apply (IH _ L). set_solver.
        -- apply (IH _ L). set_solver.
      * apply (IH _ L Hs).
    + simpl. apply (IH _ L Hs).
Qed.
