(* Model of /repo/avl/avl.go (after the fix: commits in /repo), transcribed
   method by method. A *node[T] that is uniquely owned becomes an inductive
   value ([E] = nil); a mutating method becomes a function returning the new
   node (every caller in avl.go overwrites the pointer it descended through
   with the returned pointer). [h] is the CACHED height field exactly as the
   code maintains it; the real height is computed separately in the proofs.
   A method called on a nil receiver, or dereferencing a nil child, is
   [Panic NilDeref]; the theorems show these are never reached.
   Definitions only. *)
From Typ Require Export Lib.Base.
Local Open Scope Z_scope.

Section Avl.
Context {A : Type} (eqb : A -> A -> bool) (cmp : A -> A -> Z).

Inductive tree := E | N (l : tree) (v : A) (h : Z) (r : tree).

Definition is_nil (t : tree) : bool := match t with E => true | _ => false end.

(* n.leftHeight() / n.rightHeight(): "if n.left == nil { return -1 }; return n.left.height" *)
Definition height_of (child : tree) : Z := match child with E => -1 | N _ _ h _ => h end.

(* n.calcHeight() on a node with children l, r *)
Definition calcHeight (l r : tree) : Z :=
  match l, r with
  | E, E => 0
  | E, _ => 1 + height_of r
  | _, E => 1 + height_of l
  | _, _ => 1 + Z.max (height_of l) (height_of r)
  end.

Inductive balanceFactor := Balanced | RightHeavy | LeftHeavy.

(* n.balance() *)
Definition balance (l r : tree) : balanceFactor :=
  let leftHeight := height_of l in
  let rightHeight := height_of r in
  if leftHeight - rightHeight >? 1 then LeftHeavy
  else if rightHeight - leftHeight >? 1 then RightHeavy
  else Balanced.

(* "if x != nil { x.height = x.calcHeight() }" *)
Definition recalc (t : tree) : tree :=
  match t with E => E | N l v _ r => N l v (calcHeight l r) r end.

(* n.rotateLeft() *)
Definition rotateLeft (n : tree) : result tree :=
  match n with
  | N l v _ (N rl rv _ rr) =>
      let moved := recalc rl in                       (* prevRoot.right = newRoot.left; recompute its height *)
      let prevRoot := N l v (calcHeight l moved) moved in
      Ok (N prevRoot rv (calcHeight prevRoot rr) rr)  (* newRoot.left = &prevRoot; newRoot.height = ... *)
  | _ => Panic NilDeref
  end.

(* n.rotateRight() *)
Definition rotateRight (n : tree) : result tree :=
  match n with
  | N (N ll lv _ lr) v _ r =>
      let moved := recalc lr in
      let prevRoot := N moved v (calcHeight moved r) r in
      Ok (N ll lv (calcHeight ll prevRoot) prevRoot)
  | _ => Panic NilDeref
  end.

(* n.rotateLeftRight(): n.right = n.right.rotateRight(); return n.rotateLeft() *)
Definition rotateLeftRight (n : tree) : result tree :=
  match n with
  | N l v h r => do r' <- rotateRight r; rotateLeft (N l v h r')
  | E => Panic NilDeref
  end.

(* n.rotateRightLeft(): n.left = n.left.rotateLeft(); return n.rotateRight() *)
Definition rotateRightLeft (n : tree) : result tree :=
  match n with
  | N l v h r => do l' <- rotateLeft l; rotateRight (N l' v h r)
  | E => Panic NilDeref
  end.

(* n.rebalance() *)
Definition rebalance (n : tree) : result tree :=
  match n with
  | E => Panic NilDeref
  | N l v h r =>
      match balance l r with
      | RightHeavy =>
          match r with
          | N rl _ _ rr => if height_of rl >? height_of rr then rotateLeftRight n else rotateLeft n
          | E => rotateLeft n
          end
      | LeftHeavy =>
          match l with
          | N ll _ _ lr => if height_of lr >? height_of ll then rotateRightLeft n else rotateRight n
          | E => rotateRight n
          end
      | Balanced => Ok n
      end
  end.

Definition leaf (value : A) : tree := N E value 0 E.

(* n.add(value, compare) *)
Fixpoint add (value : A) (n : tree) : result tree :=
  match n with
  | E => Panic NilDeref
  | N l v h r =>
      if cmp value v <? 0 then
        do l' <- (match l with E => Ok (leaf value) | _ => add value l end);
        rebalance (N l' v (calcHeight l' r) r)
      else
        do r' <- (match r with E => Ok (leaf value) | _ => add value r end);
        rebalance (N l v (calcHeight l r') r')
  end.

(* n.popLeftMost(): returns (child, value of the left-most node) *)
Fixpoint popLeftMost (n : tree) : result (tree * A) :=
  match n with
  | E => Panic NilDeref
  | N E v _ r => Ok (r, v)
  | N l v _ r =>
      do (newLeft, popped) <- popLeftMost l;
      do n' <- rebalance (N newLeft v (calcHeight newLeft r) r);
      Ok (n', popped)
  end.

(* n.remove(value, compare) *)
Fixpoint remove (value : A) (n : tree) : result (tree * bool) :=
  match n with
  | E => Panic NilDeref
  | N l v h r =>
      if eqb v value then
        match l, r with
        | E, E => Ok (E, true)
        | E, _ => Ok (r, true)
        | _, E => Ok (l, true)
        | _, _ =>
            do (newRight, leftMost) <- popLeftMost r;
            do n' <- rebalance (N l leftMost (calcHeight l newRight) newRight);
            Ok (n', true)
        end
      else if negb (is_nil l) && (cmp value v <? 0) then
        do (newNode, ok) <- remove value l;
        if ok then do n' <- rebalance (N newNode v (calcHeight newNode r) r); Ok (n', true)
        else Ok (n, false)
      else if negb (is_nil r) then
        do (newNode, ok) <- remove value r;
        if ok then do n' <- rebalance (N l v (calcHeight l newNode) newNode); Ok (n', true)
        else Ok (n, false)
      else Ok (n, false)
  end.

(* n.find(value, compare) != nil; the loop moves to a child, so it is structural *)
Fixpoint contains (value : A) (n : tree) : bool :=
  match n with
  | E => false
  | N l v _ r =>
      if eqb v value then true
      else if negb (is_nil l) && (cmp value v <? 0) then contains value l
      else if negb (is_nil r) then contains value r
      else false
  end.

Fixpoint preorder (t : tree) : list A :=
  match t with E => [] | N l v _ r => v :: preorder l ++ preorder r end.
Fixpoint inorder (t : tree) : list A :=
  match t with E => [] | N l v _ r => inorder l ++ v :: inorder r end.
Fixpoint postorder (t : tree) : list A :=
  match t with E => [] | N l v _ r => postorder l ++ postorder r ++ [v] end.

(* ---- type Tree ---- *)
Record Tree := mkTree { root : tree; count : Z }.
Definition empty_Tree : Tree := mkTree E 0.

Definition Tree_Add (t : Tree) (value : A) : result Tree :=
  do root' <- (match root t with E => Ok (leaf value) | _ => add value (root t) end);
  Ok (mkTree root' (count t + 1)).

Definition Tree_Remove (t : Tree) (value : A) : result (Tree * bool) :=
  match root t with
  | E => Ok (t, false)
  | _ => do (newRoot, ok) <- remove value (root t);
         Ok (mkTree newRoot (if ok then count t - 1 else count t), ok)
  end.

Definition Tree_Contains (t : Tree) (value : A) : bool :=
  match root t with E => false | _ => contains value (root t) end.

Definition Tree_Clear (t : Tree) : Tree := mkTree E 0.
Definition Tree_Len (t : Tree) : Z := count t.

(* n.slice(walk): make([]T, 0, n.count) panics for a negative count *)
Definition Tree_slice (t : Tree) (walk : tree -> list A) : result (list A) :=
  if count t <? 0 then Panic OtherPanic else Ok (walk (root t)).

(* clone := Tree{compare}; n.WalkPreOrder(clone.Add) *)
Fixpoint Tree_adds (t : Tree) (vs : list A) : result Tree :=
  match vs with [] => Ok t | v :: vs' => do t' <- Tree_Add t v; Tree_adds t' vs' end.
Definition Tree_Clone (t : Tree) : result Tree := Tree_adds empty_Tree (preorder (root t)).

(* ---- histories over several trees (handles = positions in the list) ---- *)
Inductive op :=
| OpAdd (h : nat) (v : A) | OpRemove (h : nat) (v : A) | OpContains (h : nat) (v : A)
| OpLen (h : nat) | OpClear (h : nat) | OpClone (h : nat)
| OpPre (h : nat) | OpIn (h : nat) | OpPost (h : nat).

Inductive out := OUnit | OBool (b : bool) | OInt (z : Z) | OList (l : list A) | OPanic (k : panic_kind) | OBadHandle.

Definition set_handle (ts : list Tree) (h : nat) (t : Tree) : list Tree :=
  firstn h ts ++ t :: skipn (S h) ts.

Definition step (ts : list Tree) (o : op) : list Tree * out :=
  let with_tree h (f : Tree -> list Tree * out) :=
    match nth_error ts h with Some t => f t | None => (ts, OBadHandle) end in
  match o with
  | OpAdd h v => with_tree h (fun t =>
      match Tree_Add t v with Ok t' => (set_handle ts h t', OUnit) | Panic k => (ts, OPanic k) end)
  | OpRemove h v => with_tree h (fun t =>
      match Tree_Remove t v with Ok (t', b) => (set_handle ts h t', OBool b) | Panic k => (ts, OPanic k) end)
  | OpContains h v => with_tree h (fun t => (ts, OBool (Tree_Contains t v)))
  | OpLen h => with_tree h (fun t => (ts, OInt (Tree_Len t)))
  | OpClear h => with_tree h (fun t => (set_handle ts h (Tree_Clear t), OUnit))
  | OpClone h => with_tree h (fun t =>
      match Tree_Clone t with Ok t' => (ts ++ [t'], OUnit) | Panic k => (ts, OPanic k) end)
  | OpPre h => with_tree h (fun t =>
      match Tree_slice t preorder with Ok l => (ts, OList l) | Panic k => (ts, OPanic k) end)
  | OpIn h => with_tree h (fun t =>
      match Tree_slice t inorder with Ok l => (ts, OList l) | Panic k => (ts, OPanic k) end)
  | OpPost h => with_tree h (fun t =>
      match Tree_slice t postorder with Ok l => (ts, OList l) | Panic k => (ts, OPanic k) end)
  end.

Fixpoint run (ts : list Tree) (ops : list op) : list Tree * list out :=
  match ops with
  | [] => (ts, [])
  | o :: ops' => let '(ts', x) := step ts o in let '(ts'', xs) := run ts' ops' in (ts'', x :: xs)
  end.

(* a history starts with one empty tree (handle 0) *)
Definition run_history (ops : list op) : list Tree * list out := run [empty_Tree] ops.

End Avl.

Arguments E {A}.
Arguments N {A} l v h r.
Arguments OUnit {A}.
Arguments OBool {A} b.
Arguments OInt {A} z.
Arguments OList {A} l.
Arguments OPanic {A} k.
Arguments OBadHandle {A}.
Arguments mkTree {A} root count.
Arguments empty_Tree {A}.

(* typ.Compare on an ordered type, here on Z *)
Definition zcompare (a b : Z) : Z := if (a >? b)%Z then 1 else if (a <? b)%Z then -1 else 0.
