(* C02 — cost copies of find / add / remove of Avl/Model.v: the same functions,
   branch by branch, returning in addition the number of comparator calls
   made ([compare(value, n.value)] is evaluated once per visited node in add;
   in find and remove only when the left child is not nil, because && short-
   circuits). Definitions only; CostProofs.v proves that the first component
   is the uninstrumented function and bounds the second. [run_calls] gives the
   number of calls of every op of a history; Avl/Check.v compares it EXACTLY
   with the calls counted on the real code by a wrapping comparator. *)
From Typ Require Export Lib.Base Avl.Model.
Local Open Scope Z_scope.

Section Cost.
Context {A : Type} (eqb : A -> A -> bool) (cmp : A -> A -> Z).

Fixpoint contains_cost (value : A) (n : tree) : bool * nat :=
  match n with
  | E => (false, O)
  | N l v _ r =>
      if eqb v value then (true, O)
      else match l with
           | E => (* current.left != nil is false: compare not called *)
               if negb (is_nil r) then contains_cost value r else (false, O)
           | _ =>
               if cmp value v <? 0 then let '(b, k) := contains_cost value l in (b, S k)
               else if negb (is_nil r) then let '(b, k) := contains_cost value r in (b, S k)
               else (false, 1%nat)
           end
  end.

Fixpoint add_cost (value : A) (n : tree) : result tree * nat :=
  match n with
  | E => (Panic NilDeref, O)
  | N l v h r =>
      if cmp value v <? 0 then
        let '(rl, k) := (match l with E => (Ok (leaf value), O) | _ => add_cost value l end) in
        (do l' <- rl; rebalance (N l' v (calcHeight l' r) r), S k)
      else
        let '(rr, k) := (match r with E => (Ok (leaf value), O) | _ => add_cost value r end) in
        (do r' <- rr; rebalance (N l v (calcHeight l r') r'), S k)
  end.

Fixpoint remove_cost (value : A) (n : tree) : result (tree * bool) * nat :=
  match n with
  | E => (Panic NilDeref, O)
  | N l v h r =>
      if eqb v value then
        (match l, r with
         | E, E => Ok (E, true)
         | E, _ => Ok (r, true)
         | _, E => Ok (l, true)
         | _, _ =>
             do (newRight, leftMost) <- popLeftMost r;
             do n' <- rebalance (N l leftMost (calcHeight l newRight) newRight);
             Ok (n', true)
         end, O)
      else match l with
           | E =>
               if negb (is_nil r) then
                 let '(rr, k) := remove_cost value r in
                 (do (newNode, ok) <- rr;
                  if ok then do n' <- rebalance (N l v (calcHeight l newNode) newNode); Ok (n', true)
                  else Ok (n, false), k)
               else (Ok (n, false), O)
           | _ =>
               if cmp value v <? 0 then
                 let '(rl, k) := remove_cost value l in
                 (do (newNode, ok) <- rl;
                  if ok then do n' <- rebalance (N newNode v (calcHeight newNode r) r); Ok (n', true)
                  else Ok (n, false), S k)
               else if negb (is_nil r) then
                 let '(rr, k) := remove_cost value r in
                 (do (newNode, ok) <- rr;
                  if ok then do n' <- rebalance (N l v (calcHeight l newNode) newNode); Ok (n', true)
                  else Ok (n, false), S k)
               else (Ok (n, false), 1%nat)
           end
  end.

(* ---- Tree level: Tree.Contains / Tree.Add / Tree.Remove test "n.root == nil" first
   (no comparator call), then call the node method ---- *)
Definition Tree_Contains_calls (t : Tree (A:=A)) (value : A) : nat :=
  match root t with E => O | _ => snd (contains_cost value (root t)) end.
Definition Tree_Add_calls (t : Tree (A:=A)) (value : A) : nat :=
  match root t with E => O | _ => snd (add_cost value (root t)) end.
Definition Tree_Remove_calls (t : Tree (A:=A)) (value : A) : nat :=
  match root t with E => O | _ => snd (remove_cost value (root t)) end.

(* comparator calls made by one op of a history in state [ts]. Len / Clear and the
   three slices never call the comparator (Some 0); Clone (a run of Adds on a fresh
   tree) is not counted and a bad handle runs nothing: None *)
Definition op_calls (ts : list (Tree (A:=A))) (o : op (A:=A)) : option nat :=
  match o with
  | OpAdd h v => option_map (fun t => Tree_Add_calls t v) (nth_error ts h)
  | OpRemove h v => option_map (fun t => Tree_Remove_calls t v) (nth_error ts h)
  | OpContains h v => option_map (fun t => Tree_Contains_calls t v) (nth_error ts h)
  | OpLen h | OpClear h | OpPre h | OpIn h | OpPost h => option_map (fun _ => O) (nth_error ts h)
  | OpClone _ => None
  end.

(* the calls of every op of a history, each counted in the state the op starts from *)
Fixpoint run_calls (ts : list (Tree (A:=A))) (ops : list (op (A:=A))) : list (option nat) :=
  match ops with
  | [] => []
  | o :: ops' => op_calls ts o :: run_calls (fst (step eqb cmp ts o)) ops'
  end.

End Cost.
