(* C02 — history level: every tree reachable through the public API
   (Add / Remove / Clear / Clone, any interleaving, any number of handles)
   satisfies the shape invariant [inv] of Avl/Balance.v, its [count] field is
   the number of nodes, and no operation panics. No assumption on the
   comparator or on the equality. *)
From Typ Require Import Lib.Base Avl.Model Avl.Balance Avl.Fib.
Local Open Scope Z_scope.

Section Hist.
Context {A : Type} (eqb : A -> A -> bool) (cmp : A -> A -> Z).
Implicit Types t : Tree (A:=A).

Definition good t : Prop := inv (root t) /\ count t = size (root t).

Lemma good_empty : good empty_Tree.
Proof. split; [apply inv_E|reflexivity]. Qed.

Lemma Tree_Add_good t v :
  good t -> exists t', Tree_Add cmp t v = Ok t' /\ good t' /\ root t' <> E /\
    count t' = count t + 1 /\ height (root t) <= height (root t') <= height (root t) + 1.
Proof.
  intros [Hi Hc]. unfold Tree_Add. destruct (root t) as [|a b c d] eqn:Er.
  - cbn [bind]. eexists; split; [reflexivity|]. cbn [root count].
    split; [split; cbn [root count]; [apply inv_leaf|rewrite Hc; cbn; lia]|]. split; [discriminate|]. cbn. lia.
  - rewrite <- Er in *.
    destruct (add_inv cmp v (root t) ltac:(rewrite Er; discriminate) Hi) as (t' & -> & I1 & N1 & H1 & S1).
    cbn [bind]. eexists; split; [reflexivity|]. cbn [root count].
    split; [split; cbn [root count]; [exact I1|lia]|]. split; [exact N1|]. lia.
Qed.

Lemma Tree_Remove_good t v :
  good t -> exists t' b, Tree_Remove eqb cmp t v = Ok (t', b) /\ good t' /\
    count t' = (if b then count t - 1 else count t) /\
    height (root t) - 1 <= height (root t') <= height (root t).
Proof.
  intros [Hi Hc]. unfold Tree_Remove. destruct (root t) as [|a b c d] eqn:Er.
  - exists t, false. split; [reflexivity|]. split; [split; [rewrite Er; apply inv_E|rewrite Er; exact Hc]|].
    rewrite Er. cbn. lia.
  - rewrite <- Er in *.
    destruct (remove_inv eqb cmp v (root t) ltac:(rewrite Er; discriminate) Hi) as (t' & b' & -> & I1 & H1 & S1 & F1).
    cbn [bind]. eexists _, b'; split; [reflexivity|]. cbn [root count].
    split; [|split; [reflexivity|exact H1]].
    split; cbn [root count]; [exact I1|]. destruct b'.
    + rewrite S1 by reflexivity. lia.
    + rewrite F1 by reflexivity. exact Hc.
Qed.

Lemma Tree_adds_good vs : forall t, good t -> exists t', Tree_adds cmp t vs = Ok t' /\ good t'.
Proof.
  induction vs as [|v vs IH]; intros t Hg; cbn [Tree_adds].
  - exists t. split; [reflexivity|exact Hg].
  - destruct (Tree_Add_good t v Hg) as (t1 & -> & Hg1 & _). cbn [bind]. apply IH, Hg1.
Qed.

Lemma Tree_Clone_good t : exists t', Tree_Clone cmp t = Ok t' /\ good t'.
Proof. apply Tree_adds_good, good_empty. Qed.

Lemma Tree_slice_good t walk : good t -> Tree_slice t walk = Ok (walk (root t)).
Proof.
  intros [_ Hc]. unfold Tree_slice. pose proof (size_ge (root t)).
  destruct (Z.ltb_spec (count t) 0); [lia|reflexivity].
Qed.

Lemma set_handle_good ts : forall h t, Forall good ts -> good t -> Forall good (set_handle ts h t).
Proof.
  unfold set_handle. induction ts as [|x ts IH]; intros [|h] t Hts Ht; cbn [firstn skipn app].
  - constructor; [exact Ht|constructor].
  - constructor; [exact Ht|constructor].
  - constructor; [exact Ht|]. inversion Hts; assumption.
  - inversion Hts; subst. constructor; [assumption|]. apply IH; assumption.
Qed.

Definition not_panic (o : out (A:=A)) : Prop := forall k, o <> OPanic k.

Lemma step_good ts o :
  Forall good ts -> Forall good (fst (step eqb cmp ts o)) /\ not_panic (snd (step eqb cmp ts o)).
Proof.
  intros Hts. unfold not_panic.
  assert (forall h t, nth_error ts h = Some t -> good t) as Hnth.
  { intros h t Hn. eapply Forall_forall; [exact Hts|]. eapply nth_error_In; exact Hn. }
  destruct o as [h v|h v|h v|h|h|h|h|h|h]; cbn [step];
    (destruct (nth_error ts h) as [t|] eqn:En; [pose proof (Hnth h t En) as Hg|cbn [fst snd]; split; [exact Hts|discriminate]]).
  - destruct (Tree_Add_good t v Hg) as (t' & -> & Hg' & _). cbn [fst snd].
    split; [apply set_handle_good; assumption|discriminate].
  - destruct (Tree_Remove_good t v Hg) as (t' & b & -> & Hg' & _). cbn [fst snd].
    split; [apply set_handle_good; assumption|discriminate].
  - cbn [fst snd]. split; [exact Hts|discriminate].
  - cbn [fst snd]. split; [exact Hts|discriminate].
  - cbn [fst snd]. split; [apply set_handle_good; [exact Hts|apply good_empty]|discriminate].
  - destruct (Tree_Clone_good t) as (t' & -> & Hg'). cbn [fst snd].
    split; [|discriminate]. apply Forall_app. split; [exact Hts|]. constructor; [exact Hg'|constructor].
  - rewrite Tree_slice_good by exact Hg. cbn [fst snd]. split; [exact Hts|discriminate].
  - rewrite Tree_slice_good by exact Hg. cbn [fst snd]. split; [exact Hts|discriminate].
  - rewrite Tree_slice_good by exact Hg. cbn [fst snd]. split; [exact Hts|discriminate].
Qed.

Lemma run_good ops : forall ts,
  Forall good ts -> Forall good (fst (run eqb cmp ts ops)) /\ Forall not_panic (snd (run eqb cmp ts ops)).
Proof.
  induction ops as [|o ops IH]; intros ts Hts; cbn [run].
  - cbn [fst snd]. split; [exact Hts|constructor].
  - destruct (step_good ts o Hts) as [H1 H2]. destruct (step eqb cmp ts o) as [ts' x]. cbn [fst snd] in *.
    destruct (IH ts' H1) as [H3 H4]. destruct (run eqb cmp ts' ops) as [ts'' xs]. cbn [fst snd] in *.
    split; [exact H3|constructor; assumption].
Qed.

(* the state after a history is also the state after every prefix of a longer
   history: "after EVERY Add or Remove" is covered by quantifying over all
   operation lists *)
Lemma run_app ops1 ops2 ts :
  run eqb cmp ts (ops1 ++ ops2) =
  let '(ts1, xs1) := run eqb cmp ts ops1 in
  let '(ts2, xs2) := run eqb cmp ts1 ops2 in (ts2, xs1 ++ xs2).
Proof.
  revert ts; induction ops1 as [|o ops1 IH]; intros ts; cbn [run app].
  - destruct (run eqb cmp ts ops2); reflexivity.
  - destruct (step eqb cmp ts o) as [ts' x]. rewrite IH.
    destruct (run eqb cmp ts' ops1) as [ts1 xs1]. destruct (run eqb cmp ts1 ops2); reflexivity.
Qed.

Theorem history_good ops :
  Forall good (fst (run_history eqb cmp ops)) /\ Forall not_panic (snd (run_history eqb cmp ops)).
Proof. apply run_good. constructor; [apply good_empty|constructor]. Qed.

(* every handle, after every history *)
Theorem history_inv ops h t :
  nth_error (fst (run_history eqb cmp ops)) h = Some t ->
  inv (root t) /\ count t = size (root t).
Proof.
  intros Hn. destruct (history_good ops) as [Hg _].
  eapply Forall_forall in Hg; [exact Hg|]. eapply nth_error_In; exact Hn.
Qed.

Theorem history_no_panic ops k : ~ In (OPanic k) (snd (run_history eqb cmp ops)).
Proof.
  intros Hin. destruct (history_good ops) as [_ Hp].
  eapply Forall_forall in Hp; [|exact Hin]. exact (Hp k eq_refl).
Qed.

(* the property as stated: after every history, on every handle, the tree is
   height-balanced on real heights, the cache is right, Len is the number of
   nodes n, and the number of levels is at most 1.4405*log2(n+2) *)
Theorem history_balanced ops h t :
  nth_error (fst (run_history eqb cmp ops)) h = Some t ->
  avl (root t) /\ cached_ok (root t) /\ Tree_Len t = size (root t) /\
  2 ^ (10000 * (height (root t) + 1)) <= (Tree_Len t + 2) ^ 14405.
Proof.
  intros Hn. destruct (history_inv ops h t Hn) as [[Ha Hc] Hs]. unfold Tree_Len.
  split; [exact Ha|]. split; [exact Hc|]. split; [exact Hs|].
  rewrite Hs. apply avl_depth_bound, Ha.
Qed.

(* "after EVERY Add or Remove", spelled out with run_app: the history [ops] passes, after
   its first k operations, through the state [ts1] reached by the prefix [firstn k ops]
   (the rest of the history continues from ts1), and every tree of ts1 is balanced and
   shallow *)
Theorem history_balanced_after_every_op ops k :
  exists ts1 xs1 ts2 xs2,
    run_history eqb cmp (firstn k ops) = (ts1, xs1) /\
    run eqb cmp ts1 (skipn k ops) = (ts2, xs2) /\
    run_history eqb cmp ops = (ts2, xs1 ++ xs2) /\
    forall h t, nth_error ts1 h = Some t ->
      avl (root t) /\ cached_ok (root t) /\ Tree_Len t = size (root t) /\
      2 ^ (10000 * (height (root t) + 1)) <= (Tree_Len t + 2) ^ 14405.
Proof.
  pose proof (run_app (firstn k ops) (skipn k ops) [empty_Tree]) as Happ.
  rewrite firstn_skipn in Happ.
  pose proof (history_balanced (firstn k ops)) as Hb.
  unfold run_history in *.
  destruct (run eqb cmp [empty_Tree] (firstn k ops)) as [ts1 xs1].
  destruct (run eqb cmp ts1 (skipn k ops)) as [ts2 xs2] eqn:E2.
  exists ts1, xs1, ts2, xs2. cbn [fst] in Hb.
  split; [reflexivity|]. split; [exact E2|]. split; [exact Happ|]. exact Hb.
Qed.

End Hist.

(* helpers for the evaluated examples of Props/C02.v *)
Definition adds (vs : list Z) : list (op (A:=Z)) := map (OpAdd 0) vs.
Definition final_root (ops : list (op (A:=Z))) : option (tree (A:=Z)) :=
  option_map (@root Z) (nth_error (fst (run_history Z.eqb zcompare ops)) 0).
