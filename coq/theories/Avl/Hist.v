(* C01, history level: every history of Add/Remove/Contains/Len/Clear/Clone/
   Pre/In/Post on any number of tree handles, run on the model of avl.go,
   produces the outputs of a plain multiset specification (one [list A] per
   handle), and handles never influence each other.
   The totality of add/remove (no nil dereference in a rotation) is taken
   through the interface agreed with Avl/Balance.v: a predicate [inv] on trees
   with four facts. Props/C01.v instantiates it. *)
From Typ Require Import Lib.Base Avl.Model Avl.Bst.
From Coq Require Import Permutation Sorted.
Local Open Scope Z_scope.

(* ---------- replacing the h-th element of a list (= Model.set_handle) ---------- *)
Section Upd.
Context {X : Type}.
Definition upd (l : list X) (h : nat) (x : X) : list X := firstn h l ++ x :: skipn (S h) l.

Lemma upd_cons_S a (l : list X) h x : upd (a :: l) (S h) x = a :: upd l h x.
Proof. reflexivity. Qed.

Lemma nth_error_upd_same (l : list X) h x : (h < length l)%nat -> nth_error (upd l h x) h = Some x.
Proof.
  revert h; induction l as [|a l IH]; intros [|h] Hh; cbn [length] in Hh; try lia; [reflexivity|].
  rewrite upd_cons_S. cbn [nth_error]. apply IH. lia.
Qed.

Lemma nth_error_upd_other (l : list X) h h' x : (h < length l)%nat -> h' <> h -> nth_error (upd l h x) h' = nth_error l h'.
Proof.
  revert h h'; induction l as [|a l IH]; intros [|h] [|h'] Hh Hne; cbn [length] in Hh; try lia; try reflexivity.
  rewrite upd_cons_S. cbn [nth_error]. apply IH; lia.
Qed.

Lemma upd_same (l : list X) h x : nth_error l h = Some x -> upd l h x = l.
Proof.
  revert h; induction l as [|a l IH]; intros [|h] H; cbn [nth_error] in H; try discriminate.
  - injection H as ->. reflexivity.
  - rewrite upd_cons_S. f_equal. apply IH. exact H.
Qed.

Lemma length_upd (l : list X) h x : (h < length l)%nat -> length (upd l h x) = length l.
Proof.
  revert h; induction l as [|a l IH]; intros [|h] Hh; cbn [length] in Hh; try lia; [reflexivity|].
  rewrite upd_cons_S. cbn [length]. f_equal. apply IH. lia.
Qed.

Lemma nth_error_lt (l : list X) h x : nth_error l h = Some x -> (h < length l)%nat.
Proof. intro H. apply nth_error_Some. congruence. Qed.
End Upd.

Section Forall2Facts.
Context {X Y : Type} (P : X -> Y -> Prop).

Lemma Forall2_nth l1 l2 h x : Forall2 P l1 l2 -> nth_error l1 h = Some x -> exists y, nth_error l2 h = Some y /\ P x y.
Proof.
  intro F. revert h. induction F as [|a b l1 l2 Pab F IH]; intros [|h] H; cbn [nth_error] in *; try discriminate.
  - injection H as <-. eauto.
  - apply IH. exact H.
Qed.

Lemma Forall2_nth_r l1 l2 h y : Forall2 P l1 l2 -> nth_error l2 h = Some y -> exists x, nth_error l1 h = Some x /\ P x y.
Proof.
  intro F. revert h. induction F as [|a b l1 l2 Pab F IH]; intros [|h] H; cbn [nth_error] in *; try discriminate.
  - injection H as <-. eauto.
  - apply IH. exact H.
Qed.

Lemma Forall2_len l1 l2 : Forall2 P l1 l2 -> length l1 = length l2.
Proof. induction 1; cbn; congruence. Qed.

Lemma Forall2_nth_none l1 l2 h : Forall2 P l1 l2 -> nth_error l1 h = None -> nth_error l2 h = None.
Proof.
  intros F H. apply nth_error_None. apply nth_error_None in H. rewrite <- (Forall2_len _ _ F). exact H.
Qed.

Lemma Forall2_upd l1 l2 h x y : Forall2 P l1 l2 -> P x y -> (h < length l1)%nat -> Forall2 P (upd l1 h x) (upd l2 h y).
Proof.
  intros F Pxy. revert h. induction F as [|a b l1 l2 Pab F IH]; intros [|h] Hh; cbn [length] in Hh; try lia.
  - constructor; assumption.
  - rewrite !upd_cons_S. constructor; [assumption | apply IH; lia].
Qed.

Lemma Forall2_snoc l1 l2 x y : Forall2 P l1 l2 -> P x y -> Forall2 P (l1 ++ [x]) (l2 ++ [y]).
Proof. intros F Pxy. apply Forall2_app; [assumption | constructor; [assumption | constructor]]. Qed.
Lemma Forall2_mono (Q : X -> Y -> Prop) l1 l2 : (forall x y, P x y -> Q x y) -> Forall2 P l1 l2 -> Forall2 Q l1 l2.
Proof. intros H F. induction F; constructor; auto. Qed.
End Forall2Facts.

(* ---------- the multiset specification ---------- *)
Section Spec.
Context {A : Type} (eqb : A -> A -> bool) (cmp : A -> A -> Z).

Definition mem (v : A) (l : list A) : bool := existsb (fun x => eqb x v) l.

Fixpoint remove_one (v : A) (l : list A) : list A :=
  match l with [] => [] | x :: l' => if eqb x v then l' else x :: remove_one v l' end.

Fixpoint insert_sorted (x : A) (l : list A) : list A :=
  match l with [] => [x] | y :: l' => if cmp x y <=? 0 then x :: l else y :: insert_sorted x l' end.
Definition sort (l : list A) : list A := fold_right insert_sorted [] l.

(* specification state: the multiset held by each handle, as a list in any order.
   Pre and Post have no determined output at this level; the specification
   lists the contents, and [out_agree] compares them up to permutation. *)
Definition spec_step (ss : list (list A)) (o : op) : list (list A) * out (A:=A) :=
  let with_h h (f : list A -> list (list A) * out) :=
    match nth_error ss h with Some l => f l | None => (ss, OBadHandle) end in
  match o with
  | OpAdd h v => with_h h (fun l => (upd ss h (v :: l), OUnit))
  | OpRemove h v => with_h h (fun l => if mem v l then (upd ss h (remove_one v l), OBool true) else (ss, OBool false))
  | OpContains h v => with_h h (fun l => (ss, OBool (mem v l)))
  | OpLen h => with_h h (fun l => (ss, OInt (Z.of_nat (length l))))
  | OpClear h => with_h h (fun l => (upd ss h [], OUnit))
  | OpClone h => with_h h (fun l => (ss ++ [l], OUnit))
  | OpPre h | OpIn h | OpPost h => with_h h (fun l => (ss, OList (sort l)))
  end.

Fixpoint spec_run (ss : list (list A)) (ops : list op) : list (list A) * list out :=
  match ops with
  | [] => (ss, [])
  | o :: ops' => let '(ss', x) := spec_step ss o in let '(ss'', xs) := spec_run ss' ops' in (ss'', x :: xs)
  end.

Definition spec_history (ops : list op) : list (list A) * list out := spec_run [[]] ops.

(* model output vs specification output of one op *)
Definition out_agree (o : op (A:=A)) (m s : out (A:=A)) : Prop :=
  match o with
  | OpPre _ | OpPost _ => match m, s with OList x, OList y => Permutation x y | _, _ => m = s end
  | _ => m = s
  end.

Fixpoint outs_agree (ops : list (op (A:=A))) (ms ss : list (out (A:=A))) : Prop :=
  match ops, ms, ss with
  | [], [], [] => True
  | o :: ops', m :: ms', s :: ss' => out_agree o m s /\ outs_agree ops' ms' ss'
  | _, _, _ => False
  end.

Definition is_panic (x : out (A:=A)) : Prop := match x with OPanic _ => True | _ => False end.

Definition op_handle (o : op (A:=A)) : nat :=
  match o with
  | OpAdd h _ | OpRemove h _ | OpContains h _ | OpLen h | OpClear h | OpClone h | OpPre h | OpIn h | OpPost h => h
  end.

(* outputs of the ops addressed to handle h *)
Fixpoint select (h : nat) (ops : list (op (A:=A))) (outs : list (out (A:=A))) : list (out (A:=A)) :=
  match ops, outs with
  | o :: ops', x :: outs' => if Nat.eqb (op_handle o) h then x :: select h ops' outs' else select h ops' outs'
  | _, _ => []
  end.
Definition on_handle (h : nat) (ops : list (op (A:=A))) : list op := filter (fun o => Nat.eqb (op_handle o) h) ops.

End Spec.

(* ---------- handles are independent: pure facts about [step] / [run] ---------- *)
Section Frame.
Context {A : Type} (eqb : A -> A -> bool) (cmp : A -> A -> Z).
Local Notation step := (step eqb cmp).
Local Notation run := (run eqb cmp).
Implicit Types (ts : list (Tree (A:=A))) (o : op (A:=A)).

Lemma set_handle_upd ts h T : set_handle ts h T = upd ts h T.
Proof. reflexivity. Qed.

Lemma run_cons ts o ops :
  run ts (o :: ops) = (fst (run (fst (step ts o)) ops), snd (step ts o) :: snd (run (fst (step ts o)) ops)).
Proof. cbn [Model.run]. destruct (step ts o) as [ts' x]. cbn [fst snd]. destruct (run ts' ops). reflexivity. Qed.

Ltac open_step h T ET :=
  unfold Model.step; cbv beta zeta iota;
  match goal with |- context [nth_error ?ts h] => destruct (nth_error ts h) as [T|] eqn:ET end.

Lemma step_length ts o : (length ts <= length (fst (step ts o)))%nat.
Proof.
  destruct o as [h v|h v|h v|h|h|h|h|h|h]; open_step h T ET; cbn [fst]; try lia.
  - destruct (Tree_Add cmp T v); cbn [fst]; [|lia]. rewrite set_handle_upd, length_upd; [lia | eapply nth_error_lt; eauto].
  - destruct (Tree_Remove eqb cmp T v) as [[T' b]|]; cbn [fst]; [|lia]. rewrite set_handle_upd, length_upd; [lia | eapply nth_error_lt; eauto].
  - rewrite set_handle_upd, length_upd; [lia | eapply nth_error_lt; eauto].
  - destruct (Tree_Clone cmp T); cbn [fst]; [|lia]. rewrite app_length. lia.
  - destruct (Tree_slice T preorder); cbn [fst]; lia.
  - destruct (Tree_slice T inorder); cbn [fst]; lia.
  - destruct (Tree_slice T postorder); cbn [fst]; lia.
Qed.

(* an op on another handle leaves handle h alone *)
Lemma step_frame ts o h : op_handle o <> h -> (h < length ts)%nat -> nth_error (fst (step ts o)) h = nth_error ts h.
Proof.
  intros Hne Hh.
  destruct o as [g v|g v|g v|g|g|g|g|g|g]; cbn [op_handle] in Hne; open_step g T ET; cbn [fst]; try reflexivity.
  - destruct (Tree_Add cmp T v); cbn [fst]; [|reflexivity].
    rewrite set_handle_upd, nth_error_upd_other; [reflexivity | eapply nth_error_lt; eauto | congruence].
  - destruct (Tree_Remove eqb cmp T v) as [[T' b]|]; cbn [fst]; [|reflexivity].
    rewrite set_handle_upd, nth_error_upd_other; [reflexivity | eapply nth_error_lt; eauto | congruence].
  - rewrite set_handle_upd, nth_error_upd_other; [reflexivity | eapply nth_error_lt; eauto | congruence].
  - destruct (Tree_Clone cmp T); cbn [fst]; [|reflexivity]. apply nth_error_app1. exact Hh.
  - destruct (Tree_slice T preorder); reflexivity.
  - destruct (Tree_slice T inorder); reflexivity.
  - destruct (Tree_slice T postorder); reflexivity.
Qed.

(* output and effect of an op on handle h depend on the tree at h only *)
Lemma step_local ts1 ts2 o : nth_error ts1 (op_handle o) = nth_error ts2 (op_handle o) ->
  snd (step ts1 o) = snd (step ts2 o) /\
  nth_error (fst (step ts1 o)) (op_handle o) = nth_error (fst (step ts2 o)) (op_handle o).
Proof.
  intro H.
  destruct o as [g v|g v|g v|g|g|g|g|g|g]; cbn [op_handle] in *; unfold Model.step; cbv beta zeta iota; rewrite <- H;
    (destruct (nth_error ts1 g) as [T|] eqn:ET; cbn [fst snd]; [|split; [reflexivity | congruence]]);
    pose proof (nth_error_lt _ _ _ ET) as L1; assert (L2 : (g < length ts2)%nat) by (eapply nth_error_lt; rewrite <- H; eauto).
  - destruct (Tree_Add cmp T v); cbn [fst snd]; (split; [reflexivity|]); [|congruence].
    rewrite !set_handle_upd, !nth_error_upd_same; auto.
  - destruct (Tree_Remove eqb cmp T v) as [[T1 b]|]; cbn [fst snd]; (split; [reflexivity|]); [|congruence].
    rewrite !set_handle_upd, !nth_error_upd_same; auto.
  - split; [reflexivity | congruence].
  - split; [reflexivity | congruence].
  - split; [reflexivity|]. rewrite !set_handle_upd, !nth_error_upd_same; auto.
  - destruct (Tree_Clone cmp T); cbn [fst snd]; (split; [reflexivity|]); [|congruence].
    rewrite !nth_error_app1; auto; congruence.
  - destruct (Tree_slice T preorder); cbn [fst snd]; split; (reflexivity || congruence).
  - destruct (Tree_slice T inorder); cbn [fst snd]; split; (reflexivity || congruence).
  - destruct (Tree_slice T postorder); cbn [fst snd]; split; (reflexivity || congruence).
Qed.

Lemma run_length ts ops : (length ts <= length (fst (run ts ops)))%nat.
Proof.
  revert ts; induction ops as [|o ops IH]; intro ts; [cbn; lia|]. rewrite run_cons. cbn [fst].
  etransitivity; [apply (step_length ts o) | apply IH].
Qed.

(* ops addressed to other handles (Clone of h included: it only appends a new handle) never change the tree at h *)
Theorem run_frame ts ops h : (h < length ts)%nat -> Forall (fun o => op_handle o <> h) ops ->
  nth_error (fst (run ts ops)) h = nth_error ts h.
Proof.
  revert ts; induction ops as [|o ops IH]; intros ts Hh F; [reflexivity|].
  inversion F as [|? ? Ho F']; subst. rewrite run_cons. cbn [fst].
  rewrite IH; [apply step_frame; auto | pose proof (step_length ts o); lia | exact F'].
Qed.

(* what handle h shows during a history, and the tree it ends with, are those of
   the sub-history addressed to h alone: whatever is done to other handles in
   between (to its clones, or to the tree it was cloned from) is invisible *)
Theorem run_project ts1 ts2 ops h : (h < length ts1)%nat -> nth_error ts1 h = nth_error ts2 h ->
  select h ops (snd (run ts1 ops)) = snd (run ts2 (on_handle h ops)) /\
  nth_error (fst (run ts1 ops)) h = nth_error (fst (run ts2 (on_handle h ops))) h.
Proof.
  revert ts1 ts2; induction ops as [|o ops IH]; intros ts1 ts2 Hh H; [cbn; auto|].
  rewrite run_cons. cbn [fst snd select on_handle filter].
  destruct (Nat.eqb (op_handle o) h) eqn:Eh.
  - apply Nat.eqb_eq in Eh. subst h. rewrite run_cons. cbn [fst snd].
    destruct (step_local ts1 ts2 o H) as (S1 & S2).
    destruct (IH (fst (step ts1 o)) (fst (step ts2 o))) as (I1 & I2); [pose proof (step_length ts1 o); lia | exact S2 |].
    fold (on_handle (op_handle o) ops). rewrite S1, I1, I2. auto.
  - apply Nat.eqb_neq in Eh.
    apply IH; [pose proof (step_length ts1 o); lia | rewrite step_frame; auto].
Qed.

(* Remove that reports "absent" leaves the whole state as it was *)
Lemma Tree_Remove_false_same (T T' : Tree (A:=A)) v : Tree_Remove eqb cmp T v = Ok (T', false) -> T' = T.
Proof.
  destruct T as [rt c]. unfold Tree_Remove. cbn [root count]. destruct rt as [|l x h r].
  - intro H; injection H as <-; reflexivity.
  - intro H. apply bind_ok in H as ([nr b] & E1 & H). injection H as <- ->.
    apply remove_false_same in E1. subst nr. reflexivity.
Qed.

Theorem step_remove_false_same ts h v ts' : step ts (OpRemove h v) = (ts', OBool false) -> ts' = ts.
Proof.
  unfold Model.step; cbv beta zeta iota. destruct (nth_error ts h) as [T|] eqn:ET; [|intro H; injection H as <-; reflexivity].
  destruct (Tree_Remove eqb cmp T v) as [[T' b]|k] eqn:ER; intro H; [|injection H as <-; reflexivity].
  injection H as <- ->. apply Tree_Remove_false_same in ER. subst T'. rewrite set_handle_upd. apply upd_same. exact ET.
Qed.

End Frame.

(* ---------- facts about the specification's list functions ---------- *)
Section SpecFacts.
Context {A : Type} (eqb : A -> A -> bool) (cmp : A -> A -> Z).
Hypothesis TO : TotalOrderEq eqb cmp.
Local Notation le := (le cmp).
Local Notation sort := (sort cmp).
Local Notation insert_sorted := (insert_sorted cmp).
Local Notation mem := (mem eqb).
Local Notation remove_one := (remove_one eqb).

Lemma mem_In v (l : list A) : mem v l = true <-> In v l.
Proof.
  unfold Hist.mem. rewrite existsb_exists. split.
  - intros (x & I & e). apply (eqb_eq _ _ TO) in e. subst. exact I.
  - intro I. exists v. split; [exact I | apply (eqb_eq _ _ TO); reflexivity].
Qed.

Lemma mem_perm v (l l' : list A) : Permutation l l' -> mem v l = mem v l'.
Proof.
  intro P. destruct (mem v l') eqn:E.
  - apply mem_In. apply mem_In in E. eapply Permutation_in; [symmetry; exact P | exact E].
  - destruct (mem v l) eqn:E'; [|reflexivity]. apply mem_In in E'. rewrite <- E. symmetry. apply mem_In.
    eapply Permutation_in; [exact P | exact E'].
Qed.

Lemma remove_one_perm v (l : list A) : In v l -> Permutation l (v :: remove_one v l).
Proof.
  induction l as [|x l IH]; intro I; [destruct I|]. cbn [Hist.remove_one].
  destruct (eqb x v) eqn:E.
  - apply (eqb_eq _ _ TO) in E. subst. reflexivity.
  - destruct I as [->|I]; [rewrite (proj2 (eqb_eq _ _ TO v v) eq_refl) in E; discriminate|].
    rewrite perm_swap. constructor. apply IH. exact I.
Qed.

Lemma insert_perm x (l : list A) : Permutation (insert_sorted x l) (x :: l).
Proof.
  induction l as [|y l IH]; cbn [Hist.insert_sorted]; [reflexivity|].
  destruct (cmp x y <=? 0); [reflexivity|]. rewrite perm_swap. constructor. exact IH.
Qed.

Lemma sort_perm (l : list A) : Permutation (sort l) l.
Proof.
  induction l as [|x l IH]; cbn [Hist.sort fold_right]; [reflexivity|].
  fold (sort l). rewrite insert_perm. constructor. exact IH.
Qed.

Lemma insert_sorted_sorted x (l : list A) : StronglySorted le l -> StronglySorted le (insert_sorted x l).
Proof.
  induction l as [|y l IH]; intro S; cbn [Hist.insert_sorted]; [repeat constructor|].
  inversion S as [|? ? S' F]; subst.
  destruct (cmp x y <=? 0) eqn:C.
  - apply Z.leb_le in C. constructor; [exact S|]. constructor; [exact C|].
    eapply Forall_impl; [|exact F]. intros z Hz. exact (le_trans eqb cmp TO _ _ _ C Hz).
  - apply Z.leb_gt in C. constructor; [apply IH; exact S'|].
    eapply Forall_perm; [symmetry; apply insert_perm|]. constructor; [|exact F].
    destruct (le_total eqb cmp TO x y) as [L|L]; [unfold Bst.le in L; lia | exact L].
Qed.

Lemma sort_sorted (l : list A) : StronglySorted le (sort l).
Proof.
  induction l as [|x l IH]; cbn [Hist.sort fold_right]; [constructor|]. apply insert_sorted_sorted. exact IH.
Qed.

(* the sorted listing of a multiset is unique *)
Lemma sort_unique (l' l : list A) : StronglySorted le l' -> Permutation l' l -> l' = sort l.
Proof.
  intros S P. apply (sorted_perm_eq eqb cmp TO); [exact S | apply sort_sorted |].
  rewrite P. symmetry. apply sort_perm.
Qed.

End SpecFacts.

(* ---------- refinement ---------- *)
Section Refine.
Context {A : Type} (eqb : A -> A -> bool) (cmp : A -> A -> Z).
Hypothesis TO : TotalOrderEq eqb cmp.
(* interface with Avl/Balance.v: what makes add/remove total *)
Variable inv : tree (A:=A) -> Prop.
Hypothesis inv_E : inv E.
Hypothesis inv_leaf : forall v, inv (leaf v).
Hypothesis add_total : forall v t, t <> E -> inv t -> exists t', add cmp v t = Ok t' /\ inv t'.
Hypothesis remove_total : forall v t, t <> E -> inv t -> exists t' b, remove eqb cmp v t = Ok (t', b) /\ inv t'.

Local Notation step := (step eqb cmp).
Local Notation run := (run eqb cmp).
Local Notation bst := (bst cmp).
Local Notation sort := (sort cmp).
Local Notation mem := (mem eqb).
Local Notation remove_one := (remove_one eqb).
Local Notation spec_step := (spec_step eqb cmp).
Local Notation spec_run := (spec_run eqb cmp).
Implicit Types (T : Tree (A:=A)) (ts : list (Tree (A:=A))) (ss : list (list A)) (o : op (A:=A)).

(* state invariant of one Tree value *)
Definition good T : Prop :=
  inv (root T) /\ bst (root T) /\ count T = Z.of_nat (length (inorder (root T))).

Lemma good_intro T : inv (root T) -> bst (root T) -> count T = Z.of_nat (length (inorder (root T))) -> good T.
Proof. intros; split; [|split]; assumption. Qed.

Lemma good_empty : good empty_Tree.
Proof. apply good_intro; cbn; auto. Qed.

Lemma Tree_Add_good T v : good T ->
  exists T', Tree_Add cmp T v = Ok T' /\ good T' /\ Permutation (inorder (root T')) (v :: inorder (root T)).
Proof.
  destruct T as [rt c]. unfold good, Tree_Add. cbn [root count]. intros (I & B & C).
  destruct rt as [|l x h r].
  - cbn [bind]. eexists; split; [reflexivity|]. cbn [root count]. split; [|reflexivity].
    split; [apply inv_leaf | split; [apply leaf_bst | rewrite C; cbn; lia]].
  - destruct (add_total v (N l x h r)) as (t' & Ea & It'); [discriminate | exact I |]. rewrite Ea. cbn [bind].
    eexists; split; [reflexivity|]. cbn [root count]. pose proof (add_perm cmp v _ _ Ea) as P. split; [|exact P].
    split; [exact It' | split; [eapply add_bst; eauto | rewrite C, (Permutation_length P); cbn [length]; lia]].
Qed.

Lemma Tree_Remove_good T v : good T ->
  exists T' b, Tree_Remove eqb cmp T v = Ok (T', b) /\ good T' /\
    (b = true <-> In v (inorder (root T))) /\
    (if b then Permutation (inorder (root T)) (v :: inorder (root T')) else T' = T).
Proof.
  destruct T as [rt c]. unfold good, Tree_Remove. cbn [root count]. intros (I & B & C).
  destruct rt as [|l x h r].
  - exists (mkTree E c), false. split; [reflexivity|]. cbn [root count].
    split; [auto|]. split; [split; [discriminate | intros []] | reflexivity].
  - destruct (remove_total v (N l x h r)) as (t' & b & Er & It'); [discriminate | exact I |]. rewrite Er. cbn [bind].
    eexists _, b. split; [reflexivity|]. cbn [root count].
    pose proof (remove_result_iff eqb cmp TO v _ _ _ B Er) as Hb. destruct b.
    + pose proof (remove_true_perm eqb cmp TO v _ _ Er) as P. split; [|split; [exact Hb | exact P]].
      split; [exact It' | split; [eapply remove_true_bst; eauto|]].
      rewrite (Permutation_length P) in C. cbn [length] in C. lia.
    + apply remove_false_same in Er. subst t'. split; [auto|]. split; [exact Hb | reflexivity].
Qed.

Lemma Tree_Contains_good T v : good T -> (Tree_Contains eqb cmp T v = true <-> In v (inorder (root T))).
Proof.
  intros (_ & B & _). unfold Tree_Contains. destruct (root T) as [|l x h r] eqn:ER.
  - cbn. split; [discriminate | intros []].
  - apply (contains_spec eqb cmp TO). exact B.
Qed.

Lemma Tree_slice_good T (walk : tree (A:=A) -> list A) : good T -> Tree_slice T walk = Ok (walk (root T)).
Proof.
  intros (_ & _ & C). unfold Tree_slice. destruct (count T <? 0) eqn:E; [apply Z.ltb_lt in E; lia | reflexivity].
Qed.

Lemma Tree_adds_good vs : forall T, good T ->
  exists T', Tree_adds cmp T vs = Ok T' /\ good T' /\ Permutation (inorder (root T')) (vs ++ inorder (root T)).
Proof.
  induction vs as [|v vs IH]; intros T G; cbn [Tree_adds].
  - exists T. split; [reflexivity|]. split; [exact G | reflexivity].
  - destruct (Tree_Add_good T v G) as (T1 & E1 & G1 & P1). rewrite E1. cbn [bind].
    destruct (IH T1 G1) as (T' & E' & G' & P'). exists T'. split; [exact E'|]. split; [exact G'|].
    rewrite P', P1. cbn [app]. symmetry. apply Permutation_middle.
Qed.

(* Clone: works from ANY tree value (of any size, whatever its count field), and
   yields a well-formed tree with the same contents *)
Lemma Tree_Clone_good T :
  exists T', Tree_Clone cmp T = Ok T' /\ good T' /\ Permutation (inorder (root T')) (inorder (root T)).
Proof.
  unfold Tree_Clone. destruct (Tree_adds_good (preorder (root T)) empty_Tree good_empty) as (T' & E' & G' & P').
  exists T'. split; [exact E'|]. split; [exact G'|].
  rewrite P'. cbn [empty_Tree root inorder]. rewrite app_nil_r. apply preorder_perm.
Qed.

Lemma Tree_Clone_same_inorder T T' : good T -> Tree_Clone cmp T = Ok T' ->
  good T' /\ inorder (root T') = inorder (root T) /\ count T' = count T.
Proof.
  intros G E1. destruct (Tree_Clone_good T) as (T1 & E2 & G1 & P). rewrite E1 in E2. injection E2 as <-.
  assert (e : inorder (root T') = inorder (root T)).
  { apply (sorted_perm_eq eqb cmp TO); [apply (bst_sorted eqb cmp TO); apply G1 | apply (bst_sorted eqb cmp TO); apply G | exact P]. }
  split; [exact G1|]. split; [exact e|].
  destruct G1 as (_ & _ & C1). destruct G as (_ & _ & C). rewrite C1, C, e. reflexivity.
Qed.

(* a tree value represents a multiset *)
Definition rel T (l : list A) : Prop := good T /\ Permutation (inorder (root T)) l.
Definition R ts ss : Prop := Forall2 rel ts ss.

Lemma rel_inorder T l : rel T l -> inorder (root T) = sort l.
Proof. intros ((_ & B & _) & P). apply (sort_unique eqb cmp TO); [apply (bst_sorted eqb cmp TO); exact B | exact P]. Qed.

Lemma spec_run_cons ss o ops :
  spec_run ss (o :: ops) = (fst (spec_run (fst (spec_step ss o)) ops), snd (spec_step ss o) :: snd (spec_run (fst (spec_step ss o)) ops)).
Proof. cbn [Hist.spec_run]. destruct (spec_step ss o) as [ss' x]. cbn [fst snd]. destruct (spec_run ss' ops). reflexivity. Qed.

Lemma step_refines ts ss o : R ts ss ->
  R (fst (step ts o)) (fst (spec_step ss o)) /\ out_agree o (snd (step ts o)) (snd (spec_step ss o)).
Proof.
  intro HR.
  destruct o as [h v|h v|h v|h|h|h|h|h|h]; unfold Model.step, Hist.spec_step; cbv beta zeta iota;
    (destruct (nth_error ts h) as [T|] eqn:ET;
      [destruct (Forall2_nth _ _ _ _ _ HR ET) as (l & EL & G & P); rewrite EL; pose proof (nth_error_lt _ _ _ ET) as Lh
      | rewrite (Forall2_nth_none _ _ _ _ HR ET); cbn [fst snd out_agree]; split; [exact HR | reflexivity]]).
  - (* Add *)
    destruct (Tree_Add_good T v G) as (T' & E1 & G' & P'). rewrite E1. cbn [fst snd out_agree]. split; [|reflexivity].
    rewrite set_handle_upd. apply Forall2_upd; auto. split; [exact G'|]. rewrite P', P. reflexivity.
  - (* Remove *)
    destruct (Tree_Remove_good T v G) as (T' & b & E1 & G' & Hb & Hres). rewrite E1.
    rewrite <- (mem_perm eqb cmp TO v _ _ P). destruct b.
    + rewrite (proj2 (mem_In eqb cmp TO v _) (proj1 Hb eq_refl)). cbn [fst snd out_agree]. split; [|reflexivity].
      rewrite set_handle_upd. apply Forall2_upd; auto. split; [exact G'|].
      apply Permutation_cons_inv with (a := v). rewrite <- Hres, P. apply (remove_one_perm eqb cmp TO).
      eapply Permutation_in; [exact P | apply Hb; reflexivity].
    + subst T'. destruct (mem v (inorder (root T))) eqn:EM.
      * apply (mem_In eqb cmp TO) in EM. apply Hb in EM. discriminate.
      * cbn [fst snd out_agree]. split; [|reflexivity]. rewrite set_handle_upd, upd_same; auto.
  - (* Contains *)
    cbn [fst snd out_agree]. split; [exact HR|]. f_equal.
    rewrite <- (mem_perm eqb cmp TO v _ _ P). pose proof (Tree_Contains_good T v G) as Hc. pose proof (mem_In eqb cmp TO v (inorder (root T))) as Hm.
    destruct (Tree_Contains eqb cmp T v), (mem v (inorder (root T))); try reflexivity; exfalso.
    + assert (true = true) as e by reflexivity. apply Hc, Hm in e. discriminate.
    + assert (true = true) as e by reflexivity. apply Hm, Hc in e. discriminate.
  - (* Len *)
    cbn [fst snd out_agree]. split; [exact HR|]. f_equal. unfold Tree_Len. destruct G as (_ & _ & C). rewrite C, (Permutation_length P). reflexivity.
  - (* Clear *)
    cbn [fst snd out_agree]. split; [|reflexivity]. rewrite set_handle_upd. apply Forall2_upd; auto.
    split; [apply good_empty | reflexivity].
  - (* Clone *)
    destruct (Tree_Clone_good T) as (T' & E1 & G' & P'). rewrite E1. cbn [fst snd out_agree]. split; [|reflexivity].
    apply Forall2_snoc; auto. split; [exact G'|]. rewrite P', P. reflexivity.
  - (* Pre *)
    rewrite (Tree_slice_good T preorder G). cbn [fst snd out_agree]. split; [exact HR|].
    rewrite preorder_perm, P. symmetry. apply sort_perm.
  - (* In *)
    rewrite (Tree_slice_good T inorder G). cbn [fst snd out_agree]. split; [exact HR|]. f_equal. apply rel_inorder. split; auto.
  - (* Post *)
    rewrite (Tree_slice_good T postorder G). cbn [fst snd out_agree]. split; [exact HR|].
    rewrite postorder_perm, P. symmetry. apply sort_perm.
Qed.

Lemma run_refines ops : forall ts ss, R ts ss ->
  R (fst (run ts ops)) (fst (spec_run ss ops)) /\ outs_agree ops (snd (run ts ops)) (snd (spec_run ss ops)).
Proof.
  induction ops as [|o ops IH]; intros ts ss HR; [cbn; auto|].
  rewrite run_cons, spec_run_cons. cbn [fst snd outs_agree].
  destruct (step_refines ts ss o HR) as (HR' & Ho). destruct (IH _ _ HR') as (HR'' & Hos). auto.
Qed.

(* what [R] says about each handle, spelled out *)
Definition represents T (l : list A) : Prop :=
  bst (root T) /\ inorder (root T) = sort l /\ Sorted (le cmp) (inorder (root T)) /\ count T = Z.of_nat (length l).

Lemma rel_represents T l : rel T l -> represents T l.
Proof.
  intros HR. assert (HR' := HR). destruct HR' as ((_ & B & C) & P).
  split; [exact B|]. split; [apply rel_inorder; exact HR|]. split; [apply (bst_Sorted eqb cmp TO); exact B|].
  rewrite C, (Permutation_length P). reflexivity.
Qed.

Lemma R_initial : R [empty_Tree] [[]].
Proof. constructor; [|constructor]. split; [apply good_empty | reflexivity]. Qed.

(* the specification never panics, so neither does the model *)
Lemma spec_step_no_panic ss o : ~ is_panic (snd (spec_step ss o)).
Proof.
  destruct o as [h v|h v|h v|h|h|h|h|h|h]; unfold Hist.spec_step; cbv beta zeta iota;
    destruct (nth_error ss h) as [l|]; cbn [snd is_panic]; auto.
  destruct (mem v l); cbn [snd is_panic]; auto.
Qed.

Lemma out_agree_no_panic o (m s : out (A:=A)) : out_agree o m s -> ~ is_panic s -> ~ is_panic m.
Proof.
  unfold out_agree. destruct o; try (intros ->; auto); destruct m, s; cbn [is_panic]; auto; intros H; discriminate H.
Qed.

Lemma run_no_panic ops : forall ts ss, R ts ss -> Forall (fun x => ~ is_panic x) (snd (run ts ops)).
Proof.
  induction ops as [|o ops IH]; intros ts ss HR; [constructor|].
  rewrite run_cons. cbn [snd]. destruct (step_refines ts ss o HR) as (HR' & Ho). constructor.
  - eapply out_agree_no_panic; [exact Ho | apply spec_step_no_panic].
  - eapply IH; exact HR'.
Qed.

(* main statement: a whole history from one empty tree *)
Theorem history_refines ops :
  outs_agree ops (snd (run_history eqb cmp ops)) (snd (spec_history eqb cmp ops)) /\
  Forall2 represents (fst (run_history eqb cmp ops)) (fst (spec_history eqb cmp ops)) /\
  Forall (fun x => ~ is_panic x) (snd (run_history eqb cmp ops)).
Proof.
  unfold run_history, spec_history. destruct (run_refines ops _ _ R_initial) as (HR & Ho).
  split; [exact Ho|]. split; [|eapply run_no_panic; exact R_initial].
  eapply Forall2_mono; [|exact HR]. apply rel_represents.
Qed.

(* the same from any well-formed state, e.g. the state reached by an earlier history *)
Theorem run_refines_from ts ss ops : Forall2 rel ts ss ->
  outs_agree ops (snd (run ts ops)) (snd (spec_run ss ops)) /\
  Forall2 rel (fst (run ts ops)) (fst (spec_run ss ops)).
Proof. intro HR. destruct (run_refines ops _ _ HR); auto. Qed.

Lemma history_rel ops : Forall2 rel (fst (run_history eqb cmp ops)) (fst (spec_history eqb cmp ops)).
Proof. unfold run_history, spec_history. apply (run_refines ops _ _ R_initial). Qed.

(* Remove on a reachable state: the returned boolean is membership; "false" leaves the
   whole state untouched; "true" removes exactly one occurrence from that handle only *)
Theorem remove_reachable ts ss h v T : Forall2 rel ts ss -> nth_error ts h = Some T ->
  exists T' b, step ts (OpRemove h v) = (upd ts h T', OBool b) /\
    (b = true <-> In v (inorder (root T))) /\
    (if b then Permutation (inorder (root T)) (v :: inorder (root T')) /\ count T' = count T - 1
     else T' = T /\ upd ts h T' = ts).
Proof.
  intros HR ET. destruct (Forall2_nth _ _ _ _ _ HR ET) as (l & EL & G & P).
  destruct (Tree_Remove_good T v G) as (T' & b & E1 & G' & Hb & Hres).
  exists T', b. unfold Model.step; cbv beta zeta iota. rewrite ET, E1. split; [reflexivity|]. split; [exact Hb|].
  destruct b.
  - split; [exact Hres|]. destruct G as (_ & _ & C). destruct G' as (_ & _ & C').
    rewrite C, C', (Permutation_length Hres). cbn [length]. lia.
  - subst T'. split; [reflexivity | apply upd_same; exact ET].
Qed.

(* Clone on a reachable state: succeeds whatever the size, appends a new handle whose tree has
   the same in-order listing and Len, and leaves every existing handle as it was *)
Theorem clone_reachable ts ss h T : Forall2 rel ts ss -> nth_error ts h = Some T ->
  exists T', step ts (OpClone h) = (ts ++ [T'], OUnit) /\
    inorder (root T') = inorder (root T) /\ count T' = count T /\ bst (root T') /\
    nth_error (ts ++ [T']) (length ts) = Some T' /\
    forall g, (g < length ts)%nat -> nth_error (ts ++ [T']) g = nth_error ts g.
Proof.
  intros HR ET. destruct (Forall2_nth _ _ _ _ _ HR ET) as (l & EL & G & P).
  destruct (Tree_Clone_good T) as (T' & E1 & G' & P').
  destruct (Tree_Clone_same_inorder T T' G E1) as (_ & e & ec).
  exists T'. unfold Model.step; cbv beta zeta iota. rewrite ET, E1. split; [reflexivity|].
  split; [exact e|]. split; [exact ec|]. split; [apply G'|]. split.
  - rewrite nth_error_app2; [|lia]. rewrite Nat.sub_diag. reflexivity.
  - intros g Hg. apply nth_error_app1. exact Hg.
Qed.

End Refine.

(* ---------- closing the interface: cached heights >= 0 already make add/remove total ---------- *)
Section Closed.
Context {A : Type} (eqb : A -> A -> bool) (cmp : A -> A -> Z).

Lemma hnn_E : hnn (@E A).
Proof. exact I. Qed.
Lemma hnn_leaf (v : A) : hnn (leaf v).
Proof. cbn. repeat split; lia. Qed.
Lemma hnn_add_total (v : A) t : t <> E -> hnn t -> exists t', add cmp v t = Ok t' /\ hnn t'.
Proof. intros Hne H. destruct (add_hnn_total cmp v t Hne H) as (t' & E1 & H1 & _). eauto. Qed.
Lemma hnn_remove_total (v : A) t : t <> E -> hnn t -> exists t' b, remove eqb cmp v t = Ok (t', b) /\ hnn t'.
Proof. apply remove_hnn_total. Qed.

Hypothesis TO : TotalOrderEq eqb cmp.

Definition wf (T : Tree (A:=A)) : Prop := good cmp hnn T.
Definition holds (T : Tree (A:=A)) (l : list A) : Prop := rel cmp hnn T l.

Definition history_refines_closed := history_refines eqb cmp TO hnn hnn_E hnn_leaf hnn_add_total hnn_remove_total.
Definition history_rel_closed := history_rel eqb cmp TO hnn hnn_E hnn_leaf hnn_add_total hnn_remove_total.
Definition run_refines_closed := run_refines_from eqb cmp TO hnn hnn_E hnn_leaf hnn_add_total hnn_remove_total.
Definition remove_reachable_closed := remove_reachable eqb cmp TO hnn hnn_remove_total.
Definition clone_reachable_closed := clone_reachable eqb cmp TO hnn hnn_E hnn_leaf hnn_add_total.
Definition Tree_Clone_closed := Tree_Clone_good eqb cmp TO hnn hnn_E hnn_leaf hnn_add_total.

(* the same two facts about a state reached by any history from one empty tree *)
Theorem remove_after_history ops h v T :
  let ts := fst (run_history eqb cmp ops) in
  nth_error ts h = Some T ->
  exists T' b, step eqb cmp ts (OpRemove h v) = (set_handle ts h T', OBool b) /\
    (b = true <-> In v (inorder (root T))) /\
    (if b then Permutation (inorder (root T)) (v :: inorder (root T')) /\ count T' = count T - 1
     else T' = T /\ set_handle ts h T' = ts).
Proof. intros ts ET. exact (remove_reachable_closed ts _ h v T (history_rel_closed ops) ET). Qed.

(* Clone after any history: succeeds whatever the size; the clone lists the same values in
   order and has the same Len; afterwards (for every continuation ops2) what the original
   shows is exactly what it would show if the clone did not exist and only its own ops were
   run, and what the clone shows depends only on the ops addressed to the clone *)
Theorem clone_independent ops h T ops2 :
  let ts := fst (run_history eqb cmp ops) in
  nth_error ts h = Some T ->
  exists T', step eqb cmp ts (OpClone h) = (ts ++ [T'], OUnit) /\
    inorder (root T') = inorder (root T) /\ count T' = count T /\
    nth_error (ts ++ [T']) (length ts) = Some T' /\
    select h ops2 (snd (run eqb cmp (ts ++ [T']) ops2)) = snd (run eqb cmp ts (on_handle h ops2)) /\
    nth_error (fst (run eqb cmp (ts ++ [T']) ops2)) h = nth_error (fst (run eqb cmp ts (on_handle h ops2))) h /\
    select (length ts) ops2 (snd (run eqb cmp (ts ++ [T']) ops2)) = snd (run eqb cmp (ts ++ [T']) (on_handle (length ts) ops2)) /\
    nth_error (fst (run eqb cmp (ts ++ [T']) ops2)) (length ts) =
      nth_error (fst (run eqb cmp (ts ++ [T']) (on_handle (length ts) ops2))) (length ts).
Proof.
  intros ts ET.
  destruct (clone_reachable_closed ts _ h T (history_rel_closed ops) ET) as (T' & E1 & e & ec & _ & Ec & Eold).
  exists T'. split; [exact E1|]. split; [exact e|]. split; [exact ec|]. split; [exact Ec|].
  pose proof (nth_error_lt _ _ _ ET) as Lh.
  assert (L1 : (h < length (ts ++ [T']))%nat) by (rewrite app_length; lia).
  assert (L2 : (length ts < length (ts ++ [T']))%nat) by (rewrite app_length; cbn; lia).
  destruct (run_project eqb cmp (ts ++ [T']) ts ops2 h L1 (Eold h Lh)) as (P1 & P2).
  destruct (run_project eqb cmp (ts ++ [T']) (ts ++ [T']) ops2 (length ts) L2 eq_refl) as (P3 & P4).
  auto.
Qed.

End Closed.
