(* C02 — shape invariant of the AVL model (Avl/Model.v): real height, AVL
   balance, correctness of the cached height field, and the proof that
   rebalance / add / popLeftMost / remove preserve them and never panic.
   Nothing here assumes anything about the comparator [cmp] or the equality
   [eqb]: balance does not depend on the order being sensible.

   Interface used by Avl/Hist.v, Props/C01.v (fixed names):
     inv, inv_E, inv_leaf, add_total, remove_total. *)
From Typ Require Import Lib.Base Avl.Model.
Local Open Scope Z_scope.

Section Balance.
Context {A : Type}.
Implicit Types t l r : tree (A:=A).

(* real height, computed from the shape only: empty = -1, leaf = 0 *)
Fixpoint height t : Z :=
  match t with E => -1 | N l _ _ r => 1 + Z.max (height l) (height r) end.

(* number of nodes *)
Fixpoint size t : Z :=
  match t with E => 0 | N l _ _ r => size l + 1 + size r end.

(* height-balanced in the AVL sense, at every node, on REAL heights *)
Fixpoint avl t : Prop :=
  match t with
  | E => True
  | N l _ _ r => avl l /\ avl r /\ -1 <= height l - height r <= 1
  end.

(* every cached height field equals the real height of its subtree *)
Fixpoint cached_ok t : Prop :=
  match t with
  | E => True
  | N l _ h r => cached_ok l /\ cached_ok r /\ h = 1 + Z.max (height l) (height r)
  end.

Definition inv t : Prop := avl t /\ cached_ok t.

(* "n.height = n.calcHeight()" on a node with the given children *)
Definition node l (v : A) r : tree := N l v (calcHeight l r) r.

(* ---------- basic facts ---------- *)

Lemma height_ge t : -1 <= height t.
Proof. induction t as [|l IHl v h r IHr]; cbn [height]; lia. Qed.

Lemma height_N_ge l v h r : 0 <= height (N l v h r).
Proof. cbn [height]. pose proof (height_ge l). pose proof (height_ge r). lia. Qed.

Lemma height_E_iff t : height t = -1 <-> t = E.
Proof.
  split; [|intros ->; reflexivity]. destruct t as [|l v h r]; [reflexivity|].
  pose proof (height_N_ge l v h r). lia.
Qed.

Lemma size_ge t : 0 <= size t.
Proof. induction t as [|l IHl v h r IHr]; cbn [size]; lia. Qed.

Lemma inv_E : inv E.
Proof. split; exact I. Qed.

Lemma inv_leaf v : inv (leaf v).
Proof. unfold leaf, inv; cbn. repeat split; lia. Qed.

Lemma inv_N l v h r :
  inv (N l v h r) <->
  inv l /\ inv r /\ -1 <= height l - height r <= 1 /\ h = 1 + Z.max (height l) (height r).
Proof. unfold inv; cbn [avl cached_ok]. tauto. Qed.

Lemma height_of_ok t : cached_ok t -> height_of t = height t.
Proof. destruct t as [|l v h r]; cbn [height_of height cached_ok]; [reflexivity|]. intros (_ & _ & ->). reflexivity. Qed.

Lemma height_of_inv t : inv t -> height_of t = height t.
Proof. intros [_ H]. apply height_of_ok, H. Qed.

Lemma calcHeight_ok l r :
  cached_ok l -> cached_ok r -> calcHeight l r = 1 + Z.max (height l) (height r).
Proof.
  intros Hl Hr. pose proof (height_of_ok l Hl) as El. pose proof (height_of_ok r Hr) as Er.
  pose proof (height_ge l). pose proof (height_ge r).
  unfold calcHeight. destruct l, r; rewrite ?El, ?Er; cbn [height] in *; lia.
Qed.

Lemma calcHeight_inv l r : inv l -> inv r -> calcHeight l r = 1 + Z.max (height l) (height r).
Proof. intros [_ Hl] [_ Hr]. apply calcHeight_ok; assumption. Qed.

Lemma recalc_ok t : cached_ok t -> recalc t = t.
Proof.
  destruct t as [|l v h r]; cbn [recalc cached_ok]; [reflexivity|].
  intros (Hl & Hr & ->). rewrite calcHeight_ok by assumption. reflexivity.
Qed.

Lemma height_node l v r : height (node l v r) = 1 + Z.max (height l) (height r).
Proof. reflexivity. Qed.

Lemma size_node l v r : size (node l v r) = size l + 1 + size r.
Proof. reflexivity. Qed.

Lemma inv_node l v r : inv l -> inv r -> -1 <= height l - height r <= 1 -> inv (node l v r).
Proof.
  intros Hl Hr Hd. unfold node. apply inv_N.
  split; [assumption|]. split; [assumption|]. split; [lia|]. apply calcHeight_inv; assumption.
Qed.

Lemma node_neq_E l v r : node l v r <> E.
Proof. discriminate. Qed.

(* ---------- rotations on trees whose cache is right ---------- *)

Lemma rotateLeft_eq l v h rl rv rh rr :
  cached_ok rl -> rotateLeft (N l v h (N rl rv rh rr)) = Ok (node (node l v rl) rv rr).
Proof. intros H. cbn [rotateLeft]. rewrite recalc_ok by assumption. reflexivity. Qed.

Lemma rotateRight_eq ll lv lh lr v h r :
  cached_ok lr -> rotateRight (N (N ll lv lh lr) v h r) = Ok (node ll lv (node lr v r)).
Proof. intros H. cbn [rotateRight]. rewrite recalc_ok by assumption. reflexivity. Qed.

(* the four rotation cases of rebalance, each with the exact resulting height *)

(* right-heavy by 2, right child not left-leaning: single left rotation
   (after an add the right child leans right and the height drops by one;
    after a remove it may be even and the height stays) *)
Lemma rebalance_case_rotateLeft l v rl rv rh rr :
  inv l -> inv (N rl rv rh rr) -> height (N rl rv rh rr) = height l + 2 -> height rl <= height rr ->
  rebalance (node l v (N rl rv rh rr)) = Ok (node (node l v rl) rv rr) /\
  inv (node (node l v rl) rv rr) /\
  height (node (node l v rl) rv rr) = height rl + 2.
Proof.
  intros Hl Hr Hh Hle. pose proof Hr as Hr0. apply inv_N in Hr as (Hrl & Hrr & Hd & ->).
  cbn [height] in Hh.
  split; [|split].
  - unfold node at 1. cbn [rebalance]. unfold balance.
    rewrite (height_of_inv l Hl), (height_of_inv _ Hr0). cbn [height].
    destruct (Z.gtb_spec (height l - (1 + Z.max (height rl) (height rr))) 1) as [H1|H1]; [lia|].
    destruct (Z.gtb_spec (1 + Z.max (height rl) (height rr) - height l) 1) as [H2|H2]; [|lia].
    rewrite (height_of_inv rl Hrl), (height_of_inv rr Hrr).
    destruct (Z.gtb_spec (height rl) (height rr)) as [H3|H3]; [lia|].
    apply rotateLeft_eq, Hrl.
  - apply inv_node; [apply inv_node| |]; try assumption; rewrite ?height_node; lia.
  - rewrite !height_node. lia.
Qed.

(* right-heavy by 2, right child left-leaning: double rotation (rotateLeftRight) *)
Lemma rebalance_case_rotateLeftRight l v rll rlv rlh rlr rv rh rr :
  inv l -> inv (N (N rll rlv rlh rlr) rv rh rr) ->
  height (N (N rll rlv rlh rlr) rv rh rr) = height l + 2 -> height (N rll rlv rlh rlr) > height rr ->
  rebalance (node l v (N (N rll rlv rlh rlr) rv rh rr))
    = Ok (node (node l v rll) rlv (node rlr rv rr)) /\
  inv (node (node l v rll) rlv (node rlr rv rr)) /\
  height (node (node l v rll) rlv (node rlr rv rr)) = height l + 2.
Proof.
  intros Hl Hr Hh Hgt. pose proof Hr as Hr0. apply inv_N in Hr as (Hrl & Hrr & Hd & ->).
  pose proof Hrl as Hrl0. apply inv_N in Hrl as (Hrll & Hrlr & Hd2 & ->).
  cbn [height] in Hh, Hgt, Hd.
  split; [|split].
  - unfold node at 1. cbn [rebalance]. unfold balance.
    rewrite (height_of_inv l Hl), (height_of_inv _ Hr0). cbn [height].
    destruct (Z.gtb_spec (height l - (1 + Z.max (1 + Z.max (height rll) (height rlr)) (height rr))) 1) as [H1|H1]; [lia|].
    destruct (Z.gtb_spec (1 + Z.max (1 + Z.max (height rll) (height rlr)) (height rr) - height l) 1) as [H2|H2]; [|lia].
    rewrite (height_of_inv _ Hrl0), (height_of_inv rr Hrr). cbn [height].
    destruct (Z.gtb_spec (1 + Z.max (height rll) (height rlr)) (height rr)) as [H3|H3]; [|lia].
    cbn [rotateLeftRight]. rewrite rotateRight_eq by apply Hrlr. cbn [bind].
    unfold node at 1. rewrite rotateLeft_eq by apply Hrll. reflexivity.
  - apply inv_node; [apply inv_node|apply inv_node|]; try assumption; rewrite ?height_node; lia.
  - rewrite !height_node. lia.
Qed.

(* left-heavy by 2, left child not right-leaning: single right rotation *)
Lemma rebalance_case_rotateRight ll lv lh lr v r :
  inv (N ll lv lh lr) -> inv r -> height (N ll lv lh lr) = height r + 2 -> height lr <= height ll ->
  rebalance (node (N ll lv lh lr) v r) = Ok (node ll lv (node lr v r)) /\
  inv (node ll lv (node lr v r)) /\
  height (node ll lv (node lr v r)) = height lr + 2.
Proof.
  intros Hl Hr Hh Hle. pose proof Hl as Hl0. apply inv_N in Hl as (Hll & Hlr & Hd & ->).
  cbn [height] in Hh.
  split; [|split].
  - unfold node at 1. cbn [rebalance]. unfold balance.
    rewrite (height_of_inv r Hr), (height_of_inv _ Hl0). cbn [height].
    destruct (Z.gtb_spec (1 + Z.max (height ll) (height lr) - height r) 1) as [H1|H1]; [|lia].
    rewrite (height_of_inv ll Hll), (height_of_inv lr Hlr).
    destruct (Z.gtb_spec (height lr) (height ll)) as [H3|H3]; [lia|].
    apply rotateRight_eq, Hlr.
  - apply inv_node; [|apply inv_node|]; try assumption; rewrite ?height_node; lia.
  - rewrite !height_node. lia.
Qed.

(* left-heavy by 2, left child right-leaning: double rotation (rotateRightLeft) *)
Lemma rebalance_case_rotateRightLeft ll lv lh lrl lrv lrh lrr v r :
  inv (N ll lv lh (N lrl lrv lrh lrr)) -> inv r ->
  height (N ll lv lh (N lrl lrv lrh lrr)) = height r + 2 -> height (N lrl lrv lrh lrr) > height ll ->
  rebalance (node (N ll lv lh (N lrl lrv lrh lrr)) v r)
    = Ok (node (node ll lv lrl) lrv (node lrr v r)) /\
  inv (node (node ll lv lrl) lrv (node lrr v r)) /\
  height (node (node ll lv lrl) lrv (node lrr v r)) = height r + 2.
Proof.
  intros Hl Hr Hh Hgt. pose proof Hl as Hl0. apply inv_N in Hl as (Hll & Hlr & Hd & ->).
  pose proof Hlr as Hlr0. apply inv_N in Hlr as (Hlrl & Hlrr & Hd2 & ->).
  cbn [height] in Hh, Hgt, Hd.
  split; [|split].
  - unfold node at 1. cbn [rebalance]. unfold balance.
    rewrite (height_of_inv r Hr), (height_of_inv _ Hl0). cbn [height].
    destruct (Z.gtb_spec (1 + Z.max (height ll) (1 + Z.max (height lrl) (height lrr)) - height r) 1) as [H1|H1]; [|lia].
    rewrite (height_of_inv _ Hlr0), (height_of_inv ll Hll). cbn [height].
    destruct (Z.gtb_spec (1 + Z.max (height lrl) (height lrr)) (height ll)) as [H3|H3]; [|lia].
    cbn [rotateRightLeft]. rewrite rotateLeft_eq by apply Hlrl. cbn [bind].
    unfold node at 1. rewrite rotateRight_eq by apply Hlrr. reflexivity.
  - apply inv_node; [apply inv_node|apply inv_node|]; try assumption; rewrite ?height_node; lia.
  - rewrite !height_node. lia.
Qed.

(* no rotation when the children differ by at most one *)
Lemma rebalance_case_balanced l v r :
  inv l -> inv r -> -1 <= height l - height r <= 1 ->
  rebalance (node l v r) = Ok (node l v r).
Proof.
  intros Hl Hr Hd. unfold node. cbn [rebalance]. unfold balance.
  rewrite (height_of_inv l Hl), (height_of_inv r Hr).
  destruct (Z.gtb_spec (height l - height r) 1) as [H1|H1]; [lia|].
  destruct (Z.gtb_spec (height r - height l) 1) as [H2|H2]; [lia|]. reflexivity.
Qed.

(* What add / remove / popLeftMost need: on a freshly re-heighted node whose
   children satisfy inv and differ by at most TWO, rebalance does not panic,
   re-establishes inv, keeps the number of nodes, and the height is the
   un-rebalanced height or one less (and is unchanged if there was nothing
   to do). *)
Lemma rebalance_inv l v r :
  inv l -> inv r -> -2 <= height l - height r <= 2 ->
  exists t', rebalance (node l v r) = Ok t' /\ inv t' /\ t' <> E /\
    Z.max (height l) (height r) <= height t' <= 1 + Z.max (height l) (height r) /\
    (-1 <= height l - height r <= 1 -> t' = node l v r) /\
    size t' = size l + 1 + size r.
Proof.
  intros Hl Hr Hd.
  destruct (Z_le_gt_dec (height l - height r) 1) as [Hu|Hu];
    [destruct (Z_le_gt_dec (-1) (height l - height r)) as [Hw|Hw]|].
  - (* balanced *)
    exists (node l v r). split; [apply rebalance_case_balanced; assumption || lia|].
    split; [apply inv_node; assumption || lia|]. split; [discriminate|].
    rewrite height_node. repeat split; try lia.
  - (* right heavy *)
    destruct r as [|rl rv rh rr]; [cbn [height] in *; pose proof (height_ge l); lia|].
    destruct (Z_le_gt_dec (height rl) (height rr)) as [Hc|Hc].
    + destruct (rebalance_case_rotateLeft l v rl rv rh rr Hl Hr ltac:(lia) Hc) as (E1 & I1 & H1).
      eexists; split; [exact E1|]. split; [exact I1|]. split; [discriminate|].
      apply inv_N in Hr as (Hrl & Hrr & Hd' & ->). cbn [height] in *.
      split; [lia|]. split; [lia|]. rewrite !size_node. cbn [size]. lia.
    + destruct rl as [|rll rlv rlh rlr]; [cbn [height] in Hc; pose proof (height_ge rr); lia|].
      destruct (rebalance_case_rotateLeftRight l v rll rlv rlh rlr rv rh rr Hl Hr ltac:(lia) Hc) as (E1 & I1 & H1).
      eexists; split; [exact E1|]. split; [exact I1|]. split; [discriminate|].
      cbn [height] in *.
      split; [lia|]. split; [lia|]. rewrite !size_node. cbn [size]. lia.
  - (* left heavy *)
    destruct l as [|ll lv lh lr]; [cbn [height] in *; pose proof (height_ge r); lia|].
    destruct (Z_le_gt_dec (height lr) (height ll)) as [Hc|Hc].
    + destruct (rebalance_case_rotateRight ll lv lh lr v r Hl Hr ltac:(lia) Hc) as (E1 & I1 & H1).
      eexists; split; [exact E1|]. split; [exact I1|]. split; [discriminate|].
      apply inv_N in Hl as (Hll & Hlr & Hd' & ->). cbn [height] in *.
      split; [lia|]. split; [lia|]. rewrite !size_node. cbn [size]. lia.
    + destruct lr as [|lrl lrv lrh lrr]; [cbn [height] in Hc; pose proof (height_ge ll); lia|].
      destruct (rebalance_case_rotateRightLeft ll lv lh lrl lrv lrh lrr v r Hl Hr ltac:(lia) Hc) as (E1 & I1 & H1).
      eexists; split; [exact E1|]. split; [exact I1|]. split; [discriminate|].
      cbn [height] in *.
      split; [lia|]. split; [lia|]. rewrite !size_node. cbn [size]. lia.
Qed.

(* ---------- add ---------- *)

Lemma add_eq cmp value l v h r :
  add cmp value (N l v h r) =
  if cmp value v <? 0 then
    do l' <- (match l with E => Ok (leaf value) | _ => add cmp value l end);
    rebalance (node l' v r)
  else
    do r' <- (match r with E => Ok (leaf value) | _ => add cmp value r end);
    rebalance (node l v r').
Proof. reflexivity. Qed.

(* add never panics on a non-nil receiver, preserves inv, adds one node and
   raises the height by 0 or 1 *)
Lemma add_inv cmp value t :
  t <> E -> inv t ->
  exists t', add cmp value t = Ok t' /\ inv t' /\ t' <> E /\
    height t <= height t' <= height t + 1 /\ size t' = size t + 1.
Proof.
  induction t as [|l IHl v h r IHr]; intros Hne Hi; [congruence|]. clear Hne.
  apply inv_N in Hi as (Hl & Hr & Hd & ->).
  rewrite add_eq. destruct (cmp value v <? 0).
  - assert (exists l', (match l with E => Ok (leaf value) | _ => add cmp value l end) = Ok l' /\ inv l' /\
              height l <= height l' <= height l + 1 /\ size l' = size l + 1) as (l' & -> & Hl' & Hh & Hs).
    { destruct l as [|a b c d] eqn:El.
      - exists (leaf value). split; [reflexivity|]. split; [apply inv_leaf|]. cbn; lia.
      - rewrite <- El in *. destruct (IHl ltac:(subst l; discriminate) Hl) as (l' & E1 & I1 & _ & H1 & S1).
        exists l'. split; [assumption|]. split; [assumption|]. split; lia. }
    cbn [bind].
    destruct (rebalance_inv l' v r Hl' Hr ltac:(lia)) as (t' & E1 & I1 & N1 & H1 & K1 & S1).
    exists t'. split; [exact E1|]. split; [exact I1|]. split; [exact N1|]. cbn [height size].
    split; [|lia].
    destruct (Z_le_gt_dec (height l' - height r) 1) as [Hu|Hu].
    + rewrite K1 by lia. rewrite height_node. lia.
    + lia.
  - assert (exists r', (match r with E => Ok (leaf value) | _ => add cmp value r end) = Ok r' /\ inv r' /\
              height r <= height r' <= height r + 1 /\ size r' = size r + 1) as (r' & -> & Hr' & Hh & Hs).
    { destruct r as [|a b c d] eqn:Er.
      - exists (leaf value). split; [reflexivity|]. split; [apply inv_leaf|]. cbn; lia.
      - rewrite <- Er in *. destruct (IHr ltac:(subst r; discriminate) Hr) as (r' & E1 & I1 & _ & H1 & S1).
        exists r'. split; [assumption|]. split; [assumption|]. split; lia. }
    cbn [bind].
    destruct (rebalance_inv l v r' Hl Hr' ltac:(lia)) as (t' & E1 & I1 & N1 & H1 & K1 & S1).
    exists t'. split; [exact E1|]. split; [exact I1|]. split; [exact N1|]. cbn [height size].
    split; [|lia].
    destruct (Z_le_gt_dec (height r' - height l) 1) as [Hu|Hu].
    + rewrite K1 by lia. rewrite height_node. lia.
    + lia.
Qed.

Lemma add_total cmp v t : t <> E -> inv t -> exists t', add cmp v t = Ok t' /\ inv t'.
Proof.
  intros Hne Hi. destruct (add_inv cmp v t Hne Hi) as (t' & E1 & I1 & _). exists t'. split; assumption.
Qed.

(* ---------- popLeftMost ---------- *)

Lemma popLeftMost_eq l v h r :
  popLeftMost (N l v h r) =
  match l with
  | E => Ok (r, v)
  | _ => do (newLeft, popped) <- popLeftMost l;
         do n' <- rebalance (node newLeft v r);
         Ok (n', popped)
  end.
Proof. destruct l; reflexivity. Qed.

(* popLeftMost never panics on a non-nil receiver, preserves inv, removes one
   node and lowers the height by 0 or 1 *)
Lemma popLeftMost_inv t :
  t <> E -> inv t ->
  exists t' x, popLeftMost t = Ok (t', x) /\ inv t' /\
    height t - 1 <= height t' <= height t /\ size t' = size t - 1.
Proof.
  induction t as [|l IHl v h r _]; intros Hne Hi; [congruence|]. clear Hne.
  apply inv_N in Hi as (Hl & Hr & Hd & ->).
  rewrite popLeftMost_eq. destruct l as [|a b c d] eqn:El.
  - exists r, v. split; [reflexivity|]. split; [assumption|]. cbn [height size] in *.
    pose proof (height_ge r). lia.
  - rewrite <- El in *. destruct (IHl ltac:(subst l; discriminate) Hl) as (l' & x & -> & Hl' & Hh & Hs).
    cbn [bind].
    destruct (rebalance_inv l' v r Hl' Hr ltac:(lia)) as (t' & -> & I1 & N1 & H1 & K1 & S1).
    cbn [bind]. exists t', x. split; [reflexivity|]. split; [exact I1|]. cbn [height size].
    split; [|lia].
    destruct (Z_le_gt_dec (height r - height l') 1) as [Hu|Hu].
    + rewrite K1 by lia. rewrite height_node. lia.
    + lia.
Qed.

(* ---------- remove ---------- *)

Lemma remove_eq eqb cmp value l v h r :
  remove eqb cmp value (N l v h r) =
  if eqb v value then
    match l, r with
    | E, E => Ok (E, true)
    | E, _ => Ok (r, true)
    | _, E => Ok (l, true)
    | _, _ =>
        do (newRight, leftMost) <- popLeftMost r;
        do n' <- rebalance (node l leftMost newRight);
        Ok (n', true)
    end
  else if negb (is_nil l) && (cmp value v <? 0) then
    do (newNode, ok) <- remove eqb cmp value l;
    if ok then do n' <- rebalance (node newNode v r); Ok (n', true)
    else Ok (N l v h r, false)
  else if negb (is_nil r) then
    do (newNode, ok) <- remove eqb cmp value r;
    if ok then do n' <- rebalance (node l v newNode); Ok (n', true)
    else Ok (N l v h r, false)
  else Ok (N l v h r, false).
Proof. destruct l, r; reflexivity. Qed.

(* remove never panics on a non-nil receiver, preserves inv, lowers the
   height by 0 or 1 and removes exactly one node when it reports true;
   returns the receiver itself when it reports false *)
Lemma remove_inv eqb cmp value t :
  t <> E -> inv t ->
  exists t' b, remove eqb cmp value t = Ok (t', b) /\ inv t' /\
    height t - 1 <= height t' <= height t /\
    (b = true -> size t' = size t - 1) /\ (b = false -> t' = t).
Proof.
  induction t as [|l IHl v h r IHr]; intros Hne Hi; [congruence|]. clear Hne.
  pose proof Hi as Hi0.
  apply inv_N in Hi as (Hl & Hr & Hd & ->).
  rewrite remove_eq. destruct (eqb v value).
  - (* found here *)
    destruct l as [|a b c d] eqn:El; destruct r as [|a' b' c' d'] eqn:Er.
    + exists E, true. split; [reflexivity|]. split; [apply inv_E|]. cbn. repeat split; lia || discriminate.
    + rewrite <- Er in *. exists r, true. split; [reflexivity|]. split; [assumption|].
      cbn [height size] in *. pose proof (height_ge r). repeat split; lia || discriminate.
    + rewrite <- El in *. exists l, true. split; [reflexivity|]. split; [assumption|].
      cbn [height size] in *. pose proof (height_ge l). repeat split; lia || discriminate.
    + rewrite <- El, <- Er in *.
      destruct (popLeftMost_inv r ltac:(subst r; discriminate) Hr) as (r' & x & -> & Hr' & Hh & Hs).
      cbn [bind].
      destruct (rebalance_inv l x r' Hl Hr' ltac:(lia)) as (t' & -> & I1 & N1 & H1 & K1 & S1).
      cbn [bind]. exists t', true. split; [reflexivity|]. split; [exact I1|]. cbn [height size].
      split; [|split; [lia|discriminate]].
      destruct (Z_le_gt_dec (height l - height r') 1) as [Hu|Hu].
      * rewrite K1 by lia. rewrite height_node. lia.
      * lia.
  - destruct (negb (is_nil l) && (cmp value v <? 0)) eqn:Hgo.
    + (* descend left *)
      assert (l <> E) as Hlne by (intros ->; discriminate).
      destruct (IHl Hlne Hl) as (l' & b & -> & Hl' & Hh & Hs & Hf). cbn [bind].
      destruct b.
      * destruct (rebalance_inv l' v r Hl' Hr ltac:(lia)) as (t' & -> & I1 & N1 & H1 & K1 & S1).
        cbn [bind]. exists t', true. split; [reflexivity|]. split; [exact I1|]. cbn [height size].
        specialize (Hs eq_refl).
        split; [|split; [lia|discriminate]].
        destruct (Z_le_gt_dec (height r - height l') 1) as [Hu|Hu].
        -- rewrite K1 by lia. rewrite height_node. lia.
        -- lia.
      * eexists _, false. split; [reflexivity|]. split; [exact Hi0|]. cbn [height].
        repeat split; lia || discriminate.
    + destruct (negb (is_nil r)) eqn:Hgo2.
      * (* descend right *)
        assert (r <> E) as Hrne by (intros ->; discriminate).
        destruct (IHr Hrne Hr) as (r' & b & -> & Hr' & Hh & Hs & Hf). cbn [bind].
        destruct b.
        -- destruct (rebalance_inv l v r' Hl Hr' ltac:(lia)) as (t' & -> & I1 & N1 & H1 & K1 & S1).
           cbn [bind]. exists t', true. split; [reflexivity|]. split; [exact I1|]. cbn [height size].
           specialize (Hs eq_refl).
           split; [|split; [lia|discriminate]].
           destruct (Z_le_gt_dec (height l - height r') 1) as [Hu|Hu].
           ++ rewrite K1 by lia. rewrite height_node. lia.
           ++ lia.
        -- eexists _, false. split; [reflexivity|]. split; [exact Hi0|]. cbn [height].
           repeat split; lia || discriminate.
      * eexists _, false. split; [reflexivity|]. split; [exact Hi0|]. cbn [height].
        repeat split; lia || discriminate.
Qed.

Lemma remove_total eqb cmp v t :
  t <> E -> inv t -> exists t' b, remove eqb cmp v t = Ok (t', b) /\ inv t'.
Proof.
  intros Hne Hi. destruct (remove_inv eqb cmp v t Hne Hi) as (t' & b & E1 & I1 & _).
  exists t', b. split; assumption.
Qed.

End Balance.
