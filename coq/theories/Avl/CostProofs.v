(* C02 — the cost copies of Avl/Cost.v compute the same results as the model's
   find / add / remove and make at most one comparator call per level of the
   tree; on a height-balanced tree that is at most 1.4405*log2(n+2) calls. *)
From Typ Require Import Lib.Base Avl.Model Avl.Balance Avl.Fib Avl.BalanceHist Avl.Cost.
Local Open Scope Z_scope.

Section CostProofs.
Context {A : Type} (eqb : A -> A -> bool) (cmp : A -> A -> Z).
Implicit Types t l r : tree (A:=A).

Lemma contains_cost_fst value t : fst (contains_cost eqb cmp value t) = contains eqb cmp value t.
Proof.
  induction t as [|l IHl v h r IHr]; cbn [contains_cost contains]; [reflexivity|].
  destruct (eqb v value); [reflexivity|].
  destruct l as [|ll lv lh lr].
  - cbn [is_nil negb andb]. destruct (negb (is_nil r)); [exact IHr|reflexivity].
  - cbn [is_nil negb andb]. destruct (cmp value v <? 0).
    + rewrite <- IHl. destruct (contains_cost eqb cmp value (N ll lv lh lr)); reflexivity.
    + destruct (negb (is_nil r)); [|reflexivity].
      rewrite <- IHr. destruct (contains_cost eqb cmp value r); reflexivity.
Qed.

Lemma contains_cost_snd value t : (snd (contains_cost eqb cmp value t) <= levels t)%nat.
Proof.
  induction t as [|l IHl v h r IHr]; cbn [contains_cost levels]; [cbn; lia|].
  destruct (eqb v value); [cbn; lia|].
  destruct l as [|ll lv lh lr].
  - destruct (negb (is_nil r)); [|cbn; lia]. cbn [levels] in *. lia.
  - destruct (cmp value v <? 0).
    + destruct (contains_cost eqb cmp value (N ll lv lh lr)) as [b k]. cbn [snd] in *. lia.
    + destruct (negb (is_nil r)).
      * destruct (contains_cost eqb cmp value r) as [b k]. cbn [snd] in *. lia.
      * cbn [snd levels]. lia.
Qed.

Lemma add_cost_fst value t : fst (add_cost cmp value t) = add cmp value t.
Proof.
  induction t as [|l IHl v h r IHr]; cbn [add_cost add]; [reflexivity|].
  destruct (cmp value v <? 0).
  - destruct l as [|ll lv lh lr]; [reflexivity|].
    rewrite <- IHl. destruct (add_cost cmp value (N ll lv lh lr)); reflexivity.
  - destruct r as [|rl rv rh rr]; [reflexivity|].
    rewrite <- IHr. destruct (add_cost cmp value (N rl rv rh rr)); reflexivity.
Qed.

Lemma add_cost_snd value t : (snd (add_cost cmp value t) <= levels t)%nat.
Proof.
  induction t as [|l IHl v h r IHr]; cbn [add_cost levels]; [cbn; lia|].
  destruct (cmp value v <? 0).
  - destruct l as [|ll lv lh lr]; [cbn; lia|].
    destruct (add_cost cmp value (N ll lv lh lr)) as [x k]. cbn [snd] in *. lia.
  - destruct r as [|rl rv rh rr]; [cbn; lia|].
    destruct (add_cost cmp value (N rl rv rh rr)) as [x k]. cbn [snd] in *. lia.
Qed.

Lemma remove_cost_fst value t : fst (remove_cost eqb cmp value t) = remove eqb cmp value t.
Proof.
  induction t as [|l IHl v h r IHr]; cbn [remove_cost remove]; [reflexivity|].
  destruct (eqb v value); [destruct l, r; reflexivity|].
  destruct l as [|ll lv lh lr].
  - cbn [is_nil negb andb]. destruct (negb (is_nil r)); [|reflexivity].
    rewrite <- IHr. destruct (remove_cost eqb cmp value r); reflexivity.
  - cbn [is_nil negb andb]. destruct (cmp value v <? 0).
    + rewrite <- IHl. destruct (remove_cost eqb cmp value (N ll lv lh lr)); reflexivity.
    + destruct (negb (is_nil r)); [|reflexivity].
      rewrite <- IHr. destruct (remove_cost eqb cmp value r); reflexivity.
Qed.

Lemma remove_cost_snd value t : (snd (remove_cost eqb cmp value t) <= levels t)%nat.
Proof.
  induction t as [|l IHl v h r IHr]; cbn [remove_cost levels]; [cbn; lia|].
  destruct (eqb v value); [cbn; lia|].
  destruct l as [|ll lv lh lr].
  - destruct (negb (is_nil r)); [|cbn; lia].
    destruct (remove_cost eqb cmp value r) as [x k]. cbn [snd levels] in *. lia.
  - destruct (cmp value v <? 0).
    + destruct (remove_cost eqb cmp value (N ll lv lh lr)) as [x k]. cbn [snd] in *. lia.
    + destruct (negb (is_nil r)).
      * destruct (remove_cost eqb cmp value r) as [x k]. cbn [snd] in *. lia.
      * cbn [snd]. lia.
Qed.

(* k comparator calls, k <= levels, on a height-balanced tree: k <= 1.4405*log2(n+2) *)
Lemma calls_log t (k : nat) :
  avl t -> (k <= levels t)%nat -> 2 ^ (10000 * Z.of_nat k) <= (size t + 2) ^ 14405.
Proof.
  intros H Hk. eapply Z.le_trans; [|apply avl_depth_bound, H].
  apply Z.pow_le_mono_r; [lia|]. rewrite height_levels. lia.
Qed.

(* the cost statement: same results, at most height+1 comparator calls, which
   on a height-balanced tree is at most 1.4405*log2(n+2) *)
Theorem cost_bound value t :
  fst (contains_cost eqb cmp value t) = contains eqb cmp value t /\
  fst (add_cost cmp value t) = add cmp value t /\
  fst (remove_cost eqb cmp value t) = remove eqb cmp value t /\
  Z.of_nat (snd (contains_cost eqb cmp value t)) <= height t + 1 /\
  Z.of_nat (snd (add_cost cmp value t)) <= height t + 1 /\
  Z.of_nat (snd (remove_cost eqb cmp value t)) <= height t + 1 /\
  (avl t ->
   2 ^ (10000 * Z.of_nat (snd (contains_cost eqb cmp value t))) <= (size t + 2) ^ 14405 /\
   2 ^ (10000 * Z.of_nat (snd (add_cost cmp value t))) <= (size t + 2) ^ 14405 /\
   2 ^ (10000 * Z.of_nat (snd (remove_cost eqb cmp value t))) <= (size t + 2) ^ 14405).
Proof.
  pose proof (contains_cost_snd value t). pose proof (add_cost_snd value t).
  pose proof (remove_cost_snd value t). rewrite height_levels.
  split; [apply contains_cost_fst|]. split; [apply add_cost_fst|]. split; [apply remove_cost_fst|].
  split; [lia|]. split; [lia|]. split; [lia|].
  intros Ha. repeat split; apply calls_log; assumption.
Qed.

(* ---- Tree level and histories: the comparator calls of an Add / Remove / Contains issued
   after ANY history, on any handle, are at most one per level of the tree the op starts
   from, hence at most 1.4405*log2(Len+2); [op_calls] is what Avl/Check.v compares exactly
   with the calls counted on the real code ---- *)
Lemma Tree_calls_le (t : Tree (A:=A)) value :
  (Tree_Contains_calls eqb cmp t value <= levels (root t))%nat /\
  (Tree_Add_calls cmp t value <= levels (root t))%nat /\
  (Tree_Remove_calls eqb cmp t value <= levels (root t))%nat.
Proof.
  unfold Tree_Contains_calls, Tree_Add_calls, Tree_Remove_calls.
  pose proof (contains_cost_snd value (root t)). pose proof (add_cost_snd value (root t)).
  pose proof (remove_cost_snd value (root t)).
  destruct (root t); [cbn [levels]; lia|]. lia.
Qed.

Theorem history_calls ops h value (t : Tree (A:=A)) :
  nth_error (fst (run_history eqb cmp ops)) h = Some t ->
  let ts := fst (run_history eqb cmp ops) in
  op_calls eqb cmp ts (OpContains h value) = Some (Tree_Contains_calls eqb cmp t value) /\
  op_calls eqb cmp ts (OpAdd h value) = Some (Tree_Add_calls cmp t value) /\
  op_calls eqb cmp ts (OpRemove h value) = Some (Tree_Remove_calls eqb cmp t value) /\
  Z.of_nat (Tree_Contains_calls eqb cmp t value) <= height (root t) + 1 /\
  Z.of_nat (Tree_Add_calls cmp t value) <= height (root t) + 1 /\
  Z.of_nat (Tree_Remove_calls eqb cmp t value) <= height (root t) + 1 /\
  2 ^ (10000 * Z.of_nat (Tree_Contains_calls eqb cmp t value)) <= (Tree_Len t + 2) ^ 14405 /\
  2 ^ (10000 * Z.of_nat (Tree_Add_calls cmp t value)) <= (Tree_Len t + 2) ^ 14405 /\
  2 ^ (10000 * Z.of_nat (Tree_Remove_calls eqb cmp t value)) <= (Tree_Len t + 2) ^ 14405.
Proof.
  intros Hn ts. subst ts.
  destruct (history_inv eqb cmp ops h t Hn) as [[Ha _] Hs].
  destruct (Tree_calls_le t value) as (H1 & H2 & H3).
  unfold op_calls. rewrite Hn. cbn [option_map].
  split; [reflexivity|]. split; [reflexivity|]. split; [reflexivity|].
  rewrite height_levels. split; [lia|]. split; [lia|]. split; [lia|].
  unfold Tree_Len. rewrite Hs.
  repeat split; apply calls_log; assumption.
Qed.

(* ---- [run_calls] (the list Avl/Check.v check_calls compares with the calls counted on the real
   code) entry by entry: entry i is [op_calls] of op i in the state reached by the first i ops ---- *)
Lemma run_fst_cons ts o (rest : list (op (A:=A))) :
  fst (run eqb cmp ts (o :: rest)) = fst (run eqb cmp (fst (step eqb cmp ts o)) rest).
Proof.
  cbn [run]. destruct (step eqb cmp ts o) as [ts' x]. cbn [fst].
  destruct (run eqb cmp ts' rest). reflexivity.
Qed.

Lemma run_calls_snoc ops : forall ts o,
  run_calls eqb cmp ts (ops ++ [o]) =
  run_calls eqb cmp ts ops ++ [op_calls eqb cmp (fst (run eqb cmp ts ops)) o].
Proof.
  induction ops as [|a ops IH]; intros ts o; cbn [app run_calls].
  - reflexivity.
  - rewrite IH, run_fst_cons. reflexivity.
Qed.

Lemma run_calls_nth ops : forall ts i,
  nth_error (run_calls eqb cmp ts ops) i =
  option_map (op_calls eqb cmp (fst (run eqb cmp ts (firstn i ops)))) (nth_error ops i).
Proof.
  induction ops as [|a ops IH]; intros ts [|i]; cbn [run_calls nth_error firstn option_map]; try reflexivity.
  rewrite IH, run_fst_cons. reflexivity.
Qed.

Lemma op_calls_le ts o k :
  op_calls eqb cmp ts o = Some k ->
  exists h (T : Tree (A:=A)), nth_error ts h = Some T /\ (k <= levels (root T))%nat.
Proof.
  destruct o as [h v|h v|h v|h|h|h|h|h|h]; cbn [op_calls]; try discriminate;
    (destruct (nth_error ts h) as [T|] eqn:En; cbn [option_map]; [|discriminate]);
    intros [= <-]; exists h, T; (split; [exact En|]);
    try (destruct (Tree_calls_le T v) as (H1 & H2 & H3); assumption); lia.
Qed.

(* EVERY entry of the list the correspondence check compares: if entry i of run_calls of a
   history is Some k, then op i exists, it ran on some handle h holding a tree t in the state
   after the first i ops, and k <= height t + 1 and k <= 1.4405*log2(Len t + 2) *)
Theorem history_run_calls ops i k :
  nth_error (run_calls eqb cmp [empty_Tree] ops) i = Some (Some k) ->
  exists o h (T : Tree (A:=A)),
    nth_error ops i = Some o /\
    op_calls eqb cmp (fst (run_history eqb cmp (firstn i ops))) o = Some k /\
    nth_error (fst (run_history eqb cmp (firstn i ops))) h = Some T /\
    Z.of_nat k <= height (root T) + 1 /\
    2 ^ (10000 * Z.of_nat k) <= (Tree_Len T + 2) ^ 14405.
Proof.
  rewrite run_calls_nth. destruct (nth_error ops i) as [o|]; cbn [option_map]; [|discriminate].
  intros [= Hc]. fold (run_history eqb cmp (firstn i ops)) in Hc.
  destruct (op_calls_le _ _ _ Hc) as (h & T & Hn & Hk).
  destruct (history_inv eqb cmp (firstn i ops) h T Hn) as [[Ha _] Hs].
  exists o, h, T. split; [reflexivity|]. split; [exact Hc|]. split; [exact Hn|].
  rewrite height_levels. split; [lia|].
  unfold Tree_Len. rewrite Hs. apply calls_log; assumption.
Qed.

End CostProofs.
