(* C02 — the cost copies of Avl/Cost.v compute the same results as the model's
   find / add / remove and make at most one comparator call per level of the
   tree; on a height-balanced tree that is at most 1.4405*log2(n+2) calls. *)
From Typ Require Import Lib.Base Avl.Model Avl.Balance Avl.Fib Avl.Cost.
Local Open Scope Z_scope.

Section CostProofs.
Context {A : Type} (eqb : A -> A -> bool) (cmp : A -> A -> Z).
Implicit Types t l r : tree (A:=A).

Lemma contains_cost_fst value t : fst (contains_cost eqb cmp value t) = contains eqb cmp value t.
Proof.
  induction t as [|l IHl v h r IHr]; cbn [contains_cost contains]; [reflexivity|].
  destruct (eqb v value); [reflexivity|].
  destruct l as [|ll lv lh lr].
  - cbn [is_nil negb andb]. destruct (negb (is_nil r)); [exact IHr|reflexivity].
  - cbn [is_nil negb andb]. destruct (cmp value v <? 0).
    + rewrite <- IHl. destruct (contains_cost eqb cmp value (N ll lv lh lr)); reflexivity.
    + destruct (negb (is_nil r)); [|reflexivity].
      rewrite <- IHr. destruct (contains_cost eqb cmp value r); reflexivity.
Qed.

Lemma contains_cost_snd value t : (snd (contains_cost eqb cmp value t) <= levels t)%nat.
Proof.
  induction t as [|l IHl v h r IHr]; cbn [contains_cost levels]; [cbn; lia|].
  destruct (eqb v value); [cbn; lia|].
  destruct l as [|ll lv lh lr].
  - destruct (negb (is_nil r)); [|cbn; lia]. cbn [levels] in *. lia.
  - destruct (cmp value v <? 0).
    + destruct (contains_cost eqb cmp value (N ll lv lh lr)) as [b k]. cbn [snd] in *. lia.
    + destruct (negb (is_nil r)).
      * destruct (contains_cost eqb cmp value r) as [b k]. cbn [snd] in *. lia.
      * cbn [snd levels]. lia.
Qed.

Lemma add_cost_fst value t : fst (add_cost cmp value t) = add cmp value t.
Proof.
  induction t as [|l IHl v h r IHr]; cbn [add_cost add]; [reflexivity|].
  destruct (cmp value v <? 0).
  - destruct l as [|ll lv lh lr]; [reflexivity|].
    rewrite <- IHl. destruct (add_cost cmp value (N ll lv lh lr)); reflexivity.
  - destruct r as [|rl rv rh rr]; [reflexivity|].
    rewrite <- IHr. destruct (add_cost cmp value (N rl rv rh rr)); reflexivity.
Qed.

Lemma add_cost_snd value t : (snd (add_cost cmp value t) <= levels t)%nat.
Proof.
  induction t as [|l IHl v h r IHr]; cbn [add_cost levels]; [cbn; lia|].
  destruct (cmp value v <? 0).
  - destruct l as [|ll lv lh lr]; [cbn; lia|].
    destruct (add_cost cmp value (N ll lv lh lr)) as [x k]. cbn [snd] in *. lia.
  - destruct r as [|rl rv rh rr]; [cbn; lia|].
    destruct (add_cost cmp value (N rl rv rh rr)) as [x k]. cbn [snd] in *. lia.
Qed.

Lemma remove_cost_fst value t : fst (remove_cost eqb cmp value t) = remove eqb cmp value t.
Proof.
  induction t as [|l IHl v h r IHr]; cbn [remove_cost remove]; [reflexivity|].
  destruct (eqb v value); [destruct l, r; reflexivity|].
  destruct l as [|ll lv lh lr].
  - cbn [is_nil negb andb]. destruct (negb (is_nil r)); [|reflexivity].
    rewrite <- IHr. destruct (remove_cost eqb cmp value r); reflexivity.
  - cbn [is_nil negb andb]. destruct (cmp value v <? 0).
    + rewrite <- IHl. destruct (remove_cost eqb cmp value (N ll lv lh lr)); reflexivity.
    + destruct (negb (is_nil r)); [|reflexivity].
      rewrite <- IHr. destruct (remove_cost eqb cmp value r); reflexivity.
Qed.

Lemma remove_cost_snd value t : (snd (remove_cost eqb cmp value t) <= levels t)%nat.
Proof.
  induction t as [|l IHl v h r IHr]; cbn [remove_cost levels]; [cbn; lia|].
  destruct (eqb v value); [cbn; lia|].
  destruct l as [|ll lv lh lr].
  - destruct (negb (is_nil r)); [|cbn; lia].
    destruct (remove_cost eqb cmp value r) as [x k]. cbn [snd levels] in *. lia.
  - destruct (cmp value v <? 0).
    + destruct (remove_cost eqb cmp value (N ll lv lh lr)) as [x k]. cbn [snd] in *. lia.
    + destruct (negb (is_nil r)).
      * destruct (remove_cost eqb cmp value r) as [x k]. cbn [snd] in *. lia.
      * cbn [snd]. lia.
Qed.

(* k comparator calls, k <= levels, on a height-balanced tree: k <= 1.4405*log2(n+2) *)
Lemma calls_log t (k : nat) :
  avl t -> (k <= levels t)%nat -> 2 ^ (10000 * Z.of_nat k) <= (size t + 2) ^ 14405.
Proof.
  intros H Hk. eapply Z.le_trans; [|apply avl_depth_bound, H].
  apply Z.pow_le_mono_r; [lia|]. rewrite height_levels. lia.
Qed.

(* the cost statement: same results, at most height+1 comparator calls, which
   on a height-balanced tree is at most 1.4405*log2(n+2) *)
Theorem cost_bound value t :
  fst (contains_cost eqb cmp value t) = contains eqb cmp value t /\
  fst (add_cost cmp value t) = add cmp value t /\
  fst (remove_cost eqb cmp value t) = remove eqb cmp value t /\
  Z.of_nat (snd (contains_cost eqb cmp value t)) <= height t + 1 /\
  Z.of_nat (snd (add_cost cmp value t)) <= height t + 1 /\
  Z.of_nat (snd (remove_cost eqb cmp value t)) <= height t + 1 /\
  (avl t ->
   2 ^ (10000 * Z.of_nat (snd (contains_cost eqb cmp value t))) <= (size t + 2) ^ 14405 /\
   2 ^ (10000 * Z.of_nat (snd (add_cost cmp value t))) <= (size t + 2) ^ 14405 /\
   2 ^ (10000 * Z.of_nat (snd (remove_cost eqb cmp value t))) <= (size t + 2) ^ 14405).
Proof.
  pose proof (contains_cost_snd value t). pose proof (add_cost_snd value t).
  pose proof (remove_cost_snd value t). rewrite height_levels.
  split; [apply contains_cost_fst|]. split; [apply add_cost_fst|]. split; [apply remove_cost_fst|].
  split; [lia|]. split; [lia|]. split; [lia|].
  intros Ha. repeat split; apply calls_log; assumption.
Qed.

End CostProofs.
