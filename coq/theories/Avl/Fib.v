(* C02 — size and depth bounds of height-balanced trees: an AVL tree of height
   h has at least fib (h+3) - 1 nodes (Fibonacci minimal trees), hence no more
   than 1.4405*log2(n+2) levels. Everything in integers: the logarithmic
   bound is stated as  2^(10000*levels) <= (n+2)^14405. *)
From Typ Require Import Lib.Base Avl.Model Avl.Balance.
Local Open Scope Z_scope.

Fixpoint fib (n : nat) : Z :=
  match n with
  | O => 0
  | S n' => match n' with O => 1 | S n'' => fib n' + fib n'' end
  end.

Lemma fib_SS n : fib (S (S n)) = fib (S n) + fib n.
Proof. reflexivity. Qed.

Lemma fib_nonneg n : 0 <= fib n /\ 0 <= fib (S n).
Proof.
  induction n as [|n [IH1 IH2]]; [cbn; lia|]. split; [exact IH2|]. rewrite fib_SS. lia.
Qed.

Lemma fib_mono_S n : fib n <= fib (S n).
Proof.
  destruct n as [|n]; [cbn; lia|]. rewrite fib_SS. pose proof (fib_nonneg n). lia.
Qed.

Lemma fib_mono n m : (n <= m)%nat -> fib n <= fib m.
Proof.
  induction 1 as [|m _ IH]; [lia|]. pose proof (fib_mono_S m). lia.
Qed.

Section Bounds.
Context {A : Type}.
Implicit Types t l r : tree (A:=A).

(* number of levels as a natural number: levels t = height t + 1 *)
Fixpoint levels t : nat :=
  match t with E => O | N l _ _ r => S (Nat.max (levels l) (levels r)) end.

Lemma height_levels t : height t = Z.of_nat (levels t) - 1.
Proof.
  induction t as [|l IHl v h r IHr]; cbn [height levels]; [reflexivity|].
  rewrite IHl, IHr. lia.
Qed.

(* Fibonacci minimal trees: size + 1 >= fib (levels + 2) *)
Lemma avl_fib_levels t : avl t -> fib (levels t + 2) <= size t + 1.
Proof.
  induction t as [|l IHl v h r IHr]; cbn [avl levels size]; [intros _; cbn; lia|].
  intros (Hl & Hr & Hd). specialize (IHl Hl). specialize (IHr Hr).
  rewrite !height_levels in Hd.
  replace (S (Nat.max (levels l) (levels r)) + 2)%nat with (S (S (S (Nat.max (levels l) (levels r))))) by lia.
  rewrite fib_SS.
  destruct (Nat.le_ge_cases (levels l) (levels r)) as [Hc|Hc].
  - rewrite (Nat.max_r _ _ Hc).
    replace (S (S (levels r))) with (levels r + 2)%nat by lia.
    assert (fib (S (levels r)) <= fib (levels l + 2)) by (apply fib_mono; lia). lia.
  - rewrite (Nat.max_l _ _ Hc).
    replace (S (S (levels l))) with (levels l + 2)%nat by lia.
    assert (fib (S (levels l)) <= fib (levels r + 2)) by (apply fib_mono; lia). lia.
Qed.

Lemma avl_fib t : avl t -> fib (Z.to_nat (height t + 3)) <= size t + 1.
Proof.
  intros H. rewrite height_levels.
  replace (Z.to_nat (Z.of_nat (levels t) - 1 + 3)) with (levels t + 2)%nat by lia.
  apply avl_fib_levels, H.
Qed.

End Bounds.

(* ---- from Fibonacci to the logarithm, with a rational r = p/q, r^2 <= r + 1 ---- *)
Section Growth.
Variables p q : Z.
Hypothesis Hq : 0 < q.
Hypothesis Hp : 0 < p.
Hypothesis Hp2 : p <= 2 * q.
Hypothesis Hgold : p * p <= p * q + q * q.

(* fib (m+2) >= (p/q)^m *)
Lemma fib_growth m : p ^ Z.of_nat m <= q ^ Z.of_nat m * fib (m + 2) /\
                     p ^ Z.of_nat (S m) <= q ^ Z.of_nat (S m) * fib (S m + 2).
Proof.
  induction m as [|m [IH1 IH2]].
  - cbn [Z.of_nat]. rewrite !Z.pow_0_r, !Z.pow_1_r. cbn. lia.
  - split; [exact IH2|].
    replace (S (S m) + 2)%nat with (S (S (S m + 1))) by lia.
    rewrite fib_SS.
    replace (S (S m + 1)) with (S m + 2)%nat by lia.
    replace (S m + 1)%nat with (m + 2)%nat by lia.
    rewrite !Nat2Z.inj_succ in *. rewrite !Z.pow_succ_r in * by lia.
    set (P := p ^ Z.of_nat m) in *. set (Q := q ^ Z.of_nat m) in *.
    set (F1 := fib (m + 2)) in *. set (F2 := fib (S m + 2)) in *.
    assert (0 < P) by (apply Z.pow_pos_nonneg; lia).
    assert (0 < Q) by (apply Z.pow_pos_nonneg; lia).
    (* p*(p*P) <= (p*q+q*q)*P = q*(p*P) + q*q*P <= q*(q*(q*Q)*F2)... *)
    assert (p * (p * P) <= (p * q + q * q) * P) as H1.
    { replace (p * (p * P)) with ((p * p) * P) by ring. apply Z.mul_le_mono_nonneg_r; lia. }
    assert (q * (p * P) <= q * (q * Q * F2)) as H2 by (apply Z.mul_le_mono_nonneg_l; lia).
    assert (q * q * P <= q * q * (Q * F1)) as H3 by (apply Z.mul_le_mono_nonneg_l; nia).
    replace (q * (q * Q) * (F2 + F1)) with (q * (q * Q * F2) + q * q * (Q * F1)) by ring.
    replace ((p * q + q * q) * P) with (q * (p * P) + q * q * P) in H1 by ring.
    lia.
Qed.

Variables a b c d : Z.
Hypothesis Ha : 0 <= a.
Hypothesis Hb : 0 < b.
Hypothesis Hc : 0 <= c.
Hypothesis Hd : 0 <= d.
Hypothesis Hpow : 2 ^ a * q ^ b <= p ^ b.      (* 2^(a/b) <= p/q *)
Hypothesis Hexp : c * b <= a * d.              (* c/d <= a/b *)

(* X >= (p/q)^k  implies  X^d >= 2^(c*k) *)
Lemma growth_to_log k X : 0 <= k -> 1 <= X -> p ^ k <= q ^ k * X -> 2 ^ (c * k) <= X ^ d.
Proof.
  intros Hk HX H.
  assert (0 < q ^ k) as Hqk by (apply Z.pow_pos_nonneg; lia).
  assert (0 < p ^ k) as Hpk by (apply Z.pow_pos_nonneg; lia).
  (* step 1: 2^(a*k) <= X^b *)
  assert (2 ^ (a * k) <= X ^ b) as S1.
  { assert ((p ^ k) ^ b <= (q ^ k * X) ^ b) as H1 by (apply Z.pow_le_mono_l; lia).
    rewrite Z.pow_mul_l in H1.
    assert ((2 ^ a * q ^ b) ^ k <= (p ^ b) ^ k) as H2.
    { apply Z.pow_le_mono_l. split; [|exact Hpow].
      apply Z.mul_nonneg_nonneg; apply Z.pow_nonneg; lia. }
    rewrite Z.pow_mul_l in H2.
    rewrite <- !Z.pow_mul_r in H1 by lia. rewrite <- !Z.pow_mul_r in H2 by lia.
    replace (b * k) with (k * b) in H2 by ring.
    assert (0 < q ^ (k * b)) as Hqkb by (apply Z.pow_pos_nonneg; lia).
    assert (q ^ (k * b) * 2 ^ (a * k) <= q ^ (k * b) * X ^ b) as H3 by lia.
    apply Z.mul_le_mono_pos_l in H3; assumption. }
  (* step 2: (2^(c*k))^b <= (X^d)^b *)
  assert ((2 ^ (c * k)) ^ b <= (X ^ d) ^ b) as S2.
  { rewrite <- !Z.pow_mul_r by nia.
    apply Z.le_trans with (2 ^ (a * k * d)).
    - apply Z.pow_le_mono_r; [lia|]. nia.
    - rewrite Z.pow_mul_r by nia. replace (d * b) with (b * d) by ring.
      rewrite (Z.pow_mul_r X) by lia. apply Z.pow_le_mono_l. split; [apply Z.pow_nonneg; lia|exact S1]. }
  destruct (Z_le_gt_dec (2 ^ (c * k)) (X ^ d)) as [Hle|Hgt]; [exact Hle|exfalso].
  assert ((X ^ d) ^ b < (2 ^ (c * k)) ^ b); [|lia].
  apply Z.pow_lt_mono_l; [lia|]. split; [apply Z.pow_nonneg; lia|lia].
Qed.

End Growth.

(* the closed numeric facts: r = 1.61803 satisfies r^2 <= r + 1 and r^121 >= 2^84;
   10000/14405 <= 84/121 *)
Lemma golden_fact : 161803 * 161803 <= 161803 * 100000 + 100000 * 100000.
Proof. vm_compute. discriminate. Qed.
Lemma pow_fact : 2 ^ 84 * 100000 ^ 121 <= 161803 ^ 121.
Proof. vm_compute. discriminate. Qed.
Lemma exp_fact : 10000 * 121 <= 84 * 14405.
Proof. vm_compute. discriminate. Qed.

Section DepthBound.
Context {A : Type}.
Implicit Types t : tree (A:=A).

(* levels <= 1.4405 * log2 (n + 2), in integers *)
Theorem avl_depth_bound t : avl t -> 2 ^ (10000 * (height t + 1)) <= (size t + 2) ^ 14405.
Proof.
  intros H. pose proof (avl_fib_levels t H) as Hf. pose proof (size_ge t) as Hs.
  rewrite height_levels. replace (Z.of_nat (levels t) - 1 + 1) with (Z.of_nat (levels t)) by lia.
  apply (growth_to_log 161803 100000 ltac:(lia) ltac:(lia) 84 121 10000 14405
           ltac:(lia) ltac:(lia) ltac:(lia) ltac:(lia) pow_fact exp_fact); [lia|lia|].
  destruct (fib_growth 161803 100000 ltac:(lia) ltac:(lia) ltac:(lia) golden_fact (levels t)) as [Hg _].
  eapply Z.le_trans; [exact Hg|].
  apply Z.mul_le_mono_nonneg_l; [apply Z.pow_nonneg; lia|lia].
Qed.

(* "no element lies deeper than ...": an element stored at level k (root = level 1) *)
Inductive occurs_at : tree (A:=A) -> nat -> A -> Prop :=
| occ_here l v h r : occurs_at (N l v h r) 1 v
| occ_left l v h r k x : occurs_at l k x -> occurs_at (N l v h r) (S k) x
| occ_right l v h r k x : occurs_at r k x -> occurs_at (N l v h r) (S k) x.

Lemma occurs_at_levels t k x : occurs_at t k x -> (1 <= k <= levels t)%nat.
Proof.
  induction 1 as [l v h r|l v h r k x _ IH|l v h r k x _ IH]; cbn [levels]; lia.
Qed.

Lemma occurs_at_In t k x : occurs_at t k x -> In x (inorder t).
Proof.
  induction 1 as [l v h r|l v h r k x _ IH|l v h r k x _ IH]; cbn [inorder]; apply in_or_app.
  - right; left; reflexivity.
  - left; exact IH.
  - right; right; exact IH.
Qed.

Lemma In_occurs_at t x : In x (inorder t) -> exists k, occurs_at t k x.
Proof.
  induction t as [|l IHl v h r IHr]; cbn [inorder]; [intros []|].
  intros Hin. apply in_app_or in Hin as [Hin|[->|Hin]].
  - destruct (IHl Hin) as [k Hk]. exists (S k). apply occ_left, Hk.
  - exists 1%nat. apply occ_here.
  - destruct (IHr Hin) as [k Hk]. exists (S k). apply occ_right, Hk.
Qed.

Theorem avl_element_depth t k x :
  avl t -> occurs_at t k x -> 2 ^ (10000 * Z.of_nat k) <= (size t + 2) ^ 14405.
Proof.
  intros H Ho. apply occurs_at_levels in Ho.
  eapply Z.le_trans; [|apply avl_depth_bound, H].
  apply Z.pow_le_mono_r; [lia|]. rewrite height_levels. lia.
Qed.

End DepthBound.
