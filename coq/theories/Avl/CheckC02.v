From Typ Require Export Avl.Check.
Definition check_case := check_exact.
