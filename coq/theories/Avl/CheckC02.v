From Typ Require Export Avl.Check.
(* exact outputs (walks included: the shape), and exact comparator-call counts where recorded *)
Definition check_case (c : case) : bool := check_exact c && check_calls c.
