(* Correspondence check for the AVL model (C01, C02): a case is an operation
   history over tree handles together with the outputs the real avl.Tree[int]
   produced; the model is run on the same history. [c_calls] (C02, cases run
   with a call-counting natural-order comparator): the number of comparator
   calls the real code made in each op; [] = not recorded, a negative entry =
   not recorded for that op. Definitions only. *)
From Typ Require Export Lib.Base Avl.Model Avl.Cost.
Local Open Scope Z_scope.

Record case := Case { c_ops : list (op (A:=Z)); c_obs : list (out (A:=Z)); c_calls : list Z }.

Definition out_eqb (a b : out (A:=Z)) : bool :=
  match a, b with
  | OUnit, OUnit => true
  | OBool x, OBool y => Bool.eqb x y
  | OInt x, OInt y => Z.eqb x y
  | OList x, OList y => list_eqb Z.eqb x y
  | OPanic x, OPanic y => panic_kind_eqb x y
  | OBadHandle, OBadHandle => true
  | _, _ => false
  end.

Definition model_outs (c : case) : list (out (A:=Z)) := snd (run_history Z.eqb zcompare (c_ops c)).

(* exact agreement on every output, walks included: pins the tree SHAPE (C02) *)
Definition check_exact (c : case) : bool := list_eqb out_eqb (model_outs c) (c_obs c).

Fixpoint insert_sorted (x : Z) (l : list Z) : list Z :=
  match l with [] => [x] | y :: l' => if x <=? y then x :: l else y :: insert_sorted x l' end.
Definition sortZ (l : list Z) : list Z := fold_right insert_sorted [] l.

(* agreement on contents: pre- and post-order outputs are compared as multisets,
   everything else exactly (C01 does not depend on the shape) *)
Fixpoint contents_agree (ops : list (op (A:=Z))) (m o : list (out (A:=Z))) : bool :=
  match ops, m, o with
  | [], [], [] => true
  | op1 :: ops', m1 :: m', o1 :: o' =>
      (match op1, m1, o1 with
       | (OpPre _ | OpPost _), OList x, OList y => list_eqb Z.eqb (sortZ x) (sortZ y)
       | _, _, _ => out_eqb m1 o1
       end) && contents_agree ops' m' o'
  | _, _, _ => false
  end.
Definition check_contents (c : case) : bool := contents_agree (c_ops c) (model_outs c) (c_obs c).

(* exact agreement on the number of comparator calls of every op (C02_cost speaks about
   [contains_cost]/[add_cost]/[remove_cost]; [run_calls] is built from them) *)
Fixpoint calls_agree (m : list (option nat)) (o : list Z) : bool :=
  match m, o with
  | [], [] => true
  | mk :: m', z :: o' =>
      (if z <? 0 then true else match mk with Some k => Z.of_nat k =? z | None => false end)
      && calls_agree m' o'
  | _, _ => false
  end.
Definition check_calls (c : case) : bool :=
  match c_calls c with
  | [] => true
  | zs => calls_agree (run_calls Z.eqb zcompare [empty_Tree] (c_ops c)) zs
  end.
