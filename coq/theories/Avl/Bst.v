(* C01, per-function lemmas about the AVL model (Avl/Model.v): the comparator
   hypotheses, the search-tree invariant [bst], and what every function of
   avl.go does to the in-order sequence. Nothing here depends on the tree
   being balanced; the only fact about cached heights that is used is that
   they are never below -1 ([hnn]), which is all that totality (no nil
   dereference in the rotations) needs. *)
From Typ Require Import Lib.Base Avl.Model.
From Coq Require Import Permutation Sorted.
Local Open Scope Z_scope.

(* ---------- generic list facts ---------- *)
Section ListFacts.
Context {A : Type}.

Lemma SSorted_app (R : A -> A -> Prop) (l1 l2 : list A) :
  StronglySorted R (l1 ++ l2) <->
  StronglySorted R l1 /\ StronglySorted R l2 /\ Forall (fun x => Forall (R x) l2) l1.
Proof.
  induction l1 as [|a l1 IH]; cbn [app].
  - split; [intro H; repeat split; auto; constructor | intros (_ & H & _); exact H].
  - split.
    + intro H. inversion H as [|? ? Hs Hf]; subst. apply IH in Hs as (H1 & H2 & H3).
      apply Forall_app in Hf as [Hf1 Hf2].
      repeat split; auto; constructor; auto.
    + intros (H1 & H2 & H3). inversion H1 as [|? ? Hs Hf]; subst. inversion H3 as [|? ? Ha Hr]; subst.
      constructor; [apply IH; auto | apply Forall_app; auto].
Qed.

Lemma Forall_perm (P : A -> Prop) l l' : Permutation l l' -> Forall P l -> Forall P l'.
Proof. intros Hp Hf. apply Forall_forall. intros x Hx. rewrite Forall_forall in Hf. apply Hf. eapply Permutation_in; [symmetry; exact Hp | exact Hx]. Qed.

End ListFacts.

Lemma bind_ok {X Y} (r : result X) (f : X -> result Y) y :
  bind r f = Ok y -> exists x, r = Ok x /\ f x = Ok y.
Proof. destruct r as [x|k]; cbn; [eauto | discriminate]. Qed.

Section Bst.
Context {A : Type} (eqb : A -> A -> bool) (cmp : A -> A -> Z).
Local Notation tree := (@Model.tree A).
Implicit Types (t n : tree).

(* "comparator is a total order consistent with ==" *)
Record TotalOrderEq : Prop := {
  eqb_eq : forall a b, eqb a b = true <-> a = b;
  cmp_eq : forall a b, cmp a b = 0 <-> a = b;
  cmp_lt_gt : forall a b, cmp a b < 0 <-> cmp b a > 0;
  cmp_lt_trans : forall a b c, cmp a b < 0 -> cmp b c < 0 -> cmp a c < 0 }.

Definition le (a b : A) : Prop := cmp a b <= 0.

(* search-tree invariant, non-strict on both sides (a rotation can move a key
   equal to the node value into the left subtree) *)
Fixpoint bst (t : tree) : Prop :=
  match t with
  | E => True
  | N l v _ r => bst l /\ bst r /\ Forall (fun x => le x v) (inorder l) /\ Forall (fun x => le v x) (inorder r)
  end.

(* every cached height is >= 0 (so [height_of] is always >= -1) *)
Fixpoint hnn (t : tree) : Prop :=
  match t with E => True | N l _ h r => hnn l /\ hnn r /\ 0 <= h end.

(* ---------- walks ---------- *)
Lemma preorder_perm t : Permutation (preorder t) (inorder t).
Proof.
  induction t as [|l IHl v h r IHr]; cbn [preorder inorder]; [constructor|].
  rewrite <- Permutation_middle. constructor. apply Permutation_app; assumption.
Qed.

Lemma postorder_perm t : Permutation (postorder t) (inorder t).
Proof.
  induction t as [|l IHl v h r IHr]; cbn [postorder inorder]; [constructor|].
  rewrite app_assoc. etransitivity; [symmetry; apply Permutation_cons_append|].
  apply Permutation_cons_app. apply Permutation_app; assumption.
Qed.

Lemma walks_length t : length (preorder t) = length (inorder t) /\ length (postorder t) = length (inorder t).
Proof. split; apply Permutation_length; [apply preorder_perm | apply postorder_perm]. Qed.

(* ---------- rotations and rebalance keep the in-order sequence ---------- *)
Lemma recalc_inorder t : inorder (recalc t) = inorder t.
Proof. destruct t; reflexivity. Qed.

Lemma rotateLeft_inorder n n' : rotateLeft n = Ok n' -> inorder n' = inorder n.
Proof.
  destruct n as [|l v h [|rl rv rh rr]]; cbn [rotateLeft]; intro H; try discriminate.
  injection H as <-. cbn [inorder]. rewrite recalc_inorder, <- app_assoc. reflexivity.
Qed.

Lemma rotateRight_inorder n n' : rotateRight n = Ok n' -> inorder n' = inorder n.
Proof.
  destruct n as [|[|ll lv lh lr] v h r]; cbn [rotateRight]; intro H; try discriminate.
  injection H as <-. cbn [inorder]. rewrite recalc_inorder, <- app_assoc. reflexivity.
Qed.

Lemma rotateLeftRight_inorder n n' : rotateLeftRight n = Ok n' -> inorder n' = inorder n.
Proof.
  destruct n as [|l v h r]; cbn [rotateLeftRight]; intro H; [discriminate|].
  apply bind_ok in H as (r' & Hr & H). apply rotateLeft_inorder in H. apply rotateRight_inorder in Hr.
  rewrite H. cbn [inorder]. rewrite Hr. reflexivity.
Qed.

Lemma rotateRightLeft_inorder n n' : rotateRightLeft n = Ok n' -> inorder n' = inorder n.
Proof.
  destruct n as [|l v h r]; cbn [rotateRightLeft]; intro H; [discriminate|].
  apply bind_ok in H as (l' & Hl & H). apply rotateRight_inorder in H. apply rotateLeft_inorder in Hl.
  rewrite H. cbn [inorder]. rewrite Hl. reflexivity.
Qed.

Lemma rebalance_inorder n n' : rebalance n = Ok n' -> inorder n' = inorder n.
Proof.
  destruct n as [|l v h r]; cbn [rebalance]; [discriminate|].
  destruct (balance l r).
  - intro H; injection H as <-; reflexivity.
  - destruct r as [|rl rv rh rr]; [apply rotateLeft_inorder|].
    destruct (height_of rl >? height_of rr); [apply rotateLeftRight_inorder | apply rotateLeft_inorder].
  - destruct l as [|ll lv lh lr]; [apply rotateRight_inorder|].
    destruct (height_of lr >? height_of ll); [apply rotateRightLeft_inorder | apply rotateRight_inorder].
Qed.

(* ---------- totality of the rotations: cached heights >= 0 suffice ---------- *)
Lemma height_of_ge t : hnn t -> -1 <= height_of t.
Proof. destruct t; cbn; [lia | intros (_ & _ & H); lia]. Qed.

Lemma calcHeight_ge (l r : tree) : hnn l -> hnn r -> 0 <= calcHeight l r.
Proof.
  intros Hl Hr. apply height_of_ge in Hl, Hr. unfold calcHeight.
  destruct l, r; cbn [height_of] in *; lia.
Qed.

Lemma recalc_hnn t : hnn t -> hnn (recalc t).
Proof. destruct t as [|l v h r]; cbn; auto. intros (Hl & Hr & _). repeat split; auto. apply calcHeight_ge; auto. Qed.

Lemma node_hnn (l : tree) v (r : tree) : hnn l -> hnn r -> hnn (N l v (calcHeight l r) r).
Proof. intros Hl Hr. cbn. repeat split; auto. apply calcHeight_ge; auto. Qed.

Lemma rotateLeft_total (l : tree) v h (r : tree) : hnn l -> hnn r -> r <> E -> exists n', rotateLeft (N l v h r) = Ok n' /\ hnn n'.
Proof.
  intros Hl Hr Hne. destruct r as [|rl rv rh rr]; [congruence|]. cbn [rotateLeft].
  destruct Hr as (Hrl & Hrr & _). eexists; split; [reflexivity|].
  apply node_hnn; auto. apply node_hnn; auto. apply recalc_hnn; auto.
Qed.

Lemma rotateRight_total (l : tree) v h (r : tree) : hnn l -> hnn r -> l <> E -> exists n', rotateRight (N l v h r) = Ok n' /\ hnn n'.
Proof.
  intros Hl Hr Hne. destruct l as [|ll lv lh lr]; [congruence|]. cbn [rotateRight].
  destruct Hl as (Hll & Hlr & _). eexists; split; [reflexivity|].
  apply node_hnn; auto. apply node_hnn; auto. apply recalc_hnn; auto.
Qed.

Lemma rotate_result_nonnil_L n n' : rotateLeft n = Ok n' -> n' <> E.
Proof. destruct n as [|l v h [|rl rv rh rr]]; cbn; intro H; try discriminate. injection H as <-. discriminate. Qed.
Lemma rotate_result_nonnil_R n n' : rotateRight n = Ok n' -> n' <> E.
Proof. destruct n as [|[|ll lv lh lr] v h r]; cbn; intro H; try discriminate. injection H as <-. discriminate. Qed.

Lemma rebalance_total (l : tree) v h (r : tree) : hnn (N l v h r) -> exists n', rebalance (N l v h r) = Ok n' /\ hnn n' /\ n' <> E.
Proof.
  intros Hn. assert (Hn' := Hn). destruct Hn' as (Hl & Hr & Hh). cbn [rebalance]. unfold balance.
  pose proof (height_of_ge l Hl) as Gl. pose proof (height_of_ge r Hr) as Gr.
  destruct (height_of l - height_of r >? 1) eqn:B1; [|destruct (height_of r - height_of l >? 1) eqn:B2].
  - (* LeftHeavy *)
    destruct l as [|ll lv lh lr]; [cbn [height_of] in *; lia|].
    assert (Hl' := Hl). destruct Hl' as (Hll & Hlr & Hlh).
    destruct (height_of lr >? height_of ll) eqn:B3.
    + cbn [rotateRightLeft].
      destruct (rotateLeft_total ll lv lh lr Hll Hlr) as (l' & El & Hl').
      { intros ->. cbn [height_of] in B3. pose proof (height_of_ge ll Hll). lia. }
      rewrite El. cbn [bind].
      destruct (rotateRight_total l' v h r Hl' Hr (rotate_result_nonnil_L _ _ El)) as (n' & En & Hn').
      exists n'. repeat split; auto. eapply rotate_result_nonnil_R; eauto.
    + destruct (rotateRight_total (N ll lv lh lr) v h r Hl Hr) as (n' & En & Hn'); [discriminate|].
      exists n'. repeat split; auto. eapply rotate_result_nonnil_R; eauto.
  - (* RightHeavy *)
    destruct r as [|rl rv rh rr]; [cbn [height_of] in *; lia|].
    assert (Hr' := Hr). destruct Hr' as (Hrl & Hrr & Hrh).
    destruct (height_of rl >? height_of rr) eqn:B3.
    + cbn [rotateLeftRight].
      destruct (rotateRight_total rl rv rh rr Hrl Hrr) as (r' & Er & Hr').
      { intros ->. cbn [height_of] in B3. pose proof (height_of_ge rr Hrr). lia. }
      rewrite Er. cbn [bind].
      destruct (rotateLeft_total l v h r' Hl Hr' (rotate_result_nonnil_R _ _ Er)) as (n' & En & Hn').
      exists n'. repeat split; auto. eapply rotate_result_nonnil_L; eauto.
    + destruct (rotateLeft_total l v h (N rl rv rh rr) Hl Hr) as (n' & En & Hn'); [discriminate|].
      exists n'. repeat split; auto. eapply rotate_result_nonnil_L; eauto.
  - exists (N l v h r). repeat split; auto; try discriminate.
Qed.

(* ---------- totality of add / popLeftMost / remove under [hnn] ---------- *)
Lemma add_hnn_total v t : t <> E -> hnn t -> exists t', add cmp v t = Ok t' /\ hnn t' /\ t' <> E.
Proof.
  induction t as [|l IHl x h r IHr]; intros Hne Ht; [congruence|]. destruct Ht as (Hl & Hr & Hh).
  cbn [add]. destruct (cmp v x <? 0).
  - assert (exists l', match l with E => Ok (leaf v) | N _ _ _ _ => add cmp v l end = Ok l' /\ hnn l') as (l' & El & Hl').
    { destruct l as [|ll lv lh lr]; [eexists; split; [reflexivity | cbn; repeat split; lia]|].
      destruct IHl as (l' & E1 & H1 & _); [discriminate | exact Hl | eauto]. }
    rewrite El. cbn [bind]. apply rebalance_total. apply node_hnn; auto.
  - assert (exists r', match r with E => Ok (leaf v) | N _ _ _ _ => add cmp v r end = Ok r' /\ hnn r') as (r' & Er & Hr').
    { destruct r as [|rl rv rh rr]; [eexists; split; [reflexivity | cbn; repeat split; lia]|].
      destruct IHr as (r' & E1 & H1 & _); [discriminate | exact Hr | eauto]. }
    rewrite Er. cbn [bind]. apply rebalance_total. apply node_hnn; auto.
Qed.

Lemma popLeftMost_hnn_total t : t <> E -> hnn t -> exists t' m, popLeftMost t = Ok (t', m) /\ hnn t'.
Proof.
  induction t as [|l IHl x h r IHr]; intros Hne Ht; [congruence|]. destruct Ht as (Hl & Hr & Hh).
  cbn [popLeftMost]. destruct l as [|ll lv lh lr]; [eauto|].
  destruct IHl as (nl & m & E1 & H1); [discriminate | exact Hl |]. rewrite E1. cbn [bind].
  destruct (rebalance_total nl x (calcHeight nl r) r) as (n' & En & Hn' & _); [apply node_hnn; auto|].
  rewrite En. cbn [bind]. eauto.
Qed.

Lemma remove_hnn_total v t : t <> E -> hnn t -> exists t' b, remove eqb cmp v t = Ok (t', b) /\ hnn t'.
Proof.
  induction t as [|l IHl x h r IHr]; intros Hne Ht; [congruence|]. assert (Ht' := Ht). destruct Ht' as (Hl & Hr & Hh).
  cbn [remove]. destruct (eqb x v).
  - destruct l as [|ll lv lh lr]; [destruct r; eexists _, _; (split; [reflexivity|]); [exact I | exact Hr]|].
    destruct r as [|rl rv rh rr]; [eexists _, _; split; [reflexivity | exact Hl]|].
    destruct (popLeftMost_hnn_total (N rl rv rh rr)) as (nr & m & E1 & H1); [discriminate | exact Hr |].
    rewrite E1. cbn [bind].
    destruct (rebalance_total (N ll lv lh lr) m (calcHeight (N ll lv lh lr) nr) nr) as (n' & En & Hn' & _); [apply node_hnn; auto|].
    rewrite En. cbn [bind]. eauto.
  - destruct (negb (is_nil l) && (cmp v x <? 0)) eqn:C1.
    + destruct l as [|ll lv lh lr]; [discriminate C1|].
      destruct IHl as (nl & b & E1 & H1); [discriminate | exact Hl |]. rewrite E1. cbn [bind].
      destruct b; [|eauto].
      destruct (rebalance_total nl x (calcHeight nl r) r) as (n' & En & Hn' & _); [apply node_hnn; auto|].
      rewrite En. cbn [bind]. eauto.
    + destruct r as [|rl rv rh rr]; cbn [negb is_nil]; [eauto|].
      destruct IHr as (nr & b & E1 & H1); [discriminate | exact Hr |]. rewrite E1. cbn [bind].
      destruct b; [|eauto].
      destruct (rebalance_total l x (calcHeight l nr) nr) as (n' & En & Hn' & _); [apply node_hnn; auto|].
      rewrite En. cbn [bind]. eauto.
Qed.

(* ---------- popLeftMost, and the parts of add / remove that need no order ---------- *)
Lemma popLeftMost_inorder t t' m : popLeftMost t = Ok (t', m) -> inorder t = m :: inorder t'.
Proof.
  revert t' m. induction t as [|l IHl x h r IHr]; intros t' m H; [discriminate|].
  cbn [popLeftMost] in H. destruct l as [|ll lv lh lr].
  - injection H as <- <-. reflexivity.
  - apply bind_ok in H as ([nl p] & E1 & H). apply bind_ok in H as (n' & E2 & H). injection H as <- <-.
    apply IHl in E1. apply rebalance_inorder in E2. rewrite E2. cbn [inorder] in *. rewrite E1. reflexivity.
Qed.

(* add inserts v somewhere: the in-order sequence is split, never reordered *)
Lemma add_inorder_split v t t' : add cmp v t = Ok t' ->
  exists l1 l2, inorder t = l1 ++ l2 /\ inorder t' = l1 ++ v :: l2.
Proof.
  revert t'. induction t as [|l IHl x h r IHr]; intros t' H; [discriminate|].
  cbn [add] in H. destruct (cmp v x <? 0).
  - apply bind_ok in H as (l' & E1 & H). apply rebalance_inorder in H. cbn [inorder] in H.
    assert (exists l1 l2, inorder l = l1 ++ l2 /\ inorder l' = l1 ++ v :: l2) as (l1 & l2 & e1 & e2).
    { destruct l; [injection E1 as <-; exists [], []; split; reflexivity | apply IHl; exact E1]. }
    exists l1, (l2 ++ x :: inorder r). cbn [inorder]. rewrite H, e1, e2, <- !app_assoc. split; reflexivity.
  - apply bind_ok in H as (r' & E1 & H). apply rebalance_inorder in H. cbn [inorder] in H.
    assert (exists l1 l2, inorder r = l1 ++ l2 /\ inorder r' = l1 ++ v :: l2) as (l1 & l2 & e1 & e2).
    { destruct r; [injection E1 as <-; exists [], []; split; reflexivity | apply IHr; exact E1]. }
    exists (inorder l ++ x :: l1), l2. cbn [inorder]. rewrite H, e1, e2, <- !app_assoc. split; reflexivity.
Qed.

Lemma add_perm v t t' : add cmp v t = Ok t' -> Permutation (inorder t') (v :: inorder t).
Proof.
  intro H. apply add_inorder_split in H as (l1 & l2 & -> & ->). symmetry. apply Permutation_middle.
Qed.

Lemma add_nonnil v t t' : add cmp v t = Ok t' -> t' <> E.
Proof. intros H ->. apply add_perm in H. cbn in H. apply Permutation_nil in H. discriminate. Qed.

(* remove, "not found": the very same tree comes back *)
Lemma remove_false_same v t t' : remove eqb cmp v t = Ok (t', false) -> t' = t.
Proof.
  revert t'. induction t as [|l IHl x h r IHr]; intros t' H; [discriminate|].
  cbn [remove] in H. destruct (eqb x v).
  - destruct l, r; try (injection H; discriminate).
    apply bind_ok in H as ([nr m] & _ & H). apply bind_ok in H as (n' & _ & H). discriminate.
  - destruct (negb (is_nil l) && (cmp v x <? 0)).
    + apply bind_ok in H as ([nl b] & E1 & H). destruct b.
      * apply bind_ok in H as (n' & _ & H). discriminate.
      * injection H as <-. reflexivity.
    + destruct (negb (is_nil r)).
      * apply bind_ok in H as ([nr b] & E1 & H). destruct b.
        -- apply bind_ok in H as (n' & _ & H). discriminate.
        -- injection H as <-. reflexivity.
      * injection H as <-. reflexivity.
Qed.

(* ---------- facts that need the comparator to be a total order consistent with == ---------- *)
Section WithOrder.
Hypothesis TO : TotalOrderEq.

Lemma cmp_refl a : cmp a a = 0.
Proof. apply (cmp_eq TO). reflexivity. Qed.
Lemma le_refl a : le a a.
Proof. unfold le. rewrite cmp_refl. lia. Qed.
Lemma lt_le a b : cmp a b < 0 -> le a b.
Proof. unfold le; lia. Qed.
Lemma le_cases a b : le a b -> cmp a b < 0 \/ a = b.
Proof.
  unfold le. intro H. destruct (Z.eq_dec (cmp a b) 0) as [e|e]; [right; apply (cmp_eq TO); exact e | left; lia].
Qed.
Lemma le_trans a b c : le a b -> le b c -> le a c.
Proof.
  intros H1 H2. destruct (le_cases _ _ H1) as [L1| ->]; auto. destruct (le_cases _ _ H2) as [L2| ->]; auto.
  apply lt_le. eapply (cmp_lt_trans TO); eauto.
Qed.
Lemma nlt_le a b : ~ cmp a b < 0 -> le b a.
Proof.
  intro H. unfold le. destruct (Z.eq_dec (cmp a b) 0) as [e|e].
  - apply (cmp_eq TO) in e. subst. rewrite cmp_refl. lia.
  - assert (G : cmp a b > 0) by lia. apply (cmp_lt_gt TO) in G. lia.
Qed.
Lemma lt_nle a b : cmp a b < 0 -> ~ le b a.
Proof. intros H L. apply (cmp_lt_gt TO) in H. unfold le in L. lia. Qed.
Lemma le_antisym a b : le a b -> le b a -> a = b.
Proof. intros H1 H2. destruct (le_cases _ _ H1) as [L|]; auto. exfalso. eapply lt_nle; eauto. Qed.
Lemma le_total a b : le a b \/ le b a.
Proof. destruct (Z_lt_dec (cmp a b) 0); [left; apply lt_le; auto | right; apply nlt_le; auto]. Qed.
Lemma lt_le_trans a b c : cmp a b < 0 -> le b c -> cmp a c < 0.
Proof. intros H1 H2. destruct (le_cases _ _ H2) as [L| ->]; auto. eapply (cmp_lt_trans TO); eauto. Qed.
Lemma le_lt_trans a b c : le a b -> cmp b c < 0 -> cmp a c < 0.
Proof. intros H1 H2. destruct (le_cases _ _ H1) as [L| ->]; auto. eapply (cmp_lt_trans TO); eauto. Qed.
Lemma eqb_false_neq a b : eqb a b = false -> a <> b.
Proof. intros H e. apply (eqb_eq TO) in e. congruence. Qed.

(* bst = the in-order sequence is sorted *)
Lemma bst_sorted t : bst t <-> StronglySorted le (inorder t).
Proof.
  induction t as [|l IHl v h r IHr]; cbn [bst inorder].
  - split; [constructor | trivial].
  - rewrite SSorted_app. split.
    + intros (Bl & Br & Fl & Fr). split; [apply IHl; auto|]. split.
      * constructor; [apply IHr; auto | exact Fr].
      * eapply Forall_impl; [|exact Fl]. intros x Hx. cbn beta in Hx. constructor; auto.
        eapply Forall_impl; [|exact Fr]. intros y Hy. eapply le_trans; eauto.
    + intros (Sl & Sr & F). inversion Sr as [|? ? Sr' Fr]; subst.
      repeat split; [apply IHl; auto | apply IHr; auto | | exact Fr].
      eapply Forall_impl; [|exact F]. intros x Hx. inversion Hx; auto.
Qed.

Lemma bst_Sorted t : bst t -> Sorted le (inorder t).
Proof. intro H. apply StronglySorted_Sorted. apply bst_sorted. exact H. Qed.

Lemma bst_same_inorder t t' : inorder t' = inorder t -> bst t -> bst t'.
Proof. intros e H. apply bst_sorted. rewrite e. apply bst_sorted. exact H. Qed.

Lemma rebalance_bst n n' : rebalance n = Ok n' -> bst n -> bst n'.
Proof. intro H. apply bst_same_inorder. eapply rebalance_inorder; eauto. Qed.

(* two sorted lists with the same elements are the same list (le is antisymmetric) *)
Lemma sorted_perm_eq (l1 l2 : list A) :
  StronglySorted le l1 -> StronglySorted le l2 -> Permutation l1 l2 -> l1 = l2.
Proof.
  revert l2. induction l1 as [|a l1 IH]; intros l2 S1 S2 P.
  - apply Permutation_nil in P. auto.
  - destruct l2 as [|b l2]; [apply Permutation_sym, Permutation_nil in P; discriminate|].
    inversion S1 as [|? ? S1' F1]; subst. inversion S2 as [|? ? S2' F2]; subst.
    assert (a = b) as ->.
    { assert (Ia : In a (b :: l2)) by (eapply Permutation_in; [exact P | left; reflexivity]).
      assert (Ib : In b (a :: l1)) by (eapply Permutation_in; [symmetry; exact P | left; reflexivity]).
      destruct Ia as [->|Ia]; auto. destruct Ib as [->|Ib]; auto.
      rewrite Forall_forall in F1, F2. apply le_antisym; auto. }
    f_equal. apply IH; auto. eapply Permutation_cons_inv; eauto.
Qed.

(* ---------- add ---------- *)
(* add puts v after every element <= v and before every element > v
   ("equal values go right") *)
Lemma add_spec v t t' : bst t -> add cmp v t = Ok t' ->
  exists l1 l2, inorder t = l1 ++ l2 /\ inorder t' = l1 ++ v :: l2 /\
                Forall (fun x => le x v) l1 /\ Forall (fun x => cmp v x < 0) l2.
Proof.
  revert t'. induction t as [|l IHl x h r IHr]; intros t' B H; [discriminate|].
  destruct B as (Bl & Br & Fl & Fr).
  cbn [add] in H. destruct (cmp v x <? 0) eqn:C.
  - apply Z.ltb_lt in C.
    apply bind_ok in H as (l' & E1 & H). apply rebalance_inorder in H. cbn [inorder] in H.
    assert (exists l1 l2, inorder l = l1 ++ l2 /\ inorder l' = l1 ++ v :: l2 /\
              Forall (fun x => le x v) l1 /\ Forall (fun x => cmp v x < 0) l2) as (l1 & l2 & e1 & e2 & F1 & F2).
    { destruct l; [injection E1 as <-; exists [], []; repeat split; constructor | apply IHl; auto]. }
    exists l1, (l2 ++ x :: inorder r). cbn [inorder]. rewrite H, e1, e2, <- !app_assoc.
    repeat split; auto. apply Forall_app; split; auto. constructor; auto.
    eapply Forall_impl; [|exact Fr]. intros y Hy. exact (lt_le_trans _ _ _ C Hy).
  - apply Z.ltb_ge in C. assert (Lx : le x v) by (apply nlt_le; lia).
    apply bind_ok in H as (r' & E1 & H). apply rebalance_inorder in H. cbn [inorder] in H.
    assert (exists l1 l2, inorder r = l1 ++ l2 /\ inorder r' = l1 ++ v :: l2 /\
              Forall (fun x => le x v) l1 /\ Forall (fun x => cmp v x < 0) l2) as (l1 & l2 & e1 & e2 & F1 & F2).
    { destruct r; [injection E1 as <-; exists [], []; repeat split; constructor | apply IHr; auto]. }
    exists (inorder l ++ x :: l1), l2. cbn [inorder]. rewrite H, e1, e2, <- !app_assoc.
    repeat split; auto. apply Forall_app; split; [|constructor; auto].
    eapply Forall_impl; [|exact Fl]. intros y Hy. exact (le_trans _ _ _ Hy Lx).
Qed.

Lemma add_bst v t t' : bst t -> add cmp v t = Ok t' -> bst t'.
Proof.
  intros B H. destruct (add_spec v t t' B H) as (l1 & l2 & e1 & e2 & F1 & F2).
  apply bst_sorted. apply bst_sorted in B. rewrite e1 in B. rewrite e2.
  apply SSorted_app in B as (S1 & S2 & F). apply SSorted_app. split; [exact S1|]. split.
  - constructor; auto. eapply Forall_impl; [|exact F2]. intros y Hy. apply lt_le; auto.
  - rewrite Forall_forall in *. intros y Hy. constructor; [apply F1; auto | apply F; auto].
Qed.

Lemma leaf_bst v : bst (leaf v).
Proof. cbn. repeat split; constructor. Qed.

(* ---------- membership ---------- *)
Lemma bst_not_in_right v (l : tree) x h (r : tree) : bst (N l x h r) -> cmp v x < 0 -> ~ In v (inorder r).
Proof.
  intros (_ & _ & _ & Fr) C I. rewrite Forall_forall in Fr. apply Fr in I. eapply lt_nle; eauto.
Qed.

Lemma bst_not_in_left v (l : tree) x h (r : tree) : bst (N l x h r) -> x <> v -> ~ cmp v x < 0 -> ~ In v (inorder l).
Proof.
  intros (_ & _ & Fl & _) Hne C I. rewrite Forall_forall in Fl. apply Fl in I.
  apply Hne. apply le_antisym; [apply nlt_le; exact C | exact I].
Qed.

Lemma contains_spec v t : bst t -> (contains eqb cmp v t = true <-> In v (inorder t)).
Proof.
  induction t as [|l IHl x h r IHr]; intro B; cbn [contains inorder]; [split; [discriminate | intros []]|].
  assert (B' := B). destruct B' as (Bl & Br & _).
  assert (NE : ~ In v (inorder (@E A))) by (intros []).
  rewrite in_app_iff. cbn [In].
  destruct (eqb x v) eqn:Ex; [apply (eqb_eq TO) in Ex; tauto|]. apply eqb_false_neq in Ex.
  destruct (cmp v x <? 0) eqn:C; [apply Z.ltb_lt in C | apply Z.ltb_ge in C].
  - pose proof (bst_not_in_right v l x h r B C) as NR.
    destruct l as [|ll lv lh lr]; cbn [is_nil negb andb].
    + destruct r as [|rl rv rh rr]; cbn [is_nil negb]; [cbn; split; [discriminate | tauto]|].
      rewrite (IHr Br). tauto.
    + rewrite (IHl Bl). tauto.
  - assert (NL : ~ In v (inorder l)) by (apply (bst_not_in_left v l x h r B Ex); lia).
    rewrite andb_false_r.
    destruct r as [|rl rv rh rr]; cbn [is_nil negb]; [cbn; split; [discriminate | tauto]|].
    rewrite (IHr Br). tauto.
Qed.

(* ---------- remove ---------- *)
(* remove, "found": exactly one occurrence of v leaves the in-order sequence *)
Lemma remove_true_split v t t' : remove eqb cmp v t = Ok (t', true) ->
  exists l1 l2, inorder t = l1 ++ v :: l2 /\ inorder t' = l1 ++ l2.
Proof.
  revert t'. induction t as [|l IHl x h r IHr]; intros t' H; [discriminate|].
  cbn [remove] in H. destruct (eqb x v) eqn:Ex.
  - apply (eqb_eq TO) in Ex. subst x. cbn [inorder].
    destruct l as [|ll lv lh lr].
    + destruct r; injection H as <-; eexists [], _; split; reflexivity.
    + destruct r as [|rl rv rh rr].
      * injection H as <-. eexists _, []. split; [reflexivity | rewrite app_nil_r; reflexivity].
      * apply bind_ok in H as ([nr m] & E1 & H). apply bind_ok in H as (n' & E2 & H). injection H as <-.
        apply popLeftMost_inorder in E1. apply rebalance_inorder in E2. eexists _, _. split; [reflexivity|].
        rewrite E2, E1. reflexivity.
  - destruct (negb (is_nil l) && (cmp v x <? 0)).
    + apply bind_ok in H as ([nl b] & E1 & H). destruct b; [|discriminate].
      apply bind_ok in H as (n' & E2 & H). injection H as <-.
      apply IHl in E1 as (l1 & l2 & e1 & e2). apply rebalance_inorder in E2.
      exists l1, (l2 ++ x :: inorder r). rewrite E2. cbn [inorder]. rewrite e1, e2, <- !app_assoc. split; reflexivity.
    + destruct (negb (is_nil r)); [|discriminate].
      apply bind_ok in H as ([nr b] & E1 & H). destruct b; [|discriminate].
      apply bind_ok in H as (n' & E2 & H). injection H as <-.
      apply IHr in E1 as (l1 & l2 & e1 & e2). apply rebalance_inorder in E2.
      exists (inorder l ++ x :: l1), l2. rewrite E2. cbn [inorder]. rewrite e1, e2, <- !app_assoc. split; reflexivity.
Qed.

Lemma remove_true_perm v t t' : remove eqb cmp v t = Ok (t', true) -> Permutation (inorder t) (v :: inorder t').
Proof. intro H. apply remove_true_split in H as (l1 & l2 & -> & ->). symmetry. apply Permutation_middle. Qed.

Lemma remove_true_bst v t t' : bst t -> remove eqb cmp v t = Ok (t', true) -> bst t'.
Proof.
  intros B H. apply remove_true_split in H as (l1 & l2 & e1 & e2).
  apply bst_sorted. apply bst_sorted in B. rewrite e1 in B. rewrite e2.
  apply SSorted_app in B as (S1 & S2 & F). inversion S2; subst. apply SSorted_app. repeat split; auto.
  eapply Forall_impl; [|exact F]. intros y Hy. inversion Hy; auto.
Qed.

(* remove, "not found": v really is absent *)
Lemma remove_false_absent v t t' : bst t -> remove eqb cmp v t = Ok (t', false) -> ~ In v (inorder t).
Proof.
  revert t'. induction t as [|l IHl x h r IHr]; intros t' B H; [discriminate|].
  assert (B' := B). destruct B' as (Bl & Br & _).
  assert (NE : ~ In v (inorder (@E A))) by (intros []).
  cbn [remove] in H. cbn [inorder]. rewrite in_app_iff. cbn [In].
  destruct (eqb x v) eqn:Ex.
  - destruct l, r; try (injection H; discriminate).
    apply bind_ok in H as ([nr m] & _ & H). apply bind_ok in H as (n' & _ & H). discriminate.
  - apply eqb_false_neq in Ex.
    destruct (cmp v x <? 0) eqn:C; [apply Z.ltb_lt in C | apply Z.ltb_ge in C].
    + pose proof (bst_not_in_right v l x h r B C) as NR.
      destruct l as [|ll lv lh lr]; cbn [is_nil negb andb] in H.
      * destruct r as [|rl rv rh rr]; cbn [is_nil negb] in H; [cbn; tauto|].
        apply bind_ok in H as ([nr b] & E1 & H). destruct b; [apply bind_ok in H as (n' & _ & H); discriminate|].
        tauto.
      * apply bind_ok in H as ([nl b] & E1 & H). destruct b; [apply bind_ok in H as (n' & _ & H); discriminate|].
        apply IHl in E1; auto. tauto.
    + assert (NL : ~ In v (inorder l)) by (apply (bst_not_in_left v l x h r B Ex); lia).
      rewrite andb_false_r in H.
      destruct r as [|rl rv rh rr]; cbn [is_nil negb] in H; [cbn; tauto|].
      apply bind_ok in H as ([nr b] & E1 & H). destruct b; [apply bind_ok in H as (n' & _ & H); discriminate|].
      apply IHr in E1; auto. tauto.
Qed.

(* the boolean returned by remove says exactly whether v was present *)
Lemma remove_result_iff v t t' b : bst t -> remove eqb cmp v t = Ok (t', b) -> (b = true <-> In v (inorder t)).
Proof.
  intros B H. destruct b.
  - split; auto. intros _. apply remove_true_split in H as (l1 & l2 & -> & _). apply in_elt.
  - split; [discriminate|]. intro I. exfalso. eapply remove_false_absent; eauto.
Qed.

End WithOrder.

End Bst.

(* the comparator of the correspondence check (typ.Compare on int) satisfies the hypotheses *)
Lemma zcompare_TotalOrderEq : TotalOrderEq Z.eqb zcompare.
Proof.
  split; unfold zcompare; intros.
  - apply Z.eqb_eq.
  - destruct (Z.gtb_spec a b), (Z.ltb_spec a b); lia.
  - destruct (Z.gtb_spec a b), (Z.ltb_spec a b), (Z.gtb_spec b a), (Z.ltb_spec b a); lia.
  - destruct (Z.gtb_spec a b), (Z.ltb_spec a b), (Z.gtb_spec b c), (Z.ltb_spec b c), (Z.gtb_spec a c), (Z.ltb_spec a c); lia.
Qed.

(* ---------- with distinct values, the pre-order and in-order walks determine the tree ---------- *)
Section Walks.
Context {A : Type}.
Implicit Types (t : tree (A:=A)).

(* the tree without its cached heights *)
Fixpoint skel t : tree (A:=A) :=
  match t with E => E | N l v _ r => N (skel l) v 0 (skel r) end.

Lemma skel_walks t : preorder (skel t) = preorder t /\ inorder (skel t) = inorder t /\ postorder (skel t) = postorder t.
Proof.
  induction t as [|l (IHl1 & IHl2 & IHl3) v h r (IHr1 & IHr2 & IHr3)]; cbn [skel preorder inorder postorder]; [auto|].
  rewrite IHl1, IHl2, IHl3, IHr1, IHr2, IHr3. auto.
Qed.

Lemma NoDup_split_unique (v : A) (a b a' b' : list A) :
  NoDup (a ++ v :: b) -> a ++ v :: b = a' ++ v :: b' -> a = a' /\ b = b'.
Proof.
  revert a'. induction a as [|x a IH]; intros [|y a'] ND H; cbn [app] in *.
  - injection H as ->. auto.
  - injection H as <- ->. inversion ND as [|? ? Hn _]; subst. exfalso. apply Hn. apply in_elt.
  - injection H as -> <-. inversion ND as [|? ? Hn _]; subst. exfalso. apply Hn. apply in_elt.
  - injection H as <- H. inversion ND as [|? ? _ ND']; subst. destruct (IH a' ND' H) as (-> & ->). auto.
Qed.

Lemma app_inv_length (a b a' b' : list A) : length a = length a' -> a ++ b = a' ++ b' -> a = a' /\ b = b'.
Proof.
  revert a'. induction a as [|x a IH]; intros [|y a'] L H; cbn [length app] in *; try discriminate; auto.
  injection H as <- H. destruct (IH a' (eq_add_S _ _ L) H) as (-> & ->). auto.
Qed.

Lemma NoDup_app_both (a b : list A) : NoDup (a ++ b) -> NoDup a /\ NoDup b.
Proof.
  induction a as [|x a IH]; cbn [app]; intro ND; [split; [constructor | exact ND]|].
  inversion ND as [|? ? Hn ND']; subst. destruct (IH ND') as (Na & Nb). split; [|exact Nb].
  constructor; [|exact Na]. intro I. apply Hn. apply in_or_app. left. exact I.
Qed.

Theorem walks_determine_tree t : forall t', NoDup (inorder t) ->
  preorder t = preorder t' -> inorder t = inorder t' -> skel t = skel t' /\ postorder t = postorder t'.
Proof.
  assert (K : forall t', NoDup (inorder t) -> preorder t = preorder t' -> inorder t = inorder t' -> skel t = skel t').
  { induction t as [|l IHl v h r IHr]; intros t' ND Hp Hi.
    - destruct t'; [reflexivity | discriminate Hp].
    - destruct t' as [|l' v' h' r']; [discriminate Hp|]. cbn [preorder inorder skel] in *.
      injection Hp as <- Hp.
      destruct (NoDup_split_unique v _ _ _ _ ND Hi) as (Hil & Hir).
      assert (Ll : length (preorder l) = length (preorder l')).
      { rewrite (Permutation_length (preorder_perm l)), (Permutation_length (preorder_perm l')), Hil. reflexivity. }
      destruct (app_inv_length _ _ _ _ Ll Hp) as (Hpl & Hpr).
      apply NoDup_remove_1 in ND. destruct (NoDup_app_both _ _ ND) as (Nl & Nr).
      rewrite (IHl l' Nl Hpl Hil), (IHr r' Nr Hpr Hir). reflexivity. }
  intros t' ND Hp Hi. pose proof (K t' ND Hp Hi) as S. split; [exact S|].
  rewrite <- (proj2 (proj2 (skel_walks t))), <- (proj2 (proj2 (skel_walks t'))), S. reflexivity.
Qed.

End Walks.

(* ... and so does a lexicographic comparator on a two-field struct with the derived ==
   (the harness's Pair{A,B} element type) *)
Definition paireqb (p q : Z * Z) : bool := Z.eqb (fst p) (fst q) && Z.eqb (snd p) (snd q).
Definition paircompare (p q : Z * Z) : Z :=
  let c := zcompare (fst p) (fst q) in if c =? 0 then zcompare (snd p) (snd q) else c.

Ltac zcases :=
  repeat match goal with
  | |- context [?x >? ?y] => destruct (Z.gtb_spec x y)
  | |- context [?x <? ?y] => destruct (Z.ltb_spec x y)
  end; cbn [Z.eqb Pos.eqb].

Lemma paircompare_TotalOrderEq : TotalOrderEq paireqb paircompare.
Proof.
  split; intros [a1 a2] [b1 b2]; [| | |intros [c1 c2]]; unfold paireqb, paircompare, zcompare; cbn [fst snd].
  - rewrite andb_true_iff, !Z.eqb_eq. split; [intros [-> ->]; reflexivity | intro H; injection H; auto].
  - split.
    + intro H. assert (a1 = b1 /\ a2 = b2) as [-> ->]; [|reflexivity]. revert H. zcases; lia.
    + intro H; injection H as -> ->. zcases; lia.
  - zcases; lia.
  - zcases; lia.
Qed.
