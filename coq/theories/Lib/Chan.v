(* A small abstract machine for ONE Go channel, one timer/context, and an
   arbitrary environment of other goroutines.  It replaces the Go runtime
   (runtime/chan.go, runtime/select.go, time.Timer, context.Context) for the
   channel helpers of chans/chans.go; it is part of the trusted base of C19.

   channel   buf     values in the buffer, oldest first           (len buf <= cap)
             cap     capacity, 0 = unbuffered
             closed
             sendq   values of ENVIRONMENT goroutines parked in a send, oldest
                     first (only when the buffer is full / the channel is
                     unbuffered and nobody receives)
             recvq   number of ENVIRONMENT goroutines parked in a receive
   done      the timer has fired / the context is cancelled (monotone)
   log       ghost: every completed send and receive, in the order they took
             effect, tagged with who did it (the helper under study or the
             environment).  Only [try_send] / [try_recv] append to it.

   The helper under study is never put on a wait queue: a blocked helper simply
   has no enabled step until the channel (or [done]) becomes ready.  A hand-over
   from a parked environment sender to the helper therefore takes effect at the
   helper's step instead of at the sender's step; every real outcome is still
   an outcome of the machine (schedule the helper right after the sender).

   Definitions only; the lemmas are in Chans/HelpersProofs.v. *)
From Typ Require Export Lib.Base.

Inductive agent := Helper | Env.
Definition agent_eqb (a b : agent) : bool :=
  match a, b with Helper, Helper | Env, Env => true | _, _ => false end.

Inductive event (V : Type) := Sent (a : agent) (v : V) | Rcvd (a : agent) (v : V).
Arguments Sent {V} a v.
Arguments Rcvd {V} a v.

Record chan (V : Type) := Chan {
  buf : list V; cap : nat; closed : bool; sendq : list V; recvq : nat }.
Arguments Chan {V} buf cap closed sendq recvq.
Arguments buf {V} c.
Arguments cap {V} c.
Arguments closed {V} c.
Arguments sendq {V} c.
Arguments recvq {V} c.

Record world (V : Type) := World { ch : chan V; done : bool; log : list (event V) }.
Arguments World {V} ch done log.
Arguments ch {V} w.
Arguments done {V} w.
Arguments log {V} w.

(* Outcome of trying a channel operation without waiting. *)
Inductive attempt (A : Type) := Done (a : A) | Fails (k : panic_kind) | WouldBlock.
Arguments Done {A} a.
Arguments Fails {A} k.
Arguments WouldBlock {A}.

(* the channel changes and the listed operations complete *)
Definition upd {V} (w : world V) (c : chan V) (evs : list (event V)) : world V :=
  World c (done w) (log w ++ evs).
(* the channel changes, no operation completes (parking, closing) *)
Definition set_chan {V} (w : world V) (c : chan V) : world V := World c (done w) (log w).

(* ch <- v by agent [a], if it can proceed now:
   closed: panics; a receiver is parked: direct hand-over to it; room in the
   buffer: enqueue; otherwise it would block. *)
Definition try_send {V} (a : agent) (v : V) (w : world V) : attempt (world V) :=
  let c := ch w in
  if closed c then Fails SendOnClosed
  else if 0 <? recvq c then
    Done (upd w (Chan (buf c) (cap c) (closed c) (sendq c) (recvq c - 1)) [Sent a v; Rcvd Env v])
  else if length (buf c) <? cap c then
    Done (upd w (Chan (buf c ++ [v]) (cap c) (closed c) (sendq c) (recvq c)) [Sent a v])
  else WouldBlock.

(* v, ok := <-ch by agent [a], if it can proceed now:
   buffered value: take the oldest, and the oldest parked sender (if any) moves
   its value into the freed slot and completes; empty buffer with a parked
   sender (unbuffered channel): direct hand-over; closed and drained: (zero,
   false), nothing consumed; otherwise it would block. *)
Definition try_recv {V} (zero : V) (a : agent) (w : world V) : option (world V * V * bool) :=
  let c := ch w in
  match buf c, sendq c with
  | x :: b, s :: q => Some (upd w (Chan (b ++ [s]) (cap c) (closed c) q (recvq c)) [Rcvd a x; Sent Env s], x, true)
  | x :: b, [] => Some (upd w (Chan b (cap c) (closed c) [] (recvq c)) [Rcvd a x], x, true)
  | [], s :: q => Some (upd w (Chan [] (cap c) (closed c) q (recvq c)) [Sent Env s; Rcvd a s], s, true)
  | [], [] => if closed c then Some (w, zero, false) else None
  end.

Definition remove_nth {A} (i : nat) (l : list A) : list A := firstn i l ++ skipn (S i) l.

(* What the other goroutines, the timer and the context can do, one atomic
   action at a time. *)
Inductive env_op (V : Type) :=
| ESend (v : V)          (* a goroutine starts ch <- v: completes now, or parks, or panics (closed; channel untouched) *)
| ERecv                  (* a goroutine starts <-ch: completes now or parks *)
| EClose                 (* close(ch): parked receivers get (zero,false); parked senders panic, their values are never sent *)
| EGiveUpSend (i : nat)  (* the i-th parked sender was in a select and leaves through another branch *)
| EGiveUpRecv            (* likewise for a parked receiver *)
| EDone.                 (* the timer fires / the context is cancelled *)
Arguments ESend {V} v.
Arguments ERecv {V}.
Arguments EClose {V}.
Arguments EGiveUpSend {V} i.
Arguments EGiveUpRecv {V}.
Arguments EDone {V}.

Definition env_step {V} (zero : V) (e : env_op V) (w : world V) : world V :=
  let c := ch w in
  match e with
  | ESend v =>
      match try_send Env v w with
      | Done w' => w'
      | Fails _ => w
      | WouldBlock => set_chan w (Chan (buf c) (cap c) (closed c) (sendq c ++ [v]) (recvq c))
      end
  | ERecv =>
      match try_recv zero Env w with
      | Some (w', _, _) => w'
      | None => set_chan w (Chan (buf c) (cap c) (closed c) (sendq c) (S (recvq c)))
      end
  | EClose =>
      if closed c then w (* close of closed channel: that goroutine panics, channel untouched *)
      else set_chan w (Chan (buf c) (cap c) true [] 0)
  | EGiveUpSend i => set_chan w (Chan (buf c) (cap c) (closed c) (remove_nth i (sendq c)) (recvq c))
  | EGiveUpRecv => set_chan w (Chan (buf c) (cap c) (closed c) (sendq c) (pred (recvq c)))
  | EDone => World (ch w) true (log w)
  end.

(* Ghost projections of the log. *)
Definition sent_vals {V} (l : list (event V)) : list V :=
  flat_map (fun e => match e with Sent _ v => [v] | Rcvd _ _ => [] end) l.
Definition rcvd_vals {V} (l : list (event V)) : list V :=
  flat_map (fun e => match e with Rcvd _ v => [v] | Sent _ _ => [] end) l.
Definition sent_by {V} (a : agent) (l : list (event V)) : list V :=
  flat_map (fun e => match e with Sent a' v => if agent_eqb a a' then [v] else [] | Rcvd _ _ => [] end) l.
Definition rcvd_by {V} (a : agent) (l : list (event V)) : list V :=
  flat_map (fun e => match e with Rcvd a' v => if agent_eqb a a' then [v] else [] | Sent _ _ => [] end) l.

(* The states the Go runtime can be in. *)
Definition wf {V} (c : chan V) : Prop :=
  length (buf c) <= cap c /\
  (sendq c <> [] -> length (buf c) = cap c) /\
  (0 < recvq c -> buf c = [] /\ sendq c = []) /\
  (closed c = true -> sendq c = [] /\ recvq c = 0).

(* FIFO conservation: what was in the buffer at the start ([b0]) followed by
   everything whose send completed, in completion order, is exactly everything
   that was received, in order, followed by what is buffered now.  (Stronger
   than the multiset equation of the property text.) *)
Definition conserved {V} (b0 : list V) (w : world V) : Prop :=
  b0 ++ sent_vals (log w) = rcvd_vals (log w) ++ buf (ch w).

(* [subseq l1 l2]: l1 is l2 with some elements left out, order kept. *)
Inductive subseq {A} : list A -> list A -> Prop :=
| subseq_nil : subseq [] []
| subseq_skip x l1 l2 : subseq l1 l2 -> subseq l1 (x :: l2)
| subseq_take x l1 l2 : subseq l1 l2 -> subseq (x :: l1) (x :: l2).
