(* Consequences of the possibilities definition of linearizability (Lib/Lin.v),
   for any specification.

   Part 1: possibilities continued from an arbitrary possibility ([possF]), so
   that a derivation of [poss] over a history can be cut at any position
   ([possF_app]) and single events can be peeled off ([possF_snoc]); the call a
   possibility records as pending for a thread is the one the history says is
   pending ([possF_pend]).

   Part 2: [poss_classic] - linearizable in the sense of Lib/Lin.v implies
   linearizable in the classic sense of Herlihy & Wing: there is a sequential
   history S of operations (thread, call, result) that
   (a) is legal: running the specification over the calls of S from the initial
       state yields exactly the results of S (and ends in the state of the
       possibility);
   (b) consists, thread by thread and in program order, of the operations of
       the history: all completed ones with the results the history reports,
       plus possibly the pending one;
   (c) respects real-time order: for every cut h = h1 ++ h2 of the history S can
       be cut as S1 ++ S2 such that S1 contains every operation completed in h1
       and only operations invoked in h1 - so an operation whose response is in
       h1 precedes in S every operation invoked in h2 ([classic_rt_order]).

   Part 3: windows of a history without anti-operations, for a property Phi of
   the abstract state ([after_op], [window_one], [seq_between]); instantiated
   for sets in SyncMap/SetRT.v. *)
From Coq Require Import List Arith Lia Bool.
Import ListNotations.
From Typ Require Import Lib.Lin.

Section Seg.
Context {Call Res St : Type}.
Variable spec : St -> Call -> St * Res.
Notation hev := (@hevent Call Res).
Notation pendT := (@pend Call Res).

(* possibilities continued from (a1, P1); histories most recent event first *)
Inductive possF (a1 : St) (P1 : pendT) : list hev -> St -> pendT -> Prop :=
| pf_nil : possF a1 P1 [] a1 P1
| pf_inv h a P t c : possF a1 P1 h a P -> P t = None -> possF a1 P1 (HInv t c :: h) a (upd P t (Some (c, None)))
| pf_lin h a P t c : possF a1 P1 h a P -> P t = Some (c, None) ->
    possF a1 P1 h (fst (spec a c)) (upd P t (Some (c, Some (snd (spec a c)))))
| pf_res h a P t c r : possF a1 P1 h a P -> P t = Some (c, Some r) -> possF a1 P1 (HRes t r :: h) a (upd P t None).

Lemma poss_possF a0 h a P : poss spec a0 h a P -> possF a0 no_pend h a P.
Proof. induction 1; econstructor; eassumption. Qed.

Lemma possF_poss a0 h a P : possF a0 no_pend h a P -> poss spec a0 h a P.
Proof. induction 1; econstructor; eassumption. Qed.

Lemma possF_trans a1 P1 w1 a2 P2 w2 a3 P3 :
  possF a1 P1 w1 a2 P2 -> possF a2 P2 w2 a3 P3 -> possF a1 P1 (w2 ++ w1) a3 P3.
Proof. intros H1 H2. induction H2; cbn; [exact H1|econstructor; eassumption ..]. Qed.

Lemma possF_app a1 P1 w2 w1 a P :
  possF a1 P1 (w2 ++ w1) a P -> exists a2 P2, possF a1 P1 w1 a2 P2 /\ possF a2 P2 w2 a P.
Proof.
  intros H. remember (w2 ++ w1) as w eqn:E. revert w2 E.
  induction H as [|h a P t c H IH HP|h a P t c H IH HP|h a P t c r H IH HP]; intros w2 E.
  - destruct w2; [|discriminate]. cbn in E. subst w1. exists a1, P1. split; constructor.
  - destruct w2 as [|e w2]; cbn in E.
    + subst w1. eexists _, _. split; [eapply pf_inv; eassumption|constructor].
    + injection E as <- ->. destruct (IH w2 eq_refl) as (a2 & P2 & A & B). exists a2, P2. split; [exact A|]. constructor; assumption.
  - destruct (IH w2 E) as (a2 & P2 & A & B). exists a2, P2. split; [exact A|]. apply pf_lin; assumption.
  - destruct w2 as [|e w2]; cbn in E.
    + subst w1. eexists _, _. split; [eapply pf_res; eassumption|constructor].
    + injection E as <- ->. destruct (IH w2 eq_refl) as (a2 & P2 & A & B). exists a2, P2. split; [exact A|]. econstructor; eassumption.
Qed.

(* one event: markers, the event, markers *)
Lemma possF_one a1 P1 e a P : possF a1 P1 [e] a P ->
  exists a' P', possF a1 P1 [] a' P' /\
    match e with
    | HInv t c => P' t = None /\ possF a' (upd P' t (Some (c, None))) [] a P
    | HRes t r => exists c, P' t = Some (c, Some r) /\ possF a' (upd P' t None) [] a P
    end.
Proof.
  intros H. remember [e] as w eqn:E.
  induction H as [|h a P t c H IH HP|h a P t c H IH HP|h a P t c r H IH HP].
  - discriminate.
  - injection E as <- ->. exists a, P. split; [exact H|]. split; [exact HP|constructor].
  - destruct (IH E) as (a' & P' & A & B). exists a', P'. split; [exact A|]. destruct e as [t0 c0|t0 r0].
    + destruct B as [B1 B2]. split; [exact B1|]. apply pf_lin; assumption.
    + destruct B as (c0 & B1 & B2). exists c0. split; [exact B1|]. apply pf_lin; assumption.
  - injection E as <- ->. exists a, P. split; [exact H|]. exists c. split; [exact HP|constructor].
Qed.

(* peel the oldest event of a stretch *)
Lemma possF_snoc a1 P1 X e a P : possF a1 P1 (X ++ [e]) a P ->
  exists a' P', possF a1 P1 [] a' P' /\
    match e with
    | HInv t c => P' t = None /\ possF a' (upd P' t (Some (c, None))) X a P
    | HRes t r => exists c, P' t = Some (c, Some r) /\ possF a' (upd P' t None) X a P
    end.
Proof.
  intros H. apply possF_app in H as (a2 & P2 & A & B). apply possF_one in A as (a' & P' & A1 & A2).
  exists a', P'. split; [exact A1|]. destruct e as [t0 c0|t0 r0].
  - destruct A2 as [A2 A3]. split; [exact A2|]. rewrite <- (app_nil_r X). eapply possF_trans; eassumption.
  - destruct A2 as (c0 & A2 & A3). exists c0. split; [exact A2|]. rewrite <- (app_nil_r X). eapply possF_trans; eassumption.
Qed.

(* ---- which call is pending is a function of the history ---- *)
Definition ev_thread (e : hev) : nat := match e with HInv t _ | HRes t _ => t end.
(* the most recent event of thread t (history most recent first) *)
Fixpoint last_ev (w : list hev) (t : nat) : option hev :=
  match w with
  | [] => None
  | e :: w' => if Nat.eq_dec (ev_thread e) t then Some e else last_ev w' t
  end.
Definition no_ev (t : nat) (w : list hev) : Prop := forall e, In e w -> ev_thread e <> t.

Lemma last_ev_app w1 w2 t : last_ev (w1 ++ w2) t = match last_ev w1 t with Some e => Some e | None => last_ev w2 t end.
Proof. induction w1 as [|e w1 IH]; cbn; [reflexivity|]. destruct (Nat.eq_dec (ev_thread e) t); [reflexivity|exact IH]. Qed.

Lemma last_ev_none w t : no_ev t w -> last_ev w t = None.
Proof.
  induction w as [|e w IH]; intros H; cbn; [reflexivity|].
  destruct (Nat.eq_dec (ev_thread e) t) as [E|N]; [exfalso; apply (H e); [left; reflexivity|exact E]|].
  apply IH. intros e' Hi. apply H. right. exact Hi.
Qed.

Lemma no_ev_rev t w : no_ev t w -> no_ev t (rev w).
Proof. intros H e Hi. apply H. apply in_rev. exact Hi. Qed.

Lemma possF_pend a1 P1 w a P : possF a1 P1 w a P -> forall t,
  match last_ev w t with
  | Some (HInv _ c) => exists d, P t = Some (c, d)
  | Some (HRes _ _) => P t = None
  | None => forall c d, P t = Some (c, d) -> exists d', P1 t = Some (c, d')
  end.
Proof.
  induction 1 as [|h a P t c H IH HP|h a P t c H IH HP|h a P t c r H IH HP]; intros t0.
  - cbn. eauto.
  - cbn [last_ev ev_thread]. destruct (Nat.eq_dec t t0) as [->|N]; [rewrite upd_same; eauto|].
    specialize (IH t0). rewrite upd_other by auto. exact IH.
  - specialize (IH t0). destruct (Nat.eq_dec t0 t) as [->|N].
    + rewrite upd_same. destruct (last_ev h t) as [[? c0|? ?]|].
      * destruct IH as [d Hd]. rewrite HP in Hd. injection Hd as <- _. eauto.
      * rewrite HP in IH. discriminate.
      * intros c1 d1 [= <- <-]. eapply IH. exact HP.
    + rewrite upd_other by exact N. exact IH.
  - cbn [last_ev ev_thread]. destruct (Nat.eq_dec t t0) as [->|N]; [apply upd_same|].
    specialize (IH t0). rewrite upd_other by auto. exact IH.
Qed.
End Seg.

(* ================================================================== *)
(* Part 2: the classic definition                                      *)
(* ================================================================== *)
Section Classic.
Context {Call Res St : Type}.
Variable spec : St -> Call -> St * Res.
Notation hev := (@hevent Call Res).
Notation op := (nat * Call * Res)%type.

(* the calls thread t invokes / the results it receives in history h, in order *)
Fixpoint invs (t : nat) (h : list hev) : list Call :=
  match h with
  | [] => []
  | HInv t' c :: h' => if Nat.eq_dec t' t then c :: invs t h' else invs t h'
  | HRes _ _ :: h' => invs t h'
  end.
Fixpoint ress (t : nat) (h : list hev) : list Res :=
  match h with
  | [] => []
  | HRes t' r :: h' => if Nat.eq_dec t' t then r :: ress t h' else ress t h'
  | HInv _ _ :: h' => ress t h'
  end.
(* the operations of thread t in a sequential history *)
Fixpoint sel (t : nat) (S : list op) : list op :=
  match S with
  | [] => []
  | x :: S' => if Nat.eq_dec (fst (fst x)) t then x :: sel t S' else sel t S'
  end.

Lemma invs_app t h1 h2 : invs t (h1 ++ h2) = invs t h1 ++ invs t h2.
Proof. induction h1 as [|[t' c|t' r] h1 IH]; cbn; [reflexivity| |exact IH]. destruct (Nat.eq_dec t' t); cbn; congruence. Qed.
Lemma ress_app t h1 h2 : ress t (h1 ++ h2) = ress t h1 ++ ress t h2.
Proof. induction h1 as [|[t' c|t' r] h1 IH]; cbn; [reflexivity|exact IH|]. destruct (Nat.eq_dec t' t); cbn; congruence. Qed.
Lemma sel_app t S1 S2 : sel t (S1 ++ S2) = sel t S1 ++ sel t S2.
Proof. induction S1 as [|x S1 IH]; cbn; [reflexivity|]. destruct (Nat.eq_dec (fst (fst x)) t); cbn; congruence. Qed.

Lemma calls_app (l1 l2 : list op) : calls (l1 ++ l2) = calls l1 ++ calls l2.
Proof. unfold calls. apply map_app. Qed.
Lemma results_app (l1 l2 : list op) : results (l1 ++ l2) = results l1 ++ results l2.
Proof. unfold results. apply map_app. Qed.

(* the invariant along a derivation of [poss] (history most recent first) *)
Definition agree (h : list hev) (S : list op) (P : @pend Call Res) : Prop :=
  forall t,
    match P t with
    | None => invs t h = calls (sel t S) /\ results (sel t S) = ress t h
    | Some (c, None) => invs t h = calls (sel t S) ++ [c] /\ results (sel t S) = ress t h
    | Some (c, Some r) => invs t h = calls (sel t S) /\ results (sel t S) = ress t h ++ [r]
    end.
Definition rt (h : list hev) (S : list op) : Prop :=
  forall h1 h2, h = h1 ++ h2 -> exists S1 S2, S = S1 ++ S2 /\
    forall t, length (ress t h1) <= length (sel t S1) <= length (invs t h1).

Lemma agree_bounds h S P : agree h S P -> forall t, length (ress t h) <= length (sel t S) <= length (invs t h).
Proof.
  intros A t. specialize (A t). destruct (P t) as [[c [r|]]|]; destruct A as [A1 A2];
    apply (f_equal (@length _)) in A1, A2; unfold calls, results in *; rewrite ?app_length, ?map_length in *; cbn in *; lia.
Qed.

Lemma snoc_split {X} (h1 h2 l : list X) e : h1 ++ h2 = l ++ [e] ->
  (h2 = [] /\ h1 = l ++ [e]) \/ exists h2', h2 = h2' ++ [e] /\ l = h1 ++ h2'.
Proof.
  intros E. destruct h2 as [|x h2] using rev_ind.
  - left. rewrite app_nil_r in E. auto.
  - right. rewrite app_assoc in E. apply app_inj_tail in E as [E1 E2]. subst. eauto.
Qed.

(* after one more event: the old cuts, and the cut at the very end *)
Lemma rt_event h S S' P e : rt h S -> agree (h ++ [e]) (S ++ S') P -> rt (h ++ [e]) (S ++ S').
Proof.
  intros R A h1 h2 E. symmetry in E. apply snoc_split in E as [[-> ->]|(h2' & -> & ->)].
  - exists (S ++ S'), []. split; [rewrite app_nil_r; reflexivity|]. apply (agree_bounds _ _ _ A).
  - destruct (R h1 h2' eq_refl) as (S1 & S2 & -> & B). exists S1, (S2 ++ S'). split; [rewrite app_assoc; reflexivity|exact B].
Qed.

Lemma poss_classic_inv a0 hr a P : poss spec a0 hr a P ->
  exists S : list op, spec_run spec a0 (calls S) = (a, results S) /\ agree (rev hr) S P /\ rt (rev hr) S.
Proof.
  induction 1 as [|h a P t c Hp (S & J1 & J2 & J3) HP|h a P t c Hp (S & J1 & J2 & J3) HP|h a P t c r Hp (S & J1 & J2 & J3) HP].
  - exists []. split; [reflexivity|]. split; [intros t; cbn; auto|].
    intros h1 h2 E. symmetry in E. apply app_eq_nil in E as [-> ->]. exists [], []. split; [reflexivity|]. intros t. cbn. lia.
  - (* invocation *)
    exists S. split; [exact J1|].
    assert (A : agree (rev (HInv t c :: h)) S (upd P t (Some (c, None)))).
    { intros t0. cbn [rev]. rewrite invs_app, ress_app. cbn. specialize (J2 t0). unfold upd.
      destruct (Nat.eq_dec t t0) as [->|N].
      - destruct (Nat.eq_dec t0 t0) as [_|N']; [|congruence]. rewrite HP in J2. destruct J2 as [A1 A2]. rewrite A1, app_nil_r. auto.
      - destruct (Nat.eq_dec t0 t) as [E|_]; [congruence|]. rewrite !app_nil_r. exact J2. }
    split; [exact A|]. cbn [rev]. rewrite <- (app_nil_r S). apply (rt_event _ _ _ (upd P t (Some (c, None))) _ J3). rewrite app_nil_r. exact A.
  - (* marker *)
    exists (S ++ [(t, c, snd (spec a c))]). split; [|split].
    + rewrite calls_app, results_app. cbn. rewrite spec_run_app, J1. cbn. reflexivity.
    + intros t0. rewrite sel_app. cbn [sel fst]. specialize (J2 t0). unfold upd.
      destruct (Nat.eq_dec t0 t) as [->|N].
      * destruct (Nat.eq_dec t t) as [_|N']; [|congruence]. rewrite HP in J2. destruct J2 as [A1 A2].
        rewrite calls_app, results_app.
        change (calls [(t, c, snd (spec a c))]) with [c]. change (results [(t, c, snd (spec a c))]) with [snd (spec a c)].
        rewrite A1, A2. auto.
      * destruct (Nat.eq_dec t t0) as [E|_]; [congruence|]. rewrite app_nil_r. exact J2.
    + intros h1 h2 E. destruct (J3 h1 h2 E) as (S1 & S2 & -> & B). exists S1, (S2 ++ [(t, c, snd (spec a c))]).
      split; [rewrite app_assoc; reflexivity|exact B].
  - (* response *)
    exists S. split; [exact J1|].
    assert (A : agree (rev (HRes t r :: h)) S (upd P t None)).
    { intros t0. cbn [rev]. rewrite invs_app, ress_app. cbn. specialize (J2 t0). unfold upd.
      destruct (Nat.eq_dec t t0) as [->|N].
      - destruct (Nat.eq_dec t0 t0) as [_|N']; [|congruence]. rewrite HP in J2. destruct J2 as [A1 A2]. rewrite A2, app_nil_r. auto.
      - destruct (Nat.eq_dec t0 t) as [E|_]; [congruence|]. rewrite !app_nil_r. exact J2. }
    split; [exact A|]. cbn [rev]. rewrite <- (app_nil_r S). apply (rt_event _ _ _ (upd P t None) _ J3). rewrite app_nil_r. exact A.
Qed.

(* h oldest event first, as in [linearizable] *)
Theorem poss_classic a0 h a P : poss spec a0 (rev h) a P ->
  exists S : list op,
    (* (a) legal *)
    spec_run spec a0 (calls S) = (a, results S) /\
    (* (b) the operations of the history, thread by thread in program order: all
       completed ones, plus possibly the pending one *)
    (forall t, exists l1 l2, invs t h = calls (sel t S) ++ l1 /\ results (sel t S) = ress t h ++ l2 /\
                             length l1 + length l2 <= 1) /\
    (* (c) real-time order *)
    (forall h1 h2, h = h1 ++ h2 -> exists S1 S2, S = S1 ++ S2 /\
       forall t, length (ress t h1) <= length (sel t S1) <= length (invs t h1)).
Proof.
  intros Hp. destruct (poss_classic_inv a0 _ a P Hp) as (S & J1 & J2 & J3). rewrite rev_involutive in J2, J3.
  exists S. split; [exact J1|]. split; [|exact J3].
  intros t. specialize (J2 t). destruct (P t) as [[c [r|]]|]; destruct J2 as [A1 A2].
  - exists [], [r]. rewrite app_nil_r. cbn. auto.
  - exists [c], []. rewrite app_nil_r. cbn. auto.
  - exists [], []. rewrite !app_nil_r. cbn. auto.
Qed.

Corollary linearizable_classic a0 h : linearizable spec a0 h ->
  exists (a : St) (S : list op),
    spec_run spec a0 (calls S) = (a, results S) /\
    (forall t, exists l1 l2, invs t h = calls (sel t S) ++ l1 /\ results (sel t S) = ress t h ++ l2 /\
                             length l1 + length l2 <= 1) /\
    (forall h1 h2, h = h1 ++ h2 -> exists S1 S2, S = S1 ++ S2 /\
       forall t, length (ress t h1) <= length (sel t S1) <= length (invs t h1)).
Proof. intros (a & P & Hp). exists a. exact (poss_classic a0 h a P Hp). Qed.

(* (c) spelled out: x is the k-th operation of thread t in S and has completed
   in h1 (t has received more than k responses there), y is the k'-th operation
   of t' and is invoked after h1 (t' has made at most k' invocations there):
   then x comes before y in S *)
Lemma sel_length_mono t (S1 S2 : list op) : length (sel t S1) <= length (sel t (S1 ++ S2)).
Proof. rewrite sel_app, app_length. lia. Qed.

Corollary classic_rt_order (S : list op) (h1 : list hev) :
  (exists S1 S2, S = S1 ++ S2 /\ forall t, length (ress t h1) <= length (sel t S1) <= length (invs t h1)) ->
  forall Sa x Sb Sa' y Sb',
    S = Sa ++ x :: Sb -> S = Sa' ++ y :: Sb' ->
    length (sel (fst (fst x)) Sa) < length (ress (fst (fst x)) h1) ->
    length (invs (fst (fst y)) h1) <= length (sel (fst (fst y)) Sa') ->
    length Sa < length Sa'.
Proof.
  intros (S1 & S2 & -> & B) Sa x Sb Sa' y Sb' E1 E2 Hx Hy.
  assert (L1 : length Sa < length S1).
  { destruct (Nat.lt_ge_cases (length Sa) (length S1)) as [L|L]; [exact L|exfalso].
    (* S1 is a prefix of Sa *)
    assert (exists Z, Sa = S1 ++ Z) as [Z ->].
    { clear -E1 L. revert Sa E1 L. induction S1 as [|s S1 IH]; intros Sa E L; [exists Sa; reflexivity|].
      destruct Sa as [|s' Sa]; [cbn in L; lia|]. cbn in E. injection E as -> E. cbn in L.
      destruct (IH Sa E ltac:(lia)) as [Z ->]. exists Z. reflexivity. }
    pose proof (sel_length_mono (fst (fst x)) S1 Z). pose proof (B (fst (fst x))). lia. }
  destruct (Nat.lt_ge_cases (length Sa') (length S1)) as [L|L]; [exfalso|lia].
  (* Sa' ++ [y] is a prefix of S1 *)
  assert (exists Z, S1 = Sa' ++ y :: Z) as [Z ->].
  { clear -E2 L. revert S1 E2 L. induction Sa' as [|s Sa' IH]; intros S1 E L.
    - destruct S1 as [|s1 S1]; [cbn in L; lia|]. cbn in E. injection E as -> _. exists S1. reflexivity.
    - destruct S1 as [|s1 S1]; [cbn in L; lia|]. cbn in E. injection E as -> E. cbn in L.
      destruct (IH S1 E ltac:(lia)) as [Z ->]. exists Z. reflexivity. }
  pose proof (B (fst (fst y))) as By. rewrite sel_app in By. cbn [sel] in By.
  destruct (Nat.eq_dec (fst (fst y)) (fst (fst y))) as [_|N]; [|congruence].
  rewrite app_length in By. cbn [length] in By. lia.
Qed.
End Classic.

(* ================================================================== *)
(* Part 3: windows of a history without "anti-operations"              *)
(* ================================================================== *)
(* A property Phi of the abstract state (e.g. "v is a member"), operations that
   establish it ([isop], e.g. Add v: they report success only if Phi did not
   hold) and anti-operations that may destroy it ([isanti], e.g. Remove v).
   Over a stretch of history in which no anti-operation is invoked, starting
   from a possibility in which none is pending unlinearized:
   - Phi, once true, stays true, and every call linearized in the stretch after
     an operation has returned sees it ([after_op]);
   - at most one operation invoked and answered in the stretch reports success
     ([window_one]).
   And in a legal sequential history an operation that reports success is
   separated from any earlier operation by a successful anti-operation
   ([seq_between]). *)
Local Open Scope bool_scope.
Section Window.
Context {Call Res St : Type}.
Variable spec : St -> Call -> St * Res.
Variable Phi : St -> Prop.
Variable Phi_dec : forall a, {Phi a} + {~ Phi a}.
Variables (isop isanti : Call -> bool) (succ : Res -> bool).
Hypothesis K1 : forall a c, isanti c = false -> Phi a -> Phi (fst (spec a c)).
Hypothesis K2 : forall a c, isop c = true -> Phi (fst (spec a c)).
Hypothesis K3 : forall a c, isop c = true -> Phi a -> succ (snd (spec a c)) = false.
Hypothesis K4 : forall a c, Phi a -> ~ Phi (fst (spec a c)) -> isanti c = true /\ succ (snd (spec a c)) = true.
Notation hev := (@hevent Call Res).
Notation pendT := (@pend Call Res).

(* the call pending for thread t after history h (oldest event first) *)
Definition pend_call (h : list hev) (t : nat) : option Call :=
  match last_ev (rev h) t with Some (HInv _ c) => Some c | _ => None end.

(* no anti-operation is pending with its marker still to come / is invoked in w *)
Definition nounm (P : pendT) : Prop := forall t c, P t = Some (c, None) -> isanti c = false.
Definition anti_free (w : list hev) : Prop := forall t c, In (HInv t c) w -> isanti c = false.

Lemma nounm_upd_none (P : pendT) t : nounm P -> nounm (upd P t None).
Proof. intros H t0 c0. unfold upd. destruct (Nat.eq_dec t0 t); [discriminate|apply H]. Qed.
Lemma nounm_upd_inv (P : pendT) t c : nounm P -> isanti c = false -> nounm (upd P t (Some (c, None))).
Proof. intros H Hc t0 c0. unfold upd. destruct (Nat.eq_dec t0 t); [intros [= <-]; exact Hc|apply H]. Qed.

Lemma nounm_start a0 h0 s0 P0 : possF spec a0 no_pend (rev h0) s0 P0 ->
  (forall t c, pend_call h0 t = Some c -> isanti c = false) -> nounm P0.
Proof.
  intros H0 Hpend t c Ht. pose proof (possF_pend _ _ _ _ _ _ H0 t) as X. specialize (Hpend t). unfold pend_call in Hpend.
  destruct (last_ev (rev h0) t) as [[? c0|? ?]|].
  - destruct X as [d Hd]. rewrite Ht in Hd. injection Hd as <- _. exact (Hpend c eq_refl).
  - rewrite Ht in X. discriminate.
  - destruct (X c None Ht) as [d' Hd']. discriminate.
Qed.

Lemma wkeep s1 (P1 : pendT) w s2 (P2 : pendT) :
  possF spec s1 P1 w s2 P2 -> anti_free w -> nounm P1 ->
  nounm P2 /\ (Phi s1 -> Phi s2) /\
  forall t c r, P2 t = Some (c, Some r) ->
    ((forall c', ~ In (HInv t c') w) /\ P1 t = Some (c, Some r)) \/
    ((exists sm, r = snd (spec sm c) /\ (Phi s1 -> Phi sm)) /\ (isop c = true -> Phi s2)).
Proof.
  induction 1 as [|h a P t c H IH HP|h a P t c H IH HP|h a P t c r H IH HP]; intros Hw Hn.
  - split; [exact Hn|]. split; [auto|]. intros t c r Ht. left. split; [intros c' []|exact Ht].
  - destruct IH as (I1 & I2 & I3); [intros t0 c0 Hi; apply (Hw t0 c0); right; exact Hi|exact Hn|].
    split; [|split; [exact I2|]].
    + intros t0 c0. unfold upd. destruct (Nat.eq_dec t0 t) as [->|N]; [|apply I1].
      intros [= <-]. apply (Hw t c). left. reflexivity.
    + intros t0 c0 r0. unfold upd. destruct (Nat.eq_dec t0 t) as [->|N]; [discriminate|]. intros Ht.
      destruct (I3 t0 c0 r0 Ht) as [[A B]|B]; [left|right; exact B].
      split; [|exact B]. intros c' [[= E _]|Hi]; [congruence|exact (A c' Hi)].
  - destruct (IH Hw Hn) as (I1 & I2 & I3).
    assert (Hnr : isanti c = false) by (apply (I1 t c HP)).
    split; [|split].
    + intros t0 c0. unfold upd. destruct (Nat.eq_dec t0 t) as [->|N]; [discriminate|apply I1].
    + intros Hv. apply K1; auto.
    + intros t0 c0 r0. unfold upd. destruct (Nat.eq_dec t0 t) as [->|N].
      * intros [= <- <-]. right. split; [exists a; auto|]. apply K2.
      * intros Ht. destruct (I3 t0 c0 r0 Ht) as [A|[A B]]; [left; exact A|right].
        split; [exact A|]. intros Ha. apply K1; auto.
  - destruct IH as (I1 & I2 & I3); [intros t0 c0 Hi; apply (Hw t0 c0); right; exact Hi|exact Hn|].
    split; [|split; [exact I2|]].
    + intros t0 c0. unfold upd. destruct (Nat.eq_dec t0 t) as [->|N]; [discriminate|apply I1].
    + intros t0 c0 r0. unfold upd. destruct (Nat.eq_dec t0 t) as [->|N]; [discriminate|]. intros Ht.
      destruct (I3 t0 c0 r0 Ht) as [[A B]|B]; [left|right; exact B].
      split; [|exact B]. intros c' [Hi|Hi]; [discriminate|exact (A c' Hi)].
Qed.

(* History (oldest first): ... c1 (an operation) invoked by t1 ... it returns
   r1 ... c2 invoked by t2 ... it returns r2 ...; hA / hB contain no event of
   t1 / t2. If no anti-operation is pending when c1 is invoked and none is
   invoked before c2 returns, r2 is the result of c2 on a state with Phi. *)
Theorem after_op a0 (h0 hA h2 hB h4 : list hev) t1 c1 r1 t2 c2 r2 :
  linearizable spec a0 (h0 ++ [HInv t1 c1] ++ hA ++ [HRes t1 r1] ++ h2 ++ [HInv t2 c2] ++ hB ++ [HRes t2 r2] ++ h4) ->
  isop c1 = true -> isanti c1 = false -> no_ev t1 hA -> no_ev t2 hB -> isanti c2 = false ->
  (forall t c, pend_call h0 t = Some c -> isanti c = false) ->
  (forall t c, In (HInv t c) (hA ++ h2 ++ hB) -> isanti c = false) ->
  exists sm, Phi sm /\ r2 = snd (spec sm c2).
Proof.
  intros (s & P & Hp) Hop Hadd_nr HnA HnB Hc2 Hpend Hwin. apply poss_possF in Hp.
  repeat rewrite rev_app_distr in Hp. cbn [rev app] in Hp.
  apply possF_app in Hp as (s0 & P0 & H0 & Hp).
  apply possF_snoc in Hp as (s0' & P0' & L0 & Hn0 & Hp).
  apply possF_app in Hp as (sa & Pa & HA & Hp).
  apply possF_snoc in Hp as (sa' & Pa' & La & (c1' & Hc1 & Hp)).
  apply possF_app in Hp as (sb & Pb & H2 & Hp).
  apply possF_snoc in Hp as (sb' & Pb' & Lb & Hnb & Hp).
  apply possF_app in Hp as (sc & Pc & HB & Hp).
  apply possF_snoc in Hp as (sc' & Pc' & Lc & (c2' & Hc2' & _)).
  assert (Hnil : anti_free []) by (intros t c []).
  assert (HwA : anti_free ([] ++ rev hA)).
  { intros t c Hi. cbn in Hi. apply in_rev in Hi. apply (Hwin t c). apply in_or_app. auto. }
  assert (Hw2 : anti_free ([] ++ rev h2)).
  { intros t c Hi. cbn in Hi. apply in_rev in Hi. apply (Hwin t c). apply in_or_app. right. apply in_or_app. auto. }
  assert (HwB : anti_free ([] ++ rev hB)).
  { intros t c Hi. cbn in Hi. apply in_rev in Hi. apply (Hwin t c). apply in_or_app. right. apply in_or_app. auto. }
  pose proof (nounm_start _ _ _ _ H0 Hpend) as N0.
  destruct (wkeep _ _ _ _ _ L0 Hnil N0) as (N0' & _ & _).
  pose proof (nounm_upd_inv P0' t1 c1 N0' Hadd_nr) as Na.
  pose proof (possF_trans _ _ _ _ _ _ _ _ _ HA La) as SA.
  destruct (wkeep _ _ _ _ _ SA HwA Na) as (Na' & _ & Ia).
  assert (Ec1 : c1' = c1).
  { pose proof (possF_pend _ _ _ _ _ _ SA t1) as X. cbn [app] in X. rewrite (last_ev_none _ _ (no_ev_rev _ _ HnA)) in X.
    destruct (X c1' (Some r1) Hc1) as [d' Hd']. rewrite upd_same in Hd'. congruence. }
  subst c1'.
  assert (Va : Phi sa').
  { destruct (Ia t1 c1 r1 Hc1) as [[_ B]|[_ B]]; [rewrite upd_same in B; discriminate|exact (B Hop)]. }
  pose proof (nounm_upd_none Pa' t1 Na') as Nb.
  pose proof (possF_trans _ _ _ _ _ _ _ _ _ H2 Lb) as S2.
  destruct (wkeep _ _ _ _ _ S2 Hw2 Nb) as (Nb' & Vb & _).
  pose proof (nounm_upd_inv Pb' t2 c2 Nb' Hc2) as Nc.
  pose proof (possF_trans _ _ _ _ _ _ _ _ _ HB Lc) as SB.
  destruct (wkeep _ _ _ _ _ SB HwB Nc) as (_ & _ & Ic).
  assert (Ec2 : c2' = c2).
  { pose proof (possF_pend _ _ _ _ _ _ SB t2) as X. cbn [app] in X. rewrite (last_ev_none _ _ (no_ev_rev _ _ HnB)) in X.
    destruct (X c2' (Some r2) Hc2') as [d' Hd']. rewrite upd_same in Hd'. congruence. }
  subst c2'.
  destruct (Ic t2 c2 r2 Hc2') as [[_ B]|[(sm & Er & Vm) _]]; [rewrite upd_same in B; discriminate|].
  exists sm. split; [apply Vm, Vb, Va|exact Er].
Qed.

(* ---- at most one successful operation per window ---- *)
(* the number of responses in w (most recent event first) that report success
   and answer an operation invoked within w *)
Fixpoint cnt_succ (w : list hev) : nat :=
  match w with
  | [] => 0
  | HInv _ _ :: w' => cnt_succ w'
  | HRes t r :: w' =>
      (if succ r && match last_ev w' t with Some (HInv _ c) => isop c | _ => false end then 1 else 0) + cnt_succ w'
  end.

Lemma last_ev_in (w : list hev) t e : last_ev w t = Some e -> In e w /\ ev_thread e = t.
Proof.
  induction w as [|e0 w IH]; cbn; [discriminate|].
  destruct (Nat.eq_dec (ev_thread e0) t) as [E|N]; [intros [= <-]; auto|]. intros H. destruct (IH H). auto.
Qed.

(* thread t has a pending operation, invoked in w, whose marker reported success *)
Definition PM (w : list hev) (P : pendT) (t : nat) : Prop :=
  exists c r, P t = Some (c, Some r) /\ isop c = true /\ succ r = true /\ exists c', In (HInv t c') w.

Lemma wcount s1 (P1 : pendT) w s2 (P2 : pendT) :
  possF spec s1 P1 w s2 P2 -> anti_free w -> nounm P1 ->
  nounm P2 /\ cnt_succ w <= 1 /\
  (~ Phi s2 -> cnt_succ w = 0 /\ forall t, ~ PM w P2 t) /\
  (cnt_succ w = 1 -> forall t, ~ PM w P2 t) /\
  (forall t t', PM w P2 t -> PM w P2 t' -> t = t').
Proof.
  induction 1 as [|h a P t c H IH HP|h a P t c H IH HP|h a P t c r H IH HP]; intros Hw Hn.
  - split; [exact Hn|]. split; [cbn; lia|].
    assert (X : forall t, ~ PM [] P1 t) by (intros t (c & r & _ & _ & _ & c' & [])).
    split; [intros _; split; [reflexivity|exact X]|]. split; [intros _; exact X|]. intros t t' A. destruct (X t A).
  - (* invocation *)
    destruct IH as (I0 & IA & IB & IC & ID); [intros t0 c0 Hi; apply (Hw t0 c0); right; exact Hi|exact Hn|].
    assert (Hsub : forall t0, PM (HInv t c :: h) (upd P t (Some (c, None))) t0 -> PM h P t0).
    { intros t0 (c0 & r0 & A1 & A2 & A3 & c' & A4). unfold upd in A1. destruct (Nat.eq_dec t0 t) as [->|N]; [discriminate|].
      exists c0, r0. split; [exact A1|]. split; [exact A2|]. split; [exact A3|]. exists c'.
      destruct A4 as [[= E _]|A4]; [congruence|exact A4]. }
    split; [apply nounm_upd_inv; [exact I0|apply (Hw t c); left; reflexivity]|].
    split; [exact IA|]. split; [intros Hv; destruct (IB Hv) as [B1 B2]; split; [exact B1|intros t0 X; exact (B2 t0 (Hsub t0 X))]|].
    split; [intros E t0 X; exact (IC E t0 (Hsub t0 X))|]. intros t0 t0' X X'. exact (ID t0 t0' (Hsub t0 X) (Hsub t0' X')).
  - (* marker *)
    destruct (IH Hw Hn) as (I0 & IA & IB & IC & ID).
    assert (Hnr : isanti c = false) by (apply (I0 t c HP)).
    assert (Hoth : forall t0, t0 <> t -> PM h (upd P t (Some (c, Some (snd (spec a c))))) t0 -> PM h P t0).
    { intros t0 N (c0 & r0 & A1 & A). unfold upd in A1. destruct (Nat.eq_dec t0 t); [congruence|]. exists c0, r0. auto. }
    split; [intros t0 c0; unfold upd; destruct (Nat.eq_dec t0 t); [discriminate|apply I0]|].
    split; [exact IA|].
    destruct (Phi_dec a) as [Hv|Hv].
    + (* Phi holds before the marker: an operation marked now does not report success *)
      assert (Hnot : ~ PM h (upd P t (Some (c, Some (snd (spec a c))))) t).
      { intros (c0 & r0 & A1 & A2 & A3 & _). rewrite upd_same in A1. injection A1 as <- <-. rewrite (K3 a c A2 Hv) in A3. discriminate. }
      assert (Hsub : forall t0, PM h (upd P t (Some (c, Some (snd (spec a c))))) t0 -> PM h P t0).
      { intros t0 X. destruct (Nat.eq_dec t0 t) as [->|N]; [destruct (Hnot X)|exact (Hoth t0 N X)]. }
      split; [intros Hv'; exfalso; apply Hv'; apply K1; auto|].
      split; [intros E t0 X; exact (IC E t0 (Hsub t0 X))|]. intros t0 t0' X X'. exact (ID t0 t0' (Hsub t0 X) (Hsub t0' X')).
    + (* Phi does not hold: nothing has succeeded in the window so far *)
      destruct (IB Hv) as [B1 B2].
      assert (Honly : forall t0, PM h (upd P t (Some (c, Some (snd (spec a c))))) t0 -> t0 = t).
      { intros t0 X. destruct (Nat.eq_dec t0 t) as [E|N]; [exact E|destruct (B2 t0 (Hoth t0 N X))]. }
      split.
      { intros Hv'. split; [exact B1|]. intros t0 X. pose proof (Honly t0 X) as ->.
        destruct X as (c0 & r0 & A1 & A2 & _). rewrite upd_same in A1. injection A1 as <- <-. apply Hv'. apply K2, A2. }
      split; [intros E; lia|]. intros t0 t0' X X'. rewrite (Honly t0 X), (Honly t0' X'). reflexivity.
  - (* response *)
    destruct IH as (I0 & IA & IB & IC & ID); [intros t0 c0 Hi; apply (Hw t0 c0); right; exact Hi|exact Hn|].
    assert (Hsub : forall t0, PM (HRes t r :: h) (upd P t None) t0 -> PM h P t0 /\ t0 <> t).
    { intros t0 (c0 & r0 & A1 & A2 & A3 & c' & A4). unfold upd in A1. destruct (Nat.eq_dec t0 t) as [->|N]; [discriminate|].
      split; [|exact N]. exists c0, r0. split; [exact A1|]. split; [exact A2|]. split; [exact A3|]. exists c'.
      destruct A4 as [A4|A4]; [discriminate|exact A4]. }
    split; [apply nounm_upd_none, I0|]. cbn [cnt_succ].
    destruct (succ r && match last_ev h t with Some (HInv _ c0) => isop c0 | _ => false end) eqn:Cond.
    + (* the response of the one successful operation *)
      apply andb_prop in Cond as [Cs Cl].
      assert (Xt : PM h P t).
      { pose proof (possF_pend _ _ _ _ _ _ H t) as Y. destruct (last_ev h t) as [[t' c0|? ?]|] eqn:El; try discriminate Cl.
        destruct Y as [d Hd]. rewrite HP in Hd. injection Hd as <- _.
        exists c, r. split; [exact HP|]. split; [exact Cl|]. split; [exact Cs|]. exists c.
        destruct (last_ev_in _ _ _ El) as [Hi Et]. cbn in Et. subst t'. exact Hi. }
      assert (E0 : cnt_succ h = 0).
      { destruct (Nat.eq_dec (cnt_succ h) 1) as [E1|N1]; [destruct (IC E1 t Xt)|lia]. }
      rewrite E0. split; [lia|].
      assert (Hno : forall t0, ~ PM (HRes t r :: h) (upd P t None) t0).
      { intros t0 X. destruct (Hsub t0 X) as [X0 N]. apply N. exact (ID t0 t X0 Xt). }
      split; [intros Hv; destruct (IB Hv) as [_ B2]; destruct (B2 t Xt)|].
      split; [intros _; exact Hno|]. intros t0 t0' X. destruct (Hno t0 X).
    + cbn [plus]. split; [exact IA|].
      split; [intros Hv; destruct (IB Hv) as [B1 B2]; split; [exact B1|intros t0 X; exact (B2 t0 (proj1 (Hsub t0 X)))]|].
      split; [intros E t0 X; exact (IC E t0 (proj1 (Hsub t0 X)))|].
      intros t0 t0' X X'. exact (ID t0 t0' (proj1 (Hsub t0 X)) (proj1 (Hsub t0' X'))).
Qed.

(* A window W of a linearizable history at whose start no anti-operation is
   pending and in which none is invoked: at most one operation invoked and
   answered within W reports success. *)
Theorem window_one a0 (h0 W h4 : list hev) :
  linearizable spec a0 (h0 ++ W ++ h4) ->
  (forall t c, pend_call h0 t = Some c -> isanti c = false) ->
  (forall t c, In (HInv t c) W -> isanti c = false) ->
  cnt_succ (rev W) <= 1.
Proof.
  intros (s & P & Hp) Hpend Hwin. apply poss_possF in Hp.
  repeat rewrite rev_app_distr in Hp. rewrite <- app_assoc in Hp.
  apply possF_app in Hp as (s1 & P1 & H01 & _).
  apply possF_app in H01 as (s0 & P0 & H0 & HW).
  pose proof (nounm_start _ _ _ _ H0 Hpend) as N0.
  assert (Hfree : anti_free (rev W)) by (intros t c Hi; apply in_rev in Hi; exact (Hwin t c Hi)).
  exact (proj1 (proj2 (wcount _ _ _ _ _ HW Hfree N0))).
Qed.

(* two responses in W that report success and answer operations invoked in W:
   the count is at least 2 *)
Lemma cnt_succ_app (x w : list hev) : cnt_succ w <= cnt_succ (x ++ w).
Proof. induction x as [|[t c|t r] x IH]; cbn; lia. Qed.

Lemma cnt_succ_two (x y z : list hev) tA rA tB rB cA cB :
  succ rA = true -> succ rB = true ->
  last_ev z tA = Some (HInv tA cA) -> isop cA = true ->
  last_ev (y ++ HRes tA rA :: z) tB = Some (HInv tB cB) -> isop cB = true ->
  2 <= cnt_succ (x ++ HRes tB rB :: y ++ HRes tA rA :: z).
Proof.
  intros SA SB LA OA LB OB.
  pose proof (cnt_succ_app x (HRes tB rB :: y ++ HRes tA rA :: z)) as X1.
  pose proof (cnt_succ_app y (HRes tA rA :: z)) as X2.
  cbn [cnt_succ] in X1. rewrite LB, SB, OB in X1. cbn [andb] in X1.
  cbn [cnt_succ] in X2. rewrite LA, SA, OA in X2. cbn [andb] in X2. lia.
Qed.

(* ---- sequential histories ---- *)
Notation op := (nat * Call * Res)%type.
Definition runs_to (a : St) (S : list op) (a' : St) : Prop := spec_run spec a (calls S) = (a', results S).

Lemma runs_cons a x S a' : runs_to a (x :: S) a' <->
  snd x = snd (spec a (snd (fst x))) /\ runs_to (fst (spec a (snd (fst x)))) S a'.
Proof.
  unfold runs_to. change (calls (x :: S)) with (snd (fst x) :: calls S). change (results (x :: S)) with (snd x :: results S).
  cbn [spec_run]. destruct (spec a (snd (fst x))) as [a1 r]. cbn [fst snd].
  destruct (spec_run spec a1 (calls S)) as [a2 rs]. split.
  - intros E. injection E as -> -> ->. auto.
  - intros [-> E]. injection E as -> ->. reflexivity.
Qed.

Lemma runs_app a S1 S2 a' : runs_to a (S1 ++ S2) a' -> exists am, runs_to a S1 am /\ runs_to am S2 a'.
Proof.
  revert a. induction S1 as [|x S1 IH]; intros a H.
  - exists a. split; [reflexivity|exact H].
  - cbn [app] in H. apply runs_cons in H as [E H]. destruct (IH _ H) as (am & A & B).
    exists am. split; [apply runs_cons; auto|exact B].
Qed.

Lemma run_between Sm : forall a a', runs_to a Sm a' -> Phi a ->
  Phi a' \/ exists z, In z Sm /\ isanti (snd (fst z)) = true /\ succ (snd z) = true.
Proof.
  induction Sm as [|x Sm IH]; intros a a' H Hv.
  - left. unfold runs_to in H. cbn in H. injection H as <-. exact Hv.
  - apply runs_cons in H as [E H]. destruct (Phi_dec (fst (spec a (snd (fst x))))) as [Hv1|Hv1].
    + destruct (IH _ _ H Hv1) as [L|(z & Hz & R)]; [auto|]. right. exists z. split; [right; exact Hz|exact R].
    + right. exists x. destruct (K4 a (snd (fst x)) Hv Hv1) as [A B]. split; [left; reflexivity|]. split; [exact A|]. rewrite E. exact B.
Qed.

(* in a legal sequential history, an operation y that reports success is
   separated from every earlier operation x by an anti-operation that reports
   success *)
Theorem seq_between a0 (S : list op) a Sa x Sm y Sb :
  spec_run spec a0 (calls S) = (a, results S) -> S = Sa ++ x :: Sm ++ y :: Sb ->
  isop (snd (fst x)) = true -> isop (snd (fst y)) = true -> succ (snd y) = true ->
  exists z, In z Sm /\ isanti (snd (fst z)) = true /\ succ (snd z) = true.
Proof.
  intros H -> Hx Hy Hs. apply runs_app in H as (a1 & _ & H). apply runs_cons in H as [_ H].
  apply runs_app in H as (a2 & Hm & H). apply runs_cons in H as [Ey _].
  destruct (run_between Sm _ _ Hm (K2 a1 _ Hx)) as [Hv|Z]; [|exact Z].
  exfalso. rewrite Ey, (K3 a2 _ Hy Hv) in Hs. discriminate.
Qed.
End Window.
