(* Consequences of the possibilities definition of linearizability (Lib/Lin.v),
   for any specification.

   Part 1: possibilities continued from an arbitrary possibility ([possF]), so
   that a derivation of [poss] over a history can be cut at any position
   ([possF_app]) and single events can be peeled off ([possF_snoc]); the call a
   possibility records as pending for a thread is the one the history says is
   pending ([possF_pend]).

   Part 2: [poss_classic] - linearizable in the sense of Lib/Lin.v implies
   linearizable in the classic sense of Herlihy & Wing: there is a sequential
   history S of operations (thread, call, result) that
   (a) is legal: running the specification over the calls of S from the initial
       state yields exactly the results of S (and ends in the state of the
       possibility);
   (b) consists, thread by thread and in program order, of the operations of
       the history: all completed ones with the results the history reports,
       plus possibly the pending one;
   (c) respects real-time order: for every cut h = h1 ++ h2 of the history S can
       be cut as S1 ++ S2 such that S1 contains every operation completed in h1
       and only operations invoked in h1 - so an operation whose response is in
       h1 precedes in S every operation invoked in h2 ([classic_rt_order]). *)
From Coq Require Import List Arith Lia.
Import ListNotations.
From Typ Require Import Lib.Lin.

Section Seg.
Context {Call Res St : Type}.
Variable spec : St -> Call -> St * Res.
Notation hev := (@hevent Call Res).
Notation pendT := (@pend Call Res).

(* possibilities continued from (a1, P1); histories most recent event first *)
Inductive possF (a1 : St) (P1 : pendT) : list hev -> St -> pendT -> Prop :=
| pf_nil : possF a1 P1 [] a1 P1
| pf_inv h a P t c : possF a1 P1 h a P -> P t = None -> possF a1 P1 (HInv t c :: h) a (upd P t (Some (c, None)))
| pf_lin h a P t c : possF a1 P1 h a P -> P t = Some (c, None) ->
    possF a1 P1 h (fst (spec a c)) (upd P t (Some (c, Some (snd (spec a c)))))
| pf_res h a P t c r : possF a1 P1 h a P -> P t = Some (c, Some r) -> possF a1 P1 (HRes t r :: h) a (upd P t None).

Lemma poss_possF a0 h a P : poss spec a0 h a P -> possF a0 no_pend h a P.
Proof. induction 1; econstructor; eassumption. Qed.

Lemma possF_poss a0 h a P : possF a0 no_pend h a P -> poss spec a0 h a P.
Proof. induction 1; econstructor; eassumption. Qed.

Lemma possF_trans a1 P1 w1 a2 P2 w2 a3 P3 :
  possF a1 P1 w1 a2 P2 -> possF a2 P2 w2 a3 P3 -> possF a1 P1 (w2 ++ w1) a3 P3.
Proof. intros H1 H2. induction H2; cbn; [exact H1|econstructor; eassumption ..]. Qed.

Lemma possF_app a1 P1 w2 w1 a P :
  possF a1 P1 (w2 ++ w1) a P -> exists a2 P2, possF a1 P1 w1 a2 P2 /\ possF a2 P2 w2 a P.
Proof.
  intros H. remember (w2 ++ w1) as w eqn:E. revert w2 E.
  induction H as [|h a P t c H IH HP|h a P t c H IH HP|h a P t c r H IH HP]; intros w2 E.
  - destruct w2; [|discriminate]. cbn in E. subst w1. exists a1, P1. split; constructor.
  - destruct w2 as [|e w2]; cbn in E.
    + subst w1. eexists _, _. split; [eapply pf_inv; eassumption|constructor].
    + injection E as <- ->. destruct (IH w2 eq_refl) as (a2 & P2 & A & B). exists a2, P2. split; [exact A|]. constructor; assumption.
  - destruct (IH w2 E) as (a2 & P2 & A & B). exists a2, P2. split; [exact A|]. apply pf_lin; assumption.
  - destruct w2 as [|e w2]; cbn in E.
    + subst w1. eexists _, _. split; [eapply pf_res; eassumption|constructor].
    + injection E as <- ->. destruct (IH w2 eq_refl) as (a2 & P2 & A & B). exists a2, P2. split; [exact A|]. econstructor; eassumption.
Qed.

(* one event: markers, the event, markers *)
Lemma possF_one a1 P1 e a P : possF a1 P1 [e] a P ->
  exists a' P', possF a1 P1 [] a' P' /\
    match e with
    | HInv t c => P' t = None /\ possF a' (upd P' t (Some (c, None))) [] a P
    | HRes t r => exists c, P' t = Some (c, Some r) /\ possF a' (upd P' t None) [] a P
    end.
Proof.
  intros H. remember [e] as w eqn:E.
  induction H as [|h a P t c H IH HP|h a P t c H IH HP|h a P t c r H IH HP].
  - discriminate.
  - injection E as <- ->. exists a, P. split; [exact H|]. split; [exact HP|constructor].
  - destruct (IH E) as (a' & P' & A & B). exists a', P'. split; [exact A|]. destruct e as [t0 c0|t0 r0].
    + destruct B as [B1 B2]. split; [exact B1|]. apply pf_lin; assumption.
    + destruct B as (c0 & B1 & B2). exists c0. split; [exact B1|]. apply pf_lin; assumption.
  - injection E as <- ->. exists a, P. split; [exact H|]. exists c. split; [exact HP|constructor].
Qed.

(* peel the oldest event of a stretch *)
Lemma possF_snoc a1 P1 X e a P : possF a1 P1 (X ++ [e]) a P ->
  exists a' P', possF a1 P1 [] a' P' /\
    match e with
    | HInv t c => P' t = None /\ possF a' (upd P' t (Some (c, None))) X a P
    | HRes t r => exists c, P' t = Some (c, Some r) /\ possF a' (upd P' t None) X a P
    end.
Proof.
  intros H. apply possF_app in H as (a2 & P2 & A & B). apply possF_one in A as (a' & P' & A1 & A2).
  exists a', P'. split; [exact A1|]. destruct e as [t0 c0|t0 r0].
  - destruct A2 as [A2 A3]. split; [exact A2|]. rewrite <- (app_nil_r X). eapply possF_trans; eassumption.
  - destruct A2 as (c0 & A2 & A3). exists c0. split; [exact A2|]. rewrite <- (app_nil_r X). eapply possF_trans; eassumption.
Qed.

(* ---- which call is pending is a function of the history ---- *)
Definition ev_thread (e : hev) : nat := match e with HInv t _ | HRes t _ => t end.
(* the most recent event of thread t (history most recent first) *)
Fixpoint last_ev (w : list hev) (t : nat) : option hev :=
  match w with
  | [] => None
  | e :: w' => if Nat.eq_dec (ev_thread e) t then Some e else last_ev w' t
  end.
Definition no_ev (t : nat) (w : list hev) : Prop := forall e, In e w -> ev_thread e <> t.

Lemma last_ev_app w1 w2 t : last_ev (w1 ++ w2) t = match last_ev w1 t with Some e => Some e | None => last_ev w2 t end.
Proof. induction w1 as [|e w1 IH]; cbn; [reflexivity|]. destruct (Nat.eq_dec (ev_thread e) t); [reflexivity|exact IH]. Qed.

Lemma last_ev_none w t : no_ev t w -> last_ev w t = None.
Proof.
  induction w as [|e w IH]; intros H; cbn; [reflexivity|].
  destruct (Nat.eq_dec (ev_thread e) t) as [E|N]; [exfalso; apply (H e); [left; reflexivity|exact E]|].
  apply IH. intros e' Hi. apply H. right. exact Hi.
Qed.

Lemma no_ev_rev t w : no_ev t w -> no_ev t (rev w).
Proof. intros H e Hi. apply H. apply in_rev. exact Hi. Qed.

Lemma possF_pend a1 P1 w a P : possF a1 P1 w a P -> forall t,
  match last_ev w t with
  | Some (HInv _ c) => exists d, P t = Some (c, d)
  | Some (HRes _ _) => P t = None
  | None => forall c d, P t = Some (c, d) -> exists d', P1 t = Some (c, d')
  end.
Proof.
  induction 1 as [|h a P t c H IH HP|h a P t c H IH HP|h a P t c r H IH HP]; intros t0.
  - cbn. eauto.
  - cbn [last_ev ev_thread]. destruct (Nat.eq_dec t t0) as [->|N]; [rewrite upd_same; eauto|].
    specialize (IH t0). rewrite upd_other by auto. exact IH.
  - specialize (IH t0). destruct (Nat.eq_dec t0 t) as [->|N].
    + rewrite upd_same. destruct (last_ev h t) as [[? c0|? ?]|].
      * destruct IH as [d Hd]. rewrite HP in Hd. injection Hd as <- _. eauto.
      * rewrite HP in IH. discriminate.
      * intros c1 d1 [= <- <-]. eapply IH. exact HP.
    + rewrite upd_other by exact N. exact IH.
  - cbn [last_ev ev_thread]. destruct (Nat.eq_dec t t0) as [->|N]; [apply upd_same|].
    specialize (IH t0). rewrite upd_other by auto. exact IH.
Qed.
End Seg.

(* ================================================================== *)
(* Part 2: the classic definition                                      *)
(* ================================================================== *)
Section Classic.
Context {Call Res St : Type}.
Variable spec : St -> Call -> St * Res.
Notation hev := (@hevent Call Res).
Notation op := (nat * Call * Res)%type.

(* the calls thread t invokes / the results it receives in history h, in order *)
Fixpoint invs (t : nat) (h : list hev) : list Call :=
  match h with
  | [] => []
  | HInv t' c :: h' => if Nat.eq_dec t' t then c :: invs t h' else invs t h'
  | HRes _ _ :: h' => invs t h'
  end.
Fixpoint ress (t : nat) (h : list hev) : list Res :=
  match h with
  | [] => []
  | HRes t' r :: h' => if Nat.eq_dec t' t then r :: ress t h' else ress t h'
  | HInv _ _ :: h' => ress t h'
  end.
(* the operations of thread t in a sequential history *)
Fixpoint sel (t : nat) (S : list op) : list op :=
  match S with
  | [] => []
  | x :: S' => if Nat.eq_dec (fst (fst x)) t then x :: sel t S' else sel t S'
  end.

Lemma invs_app t h1 h2 : invs t (h1 ++ h2) = invs t h1 ++ invs t h2.
Proof. induction h1 as [|[t' c|t' r] h1 IH]; cbn; [reflexivity| |exact IH]. destruct (Nat.eq_dec t' t); cbn; congruence. Qed.
Lemma ress_app t h1 h2 : ress t (h1 ++ h2) = ress t h1 ++ ress t h2.
Proof. induction h1 as [|[t' c|t' r] h1 IH]; cbn; [reflexivity|exact IH|]. destruct (Nat.eq_dec t' t); cbn; congruence. Qed.
Lemma sel_app t S1 S2 : sel t (S1 ++ S2) = sel t S1 ++ sel t S2.
Proof. induction S1 as [|x S1 IH]; cbn; [reflexivity|]. destruct (Nat.eq_dec (fst (fst x)) t); cbn; congruence. Qed.

Lemma calls_app (l1 l2 : list op) : calls (l1 ++ l2) = calls l1 ++ calls l2.
Proof. unfold calls. apply map_app. Qed.
Lemma results_app (l1 l2 : list op) : results (l1 ++ l2) = results l1 ++ results l2.
Proof. unfold results. apply map_app. Qed.

(* the invariant along a derivation of [poss] (history most recent first) *)
Definition agree (h : list hev) (S : list op) (P : @pend Call Res) : Prop :=
  forall t,
    match P t with
    | None => invs t h = calls (sel t S) /\ results (sel t S) = ress t h
    | Some (c, None) => invs t h = calls (sel t S) ++ [c] /\ results (sel t S) = ress t h
    | Some (c, Some r) => invs t h = calls (sel t S) /\ results (sel t S) = ress t h ++ [r]
    end.
Definition rt (h : list hev) (S : list op) : Prop :=
  forall h1 h2, h = h1 ++ h2 -> exists S1 S2, S = S1 ++ S2 /\
    forall t, length (ress t h1) <= length (sel t S1) <= length (invs t h1).

Lemma agree_bounds h S P : agree h S P -> forall t, length (ress t h) <= length (sel t S) <= length (invs t h).
Proof.
  intros A t. specialize (A t). destruct (P t) as [[c [r|]]|]; destruct A as [A1 A2];
    apply (f_equal (@length _)) in A1, A2; unfold calls, results in *; rewrite ?app_length, ?map_length in *; cbn in *; lia.
Qed.

Lemma snoc_split {X} (h1 h2 l : list X) e : h1 ++ h2 = l ++ [e] ->
  (h2 = [] /\ h1 = l ++ [e]) \/ exists h2', h2 = h2' ++ [e] /\ l = h1 ++ h2'.
Proof.
  intros E. destruct h2 as [|x h2] using rev_ind.
  - left. rewrite app_nil_r in E. auto.
  - right. rewrite app_assoc in E. apply app_inj_tail in E as [E1 E2]. subst. eauto.
Qed.

(* after one more event: the old cuts, and the cut at the very end *)
Lemma rt_event h S S' P e : rt h S -> agree (h ++ [e]) (S ++ S') P -> rt (h ++ [e]) (S ++ S').
Proof.
  intros R A h1 h2 E. symmetry in E. apply snoc_split in E as [[-> ->]|(h2' & -> & ->)].
  - exists (S ++ S'), []. split; [rewrite app_nil_r; reflexivity|]. apply (agree_bounds _ _ _ A).
  - destruct (R h1 h2' eq_refl) as (S1 & S2 & -> & B). exists S1, (S2 ++ S'). split; [rewrite app_assoc; reflexivity|exact B].
Qed.

Lemma poss_classic_inv a0 hr a P : poss spec a0 hr a P ->
  exists S : list op, spec_run spec a0 (calls S) = (a, results S) /\ agree (rev hr) S P /\ rt (rev hr) S.
Proof.
  induction 1 as [|h a P t c Hp (S & J1 & J2 & J3) HP|h a P t c Hp (S & J1 & J2 & J3) HP|h a P t c r Hp (S & J1 & J2 & J3) HP].
  - exists []. split; [reflexivity|]. split; [intros t; cbn; auto|].
    intros h1 h2 E. symmetry in E. apply app_eq_nil in E as [-> ->]. exists [], []. split; [reflexivity|]. intros t. cbn. lia.
  - (* invocation *)
    exists S. split; [exact J1|].
    assert (A : agree (rev (HInv t c :: h)) S (upd P t (Some (c, None)))).
    { intros t0. cbn [rev]. rewrite invs_app, ress_app. cbn. specialize (J2 t0). unfold upd.
      destruct (Nat.eq_dec t t0) as [->|N].
      - destruct (Nat.eq_dec t0 t0) as [_|N']; [|congruence]. rewrite HP in J2. destruct J2 as [A1 A2]. rewrite A1, app_nil_r. auto.
      - destruct (Nat.eq_dec t0 t) as [E|_]; [congruence|]. rewrite !app_nil_r. exact J2. }
    split; [exact A|]. cbn [rev]. rewrite <- (app_nil_r S). apply (rt_event _ _ _ (upd P t (Some (c, None))) _ J3). rewrite app_nil_r. exact A.
  - (* marker *)
    exists (S ++ [(t, c, snd (spec a c))]). split; [|split].
    + rewrite calls_app, results_app. cbn. rewrite spec_run_app, J1. cbn. reflexivity.
    + intros t0. rewrite sel_app. cbn [sel fst]. specialize (J2 t0). unfold upd.
      destruct (Nat.eq_dec t0 t) as [->|N].
      * destruct (Nat.eq_dec t t) as [_|N']; [|congruence]. rewrite HP in J2. destruct J2 as [A1 A2].
        rewrite calls_app, results_app.
        change (calls [(t, c, snd (spec a c))]) with [c]. change (results [(t, c, snd (spec a c))]) with [snd (spec a c)].
        rewrite A1, A2. auto.
      * destruct (Nat.eq_dec t t0) as [E|_]; [congruence|]. rewrite app_nil_r. exact J2.
    + intros h1 h2 E. destruct (J3 h1 h2 E) as (S1 & S2 & -> & B). exists S1, (S2 ++ [(t, c, snd (spec a c))]).
      split; [rewrite app_assoc; reflexivity|exact B].
  - (* response *)
    exists S. split; [exact J1|].
    assert (A : agree (rev (HRes t r :: h)) S (upd P t None)).
    { intros t0. cbn [rev]. rewrite invs_app, ress_app. cbn. specialize (J2 t0). unfold upd.
      destruct (Nat.eq_dec t t0) as [->|N].
      - destruct (Nat.eq_dec t0 t0) as [_|N']; [|congruence]. rewrite HP in J2. destruct J2 as [A1 A2]. rewrite A2, app_nil_r. auto.
      - destruct (Nat.eq_dec t0 t) as [E|_]; [congruence|]. rewrite !app_nil_r. exact J2. }
    split; [exact A|]. cbn [rev]. rewrite <- (app_nil_r S). apply (rt_event _ _ _ (upd P t None) _ J3). rewrite app_nil_r. exact A.
Qed.

(* h oldest event first, as in [linearizable] *)
Theorem poss_classic a0 h a P : poss spec a0 (rev h) a P ->
  exists S : list op,
    (* (a) legal *)
    spec_run spec a0 (calls S) = (a, results S) /\
    (* (b) the operations of the history, thread by thread in program order: all
       completed ones, plus possibly the pending one *)
    (forall t, exists l1 l2, invs t h = calls (sel t S) ++ l1 /\ results (sel t S) = ress t h ++ l2 /\
                             length l1 + length l2 <= 1) /\
    (* (c) real-time order *)
    (forall h1 h2, h = h1 ++ h2 -> exists S1 S2, S = S1 ++ S2 /\
       forall t, length (ress t h1) <= length (sel t S1) <= length (invs t h1)).
Proof.
  intros Hp. destruct (poss_classic_inv a0 _ a P Hp) as (S & J1 & J2 & J3). rewrite rev_involutive in J2, J3.
  exists S. split; [exact J1|]. split; [|exact J3].
  intros t. specialize (J2 t). destruct (P t) as [[c [r|]]|]; destruct J2 as [A1 A2].
  - exists [], [r]. rewrite app_nil_r. cbn. auto.
  - exists [c], []. rewrite app_nil_r. cbn. auto.
  - exists [], []. rewrite !app_nil_r. cbn. auto.
Qed.

Corollary linearizable_classic a0 h : linearizable spec a0 h ->
  exists (a : St) (S : list op),
    spec_run spec a0 (calls S) = (a, results S) /\
    (forall t, exists l1 l2, invs t h = calls (sel t S) ++ l1 /\ results (sel t S) = ress t h ++ l2 /\
                             length l1 + length l2 <= 1) /\
    (forall h1 h2, h = h1 ++ h2 -> exists S1 S2, S = S1 ++ S2 /\
       forall t, length (ress t h1) <= length (sel t S1) <= length (invs t h1)).
Proof. intros (a & P & Hp). exists a. exact (poss_classic a0 h a P Hp). Qed.

(* (c) spelled out: x is the k-th operation of thread t in S and has completed
   in h1 (t has received more than k responses there), y is the k'-th operation
   of t' and is invoked after h1 (t' has made at most k' invocations there):
   then x comes before y in S *)
Lemma sel_length_mono t (S1 S2 : list op) : length (sel t S1) <= length (sel t (S1 ++ S2)).
Proof. rewrite sel_app, app_length. lia. Qed.

Corollary classic_rt_order (S : list op) (h1 : list hev) :
  (exists S1 S2, S = S1 ++ S2 /\ forall t, length (ress t h1) <= length (sel t S1) <= length (invs t h1)) ->
  forall Sa x Sb Sa' y Sb',
    S = Sa ++ x :: Sb -> S = Sa' ++ y :: Sb' ->
    length (sel (fst (fst x)) Sa) < length (ress (fst (fst x)) h1) ->
    length (invs (fst (fst y)) h1) <= length (sel (fst (fst y)) Sa') ->
    length Sa < length Sa'.
Proof.
  intros (S1 & S2 & -> & B) Sa x Sb Sa' y Sb' E1 E2 Hx Hy.
  assert (L1 : length Sa < length S1).
  { destruct (Nat.lt_ge_cases (length Sa) (length S1)) as [L|L]; [exact L|exfalso].
    (* S1 is a prefix of Sa *)
    assert (exists Z, Sa = S1 ++ Z) as [Z ->].
    { clear -E1 L. revert Sa E1 L. induction S1 as [|s S1 IH]; intros Sa E L; [exists Sa; reflexivity|].
      destruct Sa as [|s' Sa]; [cbn in L; lia|]. cbn in E. injection E as -> E. cbn in L.
      destruct (IH Sa E ltac:(lia)) as [Z ->]. exists Z. reflexivity. }
    pose proof (sel_length_mono (fst (fst x)) S1 Z). pose proof (B (fst (fst x))). lia. }
  destruct (Nat.lt_ge_cases (length Sa') (length S1)) as [L|L]; [exfalso|lia].
  (* Sa' ++ [y] is a prefix of S1 *)
  assert (exists Z, S1 = Sa' ++ y :: Z) as [Z ->].
  { clear -E2 L. revert S1 E2 L. induction Sa' as [|s Sa' IH]; intros S1 E L.
    - destruct S1 as [|s1 S1]; [cbn in L; lia|]. cbn in E. injection E as -> _. exists S1. reflexivity.
    - destruct S1 as [|s1 S1]; [cbn in L; lia|]. cbn in E. injection E as -> E. cbn in L.
      destruct (IH S1 E ltac:(lia)) as [Z ->]. exists Z. reflexivity. }
  pose proof (B (fst (fst y))) as By. rewrite sel_app in By. cbn [sel] in By.
  destruct (Nat.eq_dec (fst (fst y)) (fst (fst y))) as [_|N]; [|congruence].
  rewrite app_length in By. cbn [length] in By. lia.
Qed.
End Classic.
