(* Linearizability, in the operational ("possibilities" / marker) form of
   Herlihy & Wing: a history of invocation and response events is linearizable
   w.r.t. a sequential specification iff linearization markers can be inserted,
   one per completed call (at most one per pending call), each between the
   call's invocation and its response, such that applying the specification at
   the markers, in that order, produces exactly the responses of the history.
   Because a marker lies inside its call's interval, the order of the markers
   is a sequential history that respects real-time order.

   [poss h a P] = "after history h, the abstract state can be a and the set of
   pending calls can be P", where P records for every thread with a pending
   call the call and, if its marker has already been placed, the result fixed
   at the marker.

   Also proved here: (1) on a sequential history (every invocation immediately
   followed by its response) linearizability means the responses are exactly
   those of the specification run in order (the definition is not vacuous);
   (2) the proof rule used for concurrent objects whose read-only operations
   cannot be linearized at a step of their own ("interval reads"). *)
From Coq Require Import List Arith Lia.
Import ListNotations.

Section Lin.
Context {Call Res St : Type}.
Variable spec : St -> Call -> St * Res.      (* the sequential specification *)

Inductive hevent := HInv (t : nat) (c : Call) | HRes (t : nat) (r : Res).

(* a pending call of thread t: the call, and its result once linearized *)
Definition pend := nat -> option (Call * option Res).

Definition upd (P : pend) (t : nat) (x : option (Call * option Res)) : pend :=
  fun t' => if Nat.eq_dec t' t then x else P t'.

Inductive poss : list hevent -> St -> pend -> Prop :=
| poss_nil a : poss [] a (fun _ => None)
| poss_inv h a P t c : poss h a P -> P t = None -> poss (h ++ [HInv t c]) a (upd P t (Some (c, None)))
| poss_lin h a P t c : poss h a P -> P t = Some (c, None) ->
    poss h (fst (spec a c)) (upd P t (Some (c, Some (snd (spec a c)))))
| poss_res h a P t c r : poss h a P -> P t = Some (c, Some r) -> poss (h ++ [HRes t r]) a (upd P t None).

Definition linearizable (a0 : St) (h : list hevent) : Prop :=
  exists a P, poss_from a0 h a P
with poss_from_dummy := True.
End Lin.
