(* Linearizability, in the operational ("possibilities" / marker) form of
   Herlihy & Wing: a history of invocation and response events is linearizable
   w.r.t. a sequential specification iff linearization markers can be inserted,
   one per completed call (at most one per pending call), each between the
   call's invocation and its response, such that applying the specification at
   the markers, in that order, produces exactly the responses of the history.
   Because a marker lies inside its call's interval, the order of the markers
   is a sequential history that respects real-time order.

   [poss a0 h a P] = "after history h (most recent event FIRST) from initial
   abstract state a0, the abstract state can be a and the pending calls can be
   P", where P records for every thread with a pending call the call and, once
   its marker has been placed, the result fixed at the marker. Rule [poss_lin]
   is the marker: it consumes no event, so markers can be placed anywhere
   between the events.

   Sanity theorem (the definition is not vacuous and not too weak): on a
   sequential history - every invocation immediately followed by its response
   - linearizable means exactly "the responses are those of the specification
   run in order". *)
From Coq Require Import List Arith Lia.
Import ListNotations.

Section Lin.
Context {Call Res St : Type}.
Variable spec : St -> Call -> St * Res.      (* the sequential specification *)

Inductive hevent := HInv (t : nat) (c : Call) | HRes (t : nat) (r : Res).

(* the pending call of a thread: the call, and its result once linearized *)
Definition pend := nat -> option (Call * option Res).
Definition no_pend : pend := fun _ => None.
Definition upd (P : pend) (t : nat) (x : option (Call * option Res)) : pend :=
  fun t' => if Nat.eq_dec t' t then x else P t'.

Inductive poss (a0 : St) : list hevent -> St -> pend -> Prop :=
| poss_nil : poss a0 [] a0 no_pend
| poss_inv h a P t c : poss a0 h a P -> P t = None -> poss a0 (HInv t c :: h) a (upd P t (Some (c, None)))
| poss_lin h a P t c : poss a0 h a P -> P t = Some (c, None) ->
    poss a0 h (fst (spec a c)) (upd P t (Some (c, Some (snd (spec a c)))))
| poss_res h a P t c r : poss a0 h a P -> P t = Some (c, Some r) -> poss a0 (HRes t r :: h) a (upd P t None).

(* h is given oldest event first *)
Definition linearizable (a0 : St) (h : list hevent) : Prop := exists a P, poss a0 (rev h) a P.

(* ---- sequential histories ---- *)
Fixpoint spec_run (a : St) (cs : list Call) : St * list Res :=
  match cs with
  | [] => (a, [])
  | c :: cs' => let '(a', r) := spec a c in let '(a'', rs) := spec_run a' cs' in (a'', r :: rs)
  end.

(* calls made one after the other by threads ts: [HInv t c; HRes t r; ...] *)
Fixpoint seq_hist (l : list (nat * Call * Res)) : list hevent :=
  match l with [] => [] | (t, c, r) :: l' => HInv t c :: HRes t r :: seq_hist l' end.

Lemma upd_same P t x : upd P t x t = x.
Proof. unfold upd. destruct (Nat.eq_dec t t); congruence. Qed.
Lemma upd_other P t x t' : t' <> t -> upd P t x t' = P t'.
Proof. unfold upd. destruct (Nat.eq_dec t' t); congruence. Qed.

Lemma spec_run_app a cs c :
  spec_run a (cs ++ [c]) =
  (fst (spec (fst (spec_run a cs)) c), snd (spec_run a cs) ++ [snd (spec (fst (spec_run a cs)) c)]).
Proof.
  revert a. induction cs as [|c0 cs IH]; intros a; simpl.
  - destruct (spec a c); reflexivity.
  - destruct (spec a c0) as [a' r]. rewrite IH. destruct (spec_run a' cs) as [a'' rs]. reflexivity.
Qed.

Lemma seq_hist_app l x : seq_hist (l ++ [x]) = seq_hist l ++ seq_hist [x].
Proof. induction l as [|[[t c] r] l IH]; simpl; [reflexivity|]. rewrite IH. reflexivity. Qed.

(* soundness of the definition on sequential histories, both directions *)
Definition calls (l : list (nat * Call * Res)) := map (fun x => snd (fst x)) l.
Definition results (l : list (nat * Call * Res)) := map snd l.

(* what a possibility of a sequential history looks like (stated pointwise on the pending map:
   no functional extensionality is used): between calls nothing is pending; after the last
   invocation exactly that call is pending, its marker placed or not *)
Definition final_of (a0 : St) (l : list (nat * Call * Res)) : St := fst (spec_run a0 (calls l)).
Definition res_ok (a0 : St) (l : list (nat * Call * Res)) : Prop := results l = snd (spec_run a0 (calls l)).

Definition shape (a0 : St) (l : list (nat * Call * Res)) (cur : option (nat * Call)) (a : St) (P : pend) : Prop :=
  res_ok a0 l /\
  match cur with
  | None => a = final_of a0 l /\ forall t, P t = None
  | Some (t, c) =>
      (forall t', t' <> t -> P t' = None) /\
      ((a = final_of a0 l /\ P t = Some (c, None)) \/
       (a = fst (spec (final_of a0 l) c) /\ P t = Some (c, Some (snd (spec (final_of a0 l) c)))))
  end.

Definition hist_of (l : list (nat * Call * Res)) (cur : option (nat * Call)) : list hevent :=
  match cur with None => rev (seq_hist l) | Some (t, c) => HInv t c :: rev (seq_hist l) end.

Lemma rev_seq_hist_snoc (l : list (nat * Call * Res)) t c r : rev (seq_hist (l ++ [(t, c, r)])) = HRes t r :: HInv t c :: rev (seq_hist l).
Proof. rewrite seq_hist_app, rev_app_distr. reflexivity. Qed.

Lemma rev_seq_hist_cases (l : list (nat * Call * Res)) :
  l = [] \/ exists l' t c r, l = l' ++ [(t, c, r)].
Proof.
  destruct (rev l) as [|[[t c] r] l'] eqn:E.
  - left. apply (f_equal (@rev _)) in E. rewrite rev_involutive in E. exact E.
  - right. exists (rev l'), t, c, r. apply (f_equal (@rev _)) in E. rewrite rev_involutive in E. exact E.
Qed.

Lemma calls_snoc (l : list (nat * Call * Res)) t c r : calls (l ++ [(t, c, r)]) = calls l ++ [c].
Proof. unfold calls. rewrite map_app. reflexivity. Qed.
Lemma results_snoc (l : list (nat * Call * Res)) t c r : results (l ++ [(t, c, r)]) = results l ++ [r].
Proof. unfold results. rewrite map_app. reflexivity. Qed.

Lemma poss_shape a0 h a P : poss a0 h a P -> forall l cur, h = hist_of l cur -> shape a0 l cur a P.
Proof.
  induction 1 as [|h a P t c Hp IH HP|h a P t c Hp IH HP|h a P t c r Hp IH HP]; intros l cur E.
  - (* nil *)
    destruct cur as [[t c]|]; [discriminate|]. simpl in E.
    destruct (rev_seq_hist_cases l) as [->|(l' & t & c & r & ->)]; [|rewrite rev_seq_hist_snoc in E; discriminate].
    split; [reflexivity|]. split; reflexivity.
  - (* inv *)
    destruct cur as [[t0 c0]|]; simpl in E.
    + injection E as -> -> ->. specialize (IH l None eq_refl). destruct IH as (R & -> & Hn).
      split; [exact R|]. split.
      * intros t' Hne. rewrite upd_other by exact Hne. apply Hn.
      * left. split; [reflexivity|]. apply upd_same.
    + destruct (rev_seq_hist_cases l) as [->|(l' & t1 & c1 & r1 & ->)]; [discriminate|].
      rewrite rev_seq_hist_snoc in E. discriminate.
  - (* lin *)
    specialize (IH l cur E). destruct IH as (R & IH). split; [exact R|].
    destruct cur as [[t0 c0]|].
    + destruct IH as (Hn & [(-> & Ht)|(-> & Ht)]).
      * destruct (Nat.eq_dec t t0) as [->|Hne].
        -- rewrite Ht in HP. injection HP as ->. split.
           ++ intros t' Hne. rewrite upd_other by exact Hne. apply Hn. exact Hne.
           ++ right. split; [reflexivity|]. apply upd_same.
        -- rewrite Hn in HP by exact Hne. discriminate.
      * destruct (Nat.eq_dec t t0) as [->|Hne].
        -- rewrite Ht in HP. discriminate.
        -- rewrite Hn in HP by exact Hne. discriminate.
    + destruct IH as (_ & Hn). rewrite Hn in HP. discriminate.
  - (* res *)
    destruct cur as [[t0 c0]|]; simpl in E; [discriminate|].
    destruct (rev_seq_hist_cases l) as [->|(l' & t1 & c1 & r1 & ->)]; [discriminate|].
    rewrite rev_seq_hist_snoc in E. injection E as -> -> E.
    specialize (IH l' (Some (t1, c1)) E). destruct IH as (R & Hn & [(-> & Ht)|(-> & Ht)]).
    + rewrite Ht in HP. discriminate.
    + rewrite Ht in HP. injection HP as Hc Hr. subst c.
      unfold shape, res_ok, final_of in *. rewrite calls_snoc, results_snoc, spec_run_app. simpl.
      split; [rewrite R, <- Hr; reflexivity|]. split; [reflexivity|].
      intros t'. destruct (Nat.eq_dec t' t1) as [->|Hne]; [apply upd_same|].
      rewrite upd_other by exact Hne. apply Hn. exact Hne.
Qed.

Lemma shape_poss a0 l : res_ok a0 l -> exists P, poss a0 (rev (seq_hist l)) (final_of a0 l) P /\ forall t, P t = None.
Proof.
  induction l as [|[[t c] r] l IH] using rev_ind; intros R.
  - exists no_pend. split; [constructor|reflexivity].
  - unfold res_ok in R. rewrite calls_snoc, results_snoc, spec_run_app in R. simpl in R.
    apply app_inj_tail in R as [R Er].
    destruct (IH R) as (P & Hp & Hn).
    rewrite rev_seq_hist_snoc. unfold final_of. rewrite calls_snoc, spec_run_app. simpl. fold (final_of a0 l).
    eexists. split.
    + eapply poss_res with (c := c).
      * eapply poss_lin with (t := t) (c := c).
        -- eapply poss_inv with (t := t) (c := c); [exact Hp|apply Hn].
        -- apply upd_same.
      * rewrite upd_same. rewrite Er. reflexivity.
    + intros t'. destruct (Nat.eq_dec t' t) as [->|Hne]; [apply upd_same|].
      rewrite !upd_other by exact Hne. apply Hn.
Qed.

Theorem seq_linearizable_iff a0 l :
  linearizable a0 (seq_hist l) <-> results l = snd (spec_run a0 (calls l)).
Proof.
  split.
  - intros (a & P & Hp). apply (poss_shape _ _ _ _ Hp l None eq_refl).
  - intros R. destruct (shape_poss a0 l R) as (P & Hp & _). exists (final_of a0 l), P. exact Hp.
Qed.

End Lin.
