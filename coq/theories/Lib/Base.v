(* Base definitions shared by every model: Go results (value or panic),
   slicing with Go's bounds checks, in-place element writes, and the helper
   the correspondence check uses to report mismatching cases. Definitions only
   plus the small lemmas every proof file needs. *)
From Coq Require Export List ZArith Lia Bool Arith.
Export ListNotations.

(* A Go call either returns or panics. The panic kinds are the ones the
   harness can distinguish by message. *)
Inductive panic_kind := IndexOutOfRange | NilDeref | Explicit | DivByZero | SendOnClosed | OtherPanic.
Inductive result (A : Type) := Ok (a : A) | Panic (k : panic_kind).
Arguments Ok {A} a.
Arguments Panic {A} k.

Definition bind {A B} (r : result A) (f : A -> result B) : result B :=
  match r with Ok a => f a | Panic k => Panic k end.
Notation "'do' x <- r ; k" := (bind r (fun x => k)) (at level 200, x pattern, r at level 100, k at level 200).

Definition panic_kind_eqb (a b : panic_kind) : bool :=
  match a, b with
  | IndexOutOfRange, IndexOutOfRange | NilDeref, NilDeref | Explicit, Explicit
  | DivByZero, DivByZero | SendOnClosed, SendOnClosed | OtherPanic, OtherPanic => true
  | _, _ => false
  end.

Definition result_eqb {A} (eqb : A -> A -> bool) (x y : result A) : bool :=
  match x, y with
  | Ok a, Ok b => eqb a b
  | Panic k, Panic k' => panic_kind_eqb k k'
  | _, _ => false
  end.

(* s[lo:hi] on a slice whose length and capacity are both [length l]. *)
Definition slice_range {A} (l : list A) (lo hi : nat) : result (list A) :=
  if (lo <=? hi) && (hi <=? length l) then Ok (firstn (hi - lo) (skipn lo l))
  else Panic IndexOutOfRange.

(* s[i] = x *)
Fixpoint set_nth {A} (i : nat) (x : A) (l : list A) : result (list A) :=
  match l, i with
  | [], _ => Panic IndexOutOfRange
  | _ :: t, O => Ok (x :: t)
  | h :: t, S i' => do t' <- set_nth i' x t; Ok (h :: t')
  end.

(* s[i] *)
Definition get_nth {A} (i : nat) (l : list A) : result A :=
  match nth_error l i with Some a => Ok a | None => Panic IndexOutOfRange end.

Fixpoint list_eqb {A} (eqb : A -> A -> bool) (a b : list A) : bool :=
  match a, b with
  | [], [] => true
  | x :: a', y :: b' => eqb x y && list_eqb eqb a' b'
  | _, _ => false
  end.

Definition option_eqb {A} (eqb : A -> A -> bool) (a b : option A) : bool :=
  match a, b with Some x, Some y => eqb x y | None, None => true | _, _ => false end.

Definition prod_eqb {A B} (ea : A -> A -> bool) (eb : B -> B -> bool) (a b : A * B) : bool :=
  ea (fst a) (fst b) && eb (snd a) (snd b).

(* Indices (from 0) of the cases for which the check is false. The harness
   prints this list; [] means model and implementation agreed on every case. *)
Fixpoint bad_indices_from {C} (check : C -> bool) (i : nat) (cs : list C) : list nat :=
  match cs with
  | [] => []
  | c :: cs' => if check c then bad_indices_from check (S i) cs' else i :: bad_indices_from check (S i) cs'
  end.
Definition bad_indices {C} (check : C -> bool) (cs : list C) : list nat := bad_indices_from check 0 cs.

Lemma list_eqb_eq {A} (eqb : A -> A -> bool) :
  (forall x y, eqb x y = true <-> x = y) -> forall a b, list_eqb eqb a b = true <-> a = b.
Proof.
  intros H a; induction a as [|x a IH]; intros [|y b]; simpl; split; intro E; try discriminate; auto.
  - apply andb_true_iff in E as [E1 E2]. apply H in E1. apply IH in E2. congruence.
  - injection E as -> ->. apply andb_true_iff; split; [apply H | apply IH]; reflexivity.
Qed.

Lemma set_nth_length {A} i (x : A) l l' : set_nth i x l = Ok l' -> length l' = length l.
Proof.
  revert i l'; induction l as [|h t IH]; intros [|i] l' E; simpl in E; try discriminate.
  - injection E as <-. reflexivity.
  - destruct (set_nth i x t) as [t'|] eqn:Et; simpl in E; [|discriminate].
    injection E as <-. simpl. f_equal. eapply IH; eauto.
Qed.

Lemma set_nth_ok {A} i (x : A) l : i < length l -> exists l', set_nth i x l = Ok l'.
Proof.
  revert i; induction l as [|h t IH]; intros [|i] Hi; simpl in *; try lia.
  - eexists; reflexivity.
  - destruct (IH i) as [t' Et]; [lia|]. rewrite Et. simpl. eexists; reflexivity.
Qed.

Lemma set_nth_spec {A} i (x : A) l l' :
  set_nth i x l = Ok l' -> l' = firstn i l ++ x :: skipn (S i) l.
Proof.
  revert i l'; induction l as [|h t IH]; intros [|i] l' E; simpl in E; try discriminate.
  - injection E as <-. reflexivity.
  - destruct (set_nth i x t) as [t'|] eqn:Et; simpl in E; [|discriminate].
    injection E as <-. simpl. f_equal. apply IH. exact Et.
Qed.
