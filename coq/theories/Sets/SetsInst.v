(* The lemmas of Sets/*Proofs.v with the refinement hypotheses discharged by
   SyncMap/SeqProofs.v, in the form in which Props/C03.v states them. *)
From Typ Require Import Sets.AnySet Sets.MapSetProofs Sets.SyncSetProofs Sets.AnySetProofs SyncMap.SeqProofs.
From stdpp Require Import gmap list.
Local Open Scope Z_scope.

Lemma seq_ok_WF : seq_ok WF.
Proof.
  split.
  - exact WF_empty.
  - exact Load_spec.
  - exact LoadOrStore_spec.
  - exact LoadAndDelete_spec.
  - exact Range_spec.
  - exact abs_map_lookup.
Qed.

(* a sets.Set value in a state the sequential methods can reach *)
Definition wf_set : anyset → Prop := WFa WF.

Lemma new_set_spec i : wf_set (new_set i) ∧ abs (new_set i) = ∅.
Proof.
  destruct i; cbn; [done|]. split; [exact WF_empty|exact (sabs_empty WF seq_ok_WF)].
Qed.

Lemma constructors_spec i :
  (∀ l, ∃ a, new_from i (ms_NewSetFromSlice l) (ss_NewSetFromSlice l) = Ok a ∧ wf_set a ∧ abs a = list_to_set l) ∧
  (∀ m, ∃ a, new_from i (ms_NewSetFromKeys m) (ss_NewSetFromKeys m) = Ok a ∧ wf_set a ∧ abs a = list_to_set (map fst m)) ∧
  (∀ m, ∃ a, new_from i (ms_NewSetFromValues m) (ss_NewSetFromValues m) = Ok a ∧ wf_set a ∧ abs a = list_to_set (map snd m)).
Proof.
  split; [|split]; intros x; apply (new_from_spec WF).
  - apply ms_NewSetFromSlice_spec.
  - apply (ss_NewSetFromSlice_spec WF seq_ok_WF).
  - apply ms_NewSetFromKeys_spec.
  - apply (ss_NewSetFromKeys_spec WF seq_ok_WF).
  - apply ms_NewSetFromValues_spec.
  - apply (ss_NewSetFromValues_spec WF seq_ok_WF).
Qed.

Lemma visit_enumerates X order : covers X order →
  NoDup (visit X order) ∧ visit X order ≡ₚ elements X ∧ length (visit X order) = size X ∧
  ∀ v, v ∈ visit X order ↔ v ∈ X.
Proof.
  intros Hc. split; [apply visit_NoDup, Hc|]. split; [by apply visit_perm|]. split; [by apply visit_length|].
  intros v. by apply elem_of_visit.
Qed.

Lemma go_orders_cover :
  (∀ (s : mapset) order, order ≡ₚ elements s → covers (abs (AM s)) order) ∧
  (∀ (s : syncset) order, WF s → order ≡ₚ (map_to_list (read_m (range_promotion s))).*1 → covers (abs (AS s)) order).
Proof.
  split.
  - intros s order. apply covers_perm.
  - intros s order. apply (go_order_covers WF seq_ok_WF).
Qed.

Lemma observers_spec a order : wf_set a →
  (∀ v, wf_set (as_Has a v).1 ∧ abs (as_Has a v).1 = abs a ∧ (as_Has a v).2 = bool_decide (v ∈ abs a)) ∧
  (covers (abs a) order →
     wf_set (as_Len a order).1 ∧ abs (as_Len a order).1 = abs a ∧ (as_Len a order).2 = Z.of_nat (size (abs a))) ∧
  (wf_set (as_Slice a order).1 ∧ abs (as_Slice a order).1 = abs a ∧ (as_Slice a order).2 = visit (abs a) order) ∧
  (wf_set (as_String a order).1 ∧ abs (as_String a order).1 = abs a ∧ (as_String a order).2 = toks_of (visit (abs a) order)).
Proof.
  intros Hwf. split; [intros v; by apply (as_Has_spec WF seq_ok_WF)|].
  split; [intros Hc; by apply (as_Len_spec WF seq_ok_WF)|].
  split; [by apply (as_Slice_spec WF seq_ok_WF)|by apply (as_String_spec WF seq_ok_WF)].
Qed.

Lemma range_spec a order : wf_set a →
  (∀ A (f : A → Z → A * bool) acc,
     wf_set (as_Range a order f acc).1 ∧ abs (as_Range a order f acc).1 = abs a ∧
     (as_Range a order f acc).2 = range_cb f acc (visit (abs a) order)) ∧
  (∀ j, covers (abs a) order →
     let r := as_Range a order (stop_cb j) (O, []) in
     r.2.2 = take_stop j (visit (abs a) order) ∧
     r.2.1 = length r.2.2 ∧
     r.2.1 = match j with O => size (abs a) | _ => Nat.min j (size (abs a)) end).
Proof.
  intros Hwf. split; [intros A f acc; by apply (as_Range_spec WF seq_ok_WF)|].
  intros j Hc. destruct (as_Range_stop_spec WF seq_ok_WF a order j Hwf) as (_ & _ & H3 & H4).
  cbn zeta. rewrite H3. split; [done|]. split; [done|]. rewrite H4. by apply take_stop_length.
Qed.

Lemma cartesian_spec a b oa ob : wf_set a → wf_set b → covers (abs a) oa → (∀ va, covers (abs b) (ob va)) →
  let r := CartesianProduct a b oa ob in
  wf_set r.1.1 ∧ abs r.1.1 = abs a ∧ wf_set r.1.2 ∧ abs r.1.2 = abs b ∧
  NoDup r.2 ∧ length r.2 = (size (abs a) * size (abs b))%nat ∧
  ∀ x y, (x, y) ∈ r.2 ↔ x ∈ abs a ∧ y ∈ abs b.
Proof.
  intros Hwfa Hwfb Ha Hb.
  destruct (CartesianProduct_spec WF seq_ok_WF a b oa ob Hwfa Hwfb) as (H1 & H2 & H3 & H4 & H5).
  cbn zeta. rewrite H5. split; [done|]. split; [done|]. split; [done|]. split; [done|].
  by apply cp_spec_props.
Qed.

Lemma histories_spec ops hs Xs : rel WF hs Xs → all_orders_ok Xs ops →
  match spec_ops Xs ops with
  | Some (Xs', vs) => ∃ hs', run_ops hs ops = Some (Ok (hs', vs)) ∧ rel WF hs' Xs'
  | None => run_ops hs ops = None
  end.
Proof. exact (run_ops_spec WF seq_ok_WF ops hs Xs). Qed.
